import GV.Model.Minify
import GV.Spec.JsTokens

/-! Helper lemmas for GV.Props.C16: the byte-level scanner `rwLoop` refines the item-level algorithm `rwItems`. -/
namespace GV.Proofs.Minify
open GV.Minify GV.JsTokens

theorem nsEq : needsSpaceS = needsSpace := by funext c; rfl

theorem wsDrop_eq (prev : Nat) (x : Option Nat) : wsDrop prev x = dropsWs prev x := by
  unfold wsDrop dropsWs
  rw [nsEq]
  generalize needsSpace prev = a
  cases x with
  | none => cases a <;> cases h2 : (prev != 45) <;> simp_all
  | some n =>
    cases hb : needsSpace n <;> cases a <;> cases h2 : (prev != 45) <;> simp_all <;> try simp [bne]

/-- the string scanner on a well-formed body stops exactly at the closing quote -/
theorem strLoop_body : ∀ (n : Nat) (body tail : List Nat), body.length ≤ n → strBodyOK body = true →
    strLoop (body ++ 34 :: tail) = some (body, tail) := by
  intro n
  induction n with
  | zero =>
    intro body tail hl _
    have : body = [] := List.length_eq_zero_iff.mp (by omega)
    subst this
    rw [strLoop.eq_def]; simp
  | succ n ih =>
    intro body tail hl h
    cases body with
    | nil => rw [strLoop.eq_def]; simp
    | cons c r =>
      rw [strBodyOK.eq_def] at h
      simp only at h
      by_cases h34 : c = 34
      · simp [h34] at h
      · by_cases h92 : c = 92
        · subst h92
          cases r with
          | nil => simp at h
          | cons d r' =>
            simp at h
            have := ih r' tail (by simp at hl; omega) h
            rw [strLoop.eq_def]
            simp [this]
        · simp [h34, h92] at h
          have := ih r tail (by simp at hl; omega) h
          rw [strLoop.eq_def]
          simp [h34, h92, this]

theorem findStarSlash_body : ∀ (body tail : List Nat), hasStarSlash body = false →
    findStarSlash (body ++ 42 :: 47 :: tail) = some body.length
  | [], tail, _ => by simp [findStarSlash]
  | c :: r, tail, h => by
    simp only [hasStarSlash, Bool.or_eq_false_iff] at h
    have ih := findStarSlash_body r tail h.2
    have hc : (c == 42 && (r ++ 42 :: 47 :: tail).head? == some 47) = false := by
      cases r with
      | nil => simpa using h.1
      | cons d r' => simp; simpa using h.1
    simp only [List.cons_append, findStarSlash, hc, ih]
    simp

theorem dropComment_body (body tail : List Nat) (h : hasStarSlash body = false) :
    dropComment (47 :: 42 :: (body ++ [42, 47]) ++ tail) = some tail := by
  have : (47 :: 42 :: (body ++ [42, 47]) ++ tail) = 47 :: 42 :: (body ++ 42 :: 47 :: tail) := by simp
  rw [this]
  unfold dropComment
  simp only [List.drop_succ_cons, List.drop_zero, findStarSlash_body body tail h]
  simp

end GV.Proofs.Minify

namespace GV.Proofs.Minify
open GV.Minify GV.JsTokens

theorem ws_cases {c : Nat} (h : isWsByte c = true) : c = 32 ∨ c = 9 ∨ c = 10 := by
  simp [isWsByte] at h
  omega

theorem hint_shape {bs : List Nat} (h : (Item.hint bs).ok = true) :
    ∃ hi lo payload, bs = 8 :: hi :: lo :: payload ∧ payload.length = hi * 256 + lo := by
  simp only [Item.ok] at h
  split at h
  · rename_i m hi lo payload
    simp at h
    exact ⟨hi, lo, payload, by rw [h.1], h.2⟩
  · simp at h

theorem bytes_head (it : Item) (h : it.ok = true) : ∃ t, it.bytes = it.first :: t := by
  cases it with
  | ws c => exact ⟨[], rfl⟩
  | comment b => exact ⟨_, rfl⟩
  | hint bs =>
    obtain ⟨hi, lo, p, rfl, _⟩ := hint_shape h
    exact ⟨_, rfl⟩
  | str b => exact ⟨_, rfl⟩
  | ch c => exact ⟨[], rfl⟩

theorem head_flatten : ∀ (its : List Item), its.all Item.ok = true → (flatten its).head? = nextByte its
  | [], _ => rfl
  | it :: r, h => by
    simp only [List.all_cons, Bool.and_eq_true] at h
    obtain ⟨t, ht⟩ := bytes_head it h.1
    simp [flatten, ht, nextByte]

theorem flatten_nil_iff : ∀ (its : List Item), its.all Item.ok = true → (flatten its = [] ↔ its = [])
  | [], _ => by simp [flatten]
  | it :: r, h => by
    simp only [List.all_cons, Bool.and_eq_true] at h
    obtain ⟨t, ht⟩ := bytes_head it h.1
    simp [flatten, ht]

/-- first byte of the item after a `ch '/'` is not `*` -/
theorem next_not_star (r : List Item) (hok : r.all Item.ok = true) (hn : nssGo true r = true) :
    nextByte r ≠ some 42 := by
  cases r with
  | nil => simp [nextByte]
  | cons it r' =>
    simp only [List.all_cons, Bool.and_eq_true] at hok
    cases it with
    | ws c => rcases ws_cases (by simpa [Item.ok] using hok.1) with h | h | h <;> simp [nextByte, Item.first, h]
    | comment b => simp [nextByte, Item.first]
    | hint bs =>
      obtain ⟨hi, lo, p, rfl, _⟩ := hint_shape hok.1
      simp [nextByte, Item.first]
    | str b => simp [nextByte, Item.first]
    | ch c =>
      simp [nssGo] at hn
      simp [nextByte, Item.first, hn.1]

theorem rwLoop_nil (fuel prev : Nat) : rwLoop fuel prev [] = some [] := by
  cases fuel <;> simp [rwLoop]

/-- `removeWhitespace` on the bytes of a legal item sequence is the item-level algorithm. -/
theorem rwLoop_items : ∀ (its : List Item) (prev fuel : Nat) (f : Bool), its.all Item.ok = true → nssGo f its = true →
    (flatten its).length ≤ fuel → rwLoop fuel prev (flatten its) = (rwItems prev its).map flatten := by
  intro its
  induction its with
  | nil => intro prev fuel f _ _ _; simp [flatten, rwLoop_nil, rwItems]
  | cons it r ih =>
    intro prev fuel f hok hn hlen
    simp only [List.all_cons, Bool.and_eq_true] at hok
    obtain ⟨hit, hr⟩ := hok
    cases it with
    | ws c =>
      have hfl : flatten (Item.ws c :: r) = c :: flatten r := rfl
      rw [hfl] at hlen ⊢
      obtain ⟨fu, rfl⟩ : ∃ fu, fuel = fu + 1 := ⟨fuel - 1, by simp at hlen; omega⟩
      have hlen' : (flatten r).length ≤ fu := by simp at hlen; omega
      have hn' : nssGo false r = true := by simpa [nssGo] using hn
      rw [rwLoop.eq_3, head_flatten r hr, wsDrop_eq, rwItems]
      have hws : isWsByte c = true := by simpa [Item.ok] using hit
      have h8 : (c == 8) = false := by rcases ws_cases hws with h | h | h <;> subst h <;> rfl
      have hw : (c == 32 || c == 9 || c == 10) = true := by rcases ws_cases hws with h | h | h <;> subst h <;> rfl
      simp only [h8, hw, Bool.false_eq_true, if_false, if_true]
      (cases hd : dropsWs prev (nextByte r) with
         | none => rfl
         | some b =>
           cases b
           · simp only [ih _ fu false hr hn' hlen', Option.map_map]; rfl
           · simp only [ih _ fu false hr hn' hlen'])
    | comment body =>
      have hfl : flatten (Item.comment body :: r) = 47 :: (42 :: (body ++ [42, 47]) ++ flatten r) := rfl
      have hn' : nssGo false r = true := by simpa [nssGo] using hn
      have hb : hasStarSlash body = false := by
        have := hit
        simp only [Item.ok, Bool.and_eq_true, Bool.not_eq_true'] at this
        exact this.1
      have hlen0 := hlen
      rw [hfl] at hlen
      obtain ⟨fu, rfl⟩ : ∃ fu, fuel = fu + 1 := ⟨fuel - 1, by simp at hlen; omega⟩
      have hlen' : (flatten r).length ≤ fu := by simp at hlen; omega
      have hdc := dropComment_body body (flatten r) hb
      rw [hfl, rwLoop.eq_3, rwItems]
      simp only [List.cons_append, List.head?_cons] at hdc ⊢
      simp only [show (47 == 8) = false from rfl, show (47 == 32 || 47 == 9 || 47 == 10) = false from rfl,
        show (47 == 34) = false from rfl, show (47 == 47) = true from rfl, show (42 == 42) = true from rfl,
        Bool.false_eq_true, if_false, if_true, hdc]
      exact ih prev fu false hr hn' hlen'
    | hint bs =>
      obtain ⟨hi, lo, payload, rfl, hpl⟩ := hint_shape hit
      have hfl : flatten (Item.hint (8 :: hi :: lo :: payload) :: r) = 8 :: hi :: lo :: (payload ++ flatten r) := rfl
      have hn' : nssGo false r = true := by simpa [nssGo] using hn
      rw [hfl] at hlen
      obtain ⟨fu, rfl⟩ : ∃ fu, fuel = fu + 1 := ⟨fuel - 1, by simp at hlen; omega⟩
      have hlen' : (flatten r).length ≤ fu := by simp at hlen; omega
      rw [hfl, rwLoop.eq_3, rwItems]
      have hrl : readHintLen (8 :: hi :: lo :: (payload ++ flatten r)) = some (payload.length + 3) := by
        simp [readHintLen, hpl]
      have htake : List.take (payload.length + 3) (8 :: hi :: lo :: (payload ++ flatten r)) = 8 :: hi :: lo :: payload := by
        simp
      have hdrop : List.drop (payload.length + 3) (8 :: hi :: lo :: (payload ++ flatten r)) = flatten r := by
        simp
      simp only [show (8 == 8) = true from rfl, if_true, hrl, htake, hdrop, ih prev fu false hr hn' hlen', Option.map_map]
      rfl
    | str body =>
      have hfl : flatten (Item.str body :: r) = 34 :: (body ++ 34 :: flatten r) := by simp [flatten, Item.bytes]
      have hn' : nssGo false r = true := by simpa [nssGo] using hn
      have hb : strBodyOK body = true := by simpa [Item.ok] using hit
      rw [hfl] at hlen
      obtain ⟨fu, rfl⟩ : ∃ fu, fuel = fu + 1 := ⟨fuel - 1, by simp at hlen; omega⟩
      have hlen' : (flatten r).length ≤ fu := by simp at hlen; omega
      rw [hfl, rwLoop.eq_3, rwItems]
      simp only [show (34 == 8) = false from rfl, show (34 == 32 || 34 == 9 || 34 == 10) = false from rfl,
        show (34 == 34) = true from rfl, Bool.false_eq_true, if_false, if_true,
        strLoop_body body.length body (flatten r) (Nat.le_refl _) hb, ih 34 fu false hr hn' hlen', Option.map_map]
      congr 1
      funext o
      simp [flatten, Item.bytes]
    | ch y =>
      have hfl : flatten (Item.ch y :: r) = y :: flatten r := rfl
      have hn' : nssGo (y == 47) r = true := by
        simp only [nssGo, Bool.and_eq_true] at hn; exact hn.2
      have hy : isWsByte y = false ∧ (y == 8) = false ∧ (y == 34) = false := by
        have := hit
        simp [Item.ok] at this
        simp [this]
      rw [hfl] at hlen
      obtain ⟨fu, rfl⟩ : ∃ fu, fuel = fu + 1 := ⟨fuel - 1, by simp at hlen; omega⟩
      have hlen' : (flatten r).length ≤ fu := by simp at hlen; omega
      have hw : (y == 32 || y == 9 || y == 10) = false := hy.1
      rw [hfl, rwLoop.eq_3, rwItems, head_flatten r hr]
      simp only [hy.2.1, hy.2.2, hw, Bool.false_eq_true, if_false]
      by_cases h47 : y = 47
      · subst h47
        cases r with
        | nil => simp [nextByte]
        | cons it' r' =>
          have hns := next_not_star (it' :: r') hr (by simpa using hn')
          simp only [nextByte] at hns ⊢
          have hd : (it'.first == 42) = false := by
            simpa using hns
          simp only [show (47 == 47) = true from rfl, if_true, hd, Bool.false_eq_true, if_false, List.isEmpty_cons, Bool.and_false,
            ih 47 fu _ hr hn' hlen', Option.map_map]
          rfl
      · have h47' : (y == 47) = false := by simpa using h47
        simp only [h47', Bool.false_eq_true, if_false, Bool.false_and, ih y fu _ hr hn' hlen', Option.map_map]
        rfl

end GV.Proofs.Minify

namespace GV.Proofs.Minify
open GV.Minify GV.JsTokens

theorem ch_first {c : Nat} (h : (Item.ch c).ok = true) : c ≠ 32 ∧ c ≠ 9 ∧ c ≠ 10 ∧ c ≠ 8 ∧ c ≠ 34 := by
  simp [Item.ok, isWsByte] at h
  omega

/-- the parse of a byte string into items is unique -/
theorem parse_unique_aux : ∀ (a b : List Item) (f : Bool), a.all Item.ok = true → b.all Item.ok = true →
    nssGo f a = true → nssGo f b = true → flatten a = flatten b → a = b := by
  intro a
  induction a with
  | nil =>
    intro b f _ hb _ _ h
    exact ((flatten_nil_iff b hb).mp h.symm).symm
  | cons ia ra ih =>
    intro b f ha hb hna hnb h
    cases b with
    | nil => exact ((flatten_nil_iff _ ha).mp h)
    | cons ib rb =>
      simp only [List.all_cons, Bool.and_eq_true] at ha hb
      obtain ⟨hia, hra⟩ := ha
      obtain ⟨hib, hrb⟩ := hb
      have hfa : flatten (ia :: ra) = ia.bytes ++ flatten ra := rfl
      have hfb : flatten (ib :: rb) = ib.bytes ++ flatten rb := rfl
      rw [hfa, hfb] at h
      cases ia with
      | ws c =>
        have hc := ws_cases (by simpa [Item.ok] using hia)
        cases ib with
        | ws d =>
          simp [Item.bytes] at h
          obtain ⟨h1, h2⟩ := h
          subst h1
          rw [ih rb false hra hrb (by simpa [nssGo] using hna) (by simpa [nssGo] using hnb) h2]
        | comment d => simp [Item.bytes] at h; omega
        | hint d =>
          obtain ⟨hi, lo, p, rfl, _⟩ := hint_shape hib
          simp [Item.bytes] at h; omega
        | str d => simp [Item.bytes] at h; omega
        | ch d =>
          have := ch_first hib
          simp [Item.bytes] at h; omega
      | comment ba =>
        have hba : hasStarSlash ba = false := by
          have := hia
          simp only [Item.ok, Bool.and_eq_true, Bool.not_eq_true'] at this
          exact this.1
        cases ib with
        | ws d =>
          have hc := ws_cases (by simpa [Item.ok] using hib)
          simp [Item.bytes] at h; omega
        | comment bb =>
          have hbb : hasStarSlash bb = false := by
            have := hib
            simp only [Item.ok, Bool.and_eq_true, Bool.not_eq_true'] at this
            exact this.1
          simp only [Item.bytes, List.cons_append, List.cons.injEq, true_and, List.append_assoc] at h
          have e1 := findStarSlash_body ba (flatten ra) hba
          have e2 := findStarSlash_body bb (flatten rb) hbb
          simp only [List.cons_append, List.nil_append] at h
          rw [h, e2] at e1
          have hl : bb.length = ba.length := by simpa using e1
          have h3 := List.append_inj h hl.symm
          obtain ⟨h4, h5⟩ := h3
          simp at h5
          subst h4
          rw [ih rb false hra hrb (by simpa [nssGo] using hna) (by simpa [nssGo] using hnb) h5]
        | hint d =>
          obtain ⟨hi, lo, p, rfl, _⟩ := hint_shape hib
          simp [Item.bytes] at h
        | str d => simp [Item.bytes] at h
        | ch d =>
          simp only [Item.bytes, List.cons_append, List.cons.injEq, List.nil_append] at h
          obtain ⟨h1, h2⟩ := h
          subst h1
          have hn' : nssGo true rb = true := by
            simp only [nssGo, Bool.and_eq_true] at hnb; simpa using hnb.2
          have := next_not_star rb hrb hn'
          rw [← head_flatten rb hrb, ← h2] at this
          simp at this
      | hint ba =>
        obtain ⟨hi, lo, p, rfl, hp⟩ := hint_shape hia
        cases ib with
        | ws d =>
          have hc := ws_cases (by simpa [Item.ok] using hib)
          simp [Item.bytes] at h; omega
        | comment d => simp [Item.bytes] at h
        | hint bb =>
          obtain ⟨hi', lo', p', rfl, hp'⟩ := hint_shape hib
          simp only [Item.bytes, List.cons_append, List.cons.injEq, true_and] at h
          obtain ⟨h1, h2, h3⟩ := h
          subst h1; subst h2
          have h4 := List.append_inj h3 (by omega)
          obtain ⟨h5, h6⟩ := h4
          subst h5
          rw [ih rb false hra hrb (by simpa [nssGo] using hna) (by simpa [nssGo] using hnb) h6]
        | str d => simp [Item.bytes] at h
        | ch d =>
          have := ch_first hib
          simp [Item.bytes] at h; omega
      | str ba =>
        have hba : strBodyOK ba = true := by simpa [Item.ok] using hia
        cases ib with
        | ws d =>
          have hc := ws_cases (by simpa [Item.ok] using hib)
          simp [Item.bytes] at h; omega
        | comment d => simp [Item.bytes] at h
        | hint d =>
          obtain ⟨hi, lo, p, rfl, _⟩ := hint_shape hib
          simp [Item.bytes] at h
        | str bb =>
          have hbb : strBodyOK bb = true := by simpa [Item.ok] using hib
          simp only [Item.bytes, List.cons_append, List.cons.injEq, true_and, List.append_assoc, List.nil_append] at h
          have e1 := strLoop_body ba.length ba (flatten ra) (Nat.le_refl _) hba
          have e2 := strLoop_body bb.length bb (flatten rb) (Nat.le_refl _) hbb
          rw [h, e2] at e1
          simp at e1
          obtain ⟨h4, h5⟩ := e1
          subst h4
          rw [ih rb false hra hrb (by simpa [nssGo] using hna) (by simpa [nssGo] using hnb) h5.symm]
        | ch d =>
          have := ch_first hib
          simp [Item.bytes] at h; omega
      | ch c =>
        have hcf := ch_first hia
        cases ib with
        | ws d =>
          have hc := ws_cases (by simpa [Item.ok] using hib)
          simp [Item.bytes] at h; omega
        | comment d =>
          simp only [Item.bytes, List.cons_append, List.cons.injEq, List.nil_append] at h
          obtain ⟨h1, h2⟩ := h
          subst h1
          have hn' : nssGo true ra = true := by
            simp only [nssGo, Bool.and_eq_true] at hna; simpa using hna.2
          have := next_not_star ra hra hn'
          rw [← head_flatten ra hra, h2] at this
          simp at this
        | hint d =>
          obtain ⟨hi, lo, p, rfl, _⟩ := hint_shape hib
          simp [Item.bytes] at h; omega
        | str d => simp [Item.bytes] at h; omega
        | ch d =>
          simp [Item.bytes] at h
          obtain ⟨h1, h2⟩ := h
          subst h1
          simp only [nssGo, Bool.and_eq_true] at hna hnb
          rw [ih rb (c == 47) hra hrb hna.2 hnb.2 h2]

end GV.Proofs.Minify
