import GV.Proofs.Shift64

/-! `$div64` (numeric.js:118-177): the normalisation loop doubles the divisor and terminates within the model's fuel; the second
    loop is restoring division (invariant `loop_spec`); together they compute |x| / |y| and |x| % |y| (`magnitude_spec`); with the
    sign reconstruction this is truncated division / remainder on `BitVec 64` (`div64_correct`). -/
namespace GV.Proofs.Div64
open GV.JSInt GV.Num64 GV.NumScheme GV.Spec.Num GV.Proofs.Num GV.Proofs.Num64 GV.Proofs.Shift64

/-- one iteration of the normalisation loop doubles the divisor and keeps it a canonical unsigned pair -/
theorem norm_step (yh yl : Int) (hh : 0 ≤ yh ∧ yh < 2147483648) (hl : 0 ≤ yl ∧ yl < 4294967296) :
    let yh' := shr (bor (shl yh 1) (shr yl 31)) 0
    let yl' := shr (shl yl 1) 0
    yh' * 4294967296 + yl' = 2 * (yh * 4294967296 + yl) ∧ (0 ≤ yh' ∧ yh' < 4294967296) ∧ (0 ≤ yl' ∧ yl' < 4294967296) := by
  have sc1 : shiftCount 1 = 1 := shiftCount_lit 1 (by omega)
  have sc31 : shiftCount 31 = 31 := shiftCount_lit 31 (by omega)
  simp only [fix32u]
  unfold shl shr
  rw [sc1, sc31, toUint32_id hl]
  have hB : 0 ≤ yl / 2 ^ 31 ∧ yl / 2 ^ 31 < 2 ^ 1 := by omega
  have e1 := bor_shifted yh (yl / 2 ^ 31) 1 (by omega) hB
  have e2 := toUint32_mul yl (2 ^ 1)
  rw [e1, e2]
  omega

/-- the normalisation loop of `$div64` never runs out of the 64 units of fuel the model gives it (it terminates after at most
    63 iterations: the divisor doubles each time and the loop stops once its high word reaches 2^31) -/
theorem div64Norm_fuel (fuel : Nat) (xh xl yh yl : Int) (n : Nat) (hf : 0 < fuel)
    (hh : 0 ≤ yh ∧ yh < 4294967296) (hl : 0 ≤ yl ∧ yl < 4294967296)
    (hv : (2 : Int) ^ (64 - fuel) ≤ yh * 4294967296 + yl) :
    0 < (div64Norm fuel xh xl yh yl n).2.2.2 := by
  induction fuel generalizing yh yl n with
  | zero => omega
  | succ f ih =>
    unfold div64Norm
    split
    · next hc =>
      have hlt : yh < 2147483648 := hc.1
      have st := norm_step yh yl ⟨hh.1, hlt⟩ hl
      simp only at st
      by_cases hf0 : f = 0
      · -- fuel 1: value ≥ 2^63 contradicts yh < 2^31
        subst hf0
        have : (2 : Int) ^ (64 - (0 + 1)) = 9223372036854775808 := by decide
        rw [this] at hv; omega
      · apply ih _ _ _ (by omega) st.2.1 st.2.2
        rw [st.1]
        by_cases hbig : f + 1 ≤ 64
        · have e : (2 : Int) ^ (64 - f) = 2 * 2 ^ (64 - (f + 1)) := by
            have : 64 - f = (64 - (f + 1)) + 1 := by omega
            rw [this, Int.pow_succ]; omega
          omega
        · have h1 : 64 - f = 0 := by omega
          have h2 : 64 - (f + 1) = 0 := by omega
          rw [h2] at hv; rw [h1]
          simp only [Int.pow_zero] at *
          omega
    · simp
/-- value of an unsigned pair -/
def val (h l : Int) : Int := h * 4294967296 + l
/-- canonical unsigned pair -/
def UCan (h l : Int) : Prop := (0 ≤ h ∧ h < 4294967296) ∧ (0 ≤ l ∧ l < 4294967296)
/-- the quotient accumulated in (`high`, `low`): `high` is an int32 (result of `|`), read modulo 2^32 -/
def qval (st : DivSt) : Int := toUint32 st.high * 4294967296 + st.low

theorem step_spec (st : DivSt) (hx : UCan st.xHigh st.xLow) (hy : UCan st.yHigh st.yLow)
    (hl : 0 ≤ st.low ∧ st.low < 4294967296) (hq : 2 * qval st + 1 < 18446744073709551616) :
    UCan (div64Step st).xHigh (div64Step st).xLow ∧ UCan (div64Step st).yHigh (div64Step st).yLow ∧
    (0 ≤ (div64Step st).low ∧ (div64Step st).low < 4294967296) ∧
    val (div64Step st).yHigh (div64Step st).yLow = val st.yHigh st.yLow / 2 ∧
    (if val st.xHigh st.xLow ≥ val st.yHigh st.yLow
      then val (div64Step st).xHigh (div64Step st).xLow = val st.xHigh st.xLow - val st.yHigh st.yLow ∧ qval (div64Step st) = 2 * qval st + 1
      else val (div64Step st).xHigh (div64Step st).xLow = val st.xHigh st.xLow ∧ qval (div64Step st) = 2 * qval st) := by
  obtain ⟨hxh, hxl⟩ := hx
  obtain ⟨hyh, hyl⟩ := hy
  have sc1 : shiftCount 1 = 1 := shiftCount_lit 1 (by omega)
  have sc31 : shiftCount 31 = 31 := shiftCount_lit 31 (by omega)
  have sc31' : shiftCount (32 - 1) = 31 := sc31
  -- the new quotient words
  have eH : toUint32 (bor (shl st.high 1) (shr st.low 31)) = (st.high % 2 ^ 31) * 2 ^ 1 + st.low / 2 ^ 31 := by
    unfold shl shr; rw [sc1, sc31, toUint32_id hl]
    exact bor_shifted st.high (st.low / 2 ^ 31) 1 (by omega) (by omega)
  have eL : shr (shl st.low 1) 0 = (st.low * 2 ^ 1) % 4294967296 := by
    rw [fix32u]; unfold shl; rw [sc1]; exact toUint32_mul st.low (2 ^ 1)
  -- the halved divisor
  have eYl : shr (bor (shr st.yLow 1) (shl st.yHigh (32 - 1))) 0 = (st.yHigh % 2 ^ 1) * 2 ^ (32 - 1) + st.yLow / 2 ^ 1 := by
    rw [fix32u]; unfold shl shr; rw [sc1, sc31', toUint32_id hyl]
    exact shr_low st.yHigh st.yLow 1 (by omega) (by omega) hyl
  have eYh : shr st.yHigh 1 = st.yHigh / 2 ^ 1 := by
    unfold shr; rw [sc1, toUint32_id hyh]
  unfold div64Step
  simp only [eL, eYl, eYh]
  generalize bor (shl st.high 1) (shr st.low 31) = H at *
  unfold qval val at *
  simp only []
  have cmp : (st.xHigh > st.yHigh ∨ (st.xHigh = st.yHigh ∧ st.xLow ≥ st.yLow)) ↔
      st.xHigh * 4294967296 + st.xLow ≥ st.yHigh * 4294967296 + st.yLow := by omega
  by_cases hc : st.xHigh > st.yHigh ∨ (st.xHigh = st.yHigh ∧ st.xLow ≥ st.yLow)
  · have hc' := cmp.1 hc
    rw [if_pos hc, if_pos hc']
    simp only [UCan]
    unfold toUint32 at *
    simp only [Nat.reduceSub, Int.reducePow, Int.pow_one] at *
    refine ⟨?_, ?_, ?_, ?_, ?_, ?_⟩ <;> (repeat' split) <;> first | omega | exact True.intro
  · have hc' : ¬ (st.xHigh * 4294967296 + st.xLow ≥ st.yHigh * 4294967296 + st.yLow) := fun h => hc (cmp.2 h)
    rw [if_neg hc, if_neg hc']
    simp only [UCan]
    unfold toUint32 at *
    simp only [Nat.reduceSub, Int.reducePow, Int.pow_one] at *
    refine ⟨?_, ?_, ?_, ?_, ?_, ?_⟩ <;> first | omega | exact True.intro

/-- the second loop of `$div64` (numeric.js:154-171): restoring division. Before the remaining `m` iterations
    `X0 = q * (Yb * 2^m) + x`, `x < Yb * 2^m`, and the divisor register holds `Yb * 2^(m-1)`; after them `X0 = q * Yb + x`, `x < Yb`. -/
theorem loop_spec (m : Nat) : ∀ (st : DivSt) (X0 Yb : Int), 0 < Yb → X0 < 18446744073709551616 →
    UCan st.xHigh st.xLow → UCan st.yHigh st.yLow → (0 ≤ st.low ∧ st.low < 4294967296) →
    X0 = qval st * (Yb * 2 ^ m) + val st.xHigh st.xLow → 0 ≤ qval st → val st.xHigh st.xLow < Yb * 2 ^ m →
    (1 ≤ m → val st.yHigh st.yLow = Yb * 2 ^ (m - 1)) →
    X0 = qval (div64Loop m st) * Yb + val (div64Loop m st).xHigh (div64Loop m st).xLow ∧
    val (div64Loop m st).xHigh (div64Loop m st).xLow < Yb ∧ 0 ≤ qval (div64Loop m st) ∧
    UCan (div64Loop m st).xHigh (div64Loop m st).xLow ∧ (0 ≤ (div64Loop m st).low ∧ (div64Loop m st).low < 4294967296) := by
  induction m with
  | zero =>
    intro st X0 Yb hYb hX0 hx hy hl hinv hq0 hlt _
    simp only [div64Loop, Int.pow_zero, Int.mul_one] at *
    exact ⟨hinv, hlt, hq0, hx, hl⟩
  | succ m ih =>
    intro st X0 Yb hYb hX0 hx hy hl hinv hq0 hlt hY
    have hYv : val st.yHigh st.yLow = Yb * 2 ^ m := by simpa using hY (by omega)
    have hpow : Yb * 2 ^ (m + 1) = (Yb * 2 ^ m) * 2 := by rw [Int.pow_succ, Int.mul_assoc]
    have hP : 0 < Yb * 2 ^ m := Int.mul_pos hYb (two_pow_pos m)
    rw [hpow] at hinv hlt
    have hxnn : 0 ≤ val st.xHigh st.xLow := by unfold val; have := hx.1; have := hx.2; omega
    generalize hPdef : Yb * 2 ^ m = P at *
    -- 2 * q ≤ X0, so doubling the quotient cannot overflow
    have h2q : qval st * 2 ≤ qval st * (P * 2) := Int.mul_le_mul_of_nonneg_left (by omega) hq0
    have hq : 2 * qval st + 1 < 18446744073709551616 := by omega
    have sp := step_spec st hx hy hl hq
    obtain ⟨sx, sy, sl, syv, sb⟩ := sp
    simp only [div64Loop]
    rw [hYv] at syv sb
    apply ih (div64Step st) X0 Yb hYb hX0 sx sy sl
    · -- the invariant after the step
      rw [hPdef]
      by_cases hc : val st.xHigh st.xLow ≥ P
      · rw [if_pos hc] at sb; rw [sb.1, sb.2]
        have : qval st * (P * 2) = (2 * qval st + 1) * P - P := by grind
        omega
      · rw [if_neg hc] at sb; rw [sb.1, sb.2]
        have : qval st * (P * 2) = 2 * qval st * P := by grind
        omega
    · by_cases hc : val st.xHigh st.xLow ≥ P
      · rw [if_pos hc] at sb; omega
      · rw [if_neg hc] at sb; omega
    · rw [hPdef]
      by_cases hc : val st.xHigh st.xLow ≥ P
      · rw [if_pos hc] at sb; omega
      · rw [if_neg hc] at sb; omega
    · intro hm
      rw [syv]
      have : m = (m - 1) + 1 := by omega
      rw [← hPdef]
      conv => lhs; rw [this, Int.pow_succ, ← Int.mul_assoc]
      exact Int.mul_ediv_cancel _ (by omega)

/-- the first loop of `$div64` (numeric.js:148-152): it stops within the fuel, having doubled the divisor `k` times without
    overflow, and then `x < 2 * y'` -/
theorem norm_spec (fuel : Nat) : ∀ (xh xl yh yl : Int) (n : Nat), 0 < fuel → UCan xh xl → UCan yh yl → 1 ≤ val yh yl →
    (2 : Int) ^ (64 - fuel) ≤ val yh yl →
    ∃ k : Nat, (div64Norm fuel xh xl yh yl n).2.2.1 = n + k ∧
      val (div64Norm fuel xh xl yh yl n).1 (div64Norm fuel xh xl yh yl n).2.1 = val yh yl * 2 ^ k ∧
      UCan (div64Norm fuel xh xl yh yl n).1 (div64Norm fuel xh xl yh yl n).2.1 ∧
      val xh xl < 2 * val (div64Norm fuel xh xl yh yl n).1 (div64Norm fuel xh xl yh yl n).2.1 := by
  induction fuel with
  | zero => intro _ _ _ _ _ h; omega
  | succ f ih =>
    intro xh xl yh yl n _ hx hy h1 hv
    unfold div64Norm
    by_cases hc : yh < 2147483648 ∧ (xh > yh ∨ (xh = yh ∧ xl > yl))
    · rw [if_pos hc]
      have st := norm_step yh yl ⟨hy.1.1, hc.1⟩ hy.2
      simp only at st
      by_cases hf0 : f = 0
      · subst hf0
        have : (2 : Int) ^ (64 - (0 + 1)) = 9223372036854775808 := by decide
        rw [this] at hv; unfold val at hv; have := hy.2; omega
      · have hv' : (2 : Int) ^ (64 - f) ≤ val (shr (bor (shl yh 1) (shr yl 31)) 0) (shr (shl yl 1) 0) := by
          unfold val at *
          rw [st.1]
          by_cases hbig : f + 1 ≤ 64
          · have e : (2 : Int) ^ (64 - f) = 2 * 2 ^ (64 - (f + 1)) := by
              have : 64 - f = (64 - (f + 1)) + 1 := by omega
              rw [this, Int.pow_succ]; omega
            omega
          · have h1' : 64 - f = 0 := by omega
            rw [h1']; simp only [Int.pow_zero]; omega
        have h1' : 1 ≤ val (shr (bor (shl yh 1) (shr yl 31)) 0) (shr (shl yl 1) 0) := by
          unfold val at *; rw [st.1]; omega
        obtain ⟨k, e1, e2, e3, e4⟩ := ih xh xl _ _ (n + 1) (by omega) hx ⟨st.2.1, st.2.2⟩ h1' hv'
        refine ⟨k + 1, by omega, ?_, e3, e4⟩
        rw [e2]
        unfold val at *
        rw [st.1, Int.pow_succ]
        generalize (2 : Int) ^ k = pk
        grind
    · rw [if_neg hc]
      refine ⟨0, by simp, by simp, hy, ?_⟩
      simp only
      unfold val at *
      have := hx.1; have := hx.2; have := hy.1; have := hy.2
      omega

/-- the state after both loops of `$div64`, started on the magnitudes (xh, xl), (yh, yl) -/
def afterLoops (xh xl yh yl : Int) : DivSt :=
  let nr := div64Norm 64 xh xl yh yl 0
  div64Loop (nr.2.2.1 + 1) ⟨xh, xl, nr.1, nr.2.1, 0, 0⟩

/-- both loops together, on magnitudes: the quotient register holds `|x| / |y|`, the dividend register `|x| % |y|` -/
theorem magnitude_spec (xh xl yh yl : Int) (hx : UCan xh xl) (hy : UCan yh yl) (hy1 : 1 ≤ val yh yl) :
    qval (afterLoops xh xl yh yl) = val xh xl / val yh yl ∧
    val (afterLoops xh xl yh yl).xHigh (afterLoops xh xl yh yl).xLow = val xh xl % val yh yl ∧
    UCan (afterLoops xh xl yh yl).xHigh (afterLoops xh xl yh yl).xLow ∧
    (0 ≤ (afterLoops xh xl yh yl).low ∧ (afterLoops xh xl yh yl).low < 4294967296) := by
  obtain ⟨k, e1, e2, e3, e4⟩ := norm_spec 64 xh xl yh yl 0 (by omega) hx hy hy1 (by simpa using hy1)
  have hX0 : val xh xl < 18446744073709551616 := by unfold val; have := hx.1; have := hx.2; omega
  have hX00 : 0 ≤ val xh xl := by unfold val; have := hx.1; have := hx.2; omega
  unfold afterLoops
  simp only []
  generalize div64Norm 64 xh xl yh yl 0 = nr at *
  have hn : nr.2.2.1 + 1 = k + 1 := by omega
  have hq0 : qval (⟨xh, xl, nr.1, nr.2.1, 0, 0⟩ : DivSt) = 0 := by simp [qval, toUint32]
  have key := loop_spec (k + 1) ⟨xh, xl, nr.1, nr.2.1, 0, 0⟩ (val xh xl) (val yh yl) (by omega) hX0 hx e3 (by simp)
    (by rw [hq0]; simp) (by rw [hq0]; omega)
    (by show val xh xl < val yh yl * 2 ^ (k + 1)
        rw [Int.pow_succ, ← Int.mul_assoc]
        omega)
    (by intro _; show val nr.1 nr.2.1 = val yh yl * 2 ^ (k + 1 - 1); simpa using e2)
  rw [← hn] at key
  generalize div64Loop (nr.2.2.1 + 1) ⟨xh, xl, nr.1, nr.2.1, 0, 0⟩ = st at *
  obtain ⟨k1, k2, k3, k4, k5⟩ := key
  have hr0 : 0 ≤ val st.xHigh st.xLow := by unfold val; have := k4.1; have := k4.2; omega
  have := (Int.ediv_emod_unique (a := val xh xl) (b := val yh yl) (q := qval st) (r := val st.xHigh st.xLow) (by omega)).2
    ⟨by rw [Int.mul_comm]; omega, hr0, k2⟩
  exact ⟨this.1.symm, this.2.symm, k4, k5⟩

/-! #### signs -/

theorem magnitude_spec' (h l : Int) (hh : -2147483648 ≤ h ∧ h < 4294967296) (hl : 0 ≤ l ∧ l < 4294967296) :
    UCan (magnitude h l).1 (magnitude h l).2 ∧
    val (magnitude h l).1 (magnitude h l).2 = (if h < 0 then -(h * 4294967296 + l) else h * 4294967296 + l) := by
  unfold magnitude UCan val
  by_cases h1 : h < 0
  · by_cases h2 : l ≠ 0
    · simp only [h1, h2, if_true, ne_eq, not_false_eq_true]; omega
    · simp only [h1, h2, if_true, if_false]; omega
  · simp only [h1, if_false]
    exact ⟨⟨⟨by omega, by omega⟩, hl⟩, True.intro⟩

theorem tdiv_abs (X Y : Int) :
    X.tdiv Y = (if X < 0 then -1 else 1) * (if Y < 0 then -1 else 1) * ((if X < 0 then -X else X) / (if Y < 0 then -Y else Y)) := by
  by_cases hX : X < 0 <;> by_cases hY : Y < 0 <;> simp only [hX, hY, if_true, if_false]
  · have e1 : X.tdiv Y = (- -X).tdiv (- -Y) := by rw [Int.neg_neg, Int.neg_neg]
    rw [e1, Int.neg_tdiv, Int.tdiv_neg, Int.tdiv_eq_ediv_of_nonneg (by omega)]; omega
  · have e1 : X.tdiv Y = (- -X).tdiv Y := by rw [Int.neg_neg]
    rw [e1, Int.neg_tdiv, Int.tdiv_eq_ediv_of_nonneg (by omega)]; omega
  · have e1 : X.tdiv Y = X.tdiv (- -Y) := by rw [Int.neg_neg]
    rw [e1, Int.tdiv_neg, Int.tdiv_eq_ediv_of_nonneg (by omega)]; omega
  · rw [Int.tdiv_eq_ediv_of_nonneg (by omega)]; omega

theorem tmod_abs (X Y : Int) :
    X.tmod Y = (if X < 0 then -1 else 1) * ((if X < 0 then -X else X) % (if Y < 0 then -Y else Y)) := by
  by_cases hX : X < 0 <;> by_cases hY : Y < 0 <;> simp only [hX, hY, if_true, if_false]
  · have e1 : X.tmod Y = (- -X).tmod Y := by rw [Int.neg_neg]
    rw [e1, Int.neg_tmod, Int.tmod_eq_emod_of_nonneg (by omega), Int.emod_neg]; omega
  · have e1 : X.tmod Y = (- -X).tmod Y := by rw [Int.neg_neg]
    rw [e1, Int.neg_tmod, Int.tmod_eq_emod_of_nonneg (by omega)]; omega
  · rw [Int.tmod_eq_emod_of_nonneg (by omega), Int.emod_neg]; omega
  · rw [Int.tmod_eq_emod_of_nonneg (by omega)]; omega

/-! #### the full `$div64` -/

theorem toInt_toBV (x : W64) (hx : Canon true x) : (toBV x).toInt = flatten64 x := by
  have hc := hx.1; simp only [if_true] at hc
  have hl := hx.2
  simp only [toBV, flatten64, BitVec.toInt_ofInt, Int.bmod_def, Nat.reducePow, Int.cast_ofNat_Int]; omega

theorem toNat_toBV (x : W64) (hx : Canon false x) : ((toBV x).toNat : Int) = flatten64 x := by
  have hc := hx.1; simp only [Bool.false_eq_true, if_false] at hc
  have hl := hx.2
  simp only [toBV, BitVec.toNat_ofInt, Nat.reducePow, Int.cast_ofNat_Int]
  rw [Int.toNat_of_nonneg (Int.emod_nonneg _ (by omega))]
  unfold flatten64; omega

theorem div64_eq (s : Bool) (x y : W64) (r : Bool) (h0 : ¬ (y.high = 0 ∧ y.low = 0)) :
    div64 s x y r =
      (if r then some (mk64 s ((afterLoops (magnitude x.high x.low).1 (magnitude x.high x.low).2 (magnitude y.high y.low).1 (magnitude y.high y.low).2).xHigh * (if x.high < 0 then -1 else 1))
                          ((afterLoops (magnitude x.high x.low).1 (magnitude x.high x.low).2 (magnitude y.high y.low).1 (magnitude y.high y.low).2).xLow * (if x.high < 0 then -1 else 1)))
       else some (mk64 s ((afterLoops (magnitude x.high x.low).1 (magnitude x.high x.low).2 (magnitude y.high y.low).1 (magnitude y.high y.low).2).high * (if y.high < 0 then (if x.high < 0 then -1 else 1) * -1 else (if x.high < 0 then -1 else 1)))
                          ((afterLoops (magnitude x.high x.low).1 (magnitude x.high x.low).2 (magnitude y.high y.low).1 (magnitude y.high y.low).2).low * (if y.high < 0 then (if x.high < 0 then -1 else 1) * -1 else (if x.high < 0 then -1 else 1))))) := by
  unfold div64 afterLoops
  rw [if_neg h0]

theorem toBV_eq_zero' (s : Bool) (y : W64) (hy : Canon s y) : toBV y = 0 ↔ (y.high = 0 ∧ y.low = 0) := by
  constructor
  · intro h
    cases s
    · have := toNat_toBV y hy; rw [h] at this; simp at this
      have hc := hy.1; simp only [Bool.false_eq_true, if_false] at hc; have := hy.2; unfold flatten64 at *; omega
    · have := toInt_toBV y hy; rw [h] at this; simp at this
      have hc := hy.1; simp only [if_true] at hc; have := hy.2; unfold flatten64 at *; omega
  · intro h; simp only [toBV, flatten64, h.1, h.2]; rfl

/-- the word pair `(H, L)` with `H` read modulo 2^32, multiplied by a sign, denotes `sg * value` modulo 2^64 -/
theorem toBV_signed_pair (s : Bool) (H L sg : Int) (hs : sg = 1 ∨ sg = -1) :
    toBV (mk64 s (H * sg) (L * sg)) = BitVec.ofInt 64 (sg * (toUint32 H * 4294967296 + L)) := by
  rw [toBV_mk64]; apply ofInt64_congr
  unfold toUint32
  rcases hs with h | h <;> subst h <;> omega

theorem div64_correct (s : Bool) (x y : W64) (r : Bool) (hx : Canon s x) (hy : Canon s y) :
    (div64 s x y r).map toBV = specBin s (if r then .rem else .quo) (toBV x) (toBV y) := by
  have hz := toBV_eq_zero' s y hy
  by_cases h0 : y.high = 0 ∧ y.low = 0
  · have hb : toBV y = 0 := hz.2 h0
    cases r <;> simp [div64, h0, specBin, hb]
  have hb : ¬ toBV y = 0 := fun h => h0 (hz.1 h)
  rw [div64_eq s x y r h0]
  -- ranges of the operands
  have hxl := hx.2; have hyl := hy.2
  have hxh : -2147483648 ≤ x.high ∧ x.high < 4294967296 := by
    have := hx.1; cases s <;> simp only [if_true, if_false, Bool.false_eq_true] at this <;> omega
  have hyh : -2147483648 ≤ y.high ∧ y.high < 4294967296 := by
    have := hy.1; cases s <;> simp only [if_true, if_false, Bool.false_eq_true] at this <;> omega
  obtain ⟨mxc, mxv⟩ := magnitude_spec' x.high x.low hxh hxl
  obtain ⟨myc, myv⟩ := magnitude_spec' y.high y.low hyh hyl
  have hy1 : 1 ≤ val (magnitude y.high y.low).1 (magnitude y.high y.low).2 := by rw [myv]; split <;> omega
  obtain ⟨q1, q2, q3, q4⟩ := magnitude_spec _ _ _ _ mxc myc hy1
  rw [mxv, myv] at q1 q2
  generalize afterLoops (magnitude x.high x.low).1 (magnitude x.high x.low).2 (magnitude y.high y.low).1 (magnitude y.high y.low).2 = st at *
  -- signs of the values
  have hX : (x.high < 0) ↔ flatten64 x < 0 := by unfold flatten64; omega
  have hY : (y.high < 0) ↔ flatten64 y < 0 := by unfold flatten64; omega
  have eX : x.high * 4294967296 + x.low = flatten64 x := rfl
  have eY : y.high * 4294967296 + y.low = flatten64 y := rfl
  rw [eX, eY] at q1 q2
  simp only [hX, hY] at q1 q2 ⊢
  generalize hXv : flatten64 x = X at *
  generalize hYv : flatten64 y = Y at *
  cases r
  · -- quotient
    simp only [Bool.false_eq_true, if_false, Option.map, specBin, hb]
    congr 1
    rw [toBV_signed_pair s st.high st.low _ (by split <;> split <;> omega)]
    have hq : toUint32 st.high * 4294967296 + st.low = (if X < 0 then -X else X) / (if Y < 0 then -Y else Y) := q1
    rw [hq]
    have htd : (if Y < 0 then (if X < 0 then (-1 : Int) else 1) * -1 else (if X < 0 then -1 else 1)) *
        ((if X < 0 then -X else X) / (if Y < 0 then -Y else Y)) = X.tdiv Y := by
      rw [tdiv_abs X Y]; split <;> split <;> omega
    rw [htd]
    cases s
    · -- unsigned: X, Y ≥ 0
      simp only [Bool.false_eq_true, if_false]
      have hXn := toNat_toBV x hx; have hYn := toNat_toBV y hy
      rw [hXv] at hXn; rw [hYv] at hYn
      have hX0 : 0 ≤ X := by omega
      apply BitVec.eq_of_toNat_eq; apply Int.ofNat_inj.1
      rw [BitVec.toNat_udiv, Int.natCast_ediv, hXn, hYn, BitVec.toNat_ofInt, Int.tdiv_eq_ediv_of_nonneg hX0]
      have h1 : 0 ≤ X / Y := Int.ediv_nonneg hX0 (by omega)
      have h2 : X / Y ≤ X := Int.ediv_le_self Y hX0
      have hXlt : X < 18446744073709551616 := by
        have := (toBV x).isLt; omega
      rw [Int.toNat_of_nonneg (Int.emod_nonneg _ (by decide))]
      simp only [Nat.reducePow, Int.cast_ofNat_Int]
      rw [Int.emod_eq_of_lt h1 (by omega)]
    · simp only [if_true]
      apply BitVec.eq_of_toInt_eq
      rw [BitVec.toInt_sdiv, toInt_toBV x hx, toInt_toBV y hy, hXv, hYv, BitVec.toInt_ofInt]
  · -- remainder
    simp only [if_true, Option.map, specBin, hb, if_false]
    congr 1
    have e0 : toBV (mk64 s (st.xHigh * (if X < 0 then -1 else 1)) (st.xLow * (if X < 0 then -1 else 1))) =
        BitVec.ofInt 64 ((if X < 0 then -1 else 1) * val st.xHigh st.xLow) := by
      rw [toBV_mk64]; apply ofInt64_congr; unfold val; split <;> omega
    rw [e0, q2]
    have htm : (if X < 0 then (-1 : Int) else 1) * ((if X < 0 then -X else X) % (if Y < 0 then -Y else Y)) = X.tmod Y :=
      (tmod_abs X Y).symm
    rw [htm]
    cases s
    · simp only [Bool.false_eq_true, if_false]
      have hXn := toNat_toBV x hx; have hYn := toNat_toBV y hy
      rw [hXv] at hXn; rw [hYv] at hYn
      have hX0 : 0 ≤ X := by omega
      have hY0 : 0 < Y := by
        have : Y ≠ 0 := by
          intro h; apply h0; unfold flatten64 at hYv
          have := hy.1; simp only [Bool.false_eq_true, if_false] at this; omega
        omega
      apply BitVec.eq_of_toNat_eq; apply Int.ofNat_inj.1
      rw [BitVec.toNat_umod, Int.natCast_emod, hXn, hYn, BitVec.toNat_ofInt, Int.tmod_eq_emod_of_nonneg hX0]
      have h1 : 0 ≤ X % Y := Int.emod_nonneg _ (by omega)
      have h2 : X % Y < Y := Int.emod_lt_of_pos _ hY0
      have hYlt : Y < 18446744073709551616 := by have := (toBV y).isLt; omega
      rw [Int.toNat_of_nonneg (Int.emod_nonneg _ (by decide))]
      simp only [Nat.reducePow, Int.cast_ofNat_Int]
      rw [Int.emod_eq_of_lt h1 (by omega)]
    · simp only [if_true]
      apply BitVec.eq_of_toInt_eq
      rw [BitVec.toInt_srem, toInt_toBV x hx, toInt_toBV y hy, hXv, hYv, BitVec.toInt_ofInt]
      -- |X tmod Y| ≤ |X| ≤ 2^63, and = 2^63 is impossible
      have h1 := Int.natAbs_tmod X Y
      have h2 : (X.tmod Y).natAbs ≤ X.natAbs := by rw [h1]; exact Nat.mod_le _ _
      have hXr : -9223372036854775808 ≤ X ∧ X < 9223372036854775808 := by
        rw [← hXv]; have := hx.1; simp only [if_true] at this; unfold flatten64; omega
      have h3 : 0 ≤ X → 0 ≤ X.tmod Y := fun h => Int.tmod_nonneg Y h
      have h4 : X ≤ 0 → X.tmod Y ≤ 0 := by
        intro h
        have := Int.tmod_nonneg Y (show 0 ≤ -X by omega)
        rw [Int.neg_tmod] at this; omega
      have h5 : X.tmod Y ≠ -9223372036854775808 ∨ True := Or.inr trivial
      simp only [Int.bmod_def, Nat.reducePow, Int.cast_ofNat_Int]
      have hlt : (X.tmod Y).natAbs < 9223372036854775808 ∨ X.tmod Y = -9223372036854775808 := by omega
      omega

end GV.Proofs.Div64
