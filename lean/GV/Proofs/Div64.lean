import GV.Proofs.Shift64

/-! `$div64` (numeric.js:118-177): the normalisation loop doubles the divisor and terminates within the model's fuel
    (helper lemmas for GV.Props.C06). -/
namespace GV.Proofs.Div64
open GV.JSInt GV.Num64 GV.NumScheme GV.Spec.Num GV.Proofs.Num GV.Proofs.Num64 GV.Proofs.Shift64

/-- one iteration of the normalisation loop doubles the divisor and keeps it a canonical unsigned pair -/
theorem norm_step (yh yl : Int) (hh : 0 ≤ yh ∧ yh < 2147483648) (hl : 0 ≤ yl ∧ yl < 4294967296) :
    let yh' := shr (bor (shl yh 1) (shr yl 31)) 0
    let yl' := shr (shl yl 1) 0
    yh' * 4294967296 + yl' = 2 * (yh * 4294967296 + yl) ∧ (0 ≤ yh' ∧ yh' < 4294967296) ∧ (0 ≤ yl' ∧ yl' < 4294967296) := by
  have sc1 : shiftCount 1 = 1 := shiftCount_lit 1 (by omega)
  have sc31 : shiftCount 31 = 31 := shiftCount_lit 31 (by omega)
  simp only [fix32u]
  unfold shl shr
  rw [sc1, sc31, toUint32_id hl]
  have hB : 0 ≤ yl / 2 ^ 31 ∧ yl / 2 ^ 31 < 2 ^ 1 := by omega
  have e1 := bor_shifted yh (yl / 2 ^ 31) 1 (by omega) hB
  have e2 := toUint32_mul yl (2 ^ 1)
  rw [e1, e2]
  omega

/-- the normalisation loop of `$div64` never runs out of the 64 units of fuel the model gives it (it terminates after at most
    63 iterations: the divisor doubles each time and the loop stops once its high word reaches 2^31) -/
theorem div64Norm_fuel (fuel : Nat) (xh xl yh yl : Int) (n : Nat) (hf : 0 < fuel)
    (hh : 0 ≤ yh ∧ yh < 4294967296) (hl : 0 ≤ yl ∧ yl < 4294967296)
    (hv : (2 : Int) ^ (64 - fuel) ≤ yh * 4294967296 + yl) :
    0 < (div64Norm fuel xh xl yh yl n).2.2.2 := by
  induction fuel generalizing yh yl n with
  | zero => omega
  | succ f ih =>
    unfold div64Norm
    split
    · next hc =>
      have hlt : yh < 2147483648 := hc.1
      have st := norm_step yh yl ⟨hh.1, hlt⟩ hl
      simp only at st
      by_cases hf0 : f = 0
      · -- fuel 1: value ≥ 2^63 contradicts yh < 2^31
        subst hf0
        have : (2 : Int) ^ (64 - (0 + 1)) = 9223372036854775808 := by decide
        rw [this] at hv; omega
      · apply ih _ _ _ (by omega) st.2.1 st.2.2
        rw [st.1]
        by_cases hbig : f + 1 ≤ 64
        · have e : (2 : Int) ^ (64 - f) = 2 * 2 ^ (64 - (f + 1)) := by
            have : 64 - f = (64 - (f + 1)) + 1 := by omega
            rw [this, Int.pow_succ]; omega
          omega
        · have h1 : 64 - f = 0 := by omega
          have h2 : 64 - (f + 1) = 0 := by omega
          rw [h2] at hv; rw [h1]
          simp only [Int.pow_zero] at *
          omega
    · simp
end GV.Proofs.Div64
