/-
  GV.Proofs.PathClean — facts about the model of Go's `path.Clean` (GV.Model.PathClean), for ALL strings.
-/
import GV.Model.PathClean

namespace GV.PathClean

/-- an element that `Clean` keeps as it is -/
def Good (e : Str) : Prop := e ≠ [] ∧ e ≠ [46] ∧ e ≠ [46, 46]

instance (e : Str) : Decidable (Good e) := by unfold Good; infer_instance

def NoSlash (e : Str) : Prop := 47 ∉ e

theorem splitSlash_nil : splitSlash [] = [[]] := rfl

theorem splitSlash_cons_slash (cs : Str) : splitSlash (47 :: cs) = [] :: splitSlash cs := by
  simp [splitSlash, split1]

theorem splitSlash_cons_other (c : Nat) (cs : Str) (h : c ≠ 47) :
    splitSlash (c :: cs) = (c :: (split1 cs).1) :: (split1 cs).2 := by
  simp [splitSlash, split1, h]

theorem joinSlash_cons_cons (c : Nat) (e : Str) (es : List Str) :
    joinSlash ((c :: e) :: es) = c :: joinSlash (e :: es) := by
  cases es <;> simp [joinSlash]

/-- `strings.Join(strings.Split(s, "/"), "/") = s` -/
theorem join_split (s : Str) : joinSlash (splitSlash s) = s := by
  induction s with
  | nil => rfl
  | cons c cs ih =>
    by_cases h : c = 47
    · subst h
      rw [splitSlash_cons_slash]
      unfold splitSlash at ih ⊢
      simp [joinSlash, ih]
    · rw [splitSlash_cons_other c cs h, joinSlash_cons_cons]
      unfold splitSlash at ih
      rw [ih]

theorem split1_append_noslash (e : Str) (x : Str) (h : NoSlash e) :
    split1 (e ++ x) = (e ++ (split1 x).1, (split1 x).2) := by
  induction e with
  | nil => simp
  | cons c cs ih =>
    have hc : c ≠ 47 := by intro hc; apply h; simp [hc]
    have hcs : NoSlash cs := by intro hm; apply h; simp [hm]
    simp [split1, hc, ih hcs]

theorem split1_noslash (e : Str) (h : NoSlash e) : split1 e = (e, []) := by
  have := split1_append_noslash e [] h
  simpa [split1] using this

/-- `strings.Split(strings.Join(es, "/"), "/") = es` for slash-free elements -/
theorem split_join (e : Str) (es : List Str) (h : ∀ x ∈ e :: es, NoSlash x) :
    splitSlash (joinSlash (e :: es)) = e :: es := by
  induction es generalizing e with
  | nil =>
    have he : NoSlash e := h e (by simp)
    simp [joinSlash, splitSlash, split1_noslash e he]
  | cons e' es ih =>
    have he : NoSlash e := h e (by simp)
    have ih' := ih e' (fun x hx => h x (by simp at hx ⊢; right; exact hx))
    unfold splitSlash at ih' ⊢
    simp only [joinSlash]
    rw [split1_append_noslash e _ he]
    simp only [split1, if_true]
    simp [ih']

theorem split_elems_noslash (s : Str) : ∀ e ∈ splitSlash s, NoSlash e := by
  induction s with
  | nil => intro e he; simp [splitSlash, split1] at he; subst he; simp [NoSlash]
  | cons c cs ih =>
    intro e he
    by_cases h : c = 47
    · subst h
      rw [splitSlash_cons_slash] at he
      simp at he
      rcases he with he | he
      · subst he; simp [NoSlash]
      · exact ih e he
    · rw [splitSlash_cons_other c cs h] at he
      simp at he
      rcases he with he | he
      · subst he
        have := ih (split1 cs).1 (by simp [splitSlash])
        intro hm
        simp at hm
        rcases hm with hm | hm
        · exact h hm.symm
        · exact this hm
      · exact ih e (by simp [splitSlash, he])

theorem head_slash_iff (s : Str) : s.head? = some 47 ↔ (s ≠ [] ∧ (split1 s).1 = []) := by
  cases s with
  | nil => simp
  | cons c cs =>
    by_cases h : c = 47
    · simp [split1, h]
    · simp [split1, h]

/-! ### the stack discipline of `step` -/

def dd : Str := [46, 46]

theorem good_ne_dd {e : Str} (h : Good e) : e ≠ [46, 46] := h.2.2

theorem step_good (r : Bool) (st : List Str) (e : Str) (h : Good e) : step r st e = e :: st := by
  simp [step, h.1, h.2.1, h.2.2]

theorem foldl_step_good (r : Bool) (l : List Str) (st : List Str) (h : ∀ e ∈ l, Good e) :
    l.foldl (step r) st = l.reverse ++ st := by
  induction l generalizing st with
  | nil => simp
  | cons e es ih =>
    simp only [List.foldl_cons]
    rw [step_good r st e (h e (by simp)), ih _ (fun x hx => h x (by simp [hx]))]
    simp

theorem foldl_step_dd (k : Nat) (j : Nat) :
    (List.replicate k [46, 46]).foldl (step false) (List.replicate j [46, 46]) = List.replicate (j + k) [46, 46] := by
  induction k generalizing j with
  | zero => simp
  | succ k ih =>
    simp only [List.replicate_succ, List.foldl_cons]
    have : step false (List.replicate j [46, 46]) [46, 46] = List.replicate (j + 1) [46, 46] := by
      cases j with
      | zero => simp [step]
      | succ j => simp [step, List.replicate_succ]
    rw [this, ih (j + 1)]
    congr 1
    omega

/-- shape of the output stack: good elements on top of `k` protected ".." elements (none if rooted) -/
def Canon (r : Bool) (st : List Str) : Prop :=
  ∃ (g : List Str) (k : Nat), st = g ++ List.replicate k [46, 46] ∧ (∀ e ∈ g, Good e ∧ NoSlash e) ∧ (r = true → k = 0)

theorem canon_nil (r : Bool) : Canon r [] := ⟨[], 0, by simp, by simp, fun _ => rfl⟩

theorem step_canon (r : Bool) (st : List Str) (e : Str) (hs : Canon r st) (he : NoSlash e) : Canon r (step r st e) := by
  obtain ⟨g, k, rfl, hg, hk⟩ := hs
  unfold step
  split
  · exact ⟨g, k, rfl, hg, hk⟩
  split
  · exact ⟨g, k, rfl, hg, hk⟩
  split
  · -- ".."
    cases g with
    | nil =>
      cases k with
      | zero =>
        simp only [List.replicate_zero, List.append_nil]
        cases r with
        | true => exact canon_nil true
        | false => exact ⟨[], 1, by simp, by simp, by simp⟩
      | succ k =>
        have hr : r = false := by
          cases r with
          | true => have := hk rfl; omega
          | false => rfl
        subst hr
        simp only [List.nil_append, List.replicate_succ, if_true]
        exact ⟨[], k + 2, by simp [List.replicate_succ], by simp, by simp⟩
    | cons top rest =>
      have htop := (hg top (by simp)).1
      simp only [List.cons_append]
      rw [if_neg (good_ne_dd htop)]
      exact ⟨rest, k, rfl, fun x hx => hg x (by simp [hx]), hk⟩
  · rename_i h1 h2 h3
    exact ⟨e :: g, k, by simp, by
      intro x hx
      simp at hx
      rcases hx with hx | hx
      · subst hx; exact ⟨⟨h1, h2, h3⟩, he⟩
      · exact hg x hx, hk⟩

theorem foldl_canon (r : Bool) (l : List Str) (st : List Str) (hs : Canon r st) (hl : ∀ e ∈ l, NoSlash e) :
    Canon r (l.foldl (step r) st) := by
  induction l generalizing st with
  | nil => simpa using hs
  | cons e es ih =>
    simp only [List.foldl_cons]
    exact ih _ (step_canon r st e hs (hl e (by simp))) (fun x hx => hl x (by simp [hx]))

/-- re-running the loop over a canonical element list rebuilds the same stack -/
theorem foldl_canon_id (g : List Str) (k : Nat) (hg : ∀ e ∈ g, Good e) :
    (List.replicate k [46, 46] ++ g.reverse).foldl (step false) [] = g ++ List.replicate k [46, 46] := by
  rw [List.foldl_append]
  have := foldl_step_dd k 0
  simp only [List.replicate_zero, Nat.zero_add] at this
  rw [this, foldl_step_good false g.reverse _ (fun e he => hg e (by simpa using he))]
  simp

theorem joinSlash_eq_nil_iff (l : List Str) (h : ∀ e ∈ l, e ≠ []) : joinSlash l = [] ↔ l = [] := by
  cases l with
  | nil => simp [joinSlash]
  | cons e es =>
    have he : e ≠ [] := h e (by simp)
    cases es with
    | nil => simp [joinSlash, he]
    | cons e' es => simp [joinSlash, he]

theorem joinSlash_head (e : Str) (es : List Str) (he : e ≠ []) : (joinSlash (e :: es)).head? = e.head? := by
  cases e with
  | nil => exact absurd rfl he
  | cons c cs => rw [joinSlash_cons_cons]; rfl

theorem step_nil (r : Bool) (st : List Str) : step r st [] = st := by simp [step]

/-! ### the theorems about `clean` -/

/-- `Clean` leaves a non-empty path alone when none of its elements is empty, "." or ".." -/
theorem clean_id_of_good (s : Str) (hs : s ≠ []) (h : ∀ e ∈ splitSlash s, Good e) : clean s = s := by
  have hfirst : (split1 s).1 ≠ [] := (h (split1 s).1 (by simp [splitSlash])).1
  have hroot : ¬ (s.head? = some 47) := by
    rw [head_slash_iff]; intro hh; exact hfirst hh.2
  unfold clean
  simp only [hs, if_false]
  have hdec : decide (s.head? = some 47) = false := by simp [hroot]
  simp only [hdec]
  rw [foldl_step_good false (splitSlash s) [] h]
  simp [join_split, hs]

/-- every result of `Clean` is described by a canonical stack -/
theorem clean_shape (s : Str) (hs : s ≠ []) :
    ∃ st, Canon (decide (s.head? = some 47)) st ∧
      clean s = (if decide (s.head? = some 47) = true then 47 :: joinSlash st.reverse
                 else if joinSlash st.reverse = [] then [46] else joinSlash st.reverse) := by
  refine ⟨(splitSlash s).foldl (step (decide (s.head? = some 47))) [], ?_, ?_⟩
  · exact foldl_canon _ _ _ (canon_nil _) (split_elems_noslash s)
  · unfold clean
    simp only [hs, if_false]

theorem canon_elems_ne_nil {r : Bool} {st : List Str} (h : Canon r st) : ∀ e ∈ st.reverse, e ≠ [] := by
  obtain ⟨g, k, rfl, hg, _⟩ := h
  intro e he
  simp at he
  rcases he with he | he
  · rw [he.2]; simp
  · exact (hg e he).1.1

theorem canon_elems_noslash {r : Bool} {st : List Str} (h : Canon r st) : ∀ e ∈ st.reverse, NoSlash e := by
  obtain ⟨g, k, rfl, hg, _⟩ := h
  intro e he
  simp at he
  rcases he with he | he
  · rw [he.2]; simp [NoSlash]
  · exact (hg e he).2

/-- `Clean` of a rooted path: "/" followed by '/'-joined elements none of which is empty, "." or ".." -/
theorem clean_rooted (s : Str) (h : s.head? = some 47) :
    ∃ g : List Str, clean s = 47 :: joinSlash g ∧ ∀ e ∈ g, Good e ∧ NoSlash e := by
  have hs : s ≠ [] := by intro h0; subst h0; simp at h
  obtain ⟨st, hc, he⟩ := clean_shape s hs
  have hd : decide (s.head? = some 47) = true := by simp [h]
  rw [hd] at hc he
  obtain ⟨g, k, rfl, hg, hk⟩ := hc
  have hk0 := hk rfl
  subst hk0
  refine ⟨g.reverse, ?_, ?_⟩
  · simpa using he
  · intro e hx; exact hg e (by simpa using hx)

theorem clean_idempotent (s : Str) : clean (clean s) = clean s := by
  by_cases hs : s = []
  · subst hs; decide
  obtain ⟨st, hc, he⟩ := clean_shape s hs
  have hne := canon_elems_ne_nil hc
  have hns := canon_elems_noslash hc
  obtain ⟨g, k, hst, hg, hk⟩ := hc
  by_cases hr : decide (s.head? = some 47) = true
  · -- rooted
    rw [hr] at he hk
    simp only [if_true] at he
    have hk0 := hk rfl
    subst hk0
    simp only [List.replicate_zero, List.append_nil] at hst
    subst hst
    rw [he]
    unfold clean
    simp only [List.cons_ne_nil, if_false, List.head?_cons, decide_true, if_true]
    rw [splitSlash_cons_slash]
    simp only [List.foldl_cons, step_nil]
    cases hrev : st.reverse with
    | nil => simp [joinSlash, splitSlash, split1, step]
    | cons e es =>
      rw [hrev] at hns
      rw [split_join e es hns, ← hrev, foldl_step_good true st.reverse [] (fun x hx => (hg x (by simpa using hx)).1)]
      simp
  · -- not rooted
    have hr' : decide (s.head? = some 47) = false := by simpa using hr
    rw [hr'] at he
    simp only [Bool.false_eq_true, if_false] at he
    cases hrev : st.reverse with
    | nil =>
      rw [hrev] at he
      simp [joinSlash] at he
      rw [he]; decide
    | cons e es =>
      have hjne : joinSlash st.reverse ≠ [] := by
        intro hj
        have := (joinSlash_eq_nil_iff st.reverse hne).1 hj
        rw [hrev] at this; cases this
      rw [if_neg hjne] at he
      rw [he]
      have hene : e ≠ [] := hne e (by rw [hrev]; simp)
      have hens : NoSlash e := hns e (by rw [hrev]; simp)
      have hhead : ¬ ((joinSlash st.reverse).head? = some 47) := by
        rw [hrev, joinSlash_head e es hene]
        cases e with
        | nil => exact absurd rfl hene
        | cons c cs =>
          simp
          intro hc; apply hens; simp [hc]
      unfold clean
      simp only [hjne, if_false]
      have hdec : decide ((joinSlash st.reverse).head? = some 47) = false := by simp [hhead]
      simp only [hdec]
      have hsplit : splitSlash (joinSlash st.reverse) = st.reverse := by
        rw [hrev]; rw [hrev] at hns; exact split_join e es hns
      rw [hsplit]
      have hfold : st.reverse.foldl (step false) [] = st := by
        rw [hst]
        have := foldl_canon_id g k (fun x hx => (hg x hx).1)
        simpa using this
      rw [hfold]
      simp [hjne]

end GV.PathClean
