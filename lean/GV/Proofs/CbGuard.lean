/-
  GV.Proofs.CbGuard — lemmas about GV.Model.CbGuard: when the callback guard fires, nothing has been changed.
-/
import GV.Model.CbGuard

namespace GV.Proofs.CbGuard
open GV.CbGuard

theorem send_guard (s : St) (v : Nat) (hc : s.cur = none) (h : (send s v).1 = .errCannotBlock) : (send s v).2 = s := by
  unfold send at h ⊢
  by_cases hcl : s.chan.closed = true
  · simp [hcl] at h
  · cases hq : s.chan.recvQ with
    | cons r rq =>
      simp only [hcl, hq, Bool.false_eq_true, if_false] at h
      split at h <;> simp at h
    | nil =>
      by_cases hb : s.chan.buffer.length < s.chan.capacity
      · simp [hcl, hq, hb] at h
      · simp [hcl, hq, hb, canBlock, hc]

theorem ready_send_no_guard (s : St) (v : Nat) (hr : ready s (.send v) = true) : (send s v).1 ≠ .errCannotBlock := by
  intro h
  unfold send at h
  by_cases hcl : s.chan.closed = true
  · simp [hcl] at h
  · cases hq : s.chan.recvQ with
    | cons r rq =>
      simp only [hcl, hq, Bool.false_eq_true, if_false] at h
      split at h <;> simp at h
    | nil =>
      by_cases hb : s.chan.buffer.length < s.chan.capacity
      · simp [hcl, hq, hb] at h
      · simp [ready, hq, hb] at hr

/-- the outcome of the first half of `$recv` -/
theorem recv_cases (s : St) :
    (s.chan.sendQ = [] ∧ pullSender s = (false, s)) ∨
    (s.chan.sendQ ≠ [] ∧ ((pullSender s).1 = true ∨ ((pullSender s).1 = false ∧ (pullSender s).2.chan.buffer ≠ []))) := by
  cases hq : s.chan.sendQ with
  | nil => left; simp [pullSender, hq]
  | cons e sq =>
    right
    refine ⟨by simp, ?_⟩
    simp only [pullSender, hq]
    split
    · left; rfl
    · right; simp

theorem recv_guard (s : St) (hc : s.cur = none) (h : (recv s).1 = .errCannotBlock) : (recv s).2 = s := by
  unfold recv at h ⊢
  rcases recv_cases s with ⟨hq, hp⟩ | ⟨_, hp | ⟨hp1, hp2⟩⟩
  · rw [hp] at h ⊢
    simp only [Bool.false_eq_true, if_false] at h ⊢
    cases hb : s.chan.buffer with
    | cons b bs => simp [hb] at h
    | nil =>
      by_cases hcl : s.chan.closed = true
      · simp [hb, hcl] at h
      · simp [hb, hcl, canBlock, hc]
  · simp [hp] at h
  · simp only [hp1, Bool.false_eq_true, if_false] at h
    cases hb : (pullSender s).2.chan.buffer with
    | nil => exact absurd hb hp2
    | cons b bs => simp [hb] at h

theorem ready_recv_no_guard (s : St) (hr : ready s .recv = true) : (recv s).1 ≠ .errCannotBlock := by
  intro h
  unfold recv at h
  rcases recv_cases s with ⟨hq, hp⟩ | ⟨_, hp | ⟨hp1, hp2⟩⟩
  · rw [hp] at h
    simp only [Bool.false_eq_true, if_false] at h
    cases hb : s.chan.buffer with
    | cons b bs => simp [hb] at h
    | nil =>
      by_cases hcl : s.chan.closed = true
      · simp [hb, hcl] at h
      · simp [ready, hq, hb, hcl] at hr
  · simp [hp] at h
  · simp only [hp1, Bool.false_eq_true, if_false] at h
    cases hb : (pullSender s).2.chan.buffer with
    | nil => exact absurd hb hp2
    | cons b bs => simp [hb] at h

theorem mem_readyIdx (s : St) (cs : List Case) (i : Nat) (h : i ∈ readyIdx s cs) : ∃ c, cs[i]? = some c ∧ ready s c = true := by
  unfold readyIdx at h
  simp only [List.mem_filter] at h
  cases hc : cs[i]? with
  | none => simp [hc] at h
  | some c => exact ⟨c, rfl, by simpa [hc] using h.2⟩

/-- the case a `$select` picks, if any, is ready or is the default -/
theorem choice_ok (s : St) (cs : List Case) (pick i : Nat) (h : choose s cs pick = some i) :
    cs[i]? = some Case.dflt ∨ ∃ c, cs[i]? = some c ∧ ready s c = true := by
  unfold choose at h
  simp only at h
  by_cases hre : (readyIdx s cs).isEmpty = true
  · left
    simp only [hre, if_true] at h
    unfold dfltIdx at h
    have hm := List.mem_of_getLast? h
    simp only [List.mem_filter] at hm
    simpa using hm.2
  · right
    simp only [hre] at h
    exact mem_readyIdx s cs i (List.mem_of_getElem? h)

theorem select_guard (s : St) (cs : List Case) (pick : Nat) (hc : s.cur = none)
    (h : (select s cs pick).1 = .errCannotBlock) : (select s cs pick).2 = s := by
  unfold select at h ⊢
  by_cases hcl : sendOnClosed s cs = true
  · rw [if_pos hcl] at h; simp at h
  · rw [if_neg hcl] at h ⊢
    cases hch : choose s cs pick with
    | none => simp [canBlock, hc]
    | some i =>
      exfalso
      simp only [hch] at h
      rcases choice_ok s cs pick i hch with hd | ⟨c, hci, hr⟩
      · simp [hd] at h
      · simp only [hci] at h
        cases c with
        | dflt => simp [ready] at hr
        | recv =>
          have hne := ready_recv_no_guard s hr
          cases ho : (recv s).1 <;> simp_all
        | send v =>
          have hne := ready_send_no_guard s v hr
          cases ho : (send s v).1 <;> simp_all

end GV.Proofs.CbGuard
