/-
  GV.Proofs.CbGuard — lemmas about GV.Model.CbGuard: when the callback guard fires, nothing has been changed.
-/
import GV.Model.CbGuard

namespace GV.Proofs.CbGuard
open GV.CbGuard

theorem send_guard (s : St) (v : Nat) (hc : s.cur = none) (h : (send s v).1 = .errCannotBlock) : (send s v).2 = s := by
  unfold send at h ⊢
  by_cases hcl : s.chan.closed = true
  · simp [hcl] at h
  · cases hq : s.chan.recvQ with
    | cons r rq =>
      simp only [hcl, hq, Bool.false_eq_true, if_false] at h
      split at h <;> simp at h
    | nil =>
      by_cases hb : s.chan.buffer.length < s.chan.capacity
      · simp [hcl, hq, hb] at h
      · simp [hcl, hq, hb, canBlock, hc]

theorem ready_send_no_guard (s : St) (v : Nat) (hr : ready s (.send v) = true) : (send s v).1 ≠ .errCannotBlock := by
  intro h
  unfold send at h
  by_cases hcl : s.chan.closed = true
  · simp [hcl] at h
  · cases hq : s.chan.recvQ with
    | cons r rq =>
      simp only [hcl, hq, Bool.false_eq_true, if_false] at h
      split at h <;> simp at h
    | nil =>
      by_cases hb : s.chan.buffer.length < s.chan.capacity
      · simp [hcl, hq, hb] at h
      · simp [ready, hq, hb] at hr

/-- the outcome of the first half of `$recv` -/
theorem recv_cases (s : St) :
    (s.chan.sendQ = [] ∧ pullSender s = (false, s)) ∨
    (s.chan.sendQ ≠ [] ∧ ((pullSender s).1 = true ∨ ((pullSender s).1 = false ∧ (pullSender s).2.chan.buffer ≠ []))) := by
  cases hq : s.chan.sendQ with
  | nil => left; simp [pullSender, hq]
  | cons e sq =>
    right
    refine ⟨by simp, ?_⟩
    simp only [pullSender, hq]
    split
    · left; rfl
    · right; simp

theorem recv_guard (s : St) (hc : s.cur = none) (h : (recv s).1 = .errCannotBlock) : (recv s).2 = s := by
  unfold recv at h ⊢
  rcases recv_cases s with ⟨hq, hp⟩ | ⟨_, hp | ⟨hp1, hp2⟩⟩
  · rw [hp] at h ⊢
    simp only [Bool.false_eq_true, if_false] at h ⊢
    cases hb : s.chan.buffer with
    | cons b bs => simp [hb] at h
    | nil =>
      by_cases hcl : s.chan.closed = true
      · simp [hb, hcl] at h
      · simp [hb, hcl, canBlock, hc]
  · simp [hp] at h
  · simp only [hp1, Bool.false_eq_true, if_false] at h
    cases hb : (pullSender s).2.chan.buffer with
    | nil => exact absurd hb hp2
    | cons b bs => simp [hb] at h

theorem ready_recv_no_guard (s : St) (hr : ready s .recv = true) : (recv s).1 ≠ .errCannotBlock := by
  intro h
  unfold recv at h
  rcases recv_cases s with ⟨hq, hp⟩ | ⟨_, hp | ⟨hp1, hp2⟩⟩
  · rw [hp] at h
    simp only [Bool.false_eq_true, if_false] at h
    cases hb : s.chan.buffer with
    | cons b bs => simp [hb] at h
    | nil =>
      by_cases hcl : s.chan.closed = true
      · simp [hb, hcl] at h
      · simp [ready, hq, hb, hcl] at hr
  · simp [hp] at h
  · simp only [hp1, Bool.false_eq_true, if_false] at h
    cases hb : (pullSender s).2.chan.buffer with
    | nil => exact absurd hb hp2
    | cons b bs => simp [hb] at h

theorem mem_readyIdx (s : St) (cs : List Case) (i : Nat) (h : i ∈ readyIdx s cs) : ∃ c, cs[i]? = some c ∧ ready s c = true := by
  unfold readyIdx at h
  simp only [List.mem_filter] at h
  cases hc : cs[i]? with
  | none => simp [hc] at h
  | some c => exact ⟨c, rfl, by simpa [hc] using h.2⟩

/-- the case a `$select` picks, if any, is ready or is the default -/
theorem choice_ok (s : St) (cs : List Case) (pick i : Nat) (h : choose s cs pick = some i) :
    cs[i]? = some Case.dflt ∨ ∃ c, cs[i]? = some c ∧ ready s c = true := by
  unfold choose at h
  simp only at h
  by_cases hre : (readyIdx s cs).isEmpty = true
  · left
    simp only [hre, if_true] at h
    unfold dfltIdx at h
    have hm := List.mem_of_getLast? h
    simp only [List.mem_filter] at hm
    simpa using hm.2
  · right
    simp only [hre] at h
    exact mem_readyIdx s cs i (List.mem_of_getElem? h)

theorem select_guard (s : St) (cs : List Case) (pick : Nat) (hc : s.cur = none)
    (h : (select s cs pick).1 = .errCannotBlock) : (select s cs pick).2 = s := by
  unfold select at h ⊢
  by_cases hcl : sendOnClosed s cs = true
  · rw [if_pos hcl] at h; simp at h
  · rw [if_neg hcl] at h ⊢
    cases hch : choose s cs pick with
    | none => simp [canBlock, hc]
    | some i =>
      exfalso
      simp only [hch] at h
      rcases choice_ok s cs pick i hch with hd | ⟨c, hci, hr⟩
      · simp [hd] at h
      · simp only [hci] at h
        cases c with
        | dflt => simp [ready] at hr
        | recv =>
          have hne := ready_recv_no_guard s hr
          cases ho : (recv s).1 <;> simp_all
        | send v =>
          have hne := ready_send_no_guard s v hr
          cases ho : (send s v).1 <;> simp_all


/-! ### invariant: `$noGoroutine` never owns a queue entry and is never scheduled -/

/-- no queue entry belongs to `$noGoroutine` and `$noGoroutine` is not on the run queue -/
def Inv (s : St) : Prop :=
  (∀ e ∈ s.chan.sendQ, e.g ≠ none) ∧ (∀ e ∈ s.chan.recvQ, e.g ≠ none) ∧ none ∉ s.scheduled

theorem drain_clean : ∀ (l : List Gid), none ∉ l → drain l = (false, [])
  | [], _ => rfl
  | none :: _, h => absurd (by simp) h
  | some _ :: r, h => by
    simp only [drain]
    exact drain_clean r (fun hm => h (by simp [hm]))

theorem schedule_inv (s : St) (g : Gid) (hi : Inv s) (hg : g ≠ none) :
    (schedule s g).1 = false ∧ Inv (schedule s g).2 ∧ (schedule s g).2.cur = s.cur ∧ (schedule s g).2.chan = s.chan := by
  obtain ⟨h1, h2, h3⟩ := hi
  cases g with
  | none => exact absurd rfl hg
  | some n =>
    have hns : none ∉ s.scheduled ++ [some n] := by simp [h3]
    unfold schedule
    by_cases hm : n ∈ s.asleep
    · cases hc : s.cur with
      | none => simp [hm, hc, drain_clean _ hns, Inv]; exact ⟨h1, h2⟩
      | some c => simp [hm, hc, Inv, h3]; exact ⟨h1, h2⟩
    · cases hc : s.cur with
      | none => simp [hm, hc, drain_clean _ hns, Inv]; exact ⟨h1, h2⟩
      | some c => simp [hm, hc, Inv, h3]; exact ⟨h1, h2⟩

theorem removeSel_sub (c : Chan) (k : Option Nat) :
    (∀ e ∈ (removeSel c k).sendQ, e ∈ c.sendQ) ∧ (∀ e ∈ (removeSel c k).recvQ, e ∈ c.recvQ) ∧
    (removeSel c k).buffer = c.buffer ∧ (removeSel c k).closed = c.closed ∧ (removeSel c k).capacity = c.capacity := by
  cases k with
  | none => simp [removeSel]
  | some k =>
    simp only [removeSel]
    refine ⟨fun e he => (List.mem_filter.mp he).1, fun e he => (List.mem_filter.mp he).1, ?_, ?_, ?_⟩ <;> first | rfl | trivial

theorem send_inv (s : St) (v : Nat) (hi : Inv s) : (send s v).1 ≠ .typeErrorNotAFunction ∧ Inv (send s v).2 := by
  obtain ⟨h1, h2, h3⟩ := hi
  unfold send
  by_cases hcl : s.chan.closed = true
  · rw [if_pos hcl]; exact ⟨by simp, h1, h2, h3⟩
  · rw [if_neg hcl]
    cases hq : s.chan.recvQ with
    | cons r rq =>
      have hr : r.g ≠ none := h2 r (by simp [hq])
      have hsub := removeSel_sub { s.chan with recvQ := rq } r.sel
      have hi' : Inv { s with chan := removeSel { s.chan with recvQ := rq } r.sel, delivered := s.delivered ++ [(r.g, v)] } := by
        refine ⟨fun e he => h1 e (hsub.1 e he), fun e he => h2 e ?_, h3⟩
        have := hsub.2.1 e he
        rw [hq]; exact List.mem_cons_of_mem _ this
      obtain ⟨hf, hinv, _, _⟩ := schedule_inv _ r.g hi' hr
      dsimp only
      rw [hf]
      exact ⟨by simp, hinv⟩
    | nil =>
      dsimp only
      by_cases hb : s.chan.buffer.length < s.chan.capacity
      · rw [if_pos hb]; exact ⟨by simp, h1, by simp [hq], h3⟩
      · rw [if_neg hb]
        cases hc : s.cur with
        | none => simp only [canBlock, hc, Option.isSome_none, Bool.not_false, if_true]; exact ⟨by simp, h1, by simp [hq], h3⟩
        | some c =>
          simp only [canBlock, hc, block, Option.isSome_some, Bool.not_true, Bool.false_eq_true, if_false]
          refine ⟨by simp, ?_, by simp [hq], h3⟩
          intro e he
          simp only [List.mem_append, List.mem_singleton] at he
          rcases he with he | rfl
          · exact h1 e he
          · simp

theorem pullSender_inv (s : St) (hi : Inv s) : (pullSender s).1 = false ∧ Inv (pullSender s).2 ∧ (pullSender s).2.cur = s.cur := by
  obtain ⟨h1, h2, h3⟩ := hi
  unfold pullSender
  cases hq : s.chan.sendQ with
  | nil => exact ⟨rfl, ⟨h1, h2, h3⟩, rfl⟩
  | cons e sq =>
    have he : e.g ≠ none := h1 e (by simp [hq])
    have hsub := removeSel_sub { s.chan with sendQ := sq } e.sel
    have hi' : Inv { s with chan := removeSel { s.chan with sendQ := sq } e.sel } := by
      refine ⟨fun x hx => h1 x ?_, fun x hx => h2 x (hsub.2.1 x hx), h3⟩
      have := hsub.1 x hx
      rw [hq]; exact List.mem_cons_of_mem _ this
    obtain ⟨hf, hinv, hcur, hchan⟩ := schedule_inv _ e.g hi' he
    simp only [hf, Bool.false_eq_true, if_false]
    refine ⟨trivial, ?_, hcur⟩
    obtain ⟨a, b, c⟩ := hinv
    exact ⟨a, b, c⟩

theorem recv_inv (s : St) (hi : Inv s) : (recv s).1 ≠ .typeErrorNotAFunction ∧ Inv (recv s).2 := by
  obtain ⟨hf, ⟨h1, h2, h3⟩, hcur⟩ := pullSender_inv s hi
  unfold recv
  simp only [hf, Bool.false_eq_true, if_false]
  cases hb : (pullSender s).2.chan.buffer with
  | cons b bs => exact ⟨by simp, h1, h2, h3⟩
  | nil =>
    by_cases hcl : (pullSender s).2.chan.closed = true
    · rw [if_pos hcl]; exact ⟨by simp, h1, h2, h3⟩
    · rw [if_neg hcl]
      cases hc : (pullSender s).2.cur with
      | none => simp only [canBlock, hc, Option.isSome_none, Bool.not_false, if_true]; exact ⟨by simp, h1, h2, h3⟩
      | some c =>
        simp only [canBlock, hc, block, Bool.false_eq_true, if_false, Option.isSome_some, Bool.not_true]
        refine ⟨by simp, h1, ?_, h3⟩
        intro e he
        simp only [List.mem_append, List.mem_singleton] at he
        rcases he with he | rfl
        · exact h2 e he
        · simp

theorem pushEntries_inv (g : Gid) (k : Nat) (hg : g ≠ none) : ∀ (cs : List Case) (c : Chan),
    (∀ e ∈ c.sendQ, e.g ≠ none) → (∀ e ∈ c.recvQ, e.g ≠ none) →
    (∀ e ∈ (pushEntries c g k cs).sendQ, e.g ≠ none) ∧ (∀ e ∈ (pushEntries c g k cs).recvQ, e.g ≠ none)
  | [], c, h1, h2 => ⟨h1, h2⟩
  | .send v :: r, c, h1, h2 => by
    simp only [pushEntries]
    refine pushEntries_inv g k hg r _ ?_ h2
    intro e he
    simp only [List.mem_append, List.mem_singleton] at he
    rcases he with he | rfl
    · exact h1 e he
    · exact hg
  | .recv :: r, c, h1, h2 => by
    simp only [pushEntries]
    refine pushEntries_inv g k hg r _ h1 ?_
    intro e he
    simp only [List.mem_append, List.mem_singleton] at he
    rcases he with he | rfl
    · exact h2 e he
    · exact hg
  | .dflt :: r, c, h1, h2 => by
    simp only [pushEntries]
    exact pushEntries_inv g k hg r c h1 h2

theorem select_inv (s : St) (cs : List Case) (pick : Nat) (hi : Inv s) :
    (select s cs pick).1 ≠ .typeErrorNotAFunction ∧ Inv (select s cs pick).2 := by
  unfold select
  by_cases hcl : sendOnClosed s cs = true
  · rw [if_pos hcl]; exact ⟨by simp, hi⟩
  · rw [if_neg hcl]
    cases hch : choose s cs pick with
    | some i =>
      simp only
      cases hci : cs[i]? with
      | none => exact ⟨by simp, hi⟩
      | some c =>
        cases c with
        | dflt => exact ⟨by simp, hi⟩
        | send v =>
          obtain ⟨hne, hinv⟩ := send_inv s v hi
          refine ⟨?_, hinv⟩
          simp only
          split <;> simp_all
        | recv =>
          obtain ⟨hne, hinv⟩ := recv_inv s hi
          refine ⟨?_, hinv⟩
          simp only
          cases ho : (recv s).1 <;> simp_all
    | none =>
      simp only
      cases hc : s.cur with
      | none => simp only [canBlock, hc, Option.isSome_none, Bool.not_false, if_true]; exact ⟨by simp, hi⟩
      | some c =>
        obtain ⟨h1, h2, h3⟩ := hi
        have := pushEntries_inv (some c) s.nextSel (by simp) cs s.chan h1 h2
        simp only [canBlock, hc, block, Option.isSome_some, Bool.not_true, Bool.false_eq_true, if_false]
        exact ⟨by simp, this.1, this.2, h3⟩

theorem inv_cur (s : St) (g : Gid) (hi : Inv s) : Inv { s with cur := g } := hi

theorem step_inv (s : St) (e : Ev) (hi : Inv s) : (step s e).1 ≠ .typeErrorNotAFunction ∧ Inv (step s e).2 := by
  cases e with
  | send g v => exact send_inv { s with cur := g } v hi
  | recv g => exact recv_inv { s with cur := g } hi
  | select g pick cs => exact select_inv { s with cur := g } cs pick hi
  | dequeue =>
    obtain ⟨h1, h2, h3⟩ := hi
    simp only [step, dequeue]
    cases hs : s.scheduled with
    | nil => exact ⟨by simp, h1, h2, by simp [hs]⟩
    | cons a r =>
      cases a with
      | none => rw [hs] at h3; simp at h3
      | some g =>
        refine ⟨by simp, h1, h2, ?_⟩
        rw [hs] at h3
        intro hm; exact h3 (by simp [hm])

theorem run_inv : ∀ (es : List Ev) (s : St), Inv s → .typeErrorNotAFunction ∉ (run s es).1 ∧ Inv (run s es).2
  | [], s, hi => ⟨by simp [run], hi⟩
  | e :: es, s, hi => by
    obtain ⟨hne, hinv⟩ := step_inv s e hi
    obtain ⟨h1, h2⟩ := run_inv es (step s e).2 hinv
    simp only [run]
    refine ⟨?_, h2⟩
    intro hm
    simp only [List.mem_cons] at hm
    rcases hm with hm | hm
    · exact hne hm.symm
    · exact h1 hm

end GV.Proofs.CbGuard
