/-
  GV.Proofs.LinkInit — proofs about the `$init` protocol model of GV.Model.Link (section 2).

  * `steps_add`, `machine_eq_direct`: the small-step machine agrees with the direct-style `initRec`.
  * `initRec_sched_irrelevant`: suspensions change neither the set of initialised packages nor the order of events.
  * `no_overtaking_rec`: between `begin q i` and `fin q i` only the item's own suspensions occur.
  * `init_once_*`, `enter_iff_reach`, `imports_done_before_begin`, `items_fin_before_done`: the main invariant.

  Core Lean only.
-/
import GV.Model.Link

namespace GV.Proofs.LinkInit
open GV.Link

set_option linter.unusedSectionVars false

variable {α : Type} [DecidableEq α]

/-! ### 0. `initRec` with the import loop as a recursive function -/

/-- the import loop of `initRec` (the `foldl`), as a recursive function over the import list -/
def impsRec (G : Prog α) (sched : α → Nat → Nat) (fuel : Nat) : List α → List α → List α × List (Ev α)
  | repl, [] => (repl, [])
  | repl, q :: qs =>
    ((impsRec G sched fuel (initRec G sched fuel repl q).1 qs).1,
     (initRec G sched fuel repl q).2 ++ (impsRec G sched fuel (initRec G sched fuel repl q).1 qs).2)

/-- the events of the body of `p.$init` -/
def bodyEvs (G : Prog α) (sched : α → Nat → Nat) (p : α) : List (Ev α) :=
  (List.range (G.nitems p)).flatMap (itemEvs sched p)

theorem foldl_eq_impsRec (G : Prog α) (sched : α → Nat → Nat) (fuel : Nat) (qs : List α) (repl : List α)
    (t : List (Ev α)) :
    qs.foldl (fun (acc : List α × List (Ev α)) q =>
        ((initRec G sched fuel acc.1 q).1, acc.2 ++ (initRec G sched fuel acc.1 q).2)) (repl, t)
      = ((impsRec G sched fuel repl qs).1, t ++ (impsRec G sched fuel repl qs).2) := by
  induction qs generalizing repl t with
  | nil => simp [impsRec]
  | cons q qs ih => simp only [List.foldl_cons, impsRec]; rw [ih]; simp [List.append_assoc]

theorem initRec_zero (G : Prog α) (sched : α → Nat → Nat) (repl : List α) (p : α) :
    initRec G sched 0 repl p = (repl, []) := rfl

theorem initRec_succ (G : Prog α) (sched : α → Nat → Nat) (fuel : Nat) (repl : List α) (p : α) :
    initRec G sched (fuel + 1) repl p =
      if p ∈ repl then (repl, [])
      else ((impsRec G sched fuel (p :: repl) (G.imports p)).1,
            Ev.enter p :: ((impsRec G sched fuel (p :: repl) (G.imports p)).2
              ++ (bodyEvs G sched p ++ [Ev.done p]))) := by
  have h := foldl_eq_impsRec G sched fuel (G.imports p) (p :: repl) [Ev.enter p]
  simp only [initRec, bodyEvs]
  split
  · rfl
  · rw [h]; simp [List.append_assoc]

/-! ### 1. `steps` -/

theorem steps_add (G : Prog α) (sched : α → Nat → Nat) (a b : Nat) (s : State α) :
    steps G sched (a + b) s = steps G sched b (steps G sched a s) := by
  induction a generalizing s with
  | zero => simp [steps]
  | succ a ih =>
    have : a + 1 + b = (a + b) + 1 := by omega
    rw [this]
    simp only [steps]
    exact ih _

theorem steps_one (G : Prog α) (sched : α → Nat → Nat) (s : State α) :
    steps G sched 1 s = step G sched s := rfl

theorem steps_trans {G : Prog α} {sched : α → Nat → Nat} {a b : Nat} {s s' s'' : State α}
    (h1 : steps G sched a s = s') (h2 : steps G sched b s' = s'') : steps G sched (a + b) s = s'' := by
  rw [steps_add, h1, h2]

/-! ### 2. The machine agrees with `initRec` -/

theorem yields_run (G : Prog α) (sched : α → Nat → Nat) (r : List α) (p : α) (i : Nat) (js : List Nat)
    (rest : List (Frame α)) (k : Nat) (t : List (Ev α)) :
    steps G sched k { replaced := r, stack := ⟨p, [], i :: js, some k⟩ :: rest, trace := t }
      = { replaced := r, stack := ⟨p, [], i :: js, some 0⟩ :: rest,
          trace := t ++ List.replicate k Ev.yield } := by
  induction k generalizing t with
  | zero => simp [steps]
  | succ k ih =>
    simp only [steps, step]
    rw [ih]
    simp [List.replicate_succ, List.append_assoc]

theorem item_run (G : Prog α) (sched : α → Nat → Nat) (r : List α) (p : α) (i : Nat) (js : List Nat)
    (rest : List (Frame α)) (t : List (Ev α)) :
    steps G sched (1 + sched p i + 1) { replaced := r, stack := ⟨p, [], i :: js, none⟩ :: rest, trace := t }
      = { replaced := r, stack := ⟨p, [], js, none⟩ :: rest, trace := t ++ itemEvs sched p i } := by
  have h1 : steps G sched 1 { replaced := r, stack := ⟨p, [], i :: js, none⟩ :: rest, trace := t }
      = { replaced := r, stack := ⟨p, [], i :: js, some (sched p i)⟩ :: rest,
          trace := t ++ [Ev.begin p i] } := by
    simp [steps_one, step]
  have h2 := yields_run G sched r p i js rest (sched p i) (t ++ [Ev.begin p i])
  have h3 : steps G sched 1
        { replaced := r, stack := ⟨p, [], i :: js, some 0⟩ :: rest,
          trace := t ++ [Ev.begin p i] ++ List.replicate (sched p i) Ev.yield }
      = { replaced := r, stack := ⟨p, [], js, none⟩ :: rest, trace := t ++ itemEvs sched p i } := by
    simp [steps_one, step, itemEvs, List.append_assoc]
  exact steps_trans (steps_trans h1 h2) h3

theorem items_run (G : Prog α) (sched : α → Nat → Nat) (r : List α) (p : α) (rest : List (Frame α))
    (js : List Nat) (t : List (Ev α)) :
    ∃ n, steps G sched n { replaced := r, stack := ⟨p, [], js, none⟩ :: rest, trace := t }
      = { replaced := r, stack := ⟨p, [], [], none⟩ :: rest,
          trace := t ++ js.flatMap (itemEvs sched p) } := by
  induction js generalizing t with
  | nil => exact ⟨0, by simp [steps]⟩
  | cons i js ih =>
    have h1 := item_run G sched r p i js rest t
    obtain ⟨n2, h2⟩ := ih (t ++ itemEvs sched p i)
    exact ⟨(1 + sched p i + 1) + n2, by rw [steps_trans h1 h2]; simp [List.flatMap_cons, List.append_assoc]⟩

theorem imps_run (G : Prog α) (sched : α → Nat → Nat) (rank : α → Nat) (fuel : Nat)
    (ih : ∀ (s : State α) (q : α), rank q < fuel → ∃ n, steps G sched n (call G s q) =
      { replaced := (initRec G sched fuel s.replaced q).1, stack := s.stack,
        trace := s.trace ++ (initRec G sched fuel s.replaced q).2 })
    (p : α) (items : List Nat) (cur : Option Nat) (rest : List (Frame α))
    (qs : List α) (hqs : ∀ q ∈ qs, rank q < fuel) (r : List α) (t : List (Ev α)) :
    ∃ n, steps G sched n { replaced := r, stack := ⟨p, qs, items, cur⟩ :: rest, trace := t }
      = { replaced := (impsRec G sched fuel r qs).1, stack := ⟨p, [], items, cur⟩ :: rest,
          trace := t ++ (impsRec G sched fuel r qs).2 } := by
  induction qs generalizing r t with
  | nil => exact ⟨0, by simp [steps, impsRec]⟩
  | cons q qs ihq =>
    have h0 : steps G sched 1 { replaced := r, stack := ⟨p, q :: qs, items, cur⟩ :: rest, trace := t }
        = call G { replaced := r, stack := ⟨p, qs, items, cur⟩ :: rest, trace := t } q := by
      simp [steps_one, step]
    obtain ⟨n1, h1⟩ := ih { replaced := r, stack := ⟨p, qs, items, cur⟩ :: rest, trace := t } q
      (hqs q (by simp))
    simp only at h1
    obtain ⟨n2, h2⟩ := ihq (fun q' h => hqs q' (by simp [h])) (initRec G sched fuel r q).1
      (t ++ (initRec G sched fuel r q).2)
    exact ⟨1 + n1 + n2, by rw [steps_trans (steps_trans h0 h1) h2]; simp [impsRec, List.append_assoc]⟩

/-- **The small-step machine agrees with the direct-style function**: calling `p.$init()` in state `s` runs,
    after finitely many machine steps, to the state in which the stack is as before the call, the replaced
    packages are those computed by `initRec` and the trace has been extended by the events of `initRec`. -/
theorem machine_eq_direct (G : Prog α) (sched : α → Nat → Nat) (rank : α → Nat)
    (hac : Acyclic G.imports rank) :
    ∀ fuel (s : State α) (p : α), rank p < fuel → ∃ n, steps G sched n (call G s p) =
      { replaced := (initRec G sched fuel s.replaced p).1, stack := s.stack,
        trace := s.trace ++ (initRec G sched fuel s.replaced p).2 } := by
  intro fuel
  induction fuel with
  | zero => intro s p h; omega
  | succ fuel ih =>
    intro s p hp
    rw [initRec_succ]
    by_cases hmem : p ∈ s.replaced
    · refine ⟨0, ?_⟩
      cases s
      simp_all [steps, call]
    · simp only [call, hmem, if_false]
      obtain ⟨n1, h1⟩ := imps_run G sched rank fuel ih p (List.range (G.nitems p)) none s.stack
        (G.imports p) (fun q hq => by have := hac p q hq; omega) (p :: s.replaced)
        (s.trace ++ [Ev.enter p])
      obtain ⟨n2, h2⟩ := items_run G sched (impsRec G sched fuel (p :: s.replaced) (G.imports p)).1 p
        s.stack (List.range (G.nitems p))
        (s.trace ++ [Ev.enter p] ++ (impsRec G sched fuel (p :: s.replaced) (G.imports p)).2)
      have h3 : steps G sched 1
          { replaced := (impsRec G sched fuel (p :: s.replaced) (G.imports p)).1,
            stack := ⟨p, [], [], none⟩ :: s.stack,
            trace := s.trace ++ [Ev.enter p] ++ (impsRec G sched fuel (p :: s.replaced) (G.imports p)).2
              ++ (List.range (G.nitems p)).flatMap (itemEvs sched p) }
          = { replaced := (impsRec G sched fuel (p :: s.replaced) (G.imports p)).1,
              stack := s.stack,
              trace := s.trace ++ [Ev.enter p] ++ (impsRec G sched fuel (p :: s.replaced) (G.imports p)).2
                ++ (List.range (G.nitems p)).flatMap (itemEvs sched p) ++ [Ev.done p] } := by
        simp [steps_one, step]
      refine ⟨n1 + n2 + 1, ?_⟩
      unfold newFrame
      rw [steps_trans (steps_trans h1 h2) h3]
      simp [bodyEvs, List.append_assoc]

/-! ### 3. Suspensions are irrelevant -/

theorem filter_itemEvs (sched : α → Nat → Nat) (p : α) (i : Nat) :
    (itemEvs sched p i).filter (fun e => decide (e ≠ Ev.yield)) = [Ev.begin p i, Ev.fin p i] := by
  simp [itemEvs, List.filter_append]

theorem filter_flatMap_itemEvs (sched : α → Nat → Nat) (p : α) (js : List Nat) :
    (js.flatMap (itemEvs sched p)).filter (fun e => decide (e ≠ Ev.yield))
      = js.flatMap (fun i => [Ev.begin p i, Ev.fin p i]) := by
  induction js with
  | nil => rfl
  | cons i js ih => simp only [List.flatMap_cons, List.filter_append, filter_itemEvs, ih]

theorem initRec_sched_aux (G : Prog α) (sched : α → Nat → Nat) :
    ∀ fuel repl p,
      (initRec G sched fuel repl p).1 = (initRec G (fun _ _ => 0) fuel repl p).1 ∧
      ((initRec G sched fuel repl p).2).filter (fun e => decide (e ≠ Ev.yield))
        = ((initRec G (fun _ _ => 0) fuel repl p).2).filter (fun e => decide (e ≠ Ev.yield)) := by
  intro fuel
  induction fuel with
  | zero => intro repl p; simp [initRec_zero]
  | succ fuel ih =>
    have himps : ∀ qs repl,
        (impsRec G sched fuel repl qs).1 = (impsRec G (fun _ _ => 0) fuel repl qs).1 ∧
        ((impsRec G sched fuel repl qs).2).filter (fun e => decide (e ≠ Ev.yield))
          = ((impsRec G (fun _ _ => 0) fuel repl qs).2).filter (fun e => decide (e ≠ Ev.yield)) := by
      intro qs
      induction qs with
      | nil => intro repl; simp [impsRec]
      | cons q qs ihq =>
        intro repl
        obtain ⟨h1, h2⟩ := ih repl q
        obtain ⟨h3, h4⟩ := ihq (initRec G sched fuel repl q).1
        simp only [impsRec, List.filter_append]
        rw [h3, h4, h2, h1]
        exact ⟨rfl, rfl⟩
    intro repl p
    rw [initRec_succ, initRec_succ]
    split
    · exact ⟨rfl, rfl⟩
    · obtain ⟨h1, h2⟩ := himps (G.imports p) (p :: repl)
      refine ⟨h1, ?_⟩
      simp only [List.filter_cons, List.filter_append, h2, bodyEvs, filter_flatMap_itemEvs]

/-- **Suspensions do not change what happens or in which order**: the set of initialised packages and the
    trace with the `yield` events removed do not depend on the schedule.
    (The filter predicate is `fun e => decide (e ≠ Ev.yield)`.) -/
theorem initRec_sched_irrelevant (G : Prog α) (sched : α → Nat → Nat) (fuel : Nat) (repl : List α) (p : α) :
    (initRec G sched fuel repl p).1 = (initRec G (fun _ _ => 0) fuel repl p).1 ∧
    ((initRec G sched fuel repl p).2).filter (fun e => decide (e ≠ Ev.yield))
      = ((initRec G (fun _ _ => 0) fuel repl p).2).filter (fun e => decide (e ≠ Ev.yield)) :=
  initRec_sched_aux G sched fuel repl p

theorem programTrace_sched_irrelevant (G : Prog α) (sched : α → Nat → Nat) (fuel : Nat) (runtime main : α) :
    (programTrace G sched fuel runtime main).filter (fun e => decide (e ≠ Ev.yield))
      = (programTrace G (fun _ _ => 0) fuel runtime main).filter (fun e => decide (e ≠ Ev.yield)) := by
  simp only [programTrace, List.filter_append]
  rw [(initRec_sched_aux G sched fuel [] runtime).2, (initRec_sched_aux G sched fuel [] runtime).1,
    (initRec_sched_aux G sched fuel _ main).2]

/-! ### 4. No overtaking -/

theorem append_split {β : Type} {A B pre post : List β} {e : β} (h : A ++ B = pre ++ e :: post) :
    (∃ m, A = pre ++ e :: m ∧ post = m ++ B) ∨ (∃ m, pre = A ++ m ∧ B = m ++ e :: post) := by
  induction A generalizing pre with
  | nil => right; exact ⟨pre, by simp, by simpa using h⟩
  | cons a A ih =>
    cases pre with
    | nil =>
      simp only [List.cons_append, List.nil_append, List.cons.injEq] at h
      left; exact ⟨A, by simp [h.1], h.2.symm⟩
    | cons b pre =>
      simp only [List.cons_append, List.cons.injEq] at h
      obtain ⟨hab, h⟩ := h
      rcases ih h with ⟨m, h1, h2⟩ | ⟨m, h1, h2⟩
      · left; exact ⟨m, by simp [hab, h1], h2⟩
      · right; exact ⟨m, by simp [hab, h1], h2⟩

/-- between the begin and the end of a body item only that item's own suspensions occur -/
def NoOvertake (sched : α → Nat → Nat) (T : List (Ev α)) : Prop :=
  ∀ pre q i post, T = pre ++ Ev.begin q i :: post →
    ∃ post', post = List.replicate (sched q i) Ev.yield ++ Ev.fin q i :: post'

theorem NoOvertake.append {sched : α → Nat → Nat} {A B : List (Ev α)} (hA : NoOvertake sched A)
    (hB : NoOvertake sched B) : NoOvertake sched (A ++ B) := by
  intro pre q i post h
  rcases append_split h with ⟨m, h1, h2⟩ | ⟨m, h1, h2⟩
  · obtain ⟨post', hp⟩ := hA _ _ _ _ h1
    exact ⟨post' ++ B, by rw [h2, hp]; simp⟩
  · exact hB _ _ _ _ h2

theorem NoOvertake.of_no_begin {sched : α → Nat → Nat} {T : List (Ev α)} (h : ∀ q i, Ev.begin q i ∉ T) :
    NoOvertake sched T := by
  intro pre q i post hT
  exact absurd (by rw [hT]; simp) (h q i)

theorem noOvertake_itemEvs (sched : α → Nat → Nat) (p : α) (i : Nat) : NoOvertake sched (itemEvs sched p i) := by
  intro pre q j post h
  unfold itemEvs at h
  cases pre with
  | nil =>
    simp only [List.cons_append, List.nil_append, List.cons.injEq, Ev.begin.injEq] at h
    obtain ⟨⟨rfl, rfl⟩, h⟩ := h
    exact ⟨[], by rw [← h]⟩
  | cons a pre =>
    simp only [List.cons_append, List.nil_append, List.cons.injEq] at h
    have hm : Ev.begin q j ∈ List.replicate (sched p i) Ev.yield ++ [Ev.fin p i] := by rw [h.2]; simp
    simp [List.mem_replicate] at hm

theorem noOvertake_flatMap (sched : α → Nat → Nat) (p : α) (js : List Nat) :
    NoOvertake sched (js.flatMap (itemEvs sched p)) := by
  induction js with
  | nil => exact NoOvertake.of_no_begin (by simp)
  | cons i js ih => rw [List.flatMap_cons]; exact (noOvertake_itemEvs sched p i).append ih

theorem noOvertake_initRec (G : Prog α) (sched : α → Nat → Nat) :
    ∀ fuel repl p, NoOvertake sched (initRec G sched fuel repl p).2 := by
  intro fuel
  induction fuel with
  | zero => intro repl p; exact NoOvertake.of_no_begin (by simp [initRec_zero])
  | succ fuel ih =>
    have himps : ∀ qs repl, NoOvertake sched (impsRec G sched fuel repl qs).2 := by
      intro qs
      induction qs with
      | nil => intro repl; exact NoOvertake.of_no_begin (by simp [impsRec])
      | cons q qs ihq => intro repl; simp only [impsRec]; exact (ih repl q).append (ihq _)
    intro repl p
    rw [initRec_succ]
    split
    · exact NoOvertake.of_no_begin (by simp)
    · show NoOvertake sched ([Ev.enter p] ++ (_ ++ (_ ++ [Ev.done p])))
      exact (NoOvertake.of_no_begin (by simp)).append ((himps _ _).append
        ((noOvertake_flatMap sched p _).append (NoOvertake.of_no_begin (by simp))))

/-- **No overtaking**: in the trace of `p.$init()`, between `begin q i` and `fin q i` only the `sched q i`
    suspensions of that item occur. -/
theorem no_overtaking_rec (G : Prog α) (sched : α → Nat → Nat) (fuel : Nat) (repl : List α) (p : α)
    (pre : List (Ev α)) (q : α) (i : Nat) (post : List (Ev α))
    (h : (initRec G sched fuel repl p).2 = pre ++ Ev.begin q i :: post) :
    ∃ post', post = List.replicate (sched q i) Ev.yield ++ Ev.fin q i :: post' :=
  noOvertake_initRec G sched fuel repl p pre q i post h

theorem no_overtaking_program (G : Prog α) (sched : α → Nat → Nat) (fuel : Nat) (runtime main : α)
    (pre : List (Ev α)) (q : α) (i : Nat) (post : List (Ev α))
    (h : programTrace G sched fuel runtime main = pre ++ Ev.begin q i :: post) :
    ∃ post', post = List.replicate (sched q i) Ev.yield ++ Ev.fin q i :: post' :=
  ((noOvertake_initRec G sched fuel [] runtime).append (noOvertake_initRec G sched fuel _ main)) pre q i post h

/-! ### 5. The main invariant -/

/-- induction principle for `initRec` / `impsRec` -/
theorem initRec_ind (G : Prog α) (sched : α → Nat → Nat)
    {P : Nat → List α → α → List α × List (Ev α) → Prop}
    {Q : Nat → List α → List α → List α × List (Ev α) → Prop}
    (h0 : ∀ repl p, P 0 repl p (repl, []))
    (hmem : ∀ fuel repl p, p ∈ repl → P (fuel + 1) repl p (repl, []))
    (hstep : ∀ fuel repl p M, M = impsRec G sched fuel (p :: repl) (G.imports p) → p ∉ repl →
      Q fuel (p :: repl) (G.imports p) M →
      P (fuel + 1) repl p (M.1, Ev.enter p :: (M.2 ++ (bodyEvs G sched p ++ [Ev.done p]))))
    (hnil : ∀ fuel repl, Q fuel repl [] (repl, []))
    (hcons : ∀ fuel repl q qs R1 R2, R1 = initRec G sched fuel repl q →
      R2 = impsRec G sched fuel R1.1 qs →
      P fuel repl q R1 → Q fuel R1.1 qs R2 → Q fuel repl (q :: qs) (R2.1, R1.2 ++ R2.2)) :
    ∀ fuel, (∀ repl p, P fuel repl p (initRec G sched fuel repl p)) ∧
      (∀ repl qs, Q fuel repl qs (impsRec G sched fuel repl qs)) := by
  have hQ : ∀ fuel, (∀ repl p, P fuel repl p (initRec G sched fuel repl p)) →
      ∀ repl qs, Q fuel repl qs (impsRec G sched fuel repl qs) := by
    intro fuel hP repl qs
    induction qs generalizing repl with
    | nil => exact hnil fuel repl
    | cons q qs ih => exact hcons fuel repl q qs _ _ rfl rfl (hP repl q) (ih _)
  have hP : ∀ fuel repl p, P fuel repl p (initRec G sched fuel repl p) := by
    intro fuel
    induction fuel with
    | zero => intro repl p; exact h0 repl p
    | succ fuel ih =>
      intro repl p
      rw [initRec_succ]
      split
      · exact hmem fuel repl p ‹_›
      · exact hstep fuel repl p _ rfl ‹_› (hQ fuel ih _ _)
  exact fun fuel => ⟨hP fuel, hQ fuel (hP fuel)⟩

/-- indicator of membership -/
def ind (x : α) (l : List α) : Nat := if x ∈ l then 1 else 0

theorem ind_le_one (x : α) (l : List α) : ind x l ≤ 1 := by unfold ind; split <;> omega
theorem ind_nil (x : α) : ind x [] = 0 := by simp [ind]
theorem ind_eq_one {x : α} {l : List α} : ind x l = 1 ↔ x ∈ l := by unfold ind; split <;> simp [*]
theorem ind_eq_zero {x : α} {l : List α} : ind x l = 0 ↔ x ∉ l := by unfold ind; split <;> simp [*]
theorem ind_cons_of_not_mem {p : α} {repl : List α} (h : p ∉ repl) (x : α) :
    ind x (p :: repl) = (if x = p then 1 else 0) + ind x repl := by
  unfold ind
  by_cases hx : x = p
  · subst hx; simp [h]
  · simp [hx]

theorem count_cons_eq (a b : Ev α) (l : List (Ev α)) :
    (b :: l).count a = (if a = b then 1 else 0) + l.count a := by
  by_cases h : a = b
  · subst h; simp; omega
  · rw [List.count_cons_of_ne (fun h' => h h'.symm)]; simp [h]

theorem mem_bodyEvs {G : Prog α} {sched : α → Nat → Nat} {p : α} {e : Ev α} (h : e ∈ bodyEvs G sched p) :
    ∃ i, i < G.nitems p ∧ (e = Ev.begin p i ∨ e = Ev.yield ∨ e = Ev.fin p i) := by
  simp only [bodyEvs, itemEvs, List.mem_flatMap, List.mem_range, List.mem_append, List.mem_singleton,
    List.mem_replicate] at h
  obtain ⟨i, hi, h⟩ := h
  refine ⟨i, hi, ?_⟩
  rcases h with (h | h) | h
  · exact Or.inl h
  · exact Or.inr (Or.inl h.2)
  · exact Or.inr (Or.inr h)

theorem fin_mem_bodyEvs {G : Prog α} {sched : α → Nat → Nat} {p : α} {i : Nat} (h : i < G.nitems p) :
    Ev.fin p i ∈ bodyEvs G sched p := by
  simp only [bodyEvs, itemEvs, List.mem_flatMap, List.mem_range]
  exact ⟨i, h, by simp⟩

theorem count_enter_body (G : Prog α) (sched : α → Nat → Nat) (p x : α) :
    (bodyEvs G sched p).count (Ev.enter x) = 0 :=
  List.count_eq_zero.2 (fun h => by obtain ⟨i, _, h⟩ := mem_bodyEvs h; simp at h)

theorem count_done_body (G : Prog α) (sched : α → Nat → Nat) (p x : α) :
    (bodyEvs G sched p).count (Ev.done x) = 0 :=
  List.count_eq_zero.2 (fun h => by obtain ⟨i, _, h⟩ := mem_bodyEvs h; simp at h)

theorem count_begin_itemEvs (sched : α → Nat → Nat) (p : α) (j : Nat) (x : α) (i : Nat) :
    (itemEvs sched p j).count (Ev.begin x i) = if x = p ∧ i = j then 1 else 0 := by
  simp only [itemEvs, List.cons_append, List.nil_append, count_cons_eq, List.count_append,
    List.count_replicate, List.count_nil, Ev.begin.injEq, reduceCtorEq, if_false, beq_iff_eq]
  simp

theorem count_begin_body (G : Prog α) (sched : α → Nat → Nat) (p x : α) (i : Nat) :
    (bodyEvs G sched p).count (Ev.begin x i) = if x = p ∧ i < G.nitems p then 1 else 0 := by
  unfold bodyEvs
  generalize G.nitems p = n
  induction n with
  | zero => simp
  | succ n ih =>
    rw [List.range_succ, List.flatMap_append, List.count_append, ih]
    simp only [List.flatMap_cons, List.flatMap_nil, List.append_nil, count_begin_itemEvs]
    by_cases hx : x = p
    · simp only [hx, true_and]
      split <;> split <;> split <;> omega
    · simp [hx]

/-- L1: the packages entered are exactly the new members of the replaced set, each entered once -/
theorem count_enter_spec (G : Prog α) (sched : α → Nat → Nat) : ∀ fuel,
    (∀ repl p, ∀ x, (initRec G sched fuel repl p).2.count (Ev.enter x) + ind x repl
      = ind x (initRec G sched fuel repl p).1) ∧
    (∀ repl qs, ∀ x, (impsRec G sched fuel repl qs).2.count (Ev.enter x) + ind x repl
      = ind x (impsRec G sched fuel repl qs).1) := by
  refine initRec_ind G sched
    (P := fun _ repl _ R => ∀ x, R.2.count (Ev.enter x) + ind x repl = ind x R.1)
    (Q := fun _ repl _ R => ∀ x, R.2.count (Ev.enter x) + ind x repl = ind x R.1) ?_ ?_ ?_ ?_ ?_
  · intro repl p x; simp
  · intro fuel repl p _ x; simp
  · intro fuel repl p M _ hp hQ x
    have h := hQ x
    rw [ind_cons_of_not_mem hp] at h
    simp only [count_cons_eq, List.count_append, count_enter_body, List.count_nil, Ev.enter.injEq,
      reduceCtorEq, if_false]
    generalize (if x = p then 1 else 0) = c at *
    omega
  · intro fuel repl x; simp
  · intro fuel repl q qs R1 R2 _ _ hP hQ x
    have h1 := hP x
    have h2 := hQ x
    simp only [List.count_append]
    omega

/-- L2: every started initialisation completes -/
theorem count_done_spec (G : Prog α) (sched : α → Nat → Nat) : ∀ fuel,
    (∀ repl p, ∀ x, (initRec G sched fuel repl p).2.count (Ev.done x)
      = (initRec G sched fuel repl p).2.count (Ev.enter x)) ∧
    (∀ repl qs, ∀ x, (impsRec G sched fuel repl qs).2.count (Ev.done x)
      = (impsRec G sched fuel repl qs).2.count (Ev.enter x)) := by
  refine initRec_ind G sched
    (P := fun _ _ _ R => ∀ x, R.2.count (Ev.done x) = R.2.count (Ev.enter x))
    (Q := fun _ _ _ R => ∀ x, R.2.count (Ev.done x) = R.2.count (Ev.enter x)) ?_ ?_ ?_ ?_ ?_
  · intro repl p x; simp
  · intro fuel repl p _ x; simp
  · intro fuel repl p M _ hp hQ x
    have h := hQ x
    simp only [count_cons_eq, List.count_append, count_enter_body, count_done_body, List.count_nil,
      Ev.enter.injEq, Ev.done.injEq, reduceCtorEq, if_false]
    generalize (if x = p then 1 else 0) = c at *
    omega
  · intro fuel repl x; simp
  · intro fuel repl q qs R1 R2 _ _ hP hQ x
    have h1 := hP x
    have h2 := hQ x
    simp only [List.count_append]
    omega

/-- L3: the body items of an entered package each begin exactly once -/
theorem count_begin_spec (G : Prog α) (sched : α → Nat → Nat) : ∀ fuel,
    (∀ repl p, ∀ x i, (initRec G sched fuel repl p).2.count (Ev.begin x i)
      = if i < G.nitems x then (initRec G sched fuel repl p).2.count (Ev.enter x) else 0) ∧
    (∀ repl qs, ∀ x i, (impsRec G sched fuel repl qs).2.count (Ev.begin x i)
      = if i < G.nitems x then (impsRec G sched fuel repl qs).2.count (Ev.enter x) else 0) := by
  refine initRec_ind G sched
    (P := fun _ _ _ R => ∀ x i, R.2.count (Ev.begin x i)
      = if i < G.nitems x then R.2.count (Ev.enter x) else 0)
    (Q := fun _ _ _ R => ∀ x i, R.2.count (Ev.begin x i)
      = if i < G.nitems x then R.2.count (Ev.enter x) else 0) ?_ ?_ ?_ ?_ ?_
  · intro repl p x i; simp
  · intro fuel repl p _ x i; simp
  · intro fuel repl p M _ hp hQ x i
    have h := hQ x i
    simp only [count_cons_eq, List.count_append, count_enter_body, count_begin_body, List.count_nil,
      Ev.enter.injEq, reduceCtorEq, if_false]
    by_cases hx : x = p
    · subst hx
      by_cases hi : i < G.nitems x
      · simp only [hi, if_true, and_self] at h ⊢; omega
      · simp only [hi, if_false, and_false] at h ⊢; omega
    · simp only [hx, if_false, false_and]
      split at h <;> simp_all
  · intro fuel repl x i; simp
  · intro fuel repl q qs R1 R2 _ _ hP hQ x i
    have h1 := hP x i
    have h2 := hQ x i
    simp only [List.count_append]
    split at h1 <;> simp_all

/-- the package an event belongs to -/
def pkgOf : Ev α → Option α
  | .enter p => some p
  | .begin p _ => some p
  | .yield => none
  | .fin p _ => some p
  | .done p => some p

/-- L4: all events of `p.$init()` belong to packages reachable from `p` -/
theorem reach_spec (G : Prog α) (sched : α → Nat → Nat) : ∀ fuel,
    (∀ repl p, ∀ e ∈ (initRec G sched fuel repl p).2, ∀ x, pkgOf e = some x → Reach G.imports p x) ∧
    (∀ repl qs, ∀ e ∈ (impsRec G sched fuel repl qs).2, ∀ x, pkgOf e = some x →
      ∃ q ∈ qs, Reach G.imports q x) := by
  refine initRec_ind G sched
    (P := fun _ _ p R => ∀ e ∈ R.2, ∀ x, pkgOf e = some x → Reach G.imports p x)
    (Q := fun _ _ qs R => ∀ e ∈ R.2, ∀ x, pkgOf e = some x → ∃ q ∈ qs, Reach G.imports q x)
    ?_ ?_ ?_ ?_ ?_
  · intro repl p e he; simp at he
  · intro fuel repl p _ e he; simp at he
  · intro fuel repl p M _ hp hQ e he x hx
    simp only [List.mem_cons, List.mem_append, List.not_mem_nil, or_false] at he
    rcases he with rfl | he | he | rfl
    · simp only [pkgOf, Option.some.injEq] at hx; subst hx; exact Reach.refl _
    · obtain ⟨q, hq, hr⟩ := hQ e he x hx
      exact Reach.step hq hr
    · obtain ⟨i, _, h⟩ := mem_bodyEvs he
      rcases h with rfl | rfl | rfl
      · simp only [pkgOf, Option.some.injEq] at hx; subst hx; exact Reach.refl _
      · simp [pkgOf] at hx
      · simp only [pkgOf, Option.some.injEq] at hx; subst hx; exact Reach.refl _
    · simp only [pkgOf, Option.some.injEq] at hx; subst hx; exact Reach.refl _
  · intro fuel repl e he; simp at he
  · intro fuel repl q qs R1 R2 _ _ hP hQ e he x hx
    rcases List.mem_append.1 he with he | he
    · exact ⟨q, by simp, hP e he x hx⟩
    · obtain ⟨q', hq', hr⟩ := hQ e he x hx
      exact ⟨q', by simp [hq'], hr⟩

theorem reach_rank {imports : α → List α} {rank : α → Nat} (hac : Acyclic imports rank) {p x : α}
    (h : Reach imports p x) : rank x ≤ rank p := by
  induction h with
  | refl p => exact Nat.le_refl _
  | step hq _ ih => have := hac _ _ hq; omega

theorem mono_of_counts {T : List (Ev α)} {y : α} {repl repl' : List α}
    (h1 : T.count (Ev.enter y) + ind y repl = ind y repl') (h : y ∈ repl) : y ∈ repl' := by
  rw [ind_eq_one.2 h] at h1
  have := ind_le_one y repl'
  exact ind_eq_one.1 (by omega)

theorem done_mem_of_counts {T : List (Ev α)} {y : α} {repl repl' : List α}
    (h1 : T.count (Ev.enter y) + ind y repl = ind y repl')
    (h2 : T.count (Ev.done y) = T.count (Ev.enter y)) (h : y ∈ repl') (hn : y ∉ repl) : Ev.done y ∈ T := by
  rw [ind_eq_one.2 h, ind_eq_zero.2 hn] at h1
  rw [← List.count_pos_iff]; omega

theorem initRec_mono (G : Prog α) (sched : α → Nat → Nat) (fuel : Nat) (repl : List α) (p : α) {x : α}
    (h : x ∈ repl) : x ∈ (initRec G sched fuel repl p).1 :=
  mono_of_counts ((count_enter_spec G sched fuel).1 repl p x) h

theorem impsRec_mono (G : Prog α) (sched : α → Nat → Nat) (fuel : Nat) (repl : List α) (qs : List α) {x : α}
    (h : x ∈ repl) : x ∈ (impsRec G sched fuel repl qs).1 :=
  mono_of_counts ((count_enter_spec G sched fuel).2 repl qs x) h

theorem done_of_new (G : Prog α) (sched : α → Nat → Nat) (fuel : Nat) (repl : List α) (p : α) {y : α}
    (h : y ∈ (initRec G sched fuel repl p).1) (hn : y ∉ repl) : Ev.done y ∈ (initRec G sched fuel repl p).2 :=
  done_mem_of_counts ((count_enter_spec G sched fuel).1 repl p y) ((count_done_spec G sched fuel).1 repl p y) h hn

theorem done_of_new_imps (G : Prog α) (sched : α → Nat → Nat) (fuel : Nat) (repl : List α) (qs : List α)
    {y : α} (h : y ∈ (impsRec G sched fuel repl qs).1) (hn : y ∉ repl) :
    Ev.done y ∈ (impsRec G sched fuel repl qs).2 :=
  done_mem_of_counts ((count_enter_spec G sched fuel).2 repl qs y) ((count_done_spec G sched fuel).2 repl qs y) h hn

/-- L5: with enough fuel the called package is replaced afterwards and every newly replaced package has all
    its imports replaced -/
theorem closure_spec (G : Prog α) (sched : α → Nat → Nat) (rank : α → Nat) (hac : Acyclic G.imports rank) :
    ∀ fuel,
    (∀ repl p, rank p < fuel → p ∈ (initRec G sched fuel repl p).1 ∧
      ∀ x ∈ (initRec G sched fuel repl p).1, x ∉ repl → ∀ y ∈ G.imports x, y ∈ (initRec G sched fuel repl p).1) ∧
    (∀ repl qs, (∀ q ∈ qs, rank q < fuel) → (∀ q ∈ qs, q ∈ (impsRec G sched fuel repl qs).1) ∧
      ∀ x ∈ (impsRec G sched fuel repl qs).1, x ∉ repl → ∀ y ∈ G.imports x, y ∈ (impsRec G sched fuel repl qs).1) := by
  refine initRec_ind G sched
    (P := fun fuel repl p R => rank p < fuel → p ∈ R.1 ∧
      ∀ x ∈ R.1, x ∉ repl → ∀ y ∈ G.imports x, y ∈ R.1)
    (Q := fun fuel repl qs R => (∀ q ∈ qs, rank q < fuel) → (∀ q ∈ qs, q ∈ R.1) ∧
      ∀ x ∈ R.1, x ∉ repl → ∀ y ∈ G.imports x, y ∈ R.1) ?_ ?_ ?_ ?_ ?_
  · intro repl p h; omega
  · intro fuel repl p hp _
    exact ⟨hp, fun x hx hxr => absurd hx hxr⟩
  · intro fuel repl p M hM hp hQ hr
    obtain ⟨hq1, hq2⟩ := hQ (fun q hq => by have := hac p q hq; omega)
    subst hM
    refine ⟨impsRec_mono G sched fuel _ _ (by simp), ?_⟩
    intro x hx hxr y hy
    by_cases hxp : x = p
    · subst hxp; exact hq1 y hy
    · exact hq2 x hx (by simp [hxp, hxr]) y hy
  · intro fuel repl _
    exact ⟨fun q hq => by simp at hq, fun x hx hxr => absurd hx hxr⟩
  · intro fuel repl q qs R1 R2 h1 h2 hP hQ hr
    obtain ⟨hp1, hp2⟩ := hP (hr q (by simp))
    obtain ⟨hq1, hq2⟩ := hQ (fun q' h => hr q' (by simp [h]))
    subst h1
    subst h2
    refine ⟨?_, ?_⟩
    · intro q' hq'
      rcases List.mem_cons.1 hq' with h | h
      · rw [h]; exact impsRec_mono G sched fuel _ _ hp1
      · exact hq1 _ h
    · intro x hx hxr y hy
      by_cases hx1 : x ∈ (initRec G sched fuel repl q).1
      · exact impsRec_mono G sched fuel _ _ (hp2 x hx1 hxr y hy)
      · exact hq2 x hx hx1 y hy

/-- L6: when a body item of `x` begins, every import of `x` was replaced before the call or is done -/
theorem begin_spec (G : Prog α) (sched : α → Nat → Nat) (rank : α → Nat) (hac : Acyclic G.imports rank) :
    ∀ fuel,
    (∀ repl p, rank p < fuel → ∀ pre x i post, (initRec G sched fuel repl p).2 = pre ++ Ev.begin x i :: post →
      ∀ y ∈ G.imports x, y ∈ repl ∨ Ev.done y ∈ pre) ∧
    (∀ repl qs, (∀ q ∈ qs, rank q < fuel) → ∀ pre x i post,
      (impsRec G sched fuel repl qs).2 = pre ++ Ev.begin x i :: post →
      ∀ y ∈ G.imports x, y ∈ repl ∨ Ev.done y ∈ pre) := by
  refine initRec_ind G sched
    (P := fun fuel repl p R => rank p < fuel → ∀ pre x i post, R.2 = pre ++ Ev.begin x i :: post →
      ∀ y ∈ G.imports x, y ∈ repl ∨ Ev.done y ∈ pre)
    (Q := fun fuel repl qs R => (∀ q ∈ qs, rank q < fuel) → ∀ pre x i post,
      R.2 = pre ++ Ev.begin x i :: post → ∀ y ∈ G.imports x, y ∈ repl ∨ Ev.done y ∈ pre) ?_ ?_ ?_ ?_ ?_
  · intro repl p h; omega
  · intro fuel repl p _ _ pre x i post hT; simp at hT
  · intro fuel repl p M hM hp hQ hr pre x i post hT y hy
    have hr' : ∀ q ∈ G.imports p, rank q < fuel := fun q hq => by have := hac p q hq; omega
    dsimp only at hT
    cases pre with
    | nil => simp at hT
    | cons a pre =>
      simp only [List.cons_append, List.cons.injEq] at hT
      obtain ⟨ha, hT⟩ := hT
      rcases append_split hT with ⟨m, h1, h2⟩ | ⟨m, h1, h2⟩
      · -- the item begins inside the initialisation of an import
        rcases hQ hr' pre x i m h1 y hy with h | h
        · rcases List.mem_cons.1 h with h | h
          · exfalso
            subst hM
            obtain ⟨q, hq, hreach⟩ := (reach_spec G sched fuel).2 _ _ (Ev.begin x i)
              (by rw [h1]; simp) x rfl
            have := reach_rank hac hreach
            have := hac _ _ hq
            have := hac _ _ hy
            rw [h] at this
            omega
          · exact Or.inl h
        · exact Or.inr (List.mem_cons_of_mem _ h)
      · -- the item is an item of `p` itself
        have hx : x = p := by
          have hb : Ev.begin x i ∈ bodyEvs G sched p ++ [Ev.done p] := by rw [h2]; simp
          simp only [List.mem_append, List.mem_singleton, reduceCtorEq, or_false] at hb
          obtain ⟨j, _, h⟩ := mem_bodyEvs hb
          simp only [Ev.begin.injEq, reduceCtorEq, or_false] at h
          exact h.1
        subst hx
        subst hM
        have hyM := ((closure_spec G sched rank hac fuel).2 (x :: repl) (G.imports x) hr').1 y hy
        by_cases hy1 : y ∈ x :: repl
        · rcases List.mem_cons.1 hy1 with h | h
          · have := hac _ _ hy; rw [h] at this; omega
          · exact Or.inl h
        · right
          rw [h1]
          exact List.mem_cons_of_mem _ (List.mem_append_left _ (done_of_new_imps G sched fuel _ _ hyM hy1))
  · intro fuel repl _ pre x i post hT; simp at hT
  · intro fuel repl q qs R1 R2 h1 h2 hP hQ hr pre x i post hT y hy
    dsimp only at hT
    rcases append_split hT with ⟨m, e1, e2⟩ | ⟨m, e1, e2⟩
    · exact hP (hr q (by simp)) pre x i m e1 y hy
    · rcases hQ (fun q' h => hr q' (by simp [h])) m x i post e2 y hy with h | h
      · by_cases hyr : y ∈ repl
        · exact Or.inl hyr
        · right
          rw [e1]
          subst h1
          exact List.mem_append_left _ (done_of_new G sched fuel _ _ h hyr)
      · right; rw [e1]; exact List.mem_append_right _ h

/-- L7: a package is done only after all its body items finished -/
theorem done_spec (G : Prog α) (sched : α → Nat → Nat) : ∀ fuel,
    (∀ repl p, ∀ pre x post, (initRec G sched fuel repl p).2 = pre ++ Ev.done x :: post →
      ∀ i, i < G.nitems x → Ev.fin x i ∈ pre) ∧
    (∀ repl qs, ∀ pre x post, (impsRec G sched fuel repl qs).2 = pre ++ Ev.done x :: post →
      ∀ i, i < G.nitems x → Ev.fin x i ∈ pre) := by
  refine initRec_ind G sched
    (P := fun _ _ _ R => ∀ pre x post, R.2 = pre ++ Ev.done x :: post →
      ∀ i, i < G.nitems x → Ev.fin x i ∈ pre)
    (Q := fun _ _ _ R => ∀ pre x post, R.2 = pre ++ Ev.done x :: post →
      ∀ i, i < G.nitems x → Ev.fin x i ∈ pre) ?_ ?_ ?_ ?_ ?_
  · intro repl p pre x post hT; simp at hT
  · intro fuel repl p _ pre x post hT; simp at hT
  · intro fuel repl p M _ _ hQ pre x post hT i hi
    dsimp only at hT
    cases pre with
    | nil => simp at hT
    | cons a pre =>
      simp only [List.cons_append, List.cons.injEq] at hT
      obtain ⟨ha, hT⟩ := hT
      rcases append_split hT with ⟨m, h1, h2⟩ | ⟨m, h1, h2⟩
      · exact List.mem_cons_of_mem _ (hQ pre x m h1 i hi)
      · rcases append_split h2 with ⟨m', e1, e2⟩ | ⟨m', e1, e2⟩
        · exfalso
          have hd : Ev.done x ∈ bodyEvs G sched p := by rw [e1]; simp
          obtain ⟨j, _, h⟩ := mem_bodyEvs hd
          simp at h
        · cases m' with
          | nil =>
            simp only [List.nil_append, List.cons.injEq, Ev.done.injEq] at e2
            obtain ⟨hpx, _⟩ := e2
            subst hpx
            rw [h1, e1]
            exact List.mem_cons_of_mem _ (List.mem_append_right _
              (List.mem_append_left _ (fin_mem_bodyEvs hi)))
          | cons b m' => simp at e2
  · intro fuel repl pre x post hT; simp at hT
  · intro fuel repl q qs R1 R2 _ _ hP hQ pre x post hT i hi
    dsimp only at hT
    rcases append_split hT with ⟨m, e1, e2⟩ | ⟨m, e1, e2⟩
    · exact hP pre x m e1 i hi
    · rw [e1]; exact List.mem_append_right _ (hQ m x post e2 i hi)

/-! #### The statements for the whole program -/

section Program
variable (G : Prog α) (sched : α → Nat → Nat) (fuel : Nat) (runtime main : α)

theorem programTrace_eq :
    programTrace G sched fuel runtime main
      = (initRec G sched fuel [] runtime).2
        ++ (initRec G sched fuel (initRec G sched fuel [] runtime).1 main).2 := rfl

/-- the number of times `p` is entered is the indicator of `p` being replaced at the end -/
theorem count_enter_program (p : α) :
    (programTrace G sched fuel runtime main).count (Ev.enter p)
      = ind p (initRec G sched fuel (initRec G sched fuel [] runtime).1 main).1 := by
  have h0 := (count_enter_spec G sched fuel).1 [] runtime p
  have h1 := (count_enter_spec G sched fuel).1 (initRec G sched fuel [] runtime).1 main p
  rw [ind_nil] at h0
  rw [programTrace_eq, List.count_append]
  omega

/-- **5(a), first half**: each package is initialised at most once. -/
theorem init_once (p : α) : (programTrace G sched fuel runtime main).count (Ev.enter p) ≤ 1 := by
  rw [count_enter_program]; exact ind_le_one _ _

/-- **5(a), second half**: every started initialisation completes. -/
theorem init_completes (p : α) :
    (programTrace G sched fuel runtime main).count (Ev.done p)
      = (programTrace G sched fuel runtime main).count (Ev.enter p) := by
  have h0 := (count_done_spec G sched fuel).1 [] runtime p
  have h1 := (count_done_spec G sched fuel).1 (initRec G sched fuel [] runtime).1 main p
  rw [programTrace_eq, List.count_append, List.count_append]
  omega

/-- **5(b)**: a body item begins exactly once if its package is initialised, and never otherwise. -/
theorem begin_once (p : α) (i : Nat) :
    (programTrace G sched fuel runtime main).count (Ev.begin p i)
      = if Ev.enter p ∈ programTrace G sched fuel runtime main ∧ i < G.nitems p then 1 else 0 := by
  have hle := init_once G sched fuel runtime main p
  have h0 := (count_begin_spec G sched fuel).1 [] runtime p i
  have h1 := (count_begin_spec G sched fuel).1 (initRec G sched fuel [] runtime).1 main p i
  have hmem : Ev.enter p ∈ programTrace G sched fuel runtime main
      ↔ 0 < (programTrace G sched fuel runtime main).count (Ev.enter p) := List.count_pos_iff.symm
  have hT : (programTrace G sched fuel runtime main).count (Ev.begin p i)
      = if i < G.nitems p then (programTrace G sched fuel runtime main).count (Ev.enter p) else 0 := by
    rw [programTrace_eq, List.count_append, List.count_append, h0, h1]
    split <;> simp
  rw [hT]
  by_cases hi : i < G.nitems p
  · by_cases hm : Ev.enter p ∈ programTrace G sched fuel runtime main
    · have := hmem.1 hm
      simp only [hi, hm, if_true, and_self]; omega
    · have : ¬ 0 < (programTrace G sched fuel runtime main).count (Ev.enter p) := fun h => hm (hmem.2 h)
      simp only [hi, hm, if_true, false_and, if_false]; omega
  · simp [hi]

/-- `T.count (Ev.fin p i) = T.count (Ev.begin p i)` follows from `no_overtaking`; here the weaker membership form:
    every begun item finishes. -/
theorem fin_of_begin (p : α) (i : Nat) (h : Ev.begin p i ∈ programTrace G sched fuel runtime main) :
    Ev.fin p i ∈ programTrace G sched fuel runtime main := by
  obtain ⟨pre, post, hT⟩ := List.append_of_mem h
  obtain ⟨post', hp⟩ := no_overtaking_program G sched fuel runtime main pre p i post hT
  rw [hT, hp]; simp

variable (rank : α → Nat) (hac : Acyclic G.imports rank)
include hac

/-- **5(c)**: exactly the packages reachable from `runtime` or `main` are initialised. -/
theorem enter_iff_reach (hr0 : rank runtime < fuel) (hr1 : rank main < fuel) (p : α) :
    Ev.enter p ∈ programTrace G sched fuel runtime main
      ↔ (Reach G.imports runtime p ∨ Reach G.imports main p) := by
  constructor
  · intro h
    rw [programTrace_eq] at h
    rcases List.mem_append.1 h with h | h
    · exact Or.inl ((reach_spec G sched fuel).1 _ _ _ h p rfl)
    · exact Or.inr ((reach_spec G sched fuel).1 _ _ _ h p rfl)
  · intro h
    have c0 := (closure_spec G sched rank hac fuel).1 [] runtime hr0
    have c1 := (closure_spec G sched rank hac fuel).1 (initRec G sched fuel [] runtime).1 main hr1
    have hclosed : ∀ x ∈ (initRec G sched fuel (initRec G sched fuel [] runtime).1 main).1,
        ∀ y ∈ G.imports x, y ∈ (initRec G sched fuel (initRec G sched fuel [] runtime).1 main).1 := by
      intro x hx y hy
      by_cases hx0 : x ∈ (initRec G sched fuel [] runtime).1
      · exact initRec_mono G sched fuel _ _ (c0.2 x hx0 (by simp) y hy)
      · exact c1.2 x hx hx0 y hy
    have hreach : ∀ a x, Reach G.imports a x →
        a ∈ (initRec G sched fuel (initRec G sched fuel [] runtime).1 main).1 →
        x ∈ (initRec G sched fuel (initRec G sched fuel [] runtime).1 main).1 := by
      intro a x hax
      induction hax with
      | refl a => exact id
      | step hq _ ih => intro ha; exact ih (hclosed _ ha _ hq)
    have hp : p ∈ (initRec G sched fuel (initRec G sched fuel [] runtime).1 main).1 := by
      rcases h with h | h
      · exact hreach _ _ h (initRec_mono G sched fuel _ _ c0.1)
      · exact hreach _ _ h c1.1
    rw [← List.count_pos_iff, count_enter_program, ind_eq_one.2 hp]
    exact Nat.one_pos

/-- **5(d), after imports completed**: when a body item of `p` begins, every import of `p` is done. -/
theorem imports_done_before_begin (hr0 : rank runtime < fuel) (hr1 : rank main < fuel)
    (pre : List (Ev α)) (p : α) (i : Nat) (post : List (Ev α))
    (h : programTrace G sched fuel runtime main = pre ++ Ev.begin p i :: post) :
    ∀ q ∈ G.imports p, Ev.done q ∈ pre := by
  intro q hq
  rw [programTrace_eq] at h
  rcases append_split h with ⟨m, e1, e2⟩ | ⟨m, e1, e2⟩
  · rcases (begin_spec G sched rank hac fuel).1 [] runtime hr0 pre p i m e1 q hq with h | h
    · simp at h
    · exact h
  · rcases (begin_spec G sched rank hac fuel).1 _ main hr1 m p i post e2 q hq with h | h
    · rw [e1]; exact List.mem_append_left _ (done_of_new G sched fuel _ _ h (by simp))
    · rw [e1]; exact List.mem_append_right _ h

omit hac

/-- **5(d), second part**: a package is done only after all its body items finished. -/
theorem items_fin_before_done (pre : List (Ev α)) (p : α) (post : List (Ev α))
    (h : programTrace G sched fuel runtime main = pre ++ Ev.done p :: post) :
    ∀ i, i < G.nitems p → Ev.fin p i ∈ pre := by
  intro i hi
  rw [programTrace_eq] at h
  rcases append_split h with ⟨m, e1, e2⟩ | ⟨m, e1, e2⟩
  · exact (done_spec G sched fuel).1 _ _ pre p m e1 i hi
  · rw [e1]; exact List.mem_append_right _ ((done_spec G sched fuel).1 _ _ m p post e2 i hi)

include hac

/-- **The main invariant** (5(a)–(d) together): in the trace of the whole program every package is
    initialised at most once and every started initialisation completes; every body item of an initialised
    package begins exactly once; exactly the packages reachable from `runtime` or `main` are initialised; a body
    item of `p` begins only after all imports of `p` are done; `p` is done only after all its items finished. -/
theorem init_once_after_imports_rec (hr0 : rank runtime < fuel) (hr1 : rank main < fuel) :
    (∀ p, (programTrace G sched fuel runtime main).count (Ev.enter p) ≤ 1 ∧
      (programTrace G sched fuel runtime main).count (Ev.done p)
        = (programTrace G sched fuel runtime main).count (Ev.enter p)) ∧
    (∀ p i, (programTrace G sched fuel runtime main).count (Ev.begin p i)
      = if Ev.enter p ∈ programTrace G sched fuel runtime main ∧ i < G.nitems p then 1 else 0) ∧
    (∀ p, Ev.enter p ∈ programTrace G sched fuel runtime main
      ↔ (Reach G.imports runtime p ∨ Reach G.imports main p)) ∧
    (∀ pre p i post, programTrace G sched fuel runtime main = pre ++ Ev.begin p i :: post →
      ∀ q ∈ G.imports p, Ev.done q ∈ pre) ∧
    (∀ pre p post, programTrace G sched fuel runtime main = pre ++ Ev.done p :: post →
      ∀ i, i < G.nitems p → Ev.fin p i ∈ pre) :=
  ⟨fun p => ⟨init_once G sched fuel runtime main p, init_completes G sched fuel runtime main p⟩,
   begin_once G sched fuel runtime main,
   enter_iff_reach G sched fuel runtime main rank hac hr0 hr1,
   imports_done_before_begin G sched fuel runtime main rank hac hr0 hr1,
   items_fin_before_done G sched fuel runtime main⟩

/-- the machine started as in the emitted program (`runtime.$init()` run to completion from `bootState`, then
    `main.$init()`) produces exactly `programTrace` and ends with an empty stack -/
theorem machine_program (hr0 : rank runtime < fuel) (hr1 : rank main < fuel) :
    ∃ n m, steps G sched m (call G (steps G sched n (bootState G runtime)) main) =
      { replaced := (initRec G sched fuel (initRec G sched fuel [] runtime).1 main).1, stack := [],
        trace := programTrace G sched fuel runtime main } := by
  obtain ⟨n, hn⟩ := machine_eq_direct G sched rank hac fuel { replaced := [], stack := [], trace := [] }
    runtime hr0
  obtain ⟨m, hm⟩ := machine_eq_direct G sched rank hac fuel (steps G sched n (bootState G runtime)) main hr1
  refine ⟨n, m, ?_⟩
  rw [hm]
  simp only [bootState, hn]
  simp [programTrace_eq]

end Program

end GV.Proofs.LinkInit
