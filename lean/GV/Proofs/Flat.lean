/-
  GV.Proofs.Flat — helper lemmas for the correctness of the flattened translation.
  Part 1: targets, `needsFlat`, `seek`.
-/
import GV.Model.Flat

namespace GV.Flat
open GV.Ctrl

/-! ### jump-target bookkeeping -/

theorem targets_none (l : Option Nat) : targets l none = true := rfl

theorem enterLoop_tgt_hit (ctx : Ctx) (l x en bg p) (h : targets l x = true) :
    (ctx.enterLoop l en bg p).tgt x = ⟨en, bg, p⟩ := by
  cases x with
  | none => rfl
  | some y =>
    cases l with
    | none => simp [targets] at h
    | some z =>
      have : z = y := by simpa [targets] using h
      subst this
      simp [Ctx.enterLoop, Ctx.tgt, lookupLab]

theorem enterLoop_tgt_miss (ctx : Ctx) (l x en bg p) (h : targets l x = false) :
    (ctx.enterLoop l en bg p).tgt x = ctx.tgt x := by
  cases x with
  | none => simp [targets] at h
  | some y =>
    cases l with
    | none => rfl
    | some z =>
      have : ¬ z = y := by simpa [targets] using h
      have h2 : ¬ y = z := fun e => this e.symm
      simp [Ctx.enterLoop, Ctx.tgt, lookupLab, h2]

theorem enterSw_tgt_hit (ctx : Ctx) (l x en) (h : targets l x = true) :
    (ctx.enterSw l en).tgt x = { ctx.tgt x with brk := en } := by
  cases x with
  | none => rfl
  | some y =>
    cases l with
    | none => simp [targets] at h
    | some z =>
      have : z = y := by simpa [targets] using h
      subst this
      simp [Ctx.enterSw, Ctx.tgt, lookupLab]

theorem enterSw_tgt_miss (ctx : Ctx) (l x en) (h : targets l x = false) :
    (ctx.enterSw l en).tgt x = ctx.tgt x := by
  cases x with
  | none => simp [targets] at h
  | some y =>
    cases l with
    | none => rfl
    | some z =>
      have : ¬ z = y := by simpa [targets] using h
      have h2 : ¬ y = z := fun e => this e.symm
      simp [Ctx.enterSw, Ctx.tgt, lookupLab, h2]

theorem enterSw_tgt_post (ctx : Ctx) (l x en) : ((ctx.enterSw l en).tgt x).post = (ctx.tgt x).post := by
  cases h : targets l x
  · rw [enterSw_tgt_miss _ _ _ _ h]
  · rw [enterSw_tgt_hit _ _ _ _ h]

theorem enterSw_tgt_cont (ctx : Ctx) (l x en) : ((ctx.enterSw l en).tgt x).cont = (ctx.tgt x).cont := by
  cases h : targets l x
  · rw [enterSw_tgt_miss _ _ _ _ h]
  · rw [enterSw_tgt_hit _ _ _ _ h]

/-! ### `needsFlat` covers every suspension point -/

theorem needsFlat_hasCall : ∀ (s : Stmt) (ctx : Ctx), needsFlat ctx s = false → hasCall s = false := by
  intro s
  induction s with
  | skip => intro _ _; rfl
  | act a => intro _ _; rfl
  | call f => intro ctx h; simp [needsFlat] at h
  | seq s t ihs iht =>
    intro ctx h
    simp only [needsFlat, Bool.or_eq_false_iff] at h
    simp only [hasCall, Bool.or_eq_false_iff]
    exact ⟨ihs ctx h.1, iht ctx h.2⟩
  | ite c t e iht ihe =>
    intro ctx h
    simp only [needsFlat, Bool.or_eq_false_iff] at h
    simp only [hasCall, Bool.or_eq_false_iff]
    exact ⟨iht ctx h.1, ihe ctx h.2⟩
  | loop l c p b ih =>
    intro ctx h
    simp only [needsFlat, Bool.or_eq_false_iff] at h
    simp only [hasCall, Bool.or_eq_false_iff]
    exact ⟨h.1, ih _ h.2⟩
  | sw l b ih =>
    intro ctx h
    simp only [needsFlat] at h
    simp only [hasCall]
    exact ih _ h
  | brk l => intro _ _; rfl
  | cont l => intro _ _; rfl
  | ret => intro _ _; rfl
  | block s ih =>
    intro ctx h
    simp only [needsFlat] at h
    simp only [hasCall]
    exact ih _ h

theorem swSig_cont {l : Option Nat} {g : Sig} {x : Option Nat} (h : swSig l g = .cont x) : g = .cont x := by
  cases g with
  | normal => simp [swSig] at h
  | ret => simp [swSig] at h
  | cont y => simpa [swSig] using h
  | brk y =>
    simp only [swSig] at h
    split at h <;> simp at h

/-- an unflattened statement never leaves through a `continue` whose post statement blocks -/
theorem needsFlat_cont (E : Env σ) : ∀ {s st g st'}, Eval E s st g st' →
    ∀ (ctx : Ctx), needsFlat ctx s = false → ∀ x, g = .cont x → (ctx.tgt x).post.isCall = false := by
  intro s st g st' h
  induction h with
  | skip => intro _ _ _ hg; cases hg
  | act => intro _ _ _ hg; cases hg
  | call => intro _ _ _ hg; cases hg
  | seqN _ _ _ ih2 =>
    intro ctx hn x hg
    simp only [needsFlat, Bool.or_eq_false_iff] at hn
    exact ih2 ctx hn.2 x hg
  | seqA _ _ ih1 =>
    intro ctx hn x hg
    simp only [needsFlat, Bool.or_eq_false_iff] at hn
    exact ih1 ctx hn.1 x hg
  | iteT _ _ ih =>
    intro ctx hn x hg
    simp only [needsFlat, Bool.or_eq_false_iff] at hn
    exact ih ctx hn.1 x hg
  | iteF _ _ ih =>
    intro ctx hn x hg
    simp only [needsFlat, Bool.or_eq_false_iff] at hn
    exact ih ctx hn.2 x hg
  | block _ ih =>
    intro ctx hn x hg
    simp only [needsFlat] at hn
    exact ih ctx hn x hg
  | brk => intro _ _ _ hg; cases hg
  | cont =>
    intro ctx hn x hg
    cases hg
    simpa [needsFlat] using hn
  | ret => intro _ _ _ hg; cases hg
  | sw _ ih =>
    intro ctx hn x hg
    simp only [needsFlat] at hn
    have := ih _ hn x (swSig_cont hg)
    rwa [enterSw_tgt_post] at this
  | loopDone _ => intro _ _ _ hg; cases hg
  | loopAgain _ _ _ _ _ ih2 =>
    intro ctx hn x hg
    exact ih2 ctx hn x hg
  | loopExit _ _ _ => intro _ _ _ hg; cases hg
  | @loopProp c st st1 b g st2 l p _ _ ha ih =>
    intro ctx hn x hg
    subst hg
    simp only [needsFlat, Bool.or_eq_false_iff] at hn
    have hm : targets l x = false := by
      simp only [loopAct] at ha
      split at ha
      · cases ha
      · rename_i hh; exact Bool.eq_false_iff.mpr hh
    have := ih _ hn.2 x rfl
    rwa [enterLoop_tgt_miss _ _ _ _ _ _ hm] at this

/-! ### `seek` and labels -/

theorem isLabel_iff (n : Nat) (i : Instr) : isLabel n i = true ↔ labelOf i = some n := by
  cases i <;> simp [isLabel, labelOf]

theorem labels_append (a b : List Instr) : labels (a ++ b) = labels a ++ labels b := by
  simp [labels, List.filterMap_append]

theorem labels_cons (i : Instr) (b : List Instr) :
    labels (i :: b) = (match labelOf i with | some n => [n] | none => []) ++ labels b := by
  simp only [labels, List.filterMap_cons]
  cases labelOf i <;> rfl

theorem seek_skip (n : Nat) : ∀ (a : List Instr) (b : List Instr), (∀ j, j ∈ a → isLabel n j = false) →
    seek n (a ++ b) = seek n b := by
  intro a
  induction a with
  | nil => intro b _; rfl
  | cons j a ih =>
    intro b h
    have hj := h j (List.mem_cons_self ..)
    simp only [List.cons_append, seek, hj, Bool.false_eq_true, if_false]
    exact ih b (fun x hx => h x (List.mem_cons_of_mem _ hx))

/-- in code with pairwise distinct labels, `switch ($s)` with `$s = n` lands exactly at the instruction carrying `n` -/
theorem seek_mid {code : List Instr} (hnd : (labels code).Nodup) {a b : List Instr} {i : Instr} {n : Nat}
    (hc : code = a ++ i :: b) (hi : labelOf i = some n) : seek n code = i :: b := by
  subst hc
  have hna : ∀ j, j ∈ a → isLabel n j = false := by
    intro j hj
    cases hl : isLabel n j with
    | false => rfl
    | true =>
      exfalso
      have hjl : labelOf j = some n := (isLabel_iff n j).mp hl
      rw [labels_append, labels_cons, hi] at hnd
      have hmem : n ∈ labels a := by
        simp only [labels, List.mem_filterMap]
        exact ⟨j, hj, hjl⟩
      have := (List.nodup_append.mp hnd).2.2 n hmem n (by simp)
      exact this rfl
  rw [seek_skip n a _ hna]
  simp [seek, (isLabel_iff n i).mpr hi]

end GV.Flat
