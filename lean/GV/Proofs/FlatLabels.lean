/-
  GV.Proofs.FlatLabels — the case numbers allocated by `flatM` (`caseCounter`) are pairwise distinct.
-/
import GV.Model.Flat
import GV.Proofs.Flat

namespace GV.Flat
open GV.Ctrl

/-- all elements satisfy `P`, and there are no duplicates -/
def Good (l : List Nat) (P : Nat → Prop) : Prop := (∀ x, x ∈ l → P x) ∧ l.Nodup

theorem good_nil (P : Nat → Prop) : Good [] P := ⟨fun _ h => (nomatch h), List.nodup_nil⟩

theorem good_single (a : Nat) (P : Nat → Prop) (h : P a) : Good [a] P :=
  ⟨fun x hx => by simp at hx; subst hx; exact h, by simp⟩

theorem good_mono {l : List Nat} {P Q : Nat → Prop} (h : Good l P) (hpq : ∀ x, P x → Q x) : Good l Q :=
  ⟨fun x hx => hpq x (h.1 x hx), h.2⟩

theorem good_append {l1 l2 : List Nat} {P1 P2 : Nat → Prop} (Q : Nat → Prop) (h1 : Good l1 P1) (h2 : Good l2 P2)
    (hd : ∀ x y, P1 x → P2 y → x ≠ y) (hq1 : ∀ x, P1 x → Q x) (hq2 : ∀ x, P2 x → Q x) : Good (l1 ++ l2) Q := by
  refine ⟨?_, ?_⟩
  · intro x hx
    rcases List.mem_append.mp hx with h | h
    · exact hq1 x (h1.1 x h)
    · exact hq2 x (h2.1 x h)
  · exact List.nodup_append.mpr ⟨h1.2, h2.2, fun a ha b hb => hd a b (h1.1 a ha) (h2.1 b hb)⟩

def cnt (s : Stmt) : Nat := spineLen s + (if spineDefault s then 1 else 0)

/-- where the labels of `flatM ctx s m n` live -/
def Where (s : Stmt) (m : Mode) (n n' : Nat) : Nat → Prop :=
  match m with
  | none => fun x => n ≤ x ∧ x < n'
  | some (off, _, i) => fun x => (off + i ≤ x ∧ x < off + i + cnt s) ∨ (n ≤ x ∧ x < n')

def Pre (s : Stmt) (m : Mode) (n : Nat) : Prop :=
  match m with
  | none => True
  | some (off, _, i) => off + i + cnt s ≤ n

def LabelsOK (s : Stmt) : Prop :=
  ∀ (ctx : Ctx) (m : Mode) (n : Nat), Pre s m n →
    n ≤ (flatM ctx s m n).2 ∧ Good (labels (flatM ctx s m n).1) (Where s m n (flatM ctx s m n).2)

theorem labels_nil : labels [] = [] := rfl
theorem labels_case (n : Nat) (r : List Instr) : labels (.case n :: r) = n :: labels r := rfl
theorem labels_callI (f n : Nat) (r : List Instr) : labels (.call f n :: r) = n :: labels r := rfl
theorem labels_act (a : Nat) (r : List Instr) : labels (.act a :: r) = labels r := rfl
theorem labels_jmp (a : Nat) (r : List Instr) : labels (.jmp a :: r) = labels r := rfl
theorem labels_jmpIf (c a : Nat) (r : List Instr) : labels (.jmpIf c a :: r) = labels r := rfl
theorem labels_jmpIfNot (c a : Nat) (r : List Instr) : labels (.jmpIfNot c a :: r) = labels r := rfl
theorem labels_ret (r : List Instr) : labels (.ret :: r) = labels r := rfl
theorem labels_direct (s : Stmt) (c : Ctx) (r : List Instr) : labels (.direct s c :: r) = labels r := rfl

theorem labels_dispatch (off : Nat) : ∀ (s : Stmt) (i : Nat), labels (dispatch off s i) = [] := by
  intro s
  induction s with
  | ite c t e _ ihe => intro i; simp only [dispatch, labels_jmpIf]; exact ihe (i + 1)
  | _ => intro i; rfl

theorem labels_clauseJmp (en : Nat) (t : Stmt) : labels (clauseJmp en t) = [] := by
  unfold clauseJmp; split <;> rfl

theorem labels_chainJmp (en : Nat) (t e : Stmt) : labels (chainJmp en t e) = [] := by
  cases e <;> first | rfl | exact labels_clauseJmp en t

/-- a statement that is not `skip` / `ite`: chain mode adds the label `off+i` in front -/
theorem labelsOK_default (s : Stmt)
    (h : ∀ (ctx : Ctx) (n : Nat), n ≤ (flatM ctx s none n).2 ∧
      Good (labels (flatM ctx s none n).1) (fun x => n ≤ x ∧ x < (flatM ctx s none n).2))
    (hfl : ∀ ctx off en i n, flatM ctx s (some (off, en, i)) n =
      (.case (off + i) :: (flatM ctx s none n).1, (flatM ctx s none n).2))
    (hcnt : cnt s = 1) : LabelsOK s := by
  intro ctx m n hp
  cases m with
  | none => exact h ctx n
  | some q =>
    obtain ⟨off, en, i⟩ := q
    simp only [Pre, hcnt] at hp
    rw [hfl]
    refine ⟨(h ctx n).1, ?_⟩
    show Good (labels (.case (off + i) :: _)) _
    rw [labels_case]
    have := good_append (l1 := [off + i]) (Where s (some (off, en, i)) n (flatM ctx s none n).2)
      (good_single (off + i) (fun x => x = off + i) rfl) (h ctx n).2
      (by intro x y h1 h2; omega)
      (by intro x h1; simp only [Where, hcnt]; omega)
      (by intro x h1; simp only [Where, hcnt]; omega)
    simpa using this

end GV.Flat
