/-
  GV.Proofs.FlatLabels — the case numbers allocated by `flatM` (`caseCounter`) are pairwise distinct.
-/
import GV.Model.Flat
import GV.Proofs.Flat

namespace GV.Flat
open GV.Ctrl

/-- all elements satisfy `P`, and there are no duplicates -/
def Good (l : List Nat) (P : Nat → Prop) : Prop := (∀ x, x ∈ l → P x) ∧ l.Nodup

theorem good_nil (P : Nat → Prop) : Good [] P := ⟨fun _ h => (nomatch h), List.nodup_nil⟩

theorem good_single (a : Nat) (P : Nat → Prop) (h : P a) : Good [a] P :=
  ⟨fun x hx => by simp at hx; subst hx; exact h, by simp⟩

theorem good_mono {l : List Nat} {P Q : Nat → Prop} (h : Good l P) (hpq : ∀ x, P x → Q x) : Good l Q :=
  ⟨fun x hx => hpq x (h.1 x hx), h.2⟩

theorem good_append {l1 l2 : List Nat} {P1 P2 : Nat → Prop} (Q : Nat → Prop) (h1 : Good l1 P1) (h2 : Good l2 P2)
    (hd : ∀ x y, P1 x → P2 y → x ≠ y) (hq1 : ∀ x, P1 x → Q x) (hq2 : ∀ x, P2 x → Q x) : Good (l1 ++ l2) Q := by
  refine ⟨?_, ?_⟩
  · intro x hx
    rcases List.mem_append.mp hx with h | h
    · exact hq1 x (h1.1 x h)
    · exact hq2 x (h2.1 x h)
  · exact List.nodup_append.mpr ⟨h1.2, h2.2, fun a ha b hb => hd a b (h1.1 a ha) (h2.1 b hb)⟩

def cnt (s : Stmt) : Nat := spineLen s + (if spineDefault s then 1 else 0)

/-- where the labels of `flatM ctx s m n` live -/
def Where (s : Stmt) (m : Mode) (n n' : Nat) : Nat → Prop :=
  match m with
  | none => fun x => n ≤ x ∧ x < n'
  | some (off, _, i) => fun x => (off + i ≤ x ∧ x < off + i + cnt s) ∨ (n ≤ x ∧ x < n')

def Pre (s : Stmt) (m : Mode) (n : Nat) : Prop :=
  match m with
  | none => True
  | some (off, _, i) => off + i + cnt s ≤ n

def LabelsOK (s : Stmt) : Prop :=
  ∀ (ctx : Ctx) (m : Mode) (n : Nat), Pre s m n →
    n ≤ (flatM ctx s m n).2 ∧ Good (labels (flatM ctx s m n).1) (Where s m n (flatM ctx s m n).2)

theorem labels_nil : labels [] = [] := rfl
theorem labels_case (n : Nat) (r : List Instr) : labels (.case n :: r) = n :: labels r := rfl
theorem labels_callI (f n : Nat) (r : List Instr) : labels (.call f n :: r) = n :: labels r := rfl
theorem labels_act (a : Nat) (r : List Instr) : labels (.act a :: r) = labels r := rfl
theorem labels_jmp (a : Nat) (r : List Instr) : labels (.jmp a :: r) = labels r := rfl
theorem labels_jmpIf (c a : Nat) (r : List Instr) : labels (.jmpIf c a :: r) = labels r := rfl
theorem labels_jmpIfNot (c a : Nat) (r : List Instr) : labels (.jmpIfNot c a :: r) = labels r := rfl
theorem labels_ret (r : List Instr) : labels (.ret :: r) = labels r := rfl
theorem labels_direct (s : Stmt) (c : Ctx) (r : List Instr) : labels (.direct s c :: r) = labels r := rfl

theorem labels_dispatch (off : Nat) : ∀ (s : Stmt) (i : Nat), labels (dispatch off s i) = [] := by
  intro s
  induction s with
  | ite c t e _ ihe => intro i; simp only [dispatch, labels_jmpIf]; exact ihe (i + 1)
  | _ => intro i; rfl

theorem labels_clauseJmp (en : Nat) (t : Stmt) : labels (clauseJmp en t) = [] := by
  unfold clauseJmp; split <;> rfl

theorem labels_chainJmp (en : Nat) (t e : Stmt) : labels (chainJmp en t e) = [] := by
  cases e <;> first | rfl | exact labels_clauseJmp en t

/-- a statement that is not `skip` / `ite`: chain mode adds the label `off+i` in front -/
theorem labelsOK_default (s : Stmt)
    (h : ∀ (ctx : Ctx) (n : Nat), n ≤ (flatM ctx s none n).2 ∧
      Good (labels (flatM ctx s none n).1) (fun x => n ≤ x ∧ x < (flatM ctx s none n).2))
    (hfl : ∀ ctx off en i n, flatM ctx s (some (off, en, i)) n =
      (.case (off + i) :: (flatM ctx s none n).1, (flatM ctx s none n).2))
    (hcnt : cnt s = 1) : LabelsOK s := by
  intro ctx m n hp
  cases m with
  | none => exact h ctx n
  | some q =>
    obtain ⟨off, en, i⟩ := q
    simp only [Pre, hcnt] at hp
    rw [hfl]
    refine ⟨(h ctx n).1, ?_⟩
    show Good (labels (.case (off + i) :: _)) _
    rw [labels_case]
    have := good_append (l1 := [off + i]) (Where s (some (off, en, i)) n (flatM ctx s none n).2)
      (good_single (off + i) (fun x => x = off + i) rfl) (h ctx n).2
      (by intro x y h1 h2; omega)
      (by intro x h1; simp only [Where, hcnt]; omega)
      (by intro x h1; simp only [Where, hcnt]; omega)
    simpa using this

end GV.Flat

namespace GV.Flat
open GV.Ctrl

theorem cnt_ite (c : Nat) (t e : Stmt) : cnt (.ite c t e) = 1 + cnt e := by
  simp only [cnt, spineLen, spineDefault]
  by_cases h : spineDefault e = true <;> simp [h] <;> omega

theorem good_simple (p : Simple) (m : Nat) :
    m ≤ (simpleCode p m).2 ∧ Good (labels (simpleCode p m).1) (fun x => m ≤ x ∧ x < (simpleCode p m).2) := by
  cases p with
  | none => exact ⟨Nat.le_refl _, good_nil _⟩
  | act a => exact ⟨Nat.le_refl _, good_nil _⟩
  | call f => exact ⟨Nat.le_succ _, good_single m _ ⟨Nat.le_refl _, Nat.lt_succ_self _⟩⟩

theorem noneOK_of (s : Stmt) (h : LabelsOK s) (ctx : Ctx) (n : Nat) :
    n ≤ (flatM ctx s none n).2 ∧ Good (labels (flatM ctx s none n).1) (fun x => n ≤ x ∧ x < (flatM ctx s none n).2) :=
  h ctx none n trivial

theorem loop_labels (n : Nat) (cc B P : List Instr) (hcc : labels cc = []) :
    labels (.case n :: cc ++ B ++ P ++ [.case (n + 1)]) = [n] ++ (labels B ++ (labels P ++ [n + 1])) := by
  simp [labels_append, labels_case, labels_nil, hcc]

theorem labelsOK (s : Stmt) : LabelsOK s := by
  induction s with
  | skip =>
    intro ctx m n _
    simp only [flatM]
    exact ⟨Nat.le_refl _, good_nil _⟩
  | act a =>
    exact labelsOK_default _ (fun ctx n => ⟨Nat.le_refl _, good_nil _⟩) (fun _ _ _ _ _ => rfl) rfl
  | brk l =>
    exact labelsOK_default _ (fun ctx n => ⟨Nat.le_refl _, good_nil _⟩) (fun _ _ _ _ _ => rfl) rfl
  | ret =>
    exact labelsOK_default _ (fun ctx n => ⟨Nat.le_refl _, good_nil _⟩) (fun _ _ _ _ _ => rfl) rfl
  | call f =>
    exact labelsOK_default _ (fun ctx n => ⟨Nat.le_succ _, good_single n _ ⟨Nat.le_refl _, Nat.lt_succ_self _⟩⟩)
      (fun _ _ _ _ _ => rfl) rfl
  | cont l =>
    refine labelsOK_default _ (fun ctx n => ?_) (fun _ _ _ _ _ => rfl) rfl
    simp only [flatM, GV.Flat.pre]
    have := good_simple (ctx.tgt l).post n
    refine ⟨this.1, ?_⟩
    rw [labels_append]
    simpa [labels_jmp, labels_nil] using this.2
  | block s ih =>
    refine labelsOK_default _ (fun ctx n => ?_) (fun _ _ _ _ _ => rfl) rfl
    simp only [flatM, GV.Flat.pre]
    exact noneOK_of s ih ctx n
  | seq s t ihs iht =>
    refine labelsOK_default _ (fun ctx n => ?_) (fun _ _ _ _ _ => rfl) rfl
    simp only [flatM, GV.Flat.pre]
    obtain ⟨le1, g1⟩ := noneOK_of s ihs ctx n
    obtain ⟨le2, g2⟩ := noneOK_of t iht ctx (flatM ctx s none n).2
    refine ⟨Nat.le_trans le1 le2, ?_⟩
    rw [labels_append]
    exact good_append _ g1 g2 (by intro x y a b; omega) (by intro x a; omega) (by intro x a; omega)
  | sw l b ih =>
    refine labelsOK_default _ (fun ctx n => ?_) (fun ctx off en i n => ?_) rfl
    · simp only [flatM]
      split
      · simp only [GV.Flat.pre]
        obtain ⟨le1, g1⟩ := noneOK_of b ih (ctx.enterSw l n) (n + 1)
        refine ⟨by omega, ?_⟩
        rw [labels_append, labels_case, labels_nil]
        exact good_append _ g1 (good_single n (fun x => x = n) rfl)
          (by intro x y a b; omega) (by intro x a; omega) (by intro x a; omega)
      · exact ⟨Nat.le_refl _, good_nil _⟩
    · simp only [flatM]; split <;> rfl
  | loop l c p b ih =>
    refine labelsOK_default _ (fun ctx n => ?_) (fun ctx off en i n => ?_) rfl
    · obtain ⟨le1, g1⟩ := noneOK_of b ih (ctx.enterLoop l (n + 1) n p) (n + 2)
      obtain ⟨lep, gp⟩ := good_simple p (flatM (ctx.enterLoop l (n + 1) n p) b none (n + 2)).2
      rcases c with _ | cc <;> simp only [flatM] <;> split
      all_goals first
        | exact ⟨Nat.le_refl _, good_nil _⟩
        | (simp only [GV.Flat.pre]
           by_cases hl : lastIsBranch b = true
           · simp only [hl, if_true]
             refine ⟨by omega, ?_⟩
             rw [loop_labels n _ _ _ (by rfl), labels_nil, List.nil_append]
             exact good_append _ (good_single n (fun x => x = n) rfl)
               (good_append (fun x => n + 1 ≤ x ∧ x < (flatM (ctx.enterLoop l (n + 1) n p) b none (n + 2)).2) g1
                 (good_single (n + 1) (fun x => x = n + 1) rfl)
                 (by intro x y a b; omega) (by intro x a; omega) (by intro x a; omega))
               (by intro x y a b; omega) (by intro x a; omega) (by intro x a; omega)
           · simp only [hl, Bool.false_eq_true, if_false]
             refine ⟨by omega, ?_⟩
             rw [loop_labels n _ _ _ (by rfl), labels_append, labels_jmp, labels_nil, List.append_nil]
             exact good_append _ (good_single n (fun x => x = n) rfl)
               (good_append (fun x => n + 1 ≤ x ∧ x < (simpleCode p (flatM (ctx.enterLoop l (n + 1) n p) b none (n + 2)).2).2) g1
                 (good_append (fun x => n + 1 = x ∨ ((flatM (ctx.enterLoop l (n + 1) n p) b none (n + 2)).2 ≤ x ∧
                     x < (simpleCode p (flatM (ctx.enterLoop l (n + 1) n p) b none (n + 2)).2).2)) gp
                   (good_single (n + 1) (fun x => x = n + 1) rfl)
                   (by intro x y a b; omega) (by intro x a; omega) (by intro x a; omega))
                 (by intro x y a b; omega) (by intro x a; omega) (by intro x a; omega))
               (by intro x y a b; omega) (by intro x a; omega) (by intro x a; omega))
    · simp only [flatM]; split <;> rfl
  | ite c t e iht ihe =>
    intro ctx m n hp
    cases m with
    | some q =>
      obtain ⟨off, en, i⟩ := q
      simp only [Pre, cnt_ite] at hp
      simp only [flatM]
      obtain ⟨le1, g1⟩ := noneOK_of t iht ctx n
      obtain ⟨le2, g2⟩ := ihe ctx (some (off, en, i + 1)) (flatM ctx t none n).2 (by simp only [Pre]; omega)
      refine ⟨Nat.le_trans le1 le2, ?_⟩
      have heq : labels (.case (off + i) :: (flatM ctx t none n).1 ++ chainJmp en t e ++
            (flatM ctx e (some (off, en, i + 1)) (flatM ctx t none n).2).1) =
          [off + i] ++ (labels (flatM ctx t none n).1 ++ labels (flatM ctx e (some (off, en, i + 1)) (flatM ctx t none n).2).1) := by
        simp [labels_append, labels_case, labels_chainJmp]
      rw [heq]
      exact good_append _ (good_single (off + i) (fun x => x = off + i) rfl)
        (good_append (fun x => (off + i + 1 ≤ x ∧ x < off + i + 1 + cnt e) ∨
            (n ≤ x ∧ x < (flatM ctx e (some (off, en, i + 1)) (flatM ctx t none n).2).2)) g1 g2
          (by intro x y a b; simp only [Where] at b; omega)
          (by intro x a; omega)
          (by intro x a; simp only [Where] at a; omega))
        (by intro x y a b; omega)
        (by intro x a; simp only [Where, cnt_ite]; omega)
        (by intro x a; simp only [Where, cnt_ite]; omega)
    | none =>
      simp only [flatM]
      split
      · have hen : n + spineLen (.ite c t e) + (if spineDefault e then 1 else 0) = n + 1 + cnt e := by
          simp only [spineLen, cnt]; omega
        rw [hen]
        obtain ⟨le1, g1⟩ := noneOK_of t iht ctx (n + 1 + cnt e + 1)
        obtain ⟨le2, g2⟩ := ihe ctx (some (n, n + 1 + cnt e, 1)) (flatM ctx t none (n + 1 + cnt e + 1)).2
          (by simp only [Pre]; omega)
        refine ⟨by omega, ?_⟩
        have heq : labels (dispatch n (.ite c t e) 0 ++ .case (n + 0) :: (flatM ctx t none (n + 1 + cnt e + 1)).1 ++
              chainJmp (n + 1 + cnt e) t e ++
              (flatM ctx e (some (n, n + 1 + cnt e, 1)) (flatM ctx t none (n + 1 + cnt e + 1)).2).1 ++ [.case (n + 1 + cnt e)]) =
            [n] ++ (labels (flatM ctx t none (n + 1 + cnt e + 1)).1 ++
              (labels (flatM ctx e (some (n, n + 1 + cnt e, 1)) (flatM ctx t none (n + 1 + cnt e + 1)).2).1 ++ [n + 1 + cnt e])) := by
          simp [labels_append, labels_case, labels_chainJmp, labels_dispatch, labels_nil]
        rw [heq]
        exact good_append _ (good_single n (fun x => x = n) rfl)
          (good_append (fun x => n + 1 ≤ x ∧ x < (flatM ctx e (some (n, n + 1 + cnt e, 1)) (flatM ctx t none (n + 1 + cnt e + 1)).2).2)
            g1
            (good_append (fun x => (n + 1 ≤ x ∧ x ≤ n + 1 + cnt e) ∨ ((flatM ctx t none (n + 1 + cnt e + 1)).2 ≤ x ∧
                x < (flatM ctx e (some (n, n + 1 + cnt e, 1)) (flatM ctx t none (n + 1 + cnt e + 1)).2).2))
              g2 (good_single (n + 1 + cnt e) (fun x => x = n + 1 + cnt e) rfl)
              (by intro x y a b; simp only [Where] at a; omega)
              (by intro x a; simp only [Where] at a; omega)
              (by intro x a; omega))
            (by intro x y a b; omega) (by intro x a; omega) (by intro x a; omega))
          (by intro x y a b; omega)
          (by intro x a; simp only [Where]; omega)
          (by intro x a; simp only [Where]; omega)
      · exact ⟨Nat.le_refl _, good_nil _⟩

/-- the labels of a flattened function body are pairwise distinct -/
theorem flatten_labels_nodup_aux (body : Stmt) : (labels (flatten body)).Nodup := by
  unfold flatten
  split
  · obtain ⟨_, g⟩ := noneOK_of body (labelsOK body) Ctx.top 1
    have ht : labels (if endsWithReturn body = true then ([] : List Instr) else [.ret]) = [] := by split <;> rfl
    rw [labels_append, ht, List.append_nil, labels_case]
    have := good_append (l1 := [0]) (fun _ => True) (good_single 0 (fun x => x = 0) rfl) g
      (by intro x y a b; omega) (fun _ _ => trivial) (fun _ _ => trivial)
    exact this.2
  · simp [labels, List.filterMap, labelOf]

end GV.Flat
