/-
  GV.Proofs.InstTy — lemmas about type terms: the code's substitution / genericity test agree with the
  specification's on terms without function-local types; substitution composes; substitution closes.
-/
import GV.Model.Inst
import GV.Spec.Inst

namespace GV.Inst

theorem substC_eq_substS (N θ : List Ty) : ∀ t : Ty, t.lfree = true → t.substC N θ = t.substS N θ := by
  intro t
  induction t with
  | basic b => intro _; rfl
  | own i => intro _; rfl
  | nest i => intro _; rfl
  | free i => intro _; rfl
  | slice t ih => intro h; simp only [Ty.lfree] at h; simp only [Ty.substC, Ty.substS, ih h]
  | ptr t ih => intro h; simp only [Ty.lfree] at h; simp only [Ty.substC, Ty.substS, ih h]
  | chan t ih => intro h; simp only [Ty.lfree] at h; simp only [Ty.substC, Ty.substS, ih h]
  | map k v ihk ihv =>
    intro h; simp only [Ty.lfree, Bool.and_eq_true] at h; simp only [Ty.substC, Ty.substS, ihk h.1, ihv h.2]
  | named o a ih => intro h; simp only [Ty.lfree] at h; simp only [Ty.substC, Ty.substS, ih h]
  | con g a ih => intro h; simp only [Ty.lfree] at h; simp only [Ty.substC, Ty.substS, ih h]
  | lnamed o a nu _ _ => intro h; simp [Ty.lfree] at h
  | tnil => intro _; rfl
  | tcons hd tl ihh iht =>
    intro h; simp only [Ty.lfree, Bool.and_eq_true] at h; simp only [Ty.substC, Ty.substS, ihh h.1, iht h.2]

theorem genericC_eq_not_closed (m : Nat → Bool) : ∀ t : Ty, t.lfree = true → t.genericC m = !t.closed := by
  intro t
  induction t with
  | basic b => intro _; rfl
  | own i => intro _; rfl
  | nest i => intro _; rfl
  | free i => intro _; rfl
  | slice t ih => intro h; simp only [Ty.lfree] at h; simp only [Ty.genericC, Ty.closed, ih h]
  | ptr t ih => intro h; simp only [Ty.lfree] at h; simp only [Ty.genericC, Ty.closed, ih h]
  | chan t ih => intro h; simp only [Ty.lfree] at h; simp only [Ty.genericC, Ty.closed, ih h]
  | map k v ihk ihv =>
    intro h; simp only [Ty.lfree, Bool.and_eq_true] at h
    simp only [Ty.genericC, Ty.closed, ihk h.1, ihv h.2, Bool.not_and]
  | named o a ih => intro h; simp only [Ty.lfree] at h; simp only [Ty.genericC, Ty.closed, ih h]
  | con g a ih => intro h; simp only [Ty.lfree] at h; simp only [Ty.genericC, Ty.closed, ih h]
  | lnamed o a nu _ _ => intro h; simp [Ty.lfree] at h
  | tnil => intro _; rfl
  | tcons hd tl ihh iht =>
    intro h; simp only [Ty.lfree, Bool.and_eq_true] at h
    simp only [Ty.genericC, Ty.closed, ihh h.1, iht h.2, Bool.not_and]

theorem lfree_lookup {l : List Ty} (hl : lfreeL l = true) (i : Nat) (d : Ty) (hd : d.lfree = true) :
    ((l[i]?).getD d).lfree = true := by
  cases h : l[i]? with
  | none => simpa using hd
  | some x =>
    have hx : x ∈ l := List.mem_of_getElem? h
    have := List.all_eq_true.mp hl x hx
    simpa using this

theorem lfree_substS {N θ : List Ty} (hN : lfreeL N = true) (hθ : lfreeL θ = true) :
    ∀ t : Ty, t.lfree = true → (t.substS N θ).lfree = true := by
  intro t
  induction t with
  | basic b => intro _; rfl
  | own i => intro _; exact lfree_lookup hθ i _ rfl
  | nest i => intro _; exact lfree_lookup hN i _ rfl
  | free i => intro _; rfl
  | slice t ih => intro h; simp only [Ty.lfree] at h; simpa only [Ty.substS, Ty.lfree] using ih h
  | ptr t ih => intro h; simp only [Ty.lfree] at h; simpa only [Ty.substS, Ty.lfree] using ih h
  | chan t ih => intro h; simp only [Ty.lfree] at h; simpa only [Ty.substS, Ty.lfree] using ih h
  | map k v ihk ihv =>
    intro h; simp only [Ty.lfree, Bool.and_eq_true] at h
    simp only [Ty.substS, Ty.lfree, Bool.and_eq_true]; exact ⟨ihk h.1, ihv h.2⟩
  | named o a ih => intro h; simp only [Ty.lfree] at h; simpa only [Ty.substS, Ty.lfree] using ih h
  | con g a ih => intro h; simp only [Ty.lfree] at h; simpa only [Ty.substS, Ty.lfree] using ih h
  | lnamed o a nu _ _ => intro h; simp [Ty.lfree] at h
  | tnil => intro _; rfl
  | tcons hd tl ihh iht =>
    intro h; simp only [Ty.lfree, Bool.and_eq_true] at h
    simp only [Ty.substS, Ty.lfree, Bool.and_eq_true]; exact ⟨ihh h.1, iht h.2⟩

theorem lfreeL_map_substS {N θ τ : List Ty} (hN : lfreeL N = true) (hθ : lfreeL θ = true) (hτ : lfreeL τ = true) :
    lfreeL (τ.map (Ty.substS N θ)) = true := by
  simp only [lfreeL, List.all_eq_true, List.mem_map] at *
  rintro x ⟨y, hy, rfl⟩
  exact lfree_substS (by simpa [lfreeL, List.all_eq_true] using hN) (by simpa [lfreeL, List.all_eq_true] using hθ) y (hτ y hy)

theorem map_substC_eq {N θ τ : List Ty} (hτ : lfreeL τ = true) : τ.map (Ty.substC N θ) = τ.map (Ty.substS N θ) := by
  apply List.map_congr_left
  intro t ht
  exact substC_eq_substS N θ t (List.all_eq_true.mp hτ t ht)

theorem any_generic_eq {m : Nat → Bool} {l : List Ty} (hl : lfreeL l = true) : l.any (Ty.genericC m) = !closedL l := by
  induction l with
  | nil => rfl
  | cons a l ih =>
    simp only [lfreeL, List.all_cons, Bool.and_eq_true] at hl
    simp only [List.any_cons, closedL, List.all_cons, genericC_eq_not_closed m a hl.1, Bool.not_and]
    rw [ih (by simpa [lfreeL] using hl.2)]
    simp [closedL]

/-! ### substitution composes -/

/-- every parameter index is in range and no unbound parameter occurs -/
def Ty.inRange (nN nO : Nat) : Ty → Bool
  | .basic _ => true
  | .own i => decide (i < nO)
  | .nest i => decide (i < nN)
  | .free _ => false
  | .slice t => inRange nN nO t
  | .ptr t => inRange nN nO t
  | .chan t => inRange nN nO t
  | .map k v => inRange nN nO k && inRange nN nO v
  | .named _ a => inRange nN nO a
  | .con _ a => inRange nN nO a
  | .lnamed _ a nu => inRange nN nO a && inRange nN nO nu
  | .tnil => true
  | .tcons h t => inRange nN nO h && inRange nN nO t

theorem substS_compose (N θ N' θ' : List Ty) : ∀ t : Ty, t.inRange N.length θ.length = true →
    (t.substS N θ).substS N' θ' = t.substS (N.map (Ty.substS N' θ')) (θ.map (Ty.substS N' θ')) := by
  intro t
  induction t with
  | basic b => intro _; rfl
  | own i =>
    intro h
    simp only [Ty.inRange, decide_eq_true_eq] at h
    simp only [Ty.substS, List.getElem?_map, List.getElem?_eq_getElem h, Option.map_some, Option.getD_some]
  | nest i =>
    intro h
    simp only [Ty.inRange, decide_eq_true_eq] at h
    simp only [Ty.substS, List.getElem?_map, List.getElem?_eq_getElem h, Option.map_some, Option.getD_some]
  | free i => intro h; simp [Ty.inRange] at h
  | slice t ih => intro h; simp only [Ty.inRange] at h; simp only [Ty.substS, ih h]
  | ptr t ih => intro h; simp only [Ty.inRange] at h; simp only [Ty.substS, ih h]
  | chan t ih => intro h; simp only [Ty.inRange] at h; simp only [Ty.substS, ih h]
  | map k v ihk ihv => intro h; simp only [Ty.inRange, Bool.and_eq_true] at h; simp only [Ty.substS, ihk h.1, ihv h.2]
  | named o a ih => intro h; simp only [Ty.inRange] at h; simp only [Ty.substS, ih h]
  | con g a ih => intro h; simp only [Ty.inRange] at h; simp only [Ty.substS, ih h]
  | lnamed o a nu iha ihn => intro h; simp only [Ty.inRange, Bool.and_eq_true] at h; simp only [Ty.substS, iha h.1, ihn h.2]
  | tnil => intro _; rfl
  | tcons hd tl ihh iht => intro h; simp only [Ty.inRange, Bool.and_eq_true] at h; simp only [Ty.substS, ihh h.1, iht h.2]

theorem closed_lookup {l : List Ty} (hl : closedL l = true) {i : Nat} (hi : i < l.length) (d : Ty) :
    ((l[i]?).getD d).closed = true := by
  simp only [List.getElem?_eq_getElem hi, Option.getD_some]
  exact List.all_eq_true.mp hl _ (List.getElem_mem hi)

theorem substS_closed {N θ : List Ty} (hN : closedL N = true) (hθ : closedL θ = true) :
    ∀ t : Ty, t.inRange N.length θ.length = true → (t.substS N θ).closed = true := by
  intro t
  induction t with
  | basic b => intro _; rfl
  | own i => intro h; simp only [Ty.inRange, decide_eq_true_eq] at h; exact closed_lookup hθ h _
  | nest i => intro h; simp only [Ty.inRange, decide_eq_true_eq] at h; exact closed_lookup hN h _
  | free i => intro h; simp [Ty.inRange] at h
  | slice t ih => intro h; simp only [Ty.inRange] at h; simpa only [Ty.substS, Ty.closed] using ih h
  | ptr t ih => intro h; simp only [Ty.inRange] at h; simpa only [Ty.substS, Ty.closed] using ih h
  | chan t ih => intro h; simp only [Ty.inRange] at h; simpa only [Ty.substS, Ty.closed] using ih h
  | map k v ihk ihv =>
    intro h; simp only [Ty.inRange, Bool.and_eq_true] at h
    simp only [Ty.substS, Ty.closed, Bool.and_eq_true]; exact ⟨ihk h.1, ihv h.2⟩
  | named o a ih => intro h; simp only [Ty.inRange] at h; simpa only [Ty.substS, Ty.closed] using ih h
  | con g a ih => intro h; simp only [Ty.inRange] at h; simpa only [Ty.substS, Ty.closed] using ih h
  | lnamed o a nu iha ihn =>
    intro h; simp only [Ty.inRange, Bool.and_eq_true] at h
    simp only [Ty.substS, Ty.closed, Bool.and_eq_true]; exact ⟨iha h.1, ihn h.2⟩
  | tnil => intro _; rfl
  | tcons hd tl ihh iht =>
    intro h; simp only [Ty.inRange, Bool.and_eq_true] at h
    simp only [Ty.substS, Ty.closed, Bool.and_eq_true]; exact ⟨ihh h.1, iht h.2⟩

end GV.Inst
