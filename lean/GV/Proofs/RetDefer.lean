/-
  GV.Proofs.RetDefer — the blocking `return` protocol: re-executing `case n: return $24r` after every suspended
  deferred call returns the value cached when the return statement was first reached.
-/
import GV.Model.RetDefer

namespace GV.RetDefer

/-- effect of all entries of `$deferred`, top first (a suspended entry completes with the same total effect) -/
def runAll (E : DEnv σ V) : List DEntry → σ → σ
  | [], st => st
  | .fresh d :: es, st => runAll E es (E.dcall d st)
  | .susp d _ :: es, st => runAll E es (E.dcall d st)

theorem runAll_fresh (E : DEnv σ V) : ∀ (ds : List Nat) (st : σ), runAll E (ds.map .fresh) st = goDefers E ds st := by
  intro ds
  induction ds with
  | nil => intro st; rfl
  | cons d ds ih => intro st; simp only [List.map_cons, runAll, goDefers]; exact ih _

/-- the return statement's value does not depend on the store or the segment -/
def Const (E : DEnv σ V) (kind : RetKind V) : Prop :=
  ∀ f1 f2 s1 s2, retNow E kind f1 s1 = retNow E kind f2 s2

theorem const_cached (E : DEnv σ V) (c : V) : Const E (.cached c) := fun _ _ _ _ => rfl

/-- prefixing a deferred call that completes at once -/
theorem lift_freshNow (E : DEnv σ V) (forget : σ → σ) (sched : Nat → Nat → σ → Nat) (kind : RetKind V) (named : Bool)
    (hK : named = true ∨ Const E kind) {st : σ} {d : Nat} {ds : List DEntry} {k : Nat} {first : Bool} {r : V × σ}
    (hs : sched k d st = 0) (h : RunRet E forget sched kind named (E.dcall d st) ds (k + 1) first r) :
    RunRet E forget sched kind named st (.fresh d :: ds) k first r := by
  cases h with
  | @finish _ _ _ st' k' _ hcd =>
    have := RunRet.finish (forget := forget) (kind := kind) (named := named) (first := first) (CallDef.freshNow hs hcd)
    rcases hK with hn | hc
    · subst hn; simpa using this
    · rw [hc first first (E.dcall d st) st]; exact this
  | suspend hcd hrest => exact .suspend (.freshNow hs hcd) hrest

/-- resuming a suspended deferred call that now completes -/
theorem lift_resumeNow (E : DEnv σ V) (forget : σ → σ) (sched : Nat → Nat → σ → Nat) (kind : RetKind V) (named : Bool)
    (hK : named = true ∨ Const E kind) {st : σ} {d : Nat} {ds : List DEntry} {k : Nat} {first : Bool} {r : V × σ}
    (h : RunRet E forget sched kind named (E.dcall d st) ds k first r) :
    RunRet E forget sched kind named st (.susp d 0 :: ds) k first r := by
  cases h with
  | @finish _ _ _ st' k' _ hcd =>
    have := RunRet.finish (forget := forget) (kind := kind) (named := named) (first := first) (CallDef.resumeNow hcd)
    rcases hK with hn | hc
    · subst hn; simpa using this
    · rw [hc first first (E.dcall d st) st]; exact this
  | suspend hcd hrest => exact .suspend (.resumeNow hcd) hrest

/-- the result the protocol must deliver: named results are read at the end, otherwise the constant return value -/
def target (E : DEnv σ V) (kind : RetKind V) (named : Bool) (st0 : σ) (final : σ) : V × σ :=
  (if named then E.retv final else retNow E kind true st0, final)

/-- main lemma: from ANY configuration of `$deferred` (fresh and suspended entries), for every schedule -/
theorem runRet_all (E : DEnv σ V) (forget : σ → σ) (sched : Nat → Nat → σ → Nat) (kind : RetKind V) (named : Bool)
    (hK : named = true ∨ Const E kind)
    (hE : ∀ d st, forget st = st → forget (E.dcall d st) = E.dcall d st) (st0 : σ) :
    ∀ (es : List DEntry) (st : σ) (k : Nat) (first : Bool), forget st = st →
      RunRet E forget sched kind named st es k first (target E kind named st0 (runAll E es st)) := by
  intro es
  induction es with
  | nil =>
    intro st k first _
    have := RunRet.finish (forget := forget) (kind := kind) (named := named) (first := first)
      (CallDef.done (E := E) (sched := sched) (st := st) (k := k))
    unfold target
    simp only [runAll]
    rcases hK with hn | hc
    · subst hn; simpa using this
    · rw [hc true first st0 st]; exact this
  | cons e es ih =>
    intro st k first hst
    -- a suspended head entry, however many more times it suspends
    have hsusp : ∀ d m k', RunRet E forget sched kind named st (.susp d m :: es) k' false
        (target E kind named st0 (runAll E es (E.dcall d st))) := by
      intro d m
      induction m with
      | zero => intro k'; exact lift_resumeNow E forget sched kind named hK (ih _ k' false (hE d st hst))
      | succ m ihm =>
        intro k'
        refine .suspend .resumeMore ?_
        rw [hst]; exact ihm k'
    cases e with
    | fresh d =>
      simp only [runAll]
      cases hs : sched k d st with
      | zero => exact lift_freshNow E forget sched kind named hK hs (ih _ (k + 1) first (hE d st hst))
      | succ m =>
        refine .suspend (.freshSusp hs) ?_
        rw [hst]; exact hsusp d m (k + 1)
    | susp d m =>
      simp only [runAll]
      cases first with
      | false => exact hsusp d m k
      | true =>
        -- (not reachable from a function entry; same argument)
        cases m with
        | zero => exact lift_resumeNow E forget sched kind named hK (ih _ k true (hE d st hst))
        | succ m =>
          refine .suspend .resumeMore ?_
          rw [hst]; exact hsusp d m k

/-- `$callDeferred` is deterministic -/
theorem callDef_det (E : DEnv σ V) (sched : Nat → Nat → σ → Nat) :
    ∀ {st es k r1 r2}, CallDef E sched st es k r1 → CallDef E sched st es k r2 → r1 = r2 := by
  intro st es k r1 r2 h1
  induction h1 with
  | done => intro h2; cases h2; rfl
  | freshNow hs _ ih =>
    intro h2
    cases h2 with
    | freshNow _ h => exact ih h
    | freshSusp hs' => rw [hs] at hs'; cases hs'
  | freshSusp hs =>
    intro h2
    cases h2 with
    | freshNow hs' _ => rw [hs] at hs'; cases hs'
    | freshSusp hs' => rw [hs] at hs'; cases hs'; rfl
  | resumeNow _ ih => intro h2; cases h2 with | resumeNow h => exact ih h
  | resumeMore => intro h2; cases h2; rfl

/-- the whole protocol is deterministic: a function has ONE result -/
theorem runRet_det (E : DEnv σ V) (forget : σ → σ) (sched : Nat → Nat → σ → Nat) (kind : RetKind V) (named : Bool) :
    ∀ {st es k first r1 r2}, RunRet E forget sched kind named st es k first r1 →
      RunRet E forget sched kind named st es k first r2 → r1 = r2 := by
  intro st es k first r1 r2 h1
  induction h1 with
  | finish hcd =>
    intro h2
    cases h2 with
    | finish hcd2 => have := callDef_det E sched hcd hcd2; cases this; rfl
    | suspend hcd2 _ => have := callDef_det E sched hcd hcd2; cases this
  | suspend hcd _ ih =>
    intro h2
    cases h2 with
    | finish hcd2 => have := callDef_det E sched hcd hcd2; cases this
    | suspend hcd2 h => have := callDef_det E sched hcd hcd2; cases this; exact ih h

end GV.RetDefer
