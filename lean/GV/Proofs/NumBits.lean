import GV.Proofs.Num

/-! Bitwise JS operators of GV.Model.JSInt as `BitVec 32` operations, and their restriction to the sign-extended or zero-extended
    representatives of `BitVec w` values, w ≤ 32 (helper lemmas for GV.Props.C06). -/
namespace GV.Proofs.NumBits
open GV.JSInt GV.Proofs.Num

theorem bits32_eq (x : Int) : bits32 x = (BitVec.ofInt 32 x).toNat := by
  simp only [bits32, toUint32, BitVec.toNat_ofInt, Nat.reducePow, Int.cast_ofNat_Int]

theorem band_bv (x y : Int) : band x y = (BitVec.ofInt 32 x &&& BitVec.ofInt 32 y).toInt := by
  rw [BitVec.toInt_and, ← bits32_eq, ← bits32_eq, ← toInt32_eq_bmod]; rfl

theorem bor_bv (x y : Int) : bor x y = (BitVec.ofInt 32 x ||| BitVec.ofInt 32 y).toInt := by
  rw [BitVec.toInt_or, ← bits32_eq, ← bits32_eq, ← toInt32_eq_bmod]; rfl

theorem bxor_bv (x y : Int) : bxor x y = (BitVec.ofInt 32 x ^^^ BitVec.ofInt 32 y).toInt := by
  rw [BitVec.toInt_xor, ← bits32_eq, ← bits32_eq, ← toInt32_eq_bmod]; rfl

theorem bnot_bv (y : Int) : bnot y = (~~~ BitVec.ofInt 32 y).toInt := by
  have h := bits32_eq y
  have h2 : ((bits32 y : Nat) : Int) = y % 4294967296 := by
    unfold bits32 toUint32; exact Int.toNat_of_nonneg (by omega)
  rw [BitVec.toInt_not, ← h, h2]
  simp only [bnot, toInt32, Int.bmod_def, Nat.reducePow, Int.cast_ofNat_Int]
  split <;> split <;> omega

/-- `ofInt 32` of a signed representative is the sign extension -/
theorem ofInt_toInt_eq {w : Nat} (a : BitVec w) : BitVec.ofInt 32 a.toInt = a.signExtend 32 := rfl

/-- `ofInt 32` of an unsigned representative is the zero extension -/
theorem ofInt_toNat_eq {w : Nat} (a : BitVec w) : BitVec.ofInt 32 (a.toNat : Int) = a.setWidth 32 := by
  rw [BitVec.ofInt_natCast, BitVec.ofNat_toNat]

theorem band_toInt {w : Nat} (hw : w ≤ 32) (a b : BitVec w) : band a.toInt b.toInt = (a &&& b).toInt := by
  rw [band_bv, ofInt_toInt_eq, ofInt_toInt_eq, ← BitVec.signExtend_and, BitVec.toInt_signExtend_of_le hw]

theorem bor_toInt {w : Nat} (hw : w ≤ 32) (a b : BitVec w) : bor a.toInt b.toInt = (a ||| b).toInt := by
  rw [bor_bv, ofInt_toInt_eq, ofInt_toInt_eq, ← BitVec.signExtend_or, BitVec.toInt_signExtend_of_le hw]

theorem bxor_toInt {w : Nat} (hw : w ≤ 32) (a b : BitVec w) : bxor a.toInt b.toInt = (a ^^^ b).toInt := by
  rw [bxor_bv, ofInt_toInt_eq, ofInt_toInt_eq, ← BitVec.signExtend_xor, BitVec.toInt_signExtend_of_le hw]

theorem bandnot_toInt {w : Nat} (hw : w ≤ 32) (h0 : 0 < w) (a b : BitVec w) :
    band a.toInt (bnot b.toInt) = (a &&& ~~~b).toInt := by
  rw [band_bv, bnot_bv, BitVec.ofInt_toInt, ofInt_toInt_eq, ofInt_toInt_eq, ← BitVec.signExtend_not h0, ← BitVec.signExtend_and,
    BitVec.toInt_signExtend_of_le hw]

theorem band_toNat {w : Nat} (a b : BitVec w) : band a.toNat b.toNat = ((a &&& b).setWidth 32).toInt := by
  rw [band_bv, ofInt_toNat_eq, ofInt_toNat_eq, ← BitVec.setWidth_and]

theorem bor_toNat {w : Nat} (a b : BitVec w) : bor a.toNat b.toNat = ((a ||| b).setWidth 32).toInt := by
  rw [bor_bv, ofInt_toNat_eq, ofInt_toNat_eq, ← BitVec.setWidth_or]

theorem bxor_toNat {w : Nat} (a b : BitVec w) : bxor a.toNat b.toNat = ((a ^^^ b).setWidth 32).toInt := by
  rw [bxor_bv, ofInt_toNat_eq, ofInt_toNat_eq, ← BitVec.setWidth_xor]

theorem setWidth_andnot {w : Nat} (a b : BitVec w) :
    a.setWidth 32 &&& ~~~ (b.setWidth 32) = (a &&& ~~~b).setWidth 32 := by
  apply BitVec.eq_of_getLsbD_eq
  intro i hi
  simp only [BitVec.getLsbD_and, BitVec.getLsbD_not, BitVec.getLsbD_setWidth, hi, decide_true, Bool.true_and]
  by_cases h : i < w
  · simp [h]
  · simp [h, BitVec.getLsbD_of_ge a i (by omega)]

theorem bandnot_toNat {w : Nat} (a b : BitVec w) :
    band a.toNat (bnot b.toNat) = ((a &&& ~~~b).setWidth 32).toInt := by
  rw [band_bv, bnot_bv, BitVec.ofInt_toInt, ofInt_toNat_eq, ofInt_toNat_eq, setWidth_andnot]

/-- reading a zero-extended value back: `>>> 0` gives the unsigned value -/
theorem toUint32_setWidth {w : Nat} (hw : w ≤ 32) (c : BitVec w) : toUint32 (c.setWidth 32).toInt = (c.toNat : Int) := by
  have h1 := BitVec.toInt_eq_toNat_bmod (c.setWidth 32)
  have h2 : (c.setWidth 32).toNat = c.toNat := by
    rw [BitVec.toNat_setWidth]
    exact Nat.mod_eq_of_lt (Nat.lt_of_lt_of_le c.isLt (Nat.pow_le_pow_right (by omega) hw))
  have h3 := (c.setWidth 32).isLt
  rw [h1, h2] at *
  simp only [toUint32, Int.bmod_def, Nat.reducePow, Int.cast_ofNat_Int]
  split <;> omega

/-- … and any fix-up to width w gives it too -/
theorem setWidth_toInt_emod {w : Nat} (hw : w ≤ 32) (c : BitVec w) :
    (c.setWidth 32).toInt % ((2 ^ w : Nat) : Int) = (c.toNat : Int) := by
  have h := toUint32_setWidth hw c
  unfold toUint32 at h
  have hd : ((2 ^ w : Nat) : Int) ∣ 4294967296 := by
    have h1 : (2 ^ w : Nat) ∣ 2 ^ 32 := Nat.pow_dvd_pow 2 hw
    have h2 : ((2 ^ w : Nat) : Int) ∣ ((2 ^ 32 : Nat) : Int) := Int.natCast_dvd_natCast.2 h1
    have e : ((2 ^ 32 : Nat) : Int) = 4294967296 := by rfl
    rw [e] at h2; exact h2
  rw [← Int.emod_emod_of_dvd _ hd, h]
  exact Int.emod_eq_of_lt (Int.natCast_nonneg _) (by exact_mod_cast c.isLt)

end GV.Proofs.NumBits
