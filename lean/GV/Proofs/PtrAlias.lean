/-
  GV.Proofs.PtrAlias — pointer identity and aliasing for GV.Model.Ptr.
-/
import GV.Model.Ptr

namespace GV.Ptr
open GV.Heap

theorem lookup_some {t : Target} : ∀ {l : List Target} {i : Nat}, lookup t l = some i → l[i]? = some t
  | [], _, h => by simp [lookup] at h
  | u :: us, i, h => by
    unfold lookup at h
    by_cases hu : u = t
    · rw [if_pos hu] at h
      simp only [Option.some.injEq] at h
      subst h; simp [hu]
    · rw [if_neg hu] at h
      cases hl : lookup t us with
      | none => rw [hl] at h; simp at h
      | some j =>
        rw [hl] at h
        simp only [Option.map_some, Option.some.injEq] at h
        subst h
        simpa using lookup_some hl

theorem lookup_none {t : Target} : ∀ {l : List Target}, lookup t l = none → t ∉ l
  | [], _ => by simp
  | u :: us, h => by
    unfold lookup at h
    by_cases hu : u = t
    · rw [if_pos hu] at h; simp at h
    · rw [if_neg hu] at h
      have hl : lookup t us = none := by
        cases hx : lookup t us with
        | none => rfl
        | some j => rw [hx] at h; simp at h
      have := lookup_none hl
      simp only [List.mem_cons, not_or]
      exact ⟨fun e => hu e.symm, this⟩

theorem lookup_mem {t : Target} : ∀ {l : List Target}, t ∈ l → ∃ i, lookup t l = some i
  | [], h => by simp at h
  | u :: us, h => by
    unfold lookup
    by_cases hu : u = t
    · exact ⟨0, by rw [if_pos hu]⟩
    · rw [if_neg hu]
      have : t ∈ us := by
        rcases List.mem_cons.1 h with e | e
        · exact absurd e.symm hu
        · exact e
      obtain ⟨i, hi⟩ := lookup_mem this
      exact ⟨i + 1, by rw [hi]; rfl⟩

/-- the pointer returned by `&cell` points at the cell -/
theorem addrCell_target (P : PHeap) (t : Target) :
    targetOf (addrCell P t).1 (addrCell P t).2 = some t := by
  unfold addrCell targetOf
  cases h : lookup t P.ptrs with
  | some p => exact lookup_some h
  | none => simp

/-- existing pointer objects keep their targets when another address is taken -/
theorem addrCell_mono (P : PHeap) (t u : Target) (p : Nat) (h : targetOf P p = some u) :
    targetOf (addrCell P t).1 p = some u := by
  unfold addrCell
  cases hl : lookup t P.ptrs with
  | some q => exact h
  | none =>
    unfold targetOf at h ⊢
    dsimp only
    have hp : p < P.ptrs.length := by
      rcases Nat.lt_or_ge p P.ptrs.length with hlt | hge
      · exact hlt
      · rw [List.getElem?_eq_none hge] at h; simp at h
    rw [List.getElem?_append_left hp]; exact h

theorem addrCell_heap (P : PHeap) (t : Target) : (addrCell P t).1.heap = P.heap := by
  unfold addrCell; cases lookup t P.ptrs <;> rfl

/-- **pointer identity** `&x == &x`: taking the address of the same cell again yields the SAME pointer object and
    allocates nothing -/
theorem addrCell_again (P : PHeap) (t : Target) :
    addrCell (addrCell P t).1 t = ((addrCell P t).1, (addrCell P t).2) := by
  unfold addrCell
  cases h : lookup t P.ptrs with
  | some p => simp only [h]
  | none =>
    have hn := lookup_none h
    have : lookup t (P.ptrs ++ [t]) = some P.ptrs.length := by
      have hmem : t ∈ P.ptrs ++ [t] := by simp
      obtain ⟨i, hi⟩ := lookup_mem hmem
      have hget := lookup_some hi
      have hlt : i < (P.ptrs ++ [t]).length := by
        rcases Nat.lt_or_ge i (P.ptrs ++ [t]).length with hlt | hge
        · exact hlt
        · rw [List.getElem?_eq_none hge] at hget; simp at hget
      have : i = P.ptrs.length := by
        rcases Nat.lt_or_ge i P.ptrs.length with hlt' | hge'
        · rw [List.getElem?_append_left hlt'] at hget
          exact absurd (List.mem_of_getElem? hget) hn
        · simp only [List.length_append, List.length_cons, List.length_nil] at hlt; omega
      rw [← this]; exact hi
    simp only [this]

theorem addrCell_wf (P : PHeap) (t : Target) (hwf : P.wf) : (addrCell P t).1.wf := by
  unfold addrCell PHeap.wf at *
  cases h : lookup t P.ptrs with
  | some p => exact hwf
  | none =>
    dsimp only
    rw [List.nodup_append]
    refine ⟨hwf, by simp, ?_⟩
    intro a ha b hb
    simp only [List.mem_cons, List.not_mem_nil, or_false] at hb
    subst hb
    intro e; subst e
    exact lookup_none h ha

/-- in a well-formed table two pointer objects are the same object iff they point at the same cell:
    Go's `p == q` (JS `===`) decides "same variable" -/
theorem ptr_eq_iff (P : PHeap) (hwf : P.wf) (p q : Nat) (t u : Target)
    (hp : targetOf P p = some t) (hq : targetOf P q = some u) : p = q ↔ t = u := by
  constructor
  · intro e; subst e; rw [hp] at hq; exact Option.some.inj hq
  · intro e; subst e
    unfold targetOf at hp hq
    unfold PHeap.wf at hwf
    have hpl : p < P.ptrs.length := by
      rcases Nat.lt_or_ge p P.ptrs.length with h | h
      · exact h
      · rw [List.getElem?_eq_none h] at hp; simp at hp
    have hql : q < P.ptrs.length := by
      rcases Nat.lt_or_ge q P.ptrs.length with h | h
      · exact h
      · rw [List.getElem?_eq_none h] at hq; simp at hq
    rw [List.getElem?_eq_getElem hpl] at hp
    rw [List.getElem?_eq_getElem hql] at hq
    have : P.ptrs[p] = P.ptrs[q] := by
      rw [Option.some.inj hp, Option.some.inj hq]
    exact (List.getElem_inj hwf).1 this

theorem store_targets (P : PHeap) (p : Nat) (v : Int) (q : Nat) : targetOf (store P p v) q = targetOf P q := by
  unfold store targetOf
  cases P.ptrs[p]? <;> rfl

theorem store_wf (P : PHeap) (p : Nat) (v : Int) (hwf : P.wf) : (store P p v).wf := by
  unfold store PHeap.wf at *
  cases targetOf P p <;> exact hwf

/-- **alias_semantics**: a write through ANY pointer to a cell is observed through EVERY pointer to that cell and by
    the variable / field / element itself -/
theorem store_observed (P : PHeap) (p q : Nat) (t : Target) (v : Int)
    (hp : targetOf P p = some t) (hq : targetOf P q = some t) :
    load (store P p v) q = some v ∧ (store P p v).heap.cell t.obj t.slot = v := by
  have hs : store P p v = { P with heap := P.heap.write t.obj t.slot v } := by
    unfold store; rw [hp]
  constructor
  · unfold load
    rw [store_targets, hq, hs]
    simp [Heap.write]
  · rw [hs]; simp [Heap.write]

/-- … and through no pointer to a different cell, nor by any other cell -/
theorem store_frame (P : PHeap) (p q : Nat) (t u : Target) (v : Int)
    (hp : targetOf P p = some t) (hq : targetOf P q = some u) (hne : u ≠ t) :
    load (store P p v) q = load P q ∧
    ∀ o s, (o, s) ≠ (t.obj, t.slot) → (store P p v).heap.cell o s = P.heap.cell o s := by
  have hs : store P p v = { P with heap := P.heap.write t.obj t.slot v } := by
    unfold store; rw [hp]
  constructor
  · unfold load
    rw [store_targets, hq, hs]
    have : ¬ (u.obj = t.obj ∧ u.slot = t.slot) := by
      intro ⟨a, b⟩
      apply hne
      cases u; cases t; simp_all
    simp [Heap.write, this]
  · intro o s h
    rw [hs]
    have : ¬ (o = t.obj ∧ s = t.slot) := by
      intro ⟨a, b⟩; apply h; rw [a, b]
    simp [Heap.write, this]

theorem store_cells (P : PHeap) (p : Nat) (t : Target) (v : Int) (hp : targetOf P p = some t) :
    ∀ o s, (o, s) ≠ (t.obj, t.slot) → (store P p v).heap.cell o s = P.heap.cell o s := by
  intro o s h
  have hs : store P p v = { P with heap := P.heap.write t.obj t.slot v } := by
    unfold store; rw [hp]
  have : ¬ (o = t.obj ∧ s = t.slot) := by
    intro ⟨a, b⟩; apply h; rw [a, b]
  rw [hs]
  simp [Heap.write, this]

/-- a direct assignment to the variable / field / element is observed through every pointer to it -/
theorem assign_observed (P : PHeap) (q : Nat) (t : Target) (v : Int) (hq : targetOf P q = some t) :
    load (assignCell P t v) q = some v := by
  unfold load assignCell targetOf at *
  dsimp only
  rw [hq]
  simp [Heap.write]

/-- a pointer to array/struct storage IS the object: a field / element write through the pointer is the same heap
    write as through the variable, whatever path is followed -/
theorem obj_ptr_same_storage (H : Heap) (id : Nat) (path : List Nat) :
    navigate H ((id : Nat) : Int) path = navigate H (match addrObj id with | .obj j => (j : Int) | .cell _ => 0) path := rfl

end GV.Ptr
