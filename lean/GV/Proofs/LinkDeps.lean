import GV.Model.Link

/-!
  Lemmas about `GV.Link.collect` / `importDependencies` (compiler.go:89-122): the DFS with the `paths` set lists
  the dependency closure in a topological order.
-/
namespace GV.Proofs.LinkDeps
open GV.Link

set_option linter.unusedSectionVars false

variable {α : Type} [DecidableEq α]

theorem reach_trans {imports : α → List α} {a b c : α} (h1 : Reach imports a b) (h2 : Reach imports b c) :
    Reach imports a c := by
  induction h1 with
  | refl => exact h2
  | step hq _ ih => exact Reach.step hq (ih h2)

theorem reach_rank {imports : α → List α} {rank : α → Nat} (hac : Acyclic imports rank) {p x : α}
    (h : Reach imports p x) : rank x ≤ rank p := by
  induction h with
  | refl => exact Nat.le_refl _
  | step hq _ ih => exact Nat.le_trans ih (Nat.le_of_lt (hac _ _ hq))

/-- every import of a listed package is listed -/
def Closed (imports : α → List α) (d : List α) : Prop := ∀ p ∈ d, ∀ q ∈ imports p, q ∈ d

/-- no package imports a package listed later -/
def NoFwd (imports : α → List α) (d : List α) : Prop := d.Pairwise (fun a b => b ∉ imports a)

structure Inv (imports : α → List α) (d : List α) : Prop where
  nodup : d.Nodup
  closed : Closed imports d
  nofwd : NoFwd imports d

theorem closed_reach {imports : α → List α} {d : List α} (hc : Closed imports d) {p x : α} (hp : p ∈ d)
    (h : Reach imports p x) : x ∈ d := by
  induction h with
  | refl => exact hp
  | step hq _ ih => exact ih (hc _ hp _ hq)

/-- appending a package all of whose imports are listed, and which is not listed itself -/
theorem inv_snoc {imports : α → List α} {d : List α} {p : α} (h : Inv imports d) (hp : p ∉ d)
    (himp : ∀ q ∈ imports p, q ∈ d) : Inv imports (d ++ [p]) := by
  refine ⟨?_, ?_, ?_⟩
  · rw [List.nodup_append]
    refine ⟨h.nodup, by simp, ?_⟩
    intro a ha b hb
    simp only [List.mem_singleton] at hb
    subst hb
    intro hab; subst hab; exact hp ha
  · intro a ha q hq
    rw [List.mem_append] at ha ⊢
    rcases ha with ha | ha
    · exact Or.inl (h.closed a ha q hq)
    · simp only [List.mem_singleton] at ha; subst ha; exact Or.inl (himp q hq)
  · unfold NoFwd
    rw [List.pairwise_append]
    refine ⟨h.nofwd, List.pairwise_singleton _ _, ?_⟩
    intro a ha b hb
    simp only [List.mem_singleton] at hb
    subst hb
    intro hba
    exact hp (h.closed a ha _ hba)

/-- the postcondition of one `collectDependencies(p)` call -/
def Post (imports : α → List α) (d : List α) (p : α) (r : List α) : Prop :=
  ∃ ext, r = d ++ ext ∧ Inv imports r ∧ p ∈ r ∧ ∀ x ∈ ext, Reach imports p x

theorem foldl_spec (imports : α → List α) (fuel : Nat) (rank : α → Nat)
    (IH : ∀ d p, rank p < fuel → Inv imports d → Post imports d p (collect imports fuel d p)) :
    ∀ (l : List α) (d : List α), (∀ q ∈ l, rank q < fuel) → Inv imports d →
      ∃ ext, l.foldl (collect imports fuel) d = d ++ ext ∧ Inv imports (d ++ ext) ∧
        (∀ q ∈ l, q ∈ d ++ ext) ∧ ∀ x ∈ ext, ∃ q ∈ l, Reach imports q x := by
  intro l
  induction l with
  | nil =>
    intro d _ hd
    exact ⟨[], by simp, by simpa using hd, by simp, by simp⟩
  | cons q qs ih =>
    intro d hr hd
    obtain ⟨e1, he1, hinv1, hq1, hreach1⟩ := IH d q (hr q (List.mem_cons_self)) hd
    have hr' : ∀ q' ∈ qs, rank q' < fuel := fun q' h => hr q' (List.mem_cons_of_mem _ h)
    obtain ⟨e2, he2, hinv2, hmem2, hreach2⟩ := ih (collect imports fuel d q) hr' hinv1
    refine ⟨e1 ++ e2, ?_, ?_, ?_, ?_⟩
    · simp only [List.foldl_cons]; rw [he2, he1, List.append_assoc]
    · rw [← List.append_assoc, ← he1]; exact hinv2
    · intro q' hq'
      rw [← List.append_assoc, ← he1]
      rcases List.mem_cons.mp hq' with h | h
      · subst h; exact List.mem_append_left _ hq1
      · exact hmem2 q' h
    · intro x hx
      rcases List.mem_append.mp hx with h | h
      · exact ⟨q, List.mem_cons_self, hreach1 x h⟩
      · obtain ⟨q', hq', hr'⟩ := hreach2 x h
        exact ⟨q', List.mem_cons_of_mem _ hq', hr'⟩

theorem collect_spec (imports : α → List α) (rank : α → Nat) (hac : Acyclic imports rank) :
    ∀ (fuel : Nat) (d : List α) (p : α), rank p < fuel → Inv imports d →
      Post imports d p (collect imports fuel d p) := by
  intro fuel
  induction fuel with
  | zero => intro d p h; exact absurd h (Nat.not_lt_zero _)
  | succ fuel ih =>
    intro d p hp hd
    unfold collect
    by_cases hmem : p ∈ d
    · rw [if_pos hmem]
      exact ⟨[], by simp, hd, hmem, by simp⟩
    · rw [if_neg hmem]
      have hr : ∀ q ∈ imports p, rank q < fuel := fun q hq => by
        have := hac p q hq; omega
      obtain ⟨ext, he, hinv, hmem2, hreach⟩ := foldl_spec imports fuel rank ih (imports p) d hr hd
      have hpnot : p ∉ d ++ ext := by
        intro h
        rcases List.mem_append.mp h with h | h
        · exact hmem h
        · obtain ⟨q, hq, hrq⟩ := hreach p h
          have h1 := reach_rank hac hrq
          have h2 := hac p q hq
          omega
      refine ⟨ext ++ [p], ?_, ?_, ?_, ?_⟩
      · rw [he, List.append_assoc]
      · rw [he]; exact inv_snoc hinv hpnot hmem2
      · rw [he]; simp
      · intro x hx
        rcases List.mem_append.mp hx with h | h
        · obtain ⟨q, hq, hrq⟩ := hreach x h
          exact Reach.step hq hrq
        · simp only [List.mem_singleton] at h; subst h; exact Reach.refl _

/-- members of `collect fuel [] p` are exactly the packages reachable from `p` -/
theorem collect_nil_mem (imports : α → List α) (rank : α → Nat) (hac : Acyclic imports rank)
    (fuel : Nat) (p : α) (hp : rank p < fuel) (x : α) :
    x ∈ collect imports fuel [] p ↔ Reach imports p x := by
  obtain ⟨ext, he, hinv, hmem, hreach⟩ := collect_spec imports rank hac fuel [] p hp
    ⟨List.nodup_nil, (fun a ha => absurd ha (List.not_mem_nil)), List.Pairwise.nil⟩
  constructor
  · intro hx
    rw [he] at hx
    simp only [List.nil_append] at hx
    exact hreach x hx
  · intro hx
    exact closed_reach hinv.closed hmem hx

/-- the split form of "each after all its imports" from the invariant -/
theorem inv_split {imports : α → List α} {rank : α → Nat} (hac : Acyclic imports rank) {d : List α}
    (h : Inv imports d) {pre post : List α} {p : α} (hd : d = pre ++ p :: post) :
    ∀ q ∈ imports p, q ∈ pre := by
  intro q hq
  have hpd : p ∈ d := by rw [hd]; simp
  have hqd : q ∈ d := h.closed p hpd q hq
  rw [hd] at hqd
  rcases List.mem_append.mp hqd with h1 | h1
  · exact h1
  · exfalso
    rcases List.mem_cons.mp h1 with h2 | h2
    · have := hac p q hq; rw [h2] at this; omega
    · have hnf := h.nofwd
      unfold NoFwd at hnf
      rw [hd, List.pairwise_append] at hnf
      have := (List.pairwise_cons.mp hnf.2.1).1 q h2
      exact this hq

end GV.Proofs.LinkDeps
