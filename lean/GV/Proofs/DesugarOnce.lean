import GV.Model.Desugar

/-! Proof of `GV.Props.C01.desugar_once`: the block `filter.Assign` builds evaluates like the Go specification of
    `x op= y`, for every left operand, every interpretation of the primitives and every store. -/
namespace GV.Proofs.Desugar
open GV.Desugar

/-- opaque operands do not write memory: what `load` sees is unchanged by evaluating them (they may change anything
    else in the store — the output trace, counters …). Go leaves the order of a variable read relative to a call that
    writes the variable unspecified, so the specification itself is only determined under this hypothesis. -/
def MemPure (E : Env σ) : Prop := ∀ k l s, E.load l (E.opq k s).2 = E.load l s

/-- the two stores hold the same memory -/
def SameMem (E : Env σ) (s s' : σ) : Prop := ∀ l, E.load l s = E.load l s'

theorem SameMem.refl (E : Env σ) (s : σ) : SameMem E s s := fun _ => rfl
theorem SameMem.trans {E : Env σ} {a b c : σ} (h1 : SameMem E a b) (h2 : SameMem E b c) : SameMem E a c :=
  fun l => (h1 l).trans (h2 l)
theorem SameMem.symm {E : Env σ} {a b : σ} (h : SameMem E a b) : SameMem E b a := fun l => (h l).symm

theorem evalR_mem (E : Env σ) (hp : MemPure E) (t : Tmp) : ∀ (e : Ex) (s : σ), SameMem E s (evalR E t e s).2 := by
  intro e
  induction e with
  | ident x => intro s; exact SameMem.refl E s
  | lit n => intro s; exact SameMem.refl E s
  | tmp j => intro s; exact SameMem.refl E s
  | index x i ihx ihi => intro s; exact (ihx s).trans (ihi _)
  | sel x f ih => intro s; exact ih s
  | star x ih => intro s; exact ih s
  | opq k => intro s l; exact (hp k l s).symm
  | bin l r ihl ihr => intro s; exact (ihl s).trans (ihr _)
  | conv x ih => intro s; exact ih s

/-- no opaque sub-expression (what `viaTmpVars` leaves behind) -/
def pureEx : Ex → Bool
  | .opq _ => false
  | .index x i => pureEx x && pureEx i
  | .sel x _ => pureEx x
  | .star x => pureEx x
  | .bin l r => pureEx l && pureEx r
  | .conv x => pureEx x
  | _ => true

/-- every temporary mentioned is below `n` -/
def tmpsBelow (n : Nat) : Ex → Bool
  | .tmp j => decide (j < n)
  | .index x i => tmpsBelow n x && tmpsBelow n i
  | .sel x _ => tmpsBelow n x
  | .star x => tmpsBelow n x
  | .bin l r => tmpsBelow n l && tmpsBelow n r
  | .conv x => tmpsBelow n x
  | _ => true

/-- a pure expression does not change the store, and its value only depends on memory and the temporaries it mentions -/
theorem evalR_pure (E : Env σ) : ∀ (e : Ex), pureEx e = true → ∀ (t : Tmp) (s : σ), (evalR E t e s).2 = s := by
  intro e
  induction e with
  | ident x => intro _ t s; rfl
  | lit n => intro _ t s; rfl
  | tmp j => intro _ t s; rfl
  | index x i ihx ihi =>
    intro h t s
    simp only [pureEx, Bool.and_eq_true] at h
    simp only [evalR, ihx h.1 t s, ihi h.2 t s]
  | sel x f ih => intro h t s; simp only [pureEx] at h; simp only [evalR, ih h t s]
  | star x ih => intro h t s; simp only [pureEx] at h; simp only [evalR, ih h t s]
  | opq k => intro h; simp [pureEx] at h
  | bin l r ihl ihr =>
    intro h t s
    simp only [pureEx, Bool.and_eq_true] at h
    simp only [evalR, ihl h.1 t s, ihr h.2 t s]
  | conv x ih => intro h t s; simp only [pureEx] at h; simp only [evalR, ih h t s]

theorem evalR_pure_val (E : Env σ) : ∀ (e : Ex) (n : Nat), pureEx e = true → tmpsBelow n e = true →
    ∀ (t t' : Tmp) (s s' : σ), (∀ j, j < n → t j = t' j) → SameMem E s s' → (evalR E t e s).1 = (evalR E t' e s').1 := by
  intro e n
  induction e with
  | ident x => intro _ _ t t' s s' _ hm; exact hm _
  | lit k => intro _ _ t t' s s' _ _; rfl
  | tmp j => intro _ hb t t' s s' ht _; simp only [tmpsBelow, decide_eq_true_eq] at hb; exact ht j hb
  | index x i ihx ihi =>
    intro hp hb t t' s s' ht hm
    simp only [pureEx, tmpsBelow, Bool.and_eq_true] at hp hb
    simp only [evalR, evalR_pure E x hp.1, evalR_pure E i hp.2]
    rw [ihx hp.1 hb.1 t t' s s' ht hm, ihi hp.2 hb.2 t t' s s' ht hm]
    exact hm _
  | sel x f ih =>
    intro hp hb t t' s s' ht hm
    simp only [pureEx, tmpsBelow] at hp hb
    simp only [evalR, evalR_pure E x hp]
    rw [ih hp hb t t' s s' ht hm]
    exact hm _
  | star x ih =>
    intro hp hb t t' s s' ht hm
    simp only [pureEx, tmpsBelow] at hp hb
    simp only [evalR, evalR_pure E x hp]
    rw [ih hp hb t t' s s' ht hm]
    exact hm _
  | opq k => intro hp; simp [pureEx] at hp
  | bin l r ihl ihr =>
    intro hp hb t t' s s' ht hm
    simp only [pureEx, tmpsBelow, Bool.and_eq_true] at hp hb
    simp only [evalR]
    rw [ihl hp.1 hb.1 t t' s s' ht hm]
    rw [ihr hp.2 hb.2 t t' (evalR E t l s).2 (evalR E t' l s').2 ht
      (by rw [evalR_pure E l hp.1, evalR_pure E l hp.1]; exact hm)]
  | conv x ih =>
    intro hp hb t t' s s' ht hm
    simp only [pureEx, tmpsBelow] at hp hb
    simp only [evalR]
    rw [ih hp hb t t' s s' ht hm]

/-- an expression without temporaries does not look at them -/
theorem evalR_noTmp (E : Env σ) : ∀ (e : Ex), noTmp e = true → ∀ (t t' : Tmp) (s : σ), evalR E t e s = evalR E t' e s := by
  intro e
  induction e with
  | ident x => intro _ t t' s; rfl
  | lit n => intro _ t t' s; rfl
  | tmp j => intro h; simp [noTmp] at h
  | index x i ihx ihi =>
    intro h t t' s
    simp only [noTmp, Bool.and_eq_true] at h
    simp only [evalR, ihx h.1 t t' s, ihi h.2 t t']
  | sel x f ih => intro h t t' s; simp only [noTmp] at h; simp only [evalR, ih h t t' s]
  | star x ih => intro h t t' s; simp only [noTmp] at h; simp only [evalR, ih h t t' s]
  | opq k => intro _ t t' s; rfl
  | bin l r ihl ihr =>
    intro h t t' s
    simp only [noTmp, Bool.and_eq_true] at h
    simp only [evalR, ihl h.1 t t' s, ihr h.2 t t']
  | conv x ih => intro h t t' s; simp only [noTmp] at h; simp only [evalR, ih h t t' s]

theorem execTmps_append (E : Env σ) : ∀ (a b : List TmpDef) (t : Tmp) (s : σ),
    execTmps E (a ++ b) t s = execTmps E b (execTmps E a t s).1 (execTmps E a t s).2 := by
  intro a
  induction a with
  | nil => intro b t s; rfl
  | cons d r ih => intro b t s; simp only [List.cons_append, execTmps, ih]

/-- **the invariant of `viaTmpVars`**: running the temporaries it appends reaches exactly the store the ORIGINAL
    expression reaches (same opaque calls, same order, each once), leaves the temporaries below `n` alone, and the
    rewritten expression is pure, mentions only temporaries below the new bound and — evaluated in any store with the same
    memory — has the value the original expression had. -/
theorem viaTmp_spec (E : Env σ) (hp : MemPure E) : ∀ (e : Ex) (name n : Nat) (t : Tmp) (s : σ), noTmp e = true →
    let r := viaTmp e name n
    let o := evalR E t e s
    let x := execTmps E r.2.2 t s
    n ≤ r.2.1 ∧ pureEx r.1 = true ∧ tmpsBelow r.2.1 r.1 = true ∧ x.2 = o.2 ∧ (∀ j, j < n → x.1 j = t j) ∧
      (∀ (t' : Tmp) (s' : σ), (∀ j, n ≤ j → j < r.2.1 → t' j = x.1 j) → SameMem E o.2 s' → (evalR E t' r.1 s').1 = o.1) := by
  intro e
  induction e with
  | ident x =>
    intro name n t s _
    refine ⟨Nat.le_refl _, rfl, rfl, rfl, fun _ _ => rfl, ?_⟩
    intro t' s' _ hm
    exact (hm _).symm
  | lit k =>
    intro name n t s _
    exact ⟨Nat.le_refl _, rfl, rfl, rfl, fun _ _ => rfl, fun _ _ _ _ => rfl⟩
  | tmp j => intro name n t s h; simp [noTmp] at h
  | opq k =>
    intro name n t s _
    refine ⟨Nat.le_succ _, rfl, by simp [viaTmp, tmpsBelow], rfl, ?_, ?_⟩
    · intro j hj
      simp only [viaTmp, execTmps, setTmp]
      have : j ≠ n := by omega
      simp [this]
    · intro t' s' ht _
      simp only [viaTmp, evalR]
      rw [ht n (Nat.le_refl _) (Nat.lt_succ_self _)]
      show setTmp t n (evalR E t (.opq k) s).1 n = (E.opq k s).1
      simp [setTmp, evalR]
  | bin l r _ _ =>
    intro name n t s _
    refine ⟨Nat.le_succ _, rfl, by simp [viaTmp, tmpsBelow], rfl, ?_, ?_⟩
    · intro j hj
      simp only [viaTmp, execTmps, setTmp]
      have : j ≠ n := by omega
      simp [this]
    · intro t' s' ht _
      simp only [viaTmp, evalR]
      rw [ht n (Nat.le_refl _) (Nat.lt_succ_self _)]
      show setTmp t n (evalR E t (.bin l r) s).1 n = (evalR E t (.bin l r) s).1
      simp [setTmp]
  | conv x _ =>
    intro name n t s _
    refine ⟨Nat.le_succ _, rfl, by simp [viaTmp, tmpsBelow], rfl, ?_, ?_⟩
    · intro j hj
      simp only [viaTmp, execTmps, setTmp]
      have : j ≠ n := by omega
      simp [this]
    · intro t' s' ht _
      simp only [viaTmp, evalR]
      rw [ht n (Nat.le_refl _) (Nat.lt_succ_self _)]
      show setTmp t n (evalR E t (.conv x) s).1 n = (evalR E t (.conv x) s).1
      simp [setTmp]
  | sel x f ih =>
    intro name n t s h
    simp only [noTmp] at h
    obtain ⟨h1, h2, h3, h4, h5, h6⟩ := ih 2 n t s h
    refine ⟨h1, by simpa [viaTmp, pureEx] using h2, by simpa [viaTmp, tmpsBelow] using h3, h4, h5, ?_⟩
    intro t' s' ht hm
    simp only [viaTmp, evalR]
    have hv := h6 t' s' ht hm
    rw [evalR_pure E _ h2, hv]
    exact (hm _).symm
  | star x ih =>
    intro name n t s h
    simp only [noTmp] at h
    obtain ⟨h1, h2, h3, h4, h5, h6⟩ := ih 3 n t s h
    refine ⟨h1, by simpa [viaTmp, pureEx] using h2, by simpa [viaTmp, tmpsBelow] using h3, h4, h5, ?_⟩
    intro t' s' ht hm
    simp only [viaTmp, evalR]
    have hv := h6 t' s' ht hm
    rw [evalR_pure E _ h2, hv]
    exact (hm _).symm
  | index x i ihx ihi =>
    intro name n t s h
    simp only [noTmp, Bool.and_eq_true] at h
    obtain ⟨a1, a2, a3, a4, a5, a6⟩ := ihx 0 n t s h.1
    -- the index operand is evaluated after the temporaries of `x`, in the store they leave
    have hi := ihi 1 (viaTmp x 0 n).2.1 (execTmps E (viaTmp x 0 n).2.2 t s).1 (execTmps E (viaTmp x 0 n).2.2 t s).2 h.2
    obtain ⟨b1, b2, b3, b4, b5, b6⟩ := hi
    have hieq : evalR E (execTmps E (viaTmp x 0 n).2.2 t s).1 i (execTmps E (viaTmp x 0 n).2.2 t s).2
        = evalR E t i (evalR E t x s).2 := by
      rw [a4]; exact evalR_noTmp E i h.2 _ _ _
    rw [hieq] at b4 b6
    have hmono : ∀ (e : Ex) (n m : Nat), n ≤ m → tmpsBelow n e = true → tmpsBelow m e = true := by
      intro e
      induction e with
      | tmp j => intro n m hnm hb; simp only [tmpsBelow, decide_eq_true_eq] at hb ⊢; omega
      | index x i ihx ihi =>
        intro n m hnm hb
        simp only [tmpsBelow, Bool.and_eq_true] at hb ⊢
        exact ⟨ihx n m hnm hb.1, ihi n m hnm hb.2⟩
      | sel x f ih => intro n m hnm hb; simp only [tmpsBelow] at hb ⊢; exact ih n m hnm hb
      | star x ih => intro n m hnm hb; simp only [tmpsBelow] at hb ⊢; exact ih n m hnm hb
      | bin l r ihl ihr =>
        intro n m hnm hb
        simp only [tmpsBelow, Bool.and_eq_true] at hb ⊢
        exact ⟨ihl n m hnm hb.1, ihr n m hnm hb.2⟩
      | conv x ih => intro n m hnm hb; simp only [tmpsBelow] at hb ⊢; exact ih n m hnm hb
      | ident x => intro _ _ _ _; rfl
      | lit k => intro _ _ _ _; rfl
      | opq k => intro _ _ _ _; rfl
    refine ⟨Nat.le_trans a1 b1, ?_, ?_, ?_, ?_, ?_⟩
    · simp only [viaTmp, pureEx, a2, b2, Bool.and_self]
    · simp only [viaTmp, tmpsBelow, Bool.and_eq_true]
      exact ⟨hmono _ _ _ b1 a3, b3⟩
    · simp only [viaTmp, execTmps_append, evalR]
      exact b4
    · intro j hj
      simp only [viaTmp, execTmps_append]
      rw [b5 j (by omega), a5 j hj]
    · intro t' s' ht hm
      simp only [viaTmp, evalR]
      simp only [viaTmp, execTmps_append] at ht
      have hmx : SameMem E (evalR E t x s).2 s' := (evalR_mem E hp t i _).trans hm
      have hvx := a6 t' s' (by
        intro j hj1 hj2
        rw [ht j hj1 (by omega), b5 j hj2]) hmx
      have hvi := b6 t' s' (by
        intro j hj1 hj2
        exact ht j (by omega) hj2) hm
      rw [evalR_pure E _ a2, evalR_pure E _ b2, hvx, hvi]
      exact (hm _).symm


/-- expressions an assignment can target -/
def addressable : Ex → Bool
  | .ident _ => true
  | .index _ _ => true
  | .sel _ _ => true
  | .star _ => true
  | _ => false

/-- the value of an addressable expression is what its location holds -/
theorem evalR_eq_load (E : Env σ) (t : Tmp) (e : Ex) (h : addressable e = true) (s : σ) :
    evalR E t e s = (E.load (evalL E t e s).1 (evalL E t e s).2, (evalL E t e s).2) := by
  cases e <;> simp [addressable] at h <;> rfl

theorem viaTmp_addressable (e : Ex) (name n : Nat) (h : addressable e = true) : addressable (viaTmp e name n).1 = true := by
  cases e <;> simp [addressable] at h <;> rfl

/-- the location version of `viaTmp_spec` -/
theorem viaTmp_loc (E : Env σ) (hp : MemPure E) (e : Ex) (name n : Nat) (t : Tmp) (s : σ) (hn : noTmp e = true)
    (ha : addressable e = true) :
    (execTmps E (viaTmp e name n).2.2 t s).2 = (evalL E t e s).2 ∧
    ∀ (t' : Tmp) (s' : σ), (∀ j, n ≤ j → j < (viaTmp e name n).2.1 → t' j = (execTmps E (viaTmp e name n).2.2 t s).1 j) →
      SameMem E (evalL E t e s).2 s' → evalL E t' (viaTmp e name n).1 s' = ((evalL E t e s).1, s') := by
  cases e with
  | ident x => exact ⟨rfl, fun _ _ _ _ => rfl⟩
  | lit k => simp [addressable] at ha
  | tmp j => simp [addressable] at ha
  | opq k => simp [addressable] at ha
  | bin l r => simp [addressable] at ha
  | conv x => simp [addressable] at ha
  | sel x f =>
    simp only [noTmp] at hn
    obtain ⟨h1, h2, h3, h4, h5, h6⟩ := viaTmp_spec E hp x 2 n t s hn
    refine ⟨h4, ?_⟩
    intro t' s' ht hm
    simp only [viaTmp, evalL]
    rw [evalR_pure E _ h2, h6 t' s' ht hm]
  | star x =>
    simp only [noTmp] at hn
    obtain ⟨h1, h2, h3, h4, h5, h6⟩ := viaTmp_spec E hp x 3 n t s hn
    refine ⟨h4, ?_⟩
    intro t' s' ht hm
    simp only [viaTmp, evalL]
    rw [evalR_pure E _ h2, h6 t' s' ht hm]
  | index x i =>
    simp only [noTmp, Bool.and_eq_true] at hn
    obtain ⟨a1, a2, a3, a4, a5, a6⟩ := viaTmp_spec E hp x 0 n t s hn.1
    obtain ⟨b1, b2, b3, b4, b5, b6⟩ := viaTmp_spec E hp i 1 (viaTmp x 0 n).2.1 (execTmps E (viaTmp x 0 n).2.2 t s).1
      (execTmps E (viaTmp x 0 n).2.2 t s).2 hn.2
    have hieq : evalR E (execTmps E (viaTmp x 0 n).2.2 t s).1 i (execTmps E (viaTmp x 0 n).2.2 t s).2
        = evalR E t i (evalR E t x s).2 := by
      rw [a4]; exact evalR_noTmp E i hn.2 _ _ _
    rw [hieq] at b4 b6
    refine ⟨?_, ?_⟩
    · simp only [viaTmp, execTmps_append, evalL]
      exact b4
    · intro t' s' ht hm
      simp only [viaTmp, evalL]
      simp only [viaTmp, execTmps_append] at ht
      simp only [evalL] at hm
      have hmx : SameMem E (evalR E t x s).2 s' := (evalR_mem E hp t i _).trans hm
      have hvx := a6 t' s' (by
        intro j hj1 hj2
        rw [ht j hj1 (by omega), b5 j hj2]) hmx
      have hvi := b6 t' s' (by
        intro j hj1 hj2
        exact ht j (by omega) hj2) hm
      rw [evalR_pure E _ a2, evalR_pure E _ b2, hvx, hvi]

/-- **desugar_once**, proof -/
theorem desugar_exec (E : Env σ) (hp : MemPure E) (x y : Ex) (hx : noTmp x = true) (hy : noTmp y = true)
    (ha : addressable x = true) (t : Tmp) (s : σ) :
    execBlock E t (desugar x y) s = specOpAssign E t x y s := by
  obtain ⟨h1, h2⟩ := viaTmp_loc E hp x 4 0 t s hx ha
  simp only [execBlock, desugar, execAssign, specOpAssign]
  have hL := h2 (execTmps E (viaTmp x 4 0).2.2 t s).1 (execTmps E (viaTmp x 4 0).2.2 t s).2 (fun _ _ _ => rfl)
    (by rw [h1]; exact SameMem.refl E _)
  rw [hL]
  simp only [evalR]
  rw [evalR_eq_load E _ _ (viaTmp_addressable x 4 0 ha), hL]
  simp only
  rw [evalR_noTmp E y hy (execTmps E (viaTmp x 4 0).2.2 t s).1 t, h1]
  rw [← evalR_mem E hp t y (evalL E t x s).2 (evalL E t x s).1]

end GV.Proofs.Desugar
