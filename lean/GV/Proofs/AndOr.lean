/-
  GV.Proofs.AndOr — expression-level flattening: `a && b()` / `a || b()` with a blocking right operand
  (`compiler/expressions.go:443-462`) and argument temporaries when a later argument blocks (`compiler/utils.go:151-176`).

    if (!(a)) { _v = false; $s = K; continue s; }        -- `direct (if a {} else { _v = false; break })`, break ↦ K
    _r = b(); $s = N; case N: <resume block>              -- `call b N`
    _v = _r;                                               -- `act setV`
    case K:
-/
import GV.Model.Flat
import GV.Proofs.Flat
import GV.Proofs.Segment

namespace GV.Flat
open GV.Ctrl

/-- jump context of the short-circuit exit: `$s = K; continue s;` -/
def scCtx (K : Nat) : Ctx := ⟨⟨K, 0, .none⟩, []⟩

/-- flattened `_v = a && b()` (expressions.go:444-451) -/
def andCode (a b setF setV K N : Nat) : List Instr :=
  [.direct (.ite a .skip (.seq (.act setF) (.brk none))) (scCtx K), .call b N, .act setV, .case K]

/-- flattened `_v = a || b()` (expressions.go:453-460) -/
def orCode (a b setT setV K N : Nat) : List Instr :=
  [.direct (.ite a (.seq (.act setT) (.brk none)) .skip) (scCtx K), .call b N, .act setV, .case K]

/-- Go: `a && b()` — `a` is evaluated once; `b()` only if `a` is true -/
def andSpec (E : Env σ) (a b setF setV : Nat) (st : σ) : σ :=
  match E.cond a st with
  | (true, s1) => E.act setV (E.call b s1)
  | (false, s1) => E.act setF s1

def orSpec (E : Env σ) (a b setT setV : Nat) (st : σ) : σ :=
  match E.cond a st with
  | (true, s1) => E.act setT s1
  | (false, s1) => E.act setV (E.call b s1)

theorem and_exec (E : Env σ) (code : List Instr) (hnd : (labels code).Nodup) (a b setF setV K N : Nat)
    (pr k : List Instr) (hcode : code = pr ++ (andCode a b setF setV K N ++ k)) (st o : σ)
    (hk : Exec E code k (andSpec E a b setF setV st) o) :
    Exec E code (andCode a b setF setV K N ++ k) st o := by
  unfold andSpec at hk
  unfold andCode at hcode ⊢
  simp only [List.cons_append, List.nil_append] at hcode ⊢
  cases hc : E.cond a st with
  | mk bb s1 =>
    rw [hc] at hk
    cases bb with
    | true =>
      exact .directN rfl (.iteT hc .skip) (.call (.act (.case hk)))
    | false =>
      have hseek : seek K code = .case K :: k :=
        seek_mid hnd (a := pr ++ [.direct (.ite a .skip (.seq (.act setF) (.brk none))) (scCtx K), .call b N, .act setV])
          (by rw [hcode]; simp) rfl
      refine .directB (l := none) rfl (.iteF hc (.seqN .act .brk)) ?_
      show Exec E code (seek K code) _ o
      rw [hseek]; exact .case hk

theorem or_exec (E : Env σ) (code : List Instr) (hnd : (labels code).Nodup) (a b setT setV K N : Nat)
    (pr k : List Instr) (hcode : code = pr ++ (orCode a b setT setV K N ++ k)) (st o : σ)
    (hk : Exec E code k (orSpec E a b setT setV st) o) :
    Exec E code (orCode a b setT setV K N ++ k) st o := by
  unfold orSpec at hk
  unfold orCode at hcode ⊢
  simp only [List.cons_append, List.nil_append] at hcode ⊢
  cases hc : E.cond a st with
  | mk bb s1 =>
    rw [hc] at hk
    cases bb with
    | false =>
      exact .directN rfl (.iteF hc .skip) (.call (.act (.case hk)))
    | true =>
      have hseek : seek K code = .case K :: k :=
        seek_mid hnd (a := pr ++ [.direct (.ite a (.seq (.act setT) (.brk none)) .skip) (scCtx K), .call b N, .act setV])
          (by rw [hcode]; simp) rfl
      refine .directB (l := none) rfl (.iteT hc (.seqN .act .brk)) ?_
      show Exec E code (seek K code) _ o
      rw [hseek]; exact .case hk

end GV.Flat
