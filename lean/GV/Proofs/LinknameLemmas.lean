import GV.Model.Linkname

/-! Lemmas about the string helpers of `GV.Model.Linkname`. -/
namespace GV.Proofs.LinknameLemmas
open GV.Linkname

theorem indexOf_append (c : Char) (a b : Text) (ha : c ∉ a) : indexOf c (a ++ c :: b) = some a.length := by
  induction a with
  | nil => simp [indexOf]
  | cons x xs ih =>
    have hx : x ≠ c := fun h => ha (by simp [h])
    have hxs : c ∉ xs := fun h => ha (List.mem_cons_of_mem _ h)
    simp only [List.cons_append, indexOf]
    rw [if_neg (by simpa using hx), ih hxs]
    simp

theorem indexOf_none (c : Char) (a : Text) (ha : c ∉ a) : indexOf c a = none := by
  induction a with
  | nil => rfl
  | cons x xs ih =>
    have hx : x ≠ c := fun h => ha (by simp [h])
    have hxs : c ∉ xs := fun h => ha (List.mem_cons_of_mem _ h)
    simp only [indexOf]
    rw [if_neg (by simpa using hx), ih hxs]
    rfl

theorem lastIndexOf_none (c : Char) (a : Text) (ha : c ∉ a) : lastIndexOf c a = none := by
  induction a with
  | nil => rfl
  | cons x xs ih =>
    have hx : x ≠ c := fun h => ha (by simp [h])
    have hxs : c ∉ xs := fun h => ha (List.mem_cons_of_mem _ h)
    simp only [lastIndexOf, ih hxs]
    rw [if_neg (by simpa using hx)]

theorem lastIndexOf_append (c : Char) (a b : Text) (hb : c ∉ b) : lastIndexOf c (a ++ c :: b) = some a.length := by
  induction a with
  | nil => simp [lastIndexOf, lastIndexOf_none c b hb]
  | cons x xs ih => simp [lastIndexOf, ih]

end GV.Proofs.LinknameLemmas
