/-
  GV.Proofs.JsConv — lemmas behind GV.Props.C11: arithmetic of the integer fix-ups, the 64-bit constructors, the scalar
  and composite round trips, the documented table, the wrapper cache.
-/
import GV.Model.JsConv
import GV.Spec.JsTable
import GV.Proofs.Utf16

namespace GV.Proofs.JsConv
open GV.JsConv GV.Utf16 GV.Spec.JsTable

/-! ### integer fix-ups -/

theorem wrapS_id (b : Nat) (n : Int) (hb : b = 8 ∨ b = 16 ∨ b = 32)
    (h : -(2 ^ (b - 1) : Int) ≤ n ∧ n < (2 ^ (b - 1) : Int)) : wrapS b n = n := by
  rcases hb with rfl | rfl | rfl <;> (unfold wrapS; simp at h ⊢; omega)

theorem wrapU_id (b : Nat) (n : Int) (hb : b = 8 ∨ b = 16 ∨ b = 32) (h : 0 ≤ n ∧ n < (2 ^ b : Int)) : wrapU b n = n := by
  rcases hb with rfl | rfl | rfl <;> (unfold wrapU; simp at h ⊢; omega)

theorem fixInt_id (k : IK) (n : Int) (h : inRange k n) : fixInt k (.int n) = .int n := by
  cases k <;> simp only [inRange] at h <;> simp only [fixInt, Num.truncInt]
  all_goals first
    | rfl
    | (congr 1; first
        | exact wrapS_id 8 n (by simp) (by simp; omega)
        | exact wrapS_id 16 n (by simp) (by simp; omega)
        | exact wrapS_id 32 n (by simp) (by simp; omega)
        | exact wrapU_id 8 n (by simp) (by simp; omega)
        | exact wrapU_id 16 n (by simp) (by simp; omega)
        | exact wrapU_id 32 n (by simp) (by simp; omega))

/-- the typed-array class of an integer kind stores in-range values unchanged -/
theorem storeTA_id (k : IK) (c : TA) (n : Int) (hc : nativeTA (.int k) = some c) (h : inRange k n) :
    storeTA c (.int n) = .int n := by
  cases k <;> simp only [nativeTA, Option.some.injEq] at hc <;> subst hc <;> simp only [inRange] at h <;>
    simp only [storeTA, Num.truncInt]
  all_goals (congr 1; first
        | exact wrapS_id 8 n (by simp) (by simp; omega)
        | exact wrapS_id 16 n (by simp) (by simp; omega)
        | exact wrapS_id 32 n (by simp) (by simp; omega)
        | exact wrapU_id 8 n (by simp) (by simp; omega)
        | exact wrapU_id 16 n (by simp) (by simp; omega)
        | exact wrapU_id 32 n (by simp) (by simp; omega))

theorem inRange_small (k : IK) (n : Int) (h : inRange k n) : n.natAbs < 10 ^ 21 := by
  cases k <;> simp only [inRange] at h <;> omega

/-! ### 64-bit -/

theorem roundNat_small (n : Nat) (h : n ≤ 2 ^ 53) : roundNat n = n := by
  by_cases h' : n < 2 ^ 53
  · unfold roundNat; simp [h']
  · have : n = 9007199254740992 := by omega
    subst this; decide +kernel

theorem roundInt_small (v : Int) (h1 : -9007199254740992 ≤ v) (h2 : v ≤ 9007199254740992) : roundInt v = v := by
  unfold roundInt
  split
  · rw [roundNat_small _ (by omega)]; omega
  · rw [roundNat_small _ (by omega)]; omega

theorem mk64_exact (n : Int) :
    (∃ hi lo, mk64 false (.int n) = .i64 hi lo ∧ hi * 4294967296 + (lo : Int) = n % 18446744073709551616) ∧
    (∃ hi lo, mk64 true (.int n) = .i64 hi lo ∧ (hi * 4294967296 + (lo : Int)) % 18446744073709551616 = n % 18446744073709551616) := by
  constructor
  · refine ⟨_, _, rfl, ?_⟩
    simp only [mk64, Num.truncInt, wrapU, Bool.false_eq_true, if_false]
    simp
    omega
  · refine ⟨_, _, rfl, ?_⟩
    simp only [mk64, Num.truncInt, wrapU, wrapS, if_true]
    simp
    split <;> omega

theorem mk64_back (signed : Bool) (hi : Int) (lo : Nat) (hlo : lo < 4294967296)
    (hhi : if signed then -2147483648 ≤ hi ∧ hi ≤ 2147483647 else 0 ≤ hi ∧ hi ≤ 4294967295) :
    mk64 signed (.int (hi * 4294967296 + (lo : Int))) = .i64 hi lo := by
  have hd : (hi * 4294967296 + (lo : Int)) / 4294967296 = hi := by omega
  have hm : (hi * 4294967296 + (lo : Int)) % 4294967296 = (lo : Int) := by omega
  cases signed
  · simp only [Bool.false_eq_true, if_false] at hhi
    simp only [mk64, Num.truncInt, Bool.false_eq_true, if_false, hd, wrapU]
    simp
    constructor
    · omega
    · omega
  · simp only [if_true] at hhi
    simp only [mk64, Num.truncInt, if_true, hd, wrapU]
    simp
    constructor
    · exact wrapS_id 32 hi (by simp) (by simp; omega)
    · omega

theorem roundtrip64_exact (signed : Bool) (hi : Int) (lo : Nat) (hlo : lo < 4294967296)
    (hhi : if signed then -2147483648 ≤ hi ∧ hi ≤ 2147483647 else 0 ≤ hi ∧ hi ≤ 4294967295)
    (hex : roundInt (hi * 4294967296 + (lo : Int)) = hi * 4294967296 + (lo : Int)) :
    (externalize (if signed then .i64 else .u64) (.i64 hi lo)).bind (internalize (if signed then .i64 else .u64)) = .ok (.i64 hi lo) := by
  have hb := mk64_back signed hi lo hlo hhi
  cases signed
  · simp only [Bool.false_eq_true, if_false, externalize, flatten64, hex, Except.bind, internalize, guardWrapper, intern64]
    rw [hb]
  · simp only [if_true, externalize, flatten64, hex, Except.bind, internalize, guardWrapper, intern64]
    rw [hb]

/-! ### scalars -/

theorem roundtrip_scalar (τ : Ty) (v : GoVal) (h : RTScalar τ v) :
    ∃ j, externalize τ v = .ok j ∧ internalize τ j = .ok v := by
  cases τ <;> cases v <;> simp only [RTScalar] at h
  case bool.bool b =>
    refine ⟨.bool b, by simp [externalize], ?_⟩
    simp [internalize, guardWrapper, truthy]
  case int.num k x =>
    cases x <;> simp only [RTScalar] at h
    case int n =>
      refine ⟨.num (.int n), by simp [externalize], ?_⟩
      have := inRange_small k n h
      simp [internalize, guardWrapper, parseIntJs, parseIntNum, this, fixInt_id k n h, bind, Except.bind]
  case i64.i64 hi lo =>
    obtain ⟨h1, h2, h3, h4⟩ := h
    have hex := roundInt_small _ h3 h4
    have := roundtrip64_exact true hi lo h1 (by simpa using h2) hex
    simp only [if_true] at this
    refine ⟨.num (.int (hi * 4294967296 + (lo : Int))), by simp [externalize, flatten64, hex], ?_⟩
    simpa [externalize, flatten64, hex, Except.bind] using this
  case u64.i64 hi lo =>
    obtain ⟨h1, h2, h3, h4⟩ := h
    have hex := roundInt_small _ h3 h4
    have := roundtrip64_exact false hi lo h1 (by simpa using h2) hex
    simp only [Bool.false_eq_true, if_false] at this
    refine ⟨.num (.int (hi * 4294967296 + (lo : Int))), by simp [externalize, flatten64, hex], ?_⟩
    simpa [externalize, flatten64, hex, Except.bind] using this
  case f32.num x =>
    refine ⟨.num x, by simp [externalize], ?_⟩
    cases x <;> simp_all [internalize, guardWrapper, parseFloatJs, parseFloatNum, bind, Except.bind]
  case f64.num x =>
    refine ⟨.num x, by simp [externalize], ?_⟩
    cases x <;> simp_all [internalize, guardWrapper, parseFloatJs, parseFloatNum, bind, Except.bind]
  case str.str s =>
    refine ⟨.str (externalizeString s), by simp [externalize], ?_⟩
    obtain ⟨rs, hs, rfl⟩ := h
    simp [internalize, guardWrapper, toStringJs, bind, Except.bind,
      GV.Proofs.Utf16.externalize_valid rs hs, GV.Proofs.Utf16.internalize_valid rs hs]

/-! ### the wrapper cache -/

theorem lookup_after (c : WrapCache) (f : Nat) : (externalizeFunction c f).1.lookup f = some (externalizeFunction c f).2 := by
  unfold externalizeFunction
  cases h : c.lookup f with
  | some w => simp [h]
  | none => simp [WrapCache.lookup, List.find?]

theorem lookup_preserved (c : WrapCache) (g f w : Nat) (h : c.lookup f = some w) :
    (externalizeFunction c g).1.lookup f = some w := by
  unfold externalizeFunction
  cases hg : c.lookup g with
  | some w' => simpa using h
  | none =>
    have hne : g ≠ f := by
      intro e; subst e; rw [hg] at h; cases h
    simp only [WrapCache.lookup, List.find?] at h ⊢
    have : (g == f) = false := by simpa using hne
    simp only [this]
    exact h

theorem history_of_lookup (h : List Nat) : ∀ (c : WrapCache) (f w0 w : Nat), c.lookup f = some w0 →
    (f, w) ∈ runHistory c h → w = w0 := by
  induction h with
  | nil => intro c f w0 w _ hm; simp [runHistory] at hm
  | cons g gs ih =>
    intro c f w0 w hl hm
    simp only [runHistory, List.mem_cons, Prod.mk.injEq] at hm
    rcases hm with ⟨rfl, rfl⟩ | hm
    · have := lookup_after c f
      unfold externalizeFunction at this ⊢
      rw [hl] at this ⊢
    · exact ih _ f w0 w (lookup_preserved c g f w0 hl) hm

theorem wrapper_stable (c : WrapCache) (h : List Nat) (f w1 w2 : Nat)
    (h1 : (f, w1) ∈ runHistory c h) (h2 : (f, w2) ∈ runHistory c h) : w1 = w2 := by
  induction h generalizing c with
  | nil => simp [runHistory] at h1
  | cons g gs ih =>
    simp only [runHistory, List.mem_cons, Prod.mk.injEq] at h1 h2
    rcases h1 with ⟨rfl, rfl⟩ | h1 <;> rcases h2 with ⟨e, rfl⟩ | h2
    · rfl
    · exact (history_of_lookup gs _ f _ w2 (lookup_after c f) h2).symm
    · subst e
      exact history_of_lookup gs _ f _ w1 (lookup_after c f) h1
    · exact ih _ h1 h2

/-- cache invariant: stored wrapper ids are below `next`, and a wrapper id determines its function -/
def CacheOk (c : WrapCache) : Prop :=
  (∀ p ∈ c.entries, p.2 < c.next) ∧ (∀ p ∈ c.entries, ∀ q ∈ c.entries, p.2 = q.2 → p.1 = q.1)

theorem lookup_mem (c : WrapCache) (f w : Nat) (h : c.lookup f = some w) : (f, w) ∈ c.entries := by
  unfold WrapCache.lookup at h
  simp only [Option.map_eq_some_iff] at h
  obtain ⟨p, hp, rfl⟩ := h
  have hm := List.mem_of_find?_eq_some hp
  have := List.find?_some hp
  simp at this
  subst this
  exact hm

theorem cacheOk_step (c : WrapCache) (g : Nat) (h : CacheOk c) : CacheOk (externalizeFunction c g).1 := by
  unfold externalizeFunction
  cases hg : c.lookup g with
  | some w => simpa using h
  | none =>
    obtain ⟨h1, h2⟩ := h
    constructor
    · intro p hp
      simp only [List.mem_cons] at hp
      rcases hp with rfl | hp
      · simp
      · have := h1 p hp; simp; omega
    · intro p hp q hq e
      simp only [List.mem_cons] at hp hq
      rcases hp with rfl | hp <;> rcases hq with rfl | hq
      · rfl
      · have := h1 q hq; simp at e; omega
      · have := h1 p hp; simp at e; omega
      · exact h2 p hp q hq e

theorem result_mem (c : WrapCache) (g : Nat) : (g, (externalizeFunction c g).2) ∈ (externalizeFunction c g).1.entries :=
  lookup_mem _ _ _ (lookup_after c g)

theorem entries_mono (c : WrapCache) (g : Nat) (p : Nat × Nat) (h : p ∈ c.entries) : p ∈ (externalizeFunction c g).1.entries := by
  unfold externalizeFunction
  cases c.lookup g <;> simp [h]

/-- every pair handed out along a history is, at the end of the history, in a cache that satisfies the invariant -/
theorem history_sound (h : List Nat) : ∀ (c : WrapCache), CacheOk c →
    ∃ c', CacheOk c' ∧ (∀ p ∈ c.entries, p ∈ c'.entries) ∧ ∀ p ∈ runHistory c h, p ∈ c'.entries := by
  induction h with
  | nil => intro c hc; exact ⟨c, hc, fun _ hp => hp, by simp [runHistory]⟩
  | cons g gs ih =>
    intro c hc
    obtain ⟨c', hc', hmono, hall⟩ := ih _ (cacheOk_step c g hc)
    refine ⟨c', hc', fun p hp => hmono p (entries_mono c g p hp), ?_⟩
    intro p hp
    simp only [runHistory, List.mem_cons] at hp
    rcases hp with rfl | hp
    · exact hmono _ (result_mem c g)
    · exact hall p hp

theorem wrapper_injective (h : List Nat) (f1 f2 w : Nat)
    (h1 : (f1, w) ∈ runHistory WrapCache.empty h) (h2 : (f2, w) ∈ runHistory WrapCache.empty h) : f1 = f2 := by
  obtain ⟨c', ⟨_, hinj⟩, _, hall⟩ := history_sound h WrapCache.empty (by simp [CacheOk, WrapCache.empty])
  exact hinj _ (hall _ h1) _ (hall _ h2) rfl

/-! ### the documented table -/

theorem documented_table_back (j : JsVal) (g : GoVal) (τ : Ty)
    (hdoc : docBack (classOf j) = some τ) (hw : ∀ id, j ≠ .wrapper id) (hi : internIface j = .ok g) :
    ∃ w, g = .iface τ w := by
  cases j with
  | undef => simp [classOf, docBack] at hdoc
  | null => simp [classOf, docBack] at hdoc
  | wrapper id => exact absurd rfl (hw id)
  | bool b => simp [classOf, docBack] at hdoc; simp [internIface] at hi; subst hdoc; exact ⟨_, hi.symm⟩
  | num x => simp [classOf, docBack] at hdoc; simp [internIface] at hi; subst hdoc; exact ⟨_, hi.symm⟩
  | str u => simp [classOf, docBack] at hdoc; simp [internIface] at hi; subst hdoc; exact ⟨_, hi.symm⟩
  | jsfun id => simp [classOf, docBack] at hdoc; simp [internIface] at hi; subst hdoc; exact ⟨_, hi.symm⟩
  | gofun id => simp [classOf, docBack] at hdoc; simp [internIface] at hi; subst hdoc; exact ⟨_, hi.symm⟩
  | typed c xs =>
    cases c <;> simp [classOf, docBack] at hdoc <;> simp [internIface, tyOfTA] at hi <;> subst hdoc <;> exact ⟨_, hi.symm⟩
  | arr es =>
    simp [classOf, docBack] at hdoc
    simp only [internIface, bind, Except.bind] at hi
    cases hl : internIfaceList es with
    | error e => rw [hl] at hi; cases hi
    | ok gs => rw [hl] at hi; simp at hi; subst hdoc; exact ⟨_, hi.symm⟩
  | obj ks vs =>
    simp [classOf, docBack] at hdoc
    simp only [internIface, bind, Except.bind] at hi
    cases hl : internIfaceList vs with
    | error e => rw [hl] at hi; cases hi
    | ok gs => rw [hl] at hi; simp at hi; subst hdoc; exact ⟨_, hi.symm⟩

theorem needsExt_doc (e : Ty) (h : needsExt e = true) : docElemClass e = none ∧ nativeTA e = none := by
  cases e <;> simp_all [needsExt, docElemClass, nativeTA]

theorem nativeView_class (e : Ty) (es : List GoVal) (j : JsVal) (hn : needsExt e = false) (hu : e ≠ .int .uptr)
    (h : nativeView e es = .ok j) : classOf j = sliceClass e := by
  cases e <;> simp [needsExt] at hn
  case bool =>
    simp only [nativeView, nativeTA, bind, Except.bind] at h
    split at h
    · cases h
    · cases h; simp [classOf, sliceClass, docElemClass]
  case jsobj =>
    simp only [nativeView, nativeTA, bind, Except.bind] at h
    split at h
    · cases h
    · cases h; simp [classOf, sliceClass, docElemClass]
  case f32 =>
    simp only [nativeView, nativeTA, bind, Except.bind] at h
    split at h
    · cases h
    · cases h; simp [classOf, sliceClass, docElemClass]
  case f64 =>
    simp only [nativeView, nativeTA, bind, Except.bind] at h
    split at h
    · cases h
    · cases h; simp [classOf, sliceClass, docElemClass]
  case int k =>
    cases k <;> simp only [nativeView, nativeTA, bind, Except.bind] at h <;> first
      | exact absurd rfl hu
      | (split at h
         · cases h
         · cases h; simp [classOf, sliceClass, docElemClass])

theorem seq_class (e : Ty) (es : List GoVal) (j : JsVal) (hu : e ≠ .int .uptr)
    (h : (if needsExt e = true then (do let js ← extList e es; Except.ok (JsVal.arr js)) else nativeView e es) = .ok j) :
    classOf j = sliceClass e := by
  by_cases hn : needsExt e = true
  · rw [if_pos hn] at h
    simp only [bind, Except.bind] at h
    split at h
    · cases h
    · cases h
      simp [classOf, sliceClass, (needsExt_doc e hn).1]
  · rw [if_neg hn] at h
    exact nativeView_class e es j (by simpa using hn) hu h

theorem documented_table_ext (τ : Ty) (v : GoVal) (j : JsVal) (c : JsClass)
    (hdoc : docJsClass τ = some c) (hx : externalize τ v = .ok j) (hnn : j ≠ .null) (hs : searchJs τ v = none) :
    classOf j = c := by
  cases τ with
  | bool => cases v <;> simp [externalize] at hx; subst hx; simp [docJsClass] at hdoc; subst hdoc; rfl
  | int k => cases v <;> simp [externalize] at hx; subst hx; simp [docJsClass] at hdoc; subst hdoc; rfl
  | f32 => cases v <;> simp [externalize] at hx; subst hx; simp [docJsClass] at hdoc; subst hdoc; rfl
  | f64 => cases v <;> simp [externalize] at hx; subst hx; simp [docJsClass] at hdoc; subst hdoc; rfl
  | i64 => cases v <;> simp [externalize] at hx; subst hx; simp [docJsClass] at hdoc; subst hdoc; rfl
  | u64 => cases v <;> simp [externalize] at hx; subst hx; simp [docJsClass] at hdoc; subst hdoc; rfl
  | str => cases v <;> simp [externalize] at hx; subst hx; simp [docJsClass] at hdoc; subst hdoc; rfl
  | ptr e => simp [docJsClass] at hdoc
  | iface => simp [docJsClass] at hdoc
  | jsobj => simp [docJsClass] at hdoc
  | func ps rs va =>
    simp [docJsClass] at hdoc; subst hdoc
    cases v <;> simp [externalize] at hx
    · exact absurd hx.symm hnn
    · subst hx; rfl
  | map e =>
    simp [docJsClass] at hdoc; subst hdoc
    cases v <;> simp only [externalize, bind, Except.bind] at hx <;> try cases hx
    · exact absurd rfl hnn
    · split at hx
      · cases hx
      · cases hx; rfl
  | struct flds tys =>
    simp [docJsClass] at hdoc; subst hdoc
    cases v <;> simp only [externalize, bind, Except.bind] at hx <;> try cases hx
    rw [hs] at hx
    simp only at hx
    split at hx
    · cases hx
    · cases hx; rfl
  | slice e =>
    have hu : e ≠ .int .uptr := by
      intro he; subst he; simp [docJsClass] at hdoc
    have hd : c = sliceClass e := by
      cases e <;> simp_all [docJsClass]
    subst hd
    cases v <;> simp only [externalize] at hx <;> try cases hx
    · exact absurd rfl hnn
    · exact seq_class e _ j hu hx
  | arr n e =>
    have hu : e ≠ .int .uptr := by
      intro he; subst he; simp [docJsClass] at hdoc
    have hd : c = sliceClass e := by
      cases e <;> simp_all [docJsClass]
    subst hd
    cases v <;> simp only [externalize] at hx <;> try cases hx
    exact seq_class e _ j hu hx

end GV.Proofs.JsConv
