/-
  GV.Proofs.SliceAppendSlice — `$appendSlice(s, t)` (`append(s, t...)`) against the Go specification, including a
  source window that lies in the SAME backing array and overlaps the cells being written.
-/
import GV.Proofs.SliceAppend

namespace GV.Slice
open GV.Spec.Slice

theorem appendSlice_inplace {α} (k : Kind) (zero : α) (A : Arrays α) (s t : Hdr)
    (hwf : s.wf A) (htw : t.wf A) (hn : t.len ≠ 0) (hfit : ¬ s.len + t.len > s.cap) :
    appendSlice k zero A s t =
      { arrays := A.set s.arr (moveCells (getArr A s.arr) (getArr A t.arr) (s.off + s.len) t.off t.len),
        hdr := { arr := s.arr, off := s.off, len := s.len + t.len, cap := s.cap, isNil := false },
        reusedElemObjects := false } := by
  obtain ⟨h1, h2⟩ := hwf
  obtain ⟨h3, h4⟩ := htw
  unfold appendSlice internalAppend growSlice
  rw [if_neg hn]
  simp only [if_neg hfit]
  have hsame : (t.arr == s.arr) = true → getArr A t.arr = getArr A s.arr := by
    intro h
    have he : t.arr = s.arr := by simpa using h
    rw [he]
  rw [copyArray_spec _ _ _ _ _ _ _ _ hsame (by omega) (by omega)]

theorem appendSlice_realloc {α} (k : Kind) (zero : α) (A : Arrays α) (s t : Hdr)
    (hwf : s.wf A) (htw : t.wf A) (htarr : t.arr < A.length) (hbig : s.len + t.len > s.cap) :
    appendSlice k zero A s t =
      { arrays := (A ++ [view A s ++ List.replicate (calculateNewCapacity (s.len + t.len) s.cap - s.len) zero]).set A.length
            (moveCells (view A s ++ List.replicate (calculateNewCapacity (s.len + t.len) s.cap - s.len) zero)
              (getArr A t.arr) s.len t.off t.len),
        hdr := { arr := A.length, off := 0, len := s.len + t.len,
                 cap := calculateNewCapacity (s.len + t.len) s.cap, isNil := false },
        reusedElemObjects := false } := by
  obtain ⟨h1, h2⟩ := hwf
  obtain ⟨h3, h4⟩ := htw
  have hn : t.len ≠ 0 := by omega
  have hcap := calculateNewCapacity_ge (s.len + t.len) s.cap
  unfold appendSlice internalAppend growSlice
  rw [if_neg hn]
  simp only [if_pos hbig, getArr_append_new, getArr_append_left _ _ _ htarr, view, Nat.zero_add]
  have hl : (List.take s.len (List.drop s.off (getArr A s.arr))).length = s.len := by
    simp only [List.length_take, List.length_drop]; omega
  have hsame : (t.arr == A.length) = true → getArr A t.arr =
      List.take s.len (List.drop s.off (getArr A s.arr)) ++
        List.replicate (calculateNewCapacity (s.len + t.len) s.cap - s.len) zero := by
    intro h
    have he : t.arr = A.length := by simpa using h
    omega
  rw [copyArray_spec _ _ _ _ _ _ _ _ hsame
    (by simp only [List.length_append, List.length_replicate, hl]; omega) (by omega)]

/-- **append(s, t...)**: the result holds the elements of `s` followed by the ORIGINAL elements of `t` — also when `t`
    is a window of the same backing array overlapping the written cells (either direction); reallocation iff
    `len(s) + len(t) > cap(s)`; within capacity only cells `[len, len+n)` behind `s` are written; beyond capacity no
    existing array is written. -/
theorem appendSlice_spec' {α} (k : Kind) (zero : α) (A : Arrays α) (s t : Hdr)
    (hwf : s.wf A) (htw : t.wf A) (harr : s.arr < A.length) (htarr : t.arr < A.length) :
    view (appendSlice k zero A s t).arrays (appendSlice k zero A s t).hdr = view A s ++ view A t ∧
    (appendSlice k zero A s t).hdr.len = s.len + t.len ∧
    (appendSlice k zero A s t).hdr.wf (appendSlice k zero A s t).arrays ∧
    (((appendSlice k zero A s t).hdr.arr ≠ s.arr) ↔ (t.len ≠ 0 ∧ mustReallocate s.len s.cap t.len)) ∧
    ((appendSlice k zero A s t).hdr.arr = s.arr →
        (appendSlice k zero A s t).hdr.off = s.off ∧ (appendSlice k zero A s t).hdr.cap = s.cap ∧
        getArr (appendSlice k zero A s t).arrays s.arr
          = moveCells (getArr A s.arr) (getArr A t.arr) (s.off + s.len) t.off t.len ∧
        ∀ id, id ≠ s.arr → getArr (appendSlice k zero A s t).arrays id = getArr A id) ∧
    ((appendSlice k zero A s t).hdr.arr ≠ s.arr →
        ∀ id, id < A.length → getArr (appendSlice k zero A s t).arrays id = getArr A id) := by
  have hwf' := hwf
  have htw' := htw
  obtain ⟨h1, h2⟩ := hwf
  obtain ⟨h3, h4⟩ := htw
  have hvt : view A t = List.take t.len (List.drop t.off (getArr A t.arr)) := rfl
  by_cases hn : t.len = 0
  · have he : appendSlice k zero A s t = { arrays := A, hdr := s, reusedElemObjects := false } := by
      simp [appendSlice, internalAppend, hn]
    rw [he]
    have hvt0 : view A t = [] := by rw [hvt, hn]; rfl
    refine ⟨by simp [hvt0], by simp [hn], hwf', ?_, ?_, ?_⟩
    · simp [hn]
    · intro _
      refine ⟨rfl, rfl, ?_, fun _ _ => rfl⟩
      rw [moveCells_eq_seg, hn, seg_empty]
    · intro h; exact absurd rfl h
  · by_cases hbig : s.len + t.len > s.cap
    · rw [appendSlice_realloc k zero A s t hwf' htw' htarr hbig]
      have hcap := calculateNewCapacity_ge (s.len + t.len) s.cap
      have hvl : (view A s).length = s.len := by
        simp only [view, List.length_take, List.length_drop]; omega
      have hne : A.length ≠ s.arr := by omega
      dsimp only
      refine ⟨?_, rfl, ?_, ?_, ?_, ?_⟩
      · have hm := view_moveCells (view A s ++ List.replicate (calculateNewCapacity (s.len + t.len) s.cap - s.len) zero)
          (getArr A t.arr) 0 s.len t.off t.len
          (by simp only [List.length_append, List.length_replicate, hvl]; omega) (by omega)
        simp only [Nat.zero_add, List.drop_zero] at hm
        rw [List.take_left' hvl] at hm
        rw [hvt, ← hm]
        simp only [view]
        rw [getArr_set_same _ _ _ (by simp), List.drop_zero]
      · constructor
        · dsimp only; omega
        · dsimp only
          rw [getArr_set_same _ _ _ (by simp), moveCells_eq_seg,
            seg_length _ _ _ _ _ _ (Nat.zero_le _)
              (by simp only [List.length_append, List.length_replicate, hvl]; omega) (by omega)]
          simp only [List.length_append, List.length_replicate, hvl]; omega
      · constructor
        · intro _; exact ⟨hn, hbig⟩
        · intro _; exact hne
      · intro h; exact absurd h hne
      · intro _ id hid
        rw [getArr_set_other _ _ _ _ (by omega), getArr_append_left _ _ _ hid]
    · rw [appendSlice_inplace k zero A s t hwf' htw' hn hbig]
      dsimp only
      refine ⟨?_, rfl, ?_, ?_, ?_, ?_⟩
      · unfold view
        dsimp only
        rw [getArr_set_same _ _ _ harr]
        exact view_moveCells (getArr A s.arr) (getArr A t.arr) s.off s.len t.off t.len (by omega) (by omega)
      · constructor
        · dsimp only; omega
        · dsimp only
          rw [getArr_set_same _ _ _ harr, moveCells_eq_seg,
            seg_length _ _ _ _ _ _ (Nat.zero_le _) (by omega) (by omega)]
          exact h2
      · constructor
        · intro h; exact absurd rfl h
        · intro h; exact absurd h.2 hbig
      · intro _
        exact ⟨rfl, rfl, getArr_set_same _ _ _ harr, fun id hid => getArr_set_other _ _ _ _ hid⟩
      · intro h; exact absurd rfl h

end GV.Slice
