/-
  GV.Proofs.MapKeyInj — `keyFor a = keyFor b ↔ a == b` by induction on the key value, under the explicit
  hypotheses that exclude the three recorded defects.
-/
import GV.Proofs.MapKeyStr

namespace GV.Proofs.MapKeyInj
open GV.MapKey GV.Spec.MapKey GV.Proofs.MapKeyStr

/-! ### state invariant and order -/

/-- every assigned `$id` is at most `$idCounter`, and no two objects share an `$id` -/
def Inv (s : KSt) : Prop :=
  (∀ o i, s.ids.lookup o = some i → i ≤ s.ctr) ∧
  (∀ o o' i, s.ids.lookup o = some i → s.ids.lookup o' = some i → o = o')

/-- `t` is a later state than `s`: the counter only grows, assigned ids stay -/
def Le (s t : KSt) : Prop :=
  s.ctr ≤ t.ctr ∧ ∀ o i, s.ids.lookup o = some i → t.ids.lookup o = some i

theorem Le.refl (s : KSt) : Le s s := ⟨Nat.le_refl _, fun _ _ h => h⟩
theorem Le.trans {s t u : KSt} (h1 : Le s t) (h2 : Le t u) : Le s u :=
  ⟨Nat.le_trans h1.1 h2.1, fun o i h => h2.2 o i (h1.2 o i h)⟩

theorem inv_init : Inv KSt.init := by
  constructor <;> intro o <;> simp [KSt.init, List.lookup]

theorem lookup_new (o o' : Nat) (n : Nat) (ids : List (Nat × Nat)) :
    List.lookup o' ((o, n) :: ids) = if o' = o then some n else List.lookup o' ids := by
  simp only [List.lookup_cons]
  by_cases h : o' = o
  · simp [h]
  · simp [h]

theorem idKey_mono (o : Nat) (s : KSt) (h : Inv s) : Inv (idKey o s).2 ∧ Le s (idKey o s).2 := by
  unfold idKey
  cases hl : s.ids.lookup o with
  | some i => exact ⟨h, Le.refl s⟩
  | none =>
    refine ⟨⟨?_, ?_⟩, ?_, ?_⟩
    · intro o' i hi
      simp only [lookup_new] at hi
      by_cases e : o' = o
      · simp [e] at hi; omega
      · simp [e] at hi; have := h.1 o' i hi; simp; omega
    · intro o1 o2 i h1 h2
      simp only [lookup_new] at h1 h2
      by_cases e1 : o1 = o <;> by_cases e2 : o2 = o
      · rw [e1, e2]
      · simp [e1] at h1; simp [e2] at h2; have := h.1 o2 i h2; omega
      · simp [e1] at h1; simp [e2] at h2; have := h.1 o1 i h1; omega
      · simp [e1] at h1; simp [e2] at h2; exact h.2 o1 o2 i h1 h2
    · simp
    · intro o' i hi
      simp only [lookup_new]
      by_cases e : o' = o
      · rw [e, hl] at hi; cases hi
      · simp [e, hi]

theorem floatKey_mono (f : Flt) (s : KSt) (h : Inv s) : Inv (floatKey f s).2 ∧ Le s (floatKey f s).2 := by
  cases f <;> simp only [floatKey]
  · exact ⟨⟨fun o i hi => Nat.le_succ_of_le (h.1 o i hi), h.2⟩, Nat.le_succ _, fun _ _ hh => hh⟩
  all_goals exact ⟨h, Le.refl s⟩

mutual
theorem keyFor_mono (reg : Nat → Str) : ∀ (v : KVal) (s : KSt), Inv s → Inv (keyFor reg v s).2 ∧ Le s (keyFor reg v s).2
  | .bool _, s, h => by simp only [keyFor]; exact ⟨h, Le.refl s⟩
  | .int _, s, h => by simp only [keyFor]; exact ⟨h, Le.refl s⟩
  | .i64 _ _, s, h => by simp only [keyFor]; exact ⟨h, Le.refl s⟩
  | .float f, s, h => by simp only [keyFor]; exact floatKey_mono f s h
  | .complex _ _, s, h => by simp only [keyFor]; exact ⟨h, Le.refl s⟩
  | .str _, s, h => by simp only [keyFor]; exact ⟨h, Le.refl s⟩
  | .ref o, s, h => by simp only [keyFor]; exact idKey_mono o s h
  | .ifaceNil, s, h => by simp only [keyFor]; exact ⟨h, Le.refl s⟩
  | .iface _ v, s, h => by simp only [keyFor]; exact keyFor_mono reg v s h
  | .tuple a es, s, h => by simp only [keyFor]; exact keysFor_mono reg a es s h
theorem keysFor_mono (reg : Nat → Str) (a : Bool) : ∀ (es : KVals) (s : KSt), Inv s →
    Inv (keysFor reg a es s).2 ∧ Le s (keysFor reg a es s).2
  | .nil, s, h => by simp only [keysFor]; exact ⟨h, Le.refl s⟩
  | .cons x t, s, h => by
    simp only [keysFor]
    have h1 := keyFor_mono reg x s h
    have h2 := keysFor_mono reg a t _ h1.1
    exact ⟨h2.1, Le.trans h1.2 h2.2⟩
end

end GV.Proofs.MapKeyInj
