/-
  GV.Proofs.MapKeyInj — `keyFor a = keyFor b ↔ a == b` by induction on the key value, under the explicit
  hypotheses that exclude the three recorded defects.
-/
import GV.Proofs.MapKeyStr

namespace GV.Proofs.MapKeyInj
open GV.MapKey GV.Spec.MapKey GV.Proofs.MapKeyStr

/-! ### state invariant and order -/

/-- every assigned `$id` is at most `$idCounter`, and no two objects share an `$id` -/
def Inv (s : KSt) : Prop :=
  (∀ o i, s.ids.lookup o = some i → i ≤ s.ctr) ∧
  (∀ o o' i, s.ids.lookup o = some i → s.ids.lookup o' = some i → o = o')

/-- `t` is a later state than `s`: the counter only grows, assigned ids stay -/
def Le (s t : KSt) : Prop :=
  s.ctr ≤ t.ctr ∧ ∀ o i, s.ids.lookup o = some i → t.ids.lookup o = some i

theorem Le.refl (s : KSt) : Le s s := ⟨Nat.le_refl _, fun _ _ h => h⟩
theorem Le.trans {s t u : KSt} (h1 : Le s t) (h2 : Le t u) : Le s u :=
  ⟨Nat.le_trans h1.1 h2.1, fun o i h => h2.2 o i (h1.2 o i h)⟩

theorem inv_init : Inv KSt.init := by
  constructor <;> intro o <;> simp [KSt.init, List.lookup]

theorem lookup_new (o o' : Nat) (n : Nat) (ids : List (Nat × Nat)) :
    List.lookup o' ((o, n) :: ids) = if o' = o then some n else List.lookup o' ids := by
  simp only [List.lookup_cons]
  by_cases h : o' = o
  · simp [h]
  · have : (o' == o) = false := by simp [h]
    simp [this, h]

theorem idKey_mono (o : Nat) (s : KSt) (h : Inv s) : Inv (idKey o s).2 ∧ Le s (idKey o s).2 := by
  cases hl : s.ids.lookup o with
  | some i => simp only [idKey, hl]; exact ⟨h, Le.refl s⟩
  | none =>
    simp only [idKey, hl]
    refine ⟨⟨?_, ?_⟩, ?_, ?_⟩
    · intro o' i hi
      simp only [lookup_new] at hi
      by_cases e : o' = o
      · simp [e] at hi; show i ≤ s.ctr + 1; omega
      · simp [e] at hi; have := h.1 o' i hi; show i ≤ s.ctr + 1; omega
    · intro o1 o2 i h1 h2
      simp only [lookup_new] at h1 h2
      by_cases e1 : o1 = o <;> by_cases e2 : o2 = o
      · rw [e1, e2]
      · simp [e1] at h1; simp [e2] at h2; have := h.1 o2 i h2; omega
      · simp [e1] at h1; simp [e2] at h2; have := h.1 o1 i h1; omega
      · simp [e1] at h1; simp [e2] at h2; exact h.2 o1 o2 i h1 h2
    · simp
    · intro o' i hi
      simp only [lookup_new]
      by_cases e : o' = o
      · rw [e, hl] at hi; cases hi
      · simp [e, hi]

theorem floatKey_mono (fs : Int → Str) (f : Flt) (s : KSt) (h : Inv s) : Inv (floatKey fs f s).2 ∧ Le s (floatKey fs f s).2 := by
  cases f <;> simp only [floatKey]
  · exact ⟨⟨fun o i hi => Nat.le_succ_of_le (h.1 o i hi), h.2⟩, Nat.le_succ _, fun _ _ hh => hh⟩
  all_goals exact ⟨h, Le.refl s⟩

mutual
theorem keyFor_mono (fs : Int → Str) : ∀ (v : KVal) (s : KSt), Inv s → Inv (keyFor fs v s).2 ∧ Le s (keyFor fs v s).2
  | .bool _, s, h => by simp only [keyFor]; exact ⟨h, Le.refl s⟩
  | .int _, s, h => by simp only [keyFor]; exact ⟨h, Le.refl s⟩
  | .i64 _ _, s, h => by simp only [keyFor]; exact ⟨h, Le.refl s⟩
  | .float f, s, h => by simp only [keyFor]; exact floatKey_mono fs f s h
  | .complex re im, s, h => by
    simp only [keyFor]
    have h1 := floatKey_mono fs re s h
    have h2 := floatKey_mono fs im _ h1.1
    exact ⟨h2.1, Le.trans h1.2 h2.2⟩
  | .str _, s, h => by simp only [keyFor]; exact ⟨h, Le.refl s⟩
  | .ref o, s, h => by simp only [keyFor]; exact idKey_mono o s h
  | .ifaceNil, s, h => by simp only [keyFor]; exact ⟨h, Le.refl s⟩
  | .iface _ v, s, h => by simp only [keyFor]; exact keyFor_mono fs v s h
  | .tuple _ es, s, h => by simp only [keyFor]; exact keysFor_mono fs es s h
theorem keysFor_mono (fs : Int → Str) : ∀ (es : KVals) (s : KSt), Inv s →
    Inv (keysFor fs es s).2 ∧ Le s (keysFor fs es s).2
  | .nil, s, h => by simp only [keysFor]; exact ⟨h, Le.refl s⟩
  | .cons x t, s, h => by
    simp only [keysFor]
    have h1 := keyFor_mono fs x s h
    have h2 := keysFor_mono fs t _ h1.1
    exact ⟨h2.1, Le.trans h1.2 h2.2⟩
end

/-! ### typing of pairs -/

def notNaN : Flt → Bool
  | .nan => false
  | _ => true

/-- `a` and `b` are values of one static type -/
def ST (shape : Nat → KType) (a b : KVal) : Prop := ∃ τ, wt shape τ a = true ∧ wt shape τ b = true

def STs (shape : Nat → KType) : KVals → KVals → Prop
  | .nil, .nil => True
  | .cons a as, .cons b bs => ST shape a b ∧ STs shape as bs
  | _, _ => False

theorem wtAll_STs (shape : Nat → KType) (τ : KType) : ∀ (as bs : KVals), wtAll shape τ as = true → wtAll shape τ bs = true →
    as.length = bs.length → STs shape as bs
  | .nil, .nil, _, _, _ => trivial
  | .nil, .cons _ _, _, _, h => by simp [KVals.length] at h
  | .cons _ _, .nil, _, _, h => by simp [KVals.length] at h
  | .cons a as, .cons b bs, h1, h2, h => by
    simp only [wtAll, Bool.and_eq_true] at h1 h2
    simp only [KVals.length, Nat.add_right_cancel_iff] at h
    exact ⟨⟨τ, h1.1, h2.1⟩, wtAll_STs shape τ as bs h1.2 h2.2 h⟩

theorem wtEach_STs (shape : Nat → KType) : ∀ (ts : KTypes) (as bs : KVals), wtEach shape ts as = true → wtEach shape ts bs = true →
    STs shape as bs
  | .nil, .nil, .nil, _, _ => trivial
  | .nil, .nil, .cons _ _, _, h => by simp [wtEach] at h
  | .nil, .cons _ _, _, h, _ => by simp [wtEach] at h
  | .cons _ _, .nil, _, h, _ => by simp [wtEach] at h
  | .cons _ _, .cons _ _, .nil, _, h => by simp [wtEach] at h
  | .cons τ ts, .cons a as, .cons b bs, h1, h2 => by
    simp only [wtEach, Bool.and_eq_true] at h1 h2
    exact ⟨⟨τ, h1.1, h2.1⟩, wtEach_STs shape ts as bs h1.2 h2.2⟩

theorem STs_length (shape : Nat → KType) : ∀ (as bs : KVals), STs shape as bs → as.length = bs.length
  | .nil, .nil, _ => rfl
  | .nil, .cons _ _, h => by simp [STs] at h
  | .cons _ _, .nil, h => by simp [STs] at h
  | .cons _ as, .cons _ bs, h => by
    simp only [STs] at h
    simp [KVals.length, STs_length shape as bs h.2]

/-! ### the string form of a key and of the components of a composite key -/

/-- `String(keyFor(v))` -/
def kstr (fs : Int → Str) (v : KVal) (s : KSt) : Str := (keyFor fs v s).1.toStr

/-- unescaped component keys, with the state threaded exactly as `keysFor` does -/
def rawKeys (fs : Int → Str) : KVals → KSt → List Str
  | .nil, _ => []
  | .cons h t, s => kstr fs h s :: rawKeys fs t (keyFor fs h s).2

theorem rawKeys_length (fs : Int → Str) : ∀ (es : KVals) (s : KSt), (rawKeys fs es s).length = es.length
  | .nil, _ => rfl
  | .cons _ t, s => by simp [rawKeys, KVals.length, rawKeys_length fs t]

theorem keysFor_raw (fs : Int → Str) : ∀ (es : KVals) (s : KSt),
    (keysFor fs es s).1 = (rawKeys fs es s).map esc
  | .nil, _ => rfl
  | .cons h t, s => by
    simp only [keysFor, rawKeys, List.map, kstr]
    rw [keysFor_raw fs t _]

theorem floatKey_notNaN (fs : Int → Str) (f : Flt) (s : KSt) (h : notNaN f = true) : floatKey fs f s = (numStr fs f, s) := by
  cases f <;> simp [floatKey, notNaN] at h ⊢

theorem notNaN_ne (f : Flt) (h : notNaN f = true) : f ≠ .nan := by
  intro e; rw [e] at h; simp [notNaN] at h

theorem mem_append_dollar (a x : Str) : 36 ∈ a ++ 36 :: x := by simp

theorem sNaN_no_dollar : 36 ∉ sNaN := by decide
theorem sNil_no_dollar : 36 ∉ sNil := by decide

theorem toStr_str (s : Str) : (JKey.str s).toStr = s := rfl

/-- `$floatKey`: two evaluations, the second in a later state, give the same key exactly when Go's `==` holds
    (a NaN gets a fresh number each time) -/
theorem floatKey_inj {fs : Int → Str} (hfs : ToStringOK fs) (f g : Flt) (s1 s2 : KSt) (wf : fwt f = true) (wg : fwt g = true)
    (hle : (floatKey fs f s1).2.ctr ≤ s2.ctr) : (floatKey fs f s1).1 = (floatKey fs g s2).1 ↔ fltEq f g = true := by
  by_cases nf : notNaN f = true <;> by_cases ng : notNaN g = true
  · rw [floatKey_notNaN fs f s1 nf, floatKey_notNaN fs g s2 ng]
    exact numStr_injective hfs f g (notNaN_ne f nf) (notNaN_ne g ng) wf wg
  · have eg : g = .nan := by cases g <;> simp [notNaN] at ng ⊢
    subst eg
    rw [floatKey_notNaN fs f s1 nf]
    simp only [floatKey]
    constructor
    · intro h
      exact absurd (h ▸ mem_append_dollar _ _) (numStr_chars hfs f (notNaN_ne f nf) wf)
    · intro h; cases f <;> simp [fltEq] at h
  · have ef : f = .nan := by cases f <;> simp [notNaN] at nf ⊢
    subst ef
    rw [floatKey_notNaN fs g s2 ng]
    simp only [floatKey]
    constructor
    · intro h
      exact absurd (h ▸ mem_append_dollar _ _) (numStr_chars hfs g (notNaN_ne g ng) wg)
    · intro h; simp [fltEq] at h
  · have ef : f = .nan := by cases f <;> simp [notNaN] at nf ⊢
    have eg : g = .nan := by cases g <;> simp [notNaN] at ng ⊢
    subst ef; subst eg
    simp only [floatKey] at hle ⊢
    constructor
    · intro h
      have := decNat_injective _ _ (List.cons.inj (List.append_cancel_left h)).2
      omega
    · intro h; simp [fltEq] at h

/-- a `$floatKey` result is self-delimiting in front of a `$`: either it has no `$`, or it is `NaN$<digits>` -/
theorem floatKey_split {fs : Int → Str} (hfs : ToStringOK fs) (f g : Flt) (s1 s2 : KSt) (wf : fwt f = true) (wg : fwt g = true)
    (x y : Str) (h : (floatKey fs f s1).1 ++ 36 :: x = (floatKey fs g s2).1 ++ 36 :: y) :
    (floatKey fs f s1).1 = (floatKey fs g s2).1 ∧ x = y := by
  by_cases nf : notNaN f = true <;> by_cases ng : notNaN g = true
  · rw [floatKey_notNaN fs f s1 nf, floatKey_notNaN fs g s2 ng] at h ⊢
    exact split_at_dollar _ _ _ _ (numStr_chars hfs f (notNaN_ne f nf) wf) (numStr_chars hfs g (notNaN_ne g ng) wg) h
  · have eg : g = .nan := by cases g <;> simp [notNaN] at ng ⊢
    subst eg
    rw [floatKey_notNaN fs f s1 nf] at h
    simp only [floatKey, List.append_assoc, List.cons_append] at h
    have := split_at_dollar _ _ _ _ (numStr_chars hfs f (notNaN_ne f nf) wf) sNaN_no_dollar h
    exact absurd this.1 (numStr_ne_NaN hfs f (notNaN_ne f nf) wf)
  · have ef : f = .nan := by cases f <;> simp [notNaN] at nf ⊢
    subst ef
    rw [floatKey_notNaN fs g s2 ng] at h
    simp only [floatKey, List.append_assoc, List.cons_append] at h
    have := split_at_dollar _ _ _ _ sNaN_no_dollar (numStr_chars hfs g (notNaN_ne g ng) wg) h
    exact absurd this.1.symm (numStr_ne_NaN hfs g (notNaN_ne g ng) wg)
  · have ef : f = .nan := by cases f <;> simp [notNaN] at nf ⊢
    have eg : g = .nan := by cases g <;> simp [notNaN] at ng ⊢
    subst ef; subst eg
    simp only [floatKey, List.append_assoc, List.cons_append] at h ⊢
    have h' := (List.cons.inj (List.append_cancel_left h)).2
    have := split_at_dollar _ _ _ _ (no_dollar_decNat _) (no_dollar_decNat _) h'
    exact ⟨by rw [this.1], this.2⟩

/-! ### the induction -/

mutual
theorem inj_val {fs : Int → Str} (hfs : ToStringOK fs) (shape : Nat → KType) :
    ∀ (a b : KVal) (s1 s2 : KSt), ST shape a b → Inv s1 → Inv s2 →
      Le (keyFor fs a s1).2 s2 → (kstr fs a s1 = kstr fs b s2 ↔ goEq a b = true)
  | .bool x, b, s1, s2, hst, i1, i2, hle => by
    obtain ⟨τ, ha, hb⟩ := hst
    cases τ <;> simp [wt] at ha
    cases b <;> simp [wt] at hb
    rename_i y
    cases x <;> cases y <;> simp [kstr, keyFor, JKey.toStr, goEq, sTrue, sFalse]
  | .int x, b, s1, s2, hst, i1, i2, hle => by
    obtain ⟨τ, ha, hb⟩ := hst
    cases τ <;> simp [wt] at ha
    cases b <;> simp [wt] at hb
    rename_i y
    simp only [kstr, keyFor, JKey.toStr, goEq, beq_iff_eq]
    exact ⟨decInt_injective x y, fun h => by rw [h]⟩
  | .i64 h1 l1, b, s1, s2, hst, i1, i2, hle => by
    obtain ⟨τ, ha, hb⟩ := hst
    cases τ <;> simp [wt] at ha
    cases b <;> simp [wt] at hb
    rename_i h2 l2
    simp only [kstr, keyFor, JKey.toStr, goEq, Bool.and_eq_true, beq_iff_eq]
    constructor
    · intro h
      have := split_at_dollar _ _ _ _ (no_dollar_decInt h1) (no_dollar_decInt h2) h
      exact ⟨decInt_injective _ _ this.1, decNat_injective _ _ this.2⟩
    · rintro ⟨e1, e2⟩; rw [e1, e2]
  | .float f, b, s1, s2, hst, i1, i2, hle => by
    obtain ⟨τ, ha, hb⟩ := hst
    cases τ <;> simp [wt] at ha
    cases b <;> simp [wt] at hb
    rename_i g
    simp only [kstr, keyFor, JKey.toStr, goEq]
    simp only [keyFor] at hle
    exact floatKey_inj hfs f g s1 s2 ha hb hle.1
  | .complex r1 m1, b, s1, s2, hst, i1, i2, hle => by
    obtain ⟨τ, ha, hb⟩ := hst
    cases τ <;> simp [wt] at ha
    cases b <;> simp [wt] at hb
    rename_i r2 m2
    simp only [kstr, keyFor, JKey.toStr, goEq, Bool.and_eq_true]
    simp only [keyFor] at hle
    -- states: r1 at s1, m1 after it; r2 at s2, m2 after it; everything on the left is before everything on the right
    have ma := floatKey_mono fs r1 s1 i1
    have mb := floatKey_mono fs m1 _ ma.1
    have mc := floatKey_mono fs r2 s2 i2
    have hre := floatKey_inj hfs r1 r2 s1 s2 ha.1 hb.1 (Nat.le_trans mb.2.1 hle.1)
    have him := floatKey_inj hfs m1 m2 (floatKey fs r1 s1).2 (floatKey fs r2 s2).2 ha.2 hb.2 (Nat.le_trans hle.1 mc.2.1)
    constructor
    · intro h
      have sp := floatKey_split hfs r1 r2 s1 s2 ha.1 hb.1 _ _ h
      exact ⟨hre.mp sp.1, him.mp sp.2⟩
    · rintro ⟨e1, e2⟩
      rw [hre.mpr e1, him.mpr e2]
  | .str x, b, s1, s2, hst, i1, i2, hle => by
    obtain ⟨τ, ha, hb⟩ := hst
    cases τ <;> simp [wt] at ha
    cases b <;> simp [wt] at hb
    rename_i y
    simp [kstr, keyFor, JKey.toStr, goEq]
  | .ref o1, b, s1, s2, hst, i1, i2, hle => by
    obtain ⟨τ, ha, hb⟩ := hst
    cases τ <;> simp [wt] at ha
    cases b <;> simp [wt] at hb
    rename_i o2
    simp only [kstr, keyFor, JKey.toStr, goEq, beq_iff_eq]
    simp only [keyFor] at hle
    -- after the first evaluation `o1` has an id, which the later state keeps
    have key1 : ∃ n, (idKey o1 s1).1 = decNat n ∧ (idKey o1 s1).2.ids.lookup o1 = some n := by
      cases hl : s1.ids.lookup o1 with
      | some n => exact ⟨n, by simp [idKey, hl], by simp [idKey, hl]⟩
      | none => exact ⟨s1.ctr + 1, by simp [idKey, hl], by simp [idKey, hl, lookup_new]⟩
    obtain ⟨n, e1, l1⟩ := key1
    have l2 := hle.2 o1 n l1
    rw [e1]
    cases hl : s2.ids.lookup o2 with
    | some m =>
      simp only [idKey, hl]
      constructor
      · intro h
        have := decNat_injective _ _ h
        subst this
        exact i2.2 o1 o2 n l2 hl
      · intro h; subst h; rw [l2] at hl; cases hl; rfl
    | none =>
      simp only [idKey, hl]
      constructor
      · intro h
        have := decNat_injective _ _ h
        have := i2.1 o1 n l2
        omega
      · intro h; subst h; rw [l2] at hl; cases hl
  | .ifaceNil, b, s1, s2, hst, i1, i2, hle => by
    obtain ⟨τ, ha, hb⟩ := hst
    cases τ <;> simp [wt] at ha
    cases b <;> simp [wt] at hb
    · simp [kstr, keyFor, JKey.toStr, goEq]
    · simp only [kstr, keyFor, JKey.toStr, goEq]
      constructor
      · intro h; exact absurd (h ▸ mem_append_dollar _ _) sNil_no_dollar
      · intro h; cases h
  | .iface t1 v1, b, s1, s2, hst, i1, i2, hle => by
    obtain ⟨τ, ha, hb⟩ := hst
    cases τ <;> simp [wt] at ha
    cases b <;> simp [wt] at hb
    · simp only [kstr, keyFor, JKey.toStr, goEq]
      constructor
      · intro h; exact absurd (h.symm ▸ mem_append_dollar _ _) sNil_no_dollar
      · intro h; cases h
    · rename_i t2 v2
      simp only [keyFor] at hle
      simp only [kstr, keyFor, toStr_str, goEq, Bool.and_eq_true, beq_iff_eq]
      constructor
      · intro h
        have sp := split_at_dollar _ _ _ _ (no_dollar_decNat t1) (no_dollar_decNat t2) h
        have et := decNat_injective _ _ sp.1
        subst et
        exact ⟨rfl, (inj_val hfs shape v1 v2 s1 s2 ⟨_, ha, hb⟩ i1 i2 hle).mp sp.2⟩
      · rintro ⟨et, hv⟩
        subst et
        have := (inj_val hfs shape v1 v2 s1 s2 ⟨_, ha, hb⟩ i1 i2 hle).mpr hv
        simp only [kstr] at this
        rw [this]
  | .tuple ia e1, b, s1, s2, hst, i1, i2, hle => by
    obtain ⟨τ, ha, hb⟩ := hst
    have hs : ∃ ib e2, b = .tuple ib e2 ∧ STs shape e1 e2 := by
      cases τ <;> cases ia <;> simp [wt] at ha
      · cases b <;> try simp [wt] at hb
        rename_i len elem ib e2
        cases ib <;> simp [wt] at hb
        exact ⟨_, _, rfl, wtAll_STs shape _ e1 e2 ha.1 hb.1 (by rw [ha.2, hb.2])⟩
      · cases b <;> try simp [wt] at hb
        rename_i fs' ib e2
        cases ib <;> simp [wt] at hb
        exact ⟨_, _, rfl, wtEach_STs shape _ e1 e2 ha hb⟩
    obtain ⟨ib, e2, rfl, hsts⟩ := hs
    simp only [keyFor] at hle
    simp only [kstr, keyFor, JKey.toStr, goEq]
    rw [keysFor_raw fs e1 s1, keysFor_raw fs e2 s2]
    have ih := inj_vals hfs shape e1 e2 s1 s2 hsts i1 i2 hle
    constructor
    · intro h
      apply ih.mp
      apply join_esc_injective _ _ _ h
      rw [rawKeys_length, rawKeys_length, STs_length shape e1 e2 hsts]
    · intro h; rw [ih.mpr h]
theorem inj_vals {fs : Int → Str} (hfs : ToStringOK fs) (shape : Nat → KType) :
    ∀ (as bs : KVals) (s1 s2 : KSt), STs shape as bs →
      Inv s1 → Inv s2 → Le (keysFor fs as s1).2 s2 → (rawKeys fs as s1 = rawKeys fs bs s2 ↔ goEqs as bs = true)
  | .nil, .nil, _, _, _, _, _, _ => by simp [rawKeys, goEqs]
  | .nil, .cons _ _, _, _, h, _, _, _ => by simp [STs] at h
  | .cons _ _, .nil, _, _, h, _, _, _ => by simp [STs] at h
  | .cons a as, .cons b bs, s1, s2, hst, i1, i2, hle => by
    simp only [STs] at hst
    simp only [keysFor] at hle
    have m1 := keyFor_mono fs a s1 i1
    have m1' := keysFor_mono fs as _ m1.1
    have m2 := keyFor_mono fs b s2 i2
    have hhead := inj_val hfs shape a b s1 s2 hst.1 i1 i2 (Le.trans m1'.2 hle)
    have htail := inj_vals hfs shape as bs _ _ hst.2 m1.1 m2.1 (Le.trans hle m2.2)
    simp only [rawKeys, goEqs, List.cons.injEq, Bool.and_eq_true]
    rw [hhead, htail]
end

theorem key_sort (reg : Int → Str) (shape : Nat → KType) (τ : KType) (v : KVal) (s : KSt) (h : wt shape τ v = true) :
    (τ = .bool ∧ ∃ x, v = .bool x) ∨ (τ = .int ∧ ∃ n, v = .int n) ∨
    (τ ≠ .bool ∧ τ ≠ .int ∧ ∃ x, (keyFor reg v s).1 = .str x) := by
  cases τ <;> cases v <;> (try simp [wt] at h) <;> (try simp [keyFor])

theorem jkey_eq_iff_kstr (reg : Int → Str) (shape : Nat → KType) (a b : KVal) (s1 s2 : KSt) (hst : ST shape a b) :
    (keyFor reg a s1).1 = (keyFor reg b s2).1 ↔ kstr reg a s1 = kstr reg b s2 := by
  obtain ⟨τ, ha, hb⟩ := hst
  rcases key_sort reg shape τ a s1 ha with ⟨e, x, rfl⟩ | ⟨e, x, rfl⟩ | ⟨n1, n2, x, ex⟩
  · rcases key_sort reg shape τ b s2 hb with ⟨_, y, rfl⟩ | ⟨e', _⟩ | ⟨n1, _⟩
    · cases x <;> cases y <;> simp [kstr, keyFor, JKey.toStr, sTrue, sFalse]
    · rw [e] at e'; cases e'
    · exact absurd e n1
  · rcases key_sort reg shape τ b s2 hb with ⟨e', _⟩ | ⟨_, y, rfl⟩ | ⟨_, n2, _⟩
    · rw [e] at e'; cases e'
    · simp only [kstr, keyFor, JKey.toStr, JKey.num.injEq]
      exact ⟨fun h => by rw [h], decInt_injective x y⟩
    · exact absurd e n2
  · rcases key_sort reg shape τ b s2 hb with ⟨e', _⟩ | ⟨e', _⟩ | ⟨_, _, y, ey⟩
    · exact absurd e' n1
    · exact absurd e' n2
    · simp only [kstr, ex, ey, JKey.toStr, JKey.str.injEq]

theorem key_inj {fs : Int → Str} (hfs : ToStringOK fs) (shape : Nat → KType) (τ : KType) (a b : KVal)
    (s1 s2 : KSt) (ha : wt shape τ a = true) (hb : wt shape τ b = true)
    (i1 : Inv s1) (i2 : Inv s2) (hle : Le (keyFor fs a s1).2 s2) :
    (keyFor fs a s1).1 = (keyFor fs b s2).1 ↔ goEq a b = true := by
  rw [jkey_eq_iff_kstr fs shape a b s1 s2 ⟨τ, ha, hb⟩]
  exact inj_val hfs shape a b s1 s2 ⟨τ, ha, hb⟩ i1 i2 hle

end GV.Proofs.MapKeyInj
