/-
  GV.Proofs.FlatTop — the whole function: `flatten body` without suspension computes the reference result.
-/
import GV.Proofs.FlatCorrect
import GV.Proofs.Segment

namespace GV.Flat
open GV.Ctrl

theorem flatten_exec (E : Env σ) (body : Stmt) (hnd : (labels (flatten body)).Nodup)
    {st g st'} (hev : Eval E body st g st') (hg : g = .normal ∨ g = .ret) :
    Exec E (flatten body) (flatten body) st st' := by
  have hb := (block_both E (flatten body) hnd hev).1
  unfold flatten at hb hnd ⊢
  by_cases hn : needsFlat Ctx.top body = true
  · simp only [hn, if_true] at hb hnd ⊢
    refine .case ?_
    refine hb Ctx.top 1 [.case 0] _ st' (by simp [flat]) ?_
    rcases hg with rfl | rfl
    · show Exec E _ _ st' st'
      by_cases hr : endsWithReturn body = true
      · exact absurd rfl (eval_endsWithReturn E hev hr)
      · simp only [hr, Bool.false_eq_true, if_false]
        exact .ret
    · rfl
  · have hn' : needsFlat Ctx.top body = false := by simpa using hn
    simp only [hn', Bool.false_eq_true, if_false] at hb hnd ⊢
    refine direct_ok E _ Ctx.top body hn' hev [] st' ?_
    rcases hg with rfl | rfl
    · exact .nil
    · rfl

end GV.Flat
