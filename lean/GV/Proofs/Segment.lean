/-
  GV.Proofs.Segment — the segmentation lemma: suspending at a `case N:` boundary (saving the frame, returning, restoring
  the frame in a new invocation and re-entering through `switch ($s)`) is the identity on (store, `$s`, `$r`), so the
  machine under ANY schedule computes what the machine without suspension computes.
-/
import GV.Model.Flat
import GV.Proofs.Flat

namespace GV.Flat
open GV.Ctrl

/-- the primitives keep the store inside the part that survives a save/restore round trip -/
structure EnvStable (E : Env σ) (forget : σ → σ) : Prop where
  act : ∀ a st, forget st = st → forget (E.act a st) = E.act a st
  cond : ∀ c st, forget st = st → forget (E.cond c st).2 = (E.cond c st).2
  call : ∀ f st, forget st = st → forget (E.call f st) = E.call f st

theorem evalCond_stable {E : Env σ} {forget : σ → σ} (hE : EnvStable E forget) {c st b st1}
    (h : evalCond E c st = (b, st1)) (hs : forget st = st) : forget st1 = st1 := by
  cases c with
  | none => simp only [evalCond] at h; cases h; exact hs
  | some cc =>
    simp only [evalCond] at h
    have := hE.cond cc st hs
    rw [h] at this; exact this

theorem cond_stable {E : Env σ} {forget : σ → σ} (hE : EnvStable E forget) {c st b st1}
    (h : E.cond c st = (b, st1)) (hs : forget st = st) : forget st1 = st1 := by
  have := hE.cond c st hs
  rw [h] at this; exact this

theorem evalSimple_stable {E : Env σ} {forget : σ → σ} (hE : EnvStable E forget) (p : Simple) {st}
    (hs : forget st = st) : forget (evalSimple E p st) = evalSimple E p st := by
  cases p with
  | none => exact hs
  | act a => exact hE.act a st hs
  | call f => exact hE.call f st hs

theorem eval_stable {E : Env σ} {forget : σ → σ} (hE : EnvStable E forget) :
    ∀ {s st g st'}, Eval E s st g st' → forget st = st → forget st' = st' := by
  intro s st g st' h
  induction h with
  | skip => exact id
  | act => exact hE.act _ _
  | call => exact hE.call _ _
  | seqN _ _ ih1 ih2 => exact fun hs => ih2 (ih1 hs)
  | seqA _ _ ih1 => exact ih1
  | iteT hc _ ih =>
    intro hs; exact ih (cond_stable hE hc hs)
  | iteF hc _ ih =>
    intro hs; exact ih (cond_stable hE hc hs)
  | block _ ih => exact ih
  | brk => exact id
  | cont => exact id
  | ret => exact id
  | sw _ ih => exact ih
  | loopDone hc => exact fun hs => evalCond_stable hE hc hs
  | loopAgain hc _ _ _ ih1 ih2 =>
    exact fun hs => ih2 (evalSimple_stable hE _ (ih1 (evalCond_stable hE hc hs)))
  | loopExit hc _ _ ih1 => exact fun hs => ih1 (evalCond_stable hE hc hs)
  | loopProp hc _ _ ih1 => exact fun hs => ih1 (evalCond_stable hE hc hs)

theorem seek_suffix (n : Nat) : ∀ code : List Instr, ∃ pr, code = pr ++ seek n code := by
  intro code
  induction code with
  | nil => exact ⟨[], rfl⟩
  | cons i rest ih =>
    simp only [seek]
    split
    · exact ⟨[], rfl⟩
    · obtain ⟨pr, h⟩ := ih
      exact ⟨i :: pr, by rw [List.cons_append, ← h]⟩

theorem suffix_tail {code pr : List Instr} {i : Instr} {rest : List Instr} (h : code = pr ++ i :: rest) :
    ∃ pr', code = pr' ++ rest := ⟨pr ++ [i], by rw [h]; simp⟩

/-- **Segmentation lemma.** -/
theorem segmentation_aux (E : Env σ) (forget : σ → σ) (sched : Nat → Nat → σ → Nat) (code : List Instr)
    (hnd : (labels code).Nodup) (hE : EnvStable E forget) :
    ∀ {suf st o}, Exec E code suf st o → (∃ pr, code = pr ++ suf) → forget st = st →
      ∀ k, RunS E forget sched code suf st none false k o := by
  intro suf st o h
  induction h with
  | nil => intro _ _ k; exact .nil
  | case _ ih => intro ⟨pr, hp⟩ hs k; exact .case (ih (suffix_tail hp) hs k)
  | act _ ih => intro ⟨pr, hp⟩ hs k; exact .act (ih (suffix_tail hp) (hE.act _ _ hs) k)
  | jmp _ ih => intro _ hs k; exact .jmp (ih (seek_suffix _ code) hs k)
  | jmpIfT hc _ ih =>
    intro _ hs k
    have h1 := cond_stable hE hc hs
    exact .jmpIfT hc (ih (seek_suffix _ code) h1 k)
  | jmpIfF hc _ ih =>
    intro ⟨pr, hp⟩ hs k
    have h1 := cond_stable hE hc hs
    exact .jmpIfF hc (ih (suffix_tail hp) h1 k)
  | jmpIfNotT hc _ ih =>
    intro ⟨pr, hp⟩ hs k
    have h1 := cond_stable hE hc hs
    exact .jmpIfNotT hc (ih (suffix_tail hp) h1 k)
  | jmpIfNotF hc _ ih =>
    intro _ hs k
    have h1 := cond_stable hE hc hs
    exact .jmpIfNotF hc (ih (seek_suffix _ code) h1 k)
  | ret => intro _ _ k; exact .ret
  | directN hc he _ ih =>
    intro ⟨pr, hp⟩ hs k
    exact .directN hc he (ih (suffix_tail hp) (eval_stable hE he hs) k)
  | directB hc he _ ih =>
    intro _ hs k
    exact .directB hc he (ih (seek_suffix _ code) (eval_stable hE he hs) k)
  | directC hc he hp' _ ih =>
    intro _ hs k
    exact .directC hc he hp' (ih (seek_suffix _ code) (evalSimple_stable hE _ (eval_stable hE he hs)) k)
  | directR hc he => intro _ _ k; exact .directR hc he
  | @call rest f st o n _ ih =>
    intro ⟨pr, hp⟩ hs k
    have hdone : ∀ k, RunS E forget sched code rest (E.call f st) none false k o :=
      ih (suffix_tail hp) (hE.call _ _ hs)
    -- re-entry through `switch ($s)` with `$s = n` lands on this very instruction
    have hseek : seek n code = .call f n :: rest := seek_mid hnd hp rfl
    -- resuming with the restored frame, however often the callee suspends again
    have hres : ∀ m k, RunS E forget sched code (.call f n :: rest) st (some (f, m)) true k o := by
      intro m
      induction m with
      | zero => intro k; exact .resumeDone (hdone k)
      | succ m ihm =>
        intro k
        refine .resumeMore ?_
        rw [hseek, hs]; exact ihm k
    cases hsch : sched k f st with
    | zero => exact .callNow hsch (hdone (k + 1))
    | succ m =>
      refine .callSusp hsch ?_
      rw [hseek, hs]; exact hres m (k + 1)

end GV.Flat
