/-
  GV.Proofs.HeapBasic — basic facts about the JS heap model GV.Model.Heap:
  `Ty.beq_iff`, an induction principle for the nested type `Ty` (`Ty.ind`, via `kids`), the frame /
  congruence lemma for `spine` / `flat`, `flat_length`, and the specification of `zero`.
-/
import GV.Spec.GoValue

namespace GV.Heap
open GV.Spec.GoValue

/-! ### 1. `Ty.beq` decides equality -/

mutual
theorem Ty.beq_iff : (a b : Ty) → (Ty.beq a b = true ↔ a = b)
  | .int, b => by cases b <;> simp [Ty.beq]
  | .map, b => by cases b <;> simp [Ty.beq]
  | .iface, b => by cases b <;> simp [Ty.beq]
  | .ptr a, b => by cases b <;> simp [Ty.beq, Ty.beq_iff a]
  | .slice a, b => by cases b <;> simp [Ty.beq, Ty.beq_iff a]
  | .struct fs, b => by cases b <;> simp [Ty.beq, Ty.beqList_iff fs]
  | .array n a, b => by cases b <;> simp [Ty.beq, Ty.beq_iff a]
theorem Ty.beqList_iff : (as bs : List Ty) → (Ty.beqList as bs = true ↔ as = bs)
  | [], bs => by cases bs <;> simp [Ty.beqList]
  | a :: as, bs => by cases bs <;> simp [Ty.beqList, Ty.beq_iff a, Ty.beqList_iff as]
end

/-! ### Induction principle: an array `[n]t` behaves like a struct with `n` fields of type `t` -/

/-- the component types of an array / struct type -/
def kids : Ty → List Ty
  | .struct fs => fs
  | .array n t => List.replicate n t
  | _ => []

mutual
theorem Ty.ind_aux {motive : Ty → Prop} (leaf : ∀ t, isSpine t = false → motive t)
    (node : ∀ t, isSpine t = true → (∀ f ∈ kids t, motive f) → motive t) : (t : Ty) → motive t
  | .struct fs => node _ rfl (Ty.ind_list leaf node fs)
  | .array n t => node _ rfl (fun f hf => by
      rw [List.eq_of_mem_replicate hf]; exact Ty.ind_aux leaf node t)
  | .int => leaf _ rfl
  | .ptr _ => leaf _ rfl
  | .slice _ => leaf _ rfl
  | .map => leaf _ rfl
  | .iface => leaf _ rfl
theorem Ty.ind_list {motive : Ty → Prop} (leaf : ∀ t, isSpine t = false → motive t)
    (node : ∀ t, isSpine t = true → (∀ f ∈ kids t, motive f) → motive t) :
    (fs : List Ty) → ∀ f ∈ fs, motive f
  | [], _, h => by cases h
  | g :: gs, f, h => (List.mem_cons.1 h).elim (fun e => by rw [e]; exact Ty.ind_aux leaf node g)
      (fun h => Ty.ind_list leaf node gs f h)
end

@[elab_as_elim]
theorem Ty.ind {motive : Ty → Prop} (leaf : ∀ t, isSpine t = false → motive t)
    (node : ∀ t, isSpine t = true → (∀ f ∈ kids t, motive f) → motive t) (t : Ty) : motive t :=
  Ty.ind_aux leaf node t

/-! ### leaf (non array/struct) types -/

theorem spine_leaf {t : Ty} (h : isSpine t = false) (H : Heap) (v : Int) : spine t H v = [] := by
  cases t <;> simp_all [isSpine, spine]
theorem flat_leaf {t : Ty} (h : isSpine t = false) (H : Heap) (v : Int) : flat t H v = [v] := by
  cases t <;> simp_all [isSpine, flat]
theorem size_leaf {t : Ty} (h : isSpine t = false) : size t = 1 := by
  cases t <;> simp_all [isSpine, size]
theorem zero_leaf {t : Ty} (h : isSpine t = false) (H : Heap) : zero t H = (H, zeroCell t) := by
  cases t <;> simp_all [isSpine, zero, zeroCell]
theorem zeroCells_leaf {t : Ty} (h : isSpine t = false) : zeroCells t = [zeroCell t] := by
  cases t <;> simp_all [isSpine, zeroCells]
theorem copyInto_leaf {t : Ty} (h : isSpine t = false) (H : Heap) (d s : Int) : copyInto t H d s = H := by
  cases t <;> simp_all [isSpine, copyInto]
theorem typeAt_leaf {t : Ty} (h : isSpine t = false) (i : Nat) (p : List Nat) : typeAt t (i :: p) = none := by
  cases t <;> simp_all [isSpine, typeAt]

/-! ### array/struct types through `kids` -/

theorem spineFields_replicate (t : Ty) (H : Heap) (id : Nat) : ∀ n k,
    spineFields (List.replicate n t) H id k = (List.range' k n).flatMap (fun i => spine t H (H.cell id i)) := by
  intro n; induction n with
  | zero => intro k; simp [spineFields]
  | succ n ih => intro k; simp [List.replicate_succ, spineFields, List.range'_succ, ih]

theorem flatFields_replicate (t : Ty) (H : Heap) (id : Nat) : ∀ n k,
    flatFields (List.replicate n t) H id k = (List.range' k n).flatMap (fun i => flat t H (H.cell id i)) := by
  intro n; induction n with
  | zero => intro k; simp [flatFields]
  | succ n ih => intro k; simp [List.replicate_succ, flatFields, List.range'_succ, ih]

theorem sizeFields_replicate (t : Ty) : ∀ n, sizeFields (List.replicate n t) = n * size t := by
  intro n; induction n with
  | zero => simp [sizeFields]
  | succ n ih => simp [List.replicate_succ, sizeFields, ih, Nat.succ_mul, Nat.add_comm]

theorem zeroCellsFields_replicate (t : Ty) : ∀ n k,
    zeroCellsFields (List.replicate n t) = (List.range' k n).flatMap (fun _ => zeroCells t) := by
  intro n; induction n with
  | zero => intro k; simp [zeroCellsFields]
  | succ n ih => intro k; simp [List.replicate_succ, zeroCellsFields, List.range'_succ, ih (k + 1)]

theorem zeroFields_replicate (t : Ty) : ∀ n H, zeroFields (List.replicate n t) H = iter (zero t) n H := by
  intro n; induction n with
  | zero => intro H; simp [zeroFields, iter]
  | succ n ih => intro H; simp [List.replicate_succ, zeroFields, iter, ih]

theorem spine_node {t : Ty} (h : isSpine t = true) (H : Heap) (v : Int) :
    spine t H v = v.toNat :: spineFields (kids t) H v.toNat 0 := by
  cases t <;> simp_all [isSpine, spine, kids, spineFields_replicate, List.range_eq_range']

theorem flat_node {t : Ty} (h : isSpine t = true) (H : Heap) (v : Int) :
    flat t H v = flatFields (kids t) H v.toNat 0 := by
  cases t <;> simp_all [isSpine, flat, kids, flatFields_replicate, List.range_eq_range']

theorem size_node {t : Ty} (h : isSpine t = true) : size t = sizeFields (kids t) := by
  cases t <;> simp_all [isSpine, size, kids, sizeFields_replicate]

theorem zeroCells_node {t : Ty} (h : isSpine t = true) : zeroCells t = zeroCellsFields (kids t) := by
  cases t <;> simp_all [isSpine, zeroCells, kids, zeroCellsFields_replicate _ _ 0, List.range_eq_range']

theorem zero_node {t : Ty} (h : isSpine t = true) (H : Heap) :
    zero t H = (zeroFields (kids t) H).1.alloc (zeroFields (kids t) H).2 := by
  cases t <;> simp_all [isSpine, zero, kids, zeroFields_replicate]

/-! ### 2. frame / congruence -/

theorem fields_congr (fs : List Ty) (H H' : Heap) (id : Nat)
    (ih : ∀ f ∈ fs, ∀ v, (∀ x ∈ spine f H v, ∀ j, H'.cell x j = H.cell x j) →
      spine f H' v = spine f H v ∧ flat f H' v = flat f H v) :
    ∀ k, (∀ j, k ≤ j → j < k + fs.length → H'.cell id j = H.cell id j) →
      (∀ x ∈ spineFields fs H id k, ∀ j, H'.cell x j = H.cell x j) →
      spineFields fs H' id k = spineFields fs H id k ∧ flatFields fs H' id k = flatFields fs H id k := by
  induction fs with
  | nil => intro k _ _; simp [spineFields, flatFields]
  | cons f fs ihf =>
    intro k hr hs
    simp only [spineFields, flatFields, List.mem_append] at hs ⊢
    have h1 := ih f List.mem_cons_self (H.cell id k) (fun x hx => hs x (Or.inl hx))
    have h2 := ihf (fun g hg => ih g (List.mem_cons_of_mem _ hg)) (k + 1)
      (fun j hj hj' => hr j (by omega) (by simp only [List.length_cons]; omega))
      (fun x hx => hs x (Or.inr hx))
    rw [hr k (Nat.le_refl k) (by simp only [List.length_cons]; omega), h1.1, h1.2, h2.1, h2.2]
    exact ⟨rfl, rfl⟩

/-- `spine` and `flat` of a value only depend on the cells of its spine objects -/
theorem spine_flat_congr (t : Ty) : ∀ (H H' : Heap) (v : Int),
    (∀ id ∈ spine t H v, ∀ i, H'.cell id i = H.cell id i) →
    spine t H' v = spine t H v ∧ flat t H' v = flat t H v := by
  induction t using Ty.ind with
  | leaf t ht => intro H H' v _; simp [spine_leaf ht, flat_leaf ht]
  | node t ht ih =>
    intro H H' v h
    rw [spine_node ht] at h
    rw [spine_node ht, spine_node ht, flat_node ht, flat_node ht]
    have := fields_congr (kids t) H H' v.toNat (fun f hf v' => ih f hf H H' v') 0
      (fun j _ _ => h _ List.mem_cons_self j) (fun x hx => h x (List.mem_cons_of_mem _ hx))
    rw [this.1, this.2]; exact ⟨rfl, rfl⟩

/-- fields version with the real `spine_flat_congr` plugged in -/
theorem fields_congr' (fs : List Ty) (H H' : Heap) (id k : Nat)
    (hr : ∀ j, k ≤ j → j < k + fs.length → H'.cell id j = H.cell id j)
    (hs : ∀ x ∈ spineFields fs H id k, ∀ j, H'.cell x j = H.cell x j) :
    spineFields fs H' id k = spineFields fs H id k ∧ flatFields fs H' id k = flatFields fs H id k :=
  fields_congr fs H H' id (fun f _ v => spine_flat_congr f H H' v) k hr hs

theorem flatFields_length (fs : List Ty) (H : Heap) (id : Nat)
    (ih : ∀ f ∈ fs, ∀ v, (flat f H v).length = size f) :
    ∀ k, (flatFields fs H id k).length = sizeFields fs := by
  induction fs with
  | nil => intro k; simp [flatFields, sizeFields]
  | cons f fs ihf =>
    intro k
    simp only [flatFields, sizeFields, List.length_append]
    rw [ih f List.mem_cons_self, ihf (fun g hg => ih g (List.mem_cons_of_mem _ hg))]

theorem flat_length (t : Ty) : ∀ (H : Heap) (v : Int), (flat t H v).length = size t := by
  induction t using Ty.ind with
  | leaf t ht => intro H v; simp [flat_leaf ht, size_leaf ht]
  | node t ht ih =>
    intro H v
    rw [flat_node ht, size_node ht]
    exact flatFields_length _ H _ (fun f hf v => ih f hf H v) 0

theorem flatFields_length' (fs : List Ty) (H : Heap) (id k : Nat) :
    (flatFields fs H id k).length = sizeFields fs :=
  flatFields_length fs H id (fun f _ v => flat_length f H v) k

/-! ### values given as a list (constructor arguments) -/

def spineVals : List Ty → Heap → List Int → List Nat
  | f :: fs, H, v :: vs => spine f H v ++ spineVals fs H vs
  | _, _, _ => []
def flatVals : List Ty → Heap → List Int → List Int
  | f :: fs, H, v :: vs => flat f H v ++ flatVals fs H vs
  | _, _, _ => []

theorem fields_eq_vals (H : Heap) (id : Nat) : ∀ (fs : List Ty) (vs : List Int) (k : Nat),
    vs.length = fs.length → (∀ j, j < fs.length → H.cell id (k + j) = vs.getD j 0) →
    spineFields fs H id k = spineVals fs H vs ∧ flatFields fs H id k = flatVals fs H vs := by
  intro fs; induction fs with
  | nil => intro vs k _ _; cases vs <;> simp [spineFields, flatFields, spineVals, flatVals]
  | cons f fs ih =>
    intro vs k hl hc
    cases vs with
    | nil => simp at hl
    | cons v vs =>
      have h0 : H.cell id k = v := by simpa using hc 0 (by simp)
      have := ih vs (k + 1) (by simpa using hl) (fun j hj => by
        have := hc (j + 1) (by simp; omega)
        rw [show k + 1 + j = k + (j + 1) by omega, this]; simp)
      constructor <;> simp only [spineFields, flatFields, spineVals, flatVals, h0, this.1, this.2]

theorem vals_congr (H H' : Heap) : ∀ (fs : List Ty) (vs : List Int),
    (∀ x ∈ spineVals fs H vs, ∀ j, H'.cell x j = H.cell x j) →
    spineVals fs H' vs = spineVals fs H vs ∧ flatVals fs H' vs = flatVals fs H vs := by
  intro fs; induction fs with
  | nil => intro vs _; simp [spineVals, flatVals]
  | cons f fs ih =>
    intro vs h
    cases vs with
    | nil => simp [spineVals, flatVals]
    | cons v vs =>
      simp only [spineVals, flatVals, List.mem_append] at h ⊢
      have h1 := spine_flat_congr f H H' v (fun x hx => h x (Or.inl hx))
      have h2 := ih vs (fun x hx => h x (Or.inr hx))
      rw [h1.1, h1.2, h2.1, h2.2]; exact ⟨rfl, rfl⟩

/-! ### `zero` -/

/-- specification of `T.zero()` -/
def ZeroOK (t : Ty) : Prop := ∀ H H' v, zero t H = (H', v) →
    H.next ≤ H'.next ∧ (∀ id, id < H.next → ∀ i, H'.cell id i = H.cell id i) ∧
    (∀ id ∈ spine t H' v, H.next ≤ id ∧ id < H'.next) ∧ (spine t H' v).Nodup ∧
    flat t H' v = zeroCells t

theorem zeroFields_ok (fs : List Ty) (ih : ∀ f ∈ fs, ZeroOK f) : ∀ H H' vs, zeroFields fs H = (H', vs) →
    H.next ≤ H'.next ∧ (∀ id, id < H.next → ∀ i, H'.cell id i = H.cell id i) ∧ vs.length = fs.length ∧
    (∀ id ∈ spineVals fs H' vs, H.next ≤ id ∧ id < H'.next) ∧ (spineVals fs H' vs).Nodup ∧
    flatVals fs H' vs = zeroCellsFields fs := by
  induction fs with
  | nil =>
    intro H H' vs h
    simp only [zeroFields] at h
    obtain ⟨rfl, rfl⟩ := Prod.mk.inj h
    simp [spineVals, flatVals, zeroCellsFields]
  | cons f fs ihf =>
    intro H H' vs' h
    rcases hz : zero f H with ⟨Ha, v⟩
    rcases hzf : zeroFields fs Ha with ⟨Hb, vs⟩
    simp only [zeroFields, hz, hzf] at h
    obtain ⟨rfl, rfl⟩ := Prod.mk.inj h
    obtain ⟨a1, a2, a3, a4, a5⟩ := ih f List.mem_cons_self H Ha v hz
    obtain ⟨b1, b2, b3, b4, b5, b6⟩ := ihf (fun g hg => ih g (List.mem_cons_of_mem _ hg)) Ha Hb vs hzf
    have hc := spine_flat_congr f Ha Hb v (fun x hx j => b2 x (a3 x hx).2 j)
    refine ⟨by omega, fun id hid i => by rw [b2 id (by omega) i, a2 id hid i], by simp [b3], ?_, ?_, ?_⟩
    · intro id hid
      simp only [spineVals, List.mem_append, hc.1] at hid
      rcases hid with hid | hid
      · have := a3 id hid; omega
      · have := b4 id hid; omega
    · simp only [spineVals, hc.1]
      exact List.nodup_append.2 ⟨a4, b5, fun x hx y hy => by
        have := a3 x hx; have := b4 y hy; omega⟩
    · simp only [flatVals, zeroCellsFields, hc.2, a5, b6]

theorem zero_ok (t : Ty) : ZeroOK t := by
  induction t using Ty.ind with
  | leaf t ht =>
    intro H H' v h
    rw [zero_leaf ht] at h
    obtain ⟨rfl, rfl⟩ := Prod.mk.inj h
    simp [spine_leaf ht, flat_leaf ht, zeroCells_leaf ht]
  | node t ht ih =>
    intro H H' v h
    rw [zero_node ht] at h
    rcases hzf : zeroFields (kids t) H with ⟨H1, vs⟩
    rw [hzf] at h
    simp only [Heap.alloc] at h
    obtain ⟨rfl, rfl⟩ := Prod.mk.inj h
    obtain ⟨b1, b2, b3, b4, b5, b6⟩ := zeroFields_ok (kids t) ih H H1 vs hzf
    generalize hH2 : ({ cell := fun a b => if a = H1.next then vs.getD b 0 else H1.cell a b,
                        next := H1.next + 1 } : Heap) = H2
    have hc2 : ∀ a b, H2.cell a b = if a = H1.next then vs.getD b 0 else H1.cell a b := by
      intro a b; rw [← hH2]
    have hn2 : H2.next = H1.next + 1 := by rw [← hH2]
    have e1 := fields_eq_vals H2 H1.next (kids t) vs 0 b3 (fun j _ => by rw [hc2]; simp)
    have e2 := vals_congr H1 H2 (kids t) vs (fun x hx j => by
      have := b4 x hx; rw [hc2, if_neg (by omega)])
    rw [spine_node ht, flat_node ht, Int.toNat_natCast, e1.1, e1.2, e2.1, e2.2, hn2]
    refine ⟨by omega, fun id hid i => by rw [hc2, if_neg (by omega), b2 id hid i], ?_, ?_, ?_⟩
    · intro id hid
      rcases List.mem_cons.1 hid with rfl | hid
      · omega
      · have := b4 id hid; omega
    · exact List.nodup_cons.2 ⟨fun hm => by have := b4 _ hm; omega, b5⟩
    · rw [b6, zeroCells_node ht]

end GV.Heap
