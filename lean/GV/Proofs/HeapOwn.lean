/-
  GV.Proofs.HeapOwn — the ownership invariant of the JS heap: in every reachable state two distinct storage
  locations of array/struct type never share an object and each location's spine is a tree (`no_sharing`).
  Prerequisites: HeapBasic (frame lemmas, `zero`), HeapCopy (`copyInto`, `clone_deep`), HeapPath (sub-values).
-/
import GV.Proofs.HeapPath

namespace GV.Heap
open GV.Spec.GoValue

/-! ### `zero` in plain form (Target 2; proved as `zero_ok` in HeapBasic) -/

theorem zero_spec (t : Ty) (H : Heap) :
    H.next ≤ (zero t H).1.next ∧
    (∀ id, id < H.next → ∀ i, (zero t H).1.cell id i = H.cell id i) ∧
    (∀ id ∈ spine t (zero t H).1 (zero t H).2, H.next ≤ id ∧ id < (zero t H).1.next) ∧
    (spine t (zero t H).1 (zero t H).2).Nodup ∧
    flat t (zero t H).1 (zero t H).2 = zeroCells t :=
  zero_ok t H (zero t H).1 (zero t H).2 rfl

/-! ### definitions -/

def Owned (σ : JState) : Prop :=
  (σ.slots.flatMap (fun tv => spine tv.1 σ.heap tv.2)).Nodup ∧
  ∀ id ∈ σ.slots.flatMap (fun tv => spine tv.1 σ.heap tv.2), id < σ.heap.next

/-- the source location variable of an expression -/
def Expr.var : Expr → Nat
  | .loc x _ => x
  | .via _ e => e.var

/-- the source location path of an expression -/
def Expr.path : Expr → List Nat
  | .loc _ p => p
  | .via _ e => e.path

/-- what the induction needs of a statement under clone table `tbl`: every new storage location is initialised
    through a cloning context; an in-place store does not read the variable it overwrites -/
def stmtOK (tbl : Ctx → Bool) : Stmt → Prop
  | .bind c _ => tbl c = true
  | .store _ x _ e => e.var ≠ x
  | _ => True

instance (tbl : Ctx → Bool) (s : Stmt) : Decidable (stmtOK tbl s) := by
  cases s <;> simp only [stmtOK] <;> infer_instance

def allSpine (H : Heap) (slots : List (Ty × Int)) : List Nat :=
  slots.flatMap (fun tv => spine tv.1 H tv.2)

def OwnedH (H : Heap) (slots : List (Ty × Int)) : Prop :=
  (allSpine H slots).Nodup ∧ ∀ id ∈ allSpine H slots, id < H.next

theorem owned_iff (σ : JState) : Owned σ ↔ OwnedH σ.heap σ.slots := Iff.rfl

/-! ### slots -/

theorem flatMap_congr_mem {α β : Type} {f g : α → List β} : ∀ (l : List α), (∀ a ∈ l, f a = g a) →
    l.flatMap f = l.flatMap g := by
  intro l; induction l with
  | nil => intro _; rfl
  | cons a l ih =>
    intro h
    rw [List.flatMap_cons, List.flatMap_cons, h a List.mem_cons_self,
      ih (fun b hb => h b (List.mem_cons_of_mem _ hb))]

theorem mem_allSpine {H : Heap} {slots : List (Ty × Int)} {x : Nat} {t : Ty} {v : Int}
    (hx : slots[x]? = some (t, v)) {id : Nat} (h : id ∈ spine t H v) : id ∈ allSpine H slots :=
  List.mem_flatMap.2 ⟨(t, v), List.mem_of_getElem? hx, h⟩

theorem allSpine_eq_of_slots {H H' : Heap} {slots : List (Ty × Int)}
    (h : ∀ (y : Nat) (t : Ty) (v : Int), slots[y]? = some (t, v) → spine t H' v = spine t H v) :
    allSpine H' slots = allSpine H slots := by
  unfold allSpine
  apply flatMap_congr_mem
  intro a ha
  obtain ⟨y, hy⟩ := List.mem_iff_getElem?.1 ha
  exact h y a.1 a.2 hy

theorem slot_nodup {H : Heap} {slots : List (Ty × Int)} {x : Nat} {t : Ty} {v : Int}
    (hnd : (allSpine H slots).Nodup) (hx : slots[x]? = some (t, v)) : (spine t H v).Nodup := by
  obtain ⟨as, bs, e, _⟩ := getElem?_split _ _ _ hx
  have : allSpine H slots = allSpine H as ++ (spine t H v ++ allSpine H bs) := by
    rw [e]; simp [allSpine, List.flatMap_append, List.flatMap_cons]
  rw [this] at hnd
  exact (List.nodup_append.1 (List.nodup_append.1 hnd).2.1).1

theorem slots_disjoint {H : Heap} : ∀ {slots : List (Ty × Int)} {x y : Nat} {a b : Ty × Int},
    (allSpine H slots).Nodup → slots[x]? = some a → slots[y]? = some b → x ≠ y →
    ∀ id ∈ spine a.1 H a.2, id ∉ spine b.1 H b.2 := by
  intro slots; induction slots with
  | nil => intro x y a b _ hx; simp at hx
  | cons c slots ih =>
    intro x y a b hnd hx hy hne id hid hid'
    have hsp : allSpine H (c :: slots) = spine c.1 H c.2 ++ allSpine H slots := by
      simp [allSpine, List.flatMap_cons]
    rw [hsp] at hnd
    obtain ⟨_, n2, n3⟩ := List.nodup_append.1 hnd
    cases x with
    | zero =>
      cases y with
      | zero => exact hne rfl
      | succ y =>
        simp at hx hy; subst hx
        exact n3 id hid id (List.mem_flatMap.2 ⟨b, List.mem_of_getElem? hy, hid'⟩) rfl
    | succ x =>
      cases y with
      | zero =>
        simp at hx hy; subst hy
        exact n3 id hid' id (List.mem_flatMap.2 ⟨a, List.mem_of_getElem? hx, hid⟩) rfl
      | succ y =>
        simp at hx hy
        exact ih n2 hx hy (by omega) id hid hid'

theorem owned_frame {H H1 : Heap} {slots : List (Ty × Int)} (ho : OwnedH H slots) (hn : H.next ≤ H1.next)
    (hfr : ∀ id, id < H.next → ∀ i, H1.cell id i = H.cell id i) :
    allSpine H1 slots = allSpine H slots ∧ OwnedH H1 slots ∧
    ∀ (y : Nat) (t : Ty) (v : Int), slots[y]? = some (t, v) → spine t H1 v = spine t H v ∧ flat t H1 v = flat t H v := by
  have hs : ∀ (y : Nat) (t : Ty) (v : Int), slots[y]? = some (t, v) → spine t H1 v = spine t H v ∧ flat t H1 v = flat t H v :=
    fun y t v hy => spine_flat_congr t H H1 v (fun id hid j => hfr id (ho.2 id (mem_allSpine hy hid)) j)
  have e := allSpine_eq_of_slots (fun y t v hy => (hs y t v hy).1)
  exact ⟨e, ⟨by rw [e]; exact ho.1, fun id hid => by rw [e] at hid; have := ho.2 id hid; omega⟩, hs⟩

theorem owned_append {H H' : Heap} {slots : List (Ty × Int)} {t : Ty} {v : Int} (ho : OwnedH H slots)
    (hn : H.next ≤ H'.next) (hfr : ∀ id, id < H.next → ∀ i, H'.cell id i = H.cell id i)
    (hnd : (spine t H' v).Nodup) (hr : ∀ id ∈ spine t H' v, H.next ≤ id ∧ id < H'.next) :
    OwnedH H' (slots ++ [(t, v)]) := by
  obtain ⟨e, ho', _⟩ := owned_frame ho hn hfr
  have : allSpine H' (slots ++ [(t, v)]) = allSpine H' slots ++ spine t H' v := by
    simp [allSpine, List.flatMap_append]
  unfold OwnedH
  rw [this]
  refine ⟨List.nodup_append.2 ⟨ho'.1, hnd, fun a ha b hb => ?_⟩, fun id hid => ?_⟩
  · rw [e] at ha; have := ho.2 a ha; have := hr b hb; omega
  · rcases List.mem_append.1 hid with h | h
    · exact ho'.2 id h
    · exact (hr id h).2

theorem ownedH_of_eq {H H' : Heap} {slots slots' : List (Ty × Int)}
    (e : allSpine H' slots' = allSpine H slots) (hn : H.next ≤ H'.next) (ho : OwnedH H slots) :
    OwnedH H' slots' := by
  unfold OwnedH
  rw [e]
  exact ⟨ho.1, fun id hid => by have := ho.2 id hid; omega⟩

/-! ### expressions: an alias into an existing location, or a fresh clone -/

theorem evalJS_spec (tbl : Ctx → Bool) (slots : List (Ty × Int)) (H : Heap)
    (hlt : ∀ id ∈ allSpine H slots, id < H.next) :
    ∀ (e : Expr) (H1 : Heap) (t : Ty) (v : Int), evalJS tbl slots e H = some (H1, t, v) →
    ∃ tx vx, slots[e.var]? = some (tx, vx) ∧ typeAt tx e.path = some t ∧
      flat t H1 v = flat t H (navigate H vx e.path) ∧ H.next ≤ H1.next ∧
      (∀ id, id < H.next → ∀ i, H1.cell id i = H.cell id i) ∧
      (∀ id ∈ spine t H1 v, id < H1.next) ∧
      ((H1 = H ∧ v = navigate H vx e.path) ∨
       (isSpine t = true ∧ (spine t H1 v).Nodup ∧ ∀ id ∈ spine t H1 v, H.next ≤ id ∧ id < H1.next)) := by
  intro e; induction e with
  | loc x p =>
    intro H1 t v h
    simp only [evalJS] at h
    cases hx : slots[x]? with
    | none => rw [hx] at h; cases h
    | some tv =>
      obtain ⟨tx, vx⟩ := tv
      rw [hx] at h; simp only at h
      cases ht : typeAt tx p with
      | none => rw [ht] at h; cases h
      | some t' =>
        rw [ht] at h; simp only [Option.some.injEq, Prod.mk.injEq] at h
        obtain ⟨rfl, rfl, rfl⟩ := h
        exact ⟨tx, vx, hx, ht, rfl, Nat.le_refl _, fun _ _ _ => rfl,
          fun id hid => hlt id (mem_allSpine hx ((sub_value _ _ _ _ _ ht).1.subset hid)),
          Or.inl ⟨rfl, rfl⟩⟩
  | via c e ih =>
    intro H1 t v h
    simp only [evalJS] at h
    cases he : evalJS tbl slots e H with
    | none => rw [he] at h; cases h
    | some r =>
      obtain ⟨Ha, ta, va⟩ := r
      rw [he] at h; simp only at h
      obtain ⟨tx, vx, hx, ht, hfl, hn, hfr, hb, hcase⟩ := ih Ha ta va he
      by_cases hc : (tbl c && isSpine ta) = true
      · rw [if_pos hc] at h
        have hsp : isSpine ta = true := by
          simp only [Bool.and_eq_true] at hc; exact hc.2
        obtain ⟨d1, d2, d3, d4, d5⟩ := clone_deep ta hsp Ha va hb
        rcases hcl : clone ta Ha va with ⟨H2, v'⟩
        rw [hcl] at h d1 d2 d3 d4 d5
        simp only [Option.some.injEq, Prod.mk.injEq] at h d1 d2 d3 d4 d5
        obtain ⟨rfl, rfl, rfl⟩ := h
        exact ⟨tx, vx, hx, ht, by rw [d1, hfl]; rfl, by omega,
          fun id hid i => by rw [d4 id (by omega) i, hfr id hid i],
          fun id hid => (d2 id hid).2,
          Or.inr ⟨hsp, d3, fun id hid => by have := d2 id hid; omega⟩⟩
      · rw [if_neg hc] at h
        simp only [Option.some.injEq, Prod.mk.injEq] at h
        obtain ⟨rfl, rfl, rfl⟩ := h
        exact ⟨tx, vx, hx, ht, hfl, hn, hfr, hb, hcase⟩

/-! ### the effect of `store` and `setLeaf` on every location -/

theorem store_facts (tbl : Ctx → Bool) (slots : List (Ty × Int)) (H : Heap) (ho : OwnedH H slots)
    {e : Expr} {x : Nat} {p : List Nat} {H1 : Heap} {t : Ty} {v : Int} {tx : Ty} {vx : Int}
    (he : evalJS tbl slots e H = some (H1, t, v)) (hx : slots[x]? = some (tx, vx))
    (htp : typeAt tx p = some t) (hsp : isSpine t = true) (hne : e.var ≠ x) :
    (copyInto t H1 (navigate H1 vx p) v).next = H1.next ∧ H.next ≤ H1.next ∧
    (∀ (y : Nat) (ty : Ty) (vy : Int), slots[y]? = some (ty, vy) →
      spine ty (copyInto t H1 (navigate H1 vx p) v) vy = spine ty H vy ∧
      (y ≠ x → flat ty (copyInto t H1 (navigate H1 vx p) v) vy = flat ty H vy)) ∧
    flat tx (copyInto t H1 (navigate H1 vx p) v) vx = splice (flat tx H vx) (offsetAt tx p) (flat t H1 v) := by
  obtain ⟨ty, vy, hy, hty, hfl, hn, hfr, hb, hcase⟩ := evalJS_spec tbl slots H ho.2 e H1 t v he
  obtain ⟨e1, ho1, hs1⟩ := owned_frame ho hn hfr
  have sv := sub_value H1 p tx t vx htp
  have ndx : (spine tx H1 vx).Nodup := slot_nodup ho1.1 hx
  have ndd := sv.1.nodup ndx
  have hdj : ∀ id ∈ spine t H1 (navigate H1 vx p), id ∉ spine t H1 v := by
    intro id hid hid'
    have hidx : id ∈ spine tx H1 vx := sv.1.subset hid
    have h1 := mem_allSpine (H := H1) hx hidx
    rcases hcase with ⟨rfl, rfl⟩ | ⟨_, _, hr⟩
    · have := (sub_value _ _ _ _ _ hty).1.subset hid'
      exact slots_disjoint ho.1 hx hy (Ne.symm hne) id hidx this
    · rw [e1] at h1
      have := hr id hid'; have := ho.2 id h1; omega
  obtain ⟨c1, c2, c3, c4⟩ := copyInto_ok t hsp H1 _ v ndd hdj
  generalize copyInto t H1 (navigate H1 vx p) v = H' at *
  have su := sub_update H1 H' p tx t vx htp ndx c4 c2
  refine ⟨c3, hn, ?_, by rw [su.2.2, c1, (hs1 x tx vx hx).2]⟩
  intro y ty' vy' hy'
  by_cases hyx : y = x
  · subst hyx
    have := hx.symm.trans hy'
    simp only [Option.some.injEq, Prod.mk.injEq] at this
    obtain ⟨rfl, rfl⟩ := this
    exact ⟨by rw [su.1, (hs1 y tx vx hx).1], fun h => absurd rfl h⟩
  · have hd := slots_disjoint ho1.1 hy' hx hyx
    have := spine_flat_congr ty' H1 H' vy' (fun id hid j => c4 id (fun hm => hd id hid (sv.1.subset hm)) j)
    exact ⟨by rw [this.1, (hs1 y ty' vy' hy').1], fun _ => by rw [this.2, (hs1 y ty' vy' hy').2]⟩

theorem setLeaf_facts (slots : List (Ty × Int)) (H : Heap) (ho : OwnedH H slots)
    {x : Nat} {tx : Ty} {vx : Int} {q : List Nat} {i : Nat} {t : Ty} (n : Int)
    (hx : slots[x]? = some (tx, vx)) (htp : typeAt tx (q ++ [i]) = some t) (hsp : isSpine t = false) :
    (∀ (y : Nat) (ty : Ty) (vy : Int), slots[y]? = some (ty, vy) →
      spine ty (H.write (navigate H vx q).toNat i n) vy = spine ty H vy ∧
      (y ≠ x → flat ty (H.write (navigate H vx q).toNat i n) vy = flat ty H vy)) ∧
    flat tx (H.write (navigate H vx q).toNat i n) vx = (flat tx H vx).set (offsetAt tx (q ++ [i])) n := by
  obtain ⟨u, h1, h2, h3⟩ := typeAt_append q tx [i] t htp
  obtain ⟨f, hk⟩ := typeAt_cons_inv h2
  have hnode := typeAt_node hk []
  rw [hnode.1] at h2
  simp only [typeAt, Option.some.injEq] at h2
  subst h2
  have hu : isSpine u = true := kids_some_spine hk
  have sv := sub_value H q tx u vx h1
  have ndx : (spine tx H vx).Nodup := slot_nodup ho.1 hx
  have ndw := sv.1.nodup ndx
  obtain ⟨w1, w2⟩ := write_leaf H u (navigate H vx q) i f n hk hsp ndw
  have hfr : ∀ id, id ∉ spine u H (navigate H vx q) → ∀ j,
      (H.write (navigate H vx q).toNat i n).cell id j = H.cell id j := by
    intro id hid j
    rw [spine_node hu] at hid
    have : id ≠ (navigate H vx q).toNat := fun h => hid (h ▸ List.mem_cons_self)
    simp [Heap.write, this]
  -- size bookkeeping for the leaf cell
  have hk' : sizeFields ((kids u).take i) < size u := by
    obtain ⟨as, bs, e, hl⟩ := getElem?_split _ _ _ hk
    have htk : (kids u).take i = as := by rw [e]; exact List.take_left' hl
    rw [htk, size_node hu, e, sizeFields_append]
    simp only [sizeFields, size_leaf hsp]; omega
  generalize H.write (navigate H vx q).toNat i n = H' at *
  have su := sub_update H H' q tx u vx h1 ndx hfr w1
  constructor
  · intro y ty' vy' hy'
    by_cases hyx : y = x
    · subst hyx
      have := hx.symm.trans hy'
      simp only [Option.some.injEq, Prod.mk.injEq] at this
      obtain ⟨rfl, rfl⟩ := this
      exact ⟨su.1, fun h => absurd rfl h⟩
    · have hd := slots_disjoint ho.1 hy' hx hyx
      have := spine_flat_congr ty' H H' vy' (fun id hid j => hfr id (fun hm => hd id hid (sv.1.subset hm)) j)
      exact ⟨this.1, fun _ => this.2⟩
  · rw [su.2.2, w2, sv.2.1, h3, hnode.2]
    simp only [offsetAt, Nat.add_zero]
    exact splice_set _ _ _ _ _ (by rw [flat_length]; exact sv.2.2) hk'

/-! ### 5. the ownership invariant is preserved by every statement -/

theorem owned_init : Owned JState.init := ⟨List.nodup_nil, fun _ h => by cases h⟩

theorem owned_decl (tbl : Ctx → Bool) (σ : JState) (t : Ty) (ho : Owned σ) :
    Owned (stepJS tbl σ (.decl t)) := by
  rcases hz : zero t σ.heap with ⟨H', v⟩
  simp only [stepJS, hz]
  obtain ⟨z1, z2, z3, z4, _⟩ := zero_ok t σ.heap H' v hz
  exact owned_append ho z1 z2 z4 z3

theorem owned_bind (tbl : Ctx → Bool) (σ : JState) (c : Ctx) (e : Expr) (ho : Owned σ) (hc : tbl c = true) :
    Owned (stepJS tbl σ (.bind c e)) := by
  simp only [stepJS]
  cases he : evalJS tbl σ.slots e σ.heap with
  | none => exact ho
  | some r =>
    obtain ⟨H1, t, v⟩ := r
    simp only
    obtain ⟨tx, vx, hx, ht, hfl, hn, hfr, hb, _⟩ := evalJS_spec tbl σ.slots σ.heap ho.2 e H1 t v he
    cases hsp : isSpine t with
    | true =>
      obtain ⟨d1, d2, d3, d4, d5⟩ := clone_deep t hsp H1 v hb
      rcases hcl : clone t H1 v with ⟨H2, v'⟩
      rw [hcl] at d1 d2 d3 d4 d5
      simp only [hc, Bool.and_self, if_true] at d1 d2 d3 d4 d5 ⊢
      show OwnedH H2 (σ.slots ++ [(t, v')])
      exact owned_append ho (by omega) (fun id hid i => by rw [d4 id (by omega) i, hfr id hid i]) d3
        (fun id hid => by have := d2 id hid; omega)
    | false =>
      simp only [hc, Bool.and_false, Bool.false_eq_true, if_false]
      show OwnedH H1 (σ.slots ++ [(t, v)])
      exact owned_append ho hn hfr (by rw [spine_leaf hsp]; exact List.nodup_nil)
        (by rw [spine_leaf hsp]; intro _ h; cases h)

theorem owned_store (tbl : Ctx → Bool) (σ : JState) (c : Ctx) (x : Nat) (p : List Nat) (e : Expr)
    (ho : Owned σ) (hne : e.var ≠ x) : Owned (stepJS tbl σ (.store c x p e)) := by
  simp only [stepJS]
  cases he : evalJS tbl σ.slots e σ.heap with
  | none => exact ho
  | some r =>
    obtain ⟨H1, t, v⟩ := r
    simp only
    cases hx : σ.slots[x]? with
    | none => exact ho
    | some tv =>
      obtain ⟨tx, vx⟩ := tv
      simp only
      cases htp : typeAt tx p with
      | none => exact ho
      | some t' =>
        simp only
        by_cases hc : (Ty.beq t' t && isSpine t) = true
        · rw [if_pos hc]
          simp only [Bool.and_eq_true] at hc
          have := (Ty.beq_iff t' t).1 hc.1
          subst this
          obtain ⟨f1, f2, f3, _⟩ := store_facts tbl σ.slots σ.heap ho he hx htp hc.2 hne
          have e := allSpine_eq_of_slots (fun y ty vy hy => (f3 y ty vy hy).1)
          show OwnedH (copyInto t' H1 (navigate H1 vx p) v) σ.slots
          exact ownedH_of_eq e (by omega) ho
        · rw [if_neg hc]; exact ho

theorem allSpine_set_leaf (H : Heap) (slots : List (Ty × Int)) (x : Nat) (tx : Ty) (vx n : Int)
    (hx : slots[x]? = some (tx, vx)) (hsp : isSpine tx = false) :
    allSpine H (slots.set x (tx, n)) = allSpine H slots := by
  obtain ⟨as, bs, e, hl⟩ := getElem?_split _ _ _ hx
  subst hl
  rw [e]
  simp [allSpine, List.flatMap_append, List.flatMap_cons, spine_leaf hsp]

theorem owned_setLeaf (tbl : Ctx → Bool) (σ : JState) (x : Nat) (p : List Nat) (n : Int) (ho : Owned σ) :
    Owned (stepJS tbl σ (.setLeaf x p n)) := by
  simp only [stepJS]
  cases hx : σ.slots[x]? with
  | none => exact ho
  | some tv =>
    obtain ⟨tx, vx⟩ := tv
    simp only
    cases htp : typeAt tx p with
    | none => exact ho
    | some t =>
      simp only
      cases hsp : isSpine t with
      | true => exact ho
      | false =>
        simp only [Bool.false_eq_true, if_false]
        cases hl : p.getLast? with
        | none =>
          simp only
          have hp : p = [] := List.getLast?_eq_none_iff.1 hl
          subst hp
          simp only [typeAt, Option.some.injEq] at htp
          subst htp
          have e := allSpine_set_leaf σ.heap σ.slots x tx vx n hx hsp
          show OwnedH σ.heap (σ.slots.set x (tx, n))
          exact ownedH_of_eq e (Nat.le_refl _) ho
        | some i =>
          simp only
          obtain ⟨q, hq⟩ := List.getLast?_eq_some_iff.1 hl
          subst hq
          rw [List.dropLast_concat]
          obtain ⟨f3, _⟩ := setLeaf_facts σ.slots σ.heap ho n hx htp hsp
          have e := allSpine_eq_of_slots (fun y ty vy hy => (f3 y ty vy hy).1)
          show OwnedH (σ.heap.write (navigate σ.heap vx q).toNat i n) σ.slots
          exact ownedH_of_eq e (Nat.le_refl _) ho

theorem owned_dump (tbl : Ctx → Bool) (σ : JState) (x : Nat) (ho : Owned σ) :
    Owned (stepJS tbl σ (.dump x)) := by
  simp only [stepJS]
  cases hx : σ.slots[x]? with
  | none => exact ho
  | some tv => exact ho

theorem owned_step (tbl : Ctx → Bool) (σ : JState) (s : Stmt) (ho : Owned σ) (hs : stmtOK tbl s) :
    Owned (stepJS tbl σ s) := by
  cases s with
  | decl t => exact owned_decl tbl σ t ho
  | bind c e => exact owned_bind tbl σ c e ho hs
  | store c x p e => exact owned_store tbl σ c x p e ho hs
  | setLeaf x p n => exact owned_setLeaf tbl σ x p n ho
  | dump x => exact owned_dump tbl σ x ho

theorem owned_foldl (tbl : Ctx → Bool) (prog : List Stmt) (h : ∀ s ∈ prog, stmtOK tbl s) :
    ∀ σ, Owned σ → Owned (prog.foldl (stepJS tbl) σ) := by
  induction prog with
  | nil => intro σ hσ; exact hσ
  | cons s prog ih =>
    intro σ hσ
    rw [List.foldl_cons]
    exact ih (fun s' hs' => h s' (List.mem_cons_of_mem _ hs')) _
      (owned_step tbl σ s hσ (h s List.mem_cons_self))

/-- In every reachable JS heap two distinct storage locations of array/struct type never share an object and
    each location's spine is a tree. -/
theorem no_sharing (tbl : Ctx → Bool) (prog : List Stmt) (h : ∀ s ∈ prog, stmtOK tbl s) :
    Owned (prog.foldl (stepJS tbl) JState.init) :=
  owned_foldl tbl prog h _ owned_init

end GV.Heap
