import GV.Model.Utf8

namespace GV.Utf8

theorem subarray_eq (a : List Nat) (lo hi : Nat) : subarray a lo hi = (a.drop lo).take (hi - lo) := by
  unfold subarray; rw [List.drop_take]

theorem subarray_append (a : List Nat) (lo mid hi : Nat) (h1 : lo ≤ mid) (h2 : mid ≤ hi) :
    subarray a lo mid ++ subarray a mid hi = subarray a lo hi := by
  rw [subarray_eq, subarray_eq, subarray_eq]
  have e1 : a.drop mid = (a.drop lo).drop (mid - lo) := by rw [List.drop_drop]; congr 1; omega
  have e2 : hi - lo = (mid - lo) + (hi - mid) := by omega
  rw [e1, e2, List.take_add]

theorem aux_done (a : List Nat) (off len c fuel i : Nat) (h : len ≤ i) :
    bytesToStringAux a off len c fuel i = [] := by
  cases fuel with
  | zero => rfl
  | succ n => simp only [bytesToStringAux]; rw [if_neg (by omega)]

/-- the chunked loop, started at `i ≤ len` with enough fuel, yields the rest of the window -/
theorem aux_spec (a : List Nat) (off len c : Nat) (hc : 0 < c) :
    ∀ (fuel i : Nat), i ≤ len → len - i < fuel →
      bytesToStringAux a off len c fuel i = subarray a (off + i) (off + len) := by
  intro fuel
  induction fuel with
  | zero => intro i _ h; omega
  | succ n ih =>
    intro i hi hf
    simp only [bytesToStringAux]
    by_cases hlt : i < len
    · rw [if_pos hlt]
      by_cases hend : i + c ≤ len
      · have hm : min len (i + c) = i + c := by omega
        rw [hm, ih (i + c) hend (by omega)]
        have : off + (i + c) = off + i + c := by omega
        rw [this]
        exact subarray_append a (off + i) (off + i + c) (off + len) (by omega) (by omega)
      · have hm : min len (i + c) = len := by omega
        rw [hm, aux_done a off len c n (i + c) (by omega), List.append_nil]
    · have : i = len := by omega
      subst this
      rw [if_neg hlt, subarray_eq]; simp

end GV.Utf8
