import GV.Proofs.Num
import GV.Basic.Bits

/-! Helper lemmas for the 64-bit part of GV.Props.C06: bit operations on 16-bit limbs as arithmetic, the value of a
    `{$high,$low}` pair as a `BitVec 64`, the schoolbook product identity and the carry chain of `$mul64`. -/
namespace GV.Proofs.Num64
open GV.JSInt GV.Num64 GV.NumScheme GV.Spec.Num GV.Proofs.Num

theorem shr_16 (v : Int) : shr v 16 = toUint32 v / 65536 := by
  have h : shiftCount 16 = 16 := shiftCount_lit 16 (by omega)
  unfold shr; rw [h]; rfl

theorem bits32_cast (v : Int) : ((bits32 v : Nat) : Int) = toUint32 v := by
  unfold bits32; exact Int.toNat_of_nonneg (toUint32_range v).1

theorem band_ffff (v : Int) : band v 65535 = toUint32 v % 65536 := by
  unfold band
  have h1 : bits32 65535 = 2 ^ 16 - 1 := by decide
  rw [h1, Nat.and_two_pow_sub_one_eq_mod]
  have h2 := bits32_cast v
  have h3 : ((bits32 v % 2 ^ 16 : Nat) : Int) = toUint32 v % 65536 := by
    rw [Int.natCast_emod, h2]; rfl
  rw [Int.ofNat_eq_natCast, h3]
  have := toUint32_range v
  exact toInt32_id (by omega)

theorem shl16_or (a b : Int) (ha : 0 ≤ a ∧ a < 65536) (hb : 0 ≤ b ∧ b < 65536) :
    shr (bor (shl a 16) b) 0 = a * 65536 + b := by
  have h16 : shiftCount 16 = 16 := shiftCount_lit 16 (by omega)
  rw [fix32u]
  unfold bor
  have e1 : bits32 (shl a 16) = a.toNat * 65536 := by
    unfold bits32 shl; rw [h16]
    have : toUint32 (toInt32 (toInt32 a * 2 ^ 16)) = a * 65536 := by
      unfold toUint32 toInt32; split <;> split <;> omega
    rw [this]; omega
  have e2 : bits32 b = b.toNat := by
    unfold bits32; rw [toUint32_id (by omega)]
  rw [e1, e2, GV.Bits.mul_or_add' a.toNat b.toNat 65536 16 (by rfl) (by omega)]
  have : ((a.toNat * 65536 + b.toNat : Nat) : Int) = a * 65536 + b := by omega
  rw [Int.ofNat_eq_natCast, this]
  unfold toUint32 toInt32; split <;> omega


/-- the 64-bit vector denoted by a `{$high,$low}` pair -/
def toBV (x : W64) : BitVec 64 := BitVec.ofInt 64 (flatten64 x)
theorem ofInt64_congr {a b : Int} (h : a % 18446744073709551616 = b % 18446744073709551616) :
    BitVec.ofInt 64 a = BitVec.ofInt 64 b := by
  apply BitVec.eq_of_toInt_eq
  simp only [BitVec.toInt_ofInt, Int.bmod_def, Nat.reducePow, Int.cast_ofNat_Int]
  rw [h]
theorem toBV_mk64 (s : Bool) (h l : Int) : toBV (mk64 s h l) = BitVec.ofInt 64 (h * 4294967296 + l) := by
  apply ofInt64_congr
  cases s <;> simp only [flatten64, mk64, toInt32, toUint32, if_true, if_false, Bool.false_eq_true] <;> (try split) <;> omega

/-- schoolbook product of two 4-limb numbers, limbs as atoms -/
theorem limb_product (a3 a2 a1 a0 b3 b2 b1 b0 : Int) :
    (a3 * 281474976710656 + a2 * 4294967296 + a1 * 65536 + a0) * (b3 * 281474976710656 + b2 * 4294967296 + b1 * 65536 + b0) =
      a0 * b0 + (a1 * b0 + a0 * b1) * 65536 + (a2 * b0 + a1 * b1 + a0 * b2) * 4294967296
      + (a3 * b0 + a2 * b1 + a1 * b2 + a0 * b3) * 281474976710656
      + (a3 * b1 + a2 * b2 + a1 * b3 + (a3 * b2 + a2 * b3) * 65536 + a3 * b3 * 4294967296) * 18446744073709551616 := by
  grind

theorem mul64_words (x y : W64) (hxl : 0 ≤ x.low ∧ x.low < 4294967296) (hyl : 0 ≤ y.low ∧ y.low < 4294967296) :
    ((mul64Core x y).1 * 4294967296 + (mul64Core x y).2.1) % 18446744073709551616 =
      (flatten64 x * flatten64 y) % 18446744073709551616 := by
  -- limbs
  have hx48 := toUint32_range x.high; have hy48 := toUint32_range y.high
  have hxl' : toUint32 x.low = x.low := toUint32_id hxl
  have hyl' : toUint32 y.low = y.low := toUint32_id hyl
  -- flatten ≡ limb sum
  have ex : flatten64 x % 18446744073709551616 =
      ((toUint32 x.high / 65536) * 281474976710656 + (toUint32 x.high % 65536) * 4294967296 + (x.low / 65536) * 65536 + x.low % 65536) % 18446744073709551616 := by
    unfold flatten64 toUint32; omega
  have ey : flatten64 y % 18446744073709551616 =
      ((toUint32 y.high / 65536) * 281474976710656 + (toUint32 y.high % 65536) * 4294967296 + (y.low / 65536) * 65536 + y.low % 65536) % 18446744073709551616 := by
    unfold flatten64 toUint32; omega
  rw [Int.mul_emod (flatten64 x), ex, ey, ← Int.mul_emod, limb_product]
  simp only [mul64Core, shr_16, band_ffff, hxl', hyl', Int.zero_add]
  have r3 : 0 ≤ toUint32 x.high / 65536 ∧ toUint32 x.high / 65536 < 65536 := by omega
  have r2 : 0 ≤ toUint32 x.high % 65536 ∧ toUint32 x.high % 65536 < 65536 := by omega
  have r1 : 0 ≤ x.low / 65536 ∧ x.low / 65536 < 65536 := by omega
  have r0 : 0 ≤ x.low % 65536 ∧ x.low % 65536 < 65536 := by omega
  have s3 : 0 ≤ toUint32 y.high / 65536 ∧ toUint32 y.high / 65536 < 65536 := by omega
  have s2 : 0 ≤ toUint32 y.high % 65536 ∧ toUint32 y.high % 65536 < 65536 := by omega
  have s1 : 0 ≤ y.low / 65536 ∧ y.low / 65536 < 65536 := by omega
  have s0 : 0 ≤ y.low % 65536 ∧ y.low % 65536 < 65536 := by omega
  generalize toUint32 x.high / 65536 = x3 at *
  generalize toUint32 x.high % 65536 = x2 at *
  generalize x.low / 65536 = x1 at *
  generalize x.low % 65536 = x0 at *
  generalize toUint32 y.high / 65536 = y3 at *
  generalize toUint32 y.high % 65536 = y2 at *
  generalize y.low / 65536 = y1 at *
  generalize y.low % 65536 = y0 at *
  clear ex ey hx48 hy48 hxl' hyl' hxl hyl
  have pb : ∀ a b : Int, (0 ≤ a ∧ a < 65536) → (0 ≤ b ∧ b < 65536) → 0 ≤ a * b ∧ a * b ≤ 4294836225 := by
    intro a b ha hb
    refine ⟨Int.mul_nonneg ha.1 hb.1, ?_⟩
    have := Int.mul_le_mul (show a ≤ 65535 by omega) (show b ≤ 65535 by omega) hb.1 (by omega)
    omega
  have p00 := pb x0 y0 r0 s0; have p10 := pb x1 y0 r1 s0; have p01 := pb x0 y1 r0 s1
  have p20 := pb x2 y0 r2 s0; have p11 := pb x1 y1 r1 s1; have p02 := pb x0 y2 r0 s2
  have p30 := pb x3 y0 r3 s0; have p21 := pb x2 y1 r2 s1; have p12 := pb x1 y2 r1 s2; have p03 := pb x0 y3 r0 s3
  rw [shl16_or _ _ (by omega) (by omega), shl16_or _ _ (by omega) (by omega)]
  generalize x0 * y0 = q00 at *; generalize x1 * y0 = q10 at *; generalize x0 * y1 = q01 at *
  generalize x2 * y0 = q20 at *; generalize x1 * y1 = q11 at *; generalize x0 * y2 = q02 at *
  generalize x3 * y0 = q30 at *; generalize x2 * y1 = q21 at *; generalize x1 * y2 = q12 at *; generalize x0 * y3 = q03 at *
  generalize x3 * y1 + x2 * y2 + x1 * y3 + (x3 * y2 + x2 * y3) * 65536 + x3 * y3 * 4294967296 = big
  clear pb r0 r1 r2 r3 s0 s1 s2 s3
  unfold toUint32
  omega

end GV.Proofs.Num64
