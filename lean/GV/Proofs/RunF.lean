/-
  GV.Proofs.RunF — the executable machine used by the driver only produces runs of the relational machine `RunS`.
-/
import GV.Model.Flat

namespace GV.Flat
open GV.Ctrl

theorem runF_sound (E : Env σ) (forget : σ → σ) (sched : Nat → Nat → σ → Nat) (code : List Instr) :
    ∀ (fuel : Nat) (suf : List Instr) (st : σ) (r : Option (Nat × Nat)) (c : Bool) (k ns : Nat) (o : σ) (k' ns' : Nat),
      runF E forget sched code fuel suf st r c k ns = some (o, k', ns') →
      RunS E forget sched code suf st r c k o := by
  intro fuel
  induction fuel with
  | zero => intro suf st r c k ns o k' ns' h; simp [runF] at h
  | succ n ih =>
    intro suf st r c k ns o k' ns' h
    cases suf with
    | nil =>
      simp only [runF, Option.some.injEq, Prod.mk.injEq] at h
      obtain ⟨rfl, _, _⟩ := h
      exact .nil
    | cons i rest =>
      cases i with
      | case m => simp only [runF] at h; exact .case (ih _ _ _ _ _ _ _ _ _ h)
      | act a => simp only [runF] at h; exact .act (ih _ _ _ _ _ _ _ _ _ h)
      | jmp m => simp only [runF] at h; exact .jmp (ih _ _ _ _ _ _ _ _ _ h)
      | ret =>
        simp only [runF, Option.some.injEq, Prod.mk.injEq] at h
        obtain ⟨rfl, _, _⟩ := h
        exact .ret
      | jmpIf cc m =>
        simp only [runF] at h
        cases hc : E.cond cc st with
        | mk b st1 =>
          rw [hc] at h
          cases b with
          | true => exact .jmpIfT hc (ih _ _ _ _ _ _ _ _ _ h)
          | false => exact .jmpIfF hc (ih _ _ _ _ _ _ _ _ _ h)
      | jmpIfNot cc m =>
        simp only [runF] at h
        cases hc : E.cond cc st with
        | mk b st1 =>
          rw [hc] at h
          cases b with
          | true => exact .jmpIfNotT hc (ih _ _ _ _ _ _ _ _ _ h)
          | false => exact .jmpIfNotF hc (ih _ _ _ _ _ _ _ _ _ h)
      | direct s ctx =>
        simp only [runF] at h
        cases hh : hasCall s with
        | true => rw [hh] at h; simp at h
        | false =>
          rw [hh] at h
          simp only [Bool.false_eq_true, if_false] at h
          cases he : evalF E n s st with
          | none => rw [he] at h; simp at h
          | some res =>
            obtain ⟨g, st1⟩ := res
            rw [he] at h
            have hev := evalF_sound E n s st g st1 he
            cases g with
            | normal => exact .directN hh hev (ih _ _ _ _ _ _ _ _ _ h)
            | brk l => exact .directB hh hev (ih _ _ _ _ _ _ _ _ _ h)
            | ret =>
              simp only [Option.some.injEq, Prod.mk.injEq] at h
              obtain ⟨rfl, _, _⟩ := h
              exact .directR hh hev
            | cont l =>
              simp only at h
              cases hp : (ctx.tgt l).post.isCall with
              | true => rw [hp] at h; simp at h
              | false =>
                rw [hp] at h
                simp only [Bool.false_eq_true, if_false] at h
                exact .directC hh hev hp (ih _ _ _ _ _ _ _ _ _ h)
      | call f m =>
        simp only [runF] at h
        cases r with
        | none =>
          cases c with
          | true => simp at h
          | false =>
            simp only at h
            cases hs : sched k f st with
            | zero => rw [hs] at h; exact .callNow hs (ih _ _ _ _ _ _ _ _ _ h)
            | succ mm => rw [hs] at h; exact .callSusp hs (ih _ _ _ _ _ _ _ _ _ h)
        | some p =>
          obtain ⟨f', mm⟩ := p
          cases c with
          | false => cases mm <;> simp at h
          | true =>
            cases mm with
            | zero => exact .resumeDone (ih _ _ _ _ _ _ _ _ _ h)
            | succ m2 => exact .resumeMore (ih _ _ _ _ _ _ _ _ _ h)

end GV.Flat
