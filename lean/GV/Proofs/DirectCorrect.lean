import GV.Model.Direct

/-! Helper lemmas and the simulation proof for `GV.Props.C01.direct_correct`. -/
namespace GV.Proofs.Direct
open GV.Ctrl GV.Direct

/-- where the JS code is when the Go statement completes with `g`: a `continue` has already run the post statement -/
def adj (E : Env σ) (k : Ctx) : Sig → σ → σ
  | .cont x, st => evalSimple E (k.post x) st
  | _, st => st

theorem simpleJ_eval (E : Env σ) (p : Simple) (st : σ) (ls : List Nat) :
    EvalJ E ls (simpleJ p) st .normal (evalSimple E p st) := by
  cases p with
  | none => exact .skip
  | act a => exact .act
  | call f => exact .call

/-- an unlabelled `break` can only come out of a statement that `analysis.HasBreak` sees -/
theorem eval_hasBreak (E : Env σ) : ∀ {s st g st'}, Eval E s st g st' → g = .brk none → hasBreak s = true := by
  intro s st g st' h
  induction h with
  | skip => intro hg; cases hg
  | act => intro hg; cases hg
  | call => intro hg; cases hg
  | seqN _ _ _ ih2 => intro hg; simp [hasBreak, ih2 hg]
  | seqA _ _ ih1 => intro hg; simp [hasBreak, ih1 hg]
  | iteT _ _ ih => intro hg; simp [hasBreak, ih hg]
  | iteF _ _ ih => intro hg; simp [hasBreak, ih hg]
  | block _ ih => intro hg; simp [hasBreak, ih hg]
  | brk => intro hg; cases hg; rfl
  | cont => intro hg; cases hg
  | ret => intro hg; cases hg
  | @sw b st g st1 l _ _ =>
    intro hg
    cases g with
    | brk x =>
      simp only [swSig] at hg
      split at hg
      · cases hg
      · cases hg; rename_i hne; simp [targets] at hne
    | normal => cases hg
    | cont x => cases hg
    | ret => cases hg
  | loopDone _ => intro hg; cases hg
  | loopAgain _ _ _ _ _ ih2 => intro hg; exact ih2 hg
  | loopExit _ _ _ _ => intro hg; cases hg
  | loopProp _ _ ha _ => intro hg; subst hg; simp [loopAct, targets] at ha

/-- a `continue y` can only come out of a statement that contains one -/
theorem eval_occursCont (E : Env σ) (y : Nat) : ∀ {s st g st'}, Eval E s st g st' → g = .cont (some y) →
    occursCont y s = true := by
  intro s st g st' h
  induction h with
  | skip => intro hg; cases hg
  | act => intro hg; cases hg
  | call => intro hg; cases hg
  | seqN _ _ _ ih2 => intro hg; simp [occursCont, ih2 hg]
  | seqA _ _ ih1 => intro hg; simp [occursCont, ih1 hg]
  | iteT _ _ ih => intro hg; simp [occursCont, ih hg]
  | iteF _ _ ih => intro hg; simp [occursCont, ih hg]
  | block _ ih => intro hg; simp [occursCont, ih hg]
  | brk => intro hg; cases hg
  | cont => intro hg; cases hg; simp [occursCont]
  | ret => intro hg; cases hg
  | @sw b st g st1 l _ ih =>
    intro hg
    cases g with
    | brk x =>
      simp only [swSig] at hg
      split at hg <;> cases hg
    | normal => cases hg
    | cont x => simp only [swSig] at hg; simp [occursCont, ih hg]
    | ret => cases hg
  | loopDone _ => intro hg; cases hg
  | loopAgain _ _ _ _ _ ih2 => intro hg; exact ih2 hg
  | loopExit _ _ _ _ => intro hg; cases hg
  | loopProp _ _ _ ih1 => intro hg; simp [occursCont, ih1 hg]

/-! ### the loop skeleton -/

def unlabelO : Option Nat → Sig → Sig
  | none, g => g
  | some l, g => unlabel l g

def postPart (b : Stmt) (p : Simple) (j : JStmt) : JStmt := if lastIsBranch b then j else .seq j (simpleJ p)

def condPart (c : Option Nat) (j : JStmt) : JStmt :=
  match c with
  | some c => .seq (.ifNotBreak c) j
  | none => j

theorem direct_loop (k : Ctx) (l c : Option Nat) (p : Simple) (b : Stmt) :
    direct k (.loop l c p b) =
      wrapLabel l (.whileTrue (condPart c (postPart b p (direct { cur := p, labs := pushLab l p k.labs } b)))) := by
  simp only [direct, condPart, postPart]
  cases c <;> rfl

theorem wrap_iter (E : Env σ) (l : Option Nat) (body : JStmt) {st st1 st2 : σ} {g g' : Sig}
    (h1 : EvalJ E [] body st g st1) (h2 : loopContinues l.toList g = true)
    (h3 : EvalJ E [] (wrapLabel l (.whileTrue body)) st1 g' st2) :
    EvalJ E [] (wrapLabel l (.whileTrue body)) st g' st2 := by
  cases l with
  | none => exact .whileIter h1 h2 h3
  | some x =>
    simp only [wrapLabel] at h3 ⊢
    cases h3 with
    | labeled h3' => exact .labeled (.whileIter h1 (by simpa using h2) h3')

theorem wrap_exit (E : Env σ) (l : Option Nat) (body : JStmt) {st st1 : σ} {g : Sig}
    (h1 : EvalJ E [] body st g st1) (h2 : loopContinues l.toList g = false) :
    EvalJ E [] (wrapLabel l (.whileTrue body)) st (unlabelO l (breakable g)) st1 := by
  cases l with
  | none => exact .whileExit h1 h2
  | some x => exact .labeled (.whileExit h1 (by simpa using h2))

/-- one pass through `if (!(c)) { break; } body; post` when the condition holds and the body completes abruptly -/
theorem body_abrupt (E : Env σ) (c : Option Nat) (b : Stmt) (p : Simple) (j : JStmt) {st st1 st2 : σ} {g : Sig}
    (hc : evalCond E c st = (true, st1)) (hj : EvalJ E [] j st1 g st2) (hg : g ≠ .normal) :
    EvalJ E [] (condPart c (postPart b p j)) st g st2 := by
  have hp : EvalJ E [] (postPart b p j) st1 g st2 := by
    unfold postPart
    split
    · exact hj
    · exact .seqA hj hg
  cases c with
  | none => simp only [evalCond, Prod.mk.injEq] at hc; obtain ⟨-, rfl⟩ := hc; exact hp
  | some c => exact .seqN (.inbT hc) hp

/-- … and when the body completes normally (then the post statement follows) -/
theorem body_normal (E : Env σ) (c : Option Nat) (b : Stmt) (p : Simple) (j : JStmt) {st st1 st2 : σ}
    (hc : evalCond E c st = (true, st1)) (hj : EvalJ E [] j st1 .normal st2) (hb : lastIsBranch b = false) :
    EvalJ E [] (condPart c (postPart b p j)) st .normal (evalSimple E p st2) := by
  have hp : EvalJ E [] (postPart b p j) st1 .normal (evalSimple E p st2) := by
    unfold postPart
    simp only [hb, Bool.false_eq_true, if_false]
    exact .seqN hj (simpleJ_eval E p st2 [])
  cases c with
  | none => simp only [evalCond, Prod.mk.injEq] at hc; obtain ⟨-, rfl⟩ := hc; exact hp
  | some c => exact .seqN (.inbT hc) hp

theorem body_done (E : Env σ) (c : Option Nat) (b : Stmt) (p : Simple) (j : JStmt) {st st1 : σ}
    (hc : evalCond E c st = (false, st1)) :
    EvalJ E [] (condPart c (postPart b p j)) st (.brk none) st1 := by
  cases c with
  | none => simp [evalCond] at hc
  | some c => exact .seqA (.inbF hc) (by simp)

theorem post_push_self (k : Ctx) (l : Option Nat) (p : Simple) (x : Option Nat) (h : targets l x = true) :
    Ctx.post { cur := p, labs := pushLab l p k.labs } x = p := by
  cases x with
  | none => rfl
  | some y =>
    simp only [targets, beq_iff_eq] at h
    subst h
    simp [Ctx.post, pushLab]

theorem post_push_other (k : Ctx) (l : Option Nat) (p q : Simple) (y : Nat) (h : l ≠ some y) :
    Ctx.post { cur := q, labs := pushLab l p k.labs } (some y) = k.post (some y) := by
  cases l with
  | none => rfl
  | some z =>
    have hne : (y == z) = false := by
      simp only [beq_eq_false_iff_ne, ne_eq]
      intro e; exact h (by rw [e])
    simp [Ctx.post, pushLab, List.lookup, hne]

theorem toList_contains (l : Option Nat) (y : Nat) : l.toList.contains y = (l == some y) := by
  cases l with
  | none => rfl
  | some z =>
    simp only [Option.toList, List.contains_cons, List.contains_nil, Bool.or_false]
    by_cases h : y = z
    · subst h; simp
    · have : ¬ z = y := fun e => h e.symm
      rw [show (y == z) = false from by simpa using h]
      simp [this]

/-- **simulation** — by induction on the reference derivation -/
theorem direct_sim (E : Env σ) : ∀ {s st g st'}, Eval E s st g st' → ∀ k : Ctx, wf s = true →
    EvalJ E [] (direct k s) st g (adj E k g st') := by
  intro s st g st' h
  induction h with
  | skip => intro k _; exact .skip
  | act => intro k _; exact .act
  | call => intro k _; exact .call
  | seqN _ _ ih1 ih2 =>
    intro k hw
    simp only [wf, Bool.and_eq_true] at hw
    exact .seqN (ih1 k hw.1) (ih2 k hw.2)
  | seqA _ hne ih1 =>
    intro k hw
    simp only [wf, Bool.and_eq_true] at hw
    exact .seqA (ih1 k hw.1) hne
  | iteT hc _ ih =>
    intro k hw
    simp only [wf, Bool.and_eq_true] at hw
    exact .iteT hc (ih k hw.1)
  | iteF hc _ ih =>
    intro k hw
    simp only [wf, Bool.and_eq_true] at hw
    exact .iteF hc (ih k hw.2)
  | block _ ih =>
    intro k hw
    simp only [wf] at hw
    exact .block (ih k hw)
  | brk => intro k _; exact .brk
  | @cont l st =>
    intro k _
    exact .seqN (simpleJ_eval E (k.post l) st []) .cont
  | ret => intro k _; exact .ret
  | @sw b st g st1 l hb ih =>
    intro k hw
    -- the post statement a `continue` inside the switch emits is the one of the enclosing loop
    have hadj : adj E { cur := k.cur, labs := pushLab l k.cur k.labs } g st1 = adj E k (swSig l g) st1 := by
      cases g with
      | normal => rfl
      | ret => rfl
      | brk x => simp only [swSig]; split <;> rfl
      | cont x =>
        cases x with
        | none => rfl
        | some y =>
          simp only [swSig, adj]
          have hne : l ≠ some y := by
            intro e
            subst e
            simp only [wf, Bool.and_eq_true, Bool.not_eq_true'] at hw
            have := eval_occursCont E y hb rfl
            rw [this] at hw
            exact absurd hw.1 (by simp)
          rw [post_push_other k l k.cur k.cur y hne]
    have hwb : wf b = true := by
      cases l with
      | none => simpa [wf] using hw
      | some x => simp only [wf, Bool.and_eq_true] at hw; exact hw.2
    have ihb := ih { cur := k.cur, labs := pushLab l k.cur k.labs } hwb
    rw [hadj] at ihb
    simp only [direct]
    split
    · -- wrapped: `[L:] switch (0) { default: … }`
      have hsig : swSig l g = unlabelO l (breakable g) := by
        cases g with
        | normal => cases l <;> rfl
        | ret => cases l <;> rfl
        | cont x => cases l <;> rfl
        | brk x =>
          cases x with
          | none => cases l <;> simp [swSig, targets, breakable, unlabelO, unlabel]
          | some y =>
            cases l with
            | none => simp [swSig, targets, breakable, unlabelO]
            | some z =>
              simp only [swSig, targets, breakable, unlabelO, unlabel, beq_iff_eq, Option.some.injEq]
              by_cases hzy : z = y
              · subst hzy; simp
              · have : ¬ y = z := fun e => hzy e.symm
                simp [hzy, this]
      rw [hsig] at ihb ⊢
      cases l with
      | none => exact .switch0 ihb
      | some x => exact .labeled (.switch0 ihb)
    · -- bare body: unlabelled switch without an unlabelled break
      rename_i hcond
      simp only [Bool.or_eq_true, not_or, Bool.not_eq_true, Option.isSome_eq_false_iff, Option.isNone_iff_eq_none] at hcond
      obtain ⟨hl, hnb⟩ := hcond
      subst hl
      have hg : swSig none g = g := by
        cases g with
        | brk x =>
          cases x with
          | none =>
            have := eval_hasBreak E hb rfl
            rw [this] at hnb; cases hnb
          | some y => simp [swSig, targets]
        | normal => rfl
        | cont x => rfl
        | ret => rfl
      rw [hg] at ihb ⊢
      exact .block ihb
  | @loopDone c st st1 l p b hc =>
    intro k _
    rw [direct_loop]
    have := wrap_exit E l _ (body_done E c b p (direct { cur := p, labs := pushLab l p k.labs } b) hc)
      (by rfl)
    cases l <;> exact this
  | @loopAgain c st st1 b g st2 l p g' st3 hc hb ha _ ih1 ih2 =>
    intro k hw
    have hwb : wf b = true := by simpa [wf] using hw
    have ihb := ih1 { cur := p, labs := pushLab l p k.labs } hwb
    have ihl := ih2 k hw
    rw [direct_loop] at ihl ⊢
    cases g with
    | normal =>
      have hnb : lastIsBranch b = false := by
        cases hlb : lastIsBranch b with
        | false => rfl
        | true => exact absurd rfl (eval_lastIsBranch E hb hlb)
      exact wrap_iter E l _ (body_normal E c b p _ hc ihb hnb) (by rfl) ihl
    | cont x =>
      have ht : targets l x = true := by
        simp only [loopAct] at ha
        split at ha
        · assumption
        · cases ha
      have hst : adj E { cur := p, labs := pushLab l p k.labs } (.cont x) st2 = evalSimple E p st2 := by
        simp only [adj, post_push_self k l p x ht]
      rw [hst] at ihb
      refine wrap_iter E l _ (body_abrupt E c b p _ hc ihb (by simp)) ?_ ihl
      cases x with
      | none => rfl
      | some y =>
        simp only [loopContinues, toList_contains]
        simpa [targets] using ht
    | brk x => simp only [loopAct] at ha; split at ha <;> cases ha
    | ret => cases ha
  | @loopExit c st st1 b g st2 l p hc hb ha ih1 =>
    intro k hw
    have hwb : wf b = true := by simpa [wf] using hw
    have ihb := ih1 { cur := p, labs := pushLab l p k.labs } hwb
    rw [direct_loop]
    cases g with
    | brk x =>
      have ht : targets l x = true := by
        simp only [loopAct] at ha
        split at ha
        · assumption
        · cases ha
      have := wrap_exit E l _ (body_abrupt E c b p _ hc ihb (by simp)) (by rfl)
      have hs : unlabelO l (breakable (.brk x)) = .normal := by
        cases x with
        | none => cases l <;> rfl
        | some y =>
          simp only [targets, beq_iff_eq] at ht
          subst ht
          simp [breakable, unlabelO, unlabel]
      rw [hs] at this
      exact this
    | normal => cases ha
    | cont x => simp only [loopAct] at ha; split at ha <;> cases ha
    | ret => cases ha
  | @loopProp c st st1 b g st2 l p hc hb ha ih1 =>
    intro k hw
    have hwb : wf b = true := by simpa [wf] using hw
    have ihb := ih1 { cur := p, labs := pushLab l p k.labs } hwb
    rw [direct_loop]
    cases g with
    | normal => cases ha
    | ret =>
      have := wrap_exit E l _ (body_abrupt E c b p _ hc ihb (by simp)) (by rfl)
      have hs : unlabelO l (breakable .ret) = .ret := by cases l <;> rfl
      rw [hs] at this
      exact this
    | brk x =>
      have ht : targets l x = false := by
        simp only [loopAct] at ha
        split at ha
        · cases ha
        · rename_i h; simpa using h
      cases x with
      | none => simp [targets] at ht
      | some y =>
        have := wrap_exit E l _ (body_abrupt E c b p _ hc ihb (by simp)) (by rfl)
        have hs : unlabelO l (breakable (.brk (some y))) = .brk (some y) := by
          cases l with
          | none => rfl
          | some z =>
            simp only [targets, beq_eq_false_iff_ne, ne_eq, Option.some.injEq] at ht
            have : ¬ y = z := fun e => ht e.symm
            simp [breakable, unlabelO, unlabel, this]
        rw [hs] at this
        exact this
    | cont x =>
      have ht : targets l x = false := by
        simp only [loopAct] at ha
        split at ha
        · cases ha
        · rename_i h; simpa using h
      cases x with
      | none => simp [targets] at ht
      | some y =>
        have hne : l ≠ some y := by
          intro e; subst e; simp [targets] at ht
        have hst : adj E { cur := p, labs := pushLab l p k.labs } (.cont (some y)) st2 = adj E k (.cont (some y)) st2 := by
          simp only [adj, post_push_other k l p p y hne]
        rw [hst] at ihb
        have := wrap_exit E l _ (body_abrupt E c b p _ hc ihb (by simp))
          (by simp only [loopContinues, toList_contains]; simpa [targets] using ht)
        have hs : unlabelO l (breakable (.cont (some y))) = .cont (some y) := by cases l <;> rfl
        rw [hs] at this
        exact this

/-! ### MiniJS is deterministic, and its interpreter is sound -/

theorem evalJ_det (E : Env σ) : ∀ {ls s st g1 st1}, EvalJ E ls s st g1 st1 → ∀ {g2 st2}, EvalJ E ls s st g2 st2 →
    g1 = g2 ∧ st1 = st2 := by
  intro ls s st g1 st1 h
  induction h with
  | skip => intro g2 st2 h2; cases h2; exact ⟨rfl, rfl⟩
  | act => intro g2 st2 h2; cases h2; exact ⟨rfl, rfl⟩
  | call => intro g2 st2 h2; cases h2; exact ⟨rfl, rfl⟩
  | brk => intro g2 st2 h2; cases h2; exact ⟨rfl, rfl⟩
  | cont => intro g2 st2 h2; cases h2; exact ⟨rfl, rfl⟩
  | ret => intro g2 st2 h2; cases h2; exact ⟨rfl, rfl⟩
  | seqN _ _ ih1 ih2 =>
    intro g2 st2 h2
    cases h2 with
    | seqN a b => obtain ⟨-, rfl⟩ := ih1 a; exact ih2 b
    | seqA a hne => obtain ⟨e, -⟩ := ih1 a; exact absurd e.symm hne
  | seqA _ hne ih1 =>
    intro g2 st2 h2
    cases h2 with
    | seqN a b => obtain ⟨e, -⟩ := ih1 a; exact absurd e hne
    | seqA a _ => exact ih1 a
  | iteT hc _ ih =>
    intro g2 st2 h2
    cases h2 with
    | iteT hc2 a => rw [hc] at hc2; cases hc2; exact ih a
    | iteF hc2 a => rw [hc] at hc2; cases hc2
  | iteF hc _ ih =>
    intro g2 st2 h2
    cases h2 with
    | iteT hc2 a => rw [hc] at hc2; cases hc2
    | iteF hc2 a => rw [hc] at hc2; cases hc2; exact ih a
  | inbT hc =>
    intro g2 st2 h2
    cases h2 with
    | inbT hc2 => rw [hc] at hc2; cases hc2; exact ⟨rfl, rfl⟩
    | inbF hc2 => rw [hc] at hc2; cases hc2
  | inbF hc =>
    intro g2 st2 h2
    cases h2 with
    | inbT hc2 => rw [hc] at hc2; cases hc2
    | inbF hc2 => rw [hc] at hc2; cases hc2; exact ⟨rfl, rfl⟩
  | block _ ih => intro g2 st2 h2; cases h2 with | block a => exact ih a
  | switch0 _ ih =>
    intro g2 st2 h2
    cases h2 with
    | switch0 a => obtain ⟨rfl, rfl⟩ := ih a; exact ⟨rfl, rfl⟩
  | labeled _ ih =>
    intro g2 st2 h2
    cases h2 with
    | labeled a => obtain ⟨rfl, rfl⟩ := ih a; exact ⟨rfl, rfl⟩
  | whileIter _ hl _ ih1 ih2 =>
    intro g2 st2 h2
    cases h2 with
    | whileIter a hl2 b => obtain ⟨rfl, rfl⟩ := ih1 a; exact ih2 b
    | whileExit a hl2 => obtain ⟨rfl, rfl⟩ := ih1 a; rw [hl] at hl2; cases hl2
  | whileExit _ hl ih1 =>
    intro g2 st2 h2
    cases h2 with
    | whileIter a hl2 b => obtain ⟨rfl, rfl⟩ := ih1 a; rw [hl] at hl2; cases hl2
    | whileExit a hl2 => obtain ⟨rfl, rfl⟩ := ih1 a; exact ⟨rfl, rfl⟩

theorem evalJF_sound (E : Env σ) : ∀ fuel ls s st g st', evalJF E fuel ls s st = some (g, st') → EvalJ E ls s st g st' := by
  intro fuel
  induction fuel with
  | zero => intro ls s st g st' h; simp [evalJF] at h
  | succ n ih =>
    intro ls s st g st' h
    cases s with
    | skip => simp [evalJF] at h; obtain ⟨rfl, rfl⟩ := h; exact .skip
    | act a => simp [evalJF] at h; obtain ⟨rfl, rfl⟩ := h; exact .act
    | call f => simp [evalJF] at h; obtain ⟨rfl, rfl⟩ := h; exact .call
    | brk l => simp [evalJF] at h; obtain ⟨rfl, rfl⟩ := h; exact .brk
    | cont l => simp [evalJF] at h; obtain ⟨rfl, rfl⟩ := h; exact .cont
    | ret => simp [evalJF] at h; obtain ⟨rfl, rfl⟩ := h; exact .ret
    | block s => simp only [evalJF] at h; exact .block (ih _ _ _ _ _ h)
    | seq s t =>
      simp only [evalJF] at h
      cases h1 : evalJF E n [] s st with
      | none => rw [h1] at h; simp at h
      | some r =>
        obtain ⟨g1, st1⟩ := r
        rw [h1] at h
        cases g1 with
        | normal => exact .seqN (ih _ _ _ _ _ h1) (ih _ _ _ _ _ h)
        | brk l => simp at h; obtain ⟨rfl, rfl⟩ := h; exact .seqA (ih _ _ _ _ _ h1) (by simp)
        | cont l => simp at h; obtain ⟨rfl, rfl⟩ := h; exact .seqA (ih _ _ _ _ _ h1) (by simp)
        | ret => simp at h; obtain ⟨rfl, rfl⟩ := h; exact .seqA (ih _ _ _ _ _ h1) (by simp)
    | ite c t e =>
      simp only [evalJF] at h
      cases hc : E.cond c st with
      | mk b st1 =>
        rw [hc] at h
        cases b with
        | true => exact .iteT hc (ih _ _ _ _ _ h)
        | false => exact .iteF hc (ih _ _ _ _ _ h)
    | ifNotBreak c =>
      simp only [evalJF] at h
      cases hc : E.cond c st with
      | mk b st1 =>
        rw [hc] at h
        cases b with
        | true => simp at h; obtain ⟨rfl, rfl⟩ := h; exact .inbT hc
        | false => simp at h; obtain ⟨rfl, rfl⟩ := h; exact .inbF hc
    | switch0 b =>
      simp only [evalJF] at h
      cases h1 : evalJF E n [] b st with
      | none => rw [h1] at h; simp at h
      | some r =>
        obtain ⟨g1, st1⟩ := r
        rw [h1] at h; simp at h; obtain ⟨rfl, rfl⟩ := h
        exact .switch0 (ih _ _ _ _ _ h1)
    | labeled l s =>
      simp only [evalJF] at h
      cases h1 : evalJF E n (ls ++ [l]) s st with
      | none => rw [h1] at h; simp at h
      | some r =>
        obtain ⟨g1, st1⟩ := r
        rw [h1] at h; simp at h; obtain ⟨rfl, rfl⟩ := h
        exact .labeled (ih _ _ _ _ _ h1)
    | whileTrue b =>
      simp only [evalJF] at h
      cases h1 : evalJF E n [] b st with
      | none => rw [h1] at h; simp at h
      | some r =>
        obtain ⟨g1, st1⟩ := r
        rw [h1] at h; simp only at h
        cases hl : loopContinues ls g1 with
        | true => rw [hl] at h; simp only [if_true] at h; exact .whileIter (ih _ _ _ _ _ h1) hl (ih _ _ _ _ _ h)
        | false =>
          rw [hl] at h; simp at h; obtain ⟨rfl, rfl⟩ := h
          exact .whileExit (ih _ _ _ _ _ h1) hl

end GV.Proofs.Direct
