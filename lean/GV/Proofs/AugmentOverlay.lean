/-
  GV.Proofs.AugmentOverlay — the overlay half of the merge (`augmentOverlayFile`, `collectOverlays`):
  the override table agrees with the documented rules, the processed overlay files declare what the
  specification says, and they do not depend on the incoming table.
-/
import GV.Proofs.Augment
import GV.Spec.Augment

namespace GV.Augment
open GV.Spec.Augment

/-! ### G1: the override table -/

/-- a sequence of map assignments `m[k] = v` -/
def setAll {β : Type} (l : List (String × β)) (m : List (String × β)) : List (String × β) :=
  l.foldl (fun m p => set p.1 p.2 m) m

theorem setAll_nil {β : Type} (m : List (String × β)) : setAll [] m = m := rfl

theorem setAll_cons {β : Type} (p : String × β) (t m : List (String × β)) :
    setAll (p :: t) m = setAll t (set p.1 p.2 m) := rfl

theorem setAll_append {β : Type} (a b m : List (String × β)) :
    setAll (a ++ b) m = setAll b (setAll a m) := by
  unfold setAll; rw [List.foldl_append]

/-- after a sequence of assignments the last assignment of a key wins -/
theorem get_setAll {β : Type} (k : String) (l : List (String × β)) : ∀ m0 : List (String × β),
    GV.Augment.get k (setAll l m0) =
      match l.reverse.find? (fun p => p.1 == k) with
      | some p => some p.2
      | none => GV.Augment.get k m0 := by
  induction l with
  | nil => intro m0; rfl
  | cons p t ih =>
    intro m0
    rw [setAll_cons, ih, List.reverse_cons, List.find?_append]
    cases hf : t.reverse.find? (fun p => p.1 == k) with
    | some q => rfl
    | none =>
      simp only [Option.none_or, List.find?_cons, List.find?_nil]
      by_cases h : p.1 = k
      · have hb : (p.1 == k) = true := by simpa using h
        rw [hb, ← h, get_set_self]
      · have hb : (p.1 == k) = false := by simpa using h
        rw [hb, get_set_ne _ _ _ _ (fun e => h e.symm)]

/-- a rule list as the list of table assignments it stands for -/
def infos (l : List (String × Rule)) : List (String × Info) := l.map (fun p => (p.1, toInfo p.2))

theorem infos_append (a b : List (String × Rule)) : infos (a ++ b) = infos a ++ infos b := by
  unfold infos; rw [List.map_append]

/-- the rules one spec contributes (the body of `declRules`) -/
def specRules (dirs : List String) (s : Spec) : List (String × Rule) :=
  match s with
  | .type _ name _ _ _ => [(name, { purge := GV.Spec.Augment.specPurged (dirs.contains "purge") s })]
  | .value names _ _ _ _ => (names.filterMap id).map fun n => (n.n, {})
  | .imp _ => []

theorem declRules_gen (tok : Tok) (dirs : List String) (doc : List Cm) (specs : List (Option Spec)) :
    declRules (.gen tok dirs doc specs) = (specs.filterMap id).flatMap (specRules dirs) := by
  unfold declRules
  congr 1

theorem names_collect (names : List (Option Name)) : ∀ ov : Overrides,
    names.foldl (fun m n => match n with | some n => set n.n {} m | none => m) ov
      = setAll (infos ((names.filterMap id).map fun n => (n.n, ({} : Rule)))) ov := by
  induction names with
  | nil => intro ov; rfl
  | cons n t ih =>
    intro ov
    cases n with
    | none => exact ih ov
    | some n =>
      rw [List.foldl_cons, ih]
      rfl

theorem ovSpecCollect_eq (dirs : List String) (ov : Overrides) (s : Option Spec) :
    ovSpecCollect (hasDir dirs "purge") ov s = setAll (infos (s.elim [] (specRules dirs))) ov := by
  cases s with
  | none => rfl
  | some s =>
    cases s with
    | type id name d sels cms => rfl
    | value names values d tsels cms => exact names_collect names ov
    | imp i => rfl

theorem specs_collect (dirs : List String) (specs : List (Option Spec)) : ∀ ov : Overrides,
    specs.foldl (ovSpecCollect (hasDir dirs "purge")) ov
      = setAll (infos ((specs.filterMap id).flatMap (specRules dirs))) ov := by
  induction specs with
  | nil => intro ov; rfl
  | cons s t ih =>
    intro ov
    rw [List.foldl_cons, ih, ovSpecCollect_eq]
    cases s with
    | none => rfl
    | some s =>
      rw [List.filterMap_cons_some (by rfl : id (some s) = some s), List.flatMap_cons, infos_append,
        setAll_append]
      rfl

theorem ovDeclCollect_eq (ov : Overrides) (d : Option Decl) :
    ovDeclCollect ov d = setAll (infos (d.elim [] declRules)) ov := by
  cases d with
  | none => rfl
  | some d =>
    cases d with
    | func f => rfl
    | gen tok dirs doc specs =>
      show specs.foldl (ovSpecCollect (hasDir dirs "purge")) ov = _
      rw [specs_collect, Option.elim, declRules_gen]

theorem decls_collect (decls : List (Option Decl)) : ∀ ov : Overrides,
    decls.foldl ovDeclCollect ov = setAll (infos ((decls.filterMap id).flatMap declRules)) ov := by
  induction decls with
  | nil => intro ov; rfl
  | cons d t ih =>
    intro ov
    rw [List.foldl_cons, ih, ovDeclCollect_eq]
    cases d with
    | none => rfl
    | some d =>
      rw [List.filterMap_cons_some (by rfl : id (some d) = some d), List.flatMap_cons, infos_append,
        setAll_append]
      rfl

theorem augmentOverlayFile_fst (ov : Overrides) (f : File) :
    (augmentOverlayFile ov f).1 = f.decls.foldl ovDeclCollect ov := rfl

/-- the processed overlay file does not depend on the incoming table -/
theorem augmentOverlayFile_snd (ov : Overrides) (f : File) :
    (augmentOverlayFile ov f).2 = (augmentOverlayFile [] f).2 := rfl

theorem collectOverlays_fold (overlays : List File) : ∀ acc : Overrides × List File,
    overlays.foldl (fun (acc : Overrides × List File) f =>
        let r := augmentOverlayFile acc.1 f
        (r.1, acc.2 ++ [r.2])) acc
      = (setAll (infos (overlayRules overlays)) acc.1,
         acc.2 ++ overlays.map (fun f => (augmentOverlayFile [] f).2)) := by
  induction overlays with
  | nil => intro acc; simp [overlayRules, infos, setAll_nil]
  | cons f t ih =>
    intro acc
    rw [List.foldl_cons, ih]
    simp only [augmentOverlayFile_fst, decls_collect, overlayRules, List.flatMap_cons, infos_append,
      setAll_append, List.map_cons, List.append_assoc, List.singleton_append]
    rfl

theorem collectOverlays_fst (overlays : List File) :
    (collectOverlays overlays).1 = setAll (infos (overlayRules overlays)) [] := by
  unfold collectOverlays; rw [collectOverlays_fold]

/-- G3: the processed overlay files do not depend on the table collected so far -/
theorem collectOverlays_snd (overlays : List File) :
    (collectOverlays overlays).2 = overlays.map (fun f => (augmentOverlayFile [] f).2) := by
  unfold collectOverlays; rw [collectOverlays_fold]; rfl

theorem find_infos_reverse (k : String) (l : List (String × Rule)) :
    (infos l).reverse.find? (fun p => p.1 == k)
      = (l.reverse.find? (fun p => p.1 == k)).map (fun p => (p.1, toInfo p.2)) := by
  unfold infos
  rw [← List.map_reverse, List.find?_map]
  rfl

/-- G1: the override table built from the overlay files says exactly what the documented rules say -/
theorem overrides_agree (overlays : List File) : Agree (overridesOf overlays) (overlayRules overlays) := by
  intro k
  unfold overridesOf ruleFor
  by_cases hk : k = "init"
  · subst hk
    rw [get_erase_self]
    rfl
  · have hb : (k == "init") = false := by simpa using hk
    rw [get_erase_ne _ _ _ hk, collectOverlays_fst, get_setAll, find_infos_reverse, hb]
    cases (overlayRules overlays).reverse.find? (fun p => p.1 == k) <;> rfl

/-! ### G2: the entries of a processed overlay file -/

theorem notBlank_noVal (e : Entry) : notBlank (noVal e) = notBlank e := rfl

theorem filter_notBlank_noVal (l : List Entry) :
    (l.filter notBlank).map noVal = (l.map noVal).filter notBlank := by
  induction l with
  | nil => rfl
  | cons e t ih =>
    rw [List.filter_cons, List.map_cons, List.filter_cons, notBlank_noVal]
    split
    · rw [List.map_cons, ih]
    · exact ih

theorem map_zipIdx_fst {α β : Type} (g : α → β) (l : List α) : ∀ i : Nat,
    (l.zipIdx i).map (fun p => g p.1) = l.map g := by
  induction l with
  | nil => intro i; rfl
  | cons a t ih => intro i; rw [List.zipIdx_cons, List.map_cons, List.map_cons, ih]

/-- the names a spec of a constant declaration declares -/
def constNames : Spec → List Entry
  | .value names _ _ _ _ =>
    (names.filterMap id).map (fun n => ({ kind := .const, name := n.n, id := n.id } : Entry))
  | _ => []

/-- up to the values, the entries of a constant group are the names of the selected specs -/
theorem constEntries_noVal_ov (keep : Spec → Bool) (specs : List Spec) : ∀ (i : Nat) (inh : List Val),
    (constEntries keep specs i inh).map noVal = (specs.filter keep).flatMap constNames := by
  induction specs with
  | nil => intro _ _; rfl
  | cons s t ih =>
    intro i inh
    have hskip : constNames s = [] →
        (t.filter keep).flatMap constNames = ((s :: t).filter keep).flatMap constNames := by
      intro h
      rw [List.filter_cons]
      split
      · rw [List.flatMap_cons, h, List.nil_append]
      · rfl
    cases s with
    | type id name dirs sels cms =>
      rw [← hskip rfl]; exact ih i inh
    | imp imp =>
      rw [← hskip rfl]; exact ih i inh
    | value n v d ts c =>
      simp only [constEntries]
      by_cases hn : (n.filterMap id).isEmpty = true
      · rw [if_pos hn, ih, hskip]
        have : n.filterMap id = [] := by simpa using hn
        simp only [constNames, this, List.map_nil]
      · rw [if_neg hn, List.map_append, ih, List.filter_cons]
        by_cases hk : keep (.value n v d ts c) = true
        · rw [if_pos hk, if_pos hk, List.flatMap_cons]
          congr 1
          rw [List.map_map]
          exact map_zipIdx_fst
            (fun n : Name => ({ kind := .const, name := n.n, id := n.id } : Entry)) _ 0
        · rw [if_neg hk, if_neg hk]; rfl

theorem filterMap_ovSpecMark (specs : List (Option Spec)) :
    (specs.map (ovSpecMark false)).filterMap id
      = (specs.filterMap id).filter (fun s => !GV.Spec.Augment.specPurged false s) := by
  induction specs with
  | nil => rfl
  | cons s t ih =>
    cases s with
    | none => exact ih
    | some s =>
      rw [List.map_cons, List.filterMap_cons_some (by rfl : id (some s) = some s), List.filter_cons]
      by_cases h : s.dirs.contains "purge" = true
      · have h1 : ovSpecMark false (some s) = none := by
          simp only [ovSpecMark, hasDir, Bool.false_or, if_pos h]
        have h2 : (!GV.Spec.Augment.specPurged false s) = false := by
          simp only [GV.Spec.Augment.specPurged, Bool.false_or, h, Bool.not_true]
        rw [List.filterMap_cons_none (by rw [h1]; rfl), ih, h2]
        rfl
      · have h1 : ovSpecMark false (some s) = some s := by
          simp only [ovSpecMark, hasDir, Bool.false_or, if_neg h]
        have h2 : (!GV.Spec.Augment.specPurged false s) = true := by
          simp only [GV.Spec.Augment.specPurged, Bool.false_or, h, Bool.not_eq_true',
            Bool.not_eq_true] at h ⊢
        rw [List.filterMap_cons_some (by rw [h1]; rfl : id (ovSpecMark false (some s)) = some s), ih, h2,
          if_pos rfl]

theorem ovDeclMark_entries (d : Option Decl) :
    ((ovDeclMark d).elim [] Decl.entries).map noVal = (d.elim [] overlayDecl).map noVal := by
  cases d with
  | none => rfl
  | some d =>
    cases d with
    | func f =>
      by_cases hc : (hasDir f.dirs "purge" || hasDir f.dirs "override-signature") = true
      · have hc' : (f.dirs.contains "purge" || f.dirs.contains "override-signature") = true := hc
        simp only [ovDeclMark, overlayDecl, if_pos hc, if_pos hc', Option.elim]
      · have hc' : ¬ (f.dirs.contains "purge" || f.dirs.contains "override-signature") = true := hc
        simp only [ovDeclMark, overlayDecl, if_neg hc, if_neg hc', Option.elim]
    | gen tok dirs doc specs =>
      by_cases hp : hasDir dirs "purge" = true
      · have hp' : dirs.contains "purge" = true := hp
        simp only [ovDeclMark, overlayDecl, if_pos hp, if_pos hp', Option.elim]
      · have hp' : ¬ dirs.contains "purge" = true := hp
        simp only [ovDeclMark, overlayDecl, if_neg hp, if_neg hp', Option.elim]
        simp only [Decl.entries_gen, filterMap_ovSpecMark]
        cases tok with
        | const =>
          simp only [genEntries, beq_self_eq_true, if_true]
          rw [constEntries_noVal_ov, constEntries_noVal_ov, List.filter_filter]
          simp
        | imp =>
          have h1 : (Tok.imp == Tok.const) = false := rfl
          simp only [genEntries, h1, beq_self_eq_true, if_true, Bool.false_eq_true, if_false]
        | type =>
          have h1 : (Tok.type == Tok.const) = false := rfl
          have h2 : (Tok.type == Tok.imp) = false := rfl
          simp only [genEntries, h1, h2, Bool.false_eq_true, if_false]
        | var =>
          have h1 : (Tok.var == Tok.const) = false := rfl
          have h2 : (Tok.var == Tok.imp) = false := rfl
          simp only [genEntries, h1, h2, Bool.false_eq_true, if_false]

theorem entries_augmentOverlayFile (ov : Overrides) (f : File) :
    entries (augmentOverlayFile ov f).2 = entries { f with decls := f.decls.map ovDeclMark } := by
  simp only [augmentOverlayFile]
  split
  · rw [entries_pruneImports, entries_finalizeRemovals]
  · rfl

theorem map_flatMap_ov {α β γ : Type} (g : α → List β) (h : β → γ) (l : List α) :
    (l.flatMap g).map h = l.flatMap (fun a => (g a).map h) := by
  induction l with
  | nil => rfl
  | cons a t ih => rw [List.flatMap_cons, List.flatMap_cons, List.map_append, ih]

/-- G2: the declared entries of a processed overlay file are the expected ones (no hypothesis needed:
nil slots are skipped on both sides) -/
theorem overlay_entries (ov : Overrides) (f : File) :
    ((entries (augmentOverlayFile ov f).2).filter notBlank).map noVal
      = (expectedOverlay f).map noVal := by
  rw [entries_augmentOverlayFile]
  unfold expectedOverlay
  rw [filter_notBlank_noVal, filter_notBlank_noVal]
  congr 1
  unfold entries
  simp only []
  rw [flatMap_filterMap_id, flatMap_filterMap_id, flatMap_map', map_flatMap_ov, map_flatMap_ov]
  apply flatMap_congr'
  intro d _
  exact ovDeclMark_entries d

end GV.Augment
