/-
  GV.Proofs.Augment — lemmas about the executable model `GV.Model.Augment` of the overlay merge:
  the nil-then-squeeze passes (`finalizeRemovals`, `mapImports`, `pruneImports`) do not change the
  declared entries, and `finalizeRemovals` does not change the import list.
-/
import GV.Model.Augment

namespace GV.Augment

theorem filterMap_id_map_some {α : Type} (l : List α) : (l.map some).filterMap id = l := by
  induction l with
  | nil => rfl
  | cons a t ih => simp

theorem filterMap_id_squeeze {α} (l : List (Option α)) : (squeeze l).filterMap id = l.filterMap id := by
  unfold squeeze; exact filterMap_id_map_some _

/-! ### L0: association lists -/

theorem get_nil {β} (k : String) : get k ([] : List (String × β)) = none := rfl

theorem get_cons {β} (k : String) (p : String × β) (t : List (String × β)) :
    get k (p :: t) = if p.1 = k then some p.2 else get k t := by
  unfold get
  by_cases h : p.1 = k
  · have hb : (p.1 == k) = true := by simpa using h
    rw [List.find?_cons, hb, if_pos h]; rfl
  · have hb : (p.1 == k) = false := by simpa using h
    rw [List.find?_cons, hb, if_neg h]

theorem erase_nil {β} (k : String) : erase k ([] : List (String × β)) = [] := rfl

theorem erase_cons {β} (k : String) (p : String × β) (t : List (String × β)) :
    erase k (p :: t) = if p.1 = k then erase k t else p :: erase k t := by
  unfold erase
  by_cases h : p.1 = k
  · have hb : decide (p.1 ≠ k) = false := by simpa using h
    rw [List.filter_cons, hb, if_pos h]; rfl
  · have hb : decide (p.1 ≠ k) = true := by simpa using h
    rw [List.filter_cons, hb, if_neg h]; rfl

theorem get_erase_self {β} (k : String) (m : List (String × β)) : get k (erase k m) = none := by
  induction m with
  | nil => rfl
  | cons p t ih =>
    rw [erase_cons]
    by_cases h : p.1 = k
    · rw [if_pos h]; exact ih
    · rw [if_neg h, get_cons, if_neg h]; exact ih

theorem get_erase_ne {β} (k k' : String) (m : List (String × β)) (h : k' ≠ k) :
    get k' (erase k m) = get k' m := by
  induction m with
  | nil => rfl
  | cons p t ih =>
    rw [erase_cons, get_cons]
    by_cases h1 : p.1 = k
    · have h2 : ¬ p.1 = k' := by intro h2; exact h (h2 ▸ h1)
      rw [if_pos h1, if_neg h2]; exact ih
    · rw [if_neg h1, get_cons, ih]

theorem get_set_self {β} (k : String) (v : β) (m : List (String × β)) : get k (set k v m) = some v := by
  unfold set; rw [get_cons, if_pos rfl]

theorem get_set_ne {β} (k k' : String) (v : β) (m : List (String × β)) (h : k' ≠ k) :
    get k' (set k v m) = get k' m := by
  unfold set; rw [get_cons, if_neg (fun e : k = k' => h e.symm)]; exact get_erase_ne k k' m h

/-! ### L1: `finalizeRemovals` keeps the entries -/

theorem squeeze_isEmpty {α : Type} (l : List (Option α)) : (squeeze l).isEmpty = (l.filterMap id).isEmpty := by
  unfold squeeze; cases (l.filterMap id) <;> rfl

theorem flatMap_filterMap_id {α β : Type} (g : α → List β) (l : List (Option α)) :
    (l.filterMap id).flatMap g = l.flatMap (fun o => o.elim [] g) := by
  induction l with
  | nil => rfl
  | cons a t ih =>
    cases a with
    | none => simpa using ih
    | some a => simp [ih]

/-- entries of a general declaration as a function of its non-nil specs -/
def genEntries (tok : Tok) (l : List Spec) : List Entry :=
  if tok == .const then constEntries (fun _ => true) l 0 []
  else if tok == .imp then [] else l.flatMap (Spec.entries tok)

theorem Decl.entries_gen (tok : Tok) (dirs doc) (specs : List (Option Spec)) :
    Decl.entries (.gen tok dirs doc specs) = genEntries tok (specs.filterMap id) := rfl

theorem genEntries_nil (tok : Tok) : genEntries tok [] = [] := by
  unfold genEntries
  split
  · rfl
  · split <;> rfl

theorem finSpec_value_fst (n : List (Option Name)) (v : List (Option Val)) (d t : List String) (c : List Cm) :
    ((finSpec (some (.value n v d t c))).1 = none ∧ n.filterMap id = []) ∨
    ∃ n' v', (finSpec (some (.value n v d t c))).1 = some (.value n' v' d t c) ∧
      n'.filterMap id = n.filterMap id ∧ v'.filterMap id = v.filterMap id := by
  simp only [finSpec]
  split
  · split
    · rename_i h
      rw [squeeze_isEmpty] at h
      exact Or.inl ⟨rfl, by simpa using h⟩
    · exact Or.inr ⟨_, _, rfl, filterMap_id_squeeze _, filterMap_id_squeeze _⟩
  · exact Or.inr ⟨_, _, rfl, rfl, rfl⟩

theorem finSpec_entries (tok : Tok) (s : Option Spec) :
    ((finSpec s).1).elim [] (Spec.entries tok) = s.elim [] (Spec.entries tok) := by
  cases s with
  | none => rfl
  | some s =>
    cases s with
    | type => rfl
    | imp => rfl
    | value n v d t c =>
      rcases finSpec_value_fst n v d t c with ⟨h1, h2⟩ | ⟨n', v', h1, h2, h3⟩
      · rw [h1]; simp [Spec.entries, h2, varEntries]
      · rw [h1]; simp [Spec.entries, h2, h3]

theorem constEntries_fin (specs : List (Option Spec)) : ∀ (iota : Nat) (inh : List Val),
    constEntries (fun _ => true) ((specs.map (fun s => (finSpec s).1)).filterMap id) iota inh
      = constEntries (fun _ => true) (specs.filterMap id) iota inh := by
  induction specs with
  | nil => intro _ _; rfl
  | cons s t ih =>
    intro iota inh
    rw [List.map_cons]
    cases s with
    | none => exact ih iota inh
    | some s =>
      cases s with
      | type id name dirs sels cms => exact ih iota inh
      | imp i => exact ih iota inh
      | value n v d t c =>
        rcases finSpec_value_fst n v d t c with ⟨h1, h2⟩ | ⟨n', v', h1, h2, h3⟩
        · simp only [h1, List.filterMap_cons, id, constEntries, h2, List.isEmpty_nil, if_true]
          exact ih iota inh
        · simp only [h1, List.filterMap_cons, id, constEntries, h2, h3, ih]


theorem flatMap_none_nil {α β : Type} (g : Option α → List β) (hg : g none = []) (l : List (Option α)) :
    l.flatMap g = (l.filterMap id).flatMap (fun a => g (some a)) := by
  induction l with
  | nil => rfl
  | cons a t ih =>
    cases a with
    | none => simp [hg, ih]
    | some a => simp [ih]

theorem flatMap_map' {α β γ : Type} (f : α → β) (g : β → List γ) (l : List α) :
    (l.map f).flatMap g = l.flatMap (fun a => g (f a)) := by
  induction l with
  | nil => rfl
  | cons a t ih => simp [ih]

theorem genEntries_fin (tok : Tok) (specs : List (Option Spec)) :
    genEntries tok ((specs.map (fun s => (finSpec s).1)).filterMap id) = genEntries tok (specs.filterMap id) := by
  unfold genEntries
  split
  · exact constEntries_fin specs 0 []
  · split
    · rfl
    · rw [flatMap_filterMap_id, flatMap_filterMap_id, flatMap_map']
      congr 1
      funext s
      exact finSpec_entries tok s

theorem finDecl_gen_fst (tok : Tok) (dirs : List String) (doc : List Cm) (specs : List (Option Spec)) :
    ((finDecl (some (.gen tok dirs doc specs))).1 = none ∧
        (specs.map (fun s => (finSpec s).1)).filterMap id = []) ∨
    ∃ specs'', (finDecl (some (.gen tok dirs doc specs))).1 = some (.gen tok dirs doc specs'') ∧
      specs''.filterMap id = (specs.map (fun s => (finSpec s).1)).filterMap id := by
  have hm : (specs.map finSpec).map (·.1) = specs.map (fun s => (finSpec s).1) := by
    rw [List.map_map]; rfl
  simp only [finDecl, hm]
  split
  · split
    · rename_i h
      rw [squeeze_isEmpty] at h
      exact Or.inl ⟨rfl, by simpa using h⟩
    · exact Or.inr ⟨_, rfl, filterMap_id_squeeze _⟩
  · exact Or.inr ⟨_, rfl, rfl⟩

theorem finDecl_entries (d : Option Decl) :
    ((finDecl d).1).elim [] Decl.entries = d.elim [] Decl.entries := by
  cases d with
  | none => rfl
  | some d =>
    cases d with
    | func f => rfl
    | gen tok dirs doc specs =>
      rcases finDecl_gen_fst tok dirs doc specs with ⟨h1, h2⟩ | ⟨specs'', h1, h2⟩
      · rw [h1]
        simp only [Option.elim, Decl.entries_gen]
        rw [← genEntries_fin, h2, genEntries_nil]
      · rw [h1]
        simp only [Option.elim, Decl.entries_gen]
        rw [h2, genEntries_fin]

theorem finalizeRemovals_decls (f : File) :
    (finalizeRemovals f).decls.filterMap id = (f.decls.map (fun d => (finDecl d).1)).filterMap id := by
  have hm : (f.decls.map finDecl).map (·.1) = f.decls.map (fun d => (finDecl d).1) := by
    rw [List.map_map]; rfl
  simp only [finalizeRemovals, hm]
  split
  · exact filterMap_id_squeeze _
  · rfl

theorem entries_finalizeRemovals (f : File) : entries (finalizeRemovals f) = entries f := by
  unfold entries
  rw [finalizeRemovals_decls, flatMap_filterMap_id, flatMap_filterMap_id, flatMap_map']
  congr 1
  funext d
  exact finDecl_entries d

/-! ### L2 -/

theorem finSpec_imports (s : Option Spec) : Spec.imports (finSpec s).1 = Spec.imports s := by
  cases s with
  | none => rfl
  | some s =>
    cases s with
    | type => rfl
    | imp => rfl
    | value n v d t c =>
      rcases finSpec_value_fst n v d t c with ⟨h1, _⟩ | ⟨n', v', h1, _, _⟩ <;> rw [h1] <;> rfl

theorem finDecl_imports (d : Option Decl) : Decl.imports (finDecl d).1 = Decl.imports d := by
  cases d with
  | none => rfl
  | some d =>
    cases d with
    | func f => rfl
    | gen tok dirs doc specs =>
      have key : ∀ l : List (Option Spec),
          l.filterMap id = (specs.map (fun s => (finSpec s).1)).filterMap id →
          l.flatMap Spec.imports = specs.flatMap Spec.imports := by
        intro l hl
        rw [flatMap_none_nil Spec.imports rfl l, hl, ← flatMap_none_nil Spec.imports rfl, flatMap_map']
        congr 1
        funext s
        exact finSpec_imports s
      rcases finDecl_gen_fst tok dirs doc specs with ⟨h1, h2⟩ | ⟨specs'', h1, h2⟩
      · rw [h1]
        exact key [] h2.symm
      · rw [h1]
        exact key specs'' h2

theorem importsOf_finalizeRemovals (f : File) : importsOf (finalizeRemovals f) = importsOf f := by
  unfold importsOf
  rw [flatMap_none_nil Decl.imports rfl, finalizeRemovals_decls, ← flatMap_none_nil Decl.imports rfl,
    flatMap_map']
  congr 1
  funext d
  exact finDecl_imports d

/-! ### L3: `mapImports` keeps the entries -/

theorem flatMap_congr' {α β : Type} (f g : α → List β) (l : List α) (h : ∀ a ∈ l, f a = g a) :
    l.flatMap f = l.flatMap g := by
  induction l with
  | nil => rfl
  | cons a t ih =>
    rw [List.flatMap_cons, List.flatMap_cons, h a List.mem_cons_self,
      ih (fun b hb => h b (List.mem_cons_of_mem _ hb))]

theorem mapImportsSpec_entries (g : ImportSpec → Option ImportSpec) (tok : Tok) (s : Option Spec) :
    (mapImportsSpec g s).elim [] (Spec.entries tok) = s.elim [] (Spec.entries tok) := by
  cases s with
  | none => rfl
  | some s =>
    cases s with
    | type => rfl
    | value => rfl
    | imp i =>
      simp only [mapImportsSpec]
      cases g i <;> rfl

theorem constEntries_mapImports (g : ImportSpec → Option ImportSpec) (keep : Spec → Bool)
    (specs : List (Option Spec)) : ∀ (iota : Nat) (inh : List Val),
    constEntries keep ((specs.map (mapImportsSpec g)).filterMap id) iota inh
      = constEntries keep (specs.filterMap id) iota inh := by
  induction specs with
  | nil => intro _ _; rfl
  | cons s t ih =>
    intro iota inh
    rw [List.map_cons]
    cases s with
    | none => exact ih iota inh
    | some s =>
      cases s with
      | type id name dirs sels cms => exact ih iota inh
      | value n v d t c =>
        simp only [mapImportsSpec, List.filterMap_cons, id, constEntries, ih]
      | imp i =>
        cases hg : g i with
        | none =>
          simp only [mapImportsSpec, hg, Option.map_none, List.filterMap_cons, id, constEntries]
          exact ih iota inh
        | some j =>
          simp only [mapImportsSpec, hg, Option.map_some, List.filterMap_cons, id, constEntries]
          exact ih iota inh

theorem mapImportsDecl_entries (g : ImportSpec → Option ImportSpec) (d : Option Decl) :
    (mapImportsDecl g d).elim [] Decl.entries = d.elim [] Decl.entries := by
  cases d with
  | none => rfl
  | some d =>
    cases d with
    | func f => rfl
    | gen tok dirs doc specs =>
      simp only [mapImportsDecl, Option.elim, Decl.entries_gen]
      unfold genEntries
      split
      · exact constEntries_mapImports g _ specs 0 []
      · split
        · rfl
        · rw [flatMap_filterMap_id, flatMap_filterMap_id, flatMap_map']
          congr 1
          funext s
          exact mapImportsSpec_entries g tok s

theorem entries_mapImports (g : ImportSpec → Option ImportSpec) (f : File) :
    entries (mapImports g f) = entries f := by
  unfold entries mapImports
  simp only []
  rw [flatMap_filterMap_id, flatMap_filterMap_id, flatMap_map']
  congr 1
  funext d
  exact mapImportsDecl_entries g d

theorem entries_augmentOriginalImports (importPath : String) (f : File) :
    entries (augmentOriginalImports importPath f) = entries f := by
  unfold augmentOriginalImports
  split
  · exact entries_mapImports _ f
  · rfl

/-! ### L4: `pruneImports` keeps the entries -/

theorem mapImportsSpec_comp (g1 g2 : ImportSpec → Option ImportSpec) (s : Option Spec) :
    mapImportsSpec g2 (mapImportsSpec g1 s) = mapImportsSpec (fun i => (g1 i).bind g2) s := by
  cases s with
  | none => rfl
  | some s =>
    cases s with
    | type => rfl
    | value => rfl
    | imp i =>
      simp only [mapImportsSpec]
      cases g1 i <;> rfl

theorem mapImportsDecl_comp (g1 g2 : ImportSpec → Option ImportSpec) (d : Option Decl) :
    mapImportsDecl g2 (mapImportsDecl g1 d) = mapImportsDecl (fun i => (g1 i).bind g2) d := by
  cases d with
  | none => rfl
  | some d =>
    cases d with
    | func f => rfl
    | gen tok dirs doc specs =>
      simp only [mapImportsDecl, List.map_map]
      congr 2
      apply List.map_congr_left
      intro s _
      exact mapImportsSpec_comp g1 g2 s

theorem mapImports_comp (g1 g2 : ImportSpec → Option ImportSpec) (f : File) :
    mapImports g2 (mapImports g1 f) = mapImports (fun i => (g1 i).bind g2) f := by
  simp only [mapImports, List.map_map]
  congr 1
  apply List.map_congr_left
  intro d _
  exact mapImportsDecl_comp g1 g2 d

theorem entries_of_isOnlyImports (f : File) (h : isOnlyImports f = true) : entries f = [] := by
  unfold entries
  rw [flatMap_filterMap_id, List.flatMap_eq_nil_iff]
  intro d hd
  unfold isOnlyImports at h
  rw [List.all_eq_true] at h
  have hd' := h d hd
  cases d with
  | none => rfl
  | some d =>
    cases d with
    | func fn => simp at hd'
    | gen tok dirs doc specs =>
      cases tok with
      | imp => rfl
      | const => simp at hd'
      | type => simp at hd'
      | var => simp at hd'

theorem entries_pruneImports (f : File) : entries (pruneImports f) = entries f := by
  simp only [pruneImports]
  split
  · rename_i h
    have h1 : isOnlyImports f = true := by
      simp only [Bool.and_eq_true] at h; exact h.1
    rw [entries_of_isOnlyImports f h1]
    rfl
  · split
    · rfl
    · split
      · exact entries_mapImports _ f
      · rw [entries_finalizeRemovals, mapImports_comp]
        exact entries_mapImports _ f

/-! ### L5: the imports surviving `pruneImports` -/

theorem filterMap_flatMap' {α β γ : Type} (g : α → List β) (h : β → Option γ) (l : List α) :
    (l.flatMap g).filterMap h = l.flatMap (fun a => (g a).filterMap h) := by
  induction l with
  | nil => rfl
  | cons a t ih => rw [List.flatMap_cons, List.flatMap_cons, List.filterMap_append, ih]

theorem mapImportsSpec_imports (g : ImportSpec → Option ImportSpec) (s : Option Spec) :
    Spec.imports (mapImportsSpec g s) = (Spec.imports s).filterMap g := by
  cases s with
  | none => rfl
  | some s =>
    cases s with
    | type => rfl
    | value => rfl
    | imp i =>
      simp only [mapImportsSpec, Spec.imports]
      cases hg : g i <;> simp [hg]

theorem mapImportsDecl_imports (g : ImportSpec → Option ImportSpec) (d : Option Decl) :
    Decl.imports (mapImportsDecl g d) = (Decl.imports d).filterMap g := by
  cases d with
  | none => rfl
  | some d =>
    cases d with
    | func f => rfl
    | gen tok dirs doc specs =>
      simp only [mapImportsDecl, Decl.imports]
      rw [flatMap_map', filterMap_flatMap']
      congr 1
      funext s
      exact mapImportsSpec_imports g s

theorem importsOf_mapImports (g : ImportSpec → Option ImportSpec) (f : File) :
    importsOf (mapImports g f) = (importsOf f).filterMap g := by
  unfold importsOf mapImports
  simp only []
  rw [flatMap_map', filterMap_flatMap']
  congr 1
  funext d
  exact mapImportsDecl_imports g d

theorem mem_erase {β : Type} (k : String) (m : List (String × β)) (p : String × β) :
    p ∈ erase k m ↔ p ∈ m ∧ p.1 ≠ k := by
  unfold erase
  rw [List.mem_filter]
  simp

theorem mem_set {β : Type} (k : String) (v : β) (m : List (String × β)) (p : String × β) :
    p ∈ set k v m ↔ p = (k, v) ∨ (p ∈ m ∧ p.1 ≠ k) := by
  unfold set
  rw [List.mem_cons, mem_erase]

theorem mem_foldl_erase {β : Type} (sels : List String) : ∀ (m : List (String × β)) (p : String × β),
    p ∈ sels.foldl (fun m s => erase s m) m ↔ p ∈ m ∧ p.1 ∉ sels := by
  induction sels with
  | nil => intro m p; simp
  | cons s t ih =>
    intro m p
    rw [List.foldl_cons, ih, mem_erase, List.mem_cons]
    constructor
    · rintro ⟨⟨h1, h2⟩, h3⟩
      exact ⟨h1, fun h => h.elim h2 h3⟩
    · rintro ⟨h1, h2⟩
      exact ⟨⟨h1, fun h => h2 (Or.inl h)⟩, fun h => h2 (Or.inr h)⟩

/-- one step of `buildUnused` -/
def unusedStep (m : List (String × Nat)) (i : ImportSpec) : List (String × Nat) :=
  if importName i = "" then m else set (importName i) i.id m

theorem buildUnused_eq (imps : List ImportSpec) : buildUnused imps = imps.foldl unusedStep [] := rfl

theorem mem_foldl_unusedStep (imps : List ImportSpec) : ∀ (m : List (String × Nat)) (p : String × Nat),
    ((imps.map importName).filter (· ≠ "")).Nodup →
    (p ∈ imps.foldl unusedStep m ↔
      (∃ i ∈ imps, importName i ≠ "" ∧ p = (importName i, i.id)) ∨
      (p ∈ m ∧ ∀ i ∈ imps, importName i ≠ "" → importName i ≠ p.1)) := by
  induction imps with
  | nil => intro m p _; simp
  | cons i t ih =>
    intro m p hnd
    rw [List.foldl_cons]
    by_cases hn : importName i = ""
    · have hnd' : ((t.map importName).filter (· ≠ "")).Nodup := by
        simpa [List.filter_cons, hn] using hnd
      rw [ih _ p hnd']
      have hstep : unusedStep m i = m := by unfold unusedStep; rw [if_pos hn]
      rw [hstep]
      grind
    · have hnd2 : importName i ∉ (t.map importName).filter (· ≠ "") ∧
          ((t.map importName).filter (· ≠ "")).Nodup := by
        simpa [List.filter_cons, hn] using hnd
      rw [ih _ p hnd2.2]
      have hstep : unusedStep m i = set (importName i) i.id m := by unfold unusedStep; rw [if_neg hn]
      rw [hstep, mem_set]
      have hfresh : ∀ j ∈ t, importName j ≠ "" → importName j ≠ importName i := by
        intro j hj hj1 hj2
        apply hnd2.1
        rw [List.mem_filter]
        exact ⟨List.mem_map.mpr ⟨j, hj, hj2⟩, by simpa using hn⟩
      grind

theorem mem_buildUnused (imps : List ImportSpec) (p : String × Nat)
    (hnd : ((imps.map importName).filter (· ≠ "")).Nodup) :
    p ∈ buildUnused imps ↔ ∃ i ∈ imps, importName i ≠ "" ∧ p = (importName i, i.id) := by
  rw [buildUnused_eq, mem_foldl_unusedStep imps [] p hnd]
  simp

theorem eq_of_id_eq (imps : List ImportSpec) (hid : (imps.map (·.id)).Nodup) :
    ∀ i ∈ imps, ∀ j ∈ imps, i.id = j.id → i = j := by
  induction imps with
  | nil => intro i hi; cases hi
  | cons a t ih =>
    rw [List.map_cons, List.nodup_cons] at hid
    intro i hi j hj hij
    rw [List.mem_cons] at hi hj
    have hnot : ∀ k ∈ t, k.id ≠ a.id := fun k hk hka => hid.1 (List.mem_map.mpr ⟨k, hk, hka⟩)
    rcases hi with rfl | hi <;> rcases hj with rfl | hj
    · rfl
    · exact absurd hij.symm (hnot j hj)
    · exact absurd hij (hnot i hi)
    · exact ih hid.2 i hi j hj hij

theorem find_id (imps : List ImportSpec) (hid : (imps.map (·.id)).Nodup) (i : ImportSpec) (hi : i ∈ imps) :
    imps.find? (·.id == i.id) = some i := by
  cases hf : imps.find? (·.id == i.id) with
  | none =>
    rw [List.find?_eq_none] at hf
    exact absurd (by simp) (hf i hi)
  | some j =>
    have h1 := List.find?_some hf
    have h2 := List.mem_of_find?_eq_some hf
    rw [eq_of_id_eq imps hid j h2 i hi (by simpa using h1)]

theorem filterMap_congr' {α β : Type} (f g : α → Option β) (l : List α) (h : ∀ a ∈ l, f a = g a) :
    l.filterMap f = l.filterMap g := by
  induction l with
  | nil => rfl
  | cons a t ih =>
    rw [List.filterMap_cons, List.filterMap_cons, h a List.mem_cons_self,
      ih (fun b hb => h b (List.mem_cons_of_mem _ hb))]

theorem importsOf_pruneImports (f : File)
    (hNames : (((importsOf f).map importName).filter (· ≠ "")).Nodup)
    (hIds : ((importsOf f).map (·.id)).Nodup)
    (hNot : (isOnlyImports f && !hasLinkname f) = false) :
    importsOf (pruneImports f) = (importsOf f).filterMap (fun i =>
      if importName i = "" ∨ importName i ∈ fileSels f then some i
      else if isDirectiveImport f i then some { i with name := some "_" } else none) := by
  unfold pruneImports
  rw [if_neg (by rw [hNot]; decide)]
  extract_lets imps U0 U1 kept keptIds f1 U2 ids
  have hU1 : ∀ p, p ∈ U1 ↔
      ∃ i ∈ imps, importName i ≠ "" ∧ p = (importName i, i.id) ∧ importName i ∉ fileSels f := by
    intro p
    show p ∈ List.foldl (fun m s => erase s m) (buildUnused imps) (fileSels f) ↔ _
    rw [mem_foldl_erase, mem_buildUnused imps p hNames]
    constructor
    · rintro ⟨⟨i, hi, h1, h2⟩, h3⟩
      exact ⟨i, hi, h1, h2, by rw [h2] at h3; exact h3⟩
    · rintro ⟨i, hi, h1, h2, h3⟩
      exact ⟨⟨i, hi, h1, h2⟩, by rw [h2]; exact h3⟩
  have hKept : ∀ i ∈ imps, (i.id ∈ keptIds ↔
      (importName i ≠ "" ∧ importName i ∉ fileSels f) ∧ isDirectiveImport f i = true) := by
    intro i hi
    show i.id ∈ List.map (fun x => x.snd) (List.filter _ U1) ↔ _
    rw [List.mem_map]
    constructor
    · rintro ⟨p, hp, hpi⟩
      rw [List.mem_filter, hU1] at hp
      obtain ⟨⟨j, hj, h1, h2, h3⟩, h4⟩ := hp
      have hji : j = i := eq_of_id_eq imps hIds j hj i hi (by rw [h2] at hpi; exact hpi)
      subst hji
      rw [h2, find_id imps hIds j hj] at h4
      exact ⟨⟨h1, h3⟩, by simpa using h4⟩
    · rintro ⟨⟨h1, h3⟩, h4⟩
      refine ⟨(importName i, i.id), ?_, rfl⟩
      rw [List.mem_filter, hU1]
      refine ⟨⟨i, hi, h1, rfl, h3⟩, ?_⟩
      rw [find_id imps hIds i hi]
      simpa using h4
  have hIdsU2 : ∀ i ∈ imps, (i.id ∈ ids ↔
      (importName i ≠ "" ∧ importName i ∉ fileSels f) ∧ isDirectiveImport f i = false) := by
    intro i hi
    show i.id ∈ List.map (fun x => x.snd) (List.filter _ U1) ↔ _
    rw [List.mem_map]
    constructor
    · rintro ⟨p, hp, hpi⟩
      rw [List.mem_filter, hU1] at hp
      obtain ⟨⟨j, hj, h1, h2, h3⟩, h4⟩ := hp
      have hji : j = i := eq_of_id_eq imps hIds j hj i hi (by rw [h2] at hpi; exact hpi)
      subst hji
      have h5 : j.id ∉ keptIds := by rw [h2] at h4; simpa using h4
      rw [hKept j hj] at h5
      refine ⟨⟨h1, h3⟩, ?_⟩
      cases hd : isDirectiveImport f j with
      | false => rfl
      | true => exact absurd ⟨⟨h1, h3⟩, hd⟩ h5
    · rintro ⟨⟨h1, h3⟩, h4⟩
      refine ⟨(importName i, i.id), ?_, rfl⟩
      rw [List.mem_filter, hU1]
      refine ⟨⟨i, hi, h1, rfl, h3⟩, ?_⟩
      have h5 : i.id ∉ keptIds := by rw [hKept i hi, h4]; simp
      simpa using h5
  apply Eq.trans (b := imps.filterMap (fun i =>
    if importName i = "" ∨ importName i ∈ fileSels f then some i
    else if isDirectiveImport f i then some { i with name := some "_" } else none)) _ rfl
  split
  · rename_i hE
    have hE' : U1 = [] := by simpa using hE
    have hpt : ∀ i ∈ imps, some i = (if importName i = "" ∨ importName i ∈ fileSels f then some i
        else if isDirectiveImport f i then some { i with name := some "_" } else none) := by
      intro i hi
      by_cases hc : importName i = "" ∨ importName i ∈ fileSels f
      · rw [if_pos hc]
      · have : (importName i, i.id) ∈ U1 := by
          rw [hU1]; exact ⟨i, hi, fun h => hc (Or.inl h), rfl, fun h => hc (Or.inr h)⟩
        rw [hE'] at this; cases this
    rw [← filterMap_congr' _ _ _ hpt, List.filterMap_some]
  · split
    · rename_i hE
      have hE' : U2 = [] := by simpa using hE
      show importsOf (mapImports _ f) = _
      rw [importsOf_mapImports]
      apply filterMap_congr'
      intro i hi
      have hk := hKept i hi
      by_cases hc : importName i = "" ∨ importName i ∈ fileSels f
      · have : i.id ∉ keptIds := by rw [hk]; grind
        rw [if_pos hc, if_neg (by simpa using this)]
      · have hu : importName i ≠ "" ∧ importName i ∉ fileSels f :=
          ⟨fun h => hc (Or.inl h), fun h => hc (Or.inr h)⟩
        rw [if_neg hc]
        cases hd : isDirectiveImport f i with
        | true =>
          have : i.id ∈ keptIds := by rw [hk]; exact ⟨hu, hd⟩
          rw [if_pos (by simpa using this)]; rfl
        | false =>
          have : i.id ∈ ids := by rw [hIdsU2 i hi]; exact ⟨hu, hd⟩
          have : (importName i, i.id) ∈ U2 := by
            obtain ⟨p, hp, hpi⟩ := List.mem_map.mp this
            rw [hE'] at hp; cases hp
          rw [hE'] at this; cases this
    · show importsOf (finalizeRemovals (mapImports _ (mapImports _ f))) = _
      rw [importsOf_finalizeRemovals, mapImports_comp, importsOf_mapImports]
      apply filterMap_congr'
      intro i hi
      have hk := hKept i hi
      have hu2 := hIdsU2 i hi
      by_cases hc : importName i = "" ∨ importName i ∈ fileSels f
      · have h1 : i.id ∉ keptIds := by rw [hk]; grind
        have h2 : i.id ∉ ids := by rw [hu2]; grind
        rw [if_pos hc, if_neg (by simpa using h1)]
        simp only [Option.bind_some]
        rw [if_neg (by simpa using h2)]
      · have hu : importName i ≠ "" ∧ importName i ∉ fileSels f :=
          ⟨fun h => hc (Or.inl h), fun h => hc (Or.inr h)⟩
        rw [if_neg hc]
        cases hd : isDirectiveImport f i with
        | true =>
          have h1 : i.id ∈ keptIds := by rw [hk]; exact ⟨hu, hd⟩
          have h2 : i.id ∉ ids := by rw [hu2, hd]; simp
          rw [if_pos (by simpa using h1)]
          simp only [Option.bind_some]
          rw [if_neg (by simpa using h2)]; rfl
        | false =>
          have h1 : i.id ∉ keptIds := by rw [hk, hd]; simp
          have h2 : i.id ∈ ids := by rw [hu2]; exact ⟨hu, hd⟩
          rw [if_neg (by simpa using h1)]
          simp only [Option.bind_some]
          rw [if_pos (by simpa using h2)]; rfl


theorem importsOf_pruneImports_only (f : File) (h : (isOnlyImports f && !hasLinkname f) = true) :
    importsOf (pruneImports f) = [] := by
  unfold pruneImports
  rw [if_pos h]
  rfl

/-! ### constant groups whose specs do not depend on `iota` or on the inherited expression list -/

theorem getElem?_map_iotaFree (vs : List Val) (h : ∀ v ∈ vs, v.a = 0) (i j k : Nat) :
    (vs[k]?).map (fun v => v.a * i + v.b) = (vs[k]?).map (fun v => v.a * j + v.b) := by
  cases hk : vs[k]? with
  | none => rfl
  | some v =>
    have hv : v.a = 0 := h v (List.mem_of_getElem? hk)
    simp only [Option.map_some, hv, Nat.zero_mul]

/-- every value spec is either about to be squeezed away (no names left) or carries its own non-empty
expression list, and none of its expressions mentions `iota` -/
def Spec.iotaFree : Spec → Prop
  | .value names values _ _ _ =>
    (names.filterMap id = [] ∨ values.filterMap id ≠ []) ∧ ∀ v ∈ values.filterMap id, v.a = 0
  | _ => True

theorem constEntries_noIota_of (keep : Spec → Bool) (specs : List Spec) :
    (∀ s ∈ specs, s.iotaFree) → ∀ (i j : Nat) (inh inh' : List Val),
    constEntries keep specs i inh = constEntries keep specs j inh' := by
  induction specs with
  | nil => intro _ _ _ _ _; rfl
  | cons s t ih =>
    intro h i j inh inh'
    have ih' := ih (fun s hs => h s (List.mem_cons_of_mem _ hs))
    have hs := h s List.mem_cons_self
    cases s with
    | type id name dirs sels cms => exact ih' i j inh inh'
    | imp imp => exact ih' i j inh inh'
    | value n v d ts c =>
      obtain ⟨h1, h2⟩ := hs
      simp only [constEntries]
      by_cases hn : (n.filterMap id).isEmpty = true
      · rw [if_pos hn, if_pos hn]; exact ih' i j inh inh'
      · have hv : ¬ (v.filterMap id).isEmpty = true := by
          rcases h1 with h1 | h1
          · rw [h1] at hn; exact absurd rfl hn
          · simpa using h1
        rw [if_neg hn, if_neg hn]
        simp only [if_neg hv]
        rw [ih' (i + 1) (j + 1) (v.filterMap id) (v.filterMap id)]
        congr 2
        apply List.map_congr_left
        intro p _
        rw [getElem?_map_iotaFree (v.filterMap id) h2 i j p.2]

theorem constEntries_noIota (keep : Spec → Bool) (specs : List Spec)
    (h : ∀ s ∈ specs, match s with
      | .value names values _ _ _ =>
        (values.filterMap id).length = (names.filterMap id).length ∧ (names.filterMap id) ≠ [] ∧
          ∀ v ∈ values.filterMap id, v.a = 0
      | _ => True)
    (i j : Nat) (inh inh' : List Val) :
    constEntries keep specs i inh = constEntries keep specs j inh' := by
  apply constEntries_noIota_of keep specs
  intro s hs
  have hs' := h s hs
  cases s with
  | type => trivial
  | imp => trivial
  | value n v d ts c =>
    obtain ⟨h1, h2, h3⟩ := hs'
    refine ⟨Or.inr ?_, h3⟩
    intro hv
    rw [hv] at h1
    exact h2 (List.length_eq_zero_iff.mp h1.symm)

end GV.Augment
