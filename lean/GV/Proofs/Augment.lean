/-
  GV.Proofs.Augment — lemmas about the executable model `GV.Model.Augment` of the overlay merge:
  the nil-then-squeeze passes (`finalizeRemovals`, `mapImports`, `pruneImports`) do not change the
  declared entries, and `finalizeRemovals` does not change the import list.
-/
import GV.Model.Augment

namespace GV.Augment

theorem filterMap_id_map_some {α : Type} (l : List α) : (l.map some).filterMap id = l := by
  induction l with
  | nil => rfl
  | cons a t ih => simp

theorem filterMap_id_squeeze {α} (l : List (Option α)) : (squeeze l).filterMap id = l.filterMap id := by
  unfold squeeze; exact filterMap_id_map_some _

/-! ### L0: association lists -/

theorem get_nil {β} (k : String) : get k ([] : List (String × β)) = none := rfl

theorem get_cons {β} (k : String) (p : String × β) (t : List (String × β)) :
    get k (p :: t) = if p.1 = k then some p.2 else get k t := by
  unfold get
  by_cases h : p.1 = k
  · have hb : (p.1 == k) = true := by simpa using h
    rw [List.find?_cons, hb, if_pos h]; rfl
  · have hb : (p.1 == k) = false := by simpa using h
    rw [List.find?_cons, hb, if_neg h]

theorem erase_nil {β} (k : String) : erase k ([] : List (String × β)) = [] := rfl

theorem erase_cons {β} (k : String) (p : String × β) (t : List (String × β)) :
    erase k (p :: t) = if p.1 = k then erase k t else p :: erase k t := by
  unfold erase
  by_cases h : p.1 = k
  · have hb : decide (p.1 ≠ k) = false := by simpa using h
    rw [List.filter_cons, hb, if_pos h]; rfl
  · have hb : decide (p.1 ≠ k) = true := by simpa using h
    rw [List.filter_cons, hb, if_neg h]; rfl

theorem get_erase_self {β} (k : String) (m : List (String × β)) : get k (erase k m) = none := by
  induction m with
  | nil => rfl
  | cons p t ih =>
    rw [erase_cons]
    by_cases h : p.1 = k
    · rw [if_pos h]; exact ih
    · rw [if_neg h, get_cons, if_neg h]; exact ih

theorem get_erase_ne {β} (k k' : String) (m : List (String × β)) (h : k' ≠ k) :
    get k' (erase k m) = get k' m := by
  induction m with
  | nil => rfl
  | cons p t ih =>
    rw [erase_cons, get_cons]
    by_cases h1 : p.1 = k
    · have h2 : ¬ p.1 = k' := by intro h2; exact h (h2 ▸ h1)
      rw [if_pos h1, if_neg h2]; exact ih
    · rw [if_neg h1, get_cons, ih]

theorem get_set_self {β} (k : String) (v : β) (m : List (String × β)) : get k (set k v m) = some v := by
  unfold set; rw [get_cons, if_pos rfl]

theorem get_set_ne {β} (k k' : String) (v : β) (m : List (String × β)) (h : k' ≠ k) :
    get k' (set k v m) = get k' m := by
  unfold set; rw [get_cons, if_neg (fun e : k = k' => h e.symm)]; exact get_erase_ne k k' m h

/-! ### L1: `finalizeRemovals` keeps the entries -/

theorem squeeze_isEmpty {α : Type} (l : List (Option α)) : (squeeze l).isEmpty = (l.filterMap id).isEmpty := by
  unfold squeeze; cases (l.filterMap id) <;> rfl

theorem flatMap_filterMap_id {α β : Type} (g : α → List β) (l : List (Option α)) :
    (l.filterMap id).flatMap g = l.flatMap (fun o => o.elim [] g) := by
  induction l with
  | nil => rfl
  | cons a t ih =>
    cases a with
    | none => simpa using ih
    | some a => simp [ih]

/-- entries of a general declaration as a function of its non-nil specs -/
def genEntries (tok : Tok) (l : List Spec) : List Entry :=
  if tok == .const then constEntries (fun _ => true) l 0 [] else l.flatMap (Spec.entries tok)

theorem Decl.entries_gen (tok : Tok) (dirs doc) (specs : List (Option Spec)) :
    Decl.entries (.gen tok dirs doc specs) = genEntries tok (specs.filterMap id) := rfl

theorem genEntries_nil (tok : Tok) : genEntries tok [] = [] := by
  unfold genEntries; split <;> rfl

theorem finSpec_value_fst (n : List (Option Name)) (v : List (Option Val)) (d t : List String) (c : List Cm) :
    ((finSpec (some (.value n v d t c))).1 = none ∧ n.filterMap id = []) ∨
    ∃ n' v', (finSpec (some (.value n v d t c))).1 = some (.value n' v' d t c) ∧
      n'.filterMap id = n.filterMap id ∧ v'.filterMap id = v.filterMap id := by
  simp only [finSpec]
  split
  · split
    · rename_i h
      rw [squeeze_isEmpty] at h
      exact Or.inl ⟨rfl, by simpa using h⟩
    · exact Or.inr ⟨_, _, rfl, filterMap_id_squeeze _, filterMap_id_squeeze _⟩
  · exact Or.inr ⟨_, _, rfl, rfl, rfl⟩

theorem finSpec_entries (tok : Tok) (s : Option Spec) :
    ((finSpec s).1).elim [] (Spec.entries tok) = s.elim [] (Spec.entries tok) := by
  cases s with
  | none => rfl
  | some s =>
    cases s with
    | type => rfl
    | imp => rfl
    | value n v d t c =>
      rcases finSpec_value_fst n v d t c with ⟨h1, h2⟩ | ⟨n', v', h1, h2, h3⟩
      · rw [h1]; simp [Spec.entries, h2, varEntries]
      · rw [h1]; simp [Spec.entries, h2, h3]

theorem constEntries_fin (specs : List (Option Spec)) : ∀ (iota : Nat) (inh : List Val),
    constEntries (fun _ => true) ((specs.map (fun s => (finSpec s).1)).filterMap id) iota inh
      = constEntries (fun _ => true) (specs.filterMap id) iota inh := by
  induction specs with
  | nil => intro _ _; rfl
  | cons s t ih =>
    intro iota inh
    rw [List.map_cons]
    cases s with
    | none => exact ih iota inh
    | some s =>
      cases s with
      | type id name dirs sels cms => exact ih (iota + 1) inh
      | imp i => exact ih (iota + 1) inh
      | value n v d t c =>
        rcases finSpec_value_fst n v d t c with ⟨h1, h2⟩ | ⟨n', v', h1, h2, h3⟩
        · simp only [h1, List.filterMap_cons, id, constEntries, h2, List.isEmpty_nil, if_true]
          exact ih iota inh
        · simp only [h1, List.filterMap_cons, id, constEntries, h2, h3, ih]


theorem flatMap_none_nil {α β : Type} (g : Option α → List β) (hg : g none = []) (l : List (Option α)) :
    l.flatMap g = (l.filterMap id).flatMap (fun a => g (some a)) := by
  induction l with
  | nil => rfl
  | cons a t ih =>
    cases a with
    | none => simp [hg, ih]
    | some a => simp [ih]

theorem flatMap_map' {α β γ : Type} (f : α → β) (g : β → List γ) (l : List α) :
    (l.map f).flatMap g = l.flatMap (fun a => g (f a)) := by
  induction l with
  | nil => rfl
  | cons a t ih => simp [ih]

theorem genEntries_fin (tok : Tok) (specs : List (Option Spec)) :
    genEntries tok ((specs.map (fun s => (finSpec s).1)).filterMap id) = genEntries tok (specs.filterMap id) := by
  unfold genEntries
  split
  · exact constEntries_fin specs 0 []
  · rw [flatMap_filterMap_id, flatMap_filterMap_id, flatMap_map']
    congr 1
    funext s
    exact finSpec_entries tok s

theorem finDecl_gen_fst (tok : Tok) (dirs : List String) (doc : List Cm) (specs : List (Option Spec)) :
    ((finDecl (some (.gen tok dirs doc specs))).1 = none ∧
        (specs.map (fun s => (finSpec s).1)).filterMap id = []) ∨
    ∃ specs'', (finDecl (some (.gen tok dirs doc specs))).1 = some (.gen tok dirs doc specs'') ∧
      specs''.filterMap id = (specs.map (fun s => (finSpec s).1)).filterMap id := by
  have hm : (specs.map finSpec).map (·.1) = specs.map (fun s => (finSpec s).1) := by
    rw [List.map_map]; rfl
  simp only [finDecl, hm]
  split
  · split
    · rename_i h
      rw [squeeze_isEmpty] at h
      exact Or.inl ⟨rfl, by simpa using h⟩
    · exact Or.inr ⟨_, rfl, filterMap_id_squeeze _⟩
  · exact Or.inr ⟨_, rfl, rfl⟩

theorem finDecl_entries (d : Option Decl) :
    ((finDecl d).1).elim [] Decl.entries = d.elim [] Decl.entries := by
  cases d with
  | none => rfl
  | some d =>
    cases d with
    | func f => rfl
    | gen tok dirs doc specs =>
      rcases finDecl_gen_fst tok dirs doc specs with ⟨h1, h2⟩ | ⟨specs'', h1, h2⟩
      · rw [h1]
        simp only [Option.elim, Decl.entries_gen]
        rw [← genEntries_fin, h2, genEntries_nil]
      · rw [h1]
        simp only [Option.elim, Decl.entries_gen]
        rw [h2, genEntries_fin]

theorem finalizeRemovals_decls (f : File) :
    (finalizeRemovals f).decls.filterMap id = (f.decls.map (fun d => (finDecl d).1)).filterMap id := by
  have hm : (f.decls.map finDecl).map (·.1) = f.decls.map (fun d => (finDecl d).1) := by
    rw [List.map_map]; rfl
  simp only [finalizeRemovals, hm]
  split
  · exact filterMap_id_squeeze _
  · rfl

theorem entries_finalizeRemovals (f : File) : entries (finalizeRemovals f) = entries f := by
  unfold entries
  rw [finalizeRemovals_decls, flatMap_filterMap_id, flatMap_filterMap_id, flatMap_map']
  congr 1
  funext d
  exact finDecl_entries d

/-! ### L2 -/

theorem finSpec_imports (s : Option Spec) : Spec.imports (finSpec s).1 = Spec.imports s := by
  cases s with
  | none => rfl
  | some s =>
    cases s with
    | type => rfl
    | imp => rfl
    | value n v d t c =>
      rcases finSpec_value_fst n v d t c with ⟨h1, _⟩ | ⟨n', v', h1, _, _⟩ <;> rw [h1] <;> rfl

theorem finDecl_imports (d : Option Decl) : Decl.imports (finDecl d).1 = Decl.imports d := by
  cases d with
  | none => rfl
  | some d =>
    cases d with
    | func f => rfl
    | gen tok dirs doc specs =>
      have key : ∀ l : List (Option Spec),
          l.filterMap id = (specs.map (fun s => (finSpec s).1)).filterMap id →
          l.flatMap Spec.imports = specs.flatMap Spec.imports := by
        intro l hl
        rw [flatMap_none_nil Spec.imports rfl l, hl, ← flatMap_none_nil Spec.imports rfl, flatMap_map']
        congr 1
        funext s
        exact finSpec_imports s
      rcases finDecl_gen_fst tok dirs doc specs with ⟨h1, h2⟩ | ⟨specs'', h1, h2⟩
      · rw [h1]
        exact key [] h2.symm
      · rw [h1]
        exact key specs'' h2

theorem importsOf_finalizeRemovals (f : File) : importsOf (finalizeRemovals f) = importsOf f := by
  unfold importsOf
  rw [flatMap_none_nil Decl.imports rfl, finalizeRemovals_decls, ← flatMap_none_nil Decl.imports rfl,
    flatMap_map']
  congr 1
  funext d
  exact finDecl_imports d

/-! ### L3: `mapImports` keeps the entries -/

theorem flatMap_congr' {α β : Type} (f g : α → List β) (l : List α) (h : ∀ a ∈ l, f a = g a) :
    l.flatMap f = l.flatMap g := by
  induction l with
  | nil => rfl
  | cons a t ih =>
    rw [List.flatMap_cons, List.flatMap_cons, h a List.mem_cons_self,
      ih (fun b hb => h b (List.mem_cons_of_mem _ hb))]

theorem mapImportsSpec_entries (g : ImportSpec → Option ImportSpec) (tok : Tok) (s : Option Spec) :
    (mapImportsSpec g s).elim [] (Spec.entries tok) = s.elim [] (Spec.entries tok) := by
  cases s with
  | none => rfl
  | some s =>
    cases s with
    | type => rfl
    | value => rfl
    | imp i =>
      simp only [mapImportsSpec]
      cases g i <;> rfl

theorem constEntries_mapImports (g : ImportSpec → Option ImportSpec) (keep : Spec → Bool)
    (specs : List (Option Spec)) :
    (∀ s ∈ specs, ∀ i, s = some (Spec.imp i) → g i ≠ none) → ∀ (iota : Nat) (inh : List Val),
    constEntries keep ((specs.map (mapImportsSpec g)).filterMap id) iota inh
      = constEntries keep (specs.filterMap id) iota inh := by
  induction specs with
  | nil => intro _ _ _; rfl
  | cons s t ih =>
    intro h iota inh
    have ih' := ih (fun s hs => h s (List.mem_cons_of_mem _ hs))
    rw [List.map_cons]
    cases s with
    | none => exact ih' iota inh
    | some s =>
      cases s with
      | type id name dirs sels cms => exact ih' (iota + 1) inh
      | value n v d t c =>
        simp only [mapImportsSpec, List.filterMap_cons, id, constEntries, ih']
      | imp i =>
        have hi := h (some (.imp i)) List.mem_cons_self i rfl
        cases hg : g i with
        | none => exact absurd hg hi
        | some j =>
          simp only [mapImportsSpec, hg, Option.map_some, List.filterMap_cons, id, constEntries]
          exact ih' (iota + 1) inh

theorem mapImportsDecl_entries (g : ImportSpec → Option ImportSpec) (d : Option Decl)
    (h : ∀ dirs doc specs, d = some (Decl.gen Tok.const dirs doc specs) →
      ∀ s ∈ specs, ∀ i, s = some (Spec.imp i) → g i ≠ none) :
    (mapImportsDecl g d).elim [] Decl.entries = d.elim [] Decl.entries := by
  cases d with
  | none => rfl
  | some d =>
    cases d with
    | func f => rfl
    | gen tok dirs doc specs =>
      simp only [mapImportsDecl, Option.elim, Decl.entries_gen]
      unfold genEntries
      split
      · rename_i htok
        have htok' : tok = Tok.const := by simpa using htok
        subst htok'
        exact constEntries_mapImports g _ specs (h dirs doc specs rfl) 0 []
      · rw [flatMap_filterMap_id, flatMap_filterMap_id, flatMap_map']
        congr 1
        funext s
        exact mapImportsSpec_entries g tok s

/-- general form: inside const groups `g` must not nil an import spec (it would shift `iota`) -/
theorem entries_mapImports_of (g : ImportSpec → Option ImportSpec) (f : File)
    (h : ∀ d ∈ f.decls, ∀ dirs doc specs, d = some (Decl.gen Tok.const dirs doc specs) →
      ∀ s ∈ specs, ∀ i, s = some (Spec.imp i) → g i ≠ none) :
    entries (mapImports g f) = entries f := by
  unfold entries mapImports
  simp only []
  rw [flatMap_filterMap_id, flatMap_filterMap_id, flatMap_map']
  apply flatMap_congr'
  intro d hd
  exact mapImportsDecl_entries g d (h d hd)

theorem entries_mapImports (g : ImportSpec → Option ImportSpec) (f : File)
    (hImp : ∀ d ∈ f.decls, ∀ tok dirs doc specs, d = some (Decl.gen tok dirs doc specs) → tok = Tok.const →
      ∀ s ∈ specs, ∀ i, s ≠ some (Spec.imp i)) :
    entries (mapImports g f) = entries f :=
  entries_mapImports_of g f (fun d hd dirs doc specs hdeq s hs i hsi =>
    absurd hsi (hImp d hd Tok.const dirs doc specs hdeq rfl s hs i))

/-- no hypothesis on the file is needed when `g` never removes an import -/
theorem entries_mapImports_total (g : ImportSpec → Option ImportSpec) (f : File) (hg : ∀ i, g i ≠ none) :
    entries (mapImports g f) = entries f :=
  entries_mapImports_of g f (fun _ _ _ _ _ _ _ _ i _ => hg i)

theorem entries_augmentOriginalImports (importPath : String) (f : File) :
    entries (augmentOriginalImports importPath f) = entries f := by
  unfold augmentOriginalImports
  split
  · apply entries_mapImports_total
    intro i
    split <;> simp
  · rfl

/-! ### L4: `pruneImports` keeps the entries -/

theorem mapImportsSpec_comp (g1 g2 : ImportSpec → Option ImportSpec) (s : Option Spec) :
    mapImportsSpec g2 (mapImportsSpec g1 s) = mapImportsSpec (fun i => (g1 i).bind g2) s := by
  cases s with
  | none => rfl
  | some s =>
    cases s with
    | type => rfl
    | value => rfl
    | imp i =>
      simp only [mapImportsSpec]
      cases g1 i <;> rfl

theorem mapImportsDecl_comp (g1 g2 : ImportSpec → Option ImportSpec) (d : Option Decl) :
    mapImportsDecl g2 (mapImportsDecl g1 d) = mapImportsDecl (fun i => (g1 i).bind g2) d := by
  cases d with
  | none => rfl
  | some d =>
    cases d with
    | func f => rfl
    | gen tok dirs doc specs =>
      simp only [mapImportsDecl, List.map_map]
      congr 2
      apply List.map_congr_left
      intro s _
      exact mapImportsSpec_comp g1 g2 s

theorem mapImports_comp (g1 g2 : ImportSpec → Option ImportSpec) (f : File) :
    mapImports g2 (mapImports g1 f) = mapImports (fun i => (g1 i).bind g2) f := by
  simp only [mapImports, List.map_map]
  congr 1
  apply List.map_congr_left
  intro d _
  exact mapImportsDecl_comp g1 g2 d

theorem entries_of_isOnlyImports (f : File) (h : isOnlyImports f = true)
    (hNoType : ∀ d ∈ f.decls, ∀ dirs doc specs, d = some (Decl.gen Tok.imp dirs doc specs) →
      ∀ s ∈ specs, ∀ id name dirs' sels cms, s ≠ some (Spec.type id name dirs' sels cms)) :
    entries f = [] := by
  unfold entries
  rw [flatMap_filterMap_id, List.flatMap_eq_nil_iff]
  intro d hd
  unfold isOnlyImports at h
  rw [List.all_eq_true] at h
  have hd' := h d hd
  cases d with
  | none => rfl
  | some d =>
    cases d with
    | func fn => simp at hd'
    | gen tok dirs doc specs =>
      cases tok with
      | imp =>
        simp only [Option.elim, Decl.entries_gen]
        unfold genEntries
        rw [if_neg (by decide), flatMap_filterMap_id, List.flatMap_eq_nil_iff]
        intro s hs
        cases s with
        | none => rfl
        | some s =>
          cases s with
          | type id name dirs' sels cms => exact absurd rfl (hNoType _ hd dirs doc specs rfl _ hs id name dirs' sels cms)
          | value => rfl
          | imp => rfl
      | const => simp at hd'
      | type => simp at hd'
      | var => simp at hd'

theorem entries_pruneImports (f : File)
    (hImp : ∀ d ∈ f.decls, ∀ tok dirs doc specs, d = some (Decl.gen tok dirs doc specs) → tok = Tok.const →
      ∀ s ∈ specs, ∀ i, s ≠ some (Spec.imp i))
    (hNoType : ∀ d ∈ f.decls, ∀ dirs doc specs, d = some (Decl.gen Tok.imp dirs doc specs) →
      ∀ s ∈ specs, ∀ id name dirs' sels cms, s ≠ some (Spec.type id name dirs' sels cms)) :
    entries (pruneImports f) = entries f := by
  simp only [pruneImports]
  split
  · rename_i h
    have h1 : isOnlyImports f = true := by
      simp only [Bool.and_eq_true] at h; exact h.1
    rw [entries_of_isOnlyImports f h1 hNoType]
    rfl
  · split
    · rfl
    · split
      · exact entries_mapImports _ f hImp
      · rw [entries_finalizeRemovals, mapImports_comp]
        exact entries_mapImports _ f hImp

end GV.Augment
