/-
  GV.Proofs.Utf16 — lemmas about the two transcoding loops of GV.Model.Utf16 (used by GV.Props.C11).
-/
import GV.Model.Utf16
import GV.Spec.JsTable
import GV.Props.C14

namespace GV.Proofs.Utf16
open GV.Utf8 GV.Utf16 GV.Spec.Utf8 GV.Spec.JsTable

theorem isScalar_iff (r : Nat) : isScalar (r : Int) = true ↔ (r ≤ 0x10FFFF ∧ ¬ (0xD800 ≤ r ∧ r ≤ 0xDFFF)) := by
  unfold isScalar
  simp only [Bool.and_eq_true, Bool.not_eq_true', Bool.and_eq_false_iff, decide_eq_true_eq, decide_eq_false_iff_not]
  omega

/-- `$encodeRune` on a scalar value is the Unicode encoding -/
theorem encodeRune_scalar (r : Nat) (h : isScalar (r : Int) = true) : encodeRune (r : Int) = encodeScalar r := by
  rw [GV.Props.C14.encode_spec]
  unfold GV.Spec.Utf8.encode
  simp [h]

theorem encodeScalar_length_pos (r : Nat) : 1 ≤ (encodeScalar r).length := by
  unfold encodeScalar
  split
  · simp
  · split
    · simp
    · split <;> simp

/-! ### Go → JavaScript -/

/-- the code units of one scalar value as the loop emits them = UTF-16 -/
theorem unitsOf_eq (r : Nat) : unitsOf r = utf16Of r := by
  unfold unitsOf utf16Of
  by_cases h : r > 0xFFFF
  · have : ¬ r < 0x10000 := by omega
    simp only [h, this, if_true, if_false]
    simp [Nat.add_comm]
  · have : r < 0x10000 := by omega
    simp [h, this]

/-- the loop on `pre ++ encodings ++ []` started at `pre.length` -/
theorem extLoop_valid (rs : List Nat) (hs : ∀ r ∈ rs, isScalar (r : Int) = true) :
    ∀ (pre : Str) (fuel : Nat), rs.length ≤ fuel →
      extLoop (pre ++ (rs.map encodeScalar).flatten) fuel pre.length = (rs.map unitsOf).flatten := by
  induction rs with
  | nil =>
    intro pre fuel _
    cases fuel <;> simp [extLoop]
  | cons r rs ih =>
    intro pre fuel hf
    cases fuel with
    | zero => simp at hf
    | succ fuel =>
      have hr : isScalar (r : Int) = true := hs r (by simp)
      have hs' : ∀ x ∈ rs, isScalar (x : Int) = true := fun x hx => hs x (by simp [hx])
      have hlen := encodeScalar_length_pos r
      simp only [List.map_cons, List.flatten_cons]
      unfold extLoop
      have hlt : pre.length < (pre ++ (encodeScalar r ++ (rs.map encodeScalar).flatten)).length := by
        simp only [List.length_append]; omega
      rw [if_pos hlt]
      have hd : decodeRune (pre ++ (encodeScalar r ++ (rs.map encodeScalar).flatten)) pre.length
          = (r, (encodeScalar r).length) := by
        rw [GV.Props.C14.decodeRune_drop]
        simp only [List.drop_left]
        have := GV.Props.C14.decode_encode (r : Int) hr ((rs.map encodeScalar).flatten)
        rw [encodeRune_scalar r hr] at this
        simpa using this
      simp only [hd]
      have := ih hs' (pre ++ encodeScalar r) fuel (by simp at hf; omega)
      simp only [List.append_assoc, List.length_append] at this
      rw [this]

/-- on an ASCII string the loop copies the string -/
theorem extLoop_ascii (s : Str) (ha : isASCII s = true) :
    ∀ (fuel i : Nat), s.length - i ≤ fuel → extLoop s fuel i = s.drop i := by
  intro fuel
  induction fuel with
  | zero =>
    intro i h
    unfold extLoop
    have : s.length ≤ i := by omega
    simp [List.drop_eq_nil_of_le this]
  | succ fuel ih =>
    intro i h
    unfold extLoop
    by_cases hi : i < s.length
    · rw [if_pos hi]
      have hc : s[i] < 128 := by
        unfold isASCII at ha
        rw [List.all_eq_true] at ha
        have := ha s[i] (List.getElem_mem hi)
        simpa using this
      have hd : decodeRune s i = (s[i], 1) := by
        unfold decodeRune
        have : charCodeAt s i = some s[i] := by simp [charCodeAt, hi]
        rw [this]
        exact GV.Props.C14.core_ascii s[i] _ _ _ (by omega)
      simp only [hd]
      rw [ih (i + 1) (by omega)]
      have hu : unitsOf s[i] = [s[i]] := by
        unfold unitsOf
        have : ¬ s[i] > 0xFFFF := by omega
        simp [this]
      rw [hu, List.drop_eq_getElem_cons hi]
      simp
    · rw [if_neg hi]
      have : s.length ≤ i := by omega
      simp [List.drop_eq_nil_of_le this]

/-- `$externalize(s, $String)` is the loop, whether or not the ASCII shortcut is taken -/
theorem externalizeString_eq (s : Str) : externalizeString s = extLoop s s.length 0 := by
  unfold externalizeString
  by_cases ha : isASCII s = true
  · rw [if_pos ha, extLoop_ascii s ha s.length 0 (by omega)]
    simp
  · rw [if_neg ha]

theorem length_le_flatten (rs : List Nat) : rs.length ≤ ((rs.map encodeScalar).flatten).length := by
  induction rs with
  | nil => simp
  | cons r rs ih =>
    simp only [List.map_cons, List.flatten_cons, List.length_append, List.length_cons]
    have := encodeScalar_length_pos r
    omega

/-- **externalizing well-formed UTF-8 yields the UTF-16 encoding of the same scalar values** -/
theorem externalize_valid (rs : List Nat) (hs : ∀ r ∈ rs, isScalar (r : Int) = true) :
    externalizeString ((rs.map encodeScalar).flatten) = (rs.map utf16Of).flatten := by
  rw [externalizeString_eq]
  have := extLoop_valid rs hs [] ((rs.map encodeScalar).flatten).length (length_le_flatten rs)
  simp only [List.nil_append, List.length_nil] at this
  rw [this]
  congr 1
  exact List.map_congr_left (fun r _ => unitsOf_eq r)

/-! ### JavaScript → Go -/

theorem encodeRune_ascii (c : Nat) (h : c < 128) : encodeRune (c : Int) = [c] := by
  unfold encodeRune
  have h1 : ¬ ((c : Int) < 0 ∨ (c : Int) > 0x10FFFF ∨ (0xD800 ≤ (c : Int) ∧ (c : Int) ≤ 0xDFFF)) := by omega
  simp only [Bool.or_eq_true, Bool.and_eq_true, decide_eq_true_eq]
  have h2 : ¬ (((c : Int) < 0 ∨ (c : Int) > 1114111) ∨ 55296 ≤ (c : Int) ∧ (c : Int) ≤ 57343) := by omega
  rw [if_neg h2]
  have : (c : Int).toNat ≤ 0x7F := by omega
  simp only [this, if_true]
  simp

/-- one step of the loop on a unit that is not a high surrogate -/
theorem intLoop_cons_low (h : Nat) (rest : Str16) (hh : ¬ (0xD800 ≤ h ∧ h ≤ 0xDBFF)) :
    intLoop (h :: rest) = encodeRune (h : Int) ++ intLoop rest := by
  cases rest with
  | nil => simp [intLoop, hh]
  | cons l t => simp [intLoop, hh]

/-- one step of the loop on a high surrogate followed by any unit -/
theorem intLoop_cons_high (h l : Nat) (rest : Str16) (hh : 0xD800 ≤ h ∧ h ≤ 0xDBFF) :
    intLoop (h :: l :: rest) = encodeRune (((h : Int) - 0xD800) * 0x400 + (l : Int) - 0xDC00 + 0x10000) ++ intLoop rest := by
  simp [intLoop, hh]

theorem intLoop_ascii (u : Str16) (ha : isASCII u = true) : intLoop u = u := by
  induction u with
  | nil => simp [intLoop]
  | cons c t ih =>
    unfold isASCII at ha
    simp only [List.all_cons, Bool.and_eq_true, decide_eq_true_eq] at ha
    rw [intLoop_cons_low c t (by omega), encodeRune_ascii c ha.1, ih (by unfold isASCII; exact ha.2)]
    simp

/-- `$internalize(u, $String)` is the loop, whether or not the ASCII shortcut is taken -/
theorem internalizeString_eq (u : Str16) : internalizeString u = intLoop u := by
  unfold internalizeString
  by_cases ha : isASCII u = true
  · rw [if_pos ha, intLoop_ascii u ha]
  · rw [if_neg ha]

/-- the loop on the UTF-16 encoding of a scalar value followed by anything -/
theorem intLoop_scalar (r : Nat) (hr : isScalar (r : Int) = true) (rest : Str16) :
    intLoop (utf16Of r ++ rest) = encodeScalar r ++ intLoop rest := by
  have hsc := (isScalar_iff r).mp hr
  unfold utf16Of
  by_cases hlt : r < 0x10000
  · simp only [hlt, if_true, List.cons_append, List.nil_append]
    rw [intLoop_cons_low r rest (by omega), encodeRune_scalar r hr]
  · simp only [hlt, if_false, List.cons_append, List.nil_append]
    have hh : 0xD800 ≤ 0xD800 + (r - 0x10000) / 0x400 ∧ 0xD800 + (r - 0x10000) / 0x400 ≤ 0xDBFF := by omega
    rw [intLoop_cons_high _ _ rest hh]
    have hc : (((0xD800 + (r - 0x10000) / 0x400 : Nat) : Int) - 0xD800) * 0x400 + ((0xDC00 + (r - 0x10000) % 0x400 : Nat) : Int)
        - 0xDC00 + 0x10000 = (r : Int) := by omega
    rw [hc, encodeRune_scalar r hr]

theorem intLoop_valid (rs : List Nat) (hs : ∀ r ∈ rs, isScalar (r : Int) = true) :
    intLoop ((rs.map utf16Of).flatten) = (rs.map encodeScalar).flatten := by
  induction rs with
  | nil => simp [intLoop]
  | cons r rs ih =>
    simp only [List.map_cons, List.flatten_cons]
    rw [intLoop_scalar r (hs r (by simp)), ih (fun x hx => hs x (by simp [hx]))]

/-- **internalizing well-formed UTF-16 yields the UTF-8 encoding of the same scalar values** -/
theorem internalize_valid (rs : List Nat) (hs : ∀ r ∈ rs, isScalar (r : Int) = true) :
    internalizeString ((rs.map utf16Of).flatten) = (rs.map encodeScalar).flatten := by
  rw [internalizeString_eq, intLoop_valid rs hs]

end GV.Proofs.Utf16
