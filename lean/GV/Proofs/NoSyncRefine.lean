import GV.Model.NoSync
import GV.Spec.SyncSeq

/-! nosync refines the sequential specification of sync (GV.Props.C13). -/
set_option linter.unusedSimpArgs false
namespace GV.Proofs.NoSyncRefine
open GV.NoSync GV.Spec.SyncSeq

/-- the refinement relation between a nosync state and a specification state -/
def R (s : State) (t : Spec) : Prop :=
  s.mLocked = t.mHeld ∧ s.rwWrite = t.writer ∧ s.rwReaders = (t.readers : Int) ∧ s.wg = t.wg ∧
  s.onceDone = t.onceDone ∧ s.onceDoing = false ∧ s.map.getD [] = t.map ∧ s.pool = t.pool

/-- a nosync outcome matches a specification outcome: same value when the operation returns; a panic exactly where
    the specification panics, blocks forever or throws -/
def Matches : SOut → Out → Prop
  | .ok v, .ok v' => v = v'
  | .ok _, .panic _ => False
  | _, .panic _ => True
  | _, .ok _ => False

theorem R_init : R {} {} := by simp [R]

theorem rangeCalls_closed (n : Int) (l : List (Int × Int)) (k : Nat) (hn : 0 ≤ n) :
    rangeCalls n l k = if l.length = 0 then k else if n ≤ (k : Int) + 1 then k + 1 else min n.toNat (k + l.length) := by
  induction l generalizing k with
  | nil => simp [rangeCalls]
  | cons a rest ih =>
    simp only [rangeCalls, List.length_cons]
    have hneg : ¬ n < 0 := by omega
    by_cases hc : ((k + 1 : Nat) : Int) < n
    · simp only [hneg, hc, false_or, if_true]
      rw [ih]
      repeat' split
      all_goals omega
    · simp only [hneg, hc, false_or, if_false]
      repeat' split
      all_goals omega

theorem takeAny_last (l : List Int) (h : l ≠ []) :
    ∃ x, l.getLast? = some x ∧ (x, l.dropLast) ∈ takeAny l := by
  have hlen : 0 < l.length := List.length_pos_iff.mpr h
  refine ⟨l[l.length - 1]'(by omega), ?_, ?_⟩
  · rw [List.getLast?_eq_getElem?]; simp
  · simp only [takeAny, List.mem_filterMap, List.mem_range, Option.map_eq_some_iff]
    refine ⟨l.length - 1, by omega, l[l.length - 1]'(by omega), by simp, ?_⟩
    rw [List.eraseIdx_eq_dropLast] <;> first | rfl | omega


/-- one operation: the nosync outcome is one the specification allows, and the states stay related unless the
    specification says the goroutine is gone (blocked forever / fatal error) -/
theorem step_refines (s : State) (t : Spec) (op : Op) (h : R s t) :
    ∃ p ∈ GV.Spec.SyncSeq.step t op, Matches p.1 (GV.NoSync.step s op).2 ∧
      (p.1.terminal = true ∨ R (GV.NoSync.step s op).1 p.2) := by
  obtain ⟨h1, h2, h3, h4, h5, h6, h7, h8⟩ := h
  cases op with
  | mLock =>
    by_cases hl : s.mLocked = true
    · refine ⟨(.block, t), by simp [GV.Spec.SyncSeq.step, ← h1, hl], by simp [GV.NoSync.step, hl, Matches], Or.inl rfl⟩
    · refine ⟨(.ok .unit, { t with mHeld := true }), by simp [GV.Spec.SyncSeq.step, ← h1, hl], by simp [GV.NoSync.step, hl, Matches], Or.inr ?_⟩
      simp_all [GV.NoSync.step, hl, R]
  | mUnlock =>
    by_cases hl : s.mLocked = true
    · refine ⟨(.ok .unit, { t with mHeld := false }), by simp [GV.Spec.SyncSeq.step, ← h1, hl], by simp [GV.NoSync.step, hl, Matches], Or.inr ?_⟩
      simp_all [GV.NoSync.step, hl, R]
    · refine ⟨(.fatal, t), by simp [GV.Spec.SyncSeq.step, ← h1, hl], by simp [GV.NoSync.step, hl, Matches], Or.inl rfl⟩
  | rwLock =>
    by_cases hl : s.rwReaders ≠ 0 ∨ s.rwWrite = true
    · refine ⟨(.block, t), ?_, by simp [GV.NoSync.step, hl, Matches], Or.inl rfl⟩
      have : t.writer = true ∨ t.readers > 0 := by
        rcases hl with hl | hl
        · right; omega
        · left; rw [← h2]; exact hl
      simp [GV.Spec.SyncSeq.step, this]
    · have hn : ¬ (t.writer = true ∨ t.readers > 0) := by
        intro hc; apply hl
        rcases hc with hc | hc
        · right; rw [h2]; exact hc
        · left; omega
      refine ⟨(.ok .unit, { t with writer := true }), by simp [GV.Spec.SyncSeq.step, hn], by simp [GV.NoSync.step, hl, Matches], Or.inr ?_⟩
      simp_all [GV.NoSync.step, hl, R]
  | rwUnlock =>
    by_cases hl : s.rwWrite = true
    · refine ⟨(.ok .unit, { t with writer := false }), by simp [GV.Spec.SyncSeq.step, ← h2, hl], by simp [GV.NoSync.step, hl, Matches], Or.inr ?_⟩
      simp_all [GV.NoSync.step, hl, R]
    · refine ⟨(.fatal, t), by simp [GV.Spec.SyncSeq.step, ← h2, hl], by simp [GV.NoSync.step, hl, Matches], Or.inl rfl⟩
  | rwRLock =>
    by_cases hl : s.rwWrite = true
    · refine ⟨(.block, t), by simp [GV.Spec.SyncSeq.step, ← h2, hl], by simp [GV.NoSync.step, hl, Matches], Or.inl rfl⟩
    · refine ⟨(.ok .unit, { t with readers := t.readers + 1 }), by simp [GV.Spec.SyncSeq.step, ← h2, hl], by simp [GV.NoSync.step, hl, Matches], Or.inr ?_⟩
      simp_all [GV.NoSync.step, hl, R]
  | rwRUnlock =>
    by_cases hl : s.rwReaders = 0
    · refine ⟨(.fatal, t), ?_, by simp [GV.NoSync.step, hl, Matches], Or.inl rfl⟩
      have : t.readers = 0 := by omega
      simp [GV.Spec.SyncSeq.step, this]
    · have hne : ¬ t.readers = 0 := by omega
      refine ⟨(.ok .unit, { t with readers := t.readers - 1 }), by simp [GV.Spec.SyncSeq.step, hne], by simp [GV.NoSync.step, hl, Matches], Or.inr ?_⟩
      simp_all [GV.NoSync.step, hl, R]
      omega
  | wgAdd d =>
    by_cases hl : s.wg + d < 0
    · refine ⟨(.panic, { t with wg := t.wg + d }), by simp [GV.Spec.SyncSeq.step, ← h4, hl], by simp [GV.NoSync.step, hl, Matches], Or.inr ?_⟩
      simp_all [GV.NoSync.step, hl, R]
    · have hs : GV.NoSync.step s (.wgAdd d) = ({ s with wg := s.wg + d }, .ok .unit) := by simp [GV.NoSync.step, hl]
      rw [hs]
      refine ⟨(.ok .unit, { t with wg := t.wg + d }), by simp [GV.Spec.SyncSeq.step, ← h4, hl], by simp [Matches], Or.inr ?_⟩
      simp_all [R]
  | wgDone =>
    have e : s.wg + -1 = t.wg - 1 := by omega
    by_cases hl : t.wg - 1 < 0
    · refine ⟨(.panic, { t with wg := t.wg - 1 }), by simp [GV.Spec.SyncSeq.step, hl], by simp [GV.NoSync.step, e, hl, Matches], Or.inr ?_⟩
      simp_all [GV.NoSync.step, e, hl, R]
    · have hs : GV.NoSync.step s .wgDone = ({ s with wg := t.wg - 1 }, .ok .unit) := by simp [GV.NoSync.step, e, hl]
      rw [hs]
      refine ⟨(.ok .unit, { t with wg := t.wg - 1 }), by simp [GV.Spec.SyncSeq.step, hl], by simp [Matches], Or.inr ?_⟩
      simp_all [R]
  | wgWait =>
    by_cases hl : s.wg = 0
    · refine ⟨(.ok .unit, t), by simp [GV.Spec.SyncSeq.step, ← h4, hl], by simp [GV.NoSync.step, hl, Matches], Or.inr ?_⟩
      simp_all [GV.NoSync.step, hl, R]
    · refine ⟨(.block, t), by simp [GV.Spec.SyncSeq.step, ← h4, hl], by simp [GV.NoSync.step, hl, Matches], Or.inl rfl⟩
  | onceDo f =>
    by_cases hd : s.onceDone = true
    · refine ⟨(.ok (.ran 0), t), by simp [GV.Spec.SyncSeq.step, ← h5, hd], by simp [GV.NoSync.step, onceDoCore, hd, Matches], Or.inr ?_⟩
      simp_all [GV.NoSync.step, onceDoCore, hd, R]
    · have hd' : t.onceDone = false := by rw [← h5]; simpa using hd
      cases f with
      | ok =>
        refine ⟨(.ok (.ran 1), { t with onceDone := true }), by simp [GV.Spec.SyncSeq.step, hd'], by simp [GV.NoSync.step, onceDoCore, onceBody, hd, h6, Matches], Or.inr ?_⟩
        simp_all [GV.NoSync.step, onceDoCore, onceBody, hd, h6, R]
      | panic =>
        refine ⟨(.panic, { t with onceDone := true }), by simp [GV.Spec.SyncSeq.step, hd'], by simp [GV.NoSync.step, onceDoCore, onceBody, hd, h6, Matches], Or.inr ?_⟩
        simp_all [GV.NoSync.step, onceDoCore, onceBody, hd, h6, R]
      | nest =>
        refine ⟨(.block, t), by simp [GV.Spec.SyncSeq.step, hd'], by simp [GV.NoSync.step, onceDoCore, onceBody, hd, h6, Matches], Or.inl rfl⟩
  | mapLoad k =>
    refine ⟨(.ok (.loaded (t.map.lookup k) (t.map.lookup k).isSome), t), by simp [GV.Spec.SyncSeq.step], ?_, Or.inr ?_⟩
    · simp [GV.NoSync.step, goLookup, h7, Matches]
    · simp_all [GV.NoSync.step, R]
  | mapStore k v =>
    refine ⟨(.ok .unit, { t with map := goInsert t.map k v }), by simp [GV.Spec.SyncSeq.step], by simp [GV.NoSync.step, Matches], Or.inr ?_⟩
    cases hm : s.map <;> simp [hm] at h7 <;> simp_all [GV.NoSync.step, hm, R]
  | mapLoadOrStore k v =>
    cases hk : t.map.lookup k with
    | some x =>
      refine ⟨(.ok (.loaded (some x) true), t), by simp [GV.Spec.SyncSeq.step, hk], by simp [GV.NoSync.step, goLookup, h7, hk, Matches], Or.inr ?_⟩
      simp_all [GV.NoSync.step, goLookup, h7, hk, R]
    | none =>
      have hs : GV.NoSync.step s (.mapLoadOrStore k v) =
          ({ s with map := some (goInsert t.map k v) }, .ok (.loaded (some v) false)) := by
        cases hm : s.map <;> simp [hm] at h7 <;> simp [GV.NoSync.step, goLookup, hm, h7, hk]
      rw [hs]
      refine ⟨(.ok (.loaded (some v) false), { t with map := goInsert t.map k v }), by simp [GV.Spec.SyncSeq.step, hk], by simp [Matches], Or.inr ?_⟩
      simp_all [R]
  | mapDelete k =>
    refine ⟨(.ok .unit, { t with map := goDelete t.map k }), by simp [GV.Spec.SyncSeq.step], ?_, Or.inr ?_⟩
    · cases hm : s.map <;> simp [GV.NoSync.step, hm, Matches]
    · cases hm : s.map <;> simp [hm] at h7 <;> simp_all [GV.NoSync.step, hm, R, goDelete]
  | mapRange n =>
    by_cases hn : n < 0
    · refine ⟨(.ok (.pairs (sortPairs t.map)), t), by simp [GV.Spec.SyncSeq.step, hn], by simp [GV.NoSync.step, hn, h7, Matches], Or.inr ?_⟩
      simp_all [GV.NoSync.step, hn, R]
    · refine ⟨(.ok (.calls (if t.map.length = 0 then 0 else if n ≤ 1 then 1 else min n.toNat t.map.length)), t),
        by simp [GV.Spec.SyncSeq.step, hn], ?_, Or.inr ?_⟩
      · simp only [GV.NoSync.step, hn, if_false, h7, Matches]
        rw [rangeCalls_closed n t.map 0 (by omega)]
        simp
      · have hs : (GV.NoSync.step s (.mapRange n)).1 = s := by simp only [GV.NoSync.step]; split <;> rfl
        rw [hs]; exact ⟨h1, h2, h3, h4, h5, h6, h7, h8⟩
  | poolPut x =>
    cases x with
    | none =>
      refine ⟨(.ok .unit, t), by simp [GV.Spec.SyncSeq.step], by simp [GV.NoSync.step, Matches], Or.inr ?_⟩
      simp_all [GV.NoSync.step, R]
    | some x =>
      refine ⟨(.ok .unit, { t with pool := t.pool ++ [x] }), by simp [GV.Spec.SyncSeq.step], by simp [GV.NoSync.step, Matches], Or.inr ?_⟩
      simp_all [GV.NoSync.step, R]
  | poolGet new =>
    by_cases he : s.pool = []
    · refine ⟨(.ok (.item new), t), by simp [GV.Spec.SyncSeq.step], by simp [GV.NoSync.step, he, Matches], Or.inr ?_⟩
      simp_all [GV.NoSync.step, he, R]
    · have hne : t.pool ≠ [] := by rw [← h8]; exact he
      obtain ⟨x, hx, hmem⟩ := takeAny_last t.pool hne
      have hlen : ¬ s.pool.length = 0 := by
        intro hc; exact he (List.length_eq_zero_iff.mp hc)
      have hs : GV.NoSync.step s (.poolGet new) = ({ s with pool := s.pool.dropLast }, .ok (.item s.pool.getLast?)) := by
        simp [GV.NoSync.step, he]
      rw [hs]
      refine ⟨(.ok (.item (some x)), { t with pool := t.pool.dropLast }), ?_, ?_, Or.inr ?_⟩
      · simp only [GV.Spec.SyncSeq.step, List.mem_cons, List.mem_map]
        right
        exact ⟨(x, t.pool.dropLast), hmem, rfl⟩
      · simp [h8, hx, Matches]
      · simp_all [R]

/-- lifting to whole histories -/
def Allowed : Spec → List Op → List Out → Prop
  | _, [], [] => True
  | t, op :: ops, o :: os =>
    ∃ p ∈ GV.Spec.SyncSeq.step t op, Matches p.1 o ∧ (p.1.terminal = true ∨ Allowed p.2 ops os)
  | _, _, _ => False

theorem run_allowed (s : State) (t : Spec) (h : R s t) (ops : List Op) : Allowed t ops (run s ops) := by
  induction ops generalizing s t with
  | nil => trivial
  | cons op ops ih =>
    obtain ⟨p, hp, hm, hr⟩ := step_refines s t op h
    refine ⟨p, hp, hm, ?_⟩
    rcases hr with hr | hr
    · exact Or.inl hr
    · exact Or.inr (ih _ _ hr)

end GV.Proofs.NoSyncRefine
