/-
  GV.Proofs.GoMapRange — facts about the emitted `for k, v := range m` loop that hold for EVERY loop body.
-/
import GV.Model.GoMap

namespace GV.Proofs.GoMapRange
open GV.MapKey GV.GoMap

theorem nextAux_gt : ∀ (m : JMap) (p : Nat) (k : JKey) (q : Nat), JMap.nextAux m p = some (k, q) → p < q
  | [], _, _, _, h => by simp [JMap.nextAux] at h
  | none :: m, p, k, q, h => by
    simp only [JMap.nextAux] at h
    have := nextAux_gt m (p + 1) k q h
    omega
  | some (k', _) :: _, p, k, q, h => by
    simp only [JMap.nextAux, Option.some.injEq, Prod.mk.injEq] at h
    omega

/-- visited slot positions are strictly increasing and all below the iterator -/
def WF {σ : Type} (s : LoopSt σ) : Prop :=
  (s.visited.map (·.1)).Pairwise (· < ·) ∧ ∀ i, s.it = some i → ∀ p ∈ s.visited.map (·.1), p < i

theorem next_some {m : JMap} {it : Option Nat} {k : JKey} (h : (JMap.next m it).1 = some k) :
    ∃ i q, it = some i ∧ (JMap.next m it).2 = some q ∧ i < q := by
  cases it with
  | none => simp [JMap.next] at h
  | some i =>
    simp only [JMap.next] at h ⊢
    cases hn : JMap.nextAux (m.drop i) i with
    | none => simp [hn] at h
    | some r =>
      obtain ⟨k', q⟩ := r
      exact ⟨i, q, rfl, by simp, nextAux_gt _ _ _ _ hn⟩

theorem next_it_ge {m : JMap} {i q : Nat} (h : (JMap.next m (some i)).2 = some q) : i < q := by
  simp only [JMap.next] at h
  cases hn : JMap.nextAux (m.drop i) i with
  | none => simp [hn] at h
  | some r =>
    obtain ⟨k', q'⟩ := r
    simp [hn] at h
    subst h
    exact nextAux_gt _ _ _ _ hn

theorem rangeLoop_WF {σ : Type} (fs : Int → Str) (body : Body σ) :
    ∀ (n : Nat) (s : LoopSt σ), WF s → WF (rangeLoop fs body n s)
  | 0, s, h => h
  | n + 1, s, h => by
    simp only [rangeLoop]
    split
    · -- skipped iteration: only the iterator moves
      apply rangeLoop_WF fs body n
      refine ⟨h.1, ?_⟩
      intro q hq p hp
      cases hi : s.it with
      | none => simp [hi, JMap.next] at hq
      | some i =>
        rw [hi] at hq
        have := next_it_ge hq
        have := h.2 i hi p hp
        omega
    · rename_i e he
      apply rangeLoop_WF fs body n
      have hk : ∃ k, (JMap.next s.jm s.it).1 = some k := by
        cases hk : (JMap.next s.jm s.it).1 with
        | none => simp [hk] at he
        | some k => exact ⟨k, rfl⟩
      obtain ⟨k, hk⟩ := hk
      obtain ⟨i, q, hi, hq, hlt⟩ := next_some hk
      constructor
      · simp only [List.map_append, List.map_cons, List.map_nil, hq, Option.getD_some]
        rw [List.pairwise_append]
        refine ⟨h.1, by simp, ?_⟩
        intro p hp p' hp'
        simp at hp'
        have := h.2 i hi p hp
        omega
      · intro q' hq' p hp
        simp only [hq, Option.some.injEq] at hq'
        subst hq'
        simp only [List.map_append, List.map_cons, List.map_nil, hq, Option.getD_some, List.mem_append,
          List.mem_singleton] at hp
        rcases hp with hp | hp
        · have := h.2 i hi p hp; omega
        · omega

/-- FOR EVERY LOOP BODY: the slot positions of the visits are strictly increasing, so no entry (= one creation of a
    key) is visited twice -/
theorem range_visits_increasing {σ : Type} (fs : Int → Str) (body : Body σ) (jm : JMap) (st : KSt) (u : σ) :
    ((range fs body jm st u).visited.map (·.1)).Pairwise (· < ·) :=
  (rangeLoop_WF fs body jm.size _ ⟨by simp, by simp⟩).1

theorem range_visits_nodup {σ : Type} (fs : Int → Str) (body : Body σ) (jm : JMap) (st : KSt) (u : σ) :
    ((range fs body jm st u).visited.map (·.1)).Nodup :=
  (range_visits_increasing fs body jm st u).imp (fun h => Nat.ne_of_lt h)

/-! ### emptied slots stay empty, and the iterator only reports live slots -/

theorem set_none_stable : ∀ (m : JMap) (k : JKey) (e : Entry) (p : Nat), m[p]? = some none → (m.set k e)[p]? = some none
  | [], _, _, p, h => by simp at h
  | none :: m, k, e, 0, _ => by simp [JMap.set]
  | none :: m, k, e, p + 1, h => by
    simp only [JMap.set, List.getElem?_cons_succ] at h ⊢
    exact set_none_stable m k e p h
  | some (k', e') :: m, k, e, 0, h => by simp at h
  | some (k', e') :: m, k, e, p + 1, h => by
    simp only [List.getElem?_cons_succ] at h
    by_cases c : k' = k
    · simp [JMap.set, c, h]
    · simp only [JMap.set, c, if_false, List.getElem?_cons_succ]
      exact set_none_stable m k e p h

theorem delete_none_stable : ∀ (m : JMap) (k : JKey) (p : Nat), m[p]? = some none → (m.delete k)[p]? = some none
  | [], _, p, h => by simp at h
  | none :: m, k, 0, _ => by simp [JMap.delete]
  | none :: m, k, p + 1, h => by
    simp only [JMap.delete, List.getElem?_cons_succ] at h ⊢
    exact delete_none_stable m k p h
  | some (k', e') :: m, k, 0, h => by simp at h
  | some (k', e') :: m, k, p + 1, h => by
    simp only [List.getElem?_cons_succ] at h
    by_cases c : k' = k
    · simp [JMap.delete, c, h]
    · simp only [JMap.delete, c, if_false, List.getElem?_cons_succ]
      exact delete_none_stable m k p h

theorem muts_none_stable (fs : Int → Str) (p : Nat) : ∀ (ms : List Mut) (jm : JMap) (st : KSt), jm[p]? = some none →
    (ms.foldl (applyMut fs) (jm, st)).1[p]? = some none
  | [], _, _, h => h
  | .store k v :: ms, jm, st, h => by
    simp only [List.foldl, applyMut]
    exact muts_none_stable fs p ms _ _ (set_none_stable jm _ _ p h)
  | .delete k :: ms, jm, st, h => by
    simp only [List.foldl, applyMut]
    exact muts_none_stable fs p ms _ _ (delete_none_stable jm _ p h)

/-- the slot just before the position returned by `nextAux` is live -/
theorem nextAux_live : ∀ (m : JMap) (p : Nat) (k : JKey) (q : Nat), JMap.nextAux m p = some (k, q) →
    ∃ e, m[q - 1 - p]? = some (some (k, e))
  | [], _, _, _, h => by simp [JMap.nextAux] at h
  | none :: m, p, k, q, h => by
    simp only [JMap.nextAux] at h
    obtain ⟨e, he⟩ := nextAux_live m (p + 1) k q h
    have := nextAux_gt m (p + 1) k q h
    refine ⟨e, ?_⟩
    have : q - 1 - p = (q - 1 - (p + 1)) + 1 := by omega
    rw [this, List.getElem?_cons_succ]; exact he
  | some (k', e') :: _, p, k, q, h => by
    simp only [JMap.nextAux, Option.some.injEq, Prod.mk.injEq] at h
    refine ⟨e', ?_⟩
    have : q - 1 - p = 0 := by omega
    rw [this, ← h.1]; simp

theorem next_live {m : JMap} {it : Option Nat} {k : JKey} {q : Nat} (hk : (JMap.next m it).1 = some k)
    (hq : (JMap.next m it).2 = some q) : ∃ e, m[q - 1]? = some (some (k, e)) := by
  cases it with
  | none => simp [JMap.next] at hk
  | some i =>
    simp only [JMap.next] at hk hq
    cases hn : JMap.nextAux (m.drop i) i with
    | none => simp [hn] at hk
    | some r =>
      obtain ⟨k', q'⟩ := r
      simp [hn] at hk hq
      subst hk; subst hq
      obtain ⟨e, he⟩ := nextAux_live _ _ _ _ hn
      have := nextAux_gt _ _ _ _ hn
      refine ⟨e, ?_⟩
      rw [List.getElem?_drop] at he
      have : i + (q' - 1 - i) = q' - 1 := by omega
      rw [this] at he; exact he

/-- FOR EVERY LOOP BODY: a slot that is empty (its entry was deleted) and has not been visited so far is never
    visited by the rest of the loop — deleted slots are never refilled and the iterator only reports live slots -/
theorem rangeLoop_skips_deleted {σ : Type} (fs : Int → Str) (body : Body σ) (p : Nat) :
    ∀ (n : Nat) (s : LoopSt σ), s.jm[p]? = some none → (∀ x ∈ s.visited, x.1 ≠ p) →
      ∀ x ∈ (rangeLoop fs body n s).visited, x.1 ≠ p
  | 0, s, _, hv => hv
  | n + 1, s, hd, hv => by
    simp only [rangeLoop]
    split
    · exact rangeLoop_skips_deleted fs body p n _ hd hv
    · rename_i e he
      apply rangeLoop_skips_deleted fs body p n
      · exact muts_none_stable fs p _ _ _ hd
      · intro x hx
        simp only [List.mem_append, List.mem_singleton] at hx
        rcases hx with hx | hx
        · exact hv x hx
        · have hk : ∃ k, (JMap.next s.jm s.it).1 = some k := by
            cases hk : (JMap.next s.jm s.it).1 with
            | none => simp [hk] at he
            | some k => exact ⟨k, rfl⟩
          obtain ⟨k, hk⟩ := hk
          obtain ⟨i, q, hi, hq, hlt⟩ := next_some hk
          obtain ⟨e', hl⟩ := next_live hk hq
          rw [hx]
          simp only [hq, Option.getD_some]
          intro hp
          rw [hp, hd] at hl
          cases hl

/-- each visit reports an entry that is in the map at that moment (the `get` re-check) -/
theorem rangeLoop_visit_live {σ : Type} (fs : Int → Str) (body : Body σ) (n : Nat) (s : LoopSt σ) (e : Entry)
    (h : (JMap.next s.jm s.it).1.bind (JMap.get s.jm) = some e) :
    (∃ k, s.jm.get k = some e) ∧
    ∃ s', rangeLoop fs body (n + 1) s = rangeLoop fs body n s' ∧ s'.visited = s.visited ++ [(((JMap.next s.jm s.it).2.getD 0) - 1, e)] := by
  constructor
  · cases hk : (JMap.next s.jm s.it).1 with
    | none => simp [hk] at h
    | some k => rw [hk] at h; exact ⟨k, h⟩
  · simp only [rangeLoop, h]
    exact ⟨_, rfl, rfl⟩

/-- and an iteration whose `get` re-check fails (iterator exhausted) visits nothing -/
theorem rangeLoop_skip {σ : Type} (fs : Int → Str) (body : Body σ) (n : Nat) (s : LoopSt σ)
    (h : (JMap.next s.jm s.it).1.bind (JMap.get s.jm) = none) :
    rangeLoop fs body (n + 1) s = rangeLoop fs body n { s with it := (JMap.next s.jm s.it).2 } := by
  simp only [rangeLoop, h]

end GV.Proofs.GoMapRange
