import GV.Model.Sched
import GV.Proofs.ChanInv
import GV.Proofs.SchedInv
/-
  GV.Proofs.SchedLive — completeness of the queues: every sleeping goroutine's entries ARE in the queues of the
  (non-nil) channels of the operation it is suspended in. Together with the channel shape this gives
  "a sleeping goroutine's operation is not currently possible" (GV.Props.C03.blocked_not_possible).
-/
namespace GV.Proofs.SchedLive
open GV.Chan GV.Sched GV.Proofs.ChanInv GV.Proofs.SchedInv

/-- goroutine `g`, suspended in `b`, has its queue entries where they belong -/
def Present (s : State) (g : Nat) : Option Blocked → Prop
  | none => False
  | some (.send c _) => c < s.chans.length ∧ ((getC s c).isNil = false → ∃ e ∈ ents s c true, e.gid = g)
  | some (.recv c) => c < s.chans.length ∧ ((getC s c).isNil = false → ∃ e ∈ ents s c false, e.gid = g)
  | some (.select cs) => ∀ i,
      (∀ c v, cs.getD i .dflt = .send c v → c < s.chans.length ∧
          ((getC s c).isNil = false → ∃ e ∈ ents s c true, e.gid = g ∧ e.sel = some i)) ∧
      (∀ c, cs.getD i .dflt = .recv c → c < s.chans.length ∧
          ((getC s c).isNil = false → ∃ e ∈ ents s c false, e.gid = g ∧ e.sel = some i))

def Cmp (s : State) : Prop :=
  ∀ g, g < s.gs.length → (getG s g).asleep = true → (getG s g).exit = false → Present s g (getG s g).blocked

/-- the channels of `s` are still there in `s'`, nil-ness unchanged -/
def ChFrame (s s' : State) : Prop :=
  ∀ k, k < s.chans.length → k < s'.chans.length ∧ (getC s' k).isNil = (getC s k).isNil

theorem Present.mono {s s' : State} {g : Nat} {b : Option Blocked} (h : Present s g b) (hch : ChFrame s s')
    (hk : ∀ k snd e, e ∈ ents s k snd → e.gid = g → e ∈ ents s' k snd) : Present s' g b := by
  cases b with
  | none => exact h
  | some b =>
    cases b with
    | send c v =>
      obtain ⟨h1, h2⟩ := h
      refine ⟨(hch c h1).1, fun hn => ?_⟩
      obtain ⟨e, he, hg⟩ := h2 (by rw [← (hch c h1).2]; exact hn)
      exact ⟨e, hk c true e he hg, hg⟩
    | recv c =>
      obtain ⟨h1, h2⟩ := h
      refine ⟨(hch c h1).1, fun hn => ?_⟩
      obtain ⟨e, he, hg⟩ := h2 (by rw [← (hch c h1).2]; exact hn)
      exact ⟨e, hk c false e he hg, hg⟩
    | select cs =>
      intro i
      refine ⟨fun c v hc => ?_, fun c hc => ?_⟩
      · obtain ⟨h1, h2⟩ := (h i).1 c v hc
        refine ⟨(hch c h1).1, fun hn => ?_⟩
        obtain ⟨e, he, hg, hs⟩ := h2 (by rw [← (hch c h1).2]; exact hn)
        exact ⟨e, hk c true e he hg, hg, hs⟩
      · obtain ⟨h1, h2⟩ := (h i).2 c hc
        refine ⟨(hch c h1).1, fun hn => ?_⟩
        obtain ⟨e, he, hg, hs⟩ := h2 (by rw [← (hch c h1).2]; exact hn)
        exact ⟨e, hk c false e he hg, hg, hs⟩

theorem cmp_of {s s' : State} (h : Cmp s) (hch : ChFrame s s')
    (hg : ∀ g, g < s'.gs.length → (getG s' g).asleep = true → (getG s' g).exit = false →
      (g < s.gs.length ∧ (getG s g).asleep = true ∧ (getG s g).exit = false ∧ (getG s' g).blocked = (getG s g).blocked ∧
         ∀ k snd e, e ∈ ents s k snd → e.gid = g → e ∈ ents s' k snd)
      ∨ Present s' g (getG s' g).blocked) : Cmp s' := by
  intro g hl ha he
  rcases hg g hl ha he with ⟨h1, h2, h3, h4, h5⟩ | h1
  · rw [h4]; exact (h g h1 h2 h3).mono hch h5
  · exact h1

theorem removeFromQueues_length (g : Nat) : ∀ (rest : List Case) (i : Nat) (cs : List Chan),
    (removeFromQueues g rest i cs).length = cs.length := by
  intro rest; induction rest with
  | nil => intro i cs; rfl
  | cons c rest ih =>
    intro i cs
    cases c with
    | dflt => exact ih _ _
    | recv c0 => unfold removeFromQueues; simp only; rw [ih]; simp
    | send c0 v => unfold removeFromQueues; simp only; rw [ih]; simp

theorem chFrame_of_shrinks {s s' : State} (hl : s'.chans.length = s.chans.length) (h : Shrinks s.chans s'.chans) : ChFrame s s' :=
  fun k hk => ⟨by omega, (h k).isNil⟩

theorem chFrame_refl (s : State) : ChFrame s s := fun _ hk => ⟨hk, rfl⟩
theorem chFrame_trans {a b c : State} (h1 : ChFrame a b) (h2 : ChFrame b c) : ChFrame a c :=
  fun k hk => ⟨(h2 k (h1 k hk).1).1, ((h2 k (h1 k hk).1).2).trans (h1 k hk).2⟩

/-- only goroutine `g` changes (to `x`), everybody else keeps their entries -/
theorem cmp_set {s s' : State} (h : Cmp s) (g : Nat) (x : Gor) (hgs : s'.gs = s.gs.set g x) (hch : ChFrame s s')
    (hx : x.asleep = false ∨ x.exit = true ∨ Present s' g x.blocked)
    (hk : ∀ k snd e, e ∈ ents s k snd → e.gid ≠ g → e ∈ ents s' k snd) : Cmp s' := by
  apply cmp_of h hch
  intro g' hl ha he
  by_cases hgg : g' = g
  · subst hgg
    have hl' : g' < s.gs.length := by rw [hgs] at hl; simpa using hl
    have hx' : getG s' g' = x := by simp [getG_def, hgs, hl']
    rw [hx'] at ha he ⊢
    rcases hx with h1 | h1 | h1
    · rw [h1] at ha; cases ha
    · rw [h1] at he; cases he
    · exact Or.inr h1
  · have hsame : getG s' g' = getG s g' := by rw [getG_def, hgs, getG_set_ne' _ _ _ _ hgg]; rfl
    rw [hsame] at ha he
    refine Or.inl ⟨by rw [hgs] at hl; simpa using hl, ha, he, by rw [hsame], fun k snd e hm hge => hk k snd e hm (by rw [hge]; exact hgg)⟩

theorem cmp_same_gs {s s' : State} (h : Cmp s) (hgs : s'.gs = s.gs) (hch : ChFrame s s')
    (hk : ∀ k snd e, e ∈ ents s k snd → e ∈ ents s' k snd) : Cmp s' := by
  apply cmp_of h hch
  intro g hl ha he
  have hsame : getG s' g = getG s g := by rw [getG_def, hgs]; rfl
  rw [hsame] at ha he
  exact Or.inl ⟨by rw [hgs] at hl; exact hl, ha, he, by rw [hsame], fun k snd e hm _ => hk k snd e hm⟩

theorem Present.congr {s1 s2 : State} {g : Nat} {b : Option Blocked} (hc : s2.chans = s1.chans) (h : Present s1 g b) :
    Present s2 g b :=
  h.mono (fun k hk => ⟨by rw [hc]; exact hk, by rw [getC_def, getC_def, hc]⟩) (fun k snd e he _ => by show e ∈ entsC s2.chans k snd; rw [hc]; exact he)

/-! ### waking -/

theorem wakeG_gs_length (t : State) (g : Nat) (w : Wake) (cases : List Case) : (wakeG t g w cases).gs.length = t.gs.length := by
  unfold wakeG schedule setG; simp only; split <;> simp

theorem wakeG_chans (t : State) (g : Nat) (w : Wake) (cases : List Case) :
    (wakeG t g w cases).chans = removeFromQueues g cases 0 t.chans := by
  unfold wakeG schedule setG; simp only; split <;> rfl

theorem chFrame_setC (s : State) (c : Nat) (x : Chan) (hx : x.isNil = (getC s c).isNil) : ChFrame s (setC s c x) := by
  intro k hk
  refine ⟨by simpa using hk, ?_⟩
  simp only [getC_def, setC_chans, getD_set]; split
  · next hh => rw [← hh.1]; exact hx
  · rfl

theorem chFrame_wakeG (t : State) (g : Nat) (w : Wake) (cases : List Case) : ChFrame t (wakeG t g w cases) := by
  apply chFrame_of_shrinks
  · rw [wakeG_chans, removeFromQueues_length]
  · exact wakeG_shrinks t g w cases

/-- a head entry is shifted off and called: the woken goroutine drops out of the obligation, everybody else keeps
    their entries -/
theorem cmp_head {s s1 : State} (h : Cmp s) {c : Nat} {snd : Bool} {e0 : Entry} {rest : List Entry} {w : Wake}
    (hs : HeadSpec s s1 c snd e0 rest w) (hfr : ChFrame s s1) (hl : s1.gs.length = s.gs.length) : Cmp s1 := by
  apply cmp_of h hfr
  intro g hlt ha he
  by_cases hg : g = e0.gid
  · subst hg; rw [hs.woken] at ha; cases ha
  · rw [hs.others g hg] at ha he
    exact Or.inl ⟨by omega, ha, he, by rw [hs.others g hg], fun k snd' e hm hge => hs.keeps k snd' e hm (by rw [hge]; exact hg)⟩

theorem fireSend_frame (s : State) (c : Nat) (x : Chan) (hx : x.isNil = (getC s c).isNil) (e : Entry) (cl : Bool) :
    ChFrame s (fireSend (setC s c x) e cl) ∧ (fireSend (setC s c x) e cl).gs.length = s.gs.length := by
  unfold fireSend; split
  · exact ⟨chFrame_trans (chFrame_setC s c x hx) (chFrame_wakeG _ _ _ _), by rw [wakeG_gs_length]; rfl⟩
  · exact ⟨chFrame_trans (chFrame_setC s c x hx) (chFrame_wakeG _ _ _ _), by rw [wakeG_gs_length]; rfl⟩

theorem fireRecv_frame (s : State) (c : Nat) (x : Chan) (hx : x.isNil = (getC s c).isNil) (e : Entry) (v : Nat) (ok : Bool) :
    ChFrame s (fireRecv (setC s c x) e v ok) ∧ (fireRecv (setC s c x) e v ok).gs.length = s.gs.length := by
  unfold fireRecv; split
  · exact ⟨chFrame_trans (chFrame_setC s c x hx) (chFrame_wakeG _ _ _ _), by rw [wakeG_gs_length]; rfl⟩
  · exact ⟨chFrame_trans (chFrame_setC s c x hx) (chFrame_wakeG _ _ _ _), by rw [wakeG_gs_length]; rfl⟩

/-- HeadSpec of the two entry kinds (for any result value) -/
theorem fireSend_head {s : State} (h : GInv s) (c : Nat) (e0 : Entry) (sq : List Entry)
    (hq : (getC s c).sendQ = e0 :: sq) (cl : Bool) :
    ∃ w, HeadSpec s (fireSend (setC s c { getC s c with sendQ := sq }) e0 cl) c true e0 sq w := by
  have hq' : ents s c true = e0 :: sq := by rw [ents_send]; exact hq
  unfold fireSend
  cases e0.sel with
  | none => exact ⟨_, headSpec h c true e0 sq hq' _ rfl (by simp [entsC, getC_def]) _ _⟩
  | some i => exact ⟨_, headSpec h c true e0 sq hq' _ rfl (by simp [entsC, getC_def]) _ _⟩

theorem fireRecv_head {s : State} (h : GInv s) (c : Nat) (e0 : Entry) (rq : List Entry) (x : Chan)
    (hq : (getC s c).recvQ = e0 :: rq) (hx : x.recvQ = rq) (ho : x.sendQ = (getC s c).sendQ) (v : Nat) (ok : Bool) :
    ∃ w, HeadSpec s (fireRecv (setC s c x) e0 v ok) c false e0 rq w := by
  have hq' : ents s c false = e0 :: rq := by rw [ents_recv]; exact hq
  unfold fireRecv
  cases e0.sel with
  | none => exact ⟨_, headSpec h c false e0 rq hq' x (by simpa using hx) (by simpa [entsC, getC_def] using ho) _ _⟩
  | some i => exact ⟨_, headSpec h c false e0 rq hq' x (by simpa using hx) (by simpa [entsC, getC_def] using ho) _ _⟩

/-! ### going to sleep -/

theorem loopTail_chans (u : State) : (loopTail u).chans = u.chans := by unfold loopTail; split <;> rfl
theorem loopTail_gs (u : State) : (loopTail u).gs = u.gs := by unfold loopTail; split <;> rfl

theorem block_fields (s : State) (cs' : List Chan) (g : Nat) (b : Blocked) (hlt : g < s.gs.length)
    (halive : (getG s g).exit = false) :
    (GV.Sched.block { s with chans := cs' } g b).chans = cs' ∧
    (GV.Sched.block { s with chans := cs' } g b).gs = s.gs.set g { getG s g with asleep := true, blocked := some b } := by
  unfold GV.Sched.block
  have hx : getG (setG { s with chans := cs' } g { getG { s with chans := cs' } g with asleep := true, blocked := some b }) g
      = { getG s g with asleep := true, blocked := some b } := by
    simp [getG_def, setG, hlt]
  rw [endSlice_sleep _ g (by simpa [setG] using hlt) (by rw [hx]; exact halive) (by rw [hx])]
  rw [loopTail_chans, loopTail_gs]
  exact ⟨rfl, rfl⟩

/-- channel-list frame: same length, same nil-ness -/
def CsFrame (cs cs' : List Chan) : Prop :=
  cs'.length = cs.length ∧ ∀ k, (cs'.getD k Chan.nil).isNil = (cs.getD k Chan.nil).isNil

theorem csFrame_refl (cs : List Chan) : CsFrame cs cs := ⟨rfl, fun _ => rfl⟩
theorem csFrame_trans {a b c : List Chan} (h1 : CsFrame a b) (h2 : CsFrame b c) : CsFrame a c :=
  ⟨h2.1.trans h1.1, fun k => (h2.2 k).trans (h1.2 k)⟩
theorem csFrame_set (cs : List Chan) (c : Nat) (x : Chan) (hx : x.isNil = (cs.getD c Chan.nil).isNil) : CsFrame cs (cs.set c x) := by
  refine ⟨by simp, fun k => ?_⟩
  rw [getD_set]; split
  · next hh => rw [← hh.1]; exact hx
  · rfl

theorem cmp_block {s : State} (h : GInv s) (hc : Cmp s) (g : Nat) (hcur : s.cur = some g) (b : Blocked) (cs' : List Chan)
    (hfr : CsFrame s.chans cs')
    (hkeep : ∀ k snd e, e ∈ ents s k snd → e ∈ entsC cs' k snd)
    (hpres : Present { s with chans := cs' } g (some b)) :
    Cmp (GV.Sched.block { s with chans := cs' } g b) := by
  obtain ⟨hlt, _, halive, _⟩ := h.cur g hcur
  obtain ⟨f1, f2⟩ := block_fields s cs' g b hlt halive
  apply cmp_set hc g _ f2
  · intro k hk
    refine ⟨by rw [f1, hfr.1]; exact hk, ?_⟩
    rw [getC_def, f1]; exact hfr.2 k
  · right; right; exact hpres.congr f1
  · intro k snd e he _
    show e ∈ entsC (GV.Sched.block { s with chans := cs' } g b).chans k snd
    rw [f1]; exact hkeep k snd e he

theorem mem_pushQ_of_mem {nl : Bool} {q : List Entry} {e0 e : Entry} (h : e ∈ q) : e ∈ pushQ nl q e0 := by
  unfold pushQ; split
  · exact h
  · exact List.mem_append_left _ h

theorem mem_pushQ_self {q : List Entry} {e0 : Entry} : e0 ∈ pushQ false q e0 := by
  unfold pushQ; simp

/-- old entries survive a push on queue (c, snd) -/
theorem keep_push_send (cs : List Chan) (c : Nat) (e0 : Entry) (k : Nat) (snd : Bool) (e : Entry) (he : e ∈ entsC cs k snd) :
    e ∈ entsC (cs.set c { cs.getD c Chan.nil with sendQ := pushQ (cs.getD c Chan.nil).isNil (cs.getD c Chan.nil).sendQ e0 }) k snd := by
  rw [entsC_set]; split
  · next hh =>
    cases snd
    · simp only [Bool.false_eq_true, if_false]; unfold entsC at he; simp only [Bool.false_eq_true, if_false] at he; rw [hh.1]; exact he
    · simp only [if_true]; unfold entsC at he; simp only [if_true] at he; rw [hh.1]; exact mem_pushQ_of_mem he
  · exact he

theorem keep_push_recv (cs : List Chan) (c : Nat) (e0 : Entry) (k : Nat) (snd : Bool) (e : Entry) (he : e ∈ entsC cs k snd) :
    e ∈ entsC (cs.set c { cs.getD c Chan.nil with recvQ := pushQ (cs.getD c Chan.nil).isNil (cs.getD c Chan.nil).recvQ e0 }) k snd := by
  rw [entsC_set]; split
  · next hh =>
    cases snd
    · simp only [Bool.false_eq_true, if_false]; unfold entsC at he; simp only [Bool.false_eq_true, if_false] at he; rw [hh.1]; exact mem_pushQ_of_mem he
    · simp only [if_true]; unfold entsC at he; simp only [if_true] at he; rw [hh.1]; exact he
  · exact he

theorem self_push_send (cs : List Chan) (c : Nat) (e0 : Entry) (hc : c < cs.length) (hn : (cs.getD c Chan.nil).isNil = false) :
    e0 ∈ entsC (cs.set c { cs.getD c Chan.nil with sendQ := pushQ (cs.getD c Chan.nil).isNil (cs.getD c Chan.nil).sendQ e0 }) c true := by
  rw [entsC_set]; simp only [hc, and_self, if_true]; rw [hn]; exact mem_pushQ_self

theorem self_push_recv (cs : List Chan) (c : Nat) (e0 : Entry) (hc : c < cs.length) (hn : (cs.getD c Chan.nil).isNil = false) :
    e0 ∈ entsC (cs.set c { cs.getD c Chan.nil with recvQ := pushQ (cs.getD c Chan.nil).isNil (cs.getD c Chan.nil).recvQ e0 }) c false := by
  rw [entsC_set]; simp only [hc, and_self, if_true, Bool.false_eq_true, if_false]; rw [hn]; exact mem_pushQ_self

end GV.Proofs.SchedLive
