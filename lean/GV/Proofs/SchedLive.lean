import GV.Model.Sched
import GV.Proofs.ChanInv
import GV.Proofs.SchedInv
/-
  GV.Proofs.SchedLive — completeness of the queues: every sleeping goroutine's entries ARE in the queues of the
  (non-nil) channels of the operation it is suspended in. Together with the channel shape this gives
  "a sleeping goroutine's operation is not currently possible" (GV.Props.C03.blocked_not_possible).
-/
namespace GV.Proofs.SchedLive
open GV.Chan GV.Sched GV.Proofs.ChanInv GV.Proofs.SchedInv

/-- goroutine `g`, suspended in `b`, has its queue entries where they belong -/
def Present (s : State) (g : Nat) : Option Blocked → Prop
  | none => False
  | some (.send c _) => c < s.chans.length ∧ ((getC s c).isNil = false → ∃ e ∈ ents s c true, e.gid = g)
  | some (.recv c) => c < s.chans.length ∧ ((getC s c).isNil = false → ∃ e ∈ ents s c false, e.gid = g)
  | some (.select cs) => ∀ i,
      (∀ c v, cs.getD i .dflt = .send c v → c < s.chans.length ∧
          ((getC s c).isNil = false → ∃ e ∈ ents s c true, e.gid = g ∧ e.sel = some i)) ∧
      (∀ c, cs.getD i .dflt = .recv c → c < s.chans.length ∧
          ((getC s c).isNil = false → ∃ e ∈ ents s c false, e.gid = g ∧ e.sel = some i))

def Cmp (s : State) : Prop :=
  ∀ g, g < s.gs.length → (getG s g).asleep = true → (getG s g).exit = false → Present s g (getG s g).blocked

/-- the channels of `s` are still there in `s'`, nil-ness unchanged -/
def ChFrame (s s' : State) : Prop :=
  ∀ k, k < s.chans.length → k < s'.chans.length ∧ (getC s' k).isNil = (getC s k).isNil

theorem Present.mono {s s' : State} {g : Nat} {b : Option Blocked} (h : Present s g b) (hch : ChFrame s s')
    (hk : ∀ k snd e, e ∈ ents s k snd → e.gid = g → e ∈ ents s' k snd) : Present s' g b := by
  cases b with
  | none => exact h
  | some b =>
    cases b with
    | send c v =>
      obtain ⟨h1, h2⟩ := h
      refine ⟨(hch c h1).1, fun hn => ?_⟩
      obtain ⟨e, he, hg⟩ := h2 (by rw [← (hch c h1).2]; exact hn)
      exact ⟨e, hk c true e he hg, hg⟩
    | recv c =>
      obtain ⟨h1, h2⟩ := h
      refine ⟨(hch c h1).1, fun hn => ?_⟩
      obtain ⟨e, he, hg⟩ := h2 (by rw [← (hch c h1).2]; exact hn)
      exact ⟨e, hk c false e he hg, hg⟩
    | select cs =>
      intro i
      refine ⟨fun c v hc => ?_, fun c hc => ?_⟩
      · obtain ⟨h1, h2⟩ := (h i).1 c v hc
        refine ⟨(hch c h1).1, fun hn => ?_⟩
        obtain ⟨e, he, hg, hs⟩ := h2 (by rw [← (hch c h1).2]; exact hn)
        exact ⟨e, hk c true e he hg, hg, hs⟩
      · obtain ⟨h1, h2⟩ := (h i).2 c hc
        refine ⟨(hch c h1).1, fun hn => ?_⟩
        obtain ⟨e, he, hg, hs⟩ := h2 (by rw [← (hch c h1).2]; exact hn)
        exact ⟨e, hk c false e he hg, hg, hs⟩

theorem cmp_of {s s' : State} (h : Cmp s) (hch : ChFrame s s')
    (hg : ∀ g, g < s'.gs.length → (getG s' g).asleep = true → (getG s' g).exit = false →
      (g < s.gs.length ∧ (getG s g).asleep = true ∧ (getG s g).exit = false ∧ (getG s' g).blocked = (getG s g).blocked ∧
         ∀ k snd e, e ∈ ents s k snd → e.gid = g → e ∈ ents s' k snd)
      ∨ Present s' g (getG s' g).blocked) : Cmp s' := by
  intro g hl ha he
  rcases hg g hl ha he with ⟨h1, h2, h3, h4, h5⟩ | h1
  · rw [h4]; exact (h g h1 h2 h3).mono hch h5
  · exact h1

theorem removeFromQueues_length (g : Nat) : ∀ (rest : List Case) (i : Nat) (cs : List Chan),
    (removeFromQueues g rest i cs).length = cs.length := by
  intro rest; induction rest with
  | nil => intro i cs; rfl
  | cons c rest ih =>
    intro i cs
    cases c with
    | dflt => exact ih _ _
    | recv c0 => unfold removeFromQueues; simp only; rw [ih]; simp
    | send c0 v => unfold removeFromQueues; simp only; rw [ih]; simp

theorem chFrame_of_shrinks {s s' : State} (hl : s'.chans.length = s.chans.length) (h : Shrinks s.chans s'.chans) : ChFrame s s' :=
  fun k hk => ⟨by omega, (h k).isNil⟩

theorem chFrame_refl (s : State) : ChFrame s s := fun _ hk => ⟨hk, rfl⟩
theorem chFrame_trans {a b c : State} (h1 : ChFrame a b) (h2 : ChFrame b c) : ChFrame a c :=
  fun k hk => ⟨(h2 k (h1 k hk).1).1, ((h2 k (h1 k hk).1).2).trans (h1 k hk).2⟩

/-- only goroutine `g` changes (to `x`), everybody else keeps their entries -/
theorem cmp_set {s s' : State} (h : Cmp s) (g : Nat) (x : Gor) (hgs : s'.gs = s.gs.set g x) (hch : ChFrame s s')
    (hx : x.asleep = false ∨ x.exit = true ∨ Present s' g x.blocked)
    (hk : ∀ k snd e, e ∈ ents s k snd → e.gid ≠ g → e ∈ ents s' k snd) : Cmp s' := by
  apply cmp_of h hch
  intro g' hl ha he
  by_cases hgg : g' = g
  · subst hgg
    have hl' : g' < s.gs.length := by rw [hgs] at hl; simpa using hl
    have hx' : getG s' g' = x := by simp [getG_def, hgs, hl']
    rw [hx'] at ha he ⊢
    rcases hx with h1 | h1 | h1
    · rw [h1] at ha; cases ha
    · rw [h1] at he; cases he
    · exact Or.inr h1
  · have hsame : getG s' g' = getG s g' := by rw [getG_def, hgs, getG_set_ne' _ _ _ _ hgg]; rfl
    rw [hsame] at ha he
    refine Or.inl ⟨by rw [hgs] at hl; simpa using hl, ha, he, by rw [hsame], fun k snd e hm hge => hk k snd e hm (by rw [hge]; exact hgg)⟩

theorem cmp_same_gs {s s' : State} (h : Cmp s) (hgs : s'.gs = s.gs) (hch : ChFrame s s')
    (hk : ∀ k snd e, e ∈ ents s k snd → e ∈ ents s' k snd) : Cmp s' := by
  apply cmp_of h hch
  intro g hl ha he
  have hsame : getG s' g = getG s g := by rw [getG_def, hgs]; rfl
  rw [hsame] at ha he
  exact Or.inl ⟨by rw [hgs] at hl; exact hl, ha, he, by rw [hsame], fun k snd e hm _ => hk k snd e hm⟩

theorem Present.congr {s1 s2 : State} {g : Nat} {b : Option Blocked} (hc : s2.chans = s1.chans) (h : Present s1 g b) :
    Present s2 g b :=
  h.mono (fun k hk => ⟨by rw [hc]; exact hk, by rw [getC_def, getC_def, hc]⟩) (fun k snd e he _ => by show e ∈ entsC s2.chans k snd; rw [hc]; exact he)

/-! ### waking -/

theorem wakeG_gs_length (t : State) (g : Nat) (w : Wake) (cases : List Case) : (wakeG t g w cases).gs.length = t.gs.length := by
  unfold wakeG schedule setG; simp only; split <;> simp

theorem wakeG_chans (t : State) (g : Nat) (w : Wake) (cases : List Case) :
    (wakeG t g w cases).chans = removeFromQueues g cases 0 t.chans := by
  unfold wakeG schedule setG; simp only; split <;> rfl

theorem chFrame_setC (s : State) (c : Nat) (x : Chan) (hx : x.isNil = (getC s c).isNil) : ChFrame s (setC s c x) := by
  intro k hk
  refine ⟨by simpa using hk, ?_⟩
  simp only [getC_def, setC_chans, getD_set]; split
  · next hh => rw [← hh.1]; exact hx
  · rfl

theorem chFrame_wakeG (t : State) (g : Nat) (w : Wake) (cases : List Case) : ChFrame t (wakeG t g w cases) := by
  apply chFrame_of_shrinks
  · rw [wakeG_chans, removeFromQueues_length]
  · exact wakeG_shrinks t g w cases

/-- a head entry is shifted off and called: the woken goroutine drops out of the obligation, everybody else keeps
    their entries -/
theorem cmp_head {s s1 : State} (h : Cmp s) {c : Nat} {snd : Bool} {e0 : Entry} {rest : List Entry} {w : Wake}
    (hs : HeadSpec s s1 c snd e0 rest w) (hfr : ChFrame s s1) (hl : s1.gs.length = s.gs.length) : Cmp s1 := by
  apply cmp_of h hfr
  intro g hlt ha he
  by_cases hg : g = e0.gid
  · subst hg; rw [hs.woken] at ha; cases ha
  · rw [hs.others g hg] at ha he
    exact Or.inl ⟨by omega, ha, he, by rw [hs.others g hg], fun k snd' e hm hge => hs.keeps k snd' e hm (by rw [hge]; exact hg)⟩

theorem fireSend_frame (s : State) (c : Nat) (x : Chan) (hx : x.isNil = (getC s c).isNil) (e : Entry) (cl : Bool) :
    ChFrame s (fireSend (setC s c x) e cl) ∧ (fireSend (setC s c x) e cl).gs.length = s.gs.length := by
  unfold fireSend; split
  · exact ⟨chFrame_trans (chFrame_setC s c x hx) (chFrame_wakeG _ _ _ _), by rw [wakeG_gs_length]; rfl⟩
  · exact ⟨chFrame_trans (chFrame_setC s c x hx) (chFrame_wakeG _ _ _ _), by rw [wakeG_gs_length]; rfl⟩

theorem fireRecv_frame (s : State) (c : Nat) (x : Chan) (hx : x.isNil = (getC s c).isNil) (e : Entry) (v : Nat) (ok : Bool) :
    ChFrame s (fireRecv (setC s c x) e v ok) ∧ (fireRecv (setC s c x) e v ok).gs.length = s.gs.length := by
  unfold fireRecv; split
  · exact ⟨chFrame_trans (chFrame_setC s c x hx) (chFrame_wakeG _ _ _ _), by rw [wakeG_gs_length]; rfl⟩
  · exact ⟨chFrame_trans (chFrame_setC s c x hx) (chFrame_wakeG _ _ _ _), by rw [wakeG_gs_length]; rfl⟩

/-- HeadSpec of the two entry kinds (for any result value) -/
theorem fireSend_head {s : State} (h : GInv s) (c : Nat) (e0 : Entry) (sq : List Entry)
    (hq : (getC s c).sendQ = e0 :: sq) (cl : Bool) :
    ∃ w, HeadSpec s (fireSend (setC s c { getC s c with sendQ := sq }) e0 cl) c true e0 sq w := by
  have hq' : ents s c true = e0 :: sq := by rw [ents_send]; exact hq
  unfold fireSend
  cases e0.sel with
  | none => exact ⟨_, headSpec h c true e0 sq hq' _ rfl (by simp [entsC, getC_def]) _ _⟩
  | some i => exact ⟨_, headSpec h c true e0 sq hq' _ rfl (by simp [entsC, getC_def]) _ _⟩

theorem fireRecv_head {s : State} (h : GInv s) (c : Nat) (e0 : Entry) (rq : List Entry) (x : Chan)
    (hq : (getC s c).recvQ = e0 :: rq) (hx : x.recvQ = rq) (ho : x.sendQ = (getC s c).sendQ) (v : Nat) (ok : Bool) :
    ∃ w, HeadSpec s (fireRecv (setC s c x) e0 v ok) c false e0 rq w := by
  have hq' : ents s c false = e0 :: rq := by rw [ents_recv]; exact hq
  unfold fireRecv
  cases e0.sel with
  | none => exact ⟨_, headSpec h c false e0 rq hq' x (by simpa using hx) (by simpa [entsC, getC_def] using ho) _ _⟩
  | some i => exact ⟨_, headSpec h c false e0 rq hq' x (by simpa using hx) (by simpa [entsC, getC_def] using ho) _ _⟩

/-! ### going to sleep -/

theorem loopTail_chans (u : State) : (loopTail u).chans = u.chans := by unfold loopTail; split <;> rfl
theorem loopTail_gs (u : State) : (loopTail u).gs = u.gs := by unfold loopTail; split <;> rfl

theorem block_fields (s : State) (cs' : List Chan) (g : Nat) (b : Blocked) (hlt : g < s.gs.length)
    (halive : (getG s g).exit = false) :
    (GV.Sched.block { s with chans := cs' } g b).chans = cs' ∧
    (GV.Sched.block { s with chans := cs' } g b).gs = s.gs.set g { getG s g with asleep := true, blocked := some b } := by
  unfold GV.Sched.block
  have hx : getG (setG { s with chans := cs' } g { getG { s with chans := cs' } g with asleep := true, blocked := some b }) g
      = { getG s g with asleep := true, blocked := some b } := by
    simp [getG_def, setG, hlt]
  rw [endSlice_sleep _ g (by simpa [setG] using hlt) (by rw [hx]; exact halive) (by rw [hx])]
  rw [loopTail_chans, loopTail_gs]
  exact ⟨rfl, rfl⟩

/-- channel-list frame: same length, same nil-ness -/
def CsFrame (cs cs' : List Chan) : Prop :=
  cs'.length = cs.length ∧ ∀ k, (cs'.getD k Chan.nil).isNil = (cs.getD k Chan.nil).isNil

theorem csFrame_refl (cs : List Chan) : CsFrame cs cs := ⟨rfl, fun _ => rfl⟩
theorem csFrame_trans {a b c : List Chan} (h1 : CsFrame a b) (h2 : CsFrame b c) : CsFrame a c :=
  ⟨h2.1.trans h1.1, fun k => (h2.2 k).trans (h1.2 k)⟩
theorem csFrame_set (cs : List Chan) (c : Nat) (x : Chan) (hx : x.isNil = (cs.getD c Chan.nil).isNil) : CsFrame cs (cs.set c x) := by
  refine ⟨by simp, fun k => ?_⟩
  rw [getD_set]; split
  · next hh => rw [← hh.1]; exact hx
  · rfl

theorem cmp_block {s : State} (h : GInv s) (hc : Cmp s) (g : Nat) (hcur : s.cur = some g) (b : Blocked) (cs' : List Chan)
    (hfr : CsFrame s.chans cs')
    (hkeep : ∀ k snd e, e ∈ ents s k snd → e ∈ entsC cs' k snd)
    (hpres : Present { s with chans := cs' } g (some b)) :
    Cmp (GV.Sched.block { s with chans := cs' } g b) := by
  obtain ⟨hlt, _, halive, _⟩ := h.cur g hcur
  obtain ⟨f1, f2⟩ := block_fields s cs' g b hlt halive
  apply cmp_set hc g _ f2
  · intro k hk
    refine ⟨by rw [f1, hfr.1]; exact hk, ?_⟩
    rw [getC_def, f1]; exact hfr.2 k
  · right; right; exact hpres.congr f1
  · intro k snd e he _
    show e ∈ entsC (GV.Sched.block { s with chans := cs' } g b).chans k snd
    rw [f1]; exact hkeep k snd e he

theorem mem_pushQ_of_mem {nl : Bool} {q : List Entry} {e0 e : Entry} (h : e ∈ q) : e ∈ pushQ nl q e0 := by
  unfold pushQ; split
  · exact h
  · exact List.mem_append_left _ h

theorem mem_pushQ_self {q : List Entry} {e0 : Entry} : e0 ∈ pushQ false q e0 := by
  unfold pushQ; simp

/-- old entries survive a push on queue (c, snd) -/
theorem keep_push_send (cs : List Chan) (c : Nat) (e0 : Entry) (k : Nat) (snd : Bool) (e : Entry) (he : e ∈ entsC cs k snd) :
    e ∈ entsC (cs.set c { cs.getD c Chan.nil with sendQ := pushQ (cs.getD c Chan.nil).isNil (cs.getD c Chan.nil).sendQ e0 }) k snd := by
  rw [entsC_set]; split
  · next hh =>
    cases snd
    · simp only [Bool.false_eq_true, if_false]; unfold entsC at he; simp only [Bool.false_eq_true, if_false] at he; rw [hh.1]; exact he
    · simp only [if_true]; unfold entsC at he; simp only [if_true] at he; rw [hh.1]; exact mem_pushQ_of_mem he
  · exact he

theorem keep_push_recv (cs : List Chan) (c : Nat) (e0 : Entry) (k : Nat) (snd : Bool) (e : Entry) (he : e ∈ entsC cs k snd) :
    e ∈ entsC (cs.set c { cs.getD c Chan.nil with recvQ := pushQ (cs.getD c Chan.nil).isNil (cs.getD c Chan.nil).recvQ e0 }) k snd := by
  rw [entsC_set]; split
  · next hh =>
    cases snd
    · simp only [Bool.false_eq_true, if_false]; unfold entsC at he; simp only [Bool.false_eq_true, if_false] at he; rw [hh.1]; exact mem_pushQ_of_mem he
    · simp only [if_true]; unfold entsC at he; simp only [if_true] at he; rw [hh.1]; exact he
  · exact he

theorem self_push_send (cs : List Chan) (c : Nat) (e0 : Entry) (hc : c < cs.length) (hn : (cs.getD c Chan.nil).isNil = false) :
    e0 ∈ entsC (cs.set c { cs.getD c Chan.nil with sendQ := pushQ (cs.getD c Chan.nil).isNil (cs.getD c Chan.nil).sendQ e0 }) c true := by
  rw [entsC_set]; simp only [hc, and_self, if_true]; rw [hn]; exact mem_pushQ_self

theorem self_push_recv (cs : List Chan) (c : Nat) (e0 : Entry) (hc : c < cs.length) (hn : (cs.getD c Chan.nil).isNil = false) :
    e0 ∈ entsC (cs.set c { cs.getD c Chan.nil with recvQ := pushQ (cs.getD c Chan.nil).isNil (cs.getD c Chan.nil).recvQ e0 }) c false := by
  rw [entsC_set]; simp only [hc, and_self, if_true, Bool.false_eq_true, if_false]; rw [hn]; exact mem_pushQ_self

/-! ### the primitives -/

theorem keep_setC_same (s : State) (c : Nat) (x : Chan) (hs : x.sendQ = (getC s c).sendQ) (hr : x.recvQ = (getC s c).recvQ)
    (k : Nat) (snd : Bool) (e : Entry) (he : e ∈ ents s k snd) : e ∈ ents (setC s c x) k snd := by
  show e ∈ entsC (s.chans.set c x) k snd
  rw [entsC_set]; split
  · next hh =>
    have he' : e ∈ entsC s.chans k snd := he
    unfold entsC at he'
    cases snd
    · simp only [Bool.false_eq_true, if_false] at he' ⊢; rw [hr, hh.1]; exact he'
    · simp only [if_true] at he' ⊢; rw [hs, hh.1]; exact he'
  · exact he

theorem cmp_setC_same {s : State} (h : Cmp s) (c : Nat) (x : Chan) (hn : x.isNil = (getC s c).isNil)
    (hs : x.sendQ = (getC s c).sendQ) (hr : x.recvQ = (getC s c).recvQ) : Cmp (setC s c x) :=
  cmp_same_gs h rfl (chFrame_setC s c x hn) (keep_setC_same s c x hs hr)

theorem doSend_cmp (s : State) (g c v : Nat) (h : GInv s) (hc : Cmp s) (hcur : s.cur = some g) (hv : c < s.chans.length) :
    Cmp (doSend s g c v).1 := by
  unfold doSend; simp only
  split
  · exact hc
  · split
    · next e rq heq =>
      obtain ⟨w, hs⟩ := fireRecv_head h c e rq { getC s c with recvQ := rq, hCommit := (getC s c).hCommit ++ [v], hRecv := (getC s c).hRecv ++ [v] } heq rfl rfl v true
      obtain ⟨f1, f2⟩ := fireRecv_frame s c { getC s c with recvQ := rq, hCommit := (getC s c).hCommit ++ [v], hRecv := (getC s c).hRecv ++ [v] } rfl e v true
      exact cmp_head hc hs f1 f2
    · split
      · exact cmp_setC_same hc c _ rfl rfl rfl
      · apply cmp_block h hc g hcur (.send c v)
          (s.chans.set c { getC s c with sendQ := pushQ (getC s c).isNil (getC s c).sendQ ⟨g, none, v⟩ })
          (csFrame_set s.chans c { getC s c with sendQ := pushQ (getC s c).isNil (getC s c).sendQ ⟨g, none, v⟩ } rfl)
          (keep_push_send s.chans c ⟨g, none, v⟩)
        refine ⟨by simpa using hv, fun hn => ⟨⟨g, none, v⟩, ?_, rfl⟩⟩
        have hn' : (s.chans.getD c Chan.nil).isNil = false := by
          simpa [getC_def, getD_set, hv] using hn
        exact self_push_send s.chans c _ hv hn'

theorem recvTail_cmp (s : State) (g c : Nat) (h : GInv s) (hc : Cmp s) (hcur : s.cur = some g) (hv : c < s.chans.length) :
    Cmp (recvTail s g c).1 := by
  unfold recvTail; simp only
  split
  · exact cmp_setC_same hc c _ rfl rfl rfl
  · split
    · split <;> exact hc
    · apply cmp_block h hc g hcur (.recv c)
        (s.chans.set c { getC s c with recvQ := pushQ (getC s c).isNil (getC s c).recvQ ⟨g, none, 0⟩ })
        (csFrame_set s.chans c { getC s c with recvQ := pushQ (getC s c).isNil (getC s c).recvQ ⟨g, none, 0⟩ } rfl)
        (keep_push_recv s.chans c ⟨g, none, 0⟩)
      refine ⟨by simpa using hv, fun hn => ⟨⟨g, none, 0⟩, ?_, rfl⟩⟩
      have hn' : (s.chans.getD c Chan.nil).isNil = false := by
        simpa [getC_def, getD_set, hv] using hn
      exact self_push_recv s.chans c _ hv hn'

theorem doRecv_cmp (s : State) (g c : Nat) (h : GInv s) (hc : Cmp s) (hcur : s.cur = some g) (hv : c < s.chans.length) :
    Cmp (doRecv s g c).1 := by
  unfold doRecv; simp only
  split
  · next e sq heq =>
    obtain ⟨w, hs⟩ := fireSend_head h c e sq heq false
    obtain ⟨f1, f2⟩ := fireSend_frame s c { getC s c with sendQ := sq } rfl e false
    have hc1 := cmp_head hc hs f1 f2
    have hg1 : GInv (fireSend (setC s c { getC s c with sendQ := sq }) e false) := by
      apply fireSend_ginv h c e sq heq <;> rfl
    have hcur1 : (fireSend (setC s c { getC s c with sendQ := sq }) e false).cur = some g := by rw [fireSend_cur]; exact hcur
    have hv1 : c < (fireSend (setC s c { getC s c with sendQ := sq }) e false).chans.length := (f1 c hv).1
    generalize fireSend (setC s c { getC s c with sendQ := sq }) e false = s1 at hc1 hg1 hcur1 hv1 ⊢
    apply recvTail_cmp
    · exact hg1.setC_same c _ rfl rfl
    · exact cmp_setC_same hc1 c _ rfl rfl rfl
    · exact hcur1
    · simpa using hv1
  · exact recvTail_cmp s g c h hc hcur hv

theorem closeSenders_cmp : ∀ (n : Nat) (s : State) (c : Nat), GInv s → Cmp s → Cmp (closeSenders n s c) := by
  intro n; induction n with
  | zero => intro s c _ hc; exact hc
  | succ n ih =>
    intro s c h hc; unfold closeSenders; simp only
    split
    · exact hc
    · next e sq heq =>
      obtain ⟨w, hs⟩ := fireSend_head h c e sq heq true
      obtain ⟨f1, f2⟩ := fireSend_frame s c { getC s c with sendQ := sq } rfl e true
      apply ih
      · apply fireSend_ginv h c e sq heq <;> rfl
      · exact cmp_head hc hs f1 f2

theorem closeRecvs_cmp : ∀ (n : Nat) (s : State) (c : Nat), GInv s → Cmp s → Cmp (closeRecvs n s c) := by
  intro n; induction n with
  | zero => intro s c _ hc; exact hc
  | succ n ih =>
    intro s c h hc; unfold closeRecvs; simp only
    split
    · exact hc
    · next e rq heq =>
      obtain ⟨w, hs⟩ := fireRecv_head h c e rq { getC s c with recvQ := rq } heq rfl rfl 0 false
      obtain ⟨f1, f2⟩ := fireRecv_frame s c { getC s c with recvQ := rq } rfl e 0 false
      apply ih
      · apply fireRecv_ginv h c e rq heq <;> rfl
      · exact cmp_head hc hs f1 f2

theorem doClose_cmp (s : State) (c : Nat) (h : GInv s) (hc : Cmp s) : Cmp (doClose s c).1 := by
  unfold doClose; simp only
  split
  · exact hc
  · split
    · exact hc
    · have h1 : GInv (setC s c { getC s c with closed := true }) := h.setC_same c _ rfl rfl
      have hc1 : Cmp (setC s c { getC s c with closed := true }) := cmp_setC_same hc c _ rfl rfl rfl
      exact closeRecvs_cmp _ _ _ (closeSenders_ginv _ _ _ h1) (closeSenders_cmp _ _ _ h1 hc1)

/-! ### `$select` registration -/

theorem registerCases_frame (g : Nat) : ∀ (rest : List Case) (i : Nat) (cs : List Chan), CsFrame cs (registerCases g rest i cs) := by
  intro rest; induction rest with
  | nil => intro i cs; exact csFrame_refl cs
  | cons k rest ih =>
    intro i cs
    cases k with
    | dflt => exact ih _ _
    | recv c =>
      exact csFrame_trans (csFrame_set cs c { cs.getD c Chan.nil with recvQ := pushQ (cs.getD c Chan.nil).isNil (cs.getD c Chan.nil).recvQ ⟨g, some i, 0⟩ } rfl) (ih _ _)
    | send c v =>
      exact csFrame_trans (csFrame_set cs c { cs.getD c Chan.nil with sendQ := pushQ (cs.getD c Chan.nil).isNil (cs.getD c Chan.nil).sendQ ⟨g, some i, v⟩ } rfl) (ih _ _)

theorem registerCases_keep (g : Nat) : ∀ (rest : List Case) (i : Nat) (cs : List Chan) (k : Nat) (snd : Bool) (e : Entry),
    e ∈ entsC cs k snd → e ∈ entsC (registerCases g rest i cs) k snd := by
  intro rest; induction rest with
  | nil => intro i cs k snd e he; exact he
  | cons c rest ih =>
    intro i cs k snd e he
    cases c with
    | dflt => exact ih _ _ _ _ _ he
    | recv c0 => exact ih _ _ _ _ _ (keep_push_recv cs c0 _ k snd e he)
    | send c0 v => exact ih _ _ _ _ _ (keep_push_send cs c0 _ k snd e he)

theorem registerCases_present (g : Nat) : ∀ (rest : List Case) (i : Nat) (cs : List Chan) (j : Nat),
    (∀ c v, rest.getD j .dflt = .send c v → c < cs.length → (cs.getD c Chan.nil).isNil = false →
        ∃ e ∈ entsC (registerCases g rest i cs) c true, e.gid = g ∧ e.sel = some (i + j)) ∧
    (∀ c, rest.getD j .dflt = .recv c → c < cs.length → (cs.getD c Chan.nil).isNil = false →
        ∃ e ∈ entsC (registerCases g rest i cs) c false, e.gid = g ∧ e.sel = some (i + j)) := by
  intro rest; induction rest with
  | nil => intro i cs j; constructor <;> (intros; simp at *)
  | cons k rest ih =>
    intro i cs j
    cases j with
    | zero =>
      cases k with
      | dflt => constructor <;> (intros; simp at *)
      | recv c0 =>
        constructor
        · intro c v h; simp at h
        · intro c h hc hn
          have : c0 = c := by simpa using h
          subst this
          exact ⟨⟨g, some i, 0⟩, registerCases_keep g rest (i + 1) _ c0 false _ (self_push_recv cs c0 _ hc hn), rfl, rfl⟩
      | send c0 v0 =>
        constructor
        · intro c v h hc hn
          have h' : c0 = c ∧ v0 = v := by simpa using h
          obtain ⟨h1, h2⟩ := h'; subst h1; subst h2
          exact ⟨⟨g, some i, v0⟩, registerCases_keep g rest (i + 1) _ c0 true _ (self_push_send cs c0 _ hc hn), rfl, rfl⟩
        · intro c h; simp at h
    | succ j =>
      have hidx : i + (j + 1) = i + 1 + j := by omega
      rw [hidx]
      cases k with
      | dflt => exact ih (i + 1) cs j
      | recv c0 =>
        have fr := csFrame_set cs c0 { cs.getD c0 Chan.nil with recvQ := pushQ (cs.getD c0 Chan.nil).isNil (cs.getD c0 Chan.nil).recvQ ⟨g, some i, 0⟩ } rfl
        have := ih (i + 1) (cs.set c0 { cs.getD c0 Chan.nil with recvQ := pushQ (cs.getD c0 Chan.nil).isNil (cs.getD c0 Chan.nil).recvQ ⟨g, some i, 0⟩ }) j
        constructor
        · intro c v h hc hn; exact this.1 c v (by simpa using h) (by rw [fr.1]; exact hc) (by rw [fr.2]; exact hn)
        · intro c h hc hn; exact this.2 c (by simpa using h) (by rw [fr.1]; exact hc) (by rw [fr.2]; exact hn)
      | send c0 v0 =>
        have fr := csFrame_set cs c0 { cs.getD c0 Chan.nil with sendQ := pushQ (cs.getD c0 Chan.nil).isNil (cs.getD c0 Chan.nil).sendQ ⟨g, some i, v0⟩ } rfl
        have := ih (i + 1) (cs.set c0 { cs.getD c0 Chan.nil with sendQ := pushQ (cs.getD c0 Chan.nil).isNil (cs.getD c0 Chan.nil).sendQ ⟨g, some i, v0⟩ }) j
        constructor
        · intro c v h hc hn; exact this.1 c v (by simpa using h) (by rw [fr.1]; exact hc) (by rw [fr.2]; exact hn)
        · intro c h hc hn; exact this.2 c (by simpa using h) (by rw [fr.1]; exact hc) (by rw [fr.2]; exact hn)

theorem caseChansValid_get (s : State) : ∀ (cases : List Case), caseChansValid s cases = true → ∀ i,
    (∀ c v, cases.getD i .dflt = .send c v → c < s.chans.length) ∧ (∀ c, cases.getD i .dflt = .recv c → c < s.chans.length) := by
  intro cases; induction cases with
  | nil => intro _ i; constructor <;> (intros; simp at *)
  | cons k rest ih =>
    intro hv i
    cases i with
    | zero =>
      cases k with
      | dflt => constructor <;> (intros; simp at *)
      | recv c0 =>
        simp only [caseChansValid, validChan, Bool.and_eq_true, decide_eq_true_eq] at hv
        constructor
        · intro c v h; simp at h
        · intro c h; have : c0 = c := by simpa using h
          rw [← this]; exact hv.1
      | send c0 v0 =>
        simp only [caseChansValid, validChan, Bool.and_eq_true, decide_eq_true_eq] at hv
        constructor
        · intro c v h; have : c0 = c ∧ v0 = v := by simpa using h
          rw [← this.1]; exact hv.1
        · intro c h; simp at h
    | succ i =>
      have hr : caseChansValid s rest = true := by
        cases k with
        | dflt => simpa [caseChansValid] using hv
        | recv c0 => simp only [caseChansValid, Bool.and_eq_true] at hv; exact hv.2
        | send c0 v0 => simp only [caseChansValid, Bool.and_eq_true] at hv; exact hv.2
      simpa using ih hr i

theorem doSelect_cmp (s : State) (g : Nat) (cases : List Case) (pick : Nat) (h : GInv s) (hc : Cmp s)
    (hcur : s.cur = some g) (hv : caseChansValid s cases = true) : Cmp (doSelect s g cases pick).1 := by
  have hvalid := caseChansValid_get s cases hv
  unfold doSelect
  generalize scan s cases 0 = r
  obtain ⟨ready, dsel, thr⟩ := r
  simp only
  split
  · exact hc
  · split
    · next i _ =>
      split
      · exact hc
      · next c hcase =>
        have := doRecv_cmp s g c h hc hcur ((hvalid i).2 c hcase)
        split
        · next s1 v ok heq => rw [heq] at this; exact this
        · exact this
      · next c v hcase =>
        have := doSend_cmp s g c v h hc hcur ((hvalid i).1 c v hcase)
        split
        · next s1 heq => rw [heq] at this; exact this
        · exact this
    · have fr := registerCases_frame g cases 0 s.chans
      apply cmp_block h hc g hcur (.select cases) _ fr (registerCases_keep g cases 0 s.chans)
      intro i
      have hp := registerCases_present g cases 0 s.chans i
      refine ⟨fun c v hcase => ?_, fun c hcase => ?_⟩
      · have hlt := (hvalid i).1 c v hcase
        refine ⟨by show c < (registerCases g cases 0 s.chans).length; rw [fr.1]; exact hlt, fun hn => ?_⟩
        have hn' : (s.chans.getD c Chan.nil).isNil = false := by rw [← fr.2 c]; exact hn
        obtain ⟨e, he, h1, h2⟩ := hp.1 c v hcase hlt hn'
        exact ⟨e, he, h1, by simpa using h2⟩
      · have hlt := (hvalid i).2 c hcase
        refine ⟨by show c < (registerCases g cases 0 s.chans).length; rw [fr.1]; exact hlt, fun hn => ?_⟩
        have hn' : (s.chans.getD c Chan.nil).isNil = false := by rw [← fr.2 c]; exact hn
        obtain ⟨e, he, h1, h2⟩ := hp.2 c hcase hlt hn'
        exact ⟨e, he, h1, by simpa using h2⟩

/-! ### every event -/

theorem cmp_goNew {s : State} (hc : Cmp s) : Cmp (goNew s) := by
  apply cmp_of (s' := goNew s) hc (fun k hk => ⟨hk, rfl⟩)
  intro g hl ha he
  have hl' : g < s.gs.length + 1 := by simpa [goNew] using hl
  by_cases hg : g < s.gs.length
  · have hsame : getG (goNew s) g = getG s g := getD_append_left _ _ _ hg
    rw [hsame] at ha he
    exact Or.inl ⟨hg, ha, he, by rw [hsame], fun k snd e hm _ => hm⟩
  · have : g = s.gs.length := by omega
    subst this
    have : getG (goNew s) s.gs.length = dfltGor := by simp [getG_def, goNew, List.getD_eq_getElem?_getD]
    rw [this] at ha; cases ha

theorem cmp_makechan {s : State} (hc : Cmp s) (cap : Nat) : Cmp { s with chans := s.chans ++ [Chan.make cap] } := by
  apply cmp_same_gs (s' := { s with chans := s.chans ++ [Chan.make cap] }) hc rfl
  · intro k hk
    refine ⟨by simp; omega, ?_⟩
    simp [getC_def, List.getD_eq_getElem?_getD, List.getElem?_append_left hk]
  · intro k snd e he
    show e ∈ entsC (s.chans ++ [Chan.make cap]) k snd
    rw [entsC_append]; exact he

theorem cmp_runHead {s : State} (h : GInv s) (hc : Cmp s) (g : Nat) (rest : List Nat) (hs : s.scheduled = g :: rest) :
    Cmp (runHead s g rest).1 := by
  have hg := h.sched g (by rw [hs]; simp)
  apply cmp_set (s' := (runHead s g rest).1) hc g { getG s g with wake := .none, blocked := none } rfl (fun k hk => ⟨hk, rfl⟩) (Or.inl hg.2.1)
  intro k snd e he _; exact he

theorem cmp_endLoop {s : State} (hc : Cmp s) : Cmp (endLoop s) :=
  cmp_same_gs (s' := endLoop s) hc rfl (fun k hk => ⟨hk, rfl⟩) (fun _ _ _ he => he)

/-- neither the goroutine table nor the channels change -/
theorem cmp_nonmem {s : State} (hc : Cmp s) (s' : State) (hg : s'.gs = s.gs) (hch : s'.chans = s.chans) : Cmp s' :=
  cmp_same_gs hc hg (fun k hk => ⟨by rw [hch]; exact hk, by rw [getC_def, getC_def, hch]⟩)
    (fun k snd e he => by show e ∈ entsC s'.chans k snd; rw [hch]; exact he)

theorem cmp_timers_awake {s : State} (hc : Cmp s) (ts : List (Nat × TimerKind)) (a : Int) :
    Cmp { s with timers := ts, awake := a } :=
  cmp_same_gs (s' := { s with timers := ts, awake := a }) hc rfl (fun k hk => ⟨hk, rfl⟩) (fun _ _ _ he => he)

theorem cmp_enterLoop {s : State} (h : GInv s) (hc : Cmp s) : Cmp (enterLoop s).1 := by
  unfold enterLoop; simp only
  have h1 := h.timers (s.timers ++ [(s.nextTimer, TimerKind.runSched)]) (s.nextTimer + 1) s.nextTimer true
    (userTimers_append_runSched _ _)
  have hc1 := cmp_nonmem hc { s with timers := s.timers ++ [(s.nextTimer, TimerKind.runSched)], nextTimer := s.nextTimer + 1, loopTimer := s.nextTimer, inLoop := true } rfl rfl
  split
  · exact cmp_endLoop hc1
  · next g rest hs => exact cmp_runHead h1 hc1 g rest hs

theorem cmp_exit {s : State} (h : GInv s) (hc : Cmp s) (g : Nat) (hcur : s.cur = some g) :
    Cmp (endSlice (setG s g { getG s g with exit := true }) g) := by
  obtain ⟨hlt, _, _, _⟩ := h.cur g hcur
  have hx : getG (setG s g { getG s g with exit := true }) g = { getG s g with exit := true } := by
    simp [getG_def, setG, hlt]
  have hgs : (endSlice (setG s g { getG s g with exit := true }) g).gs
      = s.gs.set g { getG s g with exit := true, asleep := true } := by
    rw [endSlice_exit _ g (by simpa [setG] using hlt) (by rw [hx]), loopTail_gs, hx]
    simp [setG, List.set_set]
  apply cmp_set hc g _ hgs
  · intro k hk; exact ⟨by simpa using hk, by simp [getC_def]⟩
  · right; left; rfl
  · intro k snd e he _
    show e ∈ entsC (endSlice (setG s g { getG s g with exit := true }) g).chans k snd
    simpa using he

theorem step_cmp (s : State) (ev : Event) (h : GInv s) (hc : Cmp s) : Cmp (step s ev).1 := by
  unfold step
  split
  · next g hcur =>
    split
    · exact cmp_makechan hc _
    · exact cmp_goNew hc
    · split
      · next hv => exact doSend_cmp _ _ _ _ h hc hcur (by simpa [validChan] using hv)
      · exact hc
    · split
      · next hv => exact doRecv_cmp _ _ _ h hc hcur (by simpa [validChan] using hv)
      · exact hc
    · split
      · exact doClose_cmp _ _ h hc
      · exact hc
    · split
      · next hv => exact doSelect_cmp _ _ _ _ h hc hcur hv
      · exact hc
    · split
      · exact cmp_same_gs hc rfl (chFrame_refl s) (fun _ _ _ he => he)
      · exact hc
    · exact cmp_exit h hc g hcur
    · exact cmp_same_gs hc rfl (chFrame_refl s) (fun _ _ _ he => he)
    · exact hc
  · next hcur =>
    split
    · split
      · split
        · next g rest hs => exact cmp_runHead h hc g rest hs
        · exact hc
      · exact cmp_same_gs hc rfl (chFrame_refl s) (fun _ _ _ he => he)
      · exact hc
    · split
      · exact cmp_makechan hc _
      · exact cmp_enterLoop h.goNew (cmp_goNew hc)
      · split
        · exact hc
        · next hf =>
          apply cmp_enterLoop
          · exact h.timers _ s.nextTimer s.loopTimer s.inLoop (userTimers_erase_runSched _ _)
          · exact cmp_same_gs hc rfl (chFrame_refl s) (fun _ _ _ he => he)
        · next c hf =>
          simp only
          split
          · exact hc
          · have h1 := h.fireUser _ c (findTimer_mem hf)
            have hc1 := fun ts a => cmp_timers_awake hc ts a
            split
            · next s2 heq =>
              have e := congrArg Prod.fst heq; simp only at e
              have h2 : GInv s2 := by rw [← e]; exact doClose_ginv _ _ h1
              have hc2 : Cmp s2 := by rw [← e]; exact doClose_cmp _ _ h1 (hc1 _ _)
              split
              · exact cmp_enterLoop h2 hc2
              · exact hc2
            · exact doClose_cmp _ _ h1 (hc1 _ _)
      · exact hc

theorem init_cmp : Cmp GV.Sched.init := by
  intro g hl; simp [GV.Sched.init] at hl

theorem runAll_both : ∀ (evs : List Event) (s : State), GInv s → Cmp s → GInv (runAll s evs) ∧ Cmp (runAll s evs) := by
  intro evs; induction evs with
  | nil => intro s h hc; exact ⟨h, hc⟩
  | cons e es ih => intro s h hc; exact ih _ (step_ginv s e h) (step_cmp s e h hc)

end GV.Proofs.SchedLive
