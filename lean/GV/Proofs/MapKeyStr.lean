/-
  GV.Proofs.MapKeyStr — string-level lemmas for C15: escaping + joining is injective for fixed arity,
  decimal rendering is injective, `String(f)` is injective up to ±0 on the modelled floats.
-/
import GV.Model.MapKey
import GV.Spec.MapKey

namespace GV.Proofs.MapKeyStr
open GV.MapKey GV.Spec.MapKey

/-! ### escaping -/

/-- the two `replace` passes as one pass -/
def esc1 : Str → Str
  | [] => []
  | c :: cs => if c = 92 then 92 :: 92 :: esc1 cs else if c = 36 then 92 :: 36 :: esc1 cs else c :: esc1 cs

theorem esc_cons (c : Nat) (cs : Str) :
    esc (c :: cs) = (if c = 92 then [92, 92] else if c = 36 then [92, 36] else [c]) ++ esc cs := by
  unfold esc
  by_cases h1 : c = 92
  · subst h1; simp [replaceAll]
  · by_cases h2 : c = 36
    · subst h2; simp [replaceAll]
    · simp [replaceAll, h1, h2]

theorem esc_eq_esc1 (s : Str) : esc s = esc1 s := by
  induction s with
  | nil => simp [esc, esc1, replaceAll]
  | cons c cs ih =>
    rw [esc_cons, ih]
    by_cases h1 : c = 92
    · simp [esc1, h1]
    · by_cases h2 : c = 36
      · simp [esc1, h2]
      · simp [esc1, h1, h2]

/-- decoder: splits at unescaped `$` and removes the escapes -/
def dec : Str → Str → List Str
  | [], cur => [cur]
  | [c], cur => if c = 92 then [cur] else if c = 36 then [cur, []] else [cur ++ [c]]
  | c :: d :: ds, cur =>
    if c = 92 then dec ds (cur ++ [d])
    else if c = 36 then cur :: dec (d :: ds) []
    else dec (d :: ds) (cur ++ [c])

theorem dec_bs (d : Nat) (ds cur : Str) : dec (92 :: d :: ds) cur = dec ds (cur ++ [d]) := by
  simp [dec]

theorem dec_dollar (cs cur : Str) : dec (36 :: cs) cur = cur :: dec cs [] := by
  cases cs <;> simp [dec]

theorem dec_other (c : Nat) (cs cur : Str) (h1 : c ≠ 92) (h2 : c ≠ 36) : dec (c :: cs) cur = dec cs (cur ++ [c]) := by
  cases cs <;> simp [dec, h1, h2]

theorem dec_esc1 (a r cur : Str) : dec (esc1 a ++ r) cur = dec r (cur ++ a) := by
  induction a generalizing cur with
  | nil => simp [esc1]
  | cons c cs ih =>
    by_cases h1 : c = 92
    · subst h1
      simp only [esc1, if_true, List.cons_append]
      rw [dec_bs, ih]; simp
    · by_cases h2 : c = 36
      · subst h2
        simp only [esc1, List.cons_append, show ¬ (36 : Nat) = 92 by decide, if_false, if_true]
        rw [dec_bs, ih]; simp
      · simp only [esc1, h1, h2, if_false, List.cons_append]
        rw [dec_other _ _ _ h1 h2, ih]; simp

theorem dec_join (a : Str) (l : List Str) (cur : Str) :
    dec (joinD ((a :: l).map esc1)) cur = (cur ++ a) :: l := by
  induction l generalizing a cur with
  | nil =>
    have := dec_esc1 a [] cur
    simpa [joinD, dec] using this
  | cons b l ih =>
    simp only [List.map, joinD]
    rw [dec_esc1, dec_dollar]
    have := ih b []
    simp only [List.map, List.nil_append] at this
    rw [this]

/-- joining escaped components with `$` is injective once the arity is fixed -/
theorem join_esc1_injective (l1 l2 : List Str) (hlen : l1.length = l2.length)
    (h : joinD (l1.map esc1) = joinD (l2.map esc1)) : l1 = l2 := by
  cases l1 with
  | nil => cases l2 with
    | nil => rfl
    | cons _ _ => simp at hlen
  | cons a l1 => cases l2 with
    | nil => simp at hlen
    | cons b l2 =>
      have e1 := dec_join a l1 []
      have e2 := dec_join b l2 []
      rw [h, e2] at e1
      simpa using e1.symm

theorem join_esc_injective (l1 l2 : List Str) (hlen : l1.length = l2.length)
    (h : joinD (l1.map esc) = joinD (l2.map esc)) : l1 = l2 := by
  have e : ∀ l : List Str, l.map esc = l.map esc1 := fun l => by
    apply List.map_congr_left; intro a _; exact esc_eq_esc1 a
  rw [e, e] at h
  exact join_esc1_injective l1 l2 hlen h

/-- splitting at the first `$` when the prefixes contain none -/
theorem split_at_dollar (a b x y : Str) (ha : 36 ∉ a) (hb : 36 ∉ b)
    (h : a ++ 36 :: x = b ++ 36 :: y) : a = b ∧ x = y := by
  induction a generalizing b with
  | nil =>
    cases b with
    | nil => simpa using h
    | cons c b => simp at h; simp [← h.1] at hb
  | cons c a ih =>
    cases b with
    | nil => simp at h; simp [h.1] at ha
    | cons d b =>
      simp only [List.cons_append, List.cons.injEq] at h
      have := ih b (by intro m; exact ha (List.mem_cons_of_mem _ m)) (by intro m; exact hb (List.mem_cons_of_mem _ m)) h.2
      exact ⟨by rw [h.1, this.1], this.2⟩

/-! ### decimals -/

def ofDigits (l : List Nat) : Nat := l.foldl (fun a d => a * 10 + d) 0

theorem ofDigits_append (l : List Nat) (d : Nat) : ofDigits (l ++ [d]) = ofDigits l * 10 + d := by
  simp [ofDigits, List.foldl_append]

theorem ofDigits_digits (n : Nat) : ofDigits (digits n) = n := by
  induction n using Nat.strongRecOn with
  | _ n ih =>
    unfold digits
    by_cases h : n < 10
    · simp [h, ofDigits]
    · simp only [h, if_false]
      rw [ofDigits_append, ih (n / 10) (by omega)]
      omega

theorem digits_lt (n : Nat) : ∀ d ∈ digits n, d < 10 := by
  induction n using Nat.strongRecOn with
  | _ n ih =>
    unfold digits
    by_cases h : n < 10
    · simp [h]
    · simp only [h, if_false]
      intro d hd
      rcases List.mem_append.mp hd with hd | hd
      · exact ih (n / 10) (by omega) d hd
      · simp at hd; omega

theorem digits_ne_nil (n : Nat) : digits n ≠ [] := by
  unfold digits
  by_cases h : n < 10 <;> simp [h]

theorem digits_injective (a b : Nat) (h : digits a = digits b) : a = b := by
  rw [← ofDigits_digits a, ← ofDigits_digits b, h]

theorem decNat_injective (a b : Nat) (h : decNat a = decNat b) : a = b := by
  apply digits_injective
  unfold decNat at h
  exact (List.map_inj_right (f := fun x : Nat => x + 48) (fun x y hxy => by simpa using hxy)).mp h

theorem decNat_chars (n : Nat) : ∀ c ∈ decNat n, 48 ≤ c ∧ c < 58 := by
  intro c hc
  unfold decNat at hc
  rcases List.mem_map.mp hc with ⟨d, hd, rfl⟩
  have := digits_lt n d hd
  omega

theorem decNat_ne_nil (n : Nat) : decNat n ≠ [] := by
  unfold decNat
  simp [digits_ne_nil]

theorem decNat_head (n : Nat) : ∃ c cs, decNat n = c :: cs ∧ 48 ≤ c ∧ c < 58 := by
  cases h : decNat n with
  | nil => exact absurd h (decNat_ne_nil n)
  | cons c cs => exact ⟨c, cs, rfl, decNat_chars n c (by rw [h]; simp)⟩

theorem decInt_injective (a b : Int) (h : decInt a = decInt b) : a = b := by
  unfold decInt at h
  by_cases ha : a < 0 <;> by_cases hb : b < 0 <;> simp only [ha, hb, if_true, if_false] at h
  · have := decNat_injective _ _ (List.cons.inj h).2; omega
  · obtain ⟨c, cs, e, h1, _⟩ := decNat_head b.natAbs
    rw [e] at h; have := (List.cons.inj h).1; omega
  · obtain ⟨c, cs, e, h1, _⟩ := decNat_head a.natAbs
    rw [e] at h; have := (List.cons.inj h).1; omega
  · have := decNat_injective _ _ h; omega

theorem decInt_chars (i : Int) : ∀ c ∈ decInt i, c = 45 ∨ (48 ≤ c ∧ c < 58) := by
  intro c hc
  unfold decInt at hc
  by_cases h : i < 0 <;> simp only [h, if_true, if_false] at hc
  · rcases List.mem_cons.mp hc with rfl | hc
    · exact Or.inl rfl
    · exact Or.inr (decNat_chars _ c hc)
  · exact Or.inr (decNat_chars _ c hc)

theorem no_dollar_decNat (n : Nat) : 36 ∉ decNat n := fun h => by have := decNat_chars n 36 h; omega
theorem no_dollar_decInt (i : Int) : 36 ∉ decInt i := fun h => by have := decInt_chars i 36 h; omega

/-! ### `String(f)` -/

theorem halfStr_head (n : Nat) : ∃ c cs, halfStr n = c :: cs ∧ 48 ≤ c ∧ c < 58 := by
  obtain ⟨c, cs, e, h⟩ := decNat_head (n / 2)
  unfold halfStr
  by_cases hp : n % 2 = 0
  · simp only [hp, if_true]; exact ⟨c, cs, e, h⟩
  · simp only [hp, if_false]; exact ⟨c, cs ++ [46, 53], by rw [e]; rfl, h⟩

theorem halfStr_chars (n : Nat) : ∀ c ∈ halfStr n, c = 46 ∨ (48 ≤ c ∧ c < 58) := by
  intro c hc
  unfold halfStr at hc
  by_cases hp : n % 2 = 0 <;> simp only [hp, if_true, if_false] at hc
  · exact Or.inr (decNat_chars _ c hc)
  · rcases List.mem_append.mp hc with hc | hc
    · exact Or.inr (decNat_chars _ c hc)
    · simp at hc; omega

theorem halfStr_injective (a b : Nat) (h : halfStr a = halfStr b) : a = b := by
  unfold halfStr at h
  by_cases ha : a % 2 = 0 <;> by_cases hb : b % 2 = 0 <;> simp only [ha, hb, if_true, if_false] at h
  · have := decNat_injective _ _ h; omega
  · have m : 46 ∈ decNat (a / 2) := by rw [h]; simp
    have := decNat_chars _ 46 m; omega
  · have m : 46 ∈ decNat (b / 2) := by rw [← h]; simp
    have := decNat_chars _ 46 m; omega
  · have := decNat_injective _ _ (List.append_cancel_right h); omega

theorem halfStr_zero : halfStr 0 = [48] := by
  simp [halfStr, decNat, digits]

/-- What the theorems need of ECMAScript `Number::toString` on finite non-zero doubles (`fs`): it is injective,
    never prints `$`, and never prints what NaN, ±Infinity or 0 print. (True of every conforming engine: the
    result is a decimal numeral that converts back to the same number.) This is the trusted part; it is a
    hypothesis of the theorems, not an axiom. -/
def ToStringOK (fs : Int → Str) : Prop :=
  (∀ a b, fs a = fs b → a = b) ∧
  ∀ a, a ≠ 0 → 36 ∉ fs a ∧ fs a ≠ sNaN ∧ fs a ≠ sInfinity ∧ fs a ≠ 45 :: sInfinity ∧ fs a ≠ [48]

theorem numStr_chars {fs : Int → Str} (hfs : ToStringOK fs) (f : Flt) (hf : f ≠ .nan) (wf : fwt f = true) :
    36 ∉ numStr fs f := by
  cases f with
  | nan => exact absurd rfl hf
  | inf n => cases n <;> simp [numStr, sInfinity]
  | zero n => simp [numStr]
  | fin t =>
    have : t ≠ 0 := by simpa [fwt] using wf
    exact (hfs.2 t this).1

theorem numStr_ne_NaN {fs : Int → Str} (hfs : ToStringOK fs) (f : Flt) (hf : f ≠ .nan) (wf : fwt f = true) :
    numStr fs f ≠ sNaN := by
  cases f with
  | nan => exact absurd rfl hf
  | inf n => cases n <;> simp [numStr, sInfinity, sNaN]
  | zero n => simp [numStr, sNaN]
  | fin t =>
    have : t ≠ 0 := by simpa [fwt] using wf
    exact (hfs.2 t this).2.1

/-- `String` is injective on non-NaN floats, except that `String(-0) = String(+0)` — exactly Go's `==` -/
theorem numStr_injective {fs : Int → Str} (hfs : ToStringOK fs) (f g : Flt) (hf : f ≠ .nan) (hg : g ≠ .nan)
    (wf : fwt f = true) (wg : fwt g = true) : numStr fs f = numStr fs g ↔ fltEq f g = true := by
  cases f with
  | nan => exact absurd rfl hf
  | inf a =>
    cases g with
    | nan => exact absurd rfl hg
    | inf b => cases a <;> cases b <;> simp [numStr, fltEq, sInfinity]
    | zero b => cases a <;> simp [numStr, fltEq, sInfinity]
    | fin t =>
      have ht : t ≠ 0 := by simpa [fwt] using wg
      have h := hfs.2 t ht
      cases a <;> simp only [numStr, fltEq]
      · exact ⟨fun e => absurd e.symm h.2.2.1, fun e => by cases e⟩
      · exact ⟨fun e => absurd e.symm h.2.2.2.1, fun e => by cases e⟩
  | zero a =>
    cases g with
    | nan => exact absurd rfl hg
    | inf b => cases b <;> simp [numStr, fltEq, sInfinity]
    | zero b => simp [numStr, fltEq]
    | fin t =>
      have ht : t ≠ 0 := by simpa [fwt] using wg
      have h := hfs.2 t ht
      simp only [numStr, fltEq]
      exact ⟨fun e => absurd e.symm h.2.2.2.2, fun e => by cases e⟩
  | fin s =>
    have hs : s ≠ 0 := by simpa [fwt] using wf
    have h := hfs.2 s hs
    cases g with
    | nan => exact absurd rfl hg
    | inf b =>
      cases b <;> simp only [numStr, fltEq]
      · exact ⟨fun e => absurd e h.2.2.1, fun e => by cases e⟩
      · exact ⟨fun e => absurd e h.2.2.2.1, fun e => by cases e⟩
    | zero b =>
      simp only [numStr, fltEq]
      exact ⟨fun e => absurd e h.2.2.2.2, fun e => by cases e⟩
    | fin t =>
      simp only [numStr, fltEq, beq_iff_eq]
      exact ⟨hfs.1 s t, fun e => by rw [e]⟩

/-- the instance used by the driver (finite doubles that are multiples of 1/2, printed exactly) meets the hypothesis -/
theorem halfFs_ok : ToStringOK halfFs := by
  constructor
  · intro a b h
    unfold halfFs at h
    obtain ⟨c, cs, e, h1, h2⟩ := halfStr_head a.natAbs
    obtain ⟨c', cs', e', h1', h2'⟩ := halfStr_head b.natAbs
    by_cases ha : a < 0 <;> by_cases hb : b < 0 <;> simp only [ha, hb, if_true, if_false] at h
    · have := halfStr_injective _ _ (List.cons.inj h).2; omega
    · rw [e'] at h; have := (List.cons.inj h).1; omega
    · rw [e] at h; have := (List.cons.inj h).1; omega
    · have := halfStr_injective _ _ h; omega
  · intro a ha
    obtain ⟨c, cs, e, h1, h2⟩ := halfStr_head a.natAbs
    have hz : a.natAbs ≠ 0 := by omega
    unfold halfFs
    by_cases hn : a < 0 <;> simp only [hn, if_true, if_false]
    · refine ⟨?_, by simp [sNaN], by simp [sInfinity], ?_, by simp⟩
      · intro m
        rcases List.mem_cons.mp m with m | m
        · omega
        · have := halfStr_chars _ 36 m; omega
      · rw [e]; simp [sInfinity]; omega
    · refine ⟨?_, ?_, ?_, ?_, ?_⟩
      · intro m; have := halfStr_chars _ 36 m; omega
      · rw [e]; simp [sNaN]; omega
      · rw [e]; simp [sInfinity]; omega
      · rw [e]; simp [sInfinity]; omega
      · intro h; rw [← halfStr_zero] at h; exact hz (halfStr_injective _ _ h)

end GV.Proofs.MapKeyStr
