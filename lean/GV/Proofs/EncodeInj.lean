import GV.Model.Names
import GV.Proofs.NamesPlain

/-! `encodeIdent` followed by the `$n` counter suffix is injective on valid identifiers
    (`GV.Props.C01.encodeIdent_inj_utf8`): no clash between an escaped byte `$C3` and a counter `$3`. -/
namespace GV.Proofs.EncodeInj
open GV.Names GV.Proofs.NamesPlain

def isCont (c : Nat) : Prop := 0x80 ≤ c ∧ c < 0xC0
def isLetter (c : Nat) : Prop := (65 ≤ c ∧ c ≤ 90) ∨ (97 ≤ c ∧ c ≤ 122)
def isDigitB (c : Nat) : Prop := 48 ≤ c ∧ c ≤ 57

/-- number of continuation bytes a UTF-8 lead byte announces -/
def contLen (c : Nat) : Nat := if c < 0xE0 then 1 else if c < 0xF0 then 2 else 3

/-- Names the compiler asks `newVariable` for: sequences of
    · bytes `url.QueryEscape` leaves alone (ASCII letters, digits, `_`, `.`, `-`, `~`) — Go identifiers, `main.f`;
    · `$` followed by an ASCII letter — the compiler's own `$r`, `x$ptr`;
    · the middle dot `C2 B7` (`nestedFunctionContext` writes it for `.`);
    · any other UTF-8 encoded non-ASCII character: a lead byte `C2..F4` followed by exactly the 1 / 2 / 3 continuation bytes
      `80..BF` it announces — what a Go identifier with non-ASCII letters consists of. -/
inductive Valid : Name → Prop where
  | nil : Valid []
  | ascii (c : Nat) (r : Name) : unreserved c = true → Valid r → Valid (c :: r)
  | dollar (l : Nat) (r : Name) : isLetter l → Valid r → Valid (36 :: l :: r)
  | mid (r : Name) : Valid r → Valid (0xC2 :: 0xB7 :: r)
  | multi (c : Nat) (cs r : Name) : 0xC2 ≤ c → c < 0xF5 → cs.length = contLen c → (∀ x ∈ cs, isCont x) →
      ¬ (c = 0xC2 ∧ cs = [0xB7]) → Valid r → Valid (c :: (cs ++ r))

/-- `$XY` -/
def esc (c : Nat) : Name := [36, hexU (c / 16), hexU (c % 16)]

def escs : Name → Name
  | [] => []
  | c :: r => esc c ++ escs r

theorem escs_length (l : Name) : (escs l).length = 3 * l.length := by
  induction l with
  | nil => rfl
  | cons c r ih => simp [escs, esc, ih]; omega

theorem hexU_inj (a b : Nat) (ha : a < 16) (hb : b < 16) (h : hexU a = hexU b) : a = b := by
  unfold hexU at h
  split at h <;> split at h <;> omega

theorem esc_inj (c d : Nat) (hc : c < 256) (hd : d < 256) (h : esc c = esc d) : c = d := by
  simp only [esc, List.cons.injEq, and_true, true_and] at h
  have h1 := hexU_inj _ _ (by omega) (by omega) h.1
  have h2 := hexU_inj _ _ (Nat.mod_lt _ (by decide)) (Nat.mod_lt _ (by decide)) h.2
  omega

theorem escs_inj : ∀ (l m : Name), l.length = m.length → (∀ x ∈ l, x < 256) → (∀ x ∈ m, x < 256) →
    ∀ (t u : Name), escs l ++ t = escs m ++ u → l = m ∧ t = u
  | [], [], _, _, _, t, u, h => ⟨rfl, by simpa [escs] using h⟩
  | [], _ :: _, hl, _, _, _, _, _ => by simp at hl
  | _ :: _, [], hl, _, _, _, _, _ => by simp at hl
  | c :: l, d :: m, hl, h1, h2, t, u, h => by
    simp only [escs, esc, List.cons_append, List.nil_append, List.cons.injEq, true_and] at h
    have e : esc c = esc d := by simp [esc, h.1, h.2.1]
    have hcd := esc_inj c d (h1 c (by simp)) (h2 d (by simp)) e
    obtain ⟨e1, e2⟩ := escs_inj l m (by simpa using hl) (fun x hx => h1 x (List.mem_cons_of_mem _ hx))
      (fun x hx => h2 x (List.mem_cons_of_mem _ hx)) t u h.2.2
    exact ⟨by rw [hcd, e1], e2⟩

/-! ### what `encodeIdent` does on each kind of character -/

theorem enc_ascii (c : Nat) (r : Name) (h : unreserved c = true) : encodeIdent (c :: r) = c :: encodeIdent r := by
  have hlt := unreserved_lt c h
  rw [encodeIdent]
  have h1 : (c == 0xC2) = false := by simp; omega
  simp [h1, h]

theorem unreserved_letter (l : Nat) (h : isLetter l) : unreserved l = true := by
  unfold isLetter at h
  simp only [unreserved, Bool.or_eq_true, Bool.and_eq_true, decide_eq_true_eq, beq_iff_eq]
  omega

theorem enc_dollar (l : Nat) (r : Name) (h : isLetter l) : encodeIdent (36 :: l :: r) = 36 :: 50 :: 52 :: l :: encodeIdent r := by
  rw [encodeIdent]
  simp [unreserved, hexU]
  exact enc_ascii l r (unreserved_letter l h)

theorem enc_mid (r : Name) : encodeIdent (0xC2 :: 0xB7 :: r) = 0xC2 :: 0xB7 :: encodeIdent r := by
  rw [encodeIdent]
  simp

/-- a byte ≥ 0x80 that does not start a middle dot is escaped -/
theorem enc_high (c : Nat) (r : Name) (hc : 0x80 ≤ c) (hm : ¬ (c = 0xC2 ∧ r.head? = some 0xB7)) :
    encodeIdent (c :: r) = esc c ++ encodeIdent r := by
  rw [encodeIdent]
  have hu : unreserved c = false := by
    cases hx : unreserved c with
    | false => rfl
    | true => have := unreserved_lt c hx; omega
  have h32 : (c == 32) = false := by simp; omega
  by_cases h2 : c = 0xC2
  · subst h2
    have : ¬ (r.head? = some 0xB7) := fun e => hm ⟨rfl, e⟩
    simp [this, hu, esc]
  · have h1 : (c == 0xC2) = false := by simpa using h2
    simp [h1, hu, h32, esc]

theorem enc_conts : ∀ (cs r : Name), (∀ x ∈ cs, isCont x) → encodeIdent (cs ++ r) = escs cs ++ encodeIdent r
  | [], r, _ => rfl
  | x :: cs, r, h => by
    have hx := h x (by simp)
    unfold isCont at hx
    rw [List.cons_append, enc_high x (cs ++ r) (by omega) (by intro e; omega),
      enc_conts cs r (fun y hy => h y (List.mem_cons_of_mem _ hy))]
    simp [escs]

theorem enc_multi (c : Nat) (cs r : Name) (h1 : 0xC2 ≤ c) (hl : cs.length = contLen c) (hc : ∀ x ∈ cs, isCont x)
    (hm : ¬ (c = 0xC2 ∧ cs = [0xB7])) : encodeIdent (c :: (cs ++ r)) = esc c ++ (escs cs ++ encodeIdent r) := by
  rw [enc_high c (cs ++ r) (by omega) ?_, enc_conts cs r hc]
  intro ⟨e1, e2⟩
  apply hm
  refine ⟨e1, ?_⟩
  subst e1
  simp only [contLen] at hl
  cases cs with
  | nil => simp at hl
  | cons x cs =>
    cases cs with
    | nil => simp at e2; rw [e2]
    | cons y cs => simp at hl

/-- the second byte of the escape of a lead byte is a letter `C`…`F` -/
theorem lead_hex (c : Nat) (h1 : 0xC2 ≤ c) (h2 : c < 0xF5) : 67 ≤ hexU (c / 16) ∧ hexU (c / 16) ≤ 70 := by
  unfold hexU
  split <;> omega

theorem contLen_of_hex (c d : Nat) (hc1 : 0xC2 ≤ c) (hc2 : c < 0xF5) (hd1 : 0xC2 ≤ d) (hd2 : d < 0xF5)
    (h : hexU (c / 16) = hexU (d / 16)) : contLen c = contLen d := by
  have := hexU_inj _ _ (by omega) (by omega) h
  unfold contLen
  split <;> split <;> (try split) <;> (try split) <;> omega

/-- **no extension**: the encoding of a valid name is never the encoding of another valid name followed by `$` and one or
    more decimal digits -/
theorem noExt : ∀ {s' : Name}, Valid s' → ∀ {s : Name}, Valid s → ∀ (ds : Name), ds ≠ [] → (∀ d ∈ ds, isDigitB d) →
    encodeIdent s ≠ encodeIdent s' ++ 36 :: ds := by
  intro s' hs'
  induction hs' with
  | nil =>
    intro s hs ds hne hd h
    have e0 : encodeIdent ([] : Name) = [] := by rw [encodeIdent]
    rw [e0, List.nil_append] at h
    cases ds with
    | nil => exact hne rfl
    | cons d0 ds =>
      have hd0 := hd d0 (by simp)
      unfold isDigitB at hd0
      cases hs with
      | nil => rw [e0] at h; cases h
      | ascii c r hc _ =>
        rw [enc_ascii c r hc] at h
        simp only [List.cons.injEq] at h
        have := unreserved_lt c hc
        omega
      | dollar l r hl _ =>
        rw [enc_dollar l r hl] at h
        simp only [List.cons.injEq, true_and] at h
        -- ds = 52 :: l :: …: the letter would have to be a digit
        cases ds with
        | nil => simp at h
        | cons d1 ds =>
          cases ds with
          | nil => simp at h
          | cons d2 ds =>
            simp only [List.cons.injEq] at h
            have := hd d2 (by simp)
            unfold isDigitB at this
            unfold isLetter at hl
            omega
      | mid r _ => rw [enc_mid] at h; simp at h
      | multi c cs r h1 h2 hl hc hm _ =>
        rw [enc_multi c cs r h1 hl hc hm] at h
        simp only [esc, List.cons_append, List.nil_append, List.cons.injEq, true_and] at h
        have := lead_hex c h1 h2
        omega
  | ascii c' r' hc' _ ih =>
    intro s hs ds hne hd h
    rw [enc_ascii c' r' hc', List.cons_append] at h
    have hlt := unreserved_lt c' hc'
    cases hs with
    | nil => rw [encodeIdent] at h; cases h
    | ascii c r hc hr =>
      rw [enc_ascii c r hc] at h
      simp only [List.cons.injEq] at h
      exact ih hr ds hne hd h.2
    | dollar l r hl _ => rw [enc_dollar l r hl] at h; simp only [List.cons.injEq] at h; omega
    | mid r _ => rw [enc_mid] at h; simp only [List.cons.injEq] at h; omega
    | multi c cs r h1 h2 hl hc hm _ =>
      rw [enc_multi c cs r h1 hl hc hm] at h
      simp only [esc, List.cons_append, List.nil_append, List.cons.injEq] at h
      omega
  | dollar l' r' hl' _ ih =>
    intro s hs ds hne hd h
    rw [enc_dollar l' r' hl'] at h
    simp only [List.cons_append] at h
    cases hs with
    | nil => rw [encodeIdent] at h; cases h
    | ascii c r hc hr =>
      rw [enc_ascii c r hc] at h
      simp only [List.cons.injEq] at h
      have := unreserved_lt c hc
      omega
    | dollar l r hl hr =>
      rw [enc_dollar l r hl] at h
      simp only [List.cons.injEq, true_and] at h
      exact ih hr ds hne hd h.2
    | mid r _ => rw [enc_mid] at h; simp at h
    | multi c cs r h1 h2 hl hc hm _ =>
      rw [enc_multi c cs r h1 hl hc hm] at h
      simp only [esc, List.cons_append, List.nil_append, List.cons.injEq, true_and] at h
      have := lead_hex c h1 h2
      omega
  | mid r' _ ih =>
    intro s hs ds hne hd h
    rw [enc_mid] at h
    simp only [List.cons_append] at h
    cases hs with
    | nil => rw [encodeIdent] at h; cases h
    | ascii c r hc hr =>
      rw [enc_ascii c r hc] at h
      simp only [List.cons.injEq] at h
      have := unreserved_lt c hc
      omega
    | dollar l r hl _ => rw [enc_dollar l r hl] at h; simp at h
    | mid r hr =>
      rw [enc_mid] at h
      simp only [List.cons.injEq, true_and] at h
      exact ih hr ds hne hd h
    | multi c cs r h1 h2 hl hc hm _ =>
      rw [enc_multi c cs r h1 hl hc hm] at h
      simp [esc] at h
  | multi c' cs' r' h1' h2' hl' hc' hm' _ ih =>
    intro s hs ds hne hd h
    rw [enc_multi c' cs' r' h1' hl' hc' hm'] at h
    have hx' := lead_hex c' h1' h2'
    cases hs with
    | nil => rw [encodeIdent] at h; simp [esc] at h
    | ascii c r hc hr =>
      rw [enc_ascii c r hc] at h
      simp only [esc, List.cons_append, List.nil_append, List.cons.injEq] at h
      have := unreserved_lt c hc
      omega
    | dollar l r hl _ =>
      rw [enc_dollar l r hl] at h
      simp only [esc, List.cons_append, List.nil_append, List.cons.injEq, true_and] at h
      omega
    | mid r _ => rw [enc_mid] at h; simp [esc] at h
    | multi c cs r h1 h2 hl hc hm hr =>
      rw [enc_multi c cs r h1 hl hc hm] at h
      simp only [esc, List.cons_append, List.nil_append, List.cons.injEq, true_and, List.append_assoc] at h
      obtain ⟨e1, e2, e3⟩ := h
      have hcl := contLen_of_hex c c' h1 h2 h1' h2' e1
      have hcc : c = c' := by
        have a := hexU_inj _ _ (by omega) (by omega) e1
        have b := hexU_inj _ _ (Nat.mod_lt _ (by decide)) (Nat.mod_lt _ (by decide)) e2
        omega
      have hlen : cs.length = cs'.length := by rw [hl, hl', hcl]
      have hb : ∀ (l : Name), (∀ x ∈ l, isCont x) → ∀ x ∈ l, x < 256 := by
        intro l hl x hx
        have := hl x hx
        unfold isCont at this
        omega
      obtain ⟨_, e5⟩ := escs_inj cs cs' hlen (hb cs hc) (hb cs' hc') _ _ e3
      exact ih hr ds hne hd e5

/-! ### from "no extension" to injectivity of `name$n` -/

theorem decimal_ne_nil (k : Nat) : decimal k ≠ [] := by
  intro h
  have : (Nat.toDigits 10 k) = [] := by
    have := congrArg List.length h
    simp only [decimal, List.length_map, toString_toList, List.length_nil] at this
    exact List.eq_nil_of_length_eq_zero this
  exact Nat.toDigits_ne_nil this

/-- the split at the LAST `$` is unique: digits contain no `$` -/
theorem split_last_dollar : ∀ (a a' d d' : Name), (∀ x ∈ d, isDigitB x) → (∀ x ∈ d', isDigitB x) →
    a ++ 36 :: d = a' ++ 36 :: d' → a = a' ∧ d = d'
  | [], [], d, d', _, _, h => by simpa using h
  | [], y :: a', d, d', hd, _, h => by
    simp only [List.nil_append, List.cons_append, List.cons.injEq] at h
    have : 36 ∈ d := by rw [h.2]; simp
    have := hd 36 this
    unfold isDigitB at this
    omega
  | x :: a, [], d, d', _, hd', h => by
    simp only [List.nil_append, List.cons_append, List.cons.injEq] at h
    have : 36 ∈ d' := by rw [← h.2]; simp
    have := hd' 36 this
    unfold isDigitB at this
    omega
  | x :: a, y :: a', d, d', hd, hd', h => by
    simp only [List.cons_append, List.cons.injEq] at h
    obtain ⟨e1, e2⟩ := split_last_dollar a a' d d' hd hd' h.2
    exact ⟨by rw [h.1, e1], e2⟩

theorem decimal_isDigit (k : Nat) : ∀ x ∈ decimal k, isDigitB x := decimal_digit k

/-- `RenderInj` needs exactly this: no requested encoded name is another one followed by `$` and a positive counter -/
theorem renderInj_of_noExt (B : List Name)
    (h : ∀ b ∈ B, ∀ b' ∈ B, ∀ k, 0 < k → b ≠ b' ++ 36 :: decimal k) : RenderInj B := by
  intro b hb b' hb' k k' e
  unfold render at e
  by_cases hk : k > 0 <;> by_cases hk' : k' > 0 <;> simp only [hk, hk', if_true, if_false] at e
  · obtain ⟨e1, e2⟩ := split_last_dollar b b' _ _ (decimal_isDigit k) (decimal_isDigit k') e
    exact ⟨e1, decimal_inj k k' e2⟩
  · exact absurd e.symm (h b' hb' b hb k hk)
  · exact absurd e (h b hb b' hb' k' hk')
  · exact ⟨e, by omega⟩

/-- **encodeIdent_inj** — on the encodings of valid names, `(name, n) ↦ name$n` is injective -/
theorem renderInj_valid (B : List Name) (hB : ∀ b ∈ B, ∃ s, Valid s ∧ b = encodeIdent s) : RenderInj B := by
  apply renderInj_of_noExt
  intro b hb b' hb' k hk e
  obtain ⟨s, hs, rfl⟩ := hB b hb
  obtain ⟨s', hs', rfl⟩ := hB b' hb'
  exact noExt hs' hs (decimal k) (decimal_ne_nil k) (decimal_isDigit k) e

/-! ### closure properties of `Valid` -/

theorem valid_append : ∀ {a : Name}, Valid a → ∀ {b : Name}, Valid b → Valid (a ++ b) := by
  intro a ha
  induction ha with
  | nil => intro b hb; exact hb
  | ascii c r hc _ ih => intro b hb; exact .ascii c _ hc (ih hb)
  | dollar l r hl _ ih => intro b hb; exact .dollar l _ hl (ih hb)
  | mid r _ ih => intro b hb; exact .mid _ (ih hb)
  | multi c cs r h1 h2 hl hc hm _ ih =>
    intro b hb
    have := Valid.multi c cs (r ++ b) h1 h2 hl hc hm (ih hb)
    simpa [List.append_assoc] using this

theorem valid_ptrSuffix : Valid ptrSuffix :=
  .dollar 112 _ (by unfold isLetter; omega) (.ascii 116 _ (by decide) (.ascii 114 _ (by decide) .nil))

theorem dots_conts : ∀ (cs r : Name), (∀ x ∈ cs, isCont x) → dotsToMidDot (cs ++ r) = cs ++ dotsToMidDot r
  | [], r, _ => rfl
  | x :: cs, r, h => by
    have hx := h x (by simp)
    unfold isCont at hx
    have : (x == 46) = false := by simp; omega
    simp only [List.cons_append, dotsToMidDot, this, Bool.false_eq_true, if_false,
      dots_conts cs r (fun y hy => h y (List.mem_cons_of_mem _ hy))]

/-- `nestedFunctionContext` replaces `.` by the middle dot: still a valid name -/
theorem valid_dots : ∀ {a : Name}, Valid a → Valid (dotsToMidDot a) := by
  intro a ha
  induction ha with
  | nil => exact .nil
  | ascii c r hc _ ih =>
    rw [dotsToMidDot]
    split
    · exact .mid _ ih
    · exact .ascii c _ hc ih
  | dollar l r hl _ ih =>
    have h46 : (l == 46) = false := by unfold isLetter at hl; simp; omega
    simp only [dotsToMidDot, h46, Bool.false_eq_true, if_false]
    have : ((36 : Nat) == 46) = false := by decide
    simp only [this, Bool.false_eq_true, if_false]
    exact .dollar l _ hl ih
  | mid r _ ih =>
    have a : ((0xC2 : Nat) == 46) = false := by decide
    have b : ((0xB7 : Nat) == 46) = false := by decide
    simp only [dotsToMidDot, a, b, Bool.false_eq_true, if_false]
    exact .mid _ ih
  | multi c cs r h1 h2 hl hc hm _ ih =>
    have a : (c == 46) = false := by simp; omega
    simp only [dotsToMidDot, a, Bool.false_eq_true, if_false, dots_conts cs r hc]
    exact .multi c cs _ h1 h2 hl hc hm ih

end GV.Proofs.EncodeInj
