import GV.Model.Sched
import GV.Proofs.ChanInv
/-
  GV.Proofs.SchedInv — the global bookkeeping invariant of the runtime model and its preservation by every event:
  queue entries ↔ sleeping goroutines, the run queue, `$curGoroutine`, `$awakeGoroutines`, `$totalGoroutines`.
-/
namespace GV.Proofs.SchedInv
open GV.Chan GV.Sched GV.Proofs.ChanInv

/-- identity of a queue entry (the JS closure): goroutine + select case index -/
def key (e : Entry) : Nat × Option Nat := (e.gid, e.sel)

/-- send queue (`snd = true`) or receive queue of channel `k` in a channel list -/
def entsC (cs : List Chan) (k : Nat) (snd : Bool) : List Entry :=
  if snd then (cs.getD k Chan.nil).sendQ else (cs.getD k Chan.nil).recvQ

abbrev ents (s : State) (k : Nat) (snd : Bool) : List Entry := entsC s.chans k snd

/-- the communication clause an entry on queue (k, snd) stands for -/
def caseOf (k : Nat) (snd : Bool) (e : Entry) : Case := if snd then .send k e.val else .recv k

/-- the operation `b` a goroutine is suspended in accounts for entry `e` on queue (k, snd) -/
def Match (b : Option Blocked) (k : Nat) (snd : Bool) (e : Entry) : Prop :=
  match b, e.sel with
  | some (.send c v), none => snd = true ∧ c = k ∧ v = e.val
  | some (.recv c), none => snd = false ∧ c = k
  | some (.select cs), some i => cs.getD i .dflt = caseOf k snd e
  | _, _ => False

structure Owned (s : State) (k : Nat) (snd : Bool) (e : Entry) : Prop where
  lt : e.gid < s.gs.length
  asleep : (getG s e.gid).asleep = true
  alive : (getG s e.gid).exit = false
  mtch : Match (getG s e.gid).blocked k snd e

def userTimers (ts : List (Nat × TimerKind)) : Nat := ts.countP fun t => t.2 != .runSched
def awakeCount (gs : List Gor) : Nat := gs.countP fun x => !x.asleep
def aliveCount (gs : List Gor) : Nat := gs.countP fun x => !x.exit

structure GInv (s : State) : Prop where
  own : ∀ k snd e, e ∈ ents s k snd → Owned s k snd e
  nodup : ∀ k snd, ((ents s k snd).map key).Nodup
  sched : ∀ g ∈ s.scheduled, g < s.gs.length ∧ (getG s g).asleep = false ∧ (getG s g).exit = false
  schedNodup : s.scheduled.Nodup
  cur : ∀ g, s.cur = some g → g < s.gs.length ∧ (getG s g).asleep = false ∧ (getG s g).exit = false ∧ g ∉ s.scheduled
  awake : s.awake = ((awakeCount s.gs + userTimers s.timers : Nat) : Int)
  total : s.total = ((aliveCount s.gs : Nat) : Int)

/-! ### goroutine table access -/

theorem getG_def (s : State) (g : Nat) : getG s g = s.gs.getD g dfltGor := rfl

theorem getD_setG (gs : List Gor) (g i : Nat) (x : Gor) :
    (gs.set g x).getD i dfltGor = if g = i ∧ g < gs.length then x else gs.getD i dfltGor := by
  simp only [List.getD_eq_getElem?_getD, List.getElem?_set]
  by_cases h : g = i
  · subst h
    by_cases h2 : g < gs.length
    · simp [h2]
    · simp [h2]
  · simp [h]

theorem getD_eq_getElem (gs : List Gor) (g : Nat) (h : g < gs.length) : gs.getD g dfltGor = gs[g] := by
  simp [List.getD_eq_getElem?_getD, List.getElem?_eq_getElem h]

theorem awakeCount_set (gs : List Gor) (g : Nat) (x : Gor) (h : g < gs.length) :
    awakeCount (gs.set g x) + (if (gs.getD g dfltGor).asleep then 0 else 1) = awakeCount gs + (if x.asleep then 0 else 1) := by
  unfold awakeCount
  rw [List.countP_set h, getD_eq_getElem gs g h]
  have hpos : (gs[g].asleep = false) → 0 < List.countP (fun x => !x.asleep) gs := by
    intro hh; apply List.countP_pos_iff.mpr; exact ⟨gs[g], List.getElem_mem h, by simp [hh]⟩
  cases h1 : gs[g].asleep <;> cases h2 : x.asleep <;> simp <;> have := hpos h1 <;> omega

theorem aliveCount_set (gs : List Gor) (g : Nat) (x : Gor) (h : g < gs.length) :
    aliveCount (gs.set g x) + (if (gs.getD g dfltGor).exit then 0 else 1) = aliveCount gs + (if x.exit then 0 else 1) := by
  unfold aliveCount
  rw [List.countP_set h, getD_eq_getElem gs g h]
  have hpos : (gs[g].exit = false) → 0 < List.countP (fun x => !x.exit) gs := by
    intro hh; apply List.countP_pos_iff.mpr; exact ⟨gs[g], List.getElem_mem h, by simp [hh]⟩
  cases h1 : gs[g].exit <;> cases h2 : x.exit <;> simp <;> have := hpos h1 <;> omega

/-! ### entries -/

theorem entsC_set (cs : List Chan) (c k : Nat) (snd : Bool) (x : Chan) :
    entsC (cs.set c x) k snd = if c = k ∧ c < cs.length then (if snd then x.sendQ else x.recvQ) else entsC cs k snd := by
  unfold entsC; rw [getD_set]; split <;> split <;> rfl

theorem entsC_shrinks {cs cs' : List Chan} (h : Shrinks cs cs') (k : Nat) (snd : Bool) :
    (entsC cs' k snd).Sublist (entsC cs k snd) := by
  unfold entsC; cases snd
  · exact (h k).recvQ
  · exact (h k).sendQ

/-- entries exist only on channels of the list -/
theorem entsC_lt {cs : List Chan} {k : Nat} {snd : Bool} {e : Entry} (h : e ∈ entsC cs k snd) : k < cs.length := by
  apply Decidable.byContradiction; intro hn
  have : cs.getD k Chan.nil = Chan.nil := by
    simp [List.getD_eq_getElem?_getD, List.getElem?_eq_none (Nat.le_of_not_lt hn)]
  unfold entsC at h; rw [this] at h; cases snd <;> simp [Chan.nil, Chan.make] at h

/-! ### frame: only the channel list changes, queues shrink -/

theorem GInv.chans_sub {s : State} (h : GInv s) (cs' : List Chan)
    (hsub : ∀ k snd, (entsC cs' k snd).Sublist (ents s k snd)) : GInv { s with chans := cs' } where
  own := fun k snd e he => by
    have := h.own k snd e ((hsub k snd).subset he)
    exact ⟨this.lt, this.asleep, this.alive, this.mtch⟩
  nodup := fun k snd => List.Nodup.sublist ((hsub k snd).map key) (h.nodup k snd)
  sched := h.sched
  schedNodup := h.schedNodup
  cur := h.cur
  awake := h.awake
  total := h.total

theorem GInv.setC_same {s : State} (h : GInv s) (c : Nat) (x : Chan)
    (hs : x.sendQ = (getC s c).sendQ) (hr : x.recvQ = (getC s c).recvQ) : GInv (setC s c x) := by
  apply h.chans_sub
  intro k snd
  rw [entsC_set]; split
  · next hh =>
    rw [← hh.1]; cases snd
    · simp only [Bool.false_eq_true, if_false]; rw [hr]; exact List.Sublist.refl _
    · simp only [if_true]; rw [hs]; exact List.Sublist.refl _
  · exact List.Sublist.refl _

/-! ### `removeFromQueues` removes every entry of the select -/

theorem caseOf_ne_dflt (k : Nat) (snd : Bool) (e : Entry) : caseOf k snd e ≠ .dflt := by
  unfold caseOf; cases snd <;> simp

theorem mem_removeEntry {g i : Nat} {q : List Entry} {e : Entry} (h : e ∈ removeEntry g i q) :
    e ∈ q ∧ ¬(e.gid = g ∧ e.sel = some i) := by
  unfold removeEntry at h
  have := List.mem_filter.mp h
  refine ⟨this.1, ?_⟩
  intro hh; have h2 := this.2; simp [hh.1, hh.2] at h2

theorem removeFromQueues_clears (g : Nat) (all : List Case) : ∀ (rest : List Case) (i : Nat) (cs : List Chan),
    (∀ j, rest.getD j .dflt = all.getD (i + j) .dflt) →
    (∀ k snd e, e ∈ entsC cs k snd → e.gid = g → ∃ j, i ≤ j ∧ e.sel = some j ∧ all.getD j .dflt = caseOf k snd e) →
    ∀ k snd e, e ∈ entsC (removeFromQueues g rest i cs) k snd → e.gid ≠ g := by
  intro rest; induction rest with
  | nil =>
    intro i cs hidx hent k snd e he hg
    obtain ⟨j, hij, _, hc⟩ := hent k snd e he hg
    have := hidx (j - i)
    rw [show i + (j - i) = j by omega, hc] at this
    exact caseOf_ne_dflt k snd e (by simpa using this.symm)
  | cons c rest ih =>
    intro i cs hidx hent k snd e he
    have hidx' : ∀ j, rest.getD j .dflt = all.getD (i + 1 + j) .dflt := by
      intro j; have := hidx (j + 1); simp only [List.getD_cons_succ] at this; rw [this]; congr 1; omega
    have h0 : all.getD i .dflt = c := by have := hidx 0; simpa using this.symm
    cases c with
    | dflt =>
      refine ih (i + 1) cs hidx' ?_ k snd e he
      intro k' snd' e' he' hg'
      obtain ⟨j, hij, hs, hc⟩ := hent k' snd' e' he' hg'
      refine ⟨j, ?_, hs, hc⟩
      apply Nat.lt_of_le_of_ne hij
      intro hji; subst hji; rw [h0] at hc; exact caseOf_ne_dflt _ _ _ hc.symm
    | recv c0 =>
      refine ih (i + 1) _ hidx' ?_ k snd e he
      intro k' snd' e' he' hg'
      rw [entsC_set] at he'
      split at he'
      · next hh =>
        cases snd'
        · simp only [Bool.false_eq_true, if_false] at he'
          have hm := mem_removeEntry he'
          obtain ⟨j, hij, hs, hc⟩ := hent k' false e' (by unfold entsC; simp only [Bool.false_eq_true, if_false]; rw [← hh.1]; exact hm.1) hg'
          refine ⟨j, ?_, hs, hc⟩
          apply Nat.lt_of_le_of_ne hij
          intro hji; subst hji; exact hm.2 ⟨hg', hs⟩
        · simp only [if_true] at he'
          obtain ⟨j, hij, hs, hc⟩ := hent k' true e' (by unfold entsC; simp only [if_true]; rw [← hh.1]; exact he') hg'
          refine ⟨j, ?_, hs, hc⟩
          apply Nat.lt_of_le_of_ne hij
          intro hji; subst hji; rw [h0] at hc; simp [caseOf] at hc
      · next hh =>
        obtain ⟨j, hij, hs, hc⟩ := hent k' snd' e' he' hg'
        refine ⟨j, ?_, hs, hc⟩
        apply Nat.lt_of_le_of_ne hij
        intro hji; subst hji; rw [h0] at hc
        cases snd'
        · simp only [caseOf, Bool.false_eq_true, if_false, Case.recv.injEq] at hc
          exact hh ⟨hc, hc ▸ entsC_lt he'⟩
        · simp [caseOf] at hc
    | send c0 v0 =>
      refine ih (i + 1) _ hidx' ?_ k snd e he
      intro k' snd' e' he' hg'
      rw [entsC_set] at he'
      split at he'
      · next hh =>
        cases snd'
        · simp only [Bool.false_eq_true, if_false] at he'
          obtain ⟨j, hij, hs, hc⟩ := hent k' false e' (by unfold entsC; simp only [Bool.false_eq_true, if_false]; rw [← hh.1]; exact he') hg'
          refine ⟨j, ?_, hs, hc⟩
          apply Nat.lt_of_le_of_ne hij
          intro hji; subst hji; rw [h0] at hc; simp [caseOf] at hc
        · simp only [if_true] at he'
          have hm := mem_removeEntry he'
          obtain ⟨j, hij, hs, hc⟩ := hent k' true e' (by unfold entsC; simp only [if_true]; rw [← hh.1]; exact hm.1) hg'
          refine ⟨j, ?_, hs, hc⟩
          apply Nat.lt_of_le_of_ne hij
          intro hji; subst hji; exact hm.2 ⟨hg', hs⟩
      · next hh =>
        obtain ⟨j, hij, hs, hc⟩ := hent k' snd' e' he' hg'
        refine ⟨j, ?_, hs, hc⟩
        apply Nat.lt_of_le_of_ne hij
        intro hji; subst hji; rw [h0] at hc
        cases snd'
        · simp [caseOf] at hc
        · simp only [caseOf, if_true, Case.send.injEq] at hc
          exact hh ⟨hc.1, hc.1 ▸ entsC_lt he'⟩

/-! ### waking a goroutine -/

theorem wakeG_eq (s : State) (g : Nat) (w : Wake) (cases : List Case)
    (hlt : g < s.gs.length) (hasleep : (getG s g).asleep = true) :
    wakeG s g w cases = { s with chans := removeFromQueues g cases 0 s.chans,
                                 gs := s.gs.set g { getG s g with wake := w, asleep := false },
                                 awake := s.awake + 1, scheduled := s.scheduled ++ [g] } := by
  have ha : s.gs[g].asleep = true := by rw [← getD_eq_getElem s.gs g hlt]; exact hasleep
  unfold wakeG schedule setG getG
  simp [hlt, ha, List.set_set]

theorem getG_set_ne (s : State) (g g' : Nat) (x : Gor) (cs : List Chan) (a : Int) (sc : List Nat) (h : g' ≠ g) :
    getG { s with chans := cs, gs := s.gs.set g x, awake := a, scheduled := sc } g' = getG s g' := by
  simp [getG_def, Ne.symm h]

theorem GInv.wake {s : State} (h : GInv s) (g : Nat) (w : Wake) (cases : List Case)
    (hlt : g < s.gs.length) (hasleep : (getG s g).asleep = true) (halive : (getG s g).exit = false)
    (hent : ∀ k snd e, e ∈ ents s k snd → e.gid = g → ∃ j, e.sel = some j ∧ cases.getD j .dflt = caseOf k snd e) :
    GInv (wakeG s g w cases) := by
  rw [wakeG_eq s g w cases hlt hasleep]
  have hsub : ∀ k snd, (entsC (removeFromQueues g cases 0 s.chans) k snd).Sublist (ents s k snd) :=
    fun k snd => entsC_shrinks (removeFromQueues_shrinks g cases 0 s.chans) k snd
  have hclr : ∀ k snd e, e ∈ entsC (removeFromQueues g cases 0 s.chans) k snd → e.gid ≠ g :=
    removeFromQueues_clears g cases cases 0 s.chans (fun j => by simp)
      (fun k snd e he hg => by obtain ⟨j, h1, h2⟩ := hent k snd e he hg; exact ⟨j, Nat.zero_le _, h1, h2⟩)
  have hgnot : g ∉ s.scheduled := by
    intro hm; have := (h.sched g hm).2.1; rw [hasleep] at this; cases this
  have hself : getG { s with chans := removeFromQueues g cases 0 s.chans,
                             gs := s.gs.set g { getG s g with wake := w, asleep := false },
                             awake := s.awake + 1, scheduled := s.scheduled ++ [g] } g
      = { getG s g with wake := w, asleep := false } := by
    simp [getG_def, getD_setG, hlt]
  refine ⟨?_, ?_, ?_, ?_, ?_, ?_, ?_⟩
  · intro k snd e he
    have hne := hclr k snd e he
    have ho := h.own k snd e ((hsub k snd).subset he)
    have hg := getG_set_ne s g e.gid { getG s g with wake := w, asleep := false }
      (removeFromQueues g cases 0 s.chans) (s.awake + 1) (s.scheduled ++ [g]) hne
    exact ⟨by simpa using ho.lt, by rw [hg]; exact ho.asleep, by rw [hg]; exact ho.alive, by rw [hg]; exact ho.mtch⟩
  · intro k snd; exact List.Nodup.sublist ((hsub k snd).map key) (h.nodup k snd)
  · intro g' hg'
    rcases List.mem_append.mp hg' with hm | hm
    · have hne : g' ≠ g := fun e => hgnot (e ▸ hm)
      have := h.sched g' hm
      rw [getG_set_ne s g g' _ _ _ _ hne]
      exact ⟨by simpa using this.1, this.2⟩
    · have : g' = g := by simpa using hm
      subst this
      rw [hself]; exact ⟨by simpa using hlt, rfl, halive⟩
  · exact List.nodup_append.mpr ⟨h.schedNodup, by simp, fun a ha b hb => by
      have : b = g := by simpa using hb
      subst this; intro e; exact hgnot (e ▸ ha)⟩
  · intro g' hc
    have := h.cur g' hc
    have hne : g' ≠ g := by intro e; subst e; rw [hasleep] at this; cases this.2.1
    rw [getG_set_ne s g g' _ _ _ _ hne]
    refine ⟨by simpa using this.1, this.2.1, this.2.2.1, ?_⟩
    intro hm
    rcases List.mem_append.mp hm with hm | hm
    · exact this.2.2.2 hm
    · exact hne (by simpa using hm)
  · have := awakeCount_set s.gs g { getG s g with wake := w, asleep := false } hlt
    rw [← getG_def, hasleep] at this
    simp only [if_true, Bool.false_eq_true, if_false] at this
    have h0 := h.awake
    show s.awake + 1 = ((awakeCount (s.gs.set g { getG s g with wake := w, asleep := false }) + userTimers s.timers : Nat) : Int)
    omega
  · have := aliveCount_set s.gs g { getG s g with wake := w, asleep := false } hlt
    rw [← getG_def] at this
    simp only [halive, Bool.false_eq_true, if_false] at this
    have h0 := h.total
    show s.total = ((aliveCount (s.gs.set g { getG s g with wake := w, asleep := false }) : Nat) : Int)
    omega

end GV.Proofs.SchedInv
