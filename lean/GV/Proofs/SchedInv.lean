import GV.Model.Sched
import GV.Proofs.ChanInv
/-
  GV.Proofs.SchedInv — the global bookkeeping invariant of the runtime model and its preservation by every event:
  queue entries ↔ sleeping goroutines, the run queue, `$curGoroutine`, `$awakeGoroutines`, `$totalGoroutines`.
-/
namespace GV.Proofs.SchedInv
open GV.Chan GV.Sched GV.Proofs.ChanInv

/-- identity of a queue entry (the JS closure): goroutine + select case index -/
def key (e : Entry) : Nat × Option Nat := (e.gid, e.sel)

/-- send queue (`snd = true`) or receive queue of channel `k` in a channel list -/
def entsC (cs : List Chan) (k : Nat) (snd : Bool) : List Entry :=
  if snd then (cs.getD k Chan.nil).sendQ else (cs.getD k Chan.nil).recvQ

abbrev ents (s : State) (k : Nat) (snd : Bool) : List Entry := entsC s.chans k snd

/-- the communication clause an entry on queue (k, snd) stands for -/
def caseOf (k : Nat) (snd : Bool) (e : Entry) : Case := if snd then .send k e.val else .recv k

/-- the operation `b` a goroutine is suspended in accounts for entry `e` on queue (k, snd) -/
def Match (b : Option Blocked) (k : Nat) (snd : Bool) (e : Entry) : Prop :=
  match b, e.sel with
  | some (.send c v), none => snd = true ∧ c = k ∧ v = e.val
  | some (.recv c), none => snd = false ∧ c = k
  | some (.select cs), some i => cs.getD i .dflt = caseOf k snd e
  | _, _ => False

structure Owned (s : State) (k : Nat) (snd : Bool) (e : Entry) : Prop where
  lt : e.gid < s.gs.length
  asleep : (getG s e.gid).asleep = true
  alive : (getG s e.gid).exit = false
  mtch : Match (getG s e.gid).blocked k snd e

def userTimers (ts : List (Nat × TimerKind)) : Nat := ts.countP fun t => t.2 != .runSched
def awakeCount (gs : List Gor) : Nat := gs.countP fun x => !x.asleep
def aliveCount (gs : List Gor) : Nat := gs.countP fun x => !x.exit

structure GInv (s : State) : Prop where
  own : ∀ k snd e, e ∈ ents s k snd → Owned s k snd e
  nodup : ∀ k snd, ((ents s k snd).map key).Nodup
  sched : ∀ g ∈ s.scheduled, g < s.gs.length ∧ (getG s g).asleep = false ∧ (getG s g).exit = false
  schedNodup : s.scheduled.Nodup
  cur : ∀ g, s.cur = some g → g < s.gs.length ∧ (getG s g).asleep = false ∧ (getG s g).exit = false ∧ g ∉ s.scheduled
  awake : s.awake = ((awakeCount s.gs + userTimers s.timers : Nat) : Int)
  total : s.total = ((aliveCount s.gs : Nat) : Int)

/-! ### goroutine table access -/

theorem getG_def (s : State) (g : Nat) : getG s g = s.gs.getD g dfltGor := rfl

theorem getD_setG (gs : List Gor) (g i : Nat) (x : Gor) :
    (gs.set g x).getD i dfltGor = if g = i ∧ g < gs.length then x else gs.getD i dfltGor := by
  simp only [List.getD_eq_getElem?_getD, List.getElem?_set]
  by_cases h : g = i
  · subst h
    by_cases h2 : g < gs.length
    · simp [h2]
    · simp [h2]
  · simp [h]

theorem getD_eq_getElem (gs : List Gor) (g : Nat) (h : g < gs.length) : gs.getD g dfltGor = gs[g] := by
  simp [List.getD_eq_getElem?_getD, List.getElem?_eq_getElem h]

theorem awakeCount_set (gs : List Gor) (g : Nat) (x : Gor) (h : g < gs.length) :
    awakeCount (gs.set g x) + (if (gs.getD g dfltGor).asleep then 0 else 1) = awakeCount gs + (if x.asleep then 0 else 1) := by
  unfold awakeCount
  rw [List.countP_set h, getD_eq_getElem gs g h]
  have hpos : (gs[g].asleep = false) → 0 < List.countP (fun x => !x.asleep) gs := by
    intro hh; apply List.countP_pos_iff.mpr; exact ⟨gs[g], List.getElem_mem h, by simp [hh]⟩
  cases h1 : gs[g].asleep <;> cases h2 : x.asleep <;> simp <;> have := hpos h1 <;> omega

theorem aliveCount_set (gs : List Gor) (g : Nat) (x : Gor) (h : g < gs.length) :
    aliveCount (gs.set g x) + (if (gs.getD g dfltGor).exit then 0 else 1) = aliveCount gs + (if x.exit then 0 else 1) := by
  unfold aliveCount
  rw [List.countP_set h, getD_eq_getElem gs g h]
  have hpos : (gs[g].exit = false) → 0 < List.countP (fun x => !x.exit) gs := by
    intro hh; apply List.countP_pos_iff.mpr; exact ⟨gs[g], List.getElem_mem h, by simp [hh]⟩
  cases h1 : gs[g].exit <;> cases h2 : x.exit <;> simp <;> have := hpos h1 <;> omega

theorem awake_wake (gs : List Gor) (g : Nat) (x : Gor) (h : g < gs.length)
    (h1 : (gs.getD g dfltGor).asleep = true) (h2 : x.asleep = false) : awakeCount (gs.set g x) = awakeCount gs + 1 := by
  have := awakeCount_set gs g x h; rw [h1, h2] at this; simpa using this
theorem awake_sleep (gs : List Gor) (g : Nat) (x : Gor) (h : g < gs.length)
    (h1 : (gs.getD g dfltGor).asleep = false) (h2 : x.asleep = true) : awakeCount (gs.set g x) + 1 = awakeCount gs := by
  have := awakeCount_set gs g x h; rw [h1, h2] at this; simpa using this
theorem awake_same (gs : List Gor) (g : Nat) (x : Gor) (h : g < gs.length)
    (h1 : x.asleep = (gs.getD g dfltGor).asleep) : awakeCount (gs.set g x) = awakeCount gs := by
  have := awakeCount_set gs g x h; rw [h1] at this; omega
theorem alive_same (gs : List Gor) (g : Nat) (x : Gor) (h : g < gs.length)
    (h1 : x.exit = (gs.getD g dfltGor).exit) : aliveCount (gs.set g x) = aliveCount gs := by
  have := aliveCount_set gs g x h; rw [h1] at this; omega
theorem alive_exit (gs : List Gor) (g : Nat) (x : Gor) (h : g < gs.length)
    (h1 : (gs.getD g dfltGor).exit = false) (h2 : x.exit = true) : aliveCount (gs.set g x) + 1 = aliveCount gs := by
  have := aliveCount_set gs g x h; rw [h1, h2] at this; simpa using this

/-! ### entries -/

theorem entsC_set (cs : List Chan) (c k : Nat) (snd : Bool) (x : Chan) :
    entsC (cs.set c x) k snd = if c = k ∧ c < cs.length then (if snd then x.sendQ else x.recvQ) else entsC cs k snd := by
  unfold entsC; rw [getD_set]; split <;> split <;> rfl

theorem entsC_shrinks {cs cs' : List Chan} (h : Shrinks cs cs') (k : Nat) (snd : Bool) :
    (entsC cs' k snd).Sublist (entsC cs k snd) := by
  unfold entsC; cases snd
  · exact (h k).recvQ
  · exact (h k).sendQ

/-- entries exist only on channels of the list -/
theorem entsC_lt {cs : List Chan} {k : Nat} {snd : Bool} {e : Entry} (h : e ∈ entsC cs k snd) : k < cs.length := by
  apply Decidable.byContradiction; intro hn
  have : cs.getD k Chan.nil = Chan.nil := by
    simp [List.getD_eq_getElem?_getD, List.getElem?_eq_none (Nat.le_of_not_lt hn)]
  unfold entsC at h; rw [this] at h; cases snd <;> simp [Chan.nil, Chan.make] at h

/-! ### frame: only the channel list changes, queues shrink -/

theorem GInv.chans_sub {s : State} (h : GInv s) (cs' : List Chan)
    (hsub : ∀ k snd, (entsC cs' k snd).Sublist (ents s k snd)) : GInv { s with chans := cs' } where
  own := fun k snd e he => by
    have := h.own k snd e ((hsub k snd).subset he)
    exact ⟨this.lt, this.asleep, this.alive, this.mtch⟩
  nodup := fun k snd => List.Nodup.sublist ((hsub k snd).map key) (h.nodup k snd)
  sched := h.sched
  schedNodup := h.schedNodup
  cur := h.cur
  awake := h.awake
  total := h.total

theorem GInv.setC_same {s : State} (h : GInv s) (c : Nat) (x : Chan)
    (hs : x.sendQ = (getC s c).sendQ) (hr : x.recvQ = (getC s c).recvQ) : GInv (setC s c x) := by
  apply h.chans_sub
  intro k snd
  rw [entsC_set]; split
  · next hh =>
    rw [← hh.1]; cases snd
    · simp only [Bool.false_eq_true, if_false]; rw [hr]; exact List.Sublist.refl _
    · simp only [if_true]; rw [hs]; exact List.Sublist.refl _
  · exact List.Sublist.refl _

/-! ### `removeFromQueues` removes every entry of the select -/

theorem caseOf_ne_dflt (k : Nat) (snd : Bool) (e : Entry) : caseOf k snd e ≠ .dflt := by
  unfold caseOf; cases snd <;> simp

theorem mem_removeEntry {g i : Nat} {q : List Entry} {e : Entry} (h : e ∈ removeEntry g i q) :
    e ∈ q ∧ ¬(e.gid = g ∧ e.sel = some i) := by
  unfold removeEntry at h
  have := List.mem_filter.mp h
  refine ⟨this.1, ?_⟩
  intro hh; have h2 := this.2; simp [hh.1, hh.2] at h2

theorem removeFromQueues_clears (g : Nat) (all : List Case) : ∀ (rest : List Case) (i : Nat) (cs : List Chan),
    (∀ j, rest.getD j .dflt = all.getD (i + j) .dflt) →
    (∀ k snd e, e ∈ entsC cs k snd → e.gid = g → ∃ j, i ≤ j ∧ e.sel = some j ∧ all.getD j .dflt = caseOf k snd e) →
    ∀ k snd e, e ∈ entsC (removeFromQueues g rest i cs) k snd → e.gid ≠ g := by
  intro rest; induction rest with
  | nil =>
    intro i cs hidx hent k snd e he hg
    obtain ⟨j, hij, _, hc⟩ := hent k snd e he hg
    have := hidx (j - i)
    rw [show i + (j - i) = j by omega, hc] at this
    exact caseOf_ne_dflt k snd e (by simpa using this.symm)
  | cons c rest ih =>
    intro i cs hidx hent k snd e he
    have hidx' : ∀ j, rest.getD j .dflt = all.getD (i + 1 + j) .dflt := by
      intro j; have := hidx (j + 1); simp only [List.getD_cons_succ] at this; rw [this]; congr 1; omega
    have h0 : all.getD i .dflt = c := by have := hidx 0; simpa using this.symm
    cases c with
    | dflt =>
      refine ih (i + 1) cs hidx' ?_ k snd e he
      intro k' snd' e' he' hg'
      obtain ⟨j, hij, hs, hc⟩ := hent k' snd' e' he' hg'
      refine ⟨j, ?_, hs, hc⟩
      apply Nat.lt_of_le_of_ne hij
      intro hji; subst hji; rw [h0] at hc; exact caseOf_ne_dflt _ _ _ hc.symm
    | recv c0 =>
      refine ih (i + 1) _ hidx' ?_ k snd e he
      intro k' snd' e' he' hg'
      rw [entsC_set] at he'
      split at he'
      · next hh =>
        cases snd'
        · simp only [Bool.false_eq_true, if_false] at he'
          have hm := mem_removeEntry he'
          obtain ⟨j, hij, hs, hc⟩ := hent k' false e' (by unfold entsC; simp only [Bool.false_eq_true, if_false]; rw [← hh.1]; exact hm.1) hg'
          refine ⟨j, ?_, hs, hc⟩
          apply Nat.lt_of_le_of_ne hij
          intro hji; subst hji; exact hm.2 ⟨hg', hs⟩
        · simp only [if_true] at he'
          obtain ⟨j, hij, hs, hc⟩ := hent k' true e' (by unfold entsC; simp only [if_true]; rw [← hh.1]; exact he') hg'
          refine ⟨j, ?_, hs, hc⟩
          apply Nat.lt_of_le_of_ne hij
          intro hji; subst hji; rw [h0] at hc; simp [caseOf] at hc
      · next hh =>
        obtain ⟨j, hij, hs, hc⟩ := hent k' snd' e' he' hg'
        refine ⟨j, ?_, hs, hc⟩
        apply Nat.lt_of_le_of_ne hij
        intro hji; subst hji; rw [h0] at hc
        cases snd'
        · simp only [caseOf, Bool.false_eq_true, if_false, Case.recv.injEq] at hc
          exact hh ⟨hc, hc ▸ entsC_lt he'⟩
        · simp [caseOf] at hc
    | send c0 v0 =>
      refine ih (i + 1) _ hidx' ?_ k snd e he
      intro k' snd' e' he' hg'
      rw [entsC_set] at he'
      split at he'
      · next hh =>
        cases snd'
        · simp only [Bool.false_eq_true, if_false] at he'
          obtain ⟨j, hij, hs, hc⟩ := hent k' false e' (by unfold entsC; simp only [Bool.false_eq_true, if_false]; rw [← hh.1]; exact he') hg'
          refine ⟨j, ?_, hs, hc⟩
          apply Nat.lt_of_le_of_ne hij
          intro hji; subst hji; rw [h0] at hc; simp [caseOf] at hc
        · simp only [if_true] at he'
          have hm := mem_removeEntry he'
          obtain ⟨j, hij, hs, hc⟩ := hent k' true e' (by unfold entsC; simp only [if_true]; rw [← hh.1]; exact hm.1) hg'
          refine ⟨j, ?_, hs, hc⟩
          apply Nat.lt_of_le_of_ne hij
          intro hji; subst hji; exact hm.2 ⟨hg', hs⟩
      · next hh =>
        obtain ⟨j, hij, hs, hc⟩ := hent k' snd' e' he' hg'
        refine ⟨j, ?_, hs, hc⟩
        apply Nat.lt_of_le_of_ne hij
        intro hji; subst hji; rw [h0] at hc
        cases snd'
        · simp [caseOf] at hc
        · simp only [caseOf, if_true, Case.send.injEq] at hc
          exact hh ⟨hc.1, hc.1 ▸ entsC_lt he'⟩

/-! ### waking a goroutine -/

theorem wakeG_eq (s : State) (g : Nat) (w : Wake) (cases : List Case)
    (hlt : g < s.gs.length) (hasleep : (getG s g).asleep = true) :
    wakeG s g w cases = { s with chans := removeFromQueues g cases 0 s.chans,
                                 gs := s.gs.set g { getG s g with wake := w, asleep := false },
                                 awake := s.awake + 1, scheduled := s.scheduled ++ [g] } := by
  have ha : s.gs[g].asleep = true := by rw [← getD_eq_getElem s.gs g hlt]; exact hasleep
  unfold wakeG schedule setG getG
  simp [hlt, ha, List.set_set]

theorem getG_set_ne (s : State) (g g' : Nat) (x : Gor) (cs : List Chan) (a : Int) (sc : List Nat) (h : g' ≠ g) :
    getG { s with chans := cs, gs := s.gs.set g x, awake := a, scheduled := sc } g' = getG s g' := by
  simp [getG_def, Ne.symm h]

theorem GInv.wake {s : State} (h : GInv s) (g : Nat) (w : Wake) (cases : List Case)
    (hlt : g < s.gs.length) (hasleep : (getG s g).asleep = true) (halive : (getG s g).exit = false)
    (hent : ∀ k snd e, e ∈ ents s k snd → e.gid = g → ∃ j, e.sel = some j ∧ cases.getD j .dflt = caseOf k snd e) :
    GInv (wakeG s g w cases) := by
  rw [wakeG_eq s g w cases hlt hasleep]
  have hsub : ∀ k snd, (entsC (removeFromQueues g cases 0 s.chans) k snd).Sublist (ents s k snd) :=
    fun k snd => entsC_shrinks (removeFromQueues_shrinks g cases 0 s.chans) k snd
  have hclr : ∀ k snd e, e ∈ entsC (removeFromQueues g cases 0 s.chans) k snd → e.gid ≠ g :=
    removeFromQueues_clears g cases cases 0 s.chans (fun j => by simp)
      (fun k snd e he hg => by obtain ⟨j, h1, h2⟩ := hent k snd e he hg; exact ⟨j, Nat.zero_le _, h1, h2⟩)
  have hgnot : g ∉ s.scheduled := by
    intro hm; have := (h.sched g hm).2.1; rw [hasleep] at this; cases this
  have hself : getG { s with chans := removeFromQueues g cases 0 s.chans,
                             gs := s.gs.set g { getG s g with wake := w, asleep := false },
                             awake := s.awake + 1, scheduled := s.scheduled ++ [g] } g
      = { getG s g with wake := w, asleep := false } := by
    simp [getG_def, hlt]
  refine ⟨?_, ?_, ?_, ?_, ?_, ?_, ?_⟩
  · intro k snd e he
    have hne := hclr k snd e he
    have ho := h.own k snd e ((hsub k snd).subset he)
    have hg := getG_set_ne s g e.gid { getG s g with wake := w, asleep := false }
      (removeFromQueues g cases 0 s.chans) (s.awake + 1) (s.scheduled ++ [g]) hne
    exact ⟨by simpa using ho.lt, by rw [hg]; exact ho.asleep, by rw [hg]; exact ho.alive, by rw [hg]; exact ho.mtch⟩
  · intro k snd; exact List.Nodup.sublist ((hsub k snd).map key) (h.nodup k snd)
  · intro g' hg'
    rcases List.mem_append.mp hg' with hm | hm
    · have hne : g' ≠ g := fun e => hgnot (e ▸ hm)
      have := h.sched g' hm
      rw [getG_set_ne s g g' _ _ _ _ hne]
      exact ⟨by simpa using this.1, this.2⟩
    · have : g' = g := by simpa using hm
      subst this
      rw [hself]; exact ⟨by simpa using hlt, rfl, halive⟩
  · exact List.nodup_append.mpr ⟨h.schedNodup, by simp, fun a ha b hb => by
      have : b = g := by simpa using hb
      subst this; intro e; exact hgnot (e ▸ ha)⟩
  · intro g' hc
    have := h.cur g' hc
    have hne : g' ≠ g := by intro e; subst e; rw [hasleep] at this; cases this.2.1
    rw [getG_set_ne s g g' _ _ _ _ hne]
    refine ⟨by simpa using this.1, this.2.1, this.2.2.1, ?_⟩
    intro hm
    rcases List.mem_append.mp hm with hm | hm
    · exact this.2.2.2 hm
    · exact hne (by simpa using hm)
  · show s.awake + 1 = ((awakeCount (s.gs.set g { getG s g with wake := w, asleep := false }) + userTimers s.timers : Nat) : Int)
    rw [awake_wake s.gs g { getG s g with wake := w, asleep := false } hlt hasleep rfl, h.awake]; omega
  · show s.total = ((aliveCount (s.gs.set g { getG s g with wake := w, asleep := false }) : Nat) : Int)
    rw [alive_same s.gs g { getG s g with wake := w, asleep := false } hlt rfl, h.total]

/-- the head entry `e` of queue (k, snd) is shifted off and called -/
theorem GInv.fire {s : State} (h : GInv s) (k : Nat) (snd : Bool) (e : Entry) (rest : List Entry)
    (hq : ents s k snd = e :: rest) (cs1 : List Chan)
    (h1 : entsC cs1 k snd = rest)
    (h2 : ∀ k' snd', ¬(k' = k ∧ snd' = snd) → entsC cs1 k' snd' = ents s k' snd') (w : Wake) :
    GInv (wakeG { s with chans := cs1 } e.gid w (match e.sel with | none => [] | some _ => selectCases s e.gid)) := by
  have hsub : ∀ k' snd', (entsC cs1 k' snd').Sublist (ents s k' snd') := by
    intro k' snd'
    by_cases hh : k' = k ∧ snd' = snd
    · rw [hh.1, hh.2, h1, hq]; exact List.sublist_cons_self _ _
    · rw [h2 k' snd' hh]; exact List.Sublist.refl _
  have hs1 : GInv { s with chans := cs1 } := h.chans_sub cs1 hsub
  have ho := h.own k snd e (by rw [hq]; simp)
  apply hs1.wake e.gid w _ ho.lt ho.asleep ho.alive
  intro k' snd' e' he' hg'
  have he0 : e' ∈ ents s k' snd' := (hsub k' snd').subset he'
  have ho' := h.own k' snd' e' he0
  have hm := ho.mtch
  have hm' := ho'.mtch
  rw [hg'] at hm'
  cases hsel : e.sel with
  | none =>
    exfalso
    -- a plain entry: the goroutine has exactly this one entry
    have hsame : k' = k ∧ snd' = snd ∧ e'.sel = none := by
      cases hb : (getG s e.gid).blocked with
      | none => simp [Match, hb] at hm
      | some b =>
        cases b with
        | send c v =>
          simp only [Match, hb, hsel] at hm
          cases hs' : e'.sel with
          | none => simp only [Match, hb, hs'] at hm'; exact ⟨hm'.2.1 ▸ hm.2.1.symm ▸ rfl, hm'.1.trans hm.1.symm, rfl⟩
          | some j => simp [Match, hb, hs'] at hm'
        | recv c =>
          simp only [Match, hb, hsel] at hm
          cases hs' : e'.sel with
          | none => simp only [Match, hb, hs'] at hm'; exact ⟨hm'.2 ▸ hm.2.symm ▸ rfl, hm'.1.trans hm.1.symm, rfl⟩
          | some j => simp [Match, hb, hs'] at hm'
        | select cs => simp [Match, hb, hsel] at hm
    obtain ⟨hk, hsn, hs'⟩ := hsame
    subst hk; subst hsn
    have he' : e' ∈ entsC cs1 k' snd' := he'
    rw [h1] at he'
    have hnd := h.nodup k' snd'
    rw [hq, List.map_cons, List.nodup_cons] at hnd
    apply hnd.1
    have : key e = key e' := by unfold key; rw [hg', hsel, hs']
    rw [this]; exact List.mem_map_of_mem he'
  | some i =>
    simp only
    cases hb : (getG s e.gid).blocked with
    | none => simp [Match, hb] at hm
    | some b =>
      cases b with
      | send c v => simp [Match, hb, hsel] at hm
      | recv c => simp [Match, hb, hsel] at hm
      | select cs =>
        have hsc : selectCases s e.gid = cs := by simp [selectCases, hb]
        rw [hsc]
        cases hs' : e'.sel with
        | none => simp [Match, hb, hs'] at hm'
        | some j => simp only [Match, hb, hs'] at hm'; exact ⟨j, rfl, hm'⟩

/-! ### a goroutine goes to sleep / exits -/

/-- the loop test after a goroutine handed control back -/
def loopTail (u : State) : State := if u.scheduled.isEmpty then endLoop u else u

theorem userTimers_endLoop (ts : List (Nat × TimerKind)) (id : Nat) :
    userTimers (ts.filter fun t => !(t.1 == id && t.2 == TimerKind.runSched)) = userTimers ts := by
  unfold userTimers
  rw [List.countP_filter]
  congr 1; funext t
  cases h : t.2 <;> simp [h]

theorem GInv.endLoop' {u : State} (h : GInv u) : GInv (GV.Sched.endLoop u) where
  own := fun k snd e he => by
    have := h.own k snd e he
    exact ⟨this.lt, this.asleep, this.alive, this.mtch⟩
  nodup := h.nodup
  sched := h.sched
  schedNodup := h.schedNodup
  cur := h.cur
  awake := by
    show u.awake = ((awakeCount u.gs + userTimers (u.timers.filter fun t => !(t.1 == u.loopTimer && t.2 == TimerKind.runSched)) : Nat) : Int)
    rw [userTimers_endLoop]; exact h.awake
  total := h.total

theorem GInv.tail {u : State} (h : GInv u) : GInv (loopTail u) := by
  unfold loopTail; split
  · exact h.endLoop'
  · exact h

/-- the report of goroutines.js:153-158 -/
def deadlocksAfter (t : State) : Nat :=
  if !t.mainFinished && t.awake - 1 == 0 then t.deadlocks + 1 else t.deadlocks

theorem endSlice_sleep (t : State) (g : Nat) (hlt : g < t.gs.length) (he : (getG t g).exit = false)
    (ha : (getG t g).asleep = true) :
    endSlice t g = loopTail { t with cur := none, awake := t.awake - 1, deadlocks := deadlocksAfter t } := by
  unfold endSlice loopTail deadlocksAfter
  simp only [he, Bool.false_eq_true, if_false]
  have : (getG { t with cur := none } g).asleep = true := ha
  simp only [this, if_true]

theorem endSlice_sleep_fields (t : State) (g : Nat) (hlt : g < t.gs.length) (he : (getG t g).exit = false)
    (ha : (getG t g).asleep = true) :
    (endSlice t g).deadlocks = deadlocksAfter t ∧ (endSlice t g).awake = t.awake - 1 ∧ (endSlice t g).gs = t.gs ∧
    (endSlice t g).mainFinished = t.mainFinished := by
  rw [endSlice_sleep t g hlt he ha]
  unfold loopTail; split <;> exact ⟨rfl, rfl, rfl, rfl⟩

theorem endSlice_exit (t : State) (g : Nat) (hlt : g < t.gs.length) (he : (getG t g).exit = true) :
    endSlice t g = loopTail { t with cur := none, gs := t.gs.set g { getG t g with asleep := true },
                                     total := t.total - 1, awake := t.awake - 1, deadlocks := deadlocksAfter t } := by
  have he' : t.gs[g].exit = true := by rw [← getD_eq_getElem t.gs g hlt]; exact he
  unfold endSlice loopTail deadlocksAfter
  simp [getG_def, setG, he', hlt]

theorem getG_set_ne' (gs : List Gor) (g g' : Nat) (x : Gor) (h : g' ≠ g) :
    (gs.set g x).getD g' dfltGor = gs.getD g' dfltGor := by
  rw [getD_setG]; simp [Ne.symm h]

/-- the running goroutine `g` registers the entries of operation `b` and goes to sleep -/
theorem GInv.block {s : State} (h : GInv s) (g : Nat) (hc : s.cur = some g) (b : Blocked) (cs' : List Chan)
    (hnew : ∀ k snd e, e ∈ entsC cs' k snd → e ∈ ents s k snd ∨ (e.gid = g ∧ Match (some b) k snd e))
    (hnd : ∀ k snd, ((entsC cs' k snd).map key).Nodup) :
    GInv (block { s with chans := cs' } g b) := by
  obtain ⟨hlt, hawake, halive, hns⟩ := h.cur g hc
  have heq : ∃ d, GV.Sched.block { s with chans := cs' } g b
      = loopTail { s with chans := cs', gs := s.gs.set g { getG s g with asleep := true, blocked := some b },
                          cur := none, awake := s.awake - 1, deadlocks := d } := by
    unfold GV.Sched.block
    have hx : getG (setG { s with chans := cs' } g { getG { s with chans := cs' } g with asleep := true, blocked := some b }) g
        = { getG s g with asleep := true, blocked := some b } := by
      simp [getG_def, setG, hlt]
    rw [endSlice_sleep _ g (by simpa [setG] using hlt) (by rw [hx]; exact halive) (by rw [hx])]
    exact ⟨_, rfl⟩
  obtain ⟨d, heq⟩ := heq
  rw [heq]
  apply GInv.tail
  refine ⟨?_, ?_, ?_, ?_, ?_, ?_, ?_⟩
  · intro k snd e he
    rcases hnew k snd e he with hold | ⟨hg, hm⟩
    · have ho := h.own k snd e hold
      have hne : e.gid ≠ g := by intro e'; have hh := ho.asleep; rw [e', hawake] at hh; cases hh
      have hgg : (s.gs.set g { getG s g with asleep := true, blocked := some b }).getD e.gid dfltGor = getG s e.gid :=
        getG_set_ne' _ _ _ _ hne
      exact ⟨by simpa [setG] using ho.lt, by show ((s.gs.set g _).getD e.gid dfltGor).asleep = true; rw [hgg]; exact ho.asleep,
             by show ((s.gs.set g _).getD e.gid dfltGor).exit = false; rw [hgg]; exact ho.alive,
             by show Match ((s.gs.set g _).getD e.gid dfltGor).blocked k snd e; rw [hgg]; exact ho.mtch⟩
    · have hgg : (s.gs.set g { getG s g with asleep := true, blocked := some b }).getD e.gid dfltGor
          = { getG s g with asleep := true, blocked := some b } := by rw [hg, getD_setG]; simp [hlt]
      exact ⟨by simpa [setG, hg] using hlt, by show ((s.gs.set g _).getD e.gid dfltGor).asleep = true; rw [hgg],
             by show ((s.gs.set g _).getD e.gid dfltGor).exit = false; rw [hgg]; exact halive,
             by show Match ((s.gs.set g _).getD e.gid dfltGor).blocked k snd e; rw [hgg]; exact hm⟩
  · exact hnd
  · intro g' hg'
    have := h.sched g' hg'
    have hne : g' ≠ g := fun e => hns (e ▸ hg')
    have hgg : (s.gs.set g { getG s g with asleep := true, blocked := some b }).getD g' dfltGor = getG s g' :=
      getG_set_ne' _ _ _ _ hne
    exact ⟨by simpa [setG] using this.1, by show ((s.gs.set g _).getD g' dfltGor).asleep = false; rw [hgg]; exact this.2.1,
           by show ((s.gs.set g _).getD g' dfltGor).exit = false; rw [hgg]; exact this.2.2⟩
  · exact h.schedNodup
  · intro g' hcur; cases hcur
  · show s.awake - 1 = ((awakeCount (s.gs.set g { getG s g with asleep := true, blocked := some b }) + userTimers s.timers : Nat) : Int)
    have := awake_sleep s.gs g { getG s g with asleep := true, blocked := some b } hlt hawake rfl
    rw [h.awake]; omega
  · show s.total = ((aliveCount (s.gs.set g { getG s g with asleep := true, blocked := some b }) : Nat) : Int)
    rw [alive_same s.gs g { getG s g with asleep := true, blocked := some b } hlt rfl, h.total]

/-- frame: the goroutine table changes only at `g`, which owns no queue entry and is not scheduled -/
theorem own_frame {s : State} (h : GInv s) (g : Nat) (x : Gor) (hawake : (getG s g).asleep = false)
    (k : Nat) (snd : Bool) (e : Entry) (he : e ∈ ents s k snd) :
    e.gid < (s.gs.set g x).length ∧ ((s.gs.set g x).getD e.gid dfltGor).asleep = true ∧
    ((s.gs.set g x).getD e.gid dfltGor).exit = false ∧ Match ((s.gs.set g x).getD e.gid dfltGor).blocked k snd e := by
  have ho := h.own k snd e he
  have hne : e.gid ≠ g := by intro e'; have hh := ho.asleep; rw [e', hawake] at hh; cases hh
  rw [getG_set_ne' _ _ _ _ hne]
  exact ⟨by simpa using ho.lt, ho.asleep, ho.alive, ho.mtch⟩

theorem GInv.exit {s : State} (h : GInv s) (g : Nat) (hc : s.cur = some g) :
    GInv (endSlice (setG s g { getG s g with exit := true }) g) := by
  obtain ⟨hlt, hawake, halive, hns⟩ := h.cur g hc
  have heq : ∃ d, endSlice (setG s g { getG s g with exit := true }) g
      = loopTail { s with gs := s.gs.set g { getG s g with exit := true, asleep := true },
                          cur := none, total := s.total - 1, awake := s.awake - 1, deadlocks := d } := by
    have hx : getG (setG s g { getG s g with exit := true }) g = { getG s g with exit := true } := by
      simp [getG_def, setG, hlt]
    rw [endSlice_exit _ g (by simpa [setG] using hlt) (by rw [hx])]
    refine ⟨deadlocksAfter (setG s g { getG s g with exit := true }), ?_⟩
    rw [hx]; simp [setG, List.set_set]
  obtain ⟨d, heq⟩ := heq
  rw [heq]
  apply GInv.tail
  refine ⟨?_, h.nodup, ?_, h.schedNodup, ?_, ?_, ?_⟩
  · intro k snd e he
    have := own_frame h g { getG s g with exit := true, asleep := true } hawake k snd e he
    exact ⟨this.1, this.2.1, this.2.2.1, this.2.2.2⟩
  · intro g' hg'
    have := h.sched g' hg'
    have hne : g' ≠ g := fun e => hns (e ▸ hg')
    have hgg := getG_set_ne' s.gs g g' { getG s g with exit := true, asleep := true } hne
    exact ⟨by simpa using this.1, by show ((s.gs.set g _).getD g' dfltGor).asleep = false; rw [hgg]; exact this.2.1,
           by show ((s.gs.set g _).getD g' dfltGor).exit = false; rw [hgg]; exact this.2.2⟩
  · intro g' hcur; cases hcur
  · show s.awake - 1 = ((awakeCount (s.gs.set g { getG s g with exit := true, asleep := true }) + userTimers s.timers : Nat) : Int)
    have := awake_sleep s.gs g { getG s g with exit := true, asleep := true } hlt hawake rfl
    rw [h.awake]; omega
  · show s.total - 1 = ((aliveCount (s.gs.set g { getG s g with exit := true, asleep := true }) : Nat) : Int)
    have := alive_exit s.gs g { getG s g with exit := true, asleep := true } hlt halive rfl
    rw [h.total]; omega

/-- the scheduler runs the head of `$scheduled` -/
theorem GInv.runHead {s : State} (h : GInv s) (g : Nat) (rest : List Nat) (hs : s.scheduled = g :: rest)
    (hcur : s.cur = none) : GInv (GV.Sched.runHead s g rest).1 := by
  have hg := h.sched g (by rw [hs]; simp)
  have hnd := h.schedNodup; rw [hs, List.nodup_cons] at hnd
  show GInv { setG s g { getG s g with wake := .none, blocked := none } with scheduled := rest, cur := some g }
  refine ⟨?_, h.nodup, ?_, hnd.2, ?_, ?_, ?_⟩
  · intro k snd e he
    have := own_frame h g { getG s g with wake := .none, blocked := none } hg.2.1 k snd e he
    exact ⟨this.1, this.2.1, this.2.2.1, this.2.2.2⟩
  · intro g' hg'
    have := h.sched g' (by rw [hs]; simp [hg'])
    have hne : g' ≠ g := fun e => hnd.1 (e ▸ hg')
    have hgg := getG_set_ne' s.gs g g' { getG s g with wake := .none, blocked := none } hne
    exact ⟨by simpa [setG] using this.1, by show ((s.gs.set g _).getD g' dfltGor).asleep = false; rw [hgg]; exact this.2.1,
           by show ((s.gs.set g _).getD g' dfltGor).exit = false; rw [hgg]; exact this.2.2⟩
  · intro g' hc
    have : g' = g := by simpa using hc.symm
    subst this
    have hgg : (s.gs.set g' { getG s g' with wake := .none, blocked := none }).getD g' dfltGor
        = { getG s g' with wake := .none, blocked := none } := by rw [getD_setG]; simp [hg.1]
    exact ⟨by simpa [setG] using hg.1, by show ((s.gs.set g' _).getD g' dfltGor).asleep = false; rw [hgg]; exact hg.2.1,
           by show ((s.gs.set g' _).getD g' dfltGor).exit = false; rw [hgg]; exact hg.2.2, hnd.1⟩
  · show s.awake = ((awakeCount (s.gs.set g { getG s g with wake := .none, blocked := none }) + userTimers s.timers : Nat) : Int)
    rw [awake_same s.gs g { getG s g with wake := .none, blocked := none } hg.1 rfl]; exact h.awake
  · show s.total = ((aliveCount (s.gs.set g { getG s g with wake := .none, blocked := none }) : Nat) : Int)
    rw [alive_same s.gs g { getG s g with wake := .none, blocked := none } hg.1 rfl]; exact h.total

theorem userTimers_append_runSched (ts : List (Nat × TimerKind)) (id : Nat) :
    userTimers (ts ++ [(id, TimerKind.runSched)]) = userTimers ts := by
  unfold userTimers; rw [List.countP_append]; simp

theorem userTimers_append_close (ts : List (Nat × TimerKind)) (id c : Nat) :
    userTimers (ts ++ [(id, TimerKind.closeChan c)]) = userTimers ts + 1 := by
  unfold userTimers; rw [List.countP_append]; simp

/-- only the timer list / loop flags change, user timers are kept -/
theorem GInv.timers {s : State} (h : GInv s) (ts : List (Nat × TimerKind)) (nt lt : Nat) (il : Bool)
    (hu : userTimers ts = userTimers s.timers) :
    GInv { s with timers := ts, nextTimer := nt, loopTimer := lt, inLoop := il } where
  own := fun k snd e he => by
    have := h.own k snd e he
    exact ⟨this.lt, this.asleep, this.alive, this.mtch⟩
  nodup := h.nodup
  sched := h.sched
  schedNodup := h.schedNodup
  cur := h.cur
  awake := by show s.awake = ((awakeCount s.gs + userTimers ts : Nat) : Int); rw [hu]; exact h.awake
  total := h.total

theorem GInv.enterLoop {s : State} (h : GInv s) (hcur : s.cur = none) : GInv (GV.Sched.enterLoop s).1 := by
  unfold GV.Sched.enterLoop
  simp only
  have h1 := h.timers (s.timers ++ [(s.nextTimer, TimerKind.runSched)]) (s.nextTimer + 1) s.nextTimer true
    (userTimers_append_runSched _ _)
  split
  · exact h1.endLoop'
  · next g rest hs => exact h1.runHead g rest hs hcur

theorem getD_append_left (gs : List Gor) (x : Gor) (i : Nat) (h : i < gs.length) :
    (gs ++ [x]).getD i dfltGor = gs.getD i dfltGor := by
  simp [List.getD_eq_getElem?_getD, List.getElem?_append_left h]

theorem GInv.goNew {s : State} (h : GInv s) : GInv (GV.Sched.goNew s) := by
  unfold GV.Sched.goNew
  refine ⟨?_, h.nodup, ?_, ?_, ?_, ?_, ?_⟩
  · intro k snd e he
    have ho := h.own k snd e he
    have hg : (s.gs ++ [dfltGor]).getD e.gid dfltGor = getG s e.gid := getD_append_left _ _ _ ho.lt
    exact ⟨by simp; have := ho.lt; omega, by show ((s.gs ++ [dfltGor]).getD e.gid dfltGor).asleep = true; rw [hg]; exact ho.asleep,
           by show ((s.gs ++ [dfltGor]).getD e.gid dfltGor).exit = false; rw [hg]; exact ho.alive,
           by show Match ((s.gs ++ [dfltGor]).getD e.gid dfltGor).blocked k snd e; rw [hg]; exact ho.mtch⟩
  · intro g' hg'
    rcases List.mem_append.mp hg' with hm | hm
    · have := h.sched g' hm
      have hg : (s.gs ++ [dfltGor]).getD g' dfltGor = getG s g' := getD_append_left _ _ _ this.1
      exact ⟨by simp; omega, by show ((s.gs ++ [dfltGor]).getD g' dfltGor).asleep = false; rw [hg]; exact this.2.1,
             by show ((s.gs ++ [dfltGor]).getD g' dfltGor).exit = false; rw [hg]; exact this.2.2⟩
    · have : g' = s.gs.length := by simpa using hm
      subst this
      have hg : (s.gs ++ [dfltGor]).getD s.gs.length dfltGor = dfltGor := by simp [List.getD_eq_getElem?_getD]
      exact ⟨by simp, by show ((s.gs ++ [dfltGor]).getD s.gs.length dfltGor).asleep = false; rw [hg]; rfl,
             by show ((s.gs ++ [dfltGor]).getD s.gs.length dfltGor).exit = false; rw [hg]; rfl⟩
  · exact List.nodup_append.mpr ⟨h.schedNodup, by simp, fun a ha b hb => by
      have : b = s.gs.length := by simpa using hb
      subst this; have := (h.sched a ha).1; omega⟩
  · intro g' hc
    have := h.cur g' hc
    have hg : (s.gs ++ [dfltGor]).getD g' dfltGor = getG s g' := getD_append_left _ _ _ this.1
    refine ⟨by simp; omega, by show ((s.gs ++ [dfltGor]).getD g' dfltGor).asleep = false; rw [hg]; exact this.2.1,
           by show ((s.gs ++ [dfltGor]).getD g' dfltGor).exit = false; rw [hg]; exact this.2.2.1, ?_⟩
    intro hm
    rcases List.mem_append.mp hm with hm | hm
    · exact this.2.2.2 hm
    · have : g' = s.gs.length := by simpa using hm
      omega
  · show s.awake + 1 = ((awakeCount (s.gs ++ [dfltGor]) + userTimers s.timers : Nat) : Int)
    have : awakeCount (s.gs ++ [dfltGor]) = awakeCount s.gs + 1 := by unfold awakeCount; rw [List.countP_append]; simp [dfltGor]
    rw [this, h.awake]; omega
  · show s.total + 1 = ((aliveCount (s.gs ++ [dfltGor]) : Nat) : Int)
    have : aliveCount (s.gs ++ [dfltGor]) = aliveCount s.gs + 1 := by unfold aliveCount; rw [List.countP_append]; simp [dfltGor]
    rw [this, h.total]; omega

theorem entsC_append (cs : List Chan) (cap k : Nat) (snd : Bool) :
    entsC (cs ++ [Chan.make cap]) k snd = entsC cs k snd := by
  unfold entsC
  simp only [List.getD_eq_getElem?_getD]
  by_cases h1 : k < cs.length
  · rw [List.getElem?_append_left h1]
  · by_cases h2 : k = cs.length
    · subst h2; simp [Chan.make, Chan.nil]
    · rw [List.getElem?_eq_none (by simp; omega), List.getElem?_eq_none (by omega)]

theorem GInv.makechan {s : State} (h : GInv s) (cap : Nat) : GInv { s with chans := s.chans ++ [Chan.make cap] } :=
  h.chans_sub _ (fun k snd => by rw [entsC_append]; exact List.Sublist.refl _)

/-- `$setTimeout` goroutines.js:208-214 -/
theorem GInv.after {s : State} (h : GInv s) (c : Nat) :
    GInv { s with awake := s.awake + 1, timers := s.timers ++ [(s.nextTimer, TimerKind.closeChan c)], nextTimer := s.nextTimer + 1 } where
  own := fun k snd e he => by
    have := h.own k snd e he
    exact ⟨this.lt, this.asleep, this.alive, this.mtch⟩
  nodup := h.nodup
  sched := h.sched
  schedNodup := h.schedNodup
  cur := h.cur
  awake := by
    show s.awake + 1 = ((awakeCount s.gs + userTimers (s.timers ++ [(s.nextTimer, TimerKind.closeChan c)]) : Nat) : Int)
    rw [userTimers_append_close, h.awake]; omega
  total := h.total

theorem countP_erase {α} [BEq α] [LawfulBEq α] (p : α → Bool) (a : α) : ∀ (l : List α), a ∈ l →
    List.countP p (l.erase a) + (if p a then 1 else 0) = List.countP p l := by
  intro l; induction l with
  | nil => intro h; cases h
  | cons b t ih =>
    intro h
    by_cases hb : b = a
    · subst hb; simp [List.countP_cons]
    · have hm : a ∈ t := by rcases List.mem_cons.mp h with h | h; exact absurd h.symm hb; exact h
      rw [List.erase_cons_tail (by simpa using hb), List.countP_cons, List.countP_cons]
      have := ih hm; omega

/-- the event loop fires a `$setTimeout` callback: `$awakeGoroutines--` goroutines.js:211 -/
theorem GInv.fireUser {s : State} (h : GInv s) (id c : Nat) (hm : (id, TimerKind.closeChan c) ∈ s.timers) :
    GInv { s with timers := s.timers.erase (id, TimerKind.closeChan c), awake := s.awake - 1 } where
  own := fun k snd e he => by
    have := h.own k snd e he
    exact ⟨this.lt, this.asleep, this.alive, this.mtch⟩
  nodup := h.nodup
  sched := h.sched
  schedNodup := h.schedNodup
  cur := h.cur
  awake := by
    show s.awake - 1 = ((awakeCount s.gs + userTimers (s.timers.erase (id, TimerKind.closeChan c)) : Nat) : Int)
    have := countP_erase (fun t : Nat × TimerKind => t.2 != TimerKind.runSched) (id, TimerKind.closeChan c) s.timers hm
    simp only [bne_iff_ne, ne_eq, reduceCtorEq, not_false_eq_true, if_true] at this
    unfold userTimers
    rw [h.awake]; unfold userTimers; omega
  total := h.total

theorem userTimers_erase_runSched (ts : List (Nat × TimerKind)) (id : Nat) :
    userTimers (ts.erase (id, TimerKind.runSched)) = userTimers ts := by
  by_cases hm : (id, TimerKind.runSched) ∈ ts
  · have := countP_erase (fun t : Nat × TimerKind => t.2 != TimerKind.runSched) (id, TimerKind.runSched) ts hm
    simp only [bne_self_eq_false, Bool.false_eq_true, if_false, Nat.add_zero] at this
    exact this
  · rw [List.erase_of_not_mem hm]

theorem GInv.flags {s : State} (h : GInv s) (m : Bool) (il : Bool) : GInv { s with mainFinished := m, inLoop := il } where
  own := fun k snd e he => by
    have := h.own k snd e he
    exact ⟨this.lt, this.asleep, this.alive, this.mtch⟩
  nodup := h.nodup
  sched := h.sched
  schedNodup := h.schedNodup
  cur := h.cur
  awake := h.awake
  total := h.total

/-! ### pushing an entry onto one queue of one channel -/

/-- channel `x` is channel `c` of `cs` with `e0` pushed (or swallowed) on queue `snd` -/
structure Pushed (cs : List Chan) (c : Nat) (snd : Bool) (e0 : Entry) (x : Chan) : Prop where
  q : (if snd then x.sendQ else x.recvQ) = entsC cs c snd ∨ (if snd then x.sendQ else x.recvQ) = entsC cs c snd ++ [e0]
  other : (if snd then x.recvQ else x.sendQ) = entsC cs c (!snd)

theorem pushed_send (cs : List Chan) (c : Nat) (e0 : Entry) :
    Pushed cs c true e0 { cs.getD c Chan.nil with sendQ := pushQ (cs.getD c Chan.nil).isNil (cs.getD c Chan.nil).sendQ e0 } := by
  refine ⟨?_, rfl⟩
  simp only [if_true, pushQ, entsC]; split
  · exact Or.inl rfl
  · exact Or.inr rfl

theorem pushed_recv (cs : List Chan) (c : Nat) (e0 : Entry) :
    Pushed cs c false e0 { cs.getD c Chan.nil with recvQ := pushQ (cs.getD c Chan.nil).isNil (cs.getD c Chan.nil).recvQ e0 } := by
  refine ⟨?_, rfl⟩
  simp only [Bool.false_eq_true, if_false, pushQ, entsC]; split
  · exact Or.inl rfl
  · exact Or.inr rfl

theorem mem_pushed {cs : List Chan} {c : Nat} {snd : Bool} {e0 : Entry} {x : Chan} (hp : Pushed cs c snd e0 x)
    {k : Nat} {snd' : Bool} {e : Entry} (he : e ∈ entsC (cs.set c x) k snd') :
    e ∈ entsC cs k snd' ∨ (k = c ∧ snd' = snd ∧ e = e0) := by
  rw [entsC_set] at he
  split at he
  · next hh =>
    have hk : k = c := hh.1.symm
    subst hk
    by_cases hs : snd' = snd
    · subst hs
      rcases hp.q with hq | hq
      · rw [hq] at he; exact Or.inl he
      · rw [hq] at he
        rcases List.mem_append.mp he with h1 | h1
        · exact Or.inl h1
        · exact Or.inr ⟨rfl, rfl, by simpa using h1⟩
    · have : snd' = !snd := by cases snd <;> cases snd' <;> simp_all
      subst this
      have ho := hp.other
      cases snd <;> simp_all
  · exact Or.inl he

theorem nodup_pushed {cs : List Chan} {c : Nat} {snd : Bool} {e0 : Entry} {x : Chan} (hp : Pushed cs c snd e0 x)
    (hnd : ∀ k snd', ((entsC cs k snd').map key).Nodup) (hfresh : ∀ e ∈ entsC cs c snd, key e ≠ key e0)
    (k : Nat) (snd' : Bool) : ((entsC (cs.set c x) k snd').map key).Nodup := by
  rw [entsC_set]
  split
  · next hh =>
    have hk : k = c := hh.1.symm
    subst hk
    by_cases hs : snd' = snd
    · subst hs
      rcases hp.q with hq | hq
      · rw [hq]; exact hnd k snd'
      · rw [hq, List.map_append]
        refine List.nodup_append.mpr ⟨hnd k snd', by simp, ?_⟩
        intro a ha b hb
        obtain ⟨e, he, rfl⟩ := List.mem_map.mp ha
        have : b = key e0 := by simpa using hb
        rw [this]; exact hfresh e he
    · have : snd' = !snd := by cases snd <;> cases snd' <;> simp_all
      subst this
      have ho := hp.other
      have := hnd k (!snd)
      cases snd <;> simp_all
  · exact hnd k snd'

/-- the running goroutine blocks in a plain send / receive -/
theorem GInv.blockPlain {s : State} (h : GInv s) (g : Nat) (hc : s.cur = some g) (b : Blocked) (c : Nat) (snd : Bool)
    (e0 : Entry) (x : Chan) (hp : Pushed s.chans c snd e0 x) (hg : e0.gid = g) (hm : Match (some b) c snd e0) :
    GInv (GV.Sched.block (setC s c x) g b) := by
  obtain ⟨_, hawake, _, _⟩ := h.cur g hc
  apply h.block g hc b (s.chans.set c x)
  · intro k snd' e he
    rcases mem_pushed hp he with h1 | ⟨hk, hs, he0⟩
    · exact Or.inl h1
    · subst hk; subst hs; subst he0; exact Or.inr ⟨hg, hm⟩
  · intro k snd'
    apply nodup_pushed hp h.nodup _ k snd'
    intro e he hk
    have ho := h.own c snd e he
    have : e.gid = g := by have := congrArg Prod.fst hk; simpa [key, hg] using this
    have hh := ho.asleep; rw [this, hawake] at hh; cases hh

/-! ### the primitives -/

theorem GInv.fireHead {s : State} (h : GInv s) (c : Nat) (snd : Bool) (e : Entry) (rest : List Entry)
    (hq : ents s c snd = e :: rest) (x : Chan)
    (hx : (if snd then x.sendQ else x.recvQ) = rest)
    (ho : (if snd then x.recvQ else x.sendQ) = entsC s.chans c (!snd)) (w : Wake) :
    GInv (wakeG (setC s c x) e.gid w (match e.sel with | none => [] | some _ => selectCases s e.gid)) := by
  have hlt : c < s.chans.length := entsC_lt (k := c) (snd := snd) (e := e) (by show e ∈ ents s c snd; rw [hq]; simp)
  apply h.fire c snd e rest hq (s.chans.set c x)
  · rw [entsC_set]; simp [hlt, hx]
  · intro k' snd' hne
    rw [entsC_set]; split
    · next hh =>
      have hk : k' = c := hh.1.symm
      subst hk
      have : snd' = !snd := by cases snd <;> cases snd' <;> simp_all
      subst this
      cases snd <;> simp_all
    · rfl

theorem ents_send (s : State) (c : Nat) : ents s c true = (getC s c).sendQ := by simp [entsC, getC_def]
theorem ents_recv (s : State) (c : Nat) : ents s c false = (getC s c).recvQ := by simp [entsC, getC_def]

theorem fireRecv_ginv {s : State} (h : GInv s) (c : Nat) (e : Entry) (rq : List Entry)
    (hq : (getC s c).recvQ = e :: rq) (x : Chan) (hx : x.recvQ = rq) (ho : x.sendQ = (getC s c).sendQ) (v : Nat) (ok : Bool) :
    GInv (fireRecv (setC s c x) e v ok) := by
  have hq' : ents s c false = e :: rq := by rw [ents_recv]; exact hq
  unfold fireRecv
  cases hsel : e.sel with
  | none =>
    have := h.fireHead c false e rq hq' x (by simpa using hx) (by simpa [entsC, getC_def] using ho) (.recv v ok)
    rw [hsel] at this; exact this
  | some i =>
    have := h.fireHead c false e rq hq' x (by simpa using hx) (by simpa [entsC, getC_def] using ho) (.sel i (some (v, ok)))
    rw [hsel] at this; exact this

theorem fireSend_ginv {s : State} (h : GInv s) (c : Nat) (e : Entry) (sq : List Entry)
    (hq : (getC s c).sendQ = e :: sq) (x : Chan) (hx : x.sendQ = sq) (ho : x.recvQ = (getC s c).recvQ) (cl : Bool) :
    GInv (fireSend (setC s c x) e cl) := by
  have hq' : ents s c true = e :: sq := by rw [ents_send]; exact hq
  unfold fireSend
  cases hsel : e.sel with
  | none =>
    have := h.fireHead c true e sq hq' x (by simpa using hx) (by simpa [entsC, getC_def] using ho) (.sent cl)
    rw [hsel] at this; exact this
  | some i =>
    have := h.fireHead c true e sq hq' x (by simpa using hx) (by simpa [entsC, getC_def] using ho) (if cl then .sent true else .sel i none)
    rw [hsel] at this; exact this

theorem doSend_ginv (s : State) (g c v : Nat) (h : GInv s) (hc : s.cur = some g) : GInv (doSend s g c v).1 := by
  unfold doSend; simp only
  split
  · exact h
  · split
    · next e rq heq => apply fireRecv_ginv h c e rq heq <;> rfl
    · split
      · exact h.setC_same c _ rfl rfl
      · exact h.blockPlain g hc (.send c v) c true ⟨g, none, v⟩ _ (pushed_send s.chans c _) rfl ⟨rfl, rfl, rfl⟩

theorem recvTail_ginv (s : State) (g c : Nat) (h : GInv s) (hc : s.cur = some g) : GInv (recvTail s g c).1 := by
  unfold recvTail; simp only
  split
  · exact h.setC_same c _ rfl rfl
  · split
    · split <;> exact h
    · exact h.blockPlain g hc (.recv c) c false ⟨g, none, 0⟩ _ (pushed_recv s.chans c _) rfl ⟨rfl, rfl⟩

theorem wakeG_cur (s : State) (g : Nat) (w : Wake) (cases : List Case) : (wakeG s g w cases).cur = s.cur := by
  unfold wakeG schedule; simp only; split <;> rfl

theorem fireSend_cur (s : State) (e : Entry) (cl : Bool) : (fireSend s e cl).cur = s.cur := by
  unfold fireSend; split <;> exact wakeG_cur _ _ _ _
theorem fireRecv_cur (s : State) (e : Entry) (v : Nat) (ok : Bool) : (fireRecv s e v ok).cur = s.cur := by
  unfold fireRecv; split <;> exact wakeG_cur _ _ _ _

theorem doRecv_ginv (s : State) (g c : Nat) (h : GInv s) (hc : s.cur = some g) : GInv (doRecv s g c).1 := by
  unfold doRecv; simp only
  split
  · next e sq heq =>
    apply recvTail_ginv
    · have h1 : GInv (fireSend (setC s c { getC s c with sendQ := sq }) e false) := by
        apply fireSend_ginv h c e sq heq <;> rfl
      exact h1.setC_same c _ rfl rfl
    · show (fireSend _ e false).cur = some g
      rw [fireSend_cur]; exact hc
  · exact recvTail_ginv s g c h hc

theorem closeSenders_ginv : ∀ (n : Nat) (s : State) (c : Nat), GInv s → GInv (closeSenders n s c) := by
  intro n; induction n with
  | zero => intro s c h; exact h
  | succ n ih =>
    intro s c h; unfold closeSenders; simp only
    split
    · exact h
    · next e sq heq => apply ih; apply fireSend_ginv h c e sq heq <;> rfl

theorem closeRecvs_ginv : ∀ (n : Nat) (s : State) (c : Nat), GInv s → GInv (closeRecvs n s c) := by
  intro n; induction n with
  | zero => intro s c h; exact h
  | succ n ih =>
    intro s c h; unfold closeRecvs; simp only
    split
    · exact h
    · next e rq heq => apply ih; apply fireRecv_ginv h c e rq heq <;> rfl

theorem doClose_ginv (s : State) (c : Nat) (h : GInv s) : GInv (doClose s c).1 := by
  unfold doClose; simp only
  split
  · exact h
  · split
    · exact h
    · exact closeRecvs_ginv _ _ _ (closeSenders_ginv _ _ _ (h.setC_same c _ rfl rfl))

/-! ### `$select` registration -/

structure RegInv (s : State) (g : Nat) (all : List Case) (i : Nat) (cs : List Chan) : Prop where
  mem : ∀ k snd e, e ∈ entsC cs k snd →
    e ∈ ents s k snd ∨ (e.gid = g ∧ ∃ j, j < i ∧ e.sel = some j ∧ all.getD j .dflt = caseOf k snd e)
  nodup : ∀ k snd, ((entsC cs k snd).map key).Nodup

theorem regInv_push {s : State} (h : GInv s) {g : Nat} (hawake : (getG s g).asleep = false) {all : List Case} {i : Nat}
    {cs : List Chan} (r : RegInv s g all i cs) (c0 : Nat) (snd : Bool) (e0 : Entry) (x : Chan)
    (hp : Pushed cs c0 snd e0 x) (hg : e0.gid = g) (hs : e0.sel = some i) (hcase : all.getD i .dflt = caseOf c0 snd e0) :
    RegInv s g all (i + 1) (cs.set c0 x) := by
  constructor
  · intro k snd' e he
    rcases mem_pushed hp he with h1 | ⟨hk, hs', he0⟩
    · rcases r.mem k snd' e h1 with h2 | ⟨h2, j, hj, h3, h4⟩
      · exact Or.inl h2
      · exact Or.inr ⟨h2, j, by omega, h3, h4⟩
    · subst hk; subst hs'; subst he0
      exact Or.inr ⟨hg, i, by omega, hs, hcase⟩
  · intro k snd'
    apply nodup_pushed hp r.nodup _ k snd'
    intro e he hk
    have hk1 : e.gid = g := by have := congrArg Prod.fst hk; simpa [key, hg] using this
    have hk2 : e.sel = some i := by have := congrArg Prod.snd hk; simpa [key, hs] using this
    rcases r.mem c0 snd e he with h2 | ⟨_, j, hj, h3, _⟩
    · have hh := (h.own c0 snd e h2).asleep; rw [hk1, hawake] at hh; cases hh
    · rw [hk2] at h3; cases h3; omega

theorem registerCases_reg {s : State} (h : GInv s) {g : Nat} (hawake : (getG s g).asleep = false) (all : List Case) :
    ∀ (rest : List Case) (i : Nat) (cs : List Chan), (∀ j, rest.getD j .dflt = all.getD (i + j) .dflt) →
    RegInv s g all i cs → RegInv s g all (i + rest.length) (registerCases g rest i cs) := by
  intro rest; induction rest with
  | nil => intro i cs _ r; simp only [List.length_nil, Nat.add_zero]; unfold registerCases; exact r
  | cons c rest ih =>
    intro i cs hidx r
    have hidx' : ∀ j, rest.getD j .dflt = all.getD (i + 1 + j) .dflt := by
      intro j; have := hidx (j + 1); simp only [List.getD_cons_succ] at this; rw [this]; congr 1; omega
    have h0 : all.getD i .dflt = c := by have := hidx 0; simpa using this.symm
    have hl : i + (c :: rest).length = i + 1 + rest.length := by simp; omega
    rw [hl]
    cases c with
    | dflt =>
      apply ih (i + 1) cs hidx'
      exact ⟨fun k snd e he => by
        rcases r.mem k snd e he with h2 | ⟨h2, j, hj, h3, h4⟩
        · exact Or.inl h2
        · exact Or.inr ⟨h2, j, by omega, h3, h4⟩, r.nodup⟩
    | recv c0 =>
      apply ih (i + 1) _ hidx'
      exact regInv_push h hawake r c0 false ⟨g, some i, 0⟩ _ (pushed_recv cs c0 _) rfl rfl (by rw [h0]; rfl)
    | send c0 v =>
      apply ih (i + 1) _ hidx'
      exact regInv_push h hawake r c0 true ⟨g, some i, v⟩ _ (pushed_send cs c0 _) rfl rfl (by rw [h0]; rfl)

theorem doSelect_ginv (s : State) (g : Nat) (cases : List Case) (pick : Nat) (h : GInv s) (hc : s.cur = some g) :
    GInv (doSelect s g cases pick).1 := by
  unfold doSelect
  generalize scan s cases 0 = r
  obtain ⟨ready, dsel, thr⟩ := r
  simp only
  split
  · exact h
  · split
    · split
      · exact h
      · next c _ =>
        have := doRecv_ginv s g c h hc
        split
        · next s1 v ok heq => rw [heq] at this; exact this
        · exact this
      · next c v _ =>
        have := doSend_ginv s g c v h hc
        split
        · next s1 heq => rw [heq] at this; exact this
        · exact this
    · obtain ⟨_, hawake, _, _⟩ := h.cur g hc
      have r0 : RegInv s g cases 0 s.chans := ⟨fun k snd e he => Or.inl he, h.nodup⟩
      have r := registerCases_reg h hawake cases cases 0 s.chans (fun j => by simp) r0
      apply h.block g hc (.select cases) _ _ r.nodup
      intro k snd e he
      rcases r.mem k snd e he with h1 | ⟨h1, j, _, h3, h4⟩
      · exact Or.inl h1
      · exact Or.inr ⟨h1, by simp only [Match, h3]; exact h4⟩

/-! ### every event -/

theorem closeSenders_cur : ∀ (n : Nat) (s : State) (c : Nat), (closeSenders n s c).cur = s.cur := by
  intro n; induction n with
  | zero => intro s c; rfl
  | succ n ih =>
    intro s c; unfold closeSenders; simp only
    split
    · rfl
    · rw [ih, fireSend_cur]; rfl

theorem closeRecvs_cur : ∀ (n : Nat) (s : State) (c : Nat), (closeRecvs n s c).cur = s.cur := by
  intro n; induction n with
  | zero => intro s c; rfl
  | succ n ih =>
    intro s c; unfold closeRecvs; simp only
    split
    · rfl
    · rw [ih, fireRecv_cur]; rfl

theorem doClose_cur (s : State) (c : Nat) : (doClose s c).1.cur = s.cur := by
  unfold doClose; simp only
  split
  · rfl
  · split
    · rfl
    · rw [closeRecvs_cur, closeSenders_cur]; rfl

theorem findTimer_mem {ts : List (Nat × TimerKind)} {id : Nat} {k : TimerKind} (h : findTimer ts id = some k) :
    (id, k) ∈ ts := by
  unfold findTimer at h
  split at h
  · next t ht =>
    have hm := List.mem_of_find?_eq_some ht
    have hp := List.find?_some ht
    simp only [beq_iff_eq] at hp
    cases h
    have : t = (id, t.2) := by rw [← hp]
    rw [← this]; exact hm
  · cases h

theorem step_ginv (s : State) (ev : Event) (h : GInv s) : GInv (step s ev).1 := by
  unfold step
  split
  · next g hc =>
    split
    · exact h.makechan _
    · exact h.goNew
    · split
      · exact doSend_ginv _ _ _ _ h hc
      · exact h
    · split
      · exact doRecv_ginv _ _ _ h hc
      · exact h
    · split
      · exact doClose_ginv _ _ h
      · exact h
    · split
      · exact doSelect_ginv _ _ _ _ h hc
      · exact h
    · split
      · exact h.after _
      · exact h
    · exact h.exit g hc
    · exact h.flags true s.inLoop
    · exact h
  · next hc =>
    split
    · split
      · split
        · next g rest hs => exact h.runHead g rest hs hc
        · exact h
      · exact h.flags s.mainFinished false
      · exact h
    · split
      · exact h.makechan _
      · exact h.goNew.enterLoop (by show s.cur = none; exact hc)
      · split
        · exact h
        · next hf =>
          apply GInv.enterLoop
          · exact h.timers _ s.nextTimer s.loopTimer s.inLoop (userTimers_erase_runSched _ _)
          · exact hc
        · next c hf =>
          simp only
          split
          · exact h
          · have h1 := h.fireUser _ c (findTimer_mem hf)
            split
            · next s2 heq =>
              have e := congrArg Prod.fst heq; simp only at e
              have h2 : GInv s2 := by rw [← e]; exact doClose_ginv _ _ h1
              split
              · apply h2.enterLoop
                rw [← e, doClose_cur]; exact hc
              · exact h2
            · exact doClose_ginv _ _ h1
      · exact h

theorem init_ginv : GInv GV.Sched.init where
  own := fun k snd e he => by
    have := entsC_lt he
    have hk : k = 0 := by simp [GV.Sched.init] at this; exact this
    subst hk; cases snd <;> simp [entsC, GV.Sched.init, Chan.nil, Chan.make] at he
  nodup := fun k snd => by
    have : entsC GV.Sched.init.chans k snd = [] := by
      cases k with
      | zero => cases snd <;> simp [entsC, GV.Sched.init, Chan.nil, Chan.make]
      | succ n => cases snd <;> simp [entsC, GV.Sched.init, Chan.nil, Chan.make]
    show ((entsC GV.Sched.init.chans k snd).map key).Nodup
    rw [this]; simp
  sched := fun g hg => by simp [GV.Sched.init] at hg
  schedNodup := by simp [GV.Sched.init]
  cur := fun g hc => by simp [GV.Sched.init] at hc
  awake := by simp [GV.Sched.init, awakeCount, userTimers]
  total := by simp [GV.Sched.init, aliveCount]

theorem runAll_ginv : ∀ (evs : List Event) (s : State), GInv s → GInv (runAll s evs) := by
  intro evs; induction evs with
  | nil => intro s h; exact h
  | cons e es ih => intro s h; exact ih _ (step_ginv s e h)

/-! ### what `$close` does to the goroutines it wakes -/

theorem mem_removeEntry_of_ne {g i : Nat} {q : List Entry} {e : Entry} (he : e ∈ q) (hne : e.gid ≠ g) :
    e ∈ removeEntry g i q := by
  unfold removeEntry
  apply List.mem_filter.mpr
  refine ⟨he, ?_⟩
  simp [hne]

theorem removeFromQueues_keeps (g : Nat) : ∀ (rest : List Case) (i : Nat) (cs : List Chan) (k : Nat) (snd : Bool) (e : Entry),
    e ∈ entsC cs k snd → e.gid ≠ g → e ∈ entsC (removeFromQueues g rest i cs) k snd := by
  intro rest; induction rest with
  | nil => intro i cs k snd e he _; exact he
  | cons c rest ih =>
    intro i cs k snd e he hne
    cases c with
    | dflt => exact ih _ _ _ _ _ he hne
    | recv c0 =>
      apply ih _ _ _ _ _ _ hne
      rw [entsC_set]; split
      · next hh =>
        cases snd
        · simp only [Bool.false_eq_true, if_false]
          apply mem_removeEntry_of_ne _ hne
          have := he; unfold entsC at this; simp only [Bool.false_eq_true, if_false] at this; rw [← hh.1] at this; exact this
        · simp only [if_true]
          have := he; unfold entsC at this; simp only [if_true] at this; rw [← hh.1] at this; exact this
      · exact he
    | send c0 v =>
      apply ih _ _ _ _ _ _ hne
      rw [entsC_set]; split
      · next hh =>
        cases snd
        · simp only [Bool.false_eq_true, if_false]
          have := he; unfold entsC at this; simp only [Bool.false_eq_true, if_false] at this; rw [← hh.1] at this; exact this
        · simp only [if_true]
          apply mem_removeEntry_of_ne _ hne
          have := he; unfold entsC at this; simp only [if_true] at this; rw [← hh.1] at this; exact this
      · exact he

/-- the effect of one queue entry being called, on everything -/
theorem wakeG_spec (s : State) (g : Nat) (w : Wake) (cases : List Case)
    (hlt : g < s.gs.length) (hasleep : (getG s g).asleep = true) :
    getG (wakeG s g w cases) g = { getG s g with wake := w, asleep := false } ∧
    (∀ g', g' ≠ g → getG (wakeG s g w cases) g' = getG s g') ∧
    (wakeG s g w cases).scheduled = s.scheduled ++ [g] ∧
    (∀ k snd e, e ∈ ents s k snd → e.gid ≠ g → e ∈ ents (wakeG s g w cases) k snd) ∧
    (∀ k snd, (ents (wakeG s g w cases) k snd).Sublist (ents s k snd)) := by
  rw [wakeG_eq s g w cases hlt hasleep]
  refine ⟨by simp [getG_def, hlt], fun g' hne => by simp [getG_def, Ne.symm hne], rfl, ?_, ?_⟩
  · intro k snd e he hne; exact removeFromQueues_keeps g cases 0 s.chans k snd e he hne
  · intro k snd; exact entsC_shrinks (removeFromQueues_shrinks g cases 0 s.chans) k snd

structure HeadSpec (s s1 : State) (c : Nat) (snd : Bool) (e0 : Entry) (rest : List Entry) (w : Wake) : Prop where
  wasAsleep : (getG s e0.gid).asleep = true
  woken : getG s1 e0.gid = { getG s e0.gid with wake := w, asleep := false }
  others : ∀ g', g' ≠ e0.gid → getG s1 g' = getG s g'
  sched : s1.scheduled = s.scheduled ++ [e0.gid]
  keeps : ∀ k snd' e, e ∈ ents s k snd' → e.gid ≠ e0.gid → e ∈ ents s1 k snd'
  sub : ∀ k snd', (ents s1 k snd').Sublist (ents s k snd')
  subRest : (ents s1 c snd).Sublist rest

theorem headSpec {s : State} (h : GInv s) (c : Nat) (snd : Bool) (e0 : Entry) (rest : List Entry)
    (hq : ents s c snd = e0 :: rest) (x : Chan)
    (hx : (if snd then x.sendQ else x.recvQ) = rest)
    (ho : (if snd then x.recvQ else x.sendQ) = entsC s.chans c (!snd)) (w : Wake) (cases : List Case) :
    HeadSpec s (wakeG (setC s c x) e0.gid w cases) c snd e0 rest w := by
  have hlt : c < s.chans.length := entsC_lt (k := c) (snd := snd) (e := e0) (by show e0 ∈ ents s c snd; rw [hq]; simp)
  have hown := h.own c snd e0 (by rw [hq]; simp)
  have ht1 : entsC (s.chans.set c x) c snd = rest := by rw [entsC_set]; simp [hlt, hx]
  have ht2 : ∀ k' snd', ¬(k' = c ∧ snd' = snd) → entsC (s.chans.set c x) k' snd' = ents s k' snd' := by
    intro k' snd' hne
    rw [entsC_set]; split
    · next hh =>
      have hk : k' = c := hh.1.symm
      subst hk
      have : snd' = !snd := by cases snd <;> cases snd' <;> simp_all
      subst this
      cases snd <;> simp_all
    · rfl
  have hsubt : ∀ k' snd', (entsC (s.chans.set c x) k' snd').Sublist (ents s k' snd') := by
    intro k' snd'
    by_cases hh : k' = c ∧ snd' = snd
    · rw [hh.1, hh.2, ht1, hq]; exact List.sublist_cons_self _ _
    · rw [ht2 k' snd' hh]; exact List.Sublist.refl _
  obtain ⟨w1, w2, w3, w4, w5⟩ := wakeG_spec (setC s c x) e0.gid w cases hown.lt hown.asleep
  refine ⟨hown.asleep, w1, w2, w3, ?_, ?_, ?_⟩
  · intro k snd' e he hne
    apply w4 k snd' e _ hne
    show e ∈ entsC (s.chans.set c x) k snd'
    by_cases hh : k = c ∧ snd' = snd
    · rw [hh.1, hh.2, ht1]
      have : e ∈ e0 :: rest := by rw [← hq, ← hh.1, ← hh.2]; exact he
      rcases List.mem_cons.mp this with h1 | h1
      · exact absurd (h1 ▸ rfl) hne
      · exact h1
    · rw [ht2 k snd' hh]; exact he
  · intro k snd'; exact (w5 k snd').trans (hsubt k snd')
  · have := w5 c snd
    have h2 : ents (setC s c x) c snd = rest := ht1
    rw [h2] at this; exact this

/-- loop 1 of `$close`: every queued sender's goroutine is woken with the "send on closed channel" result -/
theorem closeSenders_post : ∀ (n : Nat) (s : State) (c : Nat), GInv s → (getC s c).sendQ.length ≤ n →
    (∀ g, (getG s g).asleep = false → getG (closeSenders n s c) g = getG s g) ∧
    (∀ g ∈ s.scheduled, g ∈ (closeSenders n s c).scheduled) ∧
    (∀ e ∈ (getC s c).sendQ, (getG (closeSenders n s c) e.gid).asleep = false ∧
        (getG (closeSenders n s c) e.gid).wake = .sent true ∧ e.gid ∈ (closeSenders n s c).scheduled) ∧
    (∀ k snd e, e ∈ ents s k snd → (∀ e0 ∈ (getC s c).sendQ, e0.gid ≠ e.gid) →
        e ∈ ents (closeSenders n s c) k snd ∧ getG (closeSenders n s c) e.gid = getG s e.gid) := by
  intro n; induction n with
  | zero =>
    intro s c _ hl
    have : (getC s c).sendQ = [] := List.eq_nil_of_length_eq_zero (Nat.le_zero.mp hl)
    unfold closeSenders
    refine ⟨fun _ _ => rfl, fun _ hg => hg, ?_, fun k snd e he _ => ⟨he, rfl⟩⟩
    intro e he; rw [this] at he; cases he
  | succ n ih =>
    intro s c h hl
    unfold closeSenders; simp only
    split
    · next heq =>
      refine ⟨fun _ _ => rfl, fun _ hg => hg, ?_, fun k snd e he _ => ⟨he, rfl⟩⟩
      intro e he; rw [heq] at he; cases he
    · next e0 sq heq =>
      have hq : ents s c true = e0 :: sq := by rw [ents_send]; exact heq
      have hg1 : GInv (fireSend (setC s c { getC s c with sendQ := sq }) e0 true) := by
        apply fireSend_ginv h c e0 sq heq <;> rfl
      have hs : HeadSpec s (fireSend (setC s c { getC s c with sendQ := sq }) e0 true) c true e0 sq (.sent true) := by
        unfold fireSend
        cases e0.sel with
        | none => exact headSpec h c true e0 sq hq _ rfl (by simp [entsC, getC_def]) _ _
        | some i => exact headSpec h c true e0 sq hq _ rfl (by simp [entsC, getC_def]) _ _
      generalize fireSend (setC s c { getC s c with sendQ := sq }) e0 true = s1 at hg1 hs ⊢
      have hsub : (getC s1 c).sendQ.Sublist sq := by have := hs.subRest; rw [ents_send] at this; exact this
      have hl1 : (getC s1 c).sendQ.length ≤ n := by
        have := hsub.length_le; rw [heq] at hl; simp at hl; omega
      obtain ⟨ia, ib, ic, id⟩ := ih s1 c hg1 hl1
      have hwoken : (getG s1 e0.gid).asleep = false ∧ (getG s1 e0.gid).wake = .sent true := by rw [hs.woken]; exact ⟨rfl, rfl⟩
      have hg0 : (getG (closeSenders n s1 c) e0.gid).asleep = false ∧ (getG (closeSenders n s1 c) e0.gid).wake = .sent true ∧
          e0.gid ∈ (closeSenders n s1 c).scheduled := by
        rw [ia e0.gid hwoken.1]
        exact ⟨hwoken.1, hwoken.2, ib e0.gid (by rw [hs.sched]; simp)⟩
      refine ⟨?_, ?_, ?_, ?_⟩
      · intro g hg
        have hne : g ≠ e0.gid := by intro e; rw [e, hs.wasAsleep] at hg; cases hg
        rw [ia g (by rw [hs.others g hne]; exact hg), hs.others g hne]
      · intro g hg; exact ib g (by rw [hs.sched]; simp [hg])
      · intro e he
        by_cases hge : e.gid = e0.gid
        · rw [hge]; exact hg0
        · have hmem : e ∈ (getC s1 c).sendQ := by
            have := hs.keeps c true e (by rw [hq, ← heq]; exact he) hge
            rw [ents_send] at this; exact this
          exact ic e hmem
      · intro k snd e he hno
        have hge : e.gid ≠ e0.gid := fun e' => hno e0 (by rw [heq]; simp) e'.symm
        have h1 := hs.keeps k snd e he hge
        have := id k snd e h1 (fun e1 he1 => hno e1 (by rw [heq]; exact List.mem_cons_of_mem _ (hsub.subset he1)))
        exact ⟨this.1, by rw [this.2, hs.others _ hge]⟩

/-- the result a receive entry delivers when the channel is closed -/
def closedRecvWake (e : Entry) : Wake :=
  match e.sel with
  | none => .recv 0 false
  | some i => .sel i (some (0, false))

/-- loop 2 of `$close`: every queued receiver's goroutine is woken with (zero, false) -/
theorem closeRecvs_post : ∀ (n : Nat) (s : State) (c : Nat), GInv s → (getC s c).recvQ.length ≤ n →
    (∀ g, (getG s g).asleep = false → getG (closeRecvs n s c) g = getG s g) ∧
    (∀ g ∈ s.scheduled, g ∈ (closeRecvs n s c).scheduled) ∧
    (∀ e ∈ (getC s c).recvQ, (getG (closeRecvs n s c) e.gid).asleep = false ∧ e.gid ∈ (closeRecvs n s c).scheduled ∧
        ∃ e1 ∈ (getC s c).recvQ, e1.gid = e.gid ∧ (getG (closeRecvs n s c) e.gid).wake = closedRecvWake e1) := by
  intro n; induction n with
  | zero =>
    intro s c _ hl
    have : (getC s c).recvQ = [] := List.eq_nil_of_length_eq_zero (Nat.le_zero.mp hl)
    unfold closeRecvs
    refine ⟨fun _ _ => rfl, fun _ hg => hg, ?_⟩
    intro e he; rw [this] at he; cases he
  | succ n ih =>
    intro s c h hl
    unfold closeRecvs; simp only
    split
    · next heq =>
      refine ⟨fun _ _ => rfl, fun _ hg => hg, ?_⟩
      intro e he; rw [heq] at he; cases he
    · next e0 rq heq =>
      have hq : ents s c false = e0 :: rq := by rw [ents_recv]; exact heq
      have hg1 : GInv (fireRecv (setC s c { getC s c with recvQ := rq }) e0 0 false) := by
        apply fireRecv_ginv h c e0 rq heq <;> rfl
      have hs : HeadSpec s (fireRecv (setC s c { getC s c with recvQ := rq }) e0 0 false) c false e0 rq (closedRecvWake e0) := by
        unfold fireRecv closedRecvWake
        cases e0.sel with
        | none => exact headSpec h c false e0 rq hq _ rfl (by simp [entsC, getC_def]) _ _
        | some i => exact headSpec h c false e0 rq hq _ rfl (by simp [entsC, getC_def]) _ _
      generalize fireRecv (setC s c { getC s c with recvQ := rq }) e0 0 false = s1 at hg1 hs ⊢
      have hsub : (getC s1 c).recvQ.Sublist rq := by have := hs.subRest; rw [ents_recv] at this; exact this
      have hl1 : (getC s1 c).recvQ.length ≤ n := by
        have := hsub.length_le; rw [heq] at hl; simp at hl; omega
      obtain ⟨ia, ib, ic⟩ := ih s1 c hg1 hl1
      have hwoken : (getG s1 e0.gid).asleep = false ∧ (getG s1 e0.gid).wake = closedRecvWake e0 := by rw [hs.woken]; exact ⟨rfl, rfl⟩
      refine ⟨?_, ?_, ?_⟩
      · intro g hg
        have hne : g ≠ e0.gid := by intro e; rw [e, hs.wasAsleep] at hg; cases hg
        rw [ia g (by rw [hs.others g hne]; exact hg), hs.others g hne]
      · intro g hg; exact ib g (by rw [hs.sched]; simp [hg])
      · intro e he
        by_cases hge : e.gid = e0.gid
        · rw [hge, ia e0.gid hwoken.1]
          exact ⟨hwoken.1, ib e0.gid (by rw [hs.sched]; simp), e0, by rw [heq]; simp, rfl, hwoken.2⟩
        · have hmem : e ∈ (getC s1 c).recvQ := by
            have := hs.keeps c false e (by rw [hq, ← heq]; exact he) hge
            rw [ents_recv] at this; exact this
          obtain ⟨h1, h2, e1, he1, h3, h4⟩ := ic e hmem
          exact ⟨h1, h2, e1, by rw [heq]; exact List.mem_cons_of_mem _ (hsub.subset he1), h3, h4⟩

/-- what `$close` of an open, non-nil channel does (repaired runtime) -/
structure CloseSpec (s s' : State) (c : Nat) : Prop where
  cur : s'.cur = s.cur
  closed : (getC s' c).closed = true
  sendEmpty : (getC s' c).sendQ = []
  recvEmpty : (getC s' c).recvQ = []
  /-- every queued sender — plain or select case — is runnable and will panic in its own goroutine -/
  senders : ∀ e ∈ (getC s c).sendQ, (getG s' e.gid).asleep = false ∧ e.gid ∈ s'.scheduled ∧ (getG s' e.gid).wake = .sent true
  /-- every queued receiver is runnable with (zero, false) for one of its receive cases on `c` (or, when the same
      select also had a send case on `c`, with the send panic) -/
  receivers : ∀ e ∈ (getC s c).recvQ, (getG s' e.gid).asleep = false ∧ e.gid ∈ s'.scheduled ∧
    (((∃ e0 ∈ (getC s c).sendQ, e0.gid = e.gid) ∧ (getG s' e.gid).wake = .sent true) ∨
     (∃ e1 ∈ (getC s c).recvQ, e1.gid = e.gid ∧ (getG s' e.gid).wake = closedRecvWake e1))
  /-- goroutines that were not asleep are untouched -/
  frame : ∀ g, (getG s g).asleep = false → getG s' g = getG s g

theorem doClose_spec (s : State) (c : Nat) (h : GInv s) (hc : c < s.chans.length)
    (hnn : (getC s c).isNil = false) (hopen : (getC s c).closed = false) :
    (doClose s c).2 = .ok ∧ CloseSpec s (doClose s c).1 c := by
  unfold doClose
  simp only
  split
  · next hh => rw [hnn] at hh; cases hh
  split
  · next hh => rw [hopen] at hh; cases hh
  refine ⟨rfl, ?_⟩
  simp only
  have hg1 : getC (setC s c { getC s c with closed := true }) c = { getC s c with closed := true } := by
    simp [getC_def, hc]
  have h1 : GInv (setC s c { getC s c with closed := true }) := h.setC_same c _ rfl rfl
  have hgg : ∀ g, getG (setC s c { getC s c with closed := true }) g = getG s g := fun _ => rfl
  generalize hs1 : setC s c { getC s c with closed := true } = s1 at hg1 h1 hgg
  have hq1 : (getC s1 c).sendQ = (getC s c).sendQ := by rw [hg1]
  have hr1 : (getC s1 c).recvQ = (getC s c).recvQ := by rw [hg1]
  have hsc1 : s1.scheduled = s.scheduled := by rw [← hs1]; rfl
  have hcur1 : s1.cur = s.cur := by rw [← hs1]; rfl
  have hlen : (getC s c).sendQ.length = (getC s1 c).sendQ.length := by rw [hq1]
  rw [hlen]
  obtain ⟨pa, pb, pc, pd⟩ := closeSenders_post (getC s1 c).sendQ.length s1 c h1 (Nat.le_refl _)
  have h2 := closeSenders_ginv (getC s1 c).sendQ.length s1 c h1
  have hemp := closeLoops_empty s1 c
  have hshr := closeLoops_shrinks s1 c (getC s1 c).sendQ.length c
  have hsub2 : (getC (closeSenders (getC s1 c).sendQ.length s1 c) c).recvQ.Sublist (getC s1 c).recvQ :=
    (closeSenders_shrinks (getC s1 c).sendQ.length s1 c c).recvQ
  have hcur2 := closeSenders_cur (getC s1 c).sendQ.length s1 c
  generalize closeSenders (getC s1 c).sendQ.length s1 c = s2 at pa pb pc pd h2 hemp hshr hsub2 hcur2 ⊢
  obtain ⟨qa, qb, qc⟩ := closeRecvs_post (getC s2 c).recvQ.length s2 c h2 (Nat.le_refl _)
  have hcur3 := closeRecvs_cur (getC s2 c).recvQ.length s2 c
  generalize closeRecvs (getC s2 c).recvQ.length s2 c = s3 at qa qb qc hemp hshr hcur3 ⊢
  simp only at hemp
  refine ⟨?_, ?_, hemp.1, hemp.2, ?_, ?_, ?_⟩
  · rw [hcur3, hcur2, hcur1]
  · have := hshr.closed; rw [← getC_def, ← getC_def, hg1] at this; exact this
  · intro e he
    rw [← hq1] at he
    obtain ⟨c1, c2, c3⟩ := pc e he
    rw [qa e.gid c1]
    exact ⟨c1, qb _ c3, c2⟩
  · intro e he
    rw [← hr1] at he
    by_cases hex : ∃ e0 ∈ (getC s1 c).sendQ, e0.gid = e.gid
    · obtain ⟨e0, he0, hge⟩ := hex
      obtain ⟨c1, c2, c3⟩ := pc e0 he0
      rw [hge] at c1 c2 c3
      rw [qa e.gid c1]
      exact ⟨c1, qb _ c3, Or.inl ⟨⟨e0, by rw [← hq1]; exact he0, hge⟩, c2⟩⟩
    · have hno : ∀ e0 ∈ (getC s1 c).sendQ, e0.gid ≠ e.gid := fun e0 he0 hge => hex ⟨e0, he0, hge⟩
      have hm := (pd c false e (by rw [ents_recv]; exact he) hno).1
      rw [ents_recv] at hm
      obtain ⟨d1, d2, e1, he1, d3, d4⟩ := qc e hm
      refine ⟨d1, d2, Or.inr ⟨e1, ?_, d3, d4⟩⟩
      have hsub : (getC s2 c).recvQ.Sublist (getC s1 c).recvQ := by
        exact hsub2
      rw [← hr1]; exact hsub.subset he1
  · intro g hg
    rw [qa g (by rw [pa g (by rw [hgg]; exact hg), hgg]; exact hg), pa g (by rw [hgg]; exact hg), hgg]

end GV.Proofs.SchedInv
