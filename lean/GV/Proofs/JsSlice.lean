import GV.Model.JsSlice

namespace GV.Proofs.JsSlice
open GV.JsSlice

theorem ofArray_inv {α : Type} (a : List α) : (ofArray a).Inv := by
  simp [ofArray, SliceRep.Inv]

theorem subslice_inv {α : Type} (s t : SliceRep α) (lo hi mx : Nat) (h : s.Inv) (hs : subslice s lo hi mx = some t) : t.Inv := by
  unfold subslice at hs
  split at hs
  · cases hs
  · rename_i hc
    cases hs
    obtain ⟨h1, h2⟩ := h
    simp only [SliceRep.Inv]
    omega

theorem sliceToNative_window {α : Type} (s : SliceRep α) (h : s.Inv) :
    (sliceToNative s).length = s.length ∧ ∀ i, i < s.length → (sliceToNative s)[i]? = s.backing[s.offset + i]? := by
  obtain ⟨h1, h2⟩ := h
  unfold sliceToNative subarray
  constructor
  · simp only [List.length_drop, List.length_take]
    omega
  · intro i hi
    rw [List.getElem?_drop, List.getElem?_take]
    simp only [show s.offset + i < s.offset + s.length by omega, if_true]

end GV.Proofs.JsSlice
