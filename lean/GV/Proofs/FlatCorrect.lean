/-
  GV.Proofs.FlatCorrect — the block-compilation lemma for the switch-case machine WITHOUT suspension:
  executing the flattened code of a statement follows the reference semantics, with exit-case continuations.
-/
import GV.Model.Flat
import GV.Proofs.Flat

namespace GV.Flat
open GV.Ctrl

/-- what the machine must do after a statement completed with signal `g` in store `st`
    (`k` = the code following the statement, `o` = final store of the function) -/
def K (E : Env σ) (code : List Instr) (ctx : Ctx) (k : List Instr) (o : σ) : Sig → σ → Prop
  | .normal, st => Exec E code k st o
  | .brk l, st => Exec E code (seek (ctx.tgt l).brk code) st o
  | .cont l, st => Exec E code (seek (ctx.tgt l).cont code) (evalSimple E (ctx.tgt l).post st) o
  | .ret, st => o = st

theorem K_indep (E : Env σ) (code : List Instr) (ctx : Ctx) (k k' : List Instr) (o : σ) (g : Sig) (st : σ)
    (hg : g ≠ .normal) (h : K E code ctx k o g st) : K E code ctx k' o g st := by
  cases g with
  | normal => exact absurd rfl hg
  | brk l => exact h
  | cont l => exact h
  | ret => exact h

/-- an unflattened statement, emitted in direct form -/
theorem direct_ok (E : Env σ) (code : List Instr) (ctx : Ctx) (s : Stmt) (hn : needsFlat ctx s = false)
    {st g st'} (he : Eval E s st g st') (k : List Instr) (o : σ) (hk : K E code ctx k o g st') :
    Exec E code (.direct s ctx :: k) st o := by
  have hc := needsFlat_hasCall s ctx hn
  cases g with
  | normal => exact .directN hc he hk
  | brk l => exact .directB hc he hk
  | cont l => exact .directC hc he (needsFlat_cont E he ctx hn l rfl) hk
  | ret => cases hk; exact .directR hc he

/-- code of a simple (post) statement -/
theorem simple_ok (E : Env σ) (code : List Instr) (p : Simple) (n : Nat) (k : List Instr) (st o : σ)
    (h : Exec E code k (evalSimple E p st) o) : Exec E code ((simpleCode p n).1 ++ k) st o := by
  cases p with
  | none => exact h
  | act a => exact .act h
  | call f => exact .call h

/-- `flatM` in chain mode on anything but `skip` / `ite` is the default clause: `case off+i:` + the statement -/
def isChainStmt : Stmt → Bool
  | .skip => true
  | .ite _ _ _ => true
  | _ => false

theorem flatM_default (ctx : Ctx) (s : Stmt) (hs : isChainStmt s = false) (off en i n : Nat) :
    flatM ctx s (some (off, en, i)) n = (.case (off + i) :: (flatM ctx s none n).1, (flatM ctx s none n).2) := by
  cases s with
  | skip => simp [isChainStmt] at hs
  | ite c t e => simp [isChainStmt] at hs
  | sw l b => simp only [flatM]; split <;> rfl
  | loop l c p b => simp only [flatM]; split <;> rfl
  | _ => rfl

theorem dispatch_default (s : Stmt) (hs : isChainStmt s = false) (off i : Nat) : dispatch off s i = [.jmp (off + i)] := by
  cases s <;> first | rfl | simp [isChainStmt] at hs

theorem spineDefault_default (s : Stmt) (hs : isChainStmt s = false) : spineDefault s = true := by
  cases s <;> first | rfl | simp [isChainStmt] at hs

/-- statement of the block lemma for a statement in ordinary position -/
def BlockOK (E : Env σ) (code : List Instr) (s : Stmt) (st : σ) (g : Sig) (st' : σ) : Prop :=
  ∀ (ctx : Ctx) (n : Nat) (pre k : List Instr) (o : σ),
    code = pre ++ ((flatM ctx s none n).1 ++ k) →
    K E code ctx k o g st' →
    Exec E code ((flatM ctx s none n).1 ++ k) st o

/-- statement of the block lemma for the else-part of a flattened if-chain -/
def ChainOK (E : Env σ) (code : List Instr) (s : Stmt) (st : σ) (g : Sig) (st' : σ) : Prop :=
  ∀ (ctx : Ctx) (off en i n : Nat) (pre mid k : List Instr) (o : σ),
    code = pre ++ (dispatch off s i ++ (mid ++ ((flatM ctx s (some (off, en, i)) n).1 ++ .case en :: k))) →
    (spineDefault s = false → en = off + i + spineLen s) →
    K E code ctx k o g st' →
    Exec E code (dispatch off s i ++ (mid ++ ((flatM ctx s (some (off, en, i)) n).1 ++ .case en :: k))) st o

/-- default clause: the chain statement follows from the block statement -/
theorem chain_of_block (E : Env σ) (code : List Instr) (hnd : (labels code).Nodup) (s : Stmt)
    (hs : isChainStmt s = false) {st g st'} (hb : BlockOK E code s st g st') : ChainOK E code s st g st' := by
  intro ctx off en i n pre mid k o hcode _ hk
  rw [dispatch_default s hs, flatM_default ctx s hs] at hcode ⊢
  simp only [List.cons_append, List.nil_append] at hcode ⊢
  have hseek : seek (off + i) code = .case (off + i) :: ((flatM ctx s none n).1 ++ .case en :: k) :=
    seek_mid hnd (a := pre ++ .jmp (off + i) :: mid) (by rw [hcode]; simp) rfl
  refine .jmp ?_
  rw [hseek]
  refine .case ?_
  refine hb ctx n (pre ++ .jmp (off + i) :: (mid ++ [.case (off + i)])) (.case en :: k) o (by rw [hcode]; simp) ?_
  cases g with
  | normal => exact .case hk
  | brk l => exact hk
  | cont l => exact hk
  | ret => exact hk

end GV.Flat

namespace GV.Flat
open GV.Ctrl

theorem chainJmp_skip (en : Nat) (t : Stmt) : chainJmp en t .skip = [] := rfl

theorem chainJmp_ne (en : Nat) (t e : Stmt) (he : e ≠ .skip) : chainJmp en t e = clauseJmp en t := by
  cases e <;> first | rfl | exact absurd rfl he

/-- after a clause body of a flattened chain: `$s = endCase; continue;` (or fall through into `case endCase:`) -/
theorem after_clause (E : Env σ) (code : List Instr) (hnd : (labels code).Nodup) (ctx : Ctx)
    (off en i n2 : Nat) (t e : Stmt) (k : List Instr) (o : σ) {st1 g st2} (het : Eval E t st1 g st2)
    (front : List Instr)
    (hcode : code = front ++ (chainJmp en t e ++ ((flatM ctx e (some (off, en, i)) n2).1 ++ .case en :: k)))
    (hk : K E code ctx k o g st2) :
    K E code ctx (chainJmp en t e ++ ((flatM ctx e (some (off, en, i)) n2).1 ++ .case en :: k)) o g st2 := by
  cases g with
  | brk l => exact hk
  | cont l => exact hk
  | ret => exact hk
  | normal =>
    show Exec E code _ st2 o
    by_cases he : e = .skip
    · subst he
      simp only [chainJmp_skip, flatM, List.nil_append]
      exact .case hk
    · rw [chainJmp_ne en t e he] at hcode ⊢
      unfold clauseJmp at hcode ⊢
      by_cases hr : endsWithReturn t = true
      · exact absurd rfl (eval_endsWithReturn E het hr)
      · simp only [hr, Bool.false_eq_true, if_false, List.cons_append, List.nil_append] at hcode ⊢
        have hseek : seek en code = .case en :: k :=
          seek_mid hnd (a := front ++ .jmp en :: (flatM ctx e (some (off, en, i)) n2).1) (by rw [hcode]; simp) rfl
        refine .jmp ?_
        rw [hseek]
        exact .case hk

/-- the chain statement for `ite c t e` from the statements for its parts -/
theorem chain_ite (E : Env σ) (code : List Instr) (hnd : (labels code).Nodup) (c : Nat) (t e : Stmt)
    {st st1 g st2} (b : Bool) (hc : E.cond c st = (b, st1))
    (ht : b = true → Eval E t st1 g st2 ∧ BlockOK E code t st1 g st2)
    (he : b = false → ChainOK E code e st1 g st2) :
    ChainOK E code (.ite c t e) st g st2 := by
  intro ctx off en i n pre mid k o hcode hen hk
  simp only [dispatch, flatM, List.cons_append, List.append_assoc] at hcode ⊢
  cases b with
  | true =>
    obtain ⟨het, hbt⟩ := ht rfl
    have hseek : seek (off + i) code = .case (off + i) :: ((flatM ctx t none n).1 ++ (chainJmp en t e ++
        ((flatM ctx e (some (off, en, i + 1)) (flatM ctx t none n).2).1 ++ .case en :: k))) :=
      seek_mid hnd (a := pre ++ .jmpIf c (off + i) :: (dispatch off e (i + 1) ++ mid)) (by rw [hcode]; simp) rfl
    refine .jmpIfT hc ?_
    rw [hseek]
    refine .case ?_
    refine hbt ctx n (pre ++ .jmpIf c (off + i) :: (dispatch off e (i + 1) ++ (mid ++ [.case (off + i)]))) _ o
      (by rw [hcode]; simp) ?_
    exact after_clause E code hnd ctx off en (i + 1) _ t e k o het
      (pre ++ .jmpIf c (off + i) :: (dispatch off e (i + 1) ++ (mid ++ .case (off + i) :: (flatM ctx t none n).1)))
      (by rw [hcode]; simp) hk
  | false =>
    refine .jmpIfF hc ?_
    have := he rfl ctx off en (i + 1) (flatM ctx t none n).2 (pre ++ [.jmpIf c (off + i)])
      (mid ++ .case (off + i) :: ((flatM ctx t none n).1 ++ chainJmp en t e)) k o
      (by rw [hcode]; simp) (by
        intro hd
        have := hen (by simpa [spineDefault] using hd)
        simp only [spineLen] at this
        omega) hk
    simpa using this

/-- an if-chain in ordinary position is the chain statement at clause index 0, or the direct form -/
theorem block_ite (E : Env σ) (code : List Instr) (c : Nat) (t e : Stmt) {st g st2}
    (hev : Eval E (.ite c t e) st g st2) (hch : ChainOK E code (.ite c t e) st g st2) :
    BlockOK E code (.ite c t e) st g st2 := by
  intro ctx n pre k o hcode hk
  simp only [flatM] at hcode ⊢
  split at hcode
  · rename_i hn
    simp only [hn, if_true]
    have := hch ctx n (n + spineLen (.ite c t e) + (if spineDefault e then 1 else 0)) 0
      (n + spineLen (.ite c t e) + (if spineDefault e then 1 else 0) + 1) pre [] k o
      (by rw [hcode]; simp [flatM]) (by
        intro hd
        have hd' : spineDefault e = false := by simpa [spineDefault] using hd
        simp [hd']) hk
    simpa [flatM] using this
  · rename_i hn
    have hn' : needsFlat ctx (.ite c t e) = false := by simpa using hn
    simp only [hn]
    exact direct_ok E code ctx _ hn' hev k o hk

end GV.Flat

namespace GV.Flat
open GV.Ctrl

theorem K_enterSw (E : Env σ) (code : List Instr) (ctx : Ctx) (l : Option Nat) (n : Nat) (k : List Instr) (o : σ)
    (g : Sig) (st : σ) (hseek : seek n code = .case n :: k) (hk : K E code ctx k o (swSig l g) st) :
    K E code (ctx.enterSw l n) (.case n :: k) o g st := by
  cases g with
  | normal => exact .case hk
  | ret => exact hk
  | cont x =>
    show Exec E code (seek ((ctx.enterSw l n).tgt x).cont code) (evalSimple E ((ctx.enterSw l n).tgt x).post st) o
    rw [enterSw_tgt_cont, enterSw_tgt_post]
    exact hk
  | brk x =>
    show Exec E code (seek ((ctx.enterSw l n).tgt x).brk code) st o
    cases ht : targets l x with
    | true =>
      rw [enterSw_tgt_hit _ _ _ _ ht]
      simp only [swSig, ht, if_true] at hk
      show Exec E code (seek n code) st o
      rw [hseek]
      exact .case hk
    | false =>
      rw [enterSw_tgt_miss _ _ _ _ ht]
      simp only [swSig, ht] at hk
      exact hk

theorem block_sw (E : Env σ) (code : List Instr) (hnd : (labels code).Nodup) (l : Option Nat) (b : Stmt)
    {st g st1} (hev : Eval E b st g st1) (hb : BlockOK E code b st g st1) :
    BlockOK E code (.sw l b) st (swSig l g) st1 := by
  intro ctx n pre k o hcode hk
  simp only [flatM] at hcode ⊢
  split at hcode
  · rename_i hn
    simp only [hn, if_true, GV.Flat.pre, List.append_assoc, List.cons_append, List.nil_append] at hcode ⊢
    have hseek : seek n code = .case n :: k :=
      seek_mid hnd (a := pre ++ (flatM (ctx.enterSw l n) b none (n + 1)).1) (by rw [hcode]; simp) rfl
    exact hb (ctx.enterSw l n) (n + 1) pre (.case n :: k) o hcode (K_enterSw E code ctx l n k o g st1 hseek hk)
  · rename_i hn
    have hn' : needsFlat ctx (.sw l b) = false := by simpa using hn
    simp only [hn, GV.Flat.pre]
    exact direct_ok E code ctx _ hn' (.sw hev) k o hk

end GV.Flat

namespace GV.Flat
open GV.Ctrl

def loopCond (c : Option Nat) (n : Nat) : List Instr :=
  match c with
  | none => []
  | some c => [.jmpIfNot c (n + 1)]

def loopPost (p : Simple) (b : Stmt) (n m : Nat) : List Instr :=
  if lastIsBranch b then [] else (simpleCode p m).1 ++ [.jmp n]

theorem flat_loop (ctx : Ctx) (l c p b n) (hn : needsFlat ctx (.loop l c p b) = true) :
    (flatM ctx (.loop l c p b) none n).1 =
      .case n :: (loopCond c n ++ ((flatM (ctx.enterLoop l (n + 1) n p) b none (n + 2)).1 ++
        (loopPost p b n (flatM (ctx.enterLoop l (n + 1) n p) b none (n + 2)).2 ++ [.case (n + 1)]))) := by
  simp only [flatM, hn, if_true, GV.Flat.pre, loopCond, loopPost]
  cases c <;> by_cases hl : lastIsBranch b = true <;> simp [hl]

theorem K_enterLoop (E : Env σ) (code : List Instr) (ctx : Ctx) (l : Option Nat) (p : Simple) (b : Stmt)
    (n m : Nat) (k : List Instr) (o : σ) {st1 g st2} (LOOP : List Instr)
    (hB : seek n code = LOOP) (hE : seek (n + 1) code = .case (n + 1) :: k)
    (hev : Eval E b st1 g st2)
    (hact : match loopAct l g with
      | .again => Exec E code LOOP (evalSimple E p st2) o
      | .exit => K E code ctx k o .normal st2
      | .prop => K E code ctx k o g st2) :
    K E code (ctx.enterLoop l (n + 1) n p) (loopPost p b n m ++ .case (n + 1) :: k) o g st2 := by
  cases g with
  | normal =>
    simp only [loopAct] at hact
    show Exec E code _ st2 o
    unfold loopPost
    by_cases hl : lastIsBranch b = true
    · exact absurd rfl (eval_lastIsBranch E hev hl)
    · simp only [hl, Bool.false_eq_true, if_false, List.append_assoc]
      refine simple_ok E code p m _ st2 o ?_
      refine .jmp ?_
      rw [hB]; exact hact
  | ret =>
    simp only [loopAct] at hact
    exact hact
  | cont x =>
    show Exec E code (seek ((ctx.enterLoop l (n + 1) n p).tgt x).cont code)
      (evalSimple E ((ctx.enterLoop l (n + 1) n p).tgt x).post st2) o
    cases ht : targets l x with
    | true =>
      rw [enterLoop_tgt_hit _ _ _ _ _ _ ht]
      simp only [loopAct, ht, if_true] at hact
      show Exec E code (seek n code) (evalSimple E p st2) o
      rw [hB]; exact hact
    | false =>
      rw [enterLoop_tgt_miss _ _ _ _ _ _ ht]
      simp only [loopAct, ht] at hact
      exact hact
  | brk x =>
    show Exec E code (seek ((ctx.enterLoop l (n + 1) n p).tgt x).brk code) st2 o
    cases ht : targets l x with
    | true =>
      rw [enterLoop_tgt_hit _ _ _ _ _ _ ht]
      simp only [loopAct, ht, if_true] at hact
      show Exec E code (seek (n + 1) code) st2 o
      rw [hE]; exact .case hact
    | false =>
      rw [enterLoop_tgt_miss _ _ _ _ _ _ ht]
      simp only [loopAct, ht] at hact
      exact hact

theorem loop_seeks (code : List Instr) (hnd : (labels code).Nodup) (ctx : Ctx) (l c p b) (n : Nat) (pr k : List Instr)
    (hn : needsFlat ctx (.loop l c p b) = true)
    (hcode : code = pr ++ ((flatM ctx (.loop l c p b) none n).1 ++ k)) :
    seek n code = (flatM ctx (.loop l c p b) none n).1 ++ k ∧ seek (n + 1) code = .case (n + 1) :: k := by
  rw [flat_loop ctx l c p b n hn] at hcode ⊢
  constructor
  · exact seek_mid hnd (a := pr) (by rw [hcode]; simp) rfl
  · exact seek_mid hnd (a := pr ++ .case n :: (loopCond c n ++ ((flatM (ctx.enterLoop l (n + 1) n p) b none (n + 2)).1 ++
        loopPost p b n (flatM (ctx.enterLoop l (n + 1) n p) b none (n + 2)).2))) (by rw [hcode]; simp) rfl

/-- one iteration of a loop whose condition holds -/
theorem block_loop_iter (E : Env σ) (code : List Instr) (hnd : (labels code).Nodup) (l c p b)
    {st st1 g st2 g' st3} (hc : evalCond E c st = (true, st1)) (hev : Eval E b st1 g st2)
    (hb : BlockOK E code b st1 g st2) (hdirect : Eval E (.loop l c p b) st g' st3)
    (hact : ∀ (ctx : Ctx) (n : Nat) (pr k : List Instr) (o : σ),
      code = pr ++ ((flatM ctx (.loop l c p b) none n).1 ++ k) → K E code ctx k o g' st3 →
      match loopAct l g with
      | .again => Exec E code ((flatM ctx (.loop l c p b) none n).1 ++ k) (evalSimple E p st2) o
      | .exit => K E code ctx k o .normal st2
      | .prop => K E code ctx k o g st2) :
    BlockOK E code (.loop l c p b) st g' st3 := by
  intro ctx n pr k o hcode hk
  by_cases hn : needsFlat ctx (.loop l c p b) = true
  · obtain ⟨hB, hE⟩ := loop_seeks code hnd ctx l c p b n pr k hn hcode
    have hact' := hact ctx n pr k o hcode hk
    rw [flat_loop ctx l c p b n hn] at hcode hB hact' ⊢
    simp only [List.cons_append, List.append_assoc] at hcode hB hact' ⊢
    refine .case ?_
    have body : Exec E code ((flatM (ctx.enterLoop l (n + 1) n p) b none (n + 2)).1 ++
        (loopPost p b n (flatM (ctx.enterLoop l (n + 1) n p) b none (n + 2)).2 ++ .case (n + 1) :: k)) st1 o := by
      refine hb (ctx.enterLoop l (n + 1) n p) (n + 2) (pr ++ .case n :: loopCond c n) _ o (by rw [hcode]; simp) ?_
      exact K_enterLoop E code ctx l p b n _ k o _ hB hE hev hact'
    cases c with
    | none =>
      simp only [evalCond] at hc
      cases hc
      simpa [loopCond] using body
    | some cc =>
      simp only [evalCond] at hc
      simp only [loopCond, List.cons_append, List.nil_append]
      exact .jmpIfNotT hc body
  · have hn' : needsFlat ctx (.loop l c p b) = false := by simpa using hn
    simp only [flatM, hn', GV.Flat.pre] at hcode ⊢
    exact direct_ok E code ctx _ hn' hdirect k o hk

theorem block_loop_done (E : Env σ) (code : List Instr) (hnd : (labels code).Nodup) (l c p b)
    {st st1} (hc : evalCond E c st = (false, st1)) : BlockOK E code (.loop l c p b) st .normal st1 := by
  intro ctx n pr k o hcode hk
  by_cases hn : needsFlat ctx (.loop l c p b) = true
  · obtain ⟨_, hE⟩ := loop_seeks code hnd ctx l c p b n pr k hn hcode
    rw [flat_loop ctx l c p b n hn]
    simp only [List.cons_append, List.append_assoc]
    refine .case ?_
    cases c with
    | none => simp [evalCond] at hc
    | some cc =>
      simp only [evalCond] at hc
      simp only [loopCond, List.cons_append, List.nil_append]
      refine .jmpIfNotF hc ?_
      rw [hE]; exact .case hk
  · have hn' : needsFlat ctx (.loop l c p b) = false := by simpa using hn
    simp only [flatM, hn', GV.Flat.pre] at hcode ⊢
    exact direct_ok E code ctx _ hn' (.loopDone hc) k o hk

end GV.Flat

namespace GV.Flat
open GV.Ctrl

/-- **Block-compilation lemma** (no suspension): for every derivation of the reference semantics, the flattened code of
    the statement — embedded anywhere in a code list with pairwise distinct labels — runs to the continuation selected by
    the completion signal; simultaneously for a statement in ordinary position and as the else-part of an if-chain. -/
theorem block_both (E : Env σ) (code : List Instr) (hnd : (labels code).Nodup) :
    ∀ {s st g st'}, Eval E s st g st' → BlockOK E code s st g st' ∧ ChainOK E code s st g st' := by
  intro s st g st' h
  induction h with
  | skip =>
    refine ⟨?_, ?_⟩
    · intro ctx n pr k o _ hk
      simp only [flatM, List.nil_append]
      exact hk
    · intro ctx off en i n pr mid k o hcode hen hk
      have hen' : en = off + i := by simpa [spineDefault, spineLen] using hen rfl
      simp only [dispatch, flatM, List.cons_append, List.nil_append] at hcode ⊢
      have hseek : seek (off + i) code = .case en :: k :=
        seek_mid hnd (a := pr ++ .jmp (off + i) :: mid) (by rw [hcode]; simp) (by simp [labelOf, hen'])
      refine .jmp ?_
      rw [hseek]; exact .case hk
  | @act a st =>
    have hb : BlockOK E code (.act a) st .normal (E.act a st) := fun ctx n pr k o _ hk => .act hk
    exact ⟨hb, chain_of_block E code hnd _ rfl hb⟩
  | @call f st =>
    have hb : BlockOK E code (.call f) st .normal (E.call f st) := fun ctx n pr k o _ hk => .call hk
    exact ⟨hb, chain_of_block E code hnd _ rfl hb⟩
  | @seqN s st st1 t g st2 _ _ ih1 ih2 =>
    have hb : BlockOK E code (.seq s t) st g st2 := by
      intro ctx n pr k o hcode hk
      simp only [flatM, GV.Flat.pre, List.append_assoc] at hcode ⊢
      refine ih1.1 ctx n pr _ o hcode ?_
      exact ih2.1 ctx (flatM ctx s none n).2 (pr ++ (flatM ctx s none n).1) k o (by rw [hcode]; simp) hk
    exact ⟨hb, chain_of_block E code hnd _ rfl hb⟩
  | @seqA s st g st1 t _ hne ih1 =>
    have hb : BlockOK E code (.seq s t) st g st1 := by
      intro ctx n pr k o hcode hk
      simp only [flatM, GV.Flat.pre, List.append_assoc] at hcode ⊢
      exact ih1.1 ctx n pr _ o hcode (K_indep E code ctx k _ o g st1 hne hk)
    exact ⟨hb, chain_of_block E code hnd _ rfl hb⟩
  | @iteT c st st1 t g st2 e hc het ih =>
    have hch : ChainOK E code (.ite c t e) st g st2 :=
      chain_ite E code hnd c t e true hc (fun _ => ⟨het, ih.1⟩) (fun hf => by cases hf)
    exact ⟨block_ite E code c t e (.iteT hc het) hch, hch⟩
  | @iteF c st st1 e g st2 t hc hee ih =>
    have hch : ChainOK E code (.ite c t e) st g st2 :=
      chain_ite E code hnd c t e false hc (fun hf => by cases hf) (fun _ => ih.2)
    exact ⟨block_ite E code c t e (.iteF hc hee) hch, hch⟩
  | @block s st g st1 _ ih =>
    have hb : BlockOK E code (.block s) st g st1 := by
      intro ctx n pr k o hcode hk
      simp only [flatM, GV.Flat.pre] at hcode ⊢
      exact ih.1 ctx n pr k o hcode hk
    exact ⟨hb, chain_of_block E code hnd _ rfl hb⟩
  | @brk l st =>
    have hb : BlockOK E code (.brk l) st (.brk l) st := fun ctx n pr k o _ hk => .jmp hk
    exact ⟨hb, chain_of_block E code hnd _ rfl hb⟩
  | @cont l st =>
    have hb : BlockOK E code (.cont l) st (.cont l) st := by
      intro ctx n pr k o _ hk
      simp only [flatM, GV.Flat.pre, List.append_assoc]
      exact simple_ok E code _ n _ st o (.jmp hk)
    exact ⟨hb, chain_of_block E code hnd _ rfl hb⟩
  | @ret st =>
    have hb : BlockOK E code .ret st .ret st := by
      intro ctx n pr k o _ hk
      cases hk
      exact .ret
    exact ⟨hb, chain_of_block E code hnd _ rfl hb⟩
  | @sw b st g st1 l hev ih =>
    have hb := block_sw E code hnd l b hev ih.1
    exact ⟨hb, chain_of_block E code hnd _ rfl hb⟩
  | @loopDone c st st1 l p b hc =>
    have hb := block_loop_done E code hnd l c p b hc
    exact ⟨hb, chain_of_block E code hnd _ rfl hb⟩
  | @loopAgain c st st1 b g st2 l p g' st3 hc hev ha hrec ih1 ih2 =>
    have hb : BlockOK E code (.loop l c p b) st g' st3 :=
      block_loop_iter E code hnd l c p b hc hev ih1.1 (.loopAgain hc hev ha hrec)
        (fun ctx n pr k o hcode hk => by rw [ha]; exact ih2.1 ctx n pr k o hcode hk)
    exact ⟨hb, chain_of_block E code hnd _ rfl hb⟩
  | @loopExit c st st1 b g st2 l p hc hev ha ih1 =>
    have hb : BlockOK E code (.loop l c p b) st .normal st2 :=
      block_loop_iter E code hnd l c p b hc hev ih1.1 (.loopExit hc hev ha)
        (fun ctx n pr k o hcode hk => by rw [ha]; exact hk)
    exact ⟨hb, chain_of_block E code hnd _ rfl hb⟩
  | @loopProp c st st1 b g st2 l p hc hev ha ih1 =>
    have hb : BlockOK E code (.loop l c p b) st g st2 :=
      block_loop_iter E code hnd l c p b hc hev ih1.1 (.loopProp hc hev ha)
        (fun ctx n pr k o hcode hk => by rw [ha]; exact hk)
    exact ⟨hb, chain_of_block E code hnd _ rfl hb⟩

end GV.Flat
