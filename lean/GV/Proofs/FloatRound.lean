import GV.Proofs.FloatBits

/-! floor/ceil/trunc/modf: ECMAScript definitions = Go's bit-mask algorithms (GV.Props.C13). -/

namespace GV.Proofs.FloatBits
open GV.FloatBits

theorem truncMag_neg (b : Nat) (h : b < two64) : truncMag (neg b) = truncMag b := by
  unfold truncMag; rw [expo_neg b h, mant_neg b h]
theorem hasFrac_neg (b : Nat) (h : b < two64) : hasFrac (neg b) = hasFrac b := by
  unfold hasFrac isZero; rw [expo_neg b h, mant_neg b h]
theorem isZero_neg (b : Nat) (h : b < two64) : isZero (neg b) = isZero b := by
  unfold isZero; rw [expo_neg b h, mant_neg b h]
theorem isNaN_neg (b : Nat) (h : b < two64) : isNaN (neg b) = isNaN b := by
  unfold isNaN; rw [expo_neg b h, mant_neg b h]
theorem isInf_neg (b : Nat) (h : b < two64) : isInf (neg b) = isInf b := by
  unfold isInf; rw [expo_neg b h, mant_neg b h]

theorem truncGo_le (x : Nat) (_hx : x < two64) (hs : sign x = 0) : truncGo x ≤ x := by
  unfold truncGo
  repeat' split
  all_goals first | omega | (simp [hs])

theorem sign_zero_lt (x : Nat) (hx : x < two64) (hs : sign x = 0) : x < two63 := by
  unfold sign two63 two64 at *; omega
theorem sign_one_ge (x : Nat) (hx : x < two64) (hs : sign x = 1) : two63 ≤ x := by
  unfold sign two63 two64 at *; omega

theorem special_iff (x : Nat) : (isZero x || isNaN x || isInf x) = (!isFinite x || isZero x) := by
  unfold isZero isNaN isInf isFinite
  cases h1 : (expo x == 2047) <;> cases h2 : (mant x == 0) <;> cases h3 : (expo x == 0) <;> simp_all

theorem hasFrac_big (x : Nat) (h : 1075 ≤ expo x) : hasFrac x = false := by
  unfold hasFrac
  have c1 : ¬ expo x < 1023 := by omega
  simp only [c1, if_false]
  split
  · have : expo x = 1075 := by omega
    simp [this, Nat.mod_one]
  · rfl

theorem truncGo_big (x : Nat) (h : 1075 ≤ expo x) : truncGo x = x := by
  unfold truncGo
  have c1 : ¬ expo x < 1023 := by omega
  have c2 : ¬ expo x < 1075 := by omega
  simp only [c1, c2, if_false]
  split <;> rfl

theorem truncGo_small (x : Nat) (h : expo x < 1023) (hz : (isZero x || isNaN x || isInf x) = false) :
    truncGo x = sign x * two63 := by
  unfold truncGo; simp only [hz, Bool.false_eq_true, if_false, h, if_true]

theorem hasFrac_small (x : Nat) (h : expo x < 1023) (hz : isZero x = false) : hasFrac x = true := by
  unfold hasFrac; simp [h, hz]

theorem truncMag_small (x : Nat) (h : expo x < 1023) : truncMag x = 0 := by
  unfold truncMag; simp [h]

/-- ECMAScript `Math.floor` (greatest integer below the exact value) = Go's `Floor`, for every bit pattern -/
theorem floor_eq (x : Nat) (hx : x < two64) : floorJS x = floorGo x := by
  unfold floorJS floorGo
  rw [special_iff]
  by_cases hsp : (!isFinite x || isZero x) = true
  · simp only [hsp, if_true]
  · have hsp' : (!isFinite x || isZero x) = false := by simpa using hsp
    have hsp2 : (isZero x || isNaN x || isInf x) = false := by rw [special_iff]; exact hsp'
    have hz : isZero x = false := by
      cases h : isZero x <;> simp_all
    simp only [hsp', Bool.false_eq_true, if_false]
    have hs : sign x = 0 ∨ sign x = 1 := by unfold sign; omega
    by_cases hbig : expo x ≥ 1075
    · simp only [hbig, if_true]
      rcases hs with hs | hs
      · simp [hs, truncGo_big x hbig]
      · have hnl := neg_lt x hx
        have : truncGo (neg x) = neg x := truncGo_big (neg x) (by rw [expo_neg x hx]; exact hbig)
        simp only [hs, beq_self_eq_true, if_true, hasFrac_big x hbig, Bool.false_eq_true, if_false, this]
        have := sign_one_ge x hx hs
        unfold neg two63 two64 at *; split <;> omega
    · simp only [hbig, if_false]
      have hlt : expo x < 1075 := by omega
      rcases hs with hs | hs
      · simp only [hs, show ((0:Nat) == 1) = false from rfl, show ((0:Nat) == 0) = true from rfl, Bool.false_eq_true, if_false, if_true]
        by_cases hsm : expo x < 1023
        · rw [truncMag_small x hsm, truncGo_small x hsm hsp2, hs]; simp [encodeNat]
        · rw [encode_trunc x hx (by omega) hlt, hs]; omega
      · simp only [hs, beq_self_eq_true, if_true, show ((1:Nat) == 0) = false from rfl, Bool.false_eq_true, if_false]
        by_cases hf : hasFrac x = true
        · simp only [hf, if_true]
        · have hf' : hasFrac x = false := by simpa using hf
          simp only [hf', Bool.false_eq_true, if_false]
          have hsm : ¬ expo x < 1023 := by
            intro hc; rw [hasFrac_small x hc hz] at hf'; exact absurd hf' (by simp)
          have hnl := neg_lt x hx
          rw [encode_trunc (neg x) hnl (by rw [expo_neg x hx]; omega) (by rw [expo_neg x hx]; exact hlt),
            truncMag_neg x hx, sign_neg x hx, hs]
          omega

/-- ECMAScript `Math.ceil` = Go's `Ceil` (= -Floor(-x)), for every bit pattern -/
theorem ceil_eq (x : Nat) (hx : x < two64) : ceilJS x = ceilGo x := by
  have hnl := neg_lt x hx
  unfold ceilJS ceilGo floorGo
  rw [isZero_neg x hx, isNaN_neg x hx, isInf_neg x hx, special_iff, sign_neg x hx, hasFrac_neg x hx, truncMag_neg x hx,
    neg_neg x hx]
  by_cases hsp : (!isFinite x || isZero x) = true
  · simp only [hsp, if_true, neg_neg x hx]
  · have hsp' : (!isFinite x || isZero x) = false := by simpa using hsp
    have hsp2 : (isZero x || isNaN x || isInf x) = false := by rw [special_iff]; exact hsp'
    have hz : isZero x = false := by
      cases h : isZero x <;> simp_all
    simp only [hsp', Bool.false_eq_true, if_false]
    have hs : sign x = 0 ∨ sign x = 1 := by unfold sign; omega
    have negadd : ∀ y, neg (two63 + y) = y := by
      intro y; unfold neg two63; split <;> omega
    by_cases hbig : expo x ≥ 1075
    · simp only [hbig, if_true]
      rcases hs with hs | hs
      · simp only [hs, show (1 - 0 == 1) = true from rfl, if_true, hasFrac_big x hbig, Bool.false_eq_true, if_false, negadd,
          truncGo_big x hbig]
      · simp only [hs, show (1 - 1 == 1) = false from rfl, Bool.false_eq_true, if_false]
        rw [truncGo_big (neg x) (by rw [expo_neg x hx]; exact hbig), neg_neg x hx]
    · simp only [hbig, if_false]
      have hlt : expo x < 1075 := by omega
      rcases hs with hs | hs
      · simp only [hs, show ((0:Nat) == 1) = false from rfl, Bool.false_eq_true, if_false, show (1 - 0 == 1) = true from rfl, if_true]
        by_cases hf : hasFrac x = true
        · simp only [hf, if_true, negadd]
        · have hf' : hasFrac x = false := by simpa using hf
          simp only [hf', Bool.false_eq_true, if_false, negadd]
          have hsm : ¬ expo x < 1023 := by
            intro hc; rw [hasFrac_small x hc hz] at hf'; exact absurd hf' (by simp)
          rw [encode_trunc x hx (by omega) hlt, hs]; omega
      · simp only [hs, beq_self_eq_true, if_true, show (1 - 1 == 1) = false from rfl, Bool.false_eq_true, if_false]
        have hsn : sign (neg x) = 0 := by rw [sign_neg x hx, hs]
        have hspn : (isZero (neg x) || isNaN (neg x) || isInf (neg x)) = false := by
          rw [isZero_neg x hx, isNaN_neg x hx, isInf_neg x hx]; exact hsp2
        by_cases hsm : expo x < 1023
        · rw [truncMag_small x hsm, truncGo_small (neg x) (by rw [expo_neg x hx]; exact hsm) hspn, hsn]
          unfold neg encodeNat two63; simp
        · have hle := truncGo_le (neg x) hnl hsn
          have hlt63 := sign_zero_lt (neg x) hnl hsn
          have e := encode_trunc (neg x) hnl (by rw [expo_neg x hx]; omega) (by rw [expo_neg x hx]; exact hlt)
          rw [truncMag_neg x hx, hsn] at e
          have e' : encodeNat (truncMag x) = truncGo (neg x) := by omega
          have hy : truncGo (neg x) < two63 := by omega
          have hneg : neg (truncGo (neg x)) = truncGo (neg x) + two63 := by
            generalize truncGo (neg x) = y at *
            unfold neg; rw [if_pos hy]
          rw [e', hneg]; omega

end GV.Proofs.FloatBits


/-! ## REPAIRED DEFECTS — theorems about the schemes before fixes/C13-math-trunc.patch and fixes/C13-math-modf.patch
   (`truncOld`, `modfOld`): refutations of the full statements and the partial theorems that held -/
namespace GV.Proofs.FloatBits
open GV.FloatBits

theorem isInf_iff (f : Nat) (h : f < two64) : isInf f = true ↔ (f = posInf ∨ f = negInf) := by
  have hd := decode f h
  have hs : sign f ≤ 1 := by unfold sign; omega
  unfold isInf posInf negInf
  simp only [Bool.and_eq_true, beq_iff_eq]
  unfold two63 two52 at hd
  constructor
  · intro ⟨h1, h2⟩; omega
  · intro h'
    unfold expo mant two52
    omega

theorem eqInf (f : Nat) (h : f < two64) : (eqBits f posInf || eqBits f negInf) = isInf f := by
  unfold eqBits
  by_cases hi : isInf f = true
  · have := (isInf_iff f h).mp hi
    rw [hi]
    rcases this with h1 | h1
    · subst h1; simp [posInf_notNaN]
    · subst h1; simp [negInf_notNaN]
  · have hi' : isInf f = false := by simpa using hi
    have hn : ¬ (f = posInf ∨ f = negInf) := fun hc => hi ((isInf_iff f h).mpr hc)
    rw [hi']
    have h1 : (f == posInf) = false := by simp; intro hc; exact hn (Or.inl hc)
    have h2 : (f == negInf) = false := by simp; intro hc; exact hn (Or.inr hc)
    simp [h1, h2]

/-- full-strength Modf statement — NOT claimed (false of the current code) -/
def modfOld_full : Prop := ∀ f, f < two64 → modfOld f = modfGo f

/-- the override's Modf = upstream Modf (integer part bits, sign and zero-ness of the fraction) except for negative f
    with |f| < 1, f ≠ -0 -/
theorem modfOld_partial (f : Nat) (h : f < two64) (hx : ¬ (sign f = 1 ∧ expo f < 1023 ∧ isZero f = false)) :
    modfOld f = modfGo f := by
  have hd := decode f h
  have hs : sign f = 0 ∨ sign f = 1 := by unfold sign; omega
  unfold modfOld modfGo
  rw [eqInf f h]
  by_cases hn : isNaN f = true
  · have hi : isInf f = false := by unfold isInf; unfold isNaN at hn; simp at hn ⊢; intro _; exact hn.2
    have hr : recipIsNegInf f = false := by
      unfold recipIsNegInf; unfold isNaN at hn; simp at hn ⊢; intro _ hc; omega
    simp [hn, hi, hr]
  · have hn' : isNaN f = false := by simpa using hn
    by_cases hi : isInf f = true
    · simp [hn', hi]
    · have hi' : isInf f = false := by simpa using hi
      simp only [hn', hi', Bool.false_eq_true, if_false]
      by_cases hr : recipIsNegInf f = true
      · -- negative with |f| ≤ 2^-1024: by hypothesis f = -0
        have hr' := hr
        unfold recipIsNegInf at hr'
        simp only [Bool.and_eq_true, beq_iff_eq, decide_eq_true_eq] at hr'
        have hz : isZero f = true := by
          cases hz : isZero f
          · exact absurd ⟨hr'.1.1, by omega, hz⟩ hx
          · rfl
        have hsm : expo f < 1023 := by omega
        simp only [hr, if_true]
        have ht : truncGo f = f := by unfold truncGo; simp [hz]
        have hf : hasFrac f = false := by unfold hasFrac; simp [hsm, hz]
        simp [ht, hf, hz]
      · have hr' : recipIsNegInf f = false := by simpa using hr
        simp only [hr', Bool.false_eq_true, if_false]
        by_cases hsm : expo f < 1023
        · simp only [hsm, if_true]
          have ht : truncGo f = 0 := by
            by_cases hz : isZero f = true
            · -- +0 (the -0 case is recipIsNegInf)
              have hs0 : sign f = 0 := by
                rcases hs with hs | hs
                · exact hs
                · exfalso
                  unfold recipIsNegInf at hr'; unfold isZero at hz
                  simp only [Bool.and_eq_true, beq_iff_eq] at hz
                  simp [hs, hz.1, hz.2] at hr'
              unfold isZero at hz
              simp only [Bool.and_eq_true, beq_iff_eq] at hz
              have : f = 0 := by unfold two63 two52 at hd; omega
              subst this; decide
            · have hz' : isZero f = false := by simpa using hz
              have hs0 : sign f = 0 := by
                rcases hs with hs | hs
                · exact hs
                · exact absurd ⟨hs, hsm, hz'⟩ hx
              rw [truncGo_small f hsm (by simp [hz', hn', hi']), hs0, Nat.zero_mul]
          rw [ht]
        · simp only [hsm, if_false]

/-- witness -0.5: upstream gives integer part -0, the override +0 -/
theorem modfOld_counterexample_frac : ¬ modfOld_full := by
  intro h
  have := h 0xBFE0000000000000 (by decide)
  revert this
  decide

/-- witness -5e-324 (smallest negative subnormal): upstream gives integer part -0, the override returns f itself -/
theorem modfOld_counterexample_tiny : modfOld 0x8000000000000001 ≠ modfGo 0x8000000000000001 := by decide

example : ¬ (sign 0x4008000000000000 = 1 ∧ expo 0x4008000000000000 < 1023 ∧ isZero 0x4008000000000000 = false) := by decide

end GV.Proofs.FloatBits

namespace GV.Proofs.FloatBits
open GV.FloatBits

/-- full-strength Trunc statement — NOT claimed (false of the current code) -/
def truncOld_full : Prop := ∀ x, x < two64 → truncOld x = truncGo x

/-- witness 3e9: `float64(int(x))` wraps at 32 bits -/
theorem truncOld_counterexample_large : ¬ truncOld_full := by
  intro h
  have := h 0x41E65A0BC0000000 (by decide)
  revert this
  decide

/-- witness -5e-324: `1/x == negInf` also holds when the quotient overflows, so x is returned instead of -0 -/
theorem truncOld_counterexample_tiny : truncOld 0x8000000000000001 ≠ truncGo 0x8000000000000001 := by decide

theorem signbit_sign0 (r : Nat) (h : sign r = 0) : signbit r = false := by
  unfold signbit ltZero recipIsNegInf; simp [h]

theorem truncMag_lt (x : Nat) (h1 : 1023 ≤ expo x) (h2 : expo x < 1054) : truncMag x < 2147483648 ∧ 1 ≤ truncMag x := by
  have hm : mant x < 2 ^ 52 := by unfold mant two52; omega
  unfold truncMag
  have c1 : ¬ expo x < 1023 := by omega
  have c2 : expo x ≤ 1075 := by omega
  simp only [c1, c2, if_false, if_true]
  rw [Nat.shiftRight_eq_div_pow]
  have hq := div_split (mant x) (1075 - expo x) (by omega)
  have hl := div_lt (mant x) (1075 - expo x) hm (by omega)
  have t52 : two52 = 2 ^ 52 := by decide
  rw [t52, hq]
  have hp : 2 ^ (52 - (1075 - expo x)) ≤ 2 ^ 30 := Nat.pow_le_pow_right (by omega) (by omega)
  have hpos : 0 < 2 ^ (52 - (1075 - expo x)) := Nat.two_pow_pos _
  have t30 : (2:Nat) ^ 30 = 1073741824 := by decide
  rw [t30] at hp
  generalize 2 ^ (52 - (1075 - expo x)) = Q at *
  generalize mant x / 2 ^ (1075 - expo x) = d at *
  omega

/-- the override's Trunc = upstream Trunc for every pattern with |x| < 2^31 (or NaN) that is not a negative non-zero
    value of magnitude ≤ 2^-1024 -/
theorem truncOld_partial (x : Nat) (hx : x < two64) (hsmall : expo x < 1054 ∨ isNaN x = true)
    (htiny : ¬ (recipIsNegInf x = true ∧ isZero x = false)) : truncOld x = truncGo x := by
  have hd := decode x hx
  have hs : sign x = 0 ∨ sign x = 1 := by unfold sign; omega
  unfold truncOld
  by_cases hn : isNaN x = true
  · have : truncGo x = x := by unfold truncGo; simp [hn]
    simp [hn, this]
  · have hn' : isNaN x = false := by simpa using hn
    have he : expo x < 1054 := by
      rcases hsmall with h | h
      · exact h
      · exact absurd h hn
    have hi' : isInf x = false := by unfold isInf; simp; omega
    have hinf : (eqBits x posInf || eqBits x negInf) = false := by rw [eqInf x hx]; exact hi'
    have hc : (eqBits x posInf || eqBits x negInf || isNaN x || recipIsNegInf x) = recipIsNegInf x := by
      rw [hinf, hn']; simp
    rw [hc]
    by_cases hr : recipIsNegInf x = true
    · have hz : isZero x = true := by
        cases hz : isZero x
        · exact absurd ⟨hr, hz⟩ htiny
        · rfl
      have : truncGo x = x := by unfold truncGo; simp [hz]
      simp [hr, this]
    · have hr' : recipIsNegInf x = false := by simpa using hr
      simp only [hr', Bool.false_eq_true, if_false]
      have hsx : signbit x = (sign x == 1) := signbit_spec x hn'
      by_cases hsm : expo x < 1023
      · -- |x| < 1: float64(int(x)) = +0, Copysign gives ±0
        have ht : toInt32Float x = 0 := by
          unfold toInt32Float; rw [truncMag_small x hsm]
          rcases hs with hs | hs <;> simp [hs, encodeNat]
        rw [ht]
        unfold copysign
        rw [hsx, signbit_sign0 0 (by decide)]
        by_cases hz : isZero x = true
        · have hs0 : sign x = 0 := by
            rcases hs with hs | hs
            · exact hs
            · exfalso
              unfold recipIsNegInf at hr'; unfold isZero at hz
              simp only [Bool.and_eq_true, beq_iff_eq] at hz
              simp [hs, hz.1, hz.2] at hr'
          unfold isZero at hz
          simp only [Bool.and_eq_true, beq_iff_eq] at hz
          have : x = 0 := by unfold two63 two52 at hd; omega
          subst this; decide
        · have hz' : isZero x = false := by simpa using hz
          rw [truncGo_small x hsm (by simp [hz', hn', hi'])]
          rcases hs with hs | hs
          · simp [hs]
          · simp [hs]; decide
      · have ⟨htl, htp⟩ := truncMag_lt x (by omega) he
        have het := encode_trunc x hx (by omega) (by omega)
        have hm : mant x < 2 ^ 52 := by unfold mant two52; omega
        have hle : truncGo x ≤ x ∧ sign x * two63 + expo x * two52 ≤ truncGo x := by
          unfold truncGo
          have c1 : ¬ expo x < 1023 := by omega
          have c2 : expo x < 1075 := by omega
          have hz : isZero x = false := by unfold isZero; simp; omega
          simp only [hz, hn', hi', Bool.or_false, Bool.false_eq_true, if_false, c1, c2, if_true]
          have := Nat.mod_le (mant x) (2 ^ (1075 - expo x))
          generalize mant x % 2 ^ (1075 - expo x) = r at *
          omega
        rcases hs with hs | hs
        · have ht : toInt32Float x = truncGo x := by
            unfold toInt32Float
            have e1 : truncMag x % two32 = truncMag x := Nat.mod_eq_of_lt (by unfold two32; omega)
            simp only [e1, hs, show ((0:Nat) == 1) = false from rfl, Bool.false_eq_true, if_false, htl, if_true]
            rw [het, hs]; omega
          rw [ht]
          unfold copysign
          have hs0 : sign (truncGo x) = 0 := by
            have := sign_zero_lt x hx hs
            unfold sign two63 at *; omega
          rw [hsx, signbit_sign0 _ hs0, hs]; simp
        · have ht : toInt32Float x = truncGo x := by
            unfold toInt32Float
            have e1 : truncMag x % two32 = truncMag x := Nat.mod_eq_of_lt (by unfold two32; omega)
            have e2 : (two32 - truncMag x) % two32 = two32 - truncMag x := Nat.mod_eq_of_lt (by unfold two32; omega)
            have e3 : ¬ (two32 - truncMag x < 2147483648) := by unfold two32; omega
            have e4 : two32 - (two32 - truncMag x) = truncMag x := by unfold two32; omega
            simp only [e1, hs, beq_self_eq_true, if_true, e2, e3, if_false, e4]
            rw [het, hs]; omega
          rw [ht]
          unfold copysign
          have hge := sign_one_ge x hx hs
          have hr1 : sign (truncGo x) = 1 := by
            unfold sign two63 two64 at *; omega
          have hrn : isNaN (truncGo x) = false := by
            have : expo (truncGo x) = expo x := by
              unfold two63 two52 at *
              rw [hs] at hle
              unfold expo two52; omega
            unfold isNaN; simp; omega
          rw [hsx, signbit_spec _ hrn, hr1, hs]; simp

example : (expo 0x4008000000000000 < 1054 ∨ isNaN 0x4008000000000000 = true) ∧
    ¬ (recipIsNegInf 0x4008000000000000 = true ∧ isZero 0x4008000000000000 = false) := by decide

end GV.Proofs.FloatBits

/-! ## Trunc and Modf after the repairs: full strength -/
namespace GV.Proofs.FloatBits
open GV.FloatBits

/-- `Trunc` = `Math.trunc` (ECMAScript definition on the exact value) = upstream `Trunc`, ALL bit patterns -/
theorem trunc_eq (x : Nat) (hx : x < two64) : trunc x = truncGo x := by
  unfold trunc
  by_cases hsp : (!isFinite x || isZero x) = true
  · have h2 : (isZero x || isNaN x || isInf x) = true := by rw [special_iff]; exact hsp
    have : truncGo x = x := by unfold truncGo; rw [if_pos h2]
    rw [if_pos hsp, this]
  · have hsp' : (!isFinite x || isZero x) = false := by simpa using hsp
    have hsp2 : (isZero x || isNaN x || isInf x) = false := by rw [special_iff]; exact hsp'
    rw [if_neg hsp]
    by_cases hbig : expo x ≥ 1075
    · rw [if_pos hbig, truncGo_big x hbig]
    · rw [if_neg hbig]
      by_cases hsm : expo x < 1023
      · rw [truncMag_small x hsm, truncGo_small x hsm hsp2]; simp [encodeNat]
      · rw [encode_trunc x hx (by omega) (by omega)]

/-- sign and exponent fields of Go's masked value -/
theorem truncGo_fields (f : Nat) (h : f < two64) (h1 : 1023 ≤ expo f) (h2 : expo f < 1075) :
    sign (truncGo f) = sign f ∧ expo (truncGo f) = expo f := by
  have hd := decode f h
  have hm : mant f < 2 ^ 52 := by unfold mant two52; omega
  have hs : sign f ≤ 1 := by unfold sign; omega
  have hle : truncGo f ≤ f ∧ sign f * two63 + expo f * two52 ≤ truncGo f := by
    unfold truncGo
    have c1 : ¬ expo f < 1023 := by omega
    have hz : isZero f = false := by unfold isZero; simp; omega
    have hn : isNaN f = false := by unfold isNaN; simp; omega
    have hi : isInf f = false := by unfold isInf; simp; omega
    simp only [hz, hn, hi, Bool.or_false, Bool.false_eq_true, if_false, c1, h2, if_true]
    have := Nat.mod_le (mant f) (2 ^ (1075 - expo f))
    generalize mant f % 2 ^ (1075 - expo f) = r at *
    omega
  have t52 : (2:Nat) ^ 52 = 4503599627370496 := by decide
  rw [t52] at hm
  generalize truncGo f = t at *
  unfold sign expo two63 two52 at *
  omega

/-- `Modf` = upstream `Modf` (integer part bits; NaN-ness, sign and zero-ness of the fraction), ALL bit patterns -/
theorem modf_eq (f : Nat) (h : f < two64) : modf f = modfGo f := by
  have hd := decode f h
  have hs : sign f = 0 ∨ sign f = 1 := by unfold sign; omega
  unfold modf modfGo
  rw [eqInf f h]
  by_cases hn : isNaN f = true
  · have hi : isInf f = false := by unfold isInf; unfold isNaN at hn; simp at hn ⊢; intro _; exact hn.2
    simp [hn, hi]
  · have hn' : isNaN f = false := by simpa using hn
    by_cases hi : isInf f = true
    · simp [hn', hi]
    · have hi' : isInf f = false := by simpa using hi
      simp only [hn', hi', Bool.false_eq_true, if_false]
      have hsx : signbit f = (sign f == 1) := signbit_spec f hn'
      have key : copysign (if expo f < 1023 then 0 else truncGo f) f = truncGo f := by
        by_cases hsm : expo f < 1023
        · rw [if_pos hsm]
          have hc : copysign 0 f = sign f * two63 := by
            unfold copysign
            rw [hsx, signbit_sign0 0 (by decide)]
            rcases hs with hs | hs
            · simp [hs]
            · simp [hs]; decide
          rw [hc]
          by_cases hz : isZero f = true
          · have : truncGo f = f := by unfold truncGo; simp [hz]
            rw [this]
            unfold isZero at hz
            simp only [Bool.and_eq_true, beq_iff_eq] at hz
            unfold two63 two52 at *; omega
          · have hz' : isZero f = false := by simpa using hz
            rw [truncGo_small f hsm (by simp [hz', hn', hi'])]
        · rw [if_neg hsm]
          by_cases hbig : 1075 ≤ expo f
          · rw [truncGo_big f hbig]; unfold copysign; simp
          · have ⟨hsg, hex⟩ := truncGo_fields f h (by omega) (by omega)
            have hrn : isNaN (truncGo f) = false := by
              have : expo f ≠ 2047 := by omega
              unfold isNaN; simp; omega
            unfold copysign
            rw [hsx, signbit_spec _ hrn, hsg]; simp
      rw [key]

end GV.Proofs.FloatBits

/-! ## Ldexp / Frexp -/
namespace GV.Proofs.FloatBits
open GV.FloatBits

/-- wherever the model of the override's `Ldexp` decides (zero, NaN, ±Inf, or a normal operand with a normal result and
    |exp| < 1024), upstream `ldexp` returns the same bit pattern -/
theorem ldexp_agree (frac : Nat) (e : Int) (b : Nat) (h : ldexp frac e = some b) : ldexpGo frac e = some b := by
  unfold ldexp at h
  unfold ldexpGo
  by_cases hr : -1024 < e ∧ e < 1024
  · rw [if_pos hr] at h
    by_cases hz : isZero frac = true
    · rw [if_pos hz] at h ⊢; exact h
    · rw [if_neg hz] at h ⊢
      by_cases hn : isNaN frac = true
      · rw [if_pos hn] at h ⊢; exact h
      · rw [if_neg hn] at h ⊢
        by_cases hi : isInf frac = true
        · rw [if_pos hi] at h ⊢; exact h
        · rw [if_neg hi] at h ⊢
          by_cases hc : expo frac ≠ 0 ∧ 1 ≤ (expo frac : Int) + e ∧ (expo frac : Int) + e ≤ 2046
          · rw [if_pos hc] at h
            rw [if_neg hc.1]
            have h1 : ¬ ((expo frac : Int) - 1023 + e < -1075) := by omega
            have h2 : ¬ ((expo frac : Int) - 1023 + e > 1023) := by omega
            have h3 : ¬ ((expo frac : Int) - 1023 + e < -1022) := by omega
            simp only [h1, h2, h3, if_false]
            have e1 : (expo frac : Int) - 1023 + e + 1023 = (expo frac : Int) + e := by omega
            rw [e1]; exact h
          · rw [if_neg hc] at h; exact absurd h (by simp)
  · rw [if_neg hr] at h; exact absurd h (by simp)

/-- the special-case table of `Ldexp` for |exp| < 1024: ±0 → ±0, ±Inf → ±Inf, NaN → NaN -/
theorem ldexp_special (frac : Nat) (e : Int) (hr : -1024 < e ∧ e < 1024) :
    (isZero frac = true → ldexp frac e = some frac) ∧
    (isInf frac = true → ldexp frac e = some frac) ∧
    (isNaN frac = true → ldexp frac e = some nanBits) := by
  unfold ldexp
  rw [if_pos hr]
  refine ⟨fun h => by rw [if_pos h], fun h => ?_, fun h => ?_⟩
  · have hz : isZero frac = false := by unfold isInf at h; unfold isZero; simp at h ⊢; omega
    have hn : isNaN frac = false := by unfold isInf at h; unfold isNaN; simp at h ⊢; intro _; exact h.2
    simp [hz, hn, h]
  · have hz : isZero frac = false := by unfold isNaN at h; unfold isZero; simp at h ⊢; omega
    simp [hz, h]

/-- `Frexp` of a normal f: the fraction carries exponent field 1022 (|frac| in [1/2, 1)), same sign and mantissa -/
theorem frexp_normal (f : Nat) (_hf : f < two64) (h1 : expo f ≠ 0) (h2 : expo f ≠ 2047) :
    (frexp f).2 = (expo f : Int) - 1022 ∧ expo (frexp f).1 = 1022 ∧ sign (frexp f).1 = sign f ∧ mant (frexp f).1 = mant f := by
  have hs : sign f ≤ 1 := by unfold sign; omega
  have hm : mant f < two52 := by unfold mant two52; omega
  have hz : isZero f = false := by unfold isZero; simp; omega
  have hi : isInf f = false := by unfold isInf; simp; omega
  have hn : isNaN f = false := by unfold isNaN; simp; omega
  unfold frexp
  simp only [hz, hi, hn, Bool.or_false, Bool.false_eq_true, if_false, h1, ne_eq, not_false_eq_true, if_true]
  refine ⟨trivial, ?_, ?_, ?_⟩ <;> (unfold sign expo mant two63 two52 at *; omega)

/-- decomposition then scaling is the identity: `Ldexp(Frexp(f)) = f` for every normal f below 2^1023
    (for the top binade Frexp's exponent is 1024 and Ldexp takes the upstream path) -/
theorem ldexp_frexp (f : Nat) (hf : f < two64) (h1 : expo f ≠ 0) (h2 : expo f < 2046) :
    ldexp (frexp f).1 (frexp f).2 = some f := by
  obtain ⟨he, hx, hsg, hmt⟩ := frexp_normal f hf h1 (by omega)
  have hd := decode f hf
  have hex : expo f ≤ 2045 := by omega
  unfold ldexp
  rw [he, hx, hsg, hmt]
  have hr : -1024 < (expo f : Int) - 1022 ∧ (expo f : Int) - 1022 < 1024 := by omega
  have hz : isZero (frexp f).1 = false := by unfold isZero; rw [hx]; simp
  have hn : isNaN (frexp f).1 = false := by unfold isNaN; rw [hx]; simp
  have hi : isInf (frexp f).1 = false := by unfold isInf; rw [hx]; simp
  have hc : (1022 : Nat) ≠ 0 ∧ 1 ≤ ((1022 : Nat) : Int) + ((expo f : Int) - 1022) ∧ ((1022 : Nat) : Int) + ((expo f : Int) - 1022) ≤ 2046 := by
    omega
  rw [if_pos hr, hz, hn, hi]
  simp only [Bool.false_eq_true, if_false]
  rw [if_pos hc]
  have e : (((1022 : Nat) : Int) + ((expo f : Int) - 1022)).toNat = expo f := by omega
  rw [e, ← hd]

end GV.Proofs.FloatBits
