import GV.Proofs.FloatBits

/-! floor/ceil/trunc/modf: ECMAScript definitions = Go's bit-mask algorithms (GV.Props.C13). -/

namespace GV.Proofs.FloatBits
open GV.FloatBits

theorem truncMag_neg (b : Nat) (h : b < two64) : truncMag (neg b) = truncMag b := by
  unfold truncMag; rw [expo_neg b h, mant_neg b h]
theorem hasFrac_neg (b : Nat) (h : b < two64) : hasFrac (neg b) = hasFrac b := by
  unfold hasFrac isZero; rw [expo_neg b h, mant_neg b h]
theorem isZero_neg (b : Nat) (h : b < two64) : isZero (neg b) = isZero b := by
  unfold isZero; rw [expo_neg b h, mant_neg b h]
theorem isNaN_neg (b : Nat) (h : b < two64) : isNaN (neg b) = isNaN b := by
  unfold isNaN; rw [expo_neg b h, mant_neg b h]
theorem isInf_neg (b : Nat) (h : b < two64) : isInf (neg b) = isInf b := by
  unfold isInf; rw [expo_neg b h, mant_neg b h]

theorem truncGo_le (x : Nat) (_hx : x < two64) (hs : sign x = 0) : truncGo x ≤ x := by
  unfold truncGo
  repeat' split
  all_goals first | omega | (simp [hs])

theorem sign_zero_lt (x : Nat) (hx : x < two64) (hs : sign x = 0) : x < two63 := by
  unfold sign two63 two64 at *; omega
theorem sign_one_ge (x : Nat) (hx : x < two64) (hs : sign x = 1) : two63 ≤ x := by
  unfold sign two63 two64 at *; omega

theorem special_iff (x : Nat) : (isZero x || isNaN x || isInf x) = (!isFinite x || isZero x) := by
  unfold isZero isNaN isInf isFinite
  cases h1 : (expo x == 2047) <;> cases h2 : (mant x == 0) <;> cases h3 : (expo x == 0) <;> simp_all

theorem hasFrac_big (x : Nat) (h : 1075 ≤ expo x) : hasFrac x = false := by
  unfold hasFrac
  have c1 : ¬ expo x < 1023 := by omega
  simp only [c1, if_false]
  split
  · have : expo x = 1075 := by omega
    simp [this, Nat.mod_one]
  · rfl

theorem truncGo_big (x : Nat) (h : 1075 ≤ expo x) : truncGo x = x := by
  unfold truncGo
  have c1 : ¬ expo x < 1023 := by omega
  have c2 : ¬ expo x < 1075 := by omega
  simp only [c1, c2, if_false]
  split <;> rfl

theorem truncGo_small (x : Nat) (h : expo x < 1023) (hz : (isZero x || isNaN x || isInf x) = false) :
    truncGo x = sign x * two63 := by
  unfold truncGo; simp only [hz, Bool.false_eq_true, if_false, h, if_true]

theorem hasFrac_small (x : Nat) (h : expo x < 1023) (hz : isZero x = false) : hasFrac x = true := by
  unfold hasFrac; simp [h, hz]

theorem truncMag_small (x : Nat) (h : expo x < 1023) : truncMag x = 0 := by
  unfold truncMag; simp [h]

/-- ECMAScript `Math.floor` (greatest integer below the exact value) = Go's `Floor`, for every bit pattern -/
theorem floor_eq (x : Nat) (hx : x < two64) : floorJS x = floorGo x := by
  unfold floorJS floorGo
  rw [special_iff]
  by_cases hsp : (!isFinite x || isZero x) = true
  · simp only [hsp, if_true]
  · have hsp' : (!isFinite x || isZero x) = false := by simpa using hsp
    have hsp2 : (isZero x || isNaN x || isInf x) = false := by rw [special_iff]; exact hsp'
    have hz : isZero x = false := by
      cases h : isZero x <;> simp_all
    simp only [hsp', Bool.false_eq_true, if_false]
    have hs : sign x = 0 ∨ sign x = 1 := by unfold sign; omega
    by_cases hbig : expo x ≥ 1075
    · simp only [hbig, if_true]
      rcases hs with hs | hs
      · simp [hs, truncGo_big x hbig]
      · have hnl := neg_lt x hx
        have : truncGo (neg x) = neg x := truncGo_big (neg x) (by rw [expo_neg x hx]; exact hbig)
        simp only [hs, beq_self_eq_true, if_true, hasFrac_big x hbig, Bool.false_eq_true, if_false, this]
        have := sign_one_ge x hx hs
        unfold neg two63 two64 at *; split <;> omega
    · simp only [hbig, if_false]
      have hlt : expo x < 1075 := by omega
      rcases hs with hs | hs
      · simp only [hs, show ((0:Nat) == 1) = false from rfl, show ((0:Nat) == 0) = true from rfl, Bool.false_eq_true, if_false, if_true]
        by_cases hsm : expo x < 1023
        · rw [truncMag_small x hsm, truncGo_small x hsm hsp2, hs]; simp [encodeNat]
        · rw [encode_trunc x hx (by omega) hlt, hs]; omega
      · simp only [hs, beq_self_eq_true, if_true, show ((1:Nat) == 0) = false from rfl, Bool.false_eq_true, if_false]
        by_cases hf : hasFrac x = true
        · simp only [hf, if_true]
        · have hf' : hasFrac x = false := by simpa using hf
          simp only [hf', Bool.false_eq_true, if_false]
          have hsm : ¬ expo x < 1023 := by
            intro hc; rw [hasFrac_small x hc hz] at hf'; exact absurd hf' (by simp)
          have hnl := neg_lt x hx
          rw [encode_trunc (neg x) hnl (by rw [expo_neg x hx]; omega) (by rw [expo_neg x hx]; exact hlt),
            truncMag_neg x hx, sign_neg x hx, hs]
          omega

/-- ECMAScript `Math.ceil` = Go's `Ceil` (= -Floor(-x)), for every bit pattern -/
theorem ceil_eq (x : Nat) (hx : x < two64) : ceilJS x = ceilGo x := by
  have hnl := neg_lt x hx
  unfold ceilJS ceilGo floorGo
  rw [isZero_neg x hx, isNaN_neg x hx, isInf_neg x hx, special_iff, sign_neg x hx, hasFrac_neg x hx, truncMag_neg x hx,
    neg_neg x hx]
  by_cases hsp : (!isFinite x || isZero x) = true
  · simp only [hsp, if_true, neg_neg x hx]
  · have hsp' : (!isFinite x || isZero x) = false := by simpa using hsp
    have hsp2 : (isZero x || isNaN x || isInf x) = false := by rw [special_iff]; exact hsp'
    have hz : isZero x = false := by
      cases h : isZero x <;> simp_all
    simp only [hsp', Bool.false_eq_true, if_false]
    have hs : sign x = 0 ∨ sign x = 1 := by unfold sign; omega
    have negadd : ∀ y, neg (two63 + y) = y := by
      intro y; unfold neg two63; split <;> omega
    by_cases hbig : expo x ≥ 1075
    · simp only [hbig, if_true]
      rcases hs with hs | hs
      · simp only [hs, show (1 - 0 == 1) = true from rfl, if_true, hasFrac_big x hbig, Bool.false_eq_true, if_false, negadd,
          truncGo_big x hbig]
      · simp only [hs, show (1 - 1 == 1) = false from rfl, Bool.false_eq_true, if_false]
        rw [truncGo_big (neg x) (by rw [expo_neg x hx]; exact hbig), neg_neg x hx]
    · simp only [hbig, if_false]
      have hlt : expo x < 1075 := by omega
      rcases hs with hs | hs
      · simp only [hs, show ((0:Nat) == 1) = false from rfl, Bool.false_eq_true, if_false, show (1 - 0 == 1) = true from rfl, if_true]
        by_cases hf : hasFrac x = true
        · simp only [hf, if_true, negadd]
        · have hf' : hasFrac x = false := by simpa using hf
          simp only [hf', Bool.false_eq_true, if_false, negadd]
          have hsm : ¬ expo x < 1023 := by
            intro hc; rw [hasFrac_small x hc hz] at hf'; exact absurd hf' (by simp)
          rw [encode_trunc x hx (by omega) hlt, hs]; omega
      · simp only [hs, beq_self_eq_true, if_true, show (1 - 1 == 1) = false from rfl, Bool.false_eq_true, if_false]
        have hsn : sign (neg x) = 0 := by rw [sign_neg x hx, hs]
        have hspn : (isZero (neg x) || isNaN (neg x) || isInf (neg x)) = false := by
          rw [isZero_neg x hx, isNaN_neg x hx, isInf_neg x hx]; exact hsp2
        by_cases hsm : expo x < 1023
        · rw [truncMag_small x hsm, truncGo_small (neg x) (by rw [expo_neg x hx]; exact hsm) hspn, hsn]
          unfold neg encodeNat two63; simp
        · have hle := truncGo_le (neg x) hnl hsn
          have hlt63 := sign_zero_lt (neg x) hnl hsn
          have e := encode_trunc (neg x) hnl (by rw [expo_neg x hx]; omega) (by rw [expo_neg x hx]; exact hlt)
          rw [truncMag_neg x hx, hsn] at e
          have e' : encodeNat (truncMag x) = truncGo (neg x) := by omega
          rw [e']
          unfold neg; rw [if_pos (by omega)]; omega

end GV.Proofs.FloatBits
