/-
  GV.Proofs.GoMapRefine — the JS-`Map` encoding of a Go map refines the abstract map modulo Go `==`.
-/
import GV.Model.GoMap
import GV.Proofs.MapKeyInj

namespace GV.Proofs.GoMapRefine
open GV.MapKey GV.GoMap GV.Spec.MapKey GV.Proofs.MapKeyStr GV.Proofs.MapKeyInj

/-! ### a JS Map seen through its live entries -/

abbrev L := List (JKey × Entry)

def lookupL : L → JKey → Option Entry
  | [], _ => none
  | (k', e) :: m, k => if k' = k then some e else lookupL m k

def setL : L → JKey → Entry → L
  | [], k, e => [(k, e)]
  | (k', e') :: m, k, e => if k' = k then (k, e) :: m else (k', e') :: setL m k e

def eraseL : L → JKey → L
  | [], _ => []
  | (k', e') :: m, k => if k' = k then m else (k', e') :: eraseL m k

theorem live_get (m : JMap) (k : JKey) : m.get k = lookupL m.live k := by
  induction m with
  | nil => rfl
  | cons x m ih =>
    cases x with
    | none => simp [JMap.get, JMap.live, ih]
    | some p => obtain ⟨k', e⟩ := p; simp [JMap.get, JMap.live, lookupL, ih]

theorem live_set (m : JMap) (k : JKey) (e : Entry) : (m.set k e).live = setL m.live k e := by
  induction m with
  | nil => rfl
  | cons x m ih =>
    cases x with
    | none => simp [JMap.set, JMap.live, ih]
    | some p =>
      obtain ⟨k', e'⟩ := p
      by_cases h : k' = k <;> simp [JMap.set, JMap.live, setL, ih, h]

theorem live_delete (m : JMap) (k : JKey) : (m.delete k).live = eraseL m.live k := by
  induction m with
  | nil => rfl
  | cons x m ih =>
    cases x with
    | none => simp [JMap.delete, JMap.live, ih]
    | some p =>
      obtain ⟨k', e'⟩ := p
      by_cases h : k' = k <;> simp [JMap.delete, JMap.live, eraseL, ih, h]

theorem live_size (m : JMap) : m.size = m.live.length := by
  induction m with
  | nil => rfl
  | cons x m ih => cases x <;> simp [JMap.size, JMap.live, ih]

/-! ### list-level refinement under pointwise agreement of the two equalities -/

/-- on every entry of `l`, "has JS key `jk`" and "Go-equal to `k`" agree -/
def Agree (l : L) (jk : JKey) (k : KVal) : Prop := ∀ x ∈ l, (x.1 = jk ↔ goEq x.2.1 k = true)

def abs (l : L) : AMap := l.map (·.2)

theorem lookup_agree (l : L) (jk : JKey) (k : KVal) (h : Agree l jk k) : lookupL l jk = (abs l).lookup k := by
  induction l with
  | nil => rfl
  | cons x l ih =>
    obtain ⟨k', e⟩ := x
    have hx := h (k', e) (by simp)
    have ih' := ih (fun y hy => h y (List.mem_cons_of_mem _ hy))
    simp only [abs, AMap.lookup] at ih' ⊢
    by_cases c : k' = jk
    · have := hx.mp c
      simp [lookupL, c, List.find?, this]
    · have : goEq e.1 k = false := by
        cases hg : goEq e.1 k with
        | false => rfl
        | true => exact absurd (hx.mpr hg) c
      simp [lookupL, c, List.find?, this, ih']

theorem set_agree (l : L) (jk : JKey) (k : KVal) (v : Int) (h : Agree l jk k) :
    abs (setL l jk (k, v)) = (abs l).insert k v := by
  induction l with
  | nil => rfl
  | cons x l ih =>
    obtain ⟨k', e⟩ := x
    have hx := h (k', e) (by simp)
    have ih' := ih (fun y hy => h y (List.mem_cons_of_mem _ hy))
    simp only [abs] at ih' ⊢
    by_cases c : k' = jk
    · have := hx.mp c
      simp [setL, c, AMap.insert, this]
    · have : goEq e.1 k = false := by
        cases hg : goEq e.1 k with
        | false => rfl
        | true => exact absurd (hx.mpr hg) c
      simp [setL, c, AMap.insert, this, ih']

def Distinct (l : L) : Prop := l.Pairwise (fun x y => x.1 ≠ y.1)

theorem erase_agree (l : L) (jk : JKey) (k : KVal) (h : Agree l jk k) (hd : Distinct l) :
    abs (eraseL l jk) = (abs l).erase k := by
  induction l with
  | nil => rfl
  | cons x l ih =>
    obtain ⟨k', e⟩ := x
    have hx := h (k', e) (by simp)
    have hl : Agree l jk k := fun y hy => h y (List.mem_cons_of_mem _ hy)
    have hd' := List.pairwise_cons.mp hd
    have ih' := ih hl hd'.2
    simp only [abs, AMap.erase] at ih' ⊢
    by_cases c : k' = jk
    · have g := hx.mp c
      simp only [eraseL, c, if_true, List.map_cons, List.filter_cons, g, Bool.not_true]
      simp only [Bool.false_eq_true, if_false]
      symm
      apply List.filter_eq_self.mpr
      intro y hy
      obtain ⟨z, hz, rfl⟩ := List.mem_map.mp hy
      have : z.1 ≠ jk := fun e' => hd'.1 z hz (by rw [c, e'])
      cases hg : goEq z.2.1 k with
      | false => rfl
      | true => exact absurd ((hl z hz).mpr hg) this
    · have : goEq e.1 k = false := by
        cases hg : goEq e.1 k with
        | false => rfl
        | true => exact absurd (hx.mpr hg) c
      simp [eraseL, c, List.filter_cons, this, ih']

theorem mem_setL (l : L) (jk : JKey) (e : Entry) (y : JKey × Entry) (hy : y ∈ setL l jk e) : y ∈ l ∨ y = (jk, e) := by
  induction l with
  | nil => simp [setL] at hy; exact Or.inr hy
  | cons x l ih =>
    obtain ⟨k', e'⟩ := x
    by_cases c : k' = jk
    · simp [setL, c] at hy
      rcases hy with hy | hy
      · exact Or.inr hy
      · exact Or.inl (List.mem_cons_of_mem _ hy)
    · simp [setL, c] at hy
      rcases hy with hy | hy
      · exact Or.inl (by rw [hy]; simp)
      · rcases ih hy with h | h
        · exact Or.inl (List.mem_cons_of_mem _ h)
        · exact Or.inr h

theorem mem_eraseL (l : L) (jk : JKey) (y : JKey × Entry) (hy : y ∈ eraseL l jk) : y ∈ l := by
  induction l with
  | nil => simp [eraseL] at hy
  | cons x l ih =>
    obtain ⟨k', e'⟩ := x
    by_cases c : k' = jk
    · simp [eraseL, c] at hy; exact List.mem_cons_of_mem _ hy
    · simp [eraseL, c] at hy
      rcases hy with hy | hy
      · rw [hy]; simp
      · exact List.mem_cons_of_mem _ (ih hy)

theorem distinct_setL (l : L) (jk : JKey) (e : Entry) (hd : Distinct l) : Distinct (setL l jk e) := by
  induction l with
  | nil => simp [setL, Distinct]
  | cons x l ih =>
    obtain ⟨k', e'⟩ := x
    have hd' := List.pairwise_cons.mp hd
    by_cases c : k' = jk
    · simp only [setL, c, if_true]
      exact List.pairwise_cons.mpr ⟨fun y hy => by have := hd'.1 y hy; rw [c] at this; exact this, hd'.2⟩
    · simp only [setL, c, if_false]
      refine List.pairwise_cons.mpr ⟨?_, ih hd'.2⟩
      intro y hy
      rcases mem_setL l jk e y hy with h | h
      · exact hd'.1 y h
      · rw [h]; exact c

theorem distinct_eraseL (l : L) (jk : JKey) (hd : Distinct l) : Distinct (eraseL l jk) := by
  induction l with
  | nil => simp [eraseL, Distinct]
  | cons x l ih =>
    obtain ⟨k', e'⟩ := x
    have hd' := List.pairwise_cons.mp hd
    by_cases c : k' = jk
    · simp only [eraseL, c, if_true]; exact hd'.2
    · simp only [eraseL, c, if_false]
      exact List.pairwise_cons.mpr ⟨fun y hy => hd'.1 y (mem_eraseL l jk y hy), ih hd'.2⟩

/-! ### the refinement relation -/

section
variable (fs : Int → Str) (shape : Nat → KType) (τ : KType)

/-- a value of the map's key type -/
def OKKey (k : KVal) : Prop := wt shape τ k = true

/-- every live entry is stored under the key that `keyFor` gave its Go key in some earlier state -/
def Tied (l : L) (s : KSt) : Prop :=
  ∀ x ∈ l, OKKey shape τ x.2.1 ∧ ∃ s0, Inv s0 ∧ (keyFor fs x.2.1 s0).1 = x.1 ∧ Le (keyFor fs x.2.1 s0).2 s

def Rel (jm : JMap) (s : KSt) (am : AMap) : Prop :=
  am = abs jm.live ∧ Inv s ∧ Tied fs shape τ jm.live s ∧ Distinct jm.live

/-- model state vs specification state -/
def RelO : MSt → GoMapS → Prop
  | ⟨none, s⟩, none => Inv s
  | ⟨some jm, s⟩, some am => Rel fs shape τ jm s am
  | _, _ => False

def OpOK : Op → Prop
  | .store k _ => OKKey shape τ k
  | .delete k => OKKey shape τ k
  | .index k => OKKey shape τ k
  | .commaOk k => OKKey shape τ k
  | .literal es => ∀ e ∈ es, OKKey shape τ e.1
  | _ => True

variable {fs shape τ}

theorem tied_agree (hfs : ToStringOK fs) {l : L} {s : KSt} (ht : Tied fs shape τ l s) (hi : Inv s) {k : KVal}
    (hk : OKKey shape τ k) : Agree l (keyFor fs k s).1 k := by
  intro x hx
  obtain ⟨ok, s0, i0, e, le⟩ := ht x hx
  rw [← e]
  exact key_inj hfs shape τ x.2.1 k s0 s ok hk i0 hi le

theorem tied_mono {l : L} {s s' : KSt} (ht : Tied fs shape τ l s) (h : Le s s') : Tied fs shape τ l s' := by
  intro x hx
  obtain ⟨ok, s0, i0, e, le⟩ := ht x hx
  exact ⟨ok, s0, i0, e, Le.trans le h⟩

theorem rel_store (hfs : ToStringOK fs) {jm : JMap} {s : KSt} {am : AMap} (h : Rel fs shape τ jm s am) {k : KVal} (v : Int)
    (hk : OKKey shape τ k) :
    Rel fs shape τ (jm.set (keyFor fs k s).1 (k, v)) (keyFor fs k s).2 (am.insert k v) := by
  obtain ⟨ha, hi, ht, hd⟩ := h
  have m := keyFor_mono fs k s hi
  refine ⟨?_, m.1, ?_, ?_⟩
  · rw [live_set, set_agree _ _ _ _ (tied_agree hfs ht hi hk), ha]
  · rw [live_set]
    intro x hx
    rcases mem_setL _ _ _ _ hx with hx | hx
    · exact tied_mono ht m.2 x hx
    · rw [hx]; exact ⟨hk, s, hi, rfl, Le.refl _⟩
  · rw [live_set]; exact distinct_setL _ _ _ hd

theorem rel_delete (hfs : ToStringOK fs) {jm : JMap} {s : KSt} {am : AMap} (h : Rel fs shape τ jm s am) {k : KVal}
    (hk : OKKey shape τ k) :
    Rel fs shape τ (jm.delete (keyFor fs k s).1) (keyFor fs k s).2 (am.erase k) := by
  obtain ⟨ha, hi, ht, hd⟩ := h
  have m := keyFor_mono fs k s hi
  refine ⟨?_, m.1, ?_, ?_⟩
  · rw [live_delete, erase_agree _ _ _ (tied_agree hfs ht hi hk) hd, ha]
  · rw [live_delete]
    intro x hx
    exact tied_mono ht m.2 x (mem_eraseL _ _ _ hx)
  · rw [live_delete]; exact distinct_eraseL _ _ hd

theorem rel_lookup (hfs : ToStringOK fs) {jm : JMap} {s : KSt} {am : AMap} (h : Rel fs shape τ jm s am) {k : KVal}
    (hk : OKKey shape τ k) :
    jm.get (keyFor fs k s).1 = am.lookup k ∧ Rel fs shape τ jm (keyFor fs k s).2 am := by
  obtain ⟨ha, hi, ht, hd⟩ := h
  have m := keyFor_mono fs k s hi
  exact ⟨by rw [live_get, lookup_agree _ _ _ (tied_agree hfs ht hi hk), ha], ha, m.1, tied_mono ht m.2, hd⟩

theorem rel_makeMap (hfs : ToStringOK fs) : ∀ (es : List Entry) (jm : JMap) (s : KSt) (am : AMap),
    Rel fs shape τ jm s am → (∀ e ∈ es, OKKey shape τ e.1) →
    Rel fs shape τ (makeMap fs es jm s).1 (makeMap fs es jm s).2 (es.foldl (fun a e => a.insert e.1 e.2) am)
  | [], _, _, _, h, _ => h
  | e :: es, jm, s, am, h, hk => by
    simp only [makeMap, List.foldl]
    exact rel_makeMap hfs es _ _ _ (rel_store hfs h e.2 (hk e (by simp))) (fun e' he' => hk e' (List.mem_cons_of_mem _ he'))

theorem rel_empty {s : KSt} (hi : Inv s) : Rel fs shape τ [] s [] :=
  ⟨rfl, hi, fun _ hx => by simp [JMap.live] at hx, by simp [JMap.live, Distinct]⟩

/-- one operation: same output, related successor states -/
theorem step_refines (hfs : ToStringOK fs) (ms : MSt) (gm : GoMapS) (h : RelO fs shape τ ms gm) (op : Op)
    (hop : OpOK shape τ op) :
    (step fs ms op).2 = (stepS gm op).2 ∧ RelO fs shape τ (step fs ms op).1 (stepS gm op).1 := by
  obtain ⟨m, s⟩ := ms
  cases m with
  | none =>
    cases gm with
    | some _ => simp [RelO] at h
    | none =>
      have hi : Inv s := h
      cases op with
      | store k v => exact ⟨rfl, hi⟩
      | delete k => exact ⟨rfl, (keyFor_mono fs k s hi).1⟩
      | index k => exact ⟨rfl, (keyFor_mono fs k s hi).1⟩
      | commaOk k => exact ⟨rfl, (keyFor_mono fs k s hi).1⟩
      | len => exact ⟨rfl, hi⟩
      | make => exact ⟨rfl, rel_empty hi⟩
      | setNil => exact ⟨rfl, hi⟩
      | literal es =>
        refine ⟨rfl, ?_⟩
        exact rel_makeMap hfs es [] s [] (rel_empty hi) hop
      | unhashable => exact ⟨rfl, hi⟩
  | some jm =>
    cases gm with
    | none => simp [RelO] at h
    | some am =>
      have hr : Rel fs shape τ jm s am := h
      cases op with
      | store k v => exact ⟨rfl, rel_store hfs hr v hop⟩
      | delete k => exact ⟨rfl, rel_delete hfs hr hop⟩
      | index k =>
        have := rel_lookup hfs hr hop
        refine ⟨?_, this.2⟩
        simp only [step, stepS, Option.bind, this.1, outOfEntry]
        cases am.lookup k <;> rfl
      | commaOk k =>
        have := rel_lookup hfs hr hop
        refine ⟨?_, this.2⟩
        simp only [step, stepS, Option.bind, this.1]
        cases am.lookup k <;> rfl
      | len =>
        refine ⟨?_, hr⟩
        simp only [step, stepS, live_size, hr.1, abs, List.length_map]
      | make => exact ⟨rfl, rel_empty hr.2.1⟩
      | setNil => exact ⟨rfl, hr.2.1⟩
      | literal es =>
        refine ⟨rfl, ?_⟩
        exact rel_makeMap hfs es [] s [] (rel_empty hr.2.1) hop
      | unhashable => exact ⟨rfl, hr⟩

/-- every history -/
theorem run_refines (hfs : ToStringOK fs) : ∀ (ops : List Op) (ms : MSt) (gm : GoMapS), RelO fs shape τ ms gm →
    (∀ op ∈ ops, OpOK shape τ op) → run fs ms ops = runS gm ops
  | [], _, _, _, _ => rfl
  | op :: ops, ms, gm, h, hk => by
    have st := step_refines hfs ms gm h op (hk op (by simp))
    simp only [run, runS, st.1]
    rw [run_refines hfs ops _ _ st.2 (fun o ho => hk o (List.mem_cons_of_mem _ ho))]

end

end GV.Proofs.GoMapRefine
