/-
  GV.Proofs.HeapCopy — correctness of `T.copy(dst, src)` (`copyInto`) and of `$clone` (`clone_deep`).
-/
import GV.Proofs.HeapBasic

namespace GV.Heap
open GV.Spec.GoValue

/-! ### `copyInto` through `kids` -/

theorem copyFields_replicate (t : Ty) (d s : Nat) : ∀ n H k,
    copyFields (List.replicate n t) H d s k =
      (List.range' k n).foldl (fun H i =>
        if isSpine t then copyInto t H (H.cell d i) (H.cell s i) else H.write d i (H.cell s i)) H := by
  intro n; induction n with
  | zero => intro H k; simp [copyFields]
  | succ n ih => intro H k; simp [List.replicate_succ, copyFields, List.range'_succ, ih]

theorem copyInto_node {t : Ty} (h : isSpine t = true) {d s : Int} (hds : d ≠ s) (H : Heap) :
    copyInto t H d s = copyFields (kids t) H d.toNat s.toNat 0 := by
  cases t with
  | struct fs => simp [copyInto, kids]
  | array n t =>
    by_cases hn : n = 0
    · subst hn; simp [copyInto, kids, copyFields]
    · simp only [copyInto, hn, hds, or_self, if_false, kids, copyFields_replicate, List.range_eq_range']
      cases isSpine t <;> simp
  | _ => simp [isSpine] at h

/-! ### 3. `copyInto` correctness -/

/-- specification of `T.copy(d, s)` for array/struct types `T`: when the destination spine is a tree that is
    disjoint from the source spine, afterwards `d` represents the Go value that `s` represented, the destination
    keeps its objects, nothing is allocated and nothing outside the destination spine is written -/
def CopyOK (t : Ty) : Prop := isSpine t = true → ∀ (H : Heap) (d s : Int),
    (spine t H d).Nodup → (∀ x ∈ spine t H d, x ∉ spine t H s) →
    flat t (copyInto t H d s) d = flat t H s ∧ spine t (copyInto t H d s) d = spine t H d ∧
    (copyInto t H d s).next = H.next ∧
    ∀ id, id ∉ spine t H d → ∀ i, (copyInto t H d s).cell id i = H.cell id i

theorem copy_step (f : Ty) (ihf : CopyOK f) (H : Heap) (d s k : Nat) (H1 : Heap)
    (hH1 : H1 = if isSpine f then copyInto f H (H.cell d k) (H.cell s k) else H.write d k (H.cell s k))
    (hd : d ∉ spine f H (H.cell d k)) (hnd : (spine f H (H.cell d k)).Nodup)
    (hdj : ∀ x ∈ spine f H (H.cell d k), x ∉ spine f H (H.cell s k)) :
    H1.next = H.next ∧ (∀ id, id ≠ d → id ∉ spine f H (H.cell d k) → ∀ j, H1.cell id j = H.cell id j) ∧
    (∀ j, j ≠ k → H1.cell d j = H.cell d j) ∧ flat f H1 (H1.cell d k) = flat f H (H.cell s k) ∧
    spine f H1 (H1.cell d k) = spine f H (H.cell d k) := by
  cases hsp : isSpine f with
  | true =>
    rw [hsp] at hH1; simp only [if_true] at hH1
    obtain ⟨c1, c2, c3, c4⟩ := ihf hsp H _ _ hnd hdj
    rw [hH1]
    have hc : (copyInto f H (H.cell d k) (H.cell s k)).cell d k = H.cell d k := c4 d hd k
    refine ⟨c3, fun id _ hid j => c4 id hid j, fun j _ => c4 d hd j, ?_, ?_⟩
    · rw [hc]; exact c1
    · rw [hc]; exact c2
  | false =>
    rw [hsp] at hH1; simp only [Bool.false_eq_true, if_false] at hH1
    rw [hH1]
    simp only [spine_leaf hsp, flat_leaf hsp]
    refine ⟨rfl, fun id hid _ j => by simp [Heap.write, hid], fun j hj => by simp [Heap.write, hj], ?_, trivial⟩
    simp [Heap.write]

theorem copyFields_ok (d s : Nat) (hds : d ≠ s) : ∀ (fs : List Ty), (∀ f ∈ fs, CopyOK f) →
    ∀ (k : Nat) (H : Heap),
    d ∉ spineFields fs H d k → d ∉ spineFields fs H s k → s ∉ spineFields fs H d k →
    (spineFields fs H d k).Nodup → (∀ x ∈ spineFields fs H d k, x ∉ spineFields fs H s k) →
    flatFields fs (copyFields fs H d s k) d k = flatFields fs H s k ∧
    spineFields fs (copyFields fs H d s k) d k = spineFields fs H d k ∧
    (copyFields fs H d s k).next = H.next ∧
    (∀ id, id ≠ d → id ∉ spineFields fs H d k → ∀ j, (copyFields fs H d s k).cell id j = H.cell id j) ∧
    (∀ j, j < k → (copyFields fs H d s k).cell d j = H.cell d j) := by
  intro fs; induction fs with
  | nil => intro _ k H _ _ _ _ _; simp [copyFields, flatFields, spineFields]
  | cons f fs ihfs =>
    intro ih k H h1 h2 h3 h4 h5
    simp only [spineFields, List.mem_append, not_or, List.nodup_append] at h1 h2 h3 h4 h5
    generalize hH1 : (if isSpine f then copyInto f H (H.cell d k) (H.cell s k)
      else H.write d k (H.cell s k)) = H1
    have hcf : copyFields (f :: fs) H d s k = copyFields fs H1 d s (k + 1) := by
      rw [← hH1]; simp only [copyFields]
    obtain ⟨a1, a2, a3, a4, a5⟩ := copy_step f (ih f List.mem_cons_self) H d s k H1 hH1.symm h1.1 h4.1
      (fun x hx => (h5 x (Or.inl hx)).1)
    have ed := fields_congr' fs H H1 d (k + 1) (fun j hj _ => a3 j (by omega))
      (fun x hx j => a2 x (fun e => h1.2 (e ▸ hx)) (fun hx' => h4.2.2 x hx' x hx rfl) j)
    have es := fields_congr' fs H H1 s (k + 1) (fun j _ _ => a2 s (Ne.symm hds) h3.1 j)
      (fun x hx j => a2 x (fun e => h2.2 (e ▸ hx)) (fun hx' => (h5 x (Or.inl hx')).2 hx) j)
    obtain ⟨b1, b2, b3, b4, b5⟩ := ihfs (fun g hg => ih g (List.mem_cons_of_mem _ hg)) (k + 1) H1
      (by rw [ed.1]; exact h1.2) (by rw [es.1]; exact h2.2) (by rw [ed.1]; exact h3.2)
      (by rw [ed.1]; exact h4.2.1) (by rw [ed.1, es.1]; exact fun x hx => (h5 x (Or.inr hx)).2)
    rw [hcf]
    generalize copyFields fs H1 d s (k + 1) = H' at *
    have hck : H'.cell d k = H1.cell d k := b5 k (by omega)
    have ec := spine_flat_congr f H1 H' (H1.cell d k) (fun x hx j => by
      rw [a5] at hx
      exact b4 x (fun e => h1.1 (e ▸ hx)) (by rw [ed.1]; exact fun hx' => h4.2.2 x hx x hx' rfl) j)
    refine ⟨?_, ?_, by rw [b3, a1], ?_, ?_⟩
    · simp only [flatFields]; rw [hck, ec.2, a4, b1, es.2]
    · simp only [spineFields]; rw [hck, ec.1, a5, b2, ed.1]
    · intro id hid hn j
      simp only [spineFields, List.mem_append, not_or] at hn
      rw [b4 id hid (by rw [ed.1]; exact hn.2) j, a2 id hid hn.1 j]
    · intro j hj
      rw [b5 j (by omega), a3 j (by omega)]

theorem copyInto_ok (t : Ty) : CopyOK t := by
  induction t using Ty.ind with
  | leaf t ht => intro h; rw [ht] at h; cases h
  | node t ht ih =>
    intro _ H d s hnd hdj
    rw [spine_node ht] at hnd hdj
    rw [spine_node ht H s] at hdj
    simp only [List.nodup_cons, List.mem_cons, not_or, forall_eq_or_imp] at hnd hdj
    have hne : d ≠ s := fun e => hdj.1.1 (by rw [e])
    rw [copyInto_node ht hne]
    obtain ⟨c1, c2, c3, c4, c5⟩ := copyFields_ok d.toNat s.toNat hdj.1.1 (kids t) ih 0 H hnd.1 hdj.1.2
      (fun h => (hdj.2 _ h).1 rfl) hnd.2 (fun x hx => (hdj.2 x hx).2)
    rw [flat_node ht, flat_node ht, spine_node ht, spine_node ht]
    refine ⟨c1, by rw [c2], c3, ?_⟩
    intro id hid i
    simp only [List.mem_cons, not_or] at hid
    exact c4 id hid.1 hid.2 i

/-- Target 3 in plain form. -/
theorem copyInto_correct (t : Ty) (ht : isSpine t = true) (H : Heap) (d s : Int)
    (hnd : (spine t H d).Nodup) (hdj : ∀ x ∈ spine t H d, x ∉ spine t H s) :
    flat t (copyInto t H d s) d = flat t H s ∧ spine t (copyInto t H d s) d = spine t H d ∧
    (copyInto t H d s).next = H.next ∧
    ∀ id, id ∉ spine t H d → ∀ i, (copyInto t H d s).cell id i = H.cell id i :=
  copyInto_ok t ht H d s hnd hdj

/-! ### 4. `$clone` is a deep copy into fresh objects -/

theorem clone_eq (t : Ty) (H : Heap) (v : Int) :
    clone t H v = (copyInto t (zero t H).1 (zero t H).2 v, (zero t H).2) := rfl

/-- `$clone(v, T)` for an array/struct type `T`: the clone represents the same Go value (every int cell and every
    reference cell — pointers/slices/maps/interfaces are shared), its whole spine consists of NEW objects forming a
    tree, and nothing that existed before is modified.  (For non array/struct `T` the translator never emits
    `$clone`, and the statement would be false: `clone int H 5 = (H, 0)`.) -/
theorem clone_deep (t : Ty) (ht : isSpine t = true) (H : Heap) (v : Int)
    (hv : ∀ id ∈ spine t H v, id < H.next) :
    flat t (clone t H v).1 (clone t H v).2 = flat t H v
  ∧ (∀ id ∈ spine t (clone t H v).1 (clone t H v).2, H.next ≤ id ∧ id < (clone t H v).1.next)
  ∧ (spine t (clone t H v).1 (clone t H v).2).Nodup
  ∧ (∀ id, id < H.next → ∀ i, (clone t H v).1.cell id i = H.cell id i)
  ∧ H.next ≤ (clone t H v).1.next := by
  rcases hz : zero t H with ⟨H1, c⟩
  rw [clone_eq, hz]; simp only
  obtain ⟨z1, z2, z3, z4, z5⟩ := zero_ok t H H1 c hz
  have ev := spine_flat_congr t H H1 v (fun x hx i => z2 x (hv x hx) i)
  obtain ⟨c1, c2, c3, c4⟩ := copyInto_ok t ht H1 c v z4 (fun x hx hx' => by
    rw [ev.1] at hx'; have := z3 x hx; have := hv x hx'; omega)
  refine ⟨by rw [c1, ev.2], fun id hid => by rw [c2] at hid; rw [c3]; exact z3 id hid,
    by rw [c2]; exact z4, fun id hid i => ?_, by rw [c3]; exact z1⟩
  rw [c4 id (fun hm => by have := z3 id hm; omega) i, z2 id hid i]

theorem clone_deep_counterexample : ¬ (flat .int (clone .int Heap.empty 5).1 (clone .int Heap.empty 5).2
    = flat .int Heap.empty 5) := by decide

end GV.Heap
