/-
  GV.Proofs.CacheKey — injectivity of the rendering of the cache key (GV.Model.Cache) before
  `path.Clean` is applied: Go string quoting is a prefix code, so the `%#v` rendering of the
  configuration followed by "/" and the import path can be parsed back.
-/
import GV.Model.Cache
import GV.Proofs.PathClean

namespace GV.Cache
open GV.PathClean

theorem hexDigit_inj {a b : Nat} (h : hexDigit a = hexDigit b) : a = b := by
  unfold hexDigit at h
  split at h <;> split at h <;> omega

def unhex (c : Nat) : Nat := if c < 58 then c - 48 else c - 87

theorem unhex_hexDigit (n : Nat) : unhex (hexDigit n) = n := by
  unfold unhex hexDigit
  split <;> split <;> omega

/-- the byte a C-style escape letter stands for (`\"`, `\\`, `\a` …) -/
def cesc (e : Nat) : Option Nat :=
  if e = 34 then some 34 else if e = 92 then some 92 else if e = 97 then some 7 else if e = 98 then some 8
  else if e = 102 then some 12 else if e = 110 then some 10 else if e = 114 then some 13 else if e = 116 then some 9
  else if e = 118 then some 11 else none

def hx2 (a b : Nat) : Nat := unhex a * 16 + unhex b

/-- reader of a quoted string body up to and including the closing quote: (decoded bytes, rest) -/
def unq : Str → Option (Str × Str)
  | [] => none
  | c :: r =>
    if c = 34 then some ([], r)
    else if c = 92 then
      match r with
      | [] => none
      | e :: r1 =>
        if e = 120 then
          match r1 with
          | h :: l :: r2 => (unq r2).map (fun p => (hx2 h l :: p.1, p.2))
          | _ => none
        else if e = 117 then
          match r1 with
          | d3 :: d2 :: d1 :: d0 :: r2 =>
            (unq r2).map (fun p => (GV.Spec.Utf8.encodeScalar (hx2 d3 d2 * 256 + hx2 d1 d0) ++ p.1, p.2))
          | _ => none
        else if e = 85 then
          match r1 with
          | d7 :: d6 :: d5 :: d4 :: d3 :: d2 :: d1 :: d0 :: r2 =>
            (unq r2).map (fun p => (GV.Spec.Utf8.encodeScalar
              (((hx2 d7 d6 * 256 + hx2 d5 d4) * 256 + hx2 d3 d2) * 256 + hx2 d1 d0) ++ p.1, p.2))
          | _ => none
        else
          match cesc e with
          | some b => (unq r1).map (fun p => (b :: p.1, p.2))
          | none => none
    else (unq r).map (fun p => (c :: p.1, p.2))

theorem unq_esc (b : Nat) (y : Str) : unq (esc b ++ y) = (unq y).map (fun p => (b :: p.1, p.2)) := by
  unfold esc
  split
  · next h => subst h; rw [List.cons_append, unq.eq_def]; simp [cesc]
  split
  · next h => subst h; rw [List.cons_append, unq.eq_def]; simp [cesc]
  split
  · next h => subst h; rw [List.cons_append, unq.eq_def]; simp [cesc]
  split
  · next h => subst h; rw [List.cons_append, unq.eq_def]; simp [cesc]
  split
  · next h => subst h; rw [List.cons_append, unq.eq_def]; simp [cesc]
  split
  · next h => subst h; rw [List.cons_append, unq.eq_def]; simp [cesc]
  split
  · next h => subst h; rw [List.cons_append, unq.eq_def]; simp [cesc]
  split
  · next h => subst h; rw [List.cons_append, unq.eq_def]; simp [cesc]
  split
  · next h => subst h; rw [List.cons_append, unq.eq_def]; simp [cesc]
  split
  · next h1 h2 _ _ _ _ _ _ _ h =>
    have : unq (b :: y) = (unq y).map (fun p => (b :: p.1, p.2)) := by
      rw [unq.eq_def]; simp [h1, h2]
    simpa using this
  · have hb : hx2 (hexDigit (b / 16)) (hexDigit (b % 16)) = b := by
      unfold hx2; rw [unhex_hexDigit, unhex_hexDigit]; omega
    rw [List.cons_append, unq.eq_def]; simp [hb]

/-- bytes ≥ 0x80 are copied by the reader -/
theorem unq_literal (bs : Str) (y : Str) (h : ∀ b ∈ bs, 0x80 ≤ b) :
    unq (bs ++ y) = (unq y).map (fun p => (bs ++ p.1, p.2)) := by
  induction bs with
  | nil => simp
  | cons b bs ih =>
    have hb : 0x80 ≤ b := h b (by simp)
    have h34 : b ≠ 34 := by omega
    have h92 : b ≠ 92 := by omega
    have : unq (b :: (bs ++ y)) = (unq (bs ++ y)).map (fun p => (b :: p.1, p.2)) := by
      rw [unq.eq_def]; simp [h34, h92]
    rw [List.cons_append, this, ih (fun x hx => h x (by simp [hx]))]
    cases unq y <;> simp

theorem hx2_hex (r : Nat) (h : r < 256) : hx2 (hexDigit (r / 16)) (hexDigit (r % 16)) = r := by
  unfold hx2; rw [unhex_hexDigit, unhex_hexDigit]; omega

theorem hexN4 (r : Nat) : hexN 4 r = [hexDigit (r / 4096 % 16), hexDigit (r / 256 % 16), hexDigit (r / 16 % 16), hexDigit (r % 16)] := by
  simp only [hexN, List.nil_append, List.cons_append, List.append_assoc]
  have e1 : r / 16 / 16 % 16 = r / 256 % 16 := by omega
  have e2 : r / 16 / 16 / 16 % 16 = r / 4096 % 16 := by omega
  rw [e1, e2]

theorem hexN8 (r : Nat) : hexN 8 r = [hexDigit (r / 268435456 % 16), hexDigit (r / 16777216 % 16), hexDigit (r / 1048576 % 16),
    hexDigit (r / 65536 % 16), hexDigit (r / 4096 % 16), hexDigit (r / 256 % 16), hexDigit (r / 16 % 16), hexDigit (r % 16)] := by
  simp only [hexN, List.nil_append, List.cons_append, List.append_assoc]
  have e1 : r / 16 / 16 % 16 = r / 256 % 16 := by omega
  have e2 : r / 16 / 16 / 16 % 16 = r / 4096 % 16 := by omega
  have e3 : r / 16 / 16 / 16 / 16 % 16 = r / 65536 % 16 := by omega
  have e4 : r / 16 / 16 / 16 / 16 / 16 % 16 = r / 1048576 % 16 := by omega
  have e5 : r / 16 / 16 / 16 / 16 / 16 / 16 % 16 = r / 16777216 % 16 := by omega
  have e6 : r / 16 / 16 / 16 / 16 / 16 / 16 / 16 % 16 = r / 268435456 % 16 := by omega
  rw [e1, e2, e3, e4, e5, e6]

/-- reading back an escaped or literal rune whose UTF-8 encoding is `bs` -/
theorem unq_escRune (ip : Nat → Bool) (r : Nat) (bs y : Str) (hb : ∀ b ∈ bs, 0x80 ≤ b)
    (henc : GV.Spec.Utf8.encodeScalar r = bs) (hr : r < 0x110000) :
    unq (escRune ip r bs ++ y) = (unq y).map (fun p => (bs ++ p.1, p.2)) := by
  unfold escRune
  split
  · exact unq_literal bs y hb
  split
  · next _ h4 =>
    rw [hexN4]
    have hv : hx2 (hexDigit (r / 4096 % 16)) (hexDigit (r / 256 % 16)) * 256
        + hx2 (hexDigit (r / 16 % 16)) (hexDigit (r % 16)) = r := by
      unfold hx2; simp only [unhex_hexDigit]; omega
    rw [List.cons_append, unq.eq_def]; simp [hv, henc]
  · rw [hexN8]
    have hv : ((hx2 (hexDigit (r / 268435456 % 16)) (hexDigit (r / 16777216 % 16)) * 256
        + hx2 (hexDigit (r / 1048576 % 16)) (hexDigit (r / 65536 % 16))) * 256
        + hx2 (hexDigit (r / 4096 % 16)) (hexDigit (r / 256 % 16))) * 256
        + hx2 (hexDigit (r / 16 % 16)) (hexDigit (r % 16)) = r := by
      unfold hx2; simp only [unhex_hexDigit]; omega
    rw [List.cons_append, unq.eq_def]; simp [hv, henc]

open GV.Spec.Utf8 in
/-- what `decodeL` says about the front of a string: width 1, or a well-formed sequence of 2-4 bytes ≥ 0x80
    whose scalar value re-encodes to exactly those bytes -/
theorem decodeL_cases (a : Nat) (t : Str) :
    (decodeL (a :: t)).2 = 1 ∨
    (∃ b t2, t = b :: t2 ∧ decodeL (a :: t) = (v2 a b, 2) ∧ encodeScalar (v2 a b) = [a, b] ∧ 0x80 ≤ a ∧ 0x80 ≤ b ∧ v2 a b < 0x110000) ∨
    (∃ b c t3, t = b :: c :: t3 ∧ decodeL (a :: t) = (v3 a b c, 3) ∧ encodeScalar (v3 a b c) = [a, b, c] ∧
        0x80 ≤ a ∧ 0x80 ≤ b ∧ 0x80 ≤ c ∧ v3 a b c < 0x110000) ∨
    (∃ b c d t4, t = b :: c :: d :: t4 ∧ decodeL (a :: t) = (v4 a b c d, 4) ∧ encodeScalar (v4 a b c d) = [a, b, c, d] ∧
        0x80 ≤ a ∧ 0x80 ≤ b ∧ 0x80 ≤ c ∧ 0x80 ≤ d ∧ v4 a b c d < 0x110000) := by
  by_cases h1 : wf1 a
  · left; simp only [decodeL, if_pos h1]
  cases t with
  | nil => left; simp only [decodeL, if_neg h1]
  | cons b t2 =>
    by_cases h2 : wf2 a b
    · right; left
      refine ⟨b, t2, rfl, by simp only [decodeL, if_neg h1, if_pos h2], ?_, by omega, by omega, by unfold v2; omega⟩
      unfold encodeScalar v2
      rw [if_neg (by omega), if_pos (by omega)]
      simp only [List.cons.injEq, and_true]
      exact ⟨by omega, by omega⟩
    cases t2 with
    | nil => left; simp only [decodeL, if_neg h1, if_neg h2]
    | cons c t3 =>
      by_cases h3 : wf3 a b c
      · right; right; left
        refine ⟨b, c, t3, rfl, by simp only [decodeL, if_neg h1, if_neg h2, if_pos h3], ?_, by omega, by omega, by omega,
          by unfold v3; omega⟩
        unfold encodeScalar v3
        rw [if_neg (by omega), if_neg (by omega), if_pos (by omega)]
        simp only [List.cons.injEq, and_true]
        exact ⟨by omega, by omega, by omega⟩
      cases t3 with
      | nil => left; simp only [decodeL, if_neg h1, if_neg h2, if_neg h3]
      | cons d t4 =>
        by_cases h4 : wf4 a b c d
        · right; right; right
          refine ⟨b, c, d, t4, rfl, by simp only [decodeL, if_neg h1, if_neg h2, if_neg h3, if_pos h4], ?_, by omega, by omega,
            by omega, by omega, by unfold v4; omega⟩
          unfold encodeScalar v4
          rw [if_neg (by omega), if_neg (by omega), if_neg (by omega)]
          simp only [List.cons.injEq, and_true]
          exact ⟨by omega, by omega, by omega, by omega⟩
        · left; simp only [decodeL, if_neg h1, if_neg h2, if_neg h3, if_neg h4]

theorem quoteAux_skip (ip : Nat → Bool) (bs t : Str) : quoteAux ip bs.length (bs ++ t) = quoteAux ip 0 t := by
  induction bs with
  | nil => rfl
  | cons b bs ih => simpa [quoteAux] using ih

/-- the reader inverts the quoting loop, whatever follows the closing quote -/
theorem unq_quoteAux (ip : Nat → Bool) (n : Nat) : ∀ (s x : Str), s.length ≤ n → unq (quoteAux ip 0 s ++ x) = some (s, x) := by
  induction n with
  | zero =>
    intro s x hs
    have : s = [] := List.eq_nil_of_length_eq_zero (by omega)
    subst this
    simp [quoteAux, unq.eq_def]
  | succ n ih =>
    intro s x hs
    cases s with
    | nil => simp [quoteAux, unq.eq_def]
    | cons a t =>
      simp only [List.length_cons] at hs
      rcases decodeL_cases a t with h1 | ⟨b, t2, rfl, hd, henc, ha, hb, hr⟩ | ⟨b, c, t3, rfl, hd, henc, ha, hb, hc, hr⟩ |
          ⟨b, c, d, t4, rfl, hd, henc, ha, hb, hc, hd', hr⟩
      · simp only [quoteAux, h1, if_true, List.append_assoc]
        rw [unq_esc, ih t x (by omega)]
        rfl
      · simp only [quoteAux, hd]
        rw [if_neg (by decide)]
        simp only [List.take, Nat.reduceSub, List.append_assoc]
        have hmem : ∀ z ∈ [a, b], 0x80 ≤ z := by
          intro z hz
          simp only [List.mem_cons, List.mem_nil_iff, or_false] at hz
          rcases hz with rfl | rfl
          · exact ha
          · exact hb
        rw [unq_escRune ip _ [a, b] _ hmem henc hr,
          ih t2 x (by simp only [List.length_cons] at hs; omega)]
        rfl
      · simp only [quoteAux, hd]
        rw [if_neg (by decide)]
        simp only [List.take, Nat.reduceSub, List.append_assoc]
        have hmem : ∀ z ∈ [a, b, c], 0x80 ≤ z := by
          intro z hz
          simp only [List.mem_cons, List.mem_nil_iff, or_false] at hz
          rcases hz with rfl | rfl | rfl
          · exact ha
          · exact hb
          · exact hc
        rw [unq_escRune ip _ [a, b, c] _ hmem henc hr,
          ih t3 x (by simp only [List.length_cons] at hs; omega)]
        rfl
      · simp only [quoteAux, hd]
        rw [if_neg (by decide)]
        simp only [List.take, Nat.reduceSub, List.append_assoc]
        have hmem : ∀ z ∈ [a, b, c, d], 0x80 ≤ z := by
          intro z hz
          simp only [List.mem_cons, List.mem_nil_iff, or_false] at hz
          rcases hz with rfl | rfl | rfl | rfl
          · exact ha
          · exact hb
          · exact hc
          · exact hd'
        rw [unq_escRune ip _ [a, b, c, d] _ hmem henc hr,
          ih t4 x (by simp only [List.length_cons] at hs; omega)]
        rfl

/-- a quoted string can be split off the front of any text: Go quoting is self-delimiting -/
theorem quote_cancel (ip : Nat → Bool) (s s' x x' : Str) (h : quote ip s ++ x = quote ip s' ++ x') : s = s' ∧ x = x' := by
  unfold quote at h
  simp only [List.cons_append] at h
  injection h with _ h
  have := congrArg unq h
  rw [unq_quoteAux ip s.length s x (Nat.le_refl _), unq_quoteAux ip s'.length s' x' (Nat.le_refl _)] at this
  injection this with this
  injection this with h1 h2
  exact ⟨h1, h2⟩

/-- `strconv.Quote` (as modelled: all byte strings, any `IsPrint`) is injective -/
theorem quote_injective (ip : Nat → Bool) (s s' : Str) (h : quote ip s = quote ip s') : s = s' := by
  have := quote_cancel ip s s' [] [] (by simpa using h)
  exact this.1

theorem tagsRest_cancel (ip : Nat → Bool) (l l' : List Str) (x x' : Str) (h : tagsRest ip l ++ x = tagsRest ip l' ++ x') : l = l' ∧ x = x' := by
  induction l generalizing l' with
  | nil =>
    cases l' with
    | nil => simpa [tagsRest] using h
    | cons b r => simp [tagsRest] at h
  | cons a r ih =>
    cases l' with
    | nil => simp [tagsRest] at h
    | cons b r' =>
      simp only [tagsRest, List.append_assoc, List.cons_append, List.nil_append] at h
      injection h with _ h
      injection h with _ h
      obtain ⟨h1, h2⟩ := quote_cancel ip a b _ _ h
      obtain ⟨h3, h4⟩ := ih r' h2
      exact ⟨by rw [h1, h3], h4⟩

theorem tagsElems_cancel (ip : Nat → Bool) (l l' : List Str) (x x' : Str) (h : tagsElems ip l ++ x = tagsElems ip l' ++ x') : l = l' ∧ x = x' := by
  cases l with
  | nil =>
    cases l' with
    | nil => simpa [tagsElems] using h
    | cons b r => simp [tagsElems, quote] at h
  | cons a r =>
    cases l' with
    | nil => simp [tagsElems, quote] at h
    | cons b r' =>
      simp only [tagsElems, List.append_assoc] at h
      obtain ⟨h1, h2⟩ := quote_cancel ip a b _ _ h
      obtain ⟨h3, h4⟩ := tagsRest_cancel ip r r' _ _ h2
      exact ⟨by rw [h1, h3], h4⟩

theorem renderTags_cancel (ip : Nat → Bool) (t t' : Option (List Str)) (x x' : Str) (h : renderTags ip t ++ x = renderTags ip t' ++ x') :
    t = t' ∧ x = x' := by
  cases t with
  | none =>
    cases t' with
    | none => exact ⟨rfl, List.append_cancel_left h⟩
    | some l' => simp [renderTags, litNil, litOpen] at h
  | some l =>
    cases t' with
    | none => simp [renderTags, litNil, litOpen] at h
    | some l' =>
      simp only [renderTags, List.append_assoc] at h
      obtain ⟨h1, h2⟩ := tagsElems_cancel ip l l' _ _ (List.append_cancel_left h)
      exact ⟨by rw [h1], h2⟩

theorem commonKey_cancel (ip : Nat → Bool) (c c' : Cfg) (x x' : Str) (h : commonKey ip c ++ x = commonKey ip c' ++ x') : c = c' ∧ x = x' := by
  unfold commonKey at h
  simp only [List.append_assoc] at h
  obtain ⟨e1, h⟩ := quote_cancel ip _ _ _ _ (List.append_cancel_left h)
  obtain ⟨e2, h⟩ := quote_cancel ip _ _ _ _ (List.append_cancel_left h)
  obtain ⟨e3, h⟩ := quote_cancel ip _ _ _ _ (List.append_cancel_left h)
  obtain ⟨e4, h⟩ := quote_cancel ip _ _ _ _ (List.append_cancel_left h)
  obtain ⟨e5, h⟩ := renderTags_cancel ip _ _ _ _ (List.append_cancel_left h)
  obtain ⟨e6, h⟩ := quote_cancel ip _ _ _ _ (List.append_cancel_left h)
  simp only [List.cons_append, List.nil_append] at h
  injection h with _ h
  refine ⟨?_, h⟩
  cases c; cases c'
  simp_all

/-- the (repaired) key determines the configuration and the import path -/
theorem packageKey_injective (ip : Nat → Bool) (c c' : Cfg) (p p' : Str) (h : packageKey ip c p = packageKey ip c' p') :
    c = c' ∧ p = p' := by
  unfold packageKey at h
  have h := List.append_cancel_left h
  injection h with _ h
  obtain ⟨e1, h⟩ := commonKey_cancel ip c c' _ _ h
  injection h with _ h
  exact ⟨e1, h⟩

/-- REPAIRED DEFECT: the old key is `path.Clean` of the new one -/
theorem packageKeyOld_eq (ip : Nat → Bool) (c : Cfg) (p : Str) : packageKeyOld ip c p = clean (packageKey ip c p) := by
  unfold packageKeyOld pathJoin packageKey
  have h1 : ([litPackage, commonKey ip c, p].map List.length).sum ≠ 0 := by simp [litPackage]
  rw [if_neg h1]
  congr 1
  simp [joinRaw, litPackage]

theorem cachedPath_eq {P : Type} (E : Env P) (c : Cfg) (p : Str) : cachedPath E c p = E.h (packageKey E.isPrint c p) := rfl

end GV.Cache
