/-
  GV.Proofs.CacheKey — injectivity of the rendering of the cache key (GV.Model.Cache) before
  `path.Clean` is applied: Go string quoting is a prefix code, so the `%#v` rendering of the
  configuration followed by "/" and the import path can be parsed back.
-/
import GV.Model.Cache
import GV.Proofs.PathClean

namespace GV.Cache
open GV.PathClean

theorem hexDigit_inj {a b : Nat} (h : hexDigit a = hexDigit b) : a = b := by
  unfold hexDigit at h
  split at h <;> split at h <;> omega

def unhex (c : Nat) : Nat := if c < 58 then c - 48 else c - 87

theorem unhex_hexDigit (n : Nat) : unhex (hexDigit n) = n := by
  unfold unhex hexDigit
  split <;> split <;> omega

/-- decoder of one escaped byte (inverse of `esc` on its image) -/
def unesc : Str → Option (Nat × Str)
  | [] => none
  | c :: r =>
    if c = 92 then
      match r with
      | [] => none
      | d :: r' =>
        if d = 34 then some (34, r')
        else if d = 92 then some (92, r')
        else if d = 97 then some (7, r')
        else if d = 98 then some (8, r')
        else if d = 102 then some (12, r')
        else if d = 110 then some (10, r')
        else if d = 114 then some (13, r')
        else if d = 116 then some (9, r')
        else if d = 118 then some (11, r')
        else if d = 120 then
          match r' with
          | h :: l :: r'' => some (unhex h * 16 + unhex l, r'')
          | _ => none
        else none
    else if c = 34 then none
    else some (c, r)

theorem unesc_esc (b : Nat) (x : Str) : unesc (esc b ++ x) = some (b, x) := by
  unfold esc
  split
  · next h => subst h; simp [unesc]
  split
  · next h => subst h; simp [unesc]
  split
  · next h => subst h; simp [unesc]
  split
  · next h => subst h; simp [unesc]
  split
  · next h => subst h; simp [unesc]
  split
  · next h => subst h; simp [unesc]
  split
  · next h => subst h; simp [unesc]
  split
  · next h => subst h; simp [unesc]
  split
  · next h => subst h; simp [unesc]
  split
  · next h1 h2 _ _ _ _ _ _ _ h => simp [unesc, h1, h2]
  · simp [unesc, unhex_hexDigit]
    omega

theorem unesc_quote (x : Str) : unesc (34 :: x) = none := by simp [unesc]

theorem quoteBody_cancel (s s' x x' : Str) (h : quoteBody s ++ x = quoteBody s' ++ x') : s = s' ∧ x = x' := by
  induction s generalizing s' with
  | nil =>
    cases s' with
    | nil => simpa [quoteBody] using h
    | cons b' r' =>
      exfalso
      have := congrArg unesc h
      simp only [quoteBody, List.append_assoc, List.cons_append, List.nil_append] at this
      rw [unesc_quote, unesc_esc] at this
      cases this
  | cons b r ih =>
    cases s' with
    | nil =>
      exfalso
      have := congrArg unesc h
      simp only [quoteBody, List.append_assoc, List.cons_append, List.nil_append] at this
      rw [unesc_quote, unesc_esc] at this
      cases this
    | cons b' r' =>
      have := congrArg unesc h
      simp only [quoteBody, List.append_assoc] at this
      rw [unesc_esc, unesc_esc] at this
      injection this with this
      injection this with hb hr
      obtain ⟨h1, h2⟩ := ih r' hr
      exact ⟨by rw [hb, h1], h2⟩

/-- a quoted string can be split off the front of any text: Go quoting is self-delimiting -/
theorem quote_cancel (s s' x x' : Str) (h : quote s ++ x = quote s' ++ x') : s = s' ∧ x = x' := by
  unfold quote at h
  simp only [List.cons_append] at h
  injection h with _ h
  exact quoteBody_cancel s s' x x' h

/-- `strconv.Quote` (as modelled) is injective -/
theorem quote_injective (s s' : Str) (h : quote s = quote s') : s = s' := by
  have := quote_cancel s s' [] [] (by simpa using h)
  exact this.1

theorem tagsRest_cancel (l l' : List Str) (x x' : Str) (h : tagsRest l ++ x = tagsRest l' ++ x') : l = l' ∧ x = x' := by
  induction l generalizing l' with
  | nil =>
    cases l' with
    | nil => simpa [tagsRest] using h
    | cons b r => simp [tagsRest] at h
  | cons a r ih =>
    cases l' with
    | nil => simp [tagsRest] at h
    | cons b r' =>
      simp only [tagsRest, List.append_assoc, List.cons_append, List.nil_append] at h
      injection h with _ h
      injection h with _ h
      obtain ⟨h1, h2⟩ := quote_cancel a b _ _ h
      obtain ⟨h3, h4⟩ := ih r' h2
      exact ⟨by rw [h1, h3], h4⟩

theorem tagsElems_cancel (l l' : List Str) (x x' : Str) (h : tagsElems l ++ x = tagsElems l' ++ x') : l = l' ∧ x = x' := by
  cases l with
  | nil =>
    cases l' with
    | nil => simpa [tagsElems] using h
    | cons b r => simp [tagsElems, quote] at h
  | cons a r =>
    cases l' with
    | nil => simp [tagsElems, quote] at h
    | cons b r' =>
      simp only [tagsElems, List.append_assoc] at h
      obtain ⟨h1, h2⟩ := quote_cancel a b _ _ h
      obtain ⟨h3, h4⟩ := tagsRest_cancel r r' _ _ h2
      exact ⟨by rw [h1, h3], h4⟩

theorem renderTags_cancel (t t' : Option (List Str)) (x x' : Str) (h : renderTags t ++ x = renderTags t' ++ x') :
    t = t' ∧ x = x' := by
  cases t with
  | none =>
    cases t' with
    | none => exact ⟨rfl, List.append_cancel_left h⟩
    | some l' => simp [renderTags, litNil, litOpen] at h
  | some l =>
    cases t' with
    | none => simp [renderTags, litNil, litOpen] at h
    | some l' =>
      simp only [renderTags, List.append_assoc] at h
      obtain ⟨h1, h2⟩ := tagsElems_cancel l l' _ _ (List.append_cancel_left h)
      exact ⟨by rw [h1], h2⟩

theorem commonKey_cancel (c c' : Cfg) (x x' : Str) (h : commonKey c ++ x = commonKey c' ++ x') : c = c' ∧ x = x' := by
  unfold commonKey at h
  simp only [List.append_assoc] at h
  obtain ⟨e1, h⟩ := quote_cancel _ _ _ _ (List.append_cancel_left h)
  obtain ⟨e2, h⟩ := quote_cancel _ _ _ _ (List.append_cancel_left h)
  obtain ⟨e3, h⟩ := quote_cancel _ _ _ _ (List.append_cancel_left h)
  obtain ⟨e4, h⟩ := quote_cancel _ _ _ _ (List.append_cancel_left h)
  obtain ⟨e5, h⟩ := renderTags_cancel _ _ _ _ (List.append_cancel_left h)
  obtain ⟨e6, h⟩ := quote_cancel _ _ _ _ (List.append_cancel_left h)
  simp only [List.cons_append, List.nil_append] at h
  injection h with _ h
  refine ⟨?_, h⟩
  cases c; cases c'
  simp_all

/-- the text handed to `path.Clean` determines the configuration and the import path -/
theorem rawKey_injective (c c' : Cfg) (p p' : Str) (h : rawKey c p = rawKey c' p') : c = c' ∧ p = p' := by
  unfold rawKey at h
  have h := List.append_cancel_left h
  injection h with _ h
  obtain ⟨e1, h⟩ := commonKey_cancel c c' _ _ h
  injection h with _ h
  exact ⟨e1, h⟩

theorem packageKey_eq (c : Cfg) (p : Str) : packageKey c p = clean (rawKey c p) := by
  unfold packageKey pathJoin rawKey
  have h1 : ([litPackage, commonKey c, p].map List.length).sum ≠ 0 := by simp [litPackage]
  rw [if_neg h1]
  congr 1
  simp [joinRaw, litPackage]

theorem pathJoin_single_clean (x : Str) : pathJoin [clean x] = clean x := by
  unfold pathJoin
  by_cases h : clean x = []
  · simp [h]
  · have : ([clean x].map List.length).sum ≠ 0 := by simpa using h
    rw [if_neg this]
    simp [joinRaw, h, clean_idempotent]

/-- `cachedPath(packageKey)`: the second `path.Join` (cache.go:68) changes nothing (idempotence of Clean) -/
theorem cachedPath_eq {P : Type} (E : Env P) (c : Cfg) (p : Str) : cachedPath E c p = E.h (packageKey c p) := by
  unfold cachedPath
  rw [packageKey_eq, pathJoin_single_clean]

end GV.Cache
