import GV.Driver.Loop
import GV.Driver.C04

def main : IO Unit := GV.Driver.run fun
  | "inst" :: rest => GV.Driver.C04.handle rest
  | _ => "bad-topic"
