import GV.Driver.Loop
import GV.Driver.C13

def main : IO Unit := GV.Driver.run fun
  | "bits" :: rest => GV.Driver.C13.bits rest
  | "cm" :: rest => GV.Driver.C13.cm rest
  | "at" :: rest => GV.Driver.C13.at_ rest
  | "fl" :: rest => GV.Driver.C13.fl rest
  | "ns" :: rest => GV.Driver.C13.ns rest
  | _ => "bad-topic"
