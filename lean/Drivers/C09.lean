import GV.Driver.Loop
import GV.Driver.C09

def main : IO Unit := GV.Driver.run fun
  | "types" :: rest => GV.Driver.C09.handle rest
  | "recv" :: rest => GV.Driver.C09.handleRecv rest
  | _ => "bad-topic"
