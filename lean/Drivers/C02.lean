import GV.Driver.Loop
import GV.Driver.C02

def main : IO Unit := GV.Driver.run fun
  | "c02" :: rest => GV.Driver.C02.handle rest
  | _ => "bad-topic"
