import GV.Driver.Loop
import GV.Driver.C10

def main : IO Unit := GV.Driver.run fun
  | "link" :: rest => GV.Driver.C10.handleLink rest
  | "ln" :: rest => GV.Driver.C10.handleLn rest
  | _ => "bad-topic"
