import GV.Driver.Loop
import GV.Model.Order

/-- C17 has no line-protocol tie (the model's facts are regenerated into Lean and checked by `decide`);
    the driver only exposes `sortedKeys` for smoke tests. -/
def main : IO Unit := GV.Driver.run fun
  | ["order", "sort", ks] => ",".intercalate (GV.Order.sortedKeys (ks.splitOn ","))
  | _ => "bad-topic"
