import GV.Driver.Loop
import GV.Driver.C20

def main : IO Unit := GV.Driver.runState GV.Cache.FS.empty fun fs ws =>
  match ws with
  | "cache" :: rest => GV.Driver.C20.handle fs rest
  | _ => (fs, "bad-topic")
