import GV.Driver.Loop
import GV.Driver.C20

def main : IO Unit := GV.Driver.runState GV.Driver.C20.St.init fun st ws =>
  match ws with
  | "cache" :: rest => GV.Driver.C20.handle st rest
  | _ => (st, "bad-topic")
