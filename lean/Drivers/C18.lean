import GV.Driver.Loop
import GV.Driver.C18

def main : IO Unit := GV.Driver.run fun
  | "bt" :: rest => GV.Driver.C18.handle rest
  | _ => "bad-topic"
