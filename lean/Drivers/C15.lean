import GV.Driver.Loop
import GV.Driver.C15

def main : IO Unit := GV.Driver.runState ({} : GV.Driver.C15.DSt) GV.Driver.C15.handle
