import GV.Driver.Loop
import GV.Driver.C05

def main : IO Unit := GV.Driver.run fun
  | "dce" :: rest => GV.Driver.C05.handle rest
  | _ => "bad-topic"
