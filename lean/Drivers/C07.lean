import GV.Driver.Loop
import GV.Driver.C07

def main : IO Unit := GV.Driver.run GV.Driver.C07.handle
