import GV.Driver.Loop
import GV.Driver.C14

def main : IO Unit := GV.Driver.run fun
  | "utf8" :: rest => GV.Driver.C14.handle rest
  | _ => "bad-topic"
