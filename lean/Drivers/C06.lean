import GV.Driver.Loop
import GV.Driver.C06

def main : IO Unit := GV.Driver.run fun
  | "num" :: rest => GV.Driver.C06.handle rest
  | _ => "bad-topic"
