import GV.Driver.Loop
import GV.Driver.C01

def main : IO Unit := GV.Driver.runState ({} : GV.Driver.C16.NmState) GV.Driver.C01.handle
