import GV.Driver.Loop
import GV.Driver.C16

def main : IO Unit := GV.Driver.runState ({} : GV.Driver.C16.NmState) GV.Driver.C16.handle
