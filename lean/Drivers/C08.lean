import GV.Driver.Loop
import GV.Driver.C08

def main : IO Unit := GV.Driver.run fun
  | "defer" :: rest => GV.Driver.C08.handleDefer rest
  | "chk" :: rest => GV.Driver.C08.handleChk rest
  | _ => "bad-topic"
