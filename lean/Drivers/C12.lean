import GV.Driver.Loop
import GV.Driver.C12

def main : IO Unit := GV.Driver.run fun
  | "aug" :: rest => GV.Driver.C12.handle rest
  | _ => "bad-topic"
