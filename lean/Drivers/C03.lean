import GV.Driver.Loop
import GV.Driver.C03

def main : IO Unit := GV.Driver.runState GV.Driver.C03.initD fun d ws =>
  match ws with
  | "chan" :: rest => GV.Driver.C03.handle d rest
  | _ => (d, "bad-topic")
