import GV.Driver.Loop
import GV.Driver.C19

def main : IO Unit := GV.Driver.run fun
  | "srcmap" :: rest => GV.Driver.C19.handle rest
  | _ => "bad-topic"
