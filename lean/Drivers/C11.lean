import GV.Driver.Loop
import GV.Driver.C11

def main : IO Unit := GV.Driver.run fun
  | "jsconv" :: rest => GV.Driver.C11.handle rest
  | _ => "bad-topic"
