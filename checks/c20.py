"""C20 — the build cache is transparent, never stale and tolerates damage.

Proof: GV.Props.C20 (path.Clean facts, key injectivity: counterexample + partial theorem, load soundness and
provenance over all store/crash histories, stale/test-package/damage => miss, crash atomicity of Store).
Ties: (a) the REAL build/cache.BuildCache in a scratch XDG_CACHE_HOME vs the Lean driver and vs the spec
(hit only for the same configuration and import path, fresh, not the package under test); path.Clean and %#v
quoting vs their Lean models; (b) fault enumeration on real cache files (truncation, bit flips, random
corruption) and SIGKILL at every write/close/rename system call of Store (strace fault injection);
(c) JavaScript built with the cache (cold, warm, damaged) == JavaScript built without it."""
import hashlib
import itertools
import json
import os
import re
import shutil
import subprocess

from . import common as C

THEOREMS = [
    "quote_injective", "key_injective", "cachedPath_injective",
    "test_pkg_never_cached", "stale_is_miss", "damage_is_miss", "missing_is_miss", "load_sound", "store_then_load",
    "crash_atomic", "temp_ne_final", "failed_store_keeps_final", "load_provenance",
    "adhoc_never_loaded", "store_preserves_input", "inplace_filter_damages_input", "load_depends_only_on_envelope", "load_hit_is_exact_seal", "damaged_never_fresh",
    # repaired defects: the old path.Join key scheme and path.Clean
    "clean_idempotent", "clean_rooted_no_dot_elements", "clean_id_of_good",
    "old_key_injective_counterexample", "old_key_injective_tags_counterexample", "old_key_injective_partial",
]

SIG_COLLISION = "C20 key-collision path.Join-cleans-dot-or-empty-segments-across-fields load-hits-other-configuration"
SIG_FLIP_DIFF = "C20 single-byte-flip-in-gzip-payload-or-trailer accepted"
SIG_FLIP_PANIC = "C20 single-byte-flip-in-gzip-payload-or-trailer panics-in-Load"
SIG_MULTI_DIFF = "C20 multi-byte-corruption-in-gzip-payload-or-trailer accepted"
SIG_MULTI_PANIC = "C20 multi-byte-corruption-in-gzip-payload-or-trailer panics-in-Load"
SIG_LINKNAME = "C20 transparency free-floating-go:linkname-directive lost-in-cached-sources"
SIG_MAINDOT = "C20 transparency main-package-import-path-dot shared-by-different-project-directories"

# ---------------------------------------------------------------------------------------------------------
# generators
# ---------------------------------------------------------------------------------------------------------

# bytes the quoting model covers: ASCII and bytes that never start a valid UTF-8 sequence
ODD = [0x00, 0x07, 0x08, 0x09, 0x0A, 0x0B, 0x0C, 0x0D, 0x1B, 0x1F, 0x7F, 0x80, 0xBF, 0xC0, 0xC1, 0xF5, 0xFF]
PIECES = [b"a", b"b", b"go", b"/", b"/", b".", b"..", b"/../", b"/./", b"//", b"\"", b"\\", b" ", b", ", b"{", b"}", b":",
          b"\",\"", b"usr", b"local", b"x_test", b"_test", b"}/", b"[]string",
          "\u00e9".encode(), "\u20ac".encode(), "\u0085".encode(), "\u00a0".encode(), "\u200b".encode(), "\ufffd".encode(),
          "\U0001f600".encode(), "\U000e0001".encode(), "\U0010ffff".encode(), "\u07ff".encode(), "\u0800".encode(), "\uffff".encode(),
          "\U00010000".encode(), b"\xe2\x82", b"\xc3", b"\xf0\x9f\x98", b"\xc0\x80", b"\xe0\x80\x80", b"\xed\xa0\x80",
          b"\xf4\x90\x80\x80", b"\xf8\x88\x80\x80\x80"]


def hx(b):
    return b.hex() if b else "-"


def rand_str(rng, adversarial=True, maxp=5):
    out = b""
    for _ in range(rng.randrange(0, maxp + 1)):
        k = rng.random()
        if not adversarial:
            out += rng.choice([b"a", b"b", b"go", b"usr", b"x", b"1", b"-", b"_"])
        elif k < 0.8:
            out += rng.choice(PIECES)
        elif k < 0.9:
            out += bytes([rng.choice(ODD)])
        else:
            out += bytes([rng.choice([c for c in range(0x20, 0x7F)])])
    return out


def rand_path(rng, adversarial):
    if not adversarial:
        return b"/" + b"/".join(rand_str(rng, False, 2) or b"d" for _ in range(rng.randrange(1, 4)))
    return rand_str(rng, True, 6)


def rand_tags(rng, adversarial):
    k = rng.random()
    if k < 0.25:
        return None
    if k < 0.35:
        return []
    return [rand_str(rng, adversarial, 3) for _ in range(rng.randrange(1, 4))]


class Cfg:
    FIELDS = ("goos", "goarch", "goroot", "gopath", "tags", "version")

    def __init__(self, goos, goarch, goroot, gopath, tags, version):
        self.goos, self.goarch, self.goroot, self.gopath, self.tags, self.version = goos, goarch, goroot, gopath, tags, version

    def ident(self):
        return (self.goos, self.goarch, self.goroot, self.gopath, None if self.tags is None else tuple(self.tags), self.version)

    def ident_loose(self):  # nil and empty tag slices are the same configuration
        t = tuple(self.tags or [])
        return (self.goos, self.goarch, self.goroot, self.gopath, t, self.version)

    def tokens(self):
        if self.tags is None:
            t = "nil"
        elif not self.tags:
            t = "e"
        else:
            t = ",".join(hx(x) for x in self.tags)
        return "%s %s %s %s %s %s" % (hx(self.goos), hx(self.goarch), hx(self.goroot), hx(self.gopath), t, hx(self.version))

    def replace(self, field, v):
        d = {f: getattr(self, f) for f in self.FIELDS}
        d[field] = v
        return Cfg(**d)


def rand_cfg(rng, adversarial):
    return Cfg(rng.choice([b"linux", b"js", b"darwin", rand_str(rng, adversarial, 2)]),
               rng.choice([b"js", b"ecmascript", b"wasm", rand_str(rng, adversarial, 2)]),
               rand_path(rng, adversarial), rand_path(rng, adversarial), rand_tags(rng, adversarial),
               rng.choice([b"1.20.1+go1.20.14", b"1.19", rand_str(rng, adversarial, 2)]))


def mutate(rng, v, adversarial):
    """a different value for a string field, often one that a path cleaner would identify with v"""
    cands = [v + b"x", v + b"/.", v + b"/", b"./" + v, v + b"/../" + (v.split(b"/")[-1] or b"q"), v.replace(b"/", b"//", 1),
             v[:-1], v + b"\"", v + b"\\", v.upper(), rand_str(rng, adversarial, 4), v + b"/..", b"/" + v]
    rng.shuffle(cands)
    for c in cands:
        if c != v:
            return c
    return v + b"y"


def mutate_tags(rng, t, adversarial):
    cands = [None, [], [b""], [b"a"], [b"a", b"b"], [b"a, b"], [b"a\", \"b"], [b"b", b"a"], [b"a/../b"], [b"c/../b"],
             (t or []) + [b"x"], [x + b"/." for x in (t or [b"a"])], rand_tags(rng, adversarial)]
    rng.shuffle(cands)
    for c in cands:
        if c != t:
            return c
    return [b"zz"]


# The harness binary is copied to a private scratch path for the duration of the run: other engineers' trial scripts
# remove /verif/harness/bin/*.<hash> while this check is still using it.
_GVH = {"path": None, "dir": None}


def gvh_private():
    if _GVH["path"] is None:
        _GVH["dir"] = C.scratch("gv-c20-bin")
        _GVH["path"] = os.path.join(_GVH["dir"], "gvh_c20")
        shutil.copy2(C.build_gvh("gvh_c20"), _GVH["path"])
    return _GVH["path"]


def run_gvh(args, lines=None, timeout=3600, extra_env=None):
    e = C.env()
    e["VERIF_REPO"] = C.REPO
    if extra_env:
        e.update(extra_env)
    return subprocess.run([gvh_private()] + list(args), input=None if lines is None else "\n".join(lines) + "\n",
                          capture_output=True, text=True, timeout=timeout, env=e)


def run_gvh_lines(args, lines, extra_env=None):
    p = run_gvh(args, lines, extra_env=extra_env)
    if p.returncode != 0:
        raise RuntimeError("gvh_c20 %s failed: %s" % (args, p.stderr[-3000:]))
    out = p.stdout.split("\n")
    if out and out[-1] == "":
        out.pop()
    if len(out) != len(lines):
        raise RuntimeError("gvh_c20 %s answered %d lines for %d ops: %s" % (args, len(out), len(lines), p.stderr[-1000:]))
    return out


def nonprint_op(ops):
    """`cache nonprint <runes>`: the runes >= 0x80 occurring (as well-formed UTF-8) in the hex arguments of `ops` for which
    Go's strconv.IsPrint is false. unicode.IsPrint is a parameter of the Lean model (the theorems hold for any)."""
    runes = set()
    for o in ops:
        for tok in o.split()[2:]:
            for h in tok.split(","):
                if len(h) >= 4 and len(h) % 2 == 0 and all(c in "0123456789abcdef" for c in h):
                    runes.update(ord(ch) for ch in bytes.fromhex(h).decode("utf-8", "ignore") if ord(ch) >= 0x80)
    if not runes:
        return "cache nonprint -"
    p = run_gvh(["isprint", ",".join(str(r) for r in sorted(runes))], extra_env={"XDG_CACHE_HOME": "/tmp/gv-none"})
    if p.returncode != 0:
        raise RuntimeError("gvh_c20 isprint failed: " + p.stderr[-500:])
    return "cache nonprint " + (p.stdout.strip() or "-")


def is_test_pkg(tested, p):
    return len(p) > 0 and (p == tested or p == tested + b"_test")


class Scenario:
    """one store/load matrix in a fresh cache directory"""

    def __init__(self):
        self.ops = []       # protocol lines sent to impl and model
        self.meta = []      # per line: ("store"|"load"|"other", cfg, tested, p, t, payload)

    def reset(self):
        self.ops.append("cache reset")
        self.meta.append(("other",))

    def store(self, cfg, tested, p, t, payload):
        self.ops.append("cache store %s %s %s %d %s" % (cfg.tokens(), hx(tested), hx(p), t, hx(payload)))
        self.meta.append(("store", cfg, tested, p, t, payload))

    def load(self, cfg, tested, p, t):
        self.ops.append("cache load %s %s %s %d" % (cfg.tokens(), hx(tested), hx(p), t))
        self.meta.append(("load", cfg, tested, p, t, None))


WITNESSES = [
    # DESIGN.md section 7: GOPATH "/../g" swallows the last element of GOROOT
    (Cfg(b"linux", b"js", b"/r/a", b"/../g", None, b"1.0"), Cfg(b"linux", b"js", b"/r/b", b"/../g", None, b"1.0"), b"math", b"math"),
    (Cfg(b"linux", b"js", b"/r", b"/g", [b"a/../b"], b"1.0"), Cfg(b"linux", b"js", b"/r", b"/g", [b"c/../b"], b"1.0"), b"math", b"math"),
    (Cfg(b"linux", b"js", b"/r", b"/g", None, b"1.0"), Cfg(b"linux", b"js", b"/r", b"/g", None, b"1.0"), b"a/b", b"a/./b"),
    (Cfg(b"linux", b"js", b"/r", b"/g", None, b"1.0"), Cfg(b"linux", b"js", b"/r//", b"/g", None, b"1.0"), b"unicode/utf8", b"unicode/utf8"),
]


def gen_scenarios(tier, rng):
    scs = []
    T0 = 1_700_000_000_000_000_000
    for (c1, c2, p1, p2) in WITNESSES:
        s = Scenario()
        s.reset()
        s.store(c1, b"", p1, T0, b"\x01one")
        s.load(c1, b"", p1, T0)
        s.load(c2, b"", p2, T0)
        s.store(c2, b"", p2, T0 + 5, b"\x02two")
        s.load(c1, b"", p1, T0)
        s.load(c2, b"", p2, T0)
        scs.append(s)
    n = 1200 if tier == "thorough" else 120
    for i in range(n):
        adversarial = rng.random() < 0.6
        s = Scenario()
        s.reset()
        base = rand_cfg(rng, adversarial)
        p = rng.choice([b"math", b"unicode/utf8", b"example.org/x/y", rand_str(rng, adversarial, 4) or b"p"])
        tested = rng.choice([b"", b"", b"other", p, p[:-5] if p.endswith(b"_test") else p + b"x"])
        t0 = rng.choice([T0, 0, -5, 1, T0 + rng.randrange(-10 ** 9, 10 ** 9), rng.randrange(-2 ** 62, 2 ** 62)])
        payload = bytes(rng.randrange(256) for _ in range(rng.choice([0, 1, 5, 40, 1500])))
        s.store(base, tested, p, t0, payload)
        # timestamps around the boundary
        for dt in (-1, 0, 1, rng.choice([-10 ** 9, 10 ** 9, 2, -2])):
            s.load(base, tested, p, t0 + dt)
        # tested-package variants
        for td in (b"", p, p + b"_test", p[:-5] if p.endswith(b"_test") else b"zz", rand_str(rng, adversarial, 2)):
            s.load(base, td, p, t0)
        s.load(base, b"", p + b"_test", t0)
        # configurations differing in exactly one field
        variants = []
        for f in Cfg.FIELDS:
            for _ in range(2):
                v = mutate_tags(rng, base.tags, adversarial) if f == "tags" else mutate(rng, getattr(base, f), adversarial)
                variants.append((base.replace(f, v), p))
        for _ in range(2):
            variants.append((base, mutate(rng, p, adversarial)))
        rng.shuffle(variants)
        for (c, q) in variants:
            s.load(c, b"", q, t0)
        # store under some of the variants, then the full load matrix
        stored = [(base, p)]
        for (c, q) in variants[:rng.randrange(0, 4)]:
            s.store(c, b"", q, t0 + rng.randrange(-3, 4), bytes(rng.randrange(256) for _ in range(rng.randrange(0, 30))))
            stored.append((c, q))
        if rng.random() < 0.4:   # overwrite the base entry with a newer or older one
            s.store(base, b"", p, t0 + rng.choice([-7, 7]), b"overwritten" + bytes([rng.randrange(256)]))
        for (c, q) in stored + variants[:6]:
            s.load(c, b"", q, t0 + rng.choice([-8, -1, 0, 1, 8]))
        # store attempts for the package under test never create an entry
        s.store(base, p, p, t0 + 100, b"test-build")
        s.load(base, b"", p, t0)
        scs.append(s)
    return scs


def spec_answers(sc, impl):
    """what the property demands for each line (stores: None = decided by the model tie)."""
    out = []
    entries = {}     # (cfg ident, p) -> (t, payload)   -- exact configuration and import path
    for i, m in enumerate(sc.meta):
        if m[0] == "store":
            _, cfg, tested, p, t, payload = m
            if is_test_pkg(tested, p):
                out.append("skipped")
            else:
                entries[(cfg.ident(), p)] = (t, payload)
                out.append(None)
        elif m[0] == "load":
            _, cfg, tested, p, t, _ = m
            e = entries.get((cfg.ident(), p))
            if is_test_pkg(tested, p):
                out.append("miss")
            elif e is not None and not (t > e[0]):
                out.append("hit " + hx(e[1]))
            elif e is None:
                # nil vs empty BuildTags is the same configuration: either answer is acceptable
                loose = [v for (k, v) in entries.items() if k[1] == p and
                         k[0][:4] == cfg.ident()[:4] and k[0][5] == cfg.ident()[5] and tuple(k[0][4] or ()) == tuple(cfg.tags or ())]
                ok = {"miss"} | {"hit " + hx(v[1]) for v in loose if not (t > v[0])}
                out.append(impl[i] if impl[i] in ok else "miss")
            else:
                out.append("miss")
        else:
            out.append("ok")
    return out


STORED_RE = re.compile(r"^stored ([0-9a-f]{2})/\1[0-9a-f]{62}$")


def run_key_ties(chk, tier):
    scs = gen_scenarios(tier, chk.rng)
    first = Scenario()
    first.ops.append(nonprint_op([o for s in scs for o in s.ops]))
    first.meta.append(("other",))
    scs.insert(0, first)
    ops, owner = [], []
    for si, s in enumerate(scs):
        for j, o in enumerate(s.ops):
            ops.append(o)
            owner.append((si, j))
    xdg = C.scratch("gv-c20-a")
    try:
        impl = run_gvh_lines(["ops"], ops, extra_env={"XDG_CACHE_HOME": xdg})
    finally:
        shutil.rmtree(xdg, ignore_errors=True)
    # model: same lines, plus a `key` query per store/load line (model only) to classify collisions
    keyops = []
    for s in scs:
        for m in s.meta:
            if m[0] in ("store", "load"):
                keyops.append("cache key %s %s" % (m[1].tokens(), hx(m[3])))
    model_all = C.run_driver("C20", ops + keyops)
    model, keys = model_all[:len(ops)], model_all[len(ops):]
    # the model's "hash" is the identity; apply the real one (sha256, two-level directory) before comparing
    for i, a in enumerate(model):
        if a.startswith("stored "):
            k = a.split()[1]
            d = hashlib.sha256(b"" if k == "-" else bytes.fromhex(k)).hexdigest()
            model[i] = "stored %s/%s" % (d[:2], d)
    # per-line spec and collision classification
    spec, collide = [], {}
    pos, kpos = 0, 0
    for s in scs:
        n = len(s.ops)
        sp = spec_answers(s, impl[pos:pos + n])
        stored_keys = []     # (model key, cfg ident, p)
        for j, m in enumerate(s.meta):
            if m[0] in ("store", "load"):
                k = keys[kpos]
                kpos += 1
                if m[0] == "store" and not is_test_pkg(m[2], m[3]):
                    stored_keys.append((k, m[1].ident(), m[3]))
                if m[0] == "load":
                    collide[ops[pos + j] + "#%d" % (pos + j)] = any(
                        sk == k and (ci, q) != (m[1].ident(), m[3]) for (sk, ci, q) in stored_keys)
            if sp[j] is None:
                # the property does not prescribe the file name (that is the model tie): any single new file
                # "<2 hex>/<64 hex>" whose directory is the name's prefix is a proper store
                a = impl[pos + j]
                sp[j] = a if STORED_RE.match(a) else model[pos + j]
        spec += sp
        pos += n
    # tag ops with their index so the signature function can find the classification
    idx = {}

    def signature(op, a, c):
        i = idx[op]
        if ops[i].startswith("cache load") and collide.get(ops[i] + "#%d" % i):
            return SIG_COLLISION
        return "C20 %s impl=%s spec=%s" % (op.split()[1], a.split()[0], c.split()[0])

    def kind(op, c):
        w = op.split()
        return "%s:%s" % (w[1], c.split()[0])

    tagged = ["%s #%d" % (o, i) for i, o in enumerate(ops)]
    for i, o in enumerate(tagged):
        idx[o] = i
    chk.compare("buildcache-store-load", tagged, impl, model, spec=spec, signature=signature, kind=kind)
    chk.extra["scenarios"] = len(scs)
    chk.extra["collision_loads"] = sum(1 for v in collide.values() if v)


def run_string_ties(chk, tier):
    rng = chk.rng
    ops = []
    maxlen = 9 if tier == "thorough" else 7
    for n in range(0, maxlen + 1):
        for s in itertools.product(b"/.a", repeat=n):
            ops.append("cache clean " + hx(bytes(s)))
    for _ in range(20000 if tier == "thorough" else 2000):
        ops.append("cache clean " + hx(rand_str(rng, True, 8)))
    for b in range(256):
        ops.append("cache quote " + hx(bytes([b])))
        ops.append("cache quote " + hx(bytes([0x61, b, 0x22])))
        ops.append("cache quote " + hx(bytes([b, 0x80, 0xBF, 0x80])))
    bounds = [0x7F, 0x80, 0x9F, 0xA0, 0xAD, 0xFF, 0x7FF, 0x800, 0xD7FF, 0xE000, 0xFFFD, 0xFFFE, 0xFFFF, 0x10000, 0x1F600, 0xE0001, 0x10FFFF]
    for r in bounds + [rng.randrange(0x80, 0x110000) for _ in range(3000 if tier == "thorough" else 400)]:
        if not (0xD800 <= r <= 0xDFFF):
            ops.append("cache quote " + hx(chr(r).encode() + b"/x"))
    for _ in range(10000 if tier == "thorough" else 2000):
        ops.append("cache quote " + hx(rand_str(rng, True, 8)))
    ops.insert(0, nonprint_op(ops))
    xdg = C.scratch("gv-c20-s")
    try:
        impl = run_gvh_lines(["ops"], ops, extra_env={"XDG_CACHE_HOME": xdg})
    finally:
        shutil.rmtree(xdg, ignore_errors=True)
    model = C.run_driver("C20", ops)
    chk.compare("path.Clean+strconv.Quote", ops, impl, model, kind=lambda o, c: o.split()[1],
                signature=lambda o, a, c: "C20 model-of-%s differs" % o.split()[1])
    chk.extra["exhaustive_subspace"] = "path.Clean on all strings of length <= %d over {'/','.','a'}; %%#v quoting of every single byte (alone, in context, as lead byte of 3 continuation bytes)" % maxlen


# ---------------------------------------------------------------------------------------------------------
# (b) damage
# ---------------------------------------------------------------------------------------------------------

def fault_signature(cls, reg, outcome):
    if cls == "stale":
        return "C20 damaged-entry-accepted-as-fresh region=%s" % reg
    body = reg in ("body", "trailer")
    if cls == "flip" and body and outcome == "DIFF":
        return SIG_FLIP_DIFF
    if cls == "flip" and body and outcome.startswith("panic"):
        return SIG_FLIP_PANIC
    if cls == "multi" and body and outcome == "DIFF":
        return SIG_MULTI_DIFF
    if cls == "multi" and body and outcome.startswith("panic"):
        return SIG_MULTI_PANIC
    return "C20 damage class=%s region=%s outcome=%s" % (cls, reg, outcome.split(":")[0])


def run_faults(chk, tier):
    seed = chk.rng.randrange(1, 10 ** 6)
    if tier == "thorough":
        jobs = [("hex:" + bytes(chk.rng.randrange(256) for _ in range(200)).hex(), "01,02,04,08,10,20,40,80,ff", 3000),
                ("txt:%d:4000" % seed, "01,02,04,08,10,20,40,80,ff", 3000),
                ("rnd:%d:3000" % seed, "01,10,80,ff", 2000),
                ("sources", "01,08,80,ff", 3000)]
        strides = {}
    else:
        jobs = [("hex:" + bytes(chk.rng.randrange(256) for _ in range(200)).hex(), "01,10,80,ff", 300),
                ("txt:%d:1500" % seed, "04,ff", 200),
                ("sources", "10", 150)]
        strides = {"sources": ["11", "9"]}     # quick tier samples the interior offsets of the large Sources entry
    summary = {}
    for (spec, masks, nrand) in jobs:
        xdg = C.scratch("gv-c20-f")
        try:
            p = run_gvh(["faults", spec, masks, str(nrand), str(seed)] + strides.get(spec, ["1", "1"]) + (["all"] if tier == "thorough" else []), extra_env={"XDG_CACHE_HOME": xdg}, timeout=3000)
        finally:
            shutil.rmtree(xdg, ignore_errors=True)
        if p.returncode != 0:
            raise RuntimeError("gvh_c20 faults %s failed (rc=%s): %s" % (spec[:20], p.returncode, p.stderr[-2000:]))
        pname = spec.split(":")[0]
        lines = p.stdout.strip().split("\n")
        if not lines[0].startswith("info "):
            raise RuntimeError("unexpected faults output: " + lines[0])
        for ln in lines[1:]:
            cls, detail, reg, outcome = ln.split(" ", 3)
            op = "fault payload=%s %s %s" % (pname, cls, detail)
            key = "fault:%s:%s:%s" % (cls, reg, outcome.split(":")[0])
            chk.add_case("damage", op + spec[:12], True, key)
            summary[pname + ":" + key] = summary.get(pname + ":" + key, 0) + 1
            if cls == "stale":
                # detail = <damage class>:<offset:mask | truncation point | ...>@<source time - build time>
                if outcome != "miss":
                    chk.add_mismatch("damage", "stale-load of damaged file: %s (payload spec %s, seed %d): source time is later than the "
                                     "true build time" % (detail, spec[:80], seed), outcome, "miss",
                                     signature=fault_signature(cls, reg, outcome))
            elif outcome not in ("miss", "same"):
                chk.add_mismatch("damage", op + " (payload spec %s, masks %s, seed %d)" % (spec[:80], masks, seed),
                                 outcome, "miss-or-identical", signature=fault_signature(cls, reg, outcome))
    chk.extra["damage_outcomes"] = dict(sorted(summary.items()))


def run_crash(chk, tier):
    """SIGKILL at the N-th write / close / rename system call of a child process running Store."""
    if shutil.which("strace") is None:
        raise RuntimeError("strace not available")
    gvh = gvh_private()
    cfg = Cfg(b"js", b"ecmascript", b"/goroot", b"/gopath", [b"a"], b"v1")
    bc = cfg.tokens().split() + ["-"]
    p, t = hx(b"example.org/crash"), "1700000000000000000"
    e0, e1 = "rnd:11:9000", "rnd:12:%d" % (40000 if tier == "thorough" else 12000)
    env = C.env()
    outcomes = {}

    def call(args, xdg, pre=None):
        e = dict(env)
        e["XDG_CACHE_HOME"] = xdg
        return subprocess.run((pre or []) + [gvh] + args, env=e, capture_output=True, text=True, timeout=300)

    fp0 = call(["fp", e0], "/tmp/gv-none").stdout.strip()
    fp1 = call(["fp", e1], "/tmp/gv-none").stdout.strip()
    maxn = 600 if tier == "thorough" else 120
    trials = 0
    prep = C.scratch("gv-c20-kp")
    try:
        r = call(["store1"] + bc + [p, t, e0], prep)
        if "store true" not in r.stdout:
            raise RuntimeError("initial store failed: " + r.stderr[-500:])
        for prev in (None, e0):
            for sc in ("write", "close", "rename,renameat,renameat2", "openat", "fchmod,fchmodat,chmod"):
                n = 0
                while n < maxn:
                    # quick tier: every N up to 8, then a seeded stride; thorough: every N
                    n += 1 if (tier == "thorough" or n < 4) else chk.rng.randrange(4, 10)
                    xdg = C.scratch("gv-c20-k")
                    try:
                        if prev:
                            shutil.copytree(prep, xdg, dirs_exist_ok=True)
                        r = call(["store1"] + bc + [p, t, e1], xdg,
                                 pre=["strace", "-f", "-o", "/dev/null", "-e", "trace=" + sc, "-e", "inject=%s:signal=KILL:when=%d" % (sc, n)])
                        killed = r.returncode != 0 or "store true" not in r.stdout
                        l = call(["load1"] + bc + [p, t], xdg)
                        ans = l.stdout.strip() if l.returncode == 0 else "load-exit-%d" % l.returncode
                    finally:
                        shutil.rmtree(xdg, ignore_errors=True)
                    allowed = {"hit " + fp1} | ({"hit " + fp0} if prev else {"miss"})
                    if not killed:
                        allowed = {"hit " + fp1}
                    trials += 1
                    what = "new" if ans == "hit " + fp1 else "previous" if ans == "hit " + fp0 else ans.split()[0]
                    k = "crash:%s:%s:%s" % ("prev" if prev else "fresh", sc.split(",")[0], what if killed else "completed")
                    outcomes[k] = outcomes.get(k, 0) + 1
                    op = "crash syscall=%s when=%d previous-entry=%s" % (sc, n, bool(prev))
                    chk.add_case("crash", op, True, k)
                    if ans not in allowed:
                        chk.add_mismatch("crash", op, ans, "|".join(sorted(allowed)),
                                         signature="C20 crash syscall=%s outcome=%s" % (sc.split(",")[0], what))
                    if not killed:
                        break
    finally:
        shutil.rmtree(prep, ignore_errors=True)
    chk.extra["crash_trials"] = trials
    chk.extra["crash_outcomes"] = dict(sorted(outcomes.items()))


# ---------------------------------------------------------------------------------------------------------
# (c) transparency
# ---------------------------------------------------------------------------------------------------------

PROG = '''package main

import (
	"container/list"
	"math"
	"math/bits"
	"math/cmplx"
	"sync/atomic"
	"unicode"
	"unicode/utf16"
	"unicode/utf8"
)

type T struct{ a, b int }

func (t T) Sum() int { return t.a + t.b }

func gen[K comparable, V any](m map[K]V, k K) V { return m[k] }

func main() {
	l := list.New()
	l.PushBack(1)
	var n int32
	atomic.AddInt32(&n, 2)
	println(int(math.Sqrt(16)), bits.OnesCount(7), real(cmplx.Sqrt(4)) == 2, n)
	println(unicode.IsUpper('A'), len(utf16.Encode([]rune("a"))), utf8.RuneLen(0x20AC), l.Len())
	println(T{1, 2}.Sum(), gen(map[string]int{"x": SEED}, "x"))
}
'''

PROG_LINKNAME = '''package main

import _ "unsafe"

func impl() int { return 42 }

//go:linkname alias main.impl

func alias() int

func main() { println(alias()) }
'''


def parse_build(line):
    if not line.startswith("js "):
        return {"error": line}
    return dict(kv.split("=", 1) for kv in line.split()[1:])


FILE_PROG = '''package main

import "unicode/utf8"

type T%(n)s struct{ v int }

func (t T%(n)s) Get() int { return t.v + %(k)d }

func main() {
	println("%(marker)s", T%(n)s{%(k)d}.Get(), utf8.RuneLen(%(k)d))
}
'''


def run_file_mode(chk, tier):
    """FILE-ARGUMENT mode: `gopherjs build x.go` and `gopherjs run x.go` both call Session.BuildFiles (they differ only in the
    output path), which builds an ad-hoc package with the import path "main" for every program. Sequences over different
    single-file programs, every build in a fresh Session, one shared cache directory; each build must equal the no-cache
    build of the same file and the ad-hoc package must never be loaded from the cache."""
    work = C.scratch("gv-c20-m")
    names = ["a", "b", "c"]
    tag = chk.rng.randrange(10 ** 6)
    marker = {n: "MARK-%s-%d" % (n.upper(), tag) for n in names}
    orders = [("a", "b"), ("b", "a"), ("a", "b", "a")]
    if tier == "thorough":
        orders += [("a", "b", "c"), ("c", "a", "b", "a"), ("b", "b", "a")]
    script, expect = [], []      # expect: per script line None or (layout, mtimes, order, step, file)
    try:
        os.makedirs(os.path.join(work, "xdg-gv"))
        path = {}
        for layout in ("dirs", "same"):
            for i, n in enumerate(names):
                d = os.path.join(work, layout, n if layout == "dirs" else "all")
                os.makedirs(d, exist_ok=True)
                path[(layout, n)] = os.path.join(d, n + ".go")
                open(path[(layout, n)], "w").write(FILE_PROG % {"n": n.upper(), "k": i + 2 + tag % 7, "marker": marker[n]})
        nout = [0]

        def build(layout, n, mode, info):
            nout[0] += 1
            f = path[(layout, n)]
            script.append("build %s %s %s %s %s" % (f, os.path.dirname(f), os.path.join(work, "out%d.js" % nout[0]), mode, marker[n]))
            expect.append(info)

        def step(line):
            script.append(line)
            expect.append(None)

        for layout in ("dirs", "same"):
            for n in names:
                step("touch %s -86400" % path[(layout, n)])
                build(layout, n, "nocache", ("ref", layout, n))
            for mt in ("older", "newer", "mixed") if tier == "thorough" else ("older", "newer"):
                for order in orders:
                    step("clear")
                    for n in names:
                        step("touch %s -86400" % path[(layout, n)])
                    for k, n in enumerate(order):
                        if k > 0 and (mt == "newer" or (mt == "mixed" and chk.rng.random() < 0.5)):
                            step("touch %s %d" % (path[(layout, n)], 60 * k))     # edited after the entries were written
                        build(layout, n, "cache", ("seq", layout, mt, "".join(order), k, n))
        p = run_gvh(["buildseq"], script, timeout=1800, extra_env={"XDG_CACHE_HOME": os.path.join(work, "xdg-gv")})
        if p.returncode != 0:
            raise RuntimeError("gvh_c20 buildseq failed: " + p.stderr[-2000:])
        out = p.stdout.strip().split("\n")
        if len(out) != len(script):
            raise RuntimeError("gvh_c20 buildseq answered %d lines for %d steps" % (len(out), len(script)))
    finally:
        shutil.rmtree(work, ignore_errors=True)
    ref, nseq, main_hits = {}, 0, 0
    for line, info in zip(out, expect):
        if info is None:
            continue
        r = parse_build(line)
        if info[0] == "ref":
            if "error" in r or r.get("marker") != "1":
                raise RuntimeError("file-mode reference build failed: %s" % line)
            ref[(info[1], info[2])] = r["sha256"]
            continue
        _, layout, mt, order, k, n = info
        nseq += 1
        op = "file-mode layout=%s mtimes=%s order=%s step=%d: BuildFiles(%s.go) with the cache enabled, fresh session" % (layout, mt, order, k, n)
        chk.add_case("transparency", op, True, "filemode:%s:%s" % (layout, mt))
        got = r.get("sha256") or "error:" + r.get("error", "?")[:200]
        if got != ref[(layout, n)] or r.get("marker") != "1":
            chk.add_mismatch("transparency", op, "%s marker=%s hits=%s" % (got[:16], r.get("marker"), r.get("hitlist")),
                             "%s marker=1 (the no-cache build of %s.go)" % (ref[(layout, n)][:16], n),
                             signature="C20 file-argument-mode build-returns-other-program")
        if "main" in (r.get("hitlist") or "").split(","):
            main_hits += 1
            chk.add_mismatch("transparency", op, "ad-hoc package \"main\" loaded from the cache", "never loaded (sources always newer)",
                             signature="C20 adhoc-main-package-loaded-from-cache")
    chk.extra["file_mode"] = {"cached_builds": nseq, "programs": len(names), "adhoc_main_cache_hits": main_hits,
                              "note": "gopherjs run x.go uses the same Session.BuildFiles with a temp output path"}


def gen_comment_project(rng, mod):
    """A three-package project (main -> lib -> other) whose files carry comments of every kind: free-floating groups
    before/between/after declarations and inside bodies, doc comments with //go:linkname directives (lib links to
    unexported functions of `other`, so a lost or duplicated directive changes the JavaScript), one free-floating
    //go:linkname, //gopherjs: directive comments, field/spec doc and line comments. Returns {relative path: text}."""
    files = {}
    nimpl = rng.randrange(3, 6)

    def floating(tag):
        k = rng.random()
        if k < 0.4:
            return "// floating %s %d\n\n" % (tag, rng.randrange(1000))
        if k < 0.7:
            return "/* block %s\n   %d */\n\n" % (tag, rng.randrange(1000))
        return "// floating %s, line 1\n// line 2 of %d\n\n" % (tag, rng.randrange(1000))

    other = ["// Copyright header of other (free-floating).\n\n", "// Package other owns the implementations.\npackage other\n\n",
             floating("after-package"), "var calls int // trailing comment of a spec\n\n"]
    for i in range(nimpl + 1):
        other.append(rng.choice(["", floating("between")]))
        other.append("// impl%d is reached only through go:linkname.\nfunc impl%d() int {\n\t// inside body %d\n\tcalls++\n\treturn %d + calls\n}\n\n"
                     % (i, i, i, rng.randrange(10, 99)))
    other.append("// floating at end of file\n")
    files["other/other.go"] = "".join(other)
    split = rng.randrange(1, nimpl)
    for fname, idxs in (("a.go", range(0, split)), ("b.go", range(split, nimpl))):
        lib = [rng.choice(["// License header of lib/%s (free-floating).\n\n" % fname, ""]),
               "// Package lib links to package other.\npackage lib\n\n",
               "import (\n\t_ \"unsafe\" // for go:linkname\n\n\t// doc comment of an import spec\n\t_ \"%s/other\"\n)\n\n" % mod]
        for i in idxs:
            for _ in range(rng.randrange(0, 3)):
                lib.append(floating("before-link%d" % i))
            doc = rng.choice(["", "// link%d is implemented in package other.\n" % i, "// first line\n//\n"])
            lib.append("%s//go:linkname link%d %s/other.impl%d\nfunc link%d() int\n\n" % (doc, i, mod, i, i))
            lib.append("// Get%d returns the linked value.\n//\n//gopherjs:keep-original\nfunc Get%d() int {\n\t// floating inside Get%d\n\tv := link%d() // trailing\n"
                       "\n\t// another floating group\n\tif v < 0 {\n\t\t/* nested block comment */\n\t\tv = -v\n\t}\n\treturn v\n}\n\n" % (i, i, i, i))
        if fname == "a.go":
            lib.append("// T has documented fields.\ntype T struct {\n\t// A is documented.\n\tA int // and has a line comment\n\n\t// floating inside the struct\n\n\tB int\n}\n\n")
            # a free-floating directive: the blank line detaches it from the declaration
            lib.append("//go:linkname floatlink %s/other.impl%d\n\nfunc floatlink() int\n\n// GetF uses the floating directive.\nfunc GetF() int { return floatlink() }\n\n"
                       % (mod, nimpl))
        for _ in range(rng.randrange(1, 4)):
            lib.append(floating("tail"))
        files["lib/" + fname] = "".join(lib)
    calls = ", ".join(["lib.Get%d()" % i for i in range(nimpl)] + ["lib.GetF()", "extra()"])
    files["main.go"] = ("// Header of main (free-floating).\n\n// Command main prints the linked values.\npackage main\n\nimport \"%s/lib\"\n\n"
                        "// floating before main\n\n// main is the entry point.\nfunc main() {\n\t// floating in main\n\tprintln(\"%s\", %s)\n"
                        "\t_ = lib.T{A: 1}\n}\n\n// floating after main\n" % (mod, mod, calls))
    files["util.go"] = "package main\n\n%s// extra is documented.\nfunc extra() int {\n\treturn %d // trailing\n}\n" % (floating("util"), rng.randrange(100))
    return files


def run_comments(chk, tier):
    """(1) no cache == cold cache (the build that STORES) == warm cache, byte for byte, for generated multi-package projects
    full of comments and go:linkname directives; (2) `Store is read-only on its argument`: the real Sources.Write and
    BuildCache.Store leave the in-memory package (Comments lists, attached groups, imports, printed source, parsed
    linknames) unchanged."""
    nproj = 6 if tier == "thorough" else 2
    work = C.scratch("gv-c20-c")
    gopath = os.path.join(work, "gopath")
    env = {"GOPATH": gopath, "GO111MODULE": "off", "GOFLAGS": ""}     # multi-package programs resolve in GOPATH mode in process
    res = {}
    try:
        dirs = []
        for k in range(nproj):
            mod = "gvc20gen%d" % k
            root = os.path.join(gopath, "src", mod)
            files = gen_comment_project(chk.rng, mod)
            for rel, text in files.items():
                os.makedirs(os.path.dirname(os.path.join(root, rel)), exist_ok=True)
                open(os.path.join(root, rel), "w").write(text)
                os.utime(os.path.join(root, rel), (1_600_000_000, 1_600_000_000))
            dirs += [root, os.path.join(root, "lib"), os.path.join(root, "other")]
            xdg = os.path.join(work, "xdg-gv%d" % k)
            os.makedirs(xdg)
            e = dict(env)
            e["XDG_CACHE_HOME"] = xdg

            def build(mode):
                p = run_gvh(["build", root, mode], extra_env=e, timeout=600)
                if p.returncode != 0:
                    raise RuntimeError("gvh_c20 build failed: " + p.stderr[-2000:])
                return parse_build(p.stdout.strip().split("\n")[-1])

            ref, cold, warm = build("nocache"), build("cache"), build("cache")
            if "error" in ref:
                raise RuntimeError("generated project does not build without cache: %s\n%s" % (ref, files["lib/a.go"]))
            res[mod] = {"ref": ref["sha256"][:16], "cold_stored": cold.get("stored"), "warm_hits": warm.get("hits")}
            src = "\n".join("== %s\n%s" % kv for kv in sorted(files.items()))
            for stage, r in (("cold", cold), ("warm", warm)):
                op = "comments project=%s stage=%s (no cache vs %s cache, JS sha256)" % (mod, stage, stage)
                chk.add_case("transparency", op, True, "comments:%s" % stage)
                a = r.get("sha256") or "error:" + r.get("error", "?")[:300]
                if a != ref["sha256"]:
                    chk.add_mismatch("transparency", op + "\n" + src, "%s bytes=%s" % (a, r.get("bytes")),
                                     "%s bytes=%s" % (ref["sha256"], ref.get("bytes")),
                                     signature="C20 transparency %s-cache-build-differs-from-no-cache-build" % stage)
            if int(warm.get("hits", 0) or 0) < 4 and "error" not in warm:
                chk.add_mismatch("transparency", "comments project=%s warm build" % mod, "hits=%s" % warm.get("hits"),
                                 "the packages stored by the cold build are hit", signature="C20 warm-build-does-not-hit")
        goroot = subprocess.run(["go", "env", "GOROOT"], env=C.env(), capture_output=True, text=True).stdout.strip()
        dirs += [os.path.join(goroot, "src", d) for d in ("unicode/utf8", "math/bits", "sync/atomic", "container/list")]
        dirs.append(os.path.join(C.REPO, "compiler", "natives", "src", "runtime"))
        e = dict(env)
        e["XDG_CACHE_HOME"] = os.path.join(work, "xdg-gvp")
        os.makedirs(e["XDG_CACHE_HOME"])
        p = run_gvh(["writeprobe"] + dirs, extra_env=e, timeout=600)
        if p.returncode != 0:
            raise RuntimeError("gvh_c20 writeprobe failed: " + p.stderr[-2000:])
        nprobe = 0
        for ln in p.stdout.strip().split("\n"):
            _, name, outcome = ln.split(" ", 2)
            if outcome.startswith("error:"):
                raise RuntimeError("writeprobe: %s" % ln)
            nprobe += 1
            op = "writeprobe %s: Sources.Write + BuildCache.Store must leave the in-memory package unchanged" % name.replace(work, "")
            chk.add_case("store-read-only", op, True, "writeprobe:" + outcome.split()[0])
            if not outcome.startswith("unchanged"):
                src = ""
                if name.startswith(gopath):
                    src = "\n" + "\n".join("== %s\n%s" % (f, open(os.path.join(name, f)).read()) for f in sorted(os.listdir(name)) if f.endswith(".go"))
                chk.add_mismatch("store-read-only", op + src, outcome[:600], "unchanged",
                                 signature="C20 store-modifies-the-package-being-stored")
        res["writeprobe_packages"] = nprobe
    finally:
        shutil.rmtree(work, ignore_errors=True)
    chk.extra["comment_projects"] = res


def run_transparency(chk, tier):
    variants = [("plain", PROG.replace("SEED", str(chk.rng.randrange(1000))), [])]
    if tier == "thorough":
        variants.append(("minify", PROG.replace("SEED", "7"), ["minify"]))
    variants.append(("floating-linkname", PROG_LINKNAME, []))
    res = {}
    for (name, src, extra) in variants:
        work = C.scratch("gv-c20-t")
        xdg = os.path.join(work, "xdg-gv")
        prog = os.path.join(work, "prog")
        os.makedirs(xdg)
        os.makedirs(prog)
        try:
            open(os.path.join(prog, "go.mod"), "w").write("module gvc20prog\n\ngo 1.20\n")
            open(os.path.join(prog, "main.go"), "w").write(src)

            def build(mode):
                p = run_gvh(["build", prog, mode] + extra, extra_env={"XDG_CACHE_HOME": xdg}, timeout=600)
                if p.returncode != 0:
                    raise RuntimeError("gvh_c20 build failed: " + p.stderr[-2000:])
                return parse_build(p.stdout.strip().split("\n")[-1])

            ref = build("nocache")
            cold = build("cache")
            warm = build("cache")
            # damage every stored entry in a way the real envelope detects (truncate to half), then build again
            nfiles = 0
            if name == "floating-linkname" and tier != "thorough":
                damaged, rewarm = {"hits": "0", "sha256": ref.get("sha256")}, warm
            else:
                for root, _, files in os.walk(xdg):
                    for f in files:
                        fp = os.path.join(root, f)
                        data = open(fp, "rb").read()
                        open(fp, "wb").write(data[:len(data) // 2])
                        nfiles += 1
                damaged = build("cache")
                rewarm = build("cache")
        finally:
            shutil.rmtree(work, ignore_errors=True)
        res[name] = {"ref": ref.get("sha256", ref.get("error"))[:16], "cold_hits": cold.get("hits"), "warm_hits": warm.get("hits"),
                     "warm_loads": warm.get("loads"), "entries": nfiles, "damaged_hits": damaged.get("hits"), "rewarm_hits": rewarm.get("hits")}
        for stage, r in (("cold", cold), ("warm", warm), ("damaged", damaged), ("rewarm", rewarm)):
            if name == "floating-linkname" and stage in ("damaged", "rewarm") and tier != "thorough":
                continue
            op = "transparency program=%s stage=%s" % (name, stage)
            chk.add_case("transparency", op, True, "transparency:%s:%s" % (name, stage))
            a = r.get("sha256") or "error:" + r.get("error", "?")[:200]
            b = ref.get("sha256") or "error:" + ref.get("error", "?")[:200]
            if a != b:
                sig = SIG_LINKNAME if name == "floating-linkname" and stage in ("warm", "rewarm") else \
                    "C20 transparency program=%s stage=%s" % (name, stage)
                chk.add_mismatch("transparency", op + "\n" + src, a, b, signature=sig)
        if "error" in ref and name != "floating-linkname":
            raise RuntimeError("reference build failed: %s" % ref)
        # the experiment is only meaningful if the warm build really was served from the cache
        if name != "floating-linkname" and int(warm.get("hits", 0)) < 5:
            chk.add_mismatch("transparency", "transparency program=%s warm build" % name, "hits=%s" % warm.get("hits"),
                             "entries stored by the cold build are hit by the next process", signature="C20 warm-build-does-not-hit")
        if int(damaged.get("hits", 0) or 0) != 0:
            chk.add_mismatch("transparency", "transparency program=%s truncated entries" % name, "hits=%s" % damaged.get("hits"),
                             "miss", signature="C20 truncated-entries-hit")
    # AST round trip: a Sources holding every node kind of go/ast, stored and loaded by the real cache
    xdg = C.scratch("gv-c20-r")
    try:
        p = run_gvh(["roundtrip"], extra_env={"XDG_CACHE_HOME": xdg}, timeout=600)
    finally:
        shutil.rmtree(xdg, ignore_errors=True)
    if p.returncode != 0:
        raise RuntimeError("gvh_c20 roundtrip failed: " + p.stderr[-2000:])
    rt = p.stdout.strip()
    chk.add_case("transparency", "ast-roundtrip all node kinds", True, "transparency:ast-roundtrip")
    res["ast_roundtrip"] = rt
    if not rt.startswith("roundtrip identical "):
        chk.add_mismatch("transparency", "ast-roundtrip: Store+Load of a Sources with every AST node kind (code, node kinds and positions, "
                         "attached comments, imports, JS files)", rt, "roundtrip identical", signature="C20 ast-roundtrip " + rt.split()[1])
    # two different projects built from their own directories: both main packages have import path "."
    work = C.scratch("gv-c20-t")
    try:
        xdg = os.path.join(work, "xdg-gv")
        os.makedirs(xdg)
        for nm, src in (("b", 'package main\n\nfunc main() { println("project B") }\n'), ("a", PROG.replace("SEED", "3"))):
            os.makedirs(os.path.join(work, nm))
            open(os.path.join(work, nm, "go.mod"), "w").write("module gvc20%s\n\ngo 1.20\n" % nm)
            open(os.path.join(work, nm, "main.go"), "w").write(src)

        def build2(nm, mode):
            p = run_gvh(["build", os.path.join(work, nm), mode], extra_env={"XDG_CACHE_HOME": xdg}, timeout=600)
            if p.returncode != 0:
                raise RuntimeError("gvh_c20 build failed: " + p.stderr[-2000:])
            return parse_build(p.stdout.strip().split("\n")[-1])

        refb = build2("b", "nocache")
        build2("a", "cache")
        gotb = build2("b", "cache")
    finally:
        shutil.rmtree(work, ignore_errors=True)
    op = "transparency two-projects: build project A with the cache, then project B (older sources, other directory)"
    chk.add_case("transparency", op, True, "transparency:two-projects")
    res["two-projects"] = {"ref_b": refb.get("sha256", "?")[:16], "b_after_a": gotb.get("sha256", "?")[:16], "hits": gotb.get("hitlist")}
    if gotb.get("sha256") != refb.get("sha256"):
        chk.add_mismatch("transparency", op, gotb.get("sha256") or str(gotb), refb.get("sha256") or str(refb), signature=SIG_MAINDOT)
    chk.extra["transparency"] = res


# ---------------------------------------------------------------------------------------------------------

def run(tier, seed):
    chk = C.Check("C20", tier, seed)
    chk.rule = ("(a) store/load matrices on the real build/cache.BuildCache in a scratch XDG_CACHE_HOME: a random (60% adversarial: "
                "'..', '.', '//', quotes, backslashes, control and invalid-UTF-8 bytes) configuration, loads at t0-1,t0,t0+1, "
                "tested-package variants, two variants per field differing in exactly that field (mutations a path cleaner would "
                "identify), extra stores and overwrites, full load matrix; compared line by line with the Lean driver (file name = "
                "sha256 of the model key) and with the spec (hit iff same configuration and path, fresh, not under test); "
                "path.Clean and %#v quoting vs the Lean models incl. an exhaustive sub-space. (b) every truncation point, every "
                "single-byte flip x masks, random 2-8 byte corruption of real cache files (blob payloads and a Sources with every "
                "AST node kind) -> outcome must be miss or identical content, and every damaged file is also loaded with source times "
                "build time +1ns/+1s/+1h/+1y -> must miss (a damaged entry is never accepted as fresh); SIGKILL at the N-th write/close/rename/openat/chmod "
                "syscall of Store in a child process (strace), then a fresh process loads. (c) JS of a program over all packages "
                "that compile here built without cache, with a cold cache, a warm cache (fresh process), truncated entries; FILE-ARGUMENT "
                "mode (Session.BuildFiles, ad-hoc package \"main\"): sequences a,b / b,a / a,b,a over single-file programs in different and "
                "in the same directory, fresh sessions sharing one cache, file mtimes older/newer than the entries, each build == "
                "no-cache build of the same file; generated three-package projects (GOPATH mode) full of free-floating / doc / line comments, "
                "//go:linkname directives in doc comments and free-floating, //gopherjs: directives: no cache == cold (storing) build == "
                "warm build byte for byte; writeprobe: real Sources.Write + Store leave the in-memory package unchanged. A case "
                "is non-trivial when its op line is distinct.")
    chk.trusted = ["Lean 4.33 kernel; axioms at most propext, Classical.choice, Quot.sound (listed per theorem)",
                   "GV.Model.Cache / GV.Model.PathClean are hand transcriptions of build/cache/cache.go and GOROOT/src/path/path.go, "
                   "tied to the code by the differential runs (a)",
                   "SHA-256 (abstract injective h, fixed output length), gzip+gob envelope (abstract seal/open), OS rename atomicity: "
                   "hypotheses of the theorems, exercised only by the fault enumeration (b)",
                   "strace syscall fault injection delivers SIGKILL at the stated syscall"]
    chk.assumptions = ["MODELLING ASSUMPTION (hypothesis `Authentic` of load_hit_is_exact_seal / damaged_never_fresh): the real envelope "
                       "seals the build time TOGETHER with the payload under the gzip checksum, so bytes that still open are a complete "
                       "sealed (time, payload); probed on every run: no single-bit flip, truncation or corruption of a stored file "
                       "changes the (time, payload) a successful Load reports (content identical, stale source times still miss)",
                       "strings are bytes; the quoting model covers ASCII and bytes that cannot start a valid UTF-8 sequence",
                       "no concurrent writers in the model (temp names make concurrent Stores independent; not proved)",
                       "nil and empty BuildTags are the same configuration for the spec (the code keys them apart: harmless miss)"]
    gvh_private()
    chk.proof = C.check_proofs("C20", THEOREMS, tier)
    import resource
    import time
    phases = {}
    cpu = {}
    only = os.environ.get("VERIF_C20_PHASES")     # development aid: comma-separated subset of phase names
    for f in (run_string_ties, run_key_ties, run_faults, run_crash, run_transparency, run_file_mode, run_comments):
        if only and f.__name__[4:] not in only.split(","):
            continue
        t0 = time.time()
        r0 = resource.getrusage(resource.RUSAGE_CHILDREN)
        f(chk, tier)
        r1 = resource.getrusage(resource.RUSAGE_CHILDREN)
        phases[f.__name__] = round(time.time() - t0, 1)
        cpu[f.__name__] = round(r1.ru_utime + r1.ru_stime - r0.ru_utime - r0.ru_stime, 1)
    chk.extra["phase_wall_s"] = phases
    chk.extra["phase_child_cpu_s"] = cpu
    C.log("[C20] phases wall: %s  child cpu: %s" % (phases, cpu))
    shutil.rmtree(_GVH["dir"], ignore_errors=True)
    return chk.finish()


def replay(path):
    rep = json.load(open(path))
    print(json.dumps(rep, indent=1)[:6000])
    print("re-run: VERIF_SEED=%s python3 run.py C20 --tier %s" % (rep.get("seed"), rep.get("tier")))
    return 1
