"""C16 — minification preserves behaviour.

Proof: GV.Props.C16 — bijective base-26 short names are injective and in their letter class, allocated names are
distinct / never reserved / package-level and local never clash (all request sequences over any scope tree built
by the compiler's stack discipline); removeWhitespace = the item-level algorithm (only whitespace and comments
dropped, strings / hints / all other bytes untouched, no out-of-bounds read on well-formed input) and, under
SafeAdjacent, the token sequence is preserved.
Ties: (a) the REAL removeWhitespace (hook) vs the Lean model on token soups, a malformed stream and the real
Decl code of compiled programs, plus GenWF / SafeAdjacent / token equality evaluated by the driver on that real
code; (b) the REAL newVariable / nestedFunctionContext / newRootCtx / encodeIdent (hook) vs the Lean model on
request sequences with 0..2000 names per scope; (c) generated programs built plain and minified, run under Node
and natively."""
import itertools
import json
import shutil

from . import common as C
from . import progs

THEOREMS = ["rw_identity", "rw_items", "rw_total", "rw_significant", "rw_hints", "rw_tokens", "rw_tokens_pred", "unsafe_example", "parse_unique",
            "shortChars_decode", "shortnames_inj", "shortName_class", "pkg_local_disjoint", "short_not_reserved",
            "do_is_a_candidate", "names_distinct", "names_fresh", "firstFree_total", "newVariable_total",
            "ident_needsSpace", "ws_between_idents_kept", "old_needsSpace_counterexample", "old_varptr_counterexample",
            "varPtrName_cached", "wrapper_tail_stripped", "junction_examples",
            "objectName_assigned", "objectName_new", "root_only_allocation_breaks",
            "ctorParam_ne_shortName", "ctor_params_disjoint_from_pkg_names", "unsuffixed_ctor_param_counterexample"]

KW = ["abstract", "arguments", "await", "async", "boolean", "break", "byte", "case", "catch", "char", "class", "const",
      "continue", "debugger", "default", "delete", "do", "double", "else", "enum", "eval", "export", "extends", "false",
      "final", "finally", "float", "for", "function", "goto", "if", "implements", "import", "in", "instanceof",
      "int", "interface", "let", "long", "native", "new", "null", "package", "private", "protected", "public",
      "return", "short", "static", "super", "switch", "synchronized", "this", "throw", "throws", "transient",
      "true", "try", "typeof", "undefined", "using", "var", "void", "volatile", "while", "with", "yield"]

# identifiers legal in Go that are reserved / special in JavaScript
JS_IDENTS = ["this", "typeof", "void", "with", "yield", "let", "delete", "class", "catch", "try", "throw", "in", "do",
             "instanceof", "null", "arguments", "eval", "await", "async", "enum", "export", "extends", "final", "finally",
             "char", "double", "float", "long", "short", "boolean", "static", "super", "public", "private", "protected",
             "native", "abstract", "volatile", "transient", "synchronized", "throws", "implements", "debugger",
             "undefined", "using", "function", "while0", "a", "b", "c", "z", "ba", "A", "B", "Z", "BA", "aa", "zz"]

PUNCT = ["{", "}", "(", ")", "[", "]", ".", ";", ",", "<", ">", "<=", ">=", "==", "!=", "===", "!==", "+", "-", "*", "/", "%",
         "++", "--", "<<", ">>", ">>>", "&", "|", "^", "!", "~", "&&", "||", "?", ":", "=", "+=", "-=", "*=", "/=", "%=", "<<=",
         ">>=", ">>>=", "&=", "|=", "^="]


def hx(bs):
    return C.hexs(bytes(bs))


# --------------------------------------------------------------------------------------
# (a) removeWhitespace: generators
# --------------------------------------------------------------------------------------

def rand_ident(rng):
    k = rng.random()
    if k < 0.25:
        return rng.choice(KW)
    if k < 0.35:
        return rng.choice(["$r", "$s", "$pkg", "$24x", "_r", "_tmp$1", "x$1", "T·m", "$packages", "$c"])
    n = rng.choice([1, 1, 2, 3, 6])
    first = "abcxyzABCXYZ_$"
    rest = first + "0123456789"
    return rng.choice(first) + "".join(rng.choice(rest) for _ in range(n - 1))


def rand_number(rng):
    return rng.choice(["0", "1", "7", "42", "255", "4294967295", "1.5", "0.25", "1e+06", "2.5e-07", "1e21", "0x1F", ".5", "1."])


def rand_strbody(rng):
    out = []
    for _ in range(rng.choice([0, 1, 2, 4, 8, 20])):
        k = rng.random()
        if k < 0.35:
            out.append(rng.choice("abcxyz$_09 "))
        elif k < 0.55:
            out.append(rng.choice(["\\\"", "\\\\", "\\n", "\\t", "\\b", "\\x08", "\\xFF", "\\'", "\\/"]))
        elif k < 0.9:
            out.append(rng.choice(["/*", "*/", "//", "- -", "  ", "\t", "/* x */", "'", "`", "+ +", "\n", "- "]))
        else:
            out.append(rng.choice(["é", "€", "·"]))
    return "".join(out)


def rand_comment(rng):
    body = "".join(rng.choice(["a", " ", "*", "/ ", "\"", "\\", "x y", "\n", "'", "**", "/", "<star>/", "\b"]) for _ in range(rng.choice([0, 1, 3, 8])))
    body = body.replace("*/", "* /")
    if body.endswith("*"):          # keep `**/` (legal) sometimes, it exercises the overlap
        if rng.random() < 0.5:
            body += " "
    return "/*" + body + "*/"


def rand_hint(rng):
    n = rng.choice([0, 1, 3, 9, 40, 300])
    spice = [0x22, 0x5C, 0x2F, 0x2A, 0x08, 0x20, 0x0A, 0x2D, 0x00, 0xFF]
    payload = bytes(rng.choice(spice) if rng.random() < 0.5 else rng.randrange(256) for _ in range(n))
    return bytes([8, n >> 8, n & 255]) + payload


def rand_ws(rng):
    return "".join(rng.choice([" ", " ", "\t", "\n"]) for _ in range(rng.choice([1, 1, 1, 2, 3])))


def gen_soup(rng, size):
    """A byte string in the item language: tokens, whitespace, comments, strings, hints, in random adjacency."""
    out = bytearray()
    for _ in range(size):
        k = rng.random()
        if k < 0.22:
            out += rand_ident(rng).encode()
        elif k < 0.30:
            out += rand_number(rng).encode()
        elif k < 0.36:
            out += b'"' + rand_strbody(rng).encode() + b'"'
        elif k < 0.40:
            # a literal ENDING in an (escaped) backslash, then another literal whose blanks / comment text must survive
            out += b'"' + rand_strbody(rng).encode() + rng.choice([b"\\\\", b"\\\\\\\\", b"\\\"\\\\"]) + b'"'
            out += rng.choice([b",", b", ", b" + ", b";\n\t", b"](", b" /* c */ "])
            out += b'"' + rng.choice([b" ( a , b ) ", b" ; /* x */ , ", b"a  -  - b", b" \\\" /* y */ \\\\", b"{ } [ ]  //  "]) + b'"'
        elif k < 0.62:
            out += rng.choice(PUNCT).encode()
        elif k < 0.70:
            out += rng.choice(["-", "- -", "+ +", "- ", " -", "--", "/ ", "< <", "= =", "! ="]).encode()
        elif k < 0.88:
            out += rand_ws(rng).encode()
        elif k < 0.95:
            out += rand_comment(rng).encode()
        else:
            out += rand_hint(rng)
            if rng.random() < 0.5:
                out += b"function"
    tail = rng.random()
    if tail < 0.6:
        out += b";\n"
    elif tail < 0.75:
        out += b"}\n\t"
    elif tail < 0.85:
        out += rng.choice([b"x ", b"- ", b"/", b"x\n", b"$\t", b") "])       # may read past the end
    bs = bytes(out)
    # `ch /` directly followed by `ch *` would be a comment opener: the generator never builds that on purpose
    return bs


def gen_statements(rng, n):
    """Text shaped like the code generator's output: indented statements, SafeAdjacent by construction."""
    lines = []
    for _ in range(n):
        ind = "\t" * rng.randrange(1, 4)
        a, b, c = rand_ident(rng), rand_ident(rng), rand_ident(rng)
        k = rng.randrange(14)
        if k == 0:
            s = "%s = %s - -%s >> 0;" % (a, b, c)
        elif k == 1:
            s = "var %s, %s, %s;" % (a, b, c)
        elif k == 2:
            s = "/* */ if (%s < -%s) { %s = \"%s\"; }" % (a, b, c, rand_strbody(rng))
        elif k == 3:
            s = "return %s;" % rng.choice(["-" + a, "\"" + rand_strbody(rng) + "\"", "new " + a + "(" + b + ")", "typeof " + a])
        elif k == 4:
            s = "%s = function %s(%s) {" % (a, b, c)
        elif k == 5:
            s = "case %s: /* */ %s = %s + %s | 0; /* */ break;" % (rand_number(rng).replace("1.", "1").replace(".5", "5"), a, b, c)
        elif k == 6:
            s = "$r = %s(%s, %s - -%s); /* */ $s = 1; case 1: if($c) { $c = false; $r = $r.$blk(); }" % (a, b, c, rand_number(rng).replace(".5", "5").replace("1.", "1"))
        elif k == 7:
            s = "} else if (%s instanceof %s) {" % (a, b)
        elif k == 8:
            s = "%s = %s in %s ? -%s : - -1;" % (a, b, c, a)
        elif k == 9:
            s = "%s.%s = (%s - -%s) * -%s;" % (a, b, a, b, c)
        elif k == 10:
            s = "$s = -1; } return; } var $f = {$blk: %s, $c: true, $r, %s, %s, $s};return $f;" % (a, b, c)
        elif k == 11:
            s = "%s[%s] = %s--; %s++;" % (a, b, c, a)
        else:
            s = "%s = %s(\"%s\\\\\", \" ( %s ) /* %s */ , \") + \"%s\\\\\" + \" ; - - \";" % (a, b, rand_strbody(rng), c, a, rand_strbody(rng))
        h = rand_hint(rng) if rng.random() < 0.3 else b""
        lines.append(h + (ind + s + "\n").encode("utf-8"))
    return b"".join(lines)


MAL_ALPHA = [0x20, 0x0A, 0x22, 0x5C, 0x2F, 0x2A, 0x2D, 0x61, 0x08, 0x00, 0x3B, 0x01]


def gen_malformed(rng, tier):
    ops = []
    alpha = MAL_ALPHA[:11] if tier == "thorough" else MAL_ALPHA[:9]
    maxlen = 5 if tier == "thorough" else 4
    for n in range(0, maxlen + 1):
        for s in itertools.product(alpha, repeat=n):
            ops.append(bytes(s))
    for _ in range(20000 if tier == "thorough" else 2500):
        n = rng.choice([3, 6, 10, 20, 40])
        ops.append(bytes(rng.choice(MAL_ALPHA) if rng.random() < 0.85 else rng.randrange(256) for _ in range(n)))
    # unterminated / truncated constructs
    for s in [b'"abc', b'"ab\\', b'"ab\\"', b'/*', b'/* x', b'/* x *', b'/', b'a /', b'\x08', b'\x08\x00', b'\x08\x00\x05abc',
              b'\x08\x00\x03abc', b'a ', b'- ', b'; ', b'a\n', b'" "', b'"\\""', b'a /**/ b', b'a/**/b', b'a /**/b', b'a- -b', b'a - - b',
              b'a\x08\x00\x00 b', b'a \x08\x00\x00b', b'- \x08\x00\x00-', b'/*a*/ ', b'x /*a*/ ', b'/***/', b'/**/', b'/*/', b'/*/*/ a']:
        ops.append(s)
    return ops


# --------------------------------------------------------------------------------------
# (b) names: request sequences
# --------------------------------------------------------------------------------------

def gen_name_script(rng, minify, big):
    """One scope-tree history as protocol lines. Returns (lines, disciplined) — disciplined: every request is made
    on the innermost live scope (what the compiler does), so the distinctness oracle applies."""
    lines = ["nm new %d" % (1 if minify else 0)]
    stack = [0]
    nxt = 1
    pool = ["x", "y", "i", "err", "_tmp", "_r", "$r", "a", "b", "A", "do", "if", "in", "for", "int", "new", "this", "T", "T.m", "f.func1",
            "été", "v 1", "café·x", "$ptr", "_", "x$1"]
    disciplined = True
    nreq = 0
    objs = []
    fvars = []          # identities of function-level variables whose address is taken (shared by generic instances)
    target = big if big else rng.choice([5, 30, 120])
    if big:
        # one function context (or the package context) receives all `big` names
        if rng.random() < 0.7:
            lines.append("nm child 0 " + hx(b"main"))
            stack.append(nxt)
            nxt += 1
    while nreq < target:
        k = rng.random()
        if big:
            k = 1.0
        if k < 0.06 and len(stack) < 8:
            lines.append("nm %s %d %s" % (rng.choice(["child", "child", "gchild"]), stack[-1],
                                          hx(rng.choice(["main", "f", "T.m", "main.func1", "g.func1.func2"]).encode())))
            stack.append(nxt)
            nxt += 1
            nreq += 1
        elif k < 0.10 and len(stack) > 1:
            stack.pop()
        elif k < 0.30 and not big:
            # objectName: a named type declared in the function being translated (package-level in the generated code) or a
            # local; asked for again later in the same or a nested context
            if objs and rng.random() < 0.4:
                oid, oname, opk = rng.choice(objs)
            else:
                opk = 1 if rng.random() < 0.6 else 0
                oid = len(objs) + (0 if opk else 50000)
                oname = rng.choice(["point", "T", "item", "v", "err"]) if opk else rng.choice(["x", "i", "err"])
                objs.append((oid, oname, opk))
            lines.append("nm obj %d %d %s %d" % (stack[-1], oid, hx(oname.encode()), opk))
            nreq += 1
        elif k < 0.38 and not big:
            # &v: a new variable, or one already seen (the same object in another instantiation / a nested literal)
            if rng.random() < 0.15:
                vid = 100000 + rng.randrange(4)
                lines.append("nm ptr %d %d %s 1" % (stack[-1], vid, hx(("g%d" % vid).encode())))
            else:
                if fvars and rng.random() < 0.6:
                    vid = rng.choice(fvars)
                else:
                    vid = len(fvars)
                    fvars.append(vid)
                lines.append("nm ptr %d %d %s 0" % (stack[-1], vid, hx(("x%d" % vid).encode())))
            nreq += 1
        else:
            if big:
                name = "v%d" % nreq if rng.random() < 0.8 else rng.choice(pool)
            else:
                name = rng.choice(pool) if rng.random() < 0.8 else "v%d" % rng.randrange(6)
            pk = 1 if rng.random() < (0.5 if len(stack) == 1 else (0.03 if big else 0.12)) else 0
            sc = stack[-1]
            if not big and rng.random() < 0.03 and len(stack) > 1:
                sc = rng.choice(stack[:-1])         # an allocation on an outer live scope: still modelled, but undisciplined
                disciplined = False
            lines.append("nm req %d %s %d" % (sc, hx(name.encode()), pk))
            nreq += 1
            if rng.random() < 0.05:
                lines.append("nm cnt %d %s" % (rng.choice(stack), hx(rng.choice(pool + ["a", "b", "A", "ba", "do"]).encode())))
    for s in stack:
        lines.append("nm locals %d" % s)
    return lines, disciplined


def local_type_script(minify, depth, ntypes, nanon):
    """The shape of `type point struct{…}` declared in a function body (possibly inside nested literals), each followed by
    package-level allocations made from the same context: anonymous types built from it, function literals."""
    lines = ["nm new %d" % (1 if minify else 0)]
    for i in range(3):
        lines.append("nm req 0 %s 1" % hx(("g%d" % i).encode()))
    sid = 0
    nxt = 1
    oid = 0
    for d in range(depth):
        lines.append("nm child %d %s" % (sid, hx(("f.func%d" % d).encode() if d else b"f")))
        sid = nxt
        nxt += 1
        for t in range(ntypes):
            lines.append("nm obj %d %d %s 1" % (sid, oid, hx(("point%d" % t).encode())))
            for a in range(nanon):
                lines.append("nm req %d %s 1" % (sid, hx(rng_free_anon(a).encode())))     # sliceType, ptrType, … variables
            lines.append("nm obj %d %d %s 1" % (sid, oid, hx(("point%d" % t).encode())))
            lines.append("nm req %d %s 0" % (sid, hx(b"pts")))
            oid += 1
    for s_ in range(sid, -1, -1):
        lines.append("nm locals %d" % s_)
        lines.append("nm obj %d 0 %s 1" % (s_, hx(b"point0")))
        break
    lines.append("nm child 0 " + hx(b"other"))
    lines.append("nm obj %d 0 %s 1" % (nxt, hx(b"point0")))
    lines.append("nm req %d %s 1" % (nxt, hx(b"sliceType")))
    return lines, True


def rng_free_anon(a):
    return ["sliceType", "ptrType", "mapType", "arrayType", "funcType", "structType"][a % 6]


def generic_ptr_script(minify, nbefore, nafter, ninst):
    """The shape of the varPtrName defect: several instantiations of one generic function, each taking the address of
    the same variable object between other allocations."""
    lines = ["nm new %d" % (1 if minify else 0)]
    sid = 1
    for inst in range(ninst):
        lines.append("nm gchild 0 " + hx(b"bump"))
        for i in range(nbefore + (inst % 2)):       # type-dependent temporaries: instances allocate differently
            lines.append("nm req %d %s 0" % (sid, hx(("a%d" % i).encode())))
        lines.append("nm ptr %d 7 %s 0" % (sid, hx(b"local")))
        for i in range(nafter):
            lines.append("nm req %d %s 0" % (sid, hx(("b%d" % i).encode())))
        lines.append("nm ptr %d 7 %s 0" % (sid, hx(b"local")))
        lines.append("nm child %d %s" % (sid, hx(b"bump.func1")))
        lines.append("nm ptr %d 7 %s 0" % (sid + 1, hx(b"local")))
        lines.append("nm req %d %s 0" % (sid + 1, hx(b"c")))
        lines.append("nm locals %d" % (sid + 1))
        lines.append("nm locals %d" % sid)
        sid += 2
    return lines, True


def names_oracle(lines, answers):
    """Specification check on the implementation's answers of a disciplined script: visible names pairwise distinct,
    never reserved, package-level names disjoint from locals."""
    stack = [0]
    locs = {0: []}
    pkg = []
    bad = []
    ptrs = {}
    nxt = 1
    for ln, ans in zip(lines, answers):
        w = ln.split()
        if w[1] == "child":
            p = int(w[2])
            while stack[-1] != p:
                locs.pop(stack.pop())
            sid, name = ans.split()
            sid = int(sid)
            stack.append(sid)
            locs[sid] = []
            new, is_pkg = name, True
        elif w[1] == "gchild":
            p = int(w[2])
            while stack[-1] != p:
                locs.pop(stack.pop())
            sid, name = ans.split()
            sid = int(sid)
            stack.append(sid)
            locs[sid] = []
            new, is_pkg = name, True
        elif w[1] == "req":
            while stack[-1] != int(w[2]):       # scopes popped by the history are dead
                locs.pop(stack.pop())
            new, is_pkg = ans, w[4] == "1"
        elif w[1] == "obj":
            while stack[-1] != int(w[2]):
                locs.pop(stack.pop())
            key = ("obj", w[3])
            vis = set(pkg)
            for s_ in stack:
                vis.update(locs[s_])
            if ptrs.get(key) == ans and ans in vis:
                continue
            ptrs[key] = ans
            new, is_pkg = ans, w[5] == "1"
        elif w[1] == "ptr":
            while stack[-1] != int(w[2]):
                locs.pop(stack.pop())
            key = (w[3], w[5])
            vis = set(pkg)
            for s_ in stack:
                vis.update(locs[s_])
            if ptrs.get(key) == ans and ans in vis:
                continue                      # the recorded name, still in scope: nothing allocated
            ptrs[key] = ans
            new, is_pkg = ans, w[5] == "1"
        else:
            continue
        if new in ("panic", "bad-op", "bad-scope"):
            continue
        visible = set(pkg)
        for s in stack:
            visible.update(locs[s])
        nm = bytes.fromhex(new).decode("utf-8", "replace")
        if new in visible:
            bad.append("duplicate visible name %r at %r" % (nm, ln))
        if nm in KW:
            bad.append("reserved word %r allocated at %r" % (nm, ln))
        if is_pkg:
            pkg.append(new)
        else:
            locs[stack[-1]].append(new)
    return bad


# --------------------------------------------------------------------------------------
# (c) programs
# --------------------------------------------------------------------------------------

def goq(s):
    out = ['"']
    for ch in s:
        o = ord(ch)
        if ch == '"':
            out.append('\\"')
        elif ch == "\\":
            out.append("\\\\")
        elif ch == "\n":
            out.append("\\n")
        elif ch == "\t":
            out.append("\\t")
        elif o < 0x20 or o == 0x7F:
            out.append("\\x%02x" % o)
        else:
            out.append(ch)
    out.append('"')
    return "".join(out)


def pick_names(rng, n, avoid=()):
    """n distinct Go identifiers: JS keywords, names that look like minified names, ordinary names."""
    pool = [x for x in JS_IDENTS if x not in avoid]
    rng.shuffle(pool)
    res = []
    for i in range(n):
        if i < len(pool) and rng.random() < 0.5:
            res.append(pool[i])
        else:
            res.append("v%d" % i)
    # distinct
    seen = set()
    out = []
    for i, r in enumerate(res):
        if r in seen:
            r = "w%d" % i
        seen.add(r)
        out.append(r)
    return out


def prog_manyvars(rng, n):
    names = pick_names(rng, n, avoid=("sum", "seed", "inc", "t", "d"))
    L = ["package main", "", "func many(seed int) int {"]
    L.append("\t%s := seed%%97 + 1" % names[0])
    for i in range(1, n):
        j = rng.randrange(i)
        L.append("\t%s := (%s*3 + %s + %d) & 0xFFFF" % (names[i], names[i - 1], names[j], i))
        if i % 97 == 50:
            k = rng.randrange(i)
            L.append("\tinc%d := func(d int) int { t := %s + d; %s = t %% 1000; u := t - -d; return u & 0xFFFF }" % (i, names[k], names[k]))
            L.append("\t%s = (%s + inc%d(%d)) & 0xFFFF" % (names[i], names[i], i, i))
        if i % 113 == 7:
            k = rng.randrange(i)
            L.append("\t{")
            L.append("\t\t%s := %s + %d" % (names[k], names[k], i))
            L.append("\t\t%s = (%s + %s) & 0xFFFF" % (names[i], names[i], names[k]))
            L.append("\t}")
    L.append("\tsum := 0")
    for i in range(n):
        L.append("\tsum = (sum*31 + %s) & 0xFFFFF" % names[i])
    L.append("\treturn sum")
    L.append("}")
    L.append("")
    L.append("func main() {")
    L.append("\tprintln(many(%d))" % rng.randrange(1000))
    L.append("\tprintln(many(%d))" % rng.randrange(1000))
    L.append("}")
    return "\n".join(L) + "\n"


def prog_manypkg(rng, n):
    names = pick_names(rng, n, avoid=("main", "sum", "x"))
    L = ["package main", ""]
    kinds = []
    for i, nm in enumerate(names):
        k = rng.choice(["var", "var", "func", "type", "const"])
        kinds.append(k)
        if k == "var":
            L.append("var %s = %d" % (nm, rng.randrange(1000)))
        elif k == "const":
            L.append("const %s = %d" % (nm, rng.randrange(1000)))
        elif k == "func":
            L.append("func %s(x int) int { y := x + %d; return y & 0xFFFF }" % (nm, i))
        else:
            L.append("type %s struct{ x int }" % nm)
            L.append("func (r %s) get(y int) int { return (r.x + y) & 0xFFFF }" % nm)
    L.append("")
    L.append("func main() {")
    L.append("\tsum := 0")
    for i, nm in enumerate(names):
        k = kinds[i]
        if k in ("var", "const"):
            L.append("\tsum = (sum*31 + %s) & 0xFFFFF" % nm)
        elif k == "func":
            L.append("\tsum = (sum*31 + %s(sum)) & 0xFFFFF" % nm)
        else:
            L.append("\tsum = (sum*31 + %s{x: %d}.get(sum)) & 0xFFFFF" % (nm, i))
    L.append("\tprintln(sum)")
    for i, nm in enumerate(names):
        if kinds[i] == "var" and rng.random() < 0.1:
            L.append("\t%s++" % nm)
            L.append("\tprintln(%s)" % nm)
    L.append("}")
    return "\n".join(L) + "\n"


STR_SPICE = ['"', "\\", "/*", "*/", "//", "- -", "  ", "\t", "/* x */", "'", "`", "+ +", "\n", "a", "b", "$", " ", "-", "--",
             "\\\"", "\\n", "*", "/", "\x08", "function", "var  x", "{ }", ";", "<star>/"]


def rand_gostr(rng):
    return "".join(rng.choice(STR_SPICE) for _ in range(rng.choice([0, 1, 2, 3, 5, 9])))


def prog_strings(rng, n):
    strs = [rand_gostr(rng) for _ in range(n)]
    for _ in range(2):
        i = rng.randrange(0, max(1, n - 1))
        strs[i] = strs[i] + rng.choice(["\\", "\\\\", "\"\\", "x\\"])
        strs[i + 1 if i + 1 < n else 0] = rng.choice([" ( a , b ) ", " ; /* x */ , ", "a  -  - b", " \" /* y */ \\", "{ } [ ]  //  "])
    names = pick_names(rng, 6, avoid=("s", "i", "m", "k", "total"))
    L = ["package main", "", "type pair struct {", "\tkey string", "\tval int", "}", ""]
    L.append("var table = []string{")
    for s in strs:
        if "`" not in s and "\x08" not in s and rng.random() < 0.3:
            L.append("\t`%s`," % s)
        else:
            L.append("\t%s," % goq(s))
    L.append("}")
    L.append("")
    L.append("func classify(s string) int {")
    L.append("\tswitch s {")
    used = set()
    for i, s in enumerate(strs[:8]):
        if s in used:
            continue
        used.add(s)
        L.append("\tcase %s:" % goq(s))
        L.append("\t\treturn %d" % (i + 1))
    L.append("\t}")
    L.append("\treturn - 1")
    L.append("}")
    L.append("")
    L.append("func main() {")
    L.append("\ttotal := 0")
    L.append("\tm := map[string]int{}")
    L.append("\tfor i, s := range table {")
    L.append("\t\tprintln(i, len(s), s)")
    L.append("\t\tm[s] += i + 1")
    L.append("\t\ttotal += classify(s) * (i + 1)")
    L.append("\t}")
    L.append("\tprintln(total, len(m))")
    a, b, c, d = names[:4]
    L.append("\t%s := %s + \"/*\" + %s + \"*/\" + %s" % (a, goq(strs[0]), goq(strs[1 % n]), goq(strs[2 % n])))
    L.append("\t%s := '\"' + '\\\\' + '/' + '*' + '-'" % b)
    L.append("\t%s := pair{key: %s, val: len(%s) - -int(%s)}" % (c, goq(strs[3 % n]), a, b))
    L.append("\tprintln(%s, len(%s), int(%s), %s.key, %s.val)" % (a, a, b, c, c))
    L.append("\t%s := %s == %s || %s < %s" % (d, a, goq(strs[0]), a, goq("/* " + strs[1 % n])))
    L.append("\tprintln(%s)" % d)
    L.append("\tprintln(join(\"a\\\\\", \" ( b ) /* c */ , \") + \"d\\\\\" + \" ; - - \", len(join(%s, %s)))" % (goq(strs[0]), goq(strs[1 % n])))
    L.append("}")
    L.append("")
    L.append("func join(a, b string) string { return a + \"|\" + b }")
    return "\n".join(L) + "\n"


def prog_minus(rng):
    a, b, c, f, g = pick_names(rng, 5, avoid=("r", "s", "ch", "p", "q"))
    va, vb, vc = [rng.choice([1, 2, 3, 5, 7, 11, 100, -3, -8, 65535]) for _ in range(3)]
    exprs = ["%s - -%s" % (a, b), "%s - (-%s)" % (a, b), "-%s - -%s" % (a, b), "%s + -%s" % (a, b), "%s - -%s - -%s" % (a, b, c),
             "%s * -%s" % (a, b), "%s - -1" % a, "%s - -%s*2" % (a, b), "-(%s - -%s)" % (a, b), "%s - -(-%s)" % (a, b),
             "-(-%s)" % a, "%s+ -%s" % (a, b), "%s- -%s" % (a, b), "%s -(- %s)" % (a, b), "^-%s" % a, "%s &^ -%s" % (a, b),
             "%s<<2 - -%s" % (a, b), "+%s - -%s" % (a, b), "%s - +%s" % (a, b), "%s + +%s" % (a, b), "-%s + +%s - -%s" % (a, b, c),
             "s[%s - -1]" % "i0", "%s - - 5" % a, "- %s - - 5 - - %s" % (a, b), "(-%s) - (-%s)" % (a, b), "%s | -%s" % (a, b), "%s ^ -%s" % (a, b)]
    bools = ["%s < -%s" % (a, b), "%s > -%s" % (a, b), "%s == -%s" % (a, b), "!(%s < -%s)" % (a, b), "%s <= -%s" % (a, b),
             "-%s >= -%s" % (a, b), "%s != -%s" % (a, b), "!(%s == -%s) && !(%s > -%s)" % (a, b, b, c)]
    rng.shuffle(exprs)
    rng.shuffle(bools)
    L = ["package main", "", "type pt struct{ x, y int }", "",
         "func neg(%s int) int { return -%s }" % (a, a), "",
         "func calc(%s, %s, %s int) {" % (a, b, c), "\ts := []int{10, 20, 30}", "\ti0 := 0"]
    for e in exprs:
        L.append("\tprintln(%s)" % e)
    for e in bools:
        L.append("\tprintln(%s)" % e)
    L.append("\t%s := float64(%s) + 0.5" % (f, a))
    L.append("\t%s := -%s" % (g, f))
    L.append("\tprintln(int((%s - -%s) * 4), int((%s - %s) * 4), int(-%s * -2.5))" % (f, g, f, g, f))
    L.append("\tp := pt{%s, -%s}" % (a, b))
    L.append("\tq := &p")
    L.append("\tprintln(p.x - -p.y, q.x - -q.y, neg(p.x) - -neg(q.y))")
    L.append("\t%s -= -%s" % (a, b))
    L.append("\t%s = - %s" % (c, c))
    L.append("\t%s--" % b)
    L.append("\t%s++" % a)
    L.append("\tprintln(%s, %s, %s)" % (a, b, c))
    L.append("\tr := int64(%s)" % a)
    L.append("\tr = r - -int64(%s)" % b)
    L.append("\tprintln(int(r), int(-r - -r), int(uint8(%s) - -uint8(%s)))" % (a, b))
    L.append("\tch := make(chan int, 2)")
    L.append("\tch <- %s" % a)
    L.append("\tch <- -%s" % b)
    L.append("\tprintln(%s < <-ch, %s - -<-ch)" % (a, a))
    L.append("}")
    L.append("")
    L.append("func main() {")
    L.append("\tcalc(%d, %d, %d)" % (va, vb, vc))
    L.append("\tcalc(%d, %d, %d)" % (vb, vc, va))
    L.append("}")
    return "\n".join(L) + "\n"


def prog_closures(rng, ending):
    n = pick_names(rng, 12, avoid=("T", "x", "r", "k", "done", "out", "e", "msg", "box", "s"))
    k1, k2 = rng.randrange(2, 9), rng.randrange(2, 9)
    L = ["package main", ""]
    L.append("type box interface{ get() int }")
    L.append("")
    L.append("func first(%s int) (%s int, %s string) {" % (n[0], n[1], n[2]))
    L.append("\ttype T struct{ x int }")
    L.append("\tdefer func() {")
    L.append("\t\tif %s := recover(); %s != nil {" % (n[3], n[3]))
    L.append("\t\t\t%s = -%s" % (n[1], n[1]))
    L.append("\t\t\t%s = \"recovered /* \" + %s.(string) + \" */\"" % (n[2], n[3]))
    L.append("\t\t}")
    L.append("\t}()")
    L.append("\t%s := T{x: %s}" % (n[4], n[0]))
    L.append("\t%s := func(%s int) func(int) int {" % (n[5], n[0]))
    L.append("\t\t%s := %s * %d" % (n[6], n[0], k1))
    L.append("\t\treturn func(%s int) int {" % n[7])
    L.append("\t\t\t%s := %s + %s" % (n[0], n[6], n[7]))
    L.append("\t\t\t%s.x += %s" % (n[4], n[0]))
    L.append("\t\t\t%s++" % n[6])
    L.append("\t\t\treturn %s - -%s.x" % (n[0], n[4]))
    L.append("\t\t}")
    L.append("\t}")
    L.append("\t%s := %s(%d)" % (n[8], n[5], k2))
    L.append("\t%s = %s(1) + %s(2)" % (n[1], n[8], n[8]))
    L.append("\tif %s > %d {" % (n[0], 5))
    L.append("\t\tpanic(\"big \\\"%s\\\" - -\")" % n[0])
    L.append("\t}")
    L.append("\t%s = \"ok\"" % n[2])
    L.append("\treturn")
    L.append("}")
    L.append("")
    L.append("func second(%s int) int {" % n[0])
    L.append("\ttype T struct{ x, y int }")
    L.append("\t%s := T{%s, -%s}" % (n[9], n[0], n[0]))
    L.append("\t%s := 0" % n[10])
    L.append("\tfor %s := 0; %s < 4; %s++ {" % (n[11], n[11], n[11]))
    L.append("\t\t%s := %s * %s" % (n[0], n[11], n[9] + ".x"))
    L.append("\t\tif %s %% 2 == 0 {" % n[11])
    L.append("\t\t\tcontinue")
    L.append("\t\t}")
    L.append("\t\t%s += %s - -%s.y" % (n[10], n[0], n[9]))
    L.append("\t}")
    L.append("\treturn %s" % n[10])
    L.append("}")
    L.append("")
    L.append("type impl struct{ %s int }" % n[0])
    L.append("func (%s impl) get() int { return %s.%s * 2 }" % (n[1], n[1], n[0]))
    L.append("")
    L.append("func worker(%s chan int, done chan bool) {" % n[0])
    L.append("\t%s := 0" % n[1])
    L.append("\tfor %s := range %s {" % (n[2], n[0]))
    L.append("\t\t%s += %s - -1" % (n[1], n[2]))
    L.append("\t}")
    L.append("\tprintln(\"worker\", %s)" % n[1])
    L.append("\tdone <- true")
    L.append("}")
    L.append("")
    L.append("func main() {")
    L.append("\t%s, %s := first(%d)" % (n[0], n[1], rng.choice([1, 3, 9])))
    L.append("\tprintln(%s, %s)" % (n[0], n[1]))
    L.append("\t%s, %s = first(%d)" % (n[0], n[1], rng.choice([2, 4, 7])))
    L.append("\tprintln(%s, %s)" % (n[0], n[1]))
    L.append("\tprintln(second(%d))" % rng.randrange(1, 9))
    L.append("\tvar %s box = impl{%d}" % (n[2], rng.randrange(1, 50)))
    L.append("\tprintln(%s.get())" % n[2])
    L.append("\t%s := make(chan int)" % n[3])
    L.append("\tdone := make(chan bool)")
    L.append("\tgo worker(%s, done)" % n[3])
    L.append("\tfor %s := 0; %s < 3; %s++ {" % (n[4], n[4], n[4]))
    L.append("\t\t%s <- %s * %d" % (n[3], n[4], k1))
    L.append("\t}")
    L.append("\tclose(%s)" % n[3])
    L.append("\t<-done")
    L.append("\t%s := 0" % n[5])
    L.append("loop:")
    L.append("\tif %s < 3 {" % n[5])
    L.append("\t\t%s++" % n[5])
    L.append("\t\tgoto loop")
    L.append("\t}")
    L.append("\tprintln(%s)" % n[5])
    if ending == "panic":
        L.append("\tpanic(\"boom /* not a comment */ \\\" - -\")")
    elif ending == "nilmap":
        L.append("\tvar %s map[string]int" % n[6])
        L.append("\t%s[\"a\"] = 1" % n[6])
    elif ending == "index":
        L.append("\t%s := []int{1, 2, 3}" % n[6])
        L.append("\tprintln(%s[%s+%d])" % (n[6], n[5], 1))
    L.append("}")
    return "\n".join(L) + "\n"



NONASCII = ["Ünique", "étape", "ßeta", "Δx", "π", "日本", "Ωmega", "ñu", "Ünique2", "élan"]


def prog_nonascii(rng):
    """Identifiers whose first letter is not ASCII: labels (emitted verbatim after `continue ` / `break ` / `goto `),
    variables, functions, types, methods, fields; in a plain function and in a blocking (flattened) one."""
    n = list(NONASCII)
    rng.shuffle(n)
    lab1, lab2, lab3, v1, v2, f1, t1, m1, fld = n[:9]
    a, b = rng.randrange(2, 5), rng.randrange(2, 5)
    L = ["package main", ""]
    L.append("type %s struct{ %s int }" % (t1, fld))
    L.append("func (r %s) %s(k int) int { return r.%s*k - -1 }" % (t1, m1, fld))
    L.append("")
    L.append("func %s(%s int) int {" % (f1, v1))
    L.append("\t%s := 0" % v2)
    L.append("%s:" % lab1)
    L.append("\tfor i := 0; i < %d; i++ {" % (a + 2))
    L.append("\t%s:" % lab2)
    L.append("\t\tfor j := 0; j < %d; j++ {" % (b + 2))
    L.append("\t\t\tswitch {")
    L.append("\t\t\tcase j == %d:" % (b - 1))
    L.append("\t\t\t\tcontinue %s" % lab1)
    L.append("\t\t\tcase i == %d && j == 0:" % a)
    L.append("\t\t\t\tbreak %s" % lab1)
    L.append("\t\t\tcase (i+j)%3 == 0:")
    L.append("\t\t\t\tcontinue %s" % lab2)
    L.append("\t\t\tcase i+j > %d:" % (a + b))
    L.append("\t\t\t\tbreak %s" % lab2)
    L.append("\t\t\t}")
    L.append("\t\t\t%s += 10*i + j + %s" % (v2, v1))
    L.append("\t\t}")
    L.append("\t}")
    L.append("\treturn %s" % v2)
    L.append("}")
    L.append("")
    L.append("func blocking(ch chan int, %s int) int {" % v1)
    L.append("\t%s := 0" % v2)
    L.append("\tk := 0")
    L.append("%s:" % lab3)
    L.append("\tfor i := 0; i < 4; i++ {")
    L.append("\t\tfor j := 0; j < 3; j++ {")
    L.append("\t\t\tch <- i*3 + j")
    L.append("\t\t\tx := <-ch")
    L.append("\t\t\tif x%%%d == 1 {" % a)
    L.append("\t\t\t\tcontinue %s" % lab3)
    L.append("\t\t\t}")
    L.append("\t\t\tif x > 9 {")
    L.append("\t\t\t\tbreak %s" % lab3)
    L.append("\t\t\t}")
    L.append("\t\t\t%s += x + %s" % (v2, v1))
    L.append("\t\t}")
    L.append("\t}")
    L.append("%s:" % lab1)
    L.append("\tif k < 3 {")
    L.append("\t\tk++")
    L.append("\t\t%s += k" % v2)
    L.append("\t\tgoto %s" % lab1)
    L.append("\t}")
    L.append("\treturn %s" % v2)
    L.append("}")
    L.append("")
    L.append("func main() {")
    L.append("\tprintln(%s(%d), %s(%d))" % (f1, rng.randrange(1, 9), f1, rng.randrange(1, 9)))
    L.append("\tprintln(blocking(make(chan int, 1), %d))" % rng.randrange(1, 9))
    L.append("\t%s := %s{%s: %d}" % (v1, t1, fld, rng.randrange(1, 9)))
    L.append("\tprintln(%s.%s(%d), %s.%s)" % (v1, m1, rng.randrange(1, 9), v1, fld))
    L.append("}")
    return "\n".join(L) + "\n"


def prog_generic_ptr(rng):
    """Generic functions / methods instantiated several times that take the address of locals (`&local`) between other
    allocations, directly and from a nested function literal; the instantiations share the variable objects."""
    nb, na = rng.randrange(0, 4), rng.randrange(1, 4)
    n = pick_names(rng, 10, avoid=("get", "set", "local", "other", "r", "k", "v", "T", "Box", "p", "q", "f"))
    L = ["package main", "", "func get(p *int) int { return *p }", "func set(p *int, v int) { *p = v }", ""]
    L.append("type Box[T any] struct{ v T }")
    L.append("")
    L.append("func bump[T any](v T, k int) int {")
    for i in range(nb):
        L.append("\t%s := k + %d" % (n[i], i + 1))
    L.append("\tlocal := k")
    L.append("\tr := get(&local)")
    for i in range(na):
        L.append("\t%s := k*%d + r" % (n[4 + i], i + 2))
    L.append("\tset(&local, r*2 + 1)")
    L.append("\tr += get(&local)")
    L.append("\tother := k * 3")
    L.append("\tset(&other, get(&other) + r)")
    L.append("\tr = r*10 + get(&other)")
    L.append("\tvar zero T")
    L.append("\t_ = zero")
    for i in range(nb):
        L.append("\tr = (r*3 + %s) & 0xFFFF" % n[i])
    for i in range(na):
        L.append("\tr = (r*3 + %s) & 0xFFFF" % n[4 + i])
    L.append("\treturn r")
    L.append("}")
    L.append("")
    L.append("func (b *Box[T]) sum(k int) int {")
    L.append("\tlocal := k + 1")
    L.append("\tp := &local")
    L.append("\t%s := k * 7" % n[8])
    L.append("\t*p += %s" % n[8])
    L.append("\t%s := get(&local) - -k" % n[9])
    L.append("\treturn %s*100 + *p" % n[9])
    L.append("}")
    L.append("")
    L.append("func main() {")
    L.append("\tprintln(bump[int](1, %d))" % rng.randrange(1, 9))
    L.append("\tprintln(bump[string](\"x\", %d))" % rng.randrange(1, 9))
    L.append("\tprintln(bump[bool](true, %d))" % rng.randrange(1, 9))
    L.append("\tprintln(bump[float64](1.5, %d))" % rng.randrange(1, 9))
    L.append("\tprintln((&Box[int]{1}).sum(%d), (&Box[string]{\"s\"}).sum(%d), (&Box[[]int]{nil}).sum(%d))" % (
        rng.randrange(1, 9), rng.randrange(1, 9), rng.randrange(1, 9)))
    L.append("}")
    return "\n".join(L) + "\n"


def prog_localtypes(rng):
    """Named types declared in function bodies (struct, named slice, named func; several per function; also inside function
    literals, generic functions and methods), each followed by the FIRST use of fresh anonymous types built from them and by
    function literals — so package-level JS names (the local types, the anonymous-type variables, the literals' own names)
    are allocated from inside function contexts."""
    n = pick_names(rng, 14, avoid=("k", "v", "T", "r", "s", "i", "t", "main", "recv", "gen", "plain", "nested"))
    a, b, c = rng.randrange(1, 9), rng.randrange(1, 9), rng.randrange(2, 6)

    def uses(ty, mk, fld, tag, only=None):
        """statements that use fresh anonymous types built from the local type `ty` (value expression `mk`, int field `fld`)"""
        forms = [
            ["xs%s := []%s{%s, %s}" % (tag, ty, mk, mk), "s += len(xs%s) + xs%s[1]%s" % (tag, tag, fld)],
            ["p%s := &[]%s{%s}[0]" % (tag, ty, mk), "s += (*p%s)%s" % (tag, fld)],
            ["m%s := map[string]%s{\"a\": %s}" % (tag, ty, mk), "s += m%s[\"a\"]%s + len(m%s)" % (tag, fld, tag)],
            ["ar%s := [3]%s{%s}" % (tag, ty, mk), "s += ar%s[0]%s + len(ar%s)" % (tag, fld, tag)],
            ["fn%s := func(q %s) int { return q%s * 2 }" % (tag, ty, fld), "s += fn%s(%s)" % (tag, mk)],
            ["st%s := struct{ in %s; n int }{%s, 7}" % (tag, ty, mk), "s += st%s.in%s + st%s.n" % (tag, fld, tag)],
            ["ch%s := make(chan %s, 1)" % (tag, ty), "ch%s <- %s" % (tag, mk), "s += (<-ch%s)%s" % (tag, fld)],
            ["pp%s := new(%s)" % (tag, ty), "*pp%s = %s" % (tag, mk), "s += (*pp%s)%s" % (tag, fld)],
            ["var if%s interface{} = %s" % (tag, mk), "if w, ok := if%s.(%s); ok { s += w%s }" % (tag, ty, fld)],
        ]
        if only is not None:
            forms = [forms[i] for i in only]
        rng.shuffle(forms)
        out = []
        for f in forms[:rng.randrange(2, 6)]:
            out += f
        return out

    L = ["package main", "", "type recv struct{ base int }", ""]
    # a plain function with several local types
    L.append("func plain(k int) int {")
    L.append("\ts := 0")
    L.append("\ttype %s struct{ x, y int }" % n[0])
    for st in uses(n[0], "%s{k, %d}" % (n[0], a), ".x", "A"):
        L.append("\t" + st)
    L.append("\ttype %s []int" % n[1])
    for st in uses(n[1], "%s{k, %d, %d}" % (n[1], a, b), "[1]", "B"):
        L.append("\t" + st)
    L.append("\ttype %s func(int) int" % n[2])
    L.append("\top := %s(func(v int) int { return v*%d + k })" % (n[2], c))
    L.append("\tops := []%s{op, func(v int) int { return v - -k }}" % n[2])
    L.append("\tfor _, f := range ops { s += f(%d) }" % b)
    L.append("\treturn s")
    L.append("}")
    L.append("")
    # local types inside nested function literals
    L.append("func nested(k int) int {")
    L.append("\ts := 0")
    L.append("\ttype %s struct{ v int }" % n[3])
    L.append("\touter := func(d int) int {")
    L.append("\t\ttype %s struct{ w int; in %s }" % (n[4], n[3]))
    L.append("\t\tys := []%s{{d, %s{k}}, {d + 1, %s{k + 1}}}" % (n[4], n[3], n[3]))
    L.append("\t\tinner := func() int {")
    L.append("\t\t\ttype %s map[int]%s" % (n[5], n[4]))
    L.append("\t\t\tmm := %s{1: ys[0], 2: ys[1]}" % n[5])
    L.append("\t\t\tzs := [][]%s{ys}" % n[4])
    L.append("\t\t\treturn mm[2].w + mm[1].in.v + len(zs[0])")
    L.append("\t\t}")
    L.append("\t\treturn inner() + ys[1].in.v")
    L.append("\t}")
    for st in uses(n[3], "%s{k + %d}" % (n[3], a), ".v", "C"):
        L.append("\t" + st)
    L.append("\treturn s + outer(%d)" % b)
    L.append("}")
    L.append("")
    # generic function and method
    L.append("func gen[T any](t T, k int) int {")
    L.append("\ts := 0")
    L.append("\ttype %s struct{ val T; n int }" % n[6])
    # (composite literals of slices/maps of a type nested in a generic function make the compiler panic in BOTH builds —
    #  a generics defect outside C16 — so only the forms that compile are used here)
    for st in uses(n[6], "%s{t, k + %d}" % (n[6], a), ".n", "G", only=[4, 6, 8]):
        L.append("\t" + st)
    L.append("\ttype %s struct{ n int }" % n[7])
    for st in uses(n[7], "%s{k * %d}" % (n[7], c), ".n", "D", only=[4, 6, 8]):
        L.append("\t" + st)
    L.append("\treturn s")
    L.append("}")
    L.append("")
    L.append("func (r recv) meth(k int) int {")
    L.append("\ts := r.base")
    L.append("\ttype %s struct{ a, b int }" % n[8])
    for st in uses(n[8], "%s{k, r.base}" % n[8], ".b", "E"):
        L.append("\t" + st)
    L.append("\ttype %s [2]%s" % (n[9], n[8]))
    L.append("\tpr := %s{{1, 2}, {k, %d}}" % (n[9], b))
    L.append("\tcmp := func(u, v %s) bool { return u[1].a < v[1].a }" % n[9])
    L.append("\tif cmp(pr, %s{{0, 0}, {k + 1, 0}}) { s += pr[1].b }" % n[9])
    L.append("\treturn s")
    L.append("}")
    L.append("")
    L.append("func main() {")
    calls = ["println(plain(%d))" % rng.randrange(1, 9), "println(nested(%d))" % rng.randrange(1, 9),
             "println(gen[int](1, %d), gen[string](\"s\", %d), gen[[]int](nil, %d))" % (rng.randrange(1, 9), rng.randrange(1, 9), rng.randrange(1, 9)),
             "println(recv{%d}.meth(%d))" % (rng.randrange(1, 9), rng.randrange(1, 9))]
    rng.shuffle(calls)
    for cl in calls:
        L.append("\t" + cl)
    L.append("}")
    return "\n".join(L) + "\n"


MIN_LETTERS = [chr(c) for c in range(65, 91)] + [chr(c) for c in range(97, 123)] + ["AA", "AB", "BA", "ID", "aa", "ba", "Aa", "zz"]


def prog_structzero(rng):
    """Struct types whose FIELD names come from the alphabet the minifier hands out (A–Z, a–z, two letters) and whose field
    types need package-level type variables for their zero value (slices, pointers, arrays, maps, nested structs, funcs),
    zero-constructed through every path: make([]T, n), array zero value, map miss, receive from a closed channel, embedded
    zero, generic `var z T`, new(T), T{}, var t T."""
    ntypes = rng.randrange(2, 5)
    L = ["package main", ""]
    types_ = []
    kinds = [("[]float64", "%s == nil"), ("[]int", "len(%s) == 0"), ("*int", "%s == nil"), ("[2]int", "%s[1] == 0"),
             ("map[string]int", "len(%s) == 0"), ("func(int) int", "%s == nil"), ("[]string", "%s == nil"),
             ("*[3]byte", "%s == nil"), ("[]*int", "%s == nil"), ("chan int", "%s == nil"), ("inner", "%s.q == 0 && %s.r == nil"),
             ("*inner", "%s == nil"), ("[2]inner", "%s[1].q == 0"), ("[]inner", "len(%s) == 0"), ("interface{}", "%s == nil"),
             ("string", "%s == \"\""), ("int", "%s == 0")]
    L.append("type inner struct {")
    L.append("\tq int")
    L.append("\tr []int")
    L.append("}")
    L.append("")
    for t in range(ntypes):
        nf = rng.randrange(3, 12)
        names = rng.sample(MIN_LETTERS, nf)
        fields = [(nm, rng.choice(kinds)) for nm in names]
        tname = "T%d" % t
        L.append("type %s struct {" % tname)
        for nm, (ty, _) in fields:
            L.append("\t%s %s" % (nm, ty))
        L.append("}")
        L.append("")
        cond = " && ".join("(" + chk.replace("%s", "v." + nm) + ")" for nm, (ty, chk) in fields)
        L.append("func zero%d(v %s) bool { return %s }" % (t, tname, cond))
        L.append("")
        types_.append((tname, fields))
    L.append("type outer struct {")
    L.append("\tT0")
    L.append("\tn int")
    L.append("}")
    L.append("")
    L.append("func gz[T any]() T { var z T; return z }")
    L.append("")
    L.append("func main() {")
    for t, (tname, fields) in enumerate(types_):
        z = "zero%d" % t
        L.append("\t{")
        L.append("\t\ts := make([]%s, %d)" % (tname, rng.randrange(1, 4)))
        L.append("\t\tvar arr [2]%s" % tname)
        L.append("\t\tm := map[int]%s{}" % tname)
        L.append("\t\tch := make(chan %s, 1)" % tname)
        L.append("\t\tclose(ch)")
        L.append("\t\tfromCh, ok := <-ch")
        L.append("\t\tvar v %s" % tname)
        L.append("\t\tgrown := append([]%s(nil), make([]%s, 2)...)" % (tname, tname))
        L.append("\t\tprintln(%d, %s(s[len(s)-1]), %s(arr[1]), %s(m[7]), %s(fromCh), ok, %s(v), %s(%s{}), %s(*new(%s)), %s(gz[%s]()), %s(grown[1]), %s(gz[[2]%s]()[0]))" % (
            t, z, z, z, z, z, z, tname, z, tname, z, tname, z, z, tname))
        nm, (ty, _) = fields[0]
        L.append("\t\ts[0] = %s{}" % tname)
        L.append("\t\tcopy(s, arr[:1])")
        L.append("\t\tprintln(%s(s[0]))" % z)
        L.append("\t}")
    L.append("\tos := make([]outer, 2)")
    L.append("\tprintln(zero0(os[1].T0), os[0].n, zero0(gz[outer]().T0))")
    L.append("}")
    return "\n".join(L) + "\n"


LEGAL_LINE = ["//! %s v1.2.0 | (c) ACME | MIT license", "// @license %s MIT", "// @preserve %s keep me", "//! %s"]
LEGAL_BLOCK = ["/*! %s (c) ACME */", "/** @license %s\n * MIT\n */", "/* @preserve %s */"]


def incjs_file(rng, name, k):
    """One .inc.js file: sets $global.<name> = {version, f, g, re, tpl}; exercises the JavaScript-side minifier (esbuild):
    line comments, legal comments (line and block style, at the top / in the middle / as the LAST line), template and
    regex literals, strings containing `//` and `/*`, statements ended by line breaks only, a last line without a
    line break. Returns (source, what the Go side must read back)."""
    parts = []
    top = rng.choice(["legal-line", "legal-block", "plain", "none"])
    if top == "legal-line":
        parts.append(rng.choice(LEGAL_LINE) % name)
    elif top == "legal-block":
        parts.append(rng.choice(LEGAL_BLOCK) % name)
    elif top == "plain":
        parts.append("// %s: an ordinary comment, dropped by the minifier" % name)
    parts.append("/* block comment with // inside and a \" quote */")
    parts.append("var base%d = %d" % (k, k))                       # no semicolon: ended by the line break
    parts.append("let url%d = \"http://example.org/*not-a-comment*/?q=//x\"" % k)
    parts.append("const re%d = /\\/\\/[a-z]+\"?/g  // a regex literal with slashes and a quote" % k)
    if rng.random() < 0.5:
        parts.append(rng.choice(LEGAL_LINE) % (name + "-mid"))
    parts.append("function tag%d(s) { return `<${s}|%s // not a comment /* nor this */ ${base%d + 1}>` }" % (k, name, k))
    parts.append("$global.%s = {" % name)
    parts.append("  version: \"1.%d.0\"," % k)
    parts.append("  f: function(x, y) {")
    parts.append("    var r = x * x + y * y")
    parts.append("    return r + base%d  // trailing comment" % k)
    parts.append("  },")
    parts.append("  g: function(s) { return \"[\" + s + \"]\" + tag%d(s.length) },"  % k)
    parts.append("  re: function(s) { re%d.lastIndex = 0; return re%d.test(s) }," % (k, k))
    parts.append("  url: url%d," % k)
    parts.append("}")
    end = rng.choice(["legal-line", "legal-line", "plain-line", "block", "stmt"])
    if end == "legal-line":
        parts.append(rng.choice(LEGAL_LINE) % (name + "-end"))
    elif end == "plain-line":
        parts.append("// the end of %s" % name)
    elif end == "block":
        parts.append(rng.choice(LEGAL_BLOCK) % (name + "-end"))
    else:
        parts.append("$global.%s.extra = 1" % name)
    src = "\n".join(parts)
    if rng.random() < 0.5:
        src += "\n"                                              # otherwise: last line without a line break
    return src


def prog_incjs(rng):
    nfiles = rng.choice([1, 2, 3])
    files = {}
    L = ["package main", "", "import \"github.com/gopherjs/gopherjs/js\"", "", "func main() {"]
    expect = []
    for k in range(nfiles):
        name = "gvlib%d%s" % (k, rng.choice(["", "x", "_y"]))
        files["%s%d.inc.js" % (rng.choice(["a", "lib", "zz"]), k)] = incjs_file(rng, name, k)
        x, y = rng.randrange(1, 9), rng.randrange(1, 9)
        s = rng.choice(["a - -b // not a comment", "x /* y */ z", "q\\\"r", "plain"])
        L.append("\t{")
        L.append("\t\tlib := js.Global.Get(%s)" % goq(name))
        L.append("\t\tprintln(lib.Get(\"version\").String(), lib.Call(\"f\", %d, %d).Int())" % (x, y))
        L.append("\t\tprintln(lib.Call(\"g\", %s).String())" % goq(s))
        L.append("\t\tprintln(lib.Call(\"re\", \"see //abc\").Bool(), lib.Call(\"re\", \"no slashes\").Bool(), lib.Get(\"url\").String())")
        L.append("\t}")
        expect.append("1.%d.0 %d" % (k, x * x + y * y + k))
        expect.append("[%s]<%d|%s // not a comment /* nor this */ %d>" % (s, len(s), name, k + 1))
        expect.append("true false http://example.org/*not-a-comment*/?q=//x")
    L.append("\tprintln(\"done\")")
    L.append("}")
    expect.append("done")
    files["main.go"] = "\n".join(L) + "\n"
    return files, expect


WITNESS_CONSOLE = """package main

func main() {
	console := 5
	println(console)
}
"""


WITNESS_CTOR_UNDERSCORE = """package main

type X_ struct{ n int }

type T struct {
	X X_
	k int
}

func main() {
	ts := make([]T, 2)
	println(ts[1].X.n, ts[0].k, len(ts))
}
"""
SIG_CTOR_UNDERSCORE = "C16 plain-vs-minify struct-field=X of package-level type X_: ctor parameter X_ shadows the type in the plain build"


def gen_programs(rng, tier):
    jobs = []

    def add(kind, src):
        jobs.append({"id": "%s%d" % (kind, len(jobs)), "files": {"main.go": src}, "variants": ["plain", "minify"], "native": True,
                     "timeout": 30, "kind": kind, "keep_js": True})
    sizes = [30, 730] if tier == "quick" else [5, 27, 30, 60, 120, 703, 730, 800, 1000]
    for n in sizes:
        add("manyvars", prog_manyvars(rng, n))
    for n in ([720] if tier == "quick" else [10, 27, 40, 100, 703, 720, 900]):
        add("manypkg", prog_manypkg(rng, n))
    for _ in range(2 if tier == "quick" else 12):
        add("strings", prog_strings(rng, rng.choice([8, 16, 30])))
    for _ in range(2 if tier == "quick" else 12):
        add("minus", prog_minus(rng))
    for _ in range(2 if tier == "quick" else 8):
        add("nonascii", prog_nonascii(rng))
    for _ in range(2 if tier == "quick" else 8):
        add("genericptr", prog_generic_ptr(rng))
    for _ in range(3 if tier == "quick" else 12):
        add("localtypes", prog_localtypes(rng))
    for _ in range(4 if tier == "quick" else 16):
        add("structzero", prog_structzero(rng))
    for _ in range(4 if tier == "quick" else 24):
        files, expect = prog_incjs(rng)
        jobs.append({"id": "incjs%d" % len(jobs), "files": files, "variants": ["plain", "minify"], "native": False,
                     "timeout": 30, "kind": "incjs", "expect": expect, "keep_js": True})
    for e in (["exit", "panic", "nilmap", "index"] if tier == "quick" else ["exit", "panic", "nilmap", "index"] * 3):
        add("closures-" + e, prog_closures(rng, e))
    return jobs


# --------------------------------------------------------------------------------------
# the run
# --------------------------------------------------------------------------------------

def run_programs(jobs):
    """compile + run; a run that hit the wall-clock limit (loaded machine) is repeated alone with a longer limit"""
    clean = [{k: v for k, v in j.items() if k not in ("kind", "expect")} for j in jobs]
    results = progs.run_jobs(clean)
    for attempt in range(2):
        redo = [i for i, r in enumerate(results) if any(v.get("class") == "timeout" for v in r["runs"].values())]
        if not redo:
            break
        again = progs.run_jobs([dict(clean[i], timeout=120 * (attempt + 1)) for i in redo], par=3)
        for i, r in zip(redo, again):
            results[i] = r
    return results



_IDENT = r"[A-Za-z_$][A-Za-z0-9_$]*"
_TYPECTORS = ("newType", "sliceType", "ptrType", "mapType", "arrayType", "funcType", "structType", "chanType", "interfaceType")


def _split_top(text):
    """split at commas that are not inside brackets or strings"""
    out, depth, cur, i, n = [], 0, [], 0, len(text)
    while i < n:
        ch = text[i]
        if ch == '"':
            j = i + 1
            while j < n and text[j] != '"':
                j += 2 if text[j] == "\\" else 1
            cur.append(text[i:j + 1])
            i = j + 1
            continue
        if ch in "([{":
            depth += 1
        elif ch in ")]}":
            depth -= 1
        if ch == "," and depth == 0:
            out.append("".join(cur))
            cur = []
        else:
            cur.append(ch)
        i += 1
    out.append("".join(cur))
    return out


def _stmt_end(js, i):
    """index of the `;` that ends the statement starting at i (brackets and strings skipped)"""
    depth, n = 0, len(js)
    while i < n:
        ch = js[i]
        if ch == '"':
            i += 1
            while i < n and js[i] != '"':
                i += 2 if js[i] == "\\" else 1
        elif ch in "([{":
            depth += 1
        elif ch in ")]}":
            depth -= 1
            if depth < 0:
                return i
        elif ch == ";" and depth == 0:
            return i
        i += 1
    return n


def js_structure(js):
    """Structure tie on the generated (minified) packages: (1) no `var` statement declares the same identifier twice;
    (2) inside one package no variable is assigned two different type-constructor values ($newType, $sliceType, …).
    Only the generated package code (from the first `$packages["…"]=` on) is looked at, not the prelude."""
    import re
    bad = []
    start = js.find('$packages["')
    if start < 0:
        return ["no package code found"]
    code = js[start:]
    for m in re.finditer(r"(?<![A-Za-z0-9_$.])var[ {]", code):
        i = m.end() - 1
        e = _stmt_end(code, i)
        body = code[i:e].strip()
        names = []
        if body.startswith("{"):
            close = body.find("}")
            names = [x.strip() for x in body[1:close].split(",") if x.strip()]
        else:
            for part in _split_top(body):
                mm = re.match(r"\s*(" + _IDENT + ")", part)
                if mm:
                    names.append(mm.group(1))
        dup = sorted({x for x in names if names.count(x) > 1})
        if dup:
            bad.append("var statement declares %s twice: var %s" % (",".join(dup), body[:120]))
    for seg in re.split(r'(?=\$packages\["[^"]*"\]\s*=\s*\(function\(\))', code):
        vals = {}
        for m in re.finditer(r"(?<![A-Za-z0-9_$.\]])(" + _IDENT + r")\s*=\s*\$(" + "|".join(_TYPECTORS) + r")\(", seg):
            e = _stmt_end(seg, m.end())
            vals.setdefault(m.group(1), set()).add(seg[m.start(2) - 1:e][:300])
        for v, texts in vals.items():
            if len(texts) > 1:
                bad.append("variable %s is assigned %d different type values: %s" % (v, len(texts), " | ".join(sorted(texts))[:300]))
    return bad


def js_scopes(named_js):
    """Scope analysis (harness/js/topics/c16scope.js, Node's acorn) of minified scripts: no function nested in a package
    declares a name of that package's var list. named_js: [(id, js)] -> {id: [violation strings]}; also checks that every
    struct constructor parameter ends in `_` (the scheme GV.Props.C16.ctor_params_disjoint_from_pkg_names is about)."""
    import os, re, subprocess, tempfile
    res = {}
    if not named_js:
        return res
    d = tempfile.mkdtemp(prefix="gvc16s-")
    try:
        paths = []
        for i, (jid, js) in enumerate(named_js):
            f = os.path.join(d, "p%d.js" % i)
            open(f, "w").write(js)
            paths.append(f)
        p = subprocess.run(["node", "--expose-internals", "--stack-size=4000", os.path.join(C.HARNESS, "js", "topics", "c16scope.js")] + paths,
                           capture_output=True, text=True, timeout=1800)
        if p.returncode != 0:
            raise RuntimeError("c16scope.js failed: " + p.stderr[-2000:])
        outs = [json.loads(l) for l in p.stdout.split("\n") if l.strip()]
        if len(outs) != len(named_js):
            raise RuntimeError("c16scope.js answered %d results for %d scripts" % (len(outs), len(named_js)))
        for (jid, js), o in zip(named_js, outs):
            v = []
            if o.get("error"):
                v.append("script does not parse: " + o["error"])
            if not o.get("error") and o.get("packages", 0) == 0:
                raise RuntimeError("c16scope.js found no package in script %s" % jid)
            for x in o.get("violations", []):
                v.append("package %s: a nested function declares the package-level name(s) %s: %s" % (x["pkg"], ",".join(x["names"]), x["where"][:140]))
            for m in re.finditer(r"function\(([^()]*)\)\{this\.\$val=this;if\(arguments\.length===0\)", js):
                bad = [a for a in m.group(1).split(",") if a and not a.endswith("_")]
                if bad:
                    v.append("struct constructor parameters without the `_` suffix: %s" % ",".join(bad[:8]))
                    break
            res[jid] = v
            res.setdefault("_functions", 0)
            res["_functions"] += o.get("functions", 0)
    finally:
        shutil.rmtree(d, ignore_errors=True)
    return res


def node_check(js):
    """`node --check` of a generated script; returns '' or the first lines of the syntax error"""
    import os, subprocess, tempfile
    if not js:
        return "no script"
    d = tempfile.mkdtemp(prefix="gvc16n-")
    try:
        f = os.path.join(d, "out.js")
        open(f, "w").write(js)
        p = subprocess.run(["node", "--check", f], capture_output=True, text=True, timeout=120)
        return "" if p.returncode == 0 else (p.stderr.strip().split("\n")[-1] or "syntax error")
    finally:
        shutil.rmtree(d, ignore_errors=True)


def check_incjs_segments(chk, jobs):
    """Real WritePkgCode segments around every .inc.js file: the generated wrapper strings must be GenWF/SafeAdjacent on
    their own, removeWhitespace of them = the model, and the junction raw-JavaScript ++ stripped-tail must be safe."""
    p = C.run_gvh(["incjs"], [json.dumps({"id": j["id"], "files": j["files"]}) for j in jobs], name="gvh_c16")
    if p.returncode != 0:
        raise RuntimeError("gvh_c16 incjs failed: " + p.stderr[-2000:])
    n = 0
    for ln in p.stdout.split("\n"):
        if not ln.strip():
            continue
        d = json.loads(ln)
        if d.get("err"):
            raise RuntimeError("gvh_c16 incjs: %s: %s" % (d["id"], d["err"][:500]))
        for sg in d["segs"]:
            n += 1
            head_p, raw_p, tail_p = sg["plain"]
            head_m, raw_m, tail_m = sg["min"]
            ops = ["rw x " + head_p, "rw x " + tail_p]
            model = C.run_driver("C16", ops)
            chk.compare("incjs-wrapper", ops, [head_m, tail_m], model, kind=lambda o, a: "incjs:wrapper")
            wf = C.run_driver("C16", ["rw wf " + head_p, "rw wf " + tail_p, "rw junction %s %s" % (raw_m, tail_p)])
            for w, what in ((wf[0], "head"), (wf[1], "tail")):
                f = wf_fields(w)
                if not (f.get("parse") == "1" and f.get("tail") == "1" and f.get("safe") == "1"):
                    chk.broken.append(("precondition:incjs-wrapper", "wrapper %s of %s/%s is outside the domain of rw_tokens: %s" % (
                        what, d["id"], sg["file"], w)))
            chk.count("incjs:junction:" + wf[2])
            if not wf[2].startswith("safe=1"):
                src = bytes.fromhex(raw_m if raw_m != "-" else "")
                chk.add_mismatch("incjs-junction", "file %s of program %s: raw segment ends %r, next segment %r" % (
                    sg["file"], d["id"], src[-80:].decode("latin-1"), bytes.fromhex(tail_m).decode("latin-1")),
                    wf[2], "the raw JavaScript segment must not end inside a line comment when the stripped wrapper tail follows "
                    "(junctionSafe)", signature="C16 incjs junction unsafe")
    return n


def wf_fields(ans):
    return dict(x.split("=") for x in ans.split() if "=" in x)


def check_rw(chk, tie, inputs, require_wf, kindname):
    """impl vs model on `rw x`, then the property's own oracle on the implementation's output: for inputs inside the
    theorem's domain (parse, tail, safe) the tokens and significant items of the REAL output must equal those of the input."""
    ops = ["rw x " + hx(b) for b in inputs]
    impl = C.run_gvh_lines(["ops"], ops, name="gvh_c16")
    model = C.run_driver("C16", ops)
    wf = C.run_driver("C16", ["rw wf " + hx(b) for b in inputs])
    dom = []
    for i, b in enumerate(inputs):
        f = wf_fields(wf[i])
        d = f.get("parse") == "1" and f.get("tail") == "1" and f.get("safe") == "1"
        dom.append(d)
        chk.count("%s:%s" % (kindname, "in-domain" if d else ("parse-fail" if f.get("parse") != "1" else ("tail" if f.get("tail") != "1" else "unsafe-adjacent"))))
        if d and not (f.get("tokeq") == "1" and f.get("sigeq") == "1"):
            # the proved theorem says this cannot happen for the model: a model/driver bug, not a property failure
            raise RuntimeError("Lean driver contradicts rw_tokens on %s: %s" % (hx(b), wf[i]))
        if require_wf and not d:
            chk.broken.append(("precondition:" + tie, "real compiler output outside the domain of rw_tokens (%s): %s" % (wf[i], hx(b)[:400])))
    chk.compare(tie, ops, impl, model, kind=lambda o, a: "%s:%s" % (kindname, "panic" if a == "panic" else "ok"))
    # spec oracle on the real output
    chk_ops, idx = [], []
    for i, b in enumerate(inputs):
        if dom[i] and impl[i] not in ("panic", "bad-op"):
            chk_ops.append("rw same %s %s" % (hx(b), impl[i]))
            idx.append(i)
        elif dom[i]:
            chk.add_mismatch(tie, ops[i], impl[i], "no panic on well-formed input (rw_total)", signature="C16 rw panic on GenWF input")
    if chk_ops:
        ans = C.run_driver("C16", chk_ops)
        for j, a in zip(idx, ans):
            if a != "tok=1 sig=1":
                chk.add_mismatch(tie, ops[j], impl[j], "tokens and significant items preserved (rw_tokens, rw_significant); got " + a,
                                 signature="C16 rw token-change", model=model[j])
    return sum(dom)


def run(tier, seed):
    chk = C.Check("C16", tier, seed)
    rng = chk.rng
    chk.rule = ("(a) `rw x <hex>`: REAL removeWhitespace (hook) vs Lean model on seeded token soups (identifiers incl. $ and keywords, numbers, "
                "strings with escapes/comment-like text, punctuators, - -/+ + pairs, whitespace runs, comments, hints with hostile payloads), "
                "generator-shaped statement text, every distinct Decl code field of the generated programs compiled WITHOUT minification, and a "
                "malformed stream (exhaustive short strings over a hostile alphabet + random + truncated constructs); for inputs inside the "
                "theorem's domain the real output is additionally checked for equal tokens / significant items; GenWF and SafeAdjacent are "
                "evaluated on all real Decl code. (b) `nm ...`: REAL newRootCtx/nestedFunctionContext/newVariable/encodeIdent vs Lean model on "
                "scope-tree histories incl. one scope with 2000 names, minify on and off; distinctness oracle on disciplined histories. "
                "(c) generated programs (many locals/package-level objects past 26 and 702, JS keywords as identifiers, shadowing, closures, "
                "hostile string literals, unary/binary minus, blocking functions, panics) built plain and minified: Node outputs equal, and equal native Go. "
                "A case is non-trivial when distinct (sha1 of the op line / program).")
    chk.trusted = ["Lean 4.33 kernel", "axioms: propext, Classical.choice, Quot.sound at most (listed per theorem)",
                   "hand-written models GV.Model.Minify / GV.Model.Names tied to compiler/utils.go by this differential run (hook compiler/verif_hooks_c16.go)",
                   "GV.Spec.JsTokens = my reading of the ECMAScript lexical grammar restricted to what the generator emits (no regex/template literals, "
                   "no single-quoted strings, no // comments, `...` and `?.` split)",
                   "the item parser `lex` is unverified; every use validates its result (itemsOK ∧ flatten = input)"]
    chk.assumptions = ["the compiler allocates names only in the function context it is translating (stack discipline of nested contexts)",
                       "the source-map filter removes hints before the engine sees the text, so hints are invisible to tokenisation",
                       "esbuild's minification of the prelude is exercised only through the program runs",
                       "Node/V8 tokenises per ECMAScript"]
    C.build_gvh("gvh_c16")
    chk.proof = C.check_proofs("C16", THEOREMS, tier)

    # ---- (c) programs first (their Decl code feeds (a)) --------------------------------------------------------
    jobs = gen_programs(rng, tier)
    jobs.append({"id": "witness-console", "files": {"main.go": WITNESS_CONSOLE}, "variants": ["plain", "minify"], "native": True,
                 "kind": "witness", "keep_js": True})
    import time
    t_phase = time.time()
    phases = {}
    jobs.append({"id": "witness-ctor-underscore", "files": {"main.go": WITNESS_CTOR_UNDERSCORE}, "variants": ["plain", "minify"],
                 "native": True, "kind": "witness2", "keep_js": True})
    results = run_programs(jobs)
    phases["programs"] = round(time.time() - t_phase, 1)
    pv_native = 0
    scopes = js_scopes([(j["id"], r["runs"]["minify"]["js"]) for j, r in zip(jobs, results)
                        if r["runs"].get("minify", {}).get("js")])
    chk.extra["js_scope_functions_analysed"] = scopes.pop("_functions", 0)
    for j, r in zip(jobs, results):
        runs = r["runs"]
        op = j["files"]["main.go"]
        if j["kind"] == "incjs":
            op = json.dumps(j["files"], sort_keys=True)
            if "plain" not in runs or "minify" not in runs:
                raise RuntimeError("program %s did not run: %s" % (j["id"], json.dumps(runs)[:500]))
            p, m = progs.observe_js(runs["plain"]), progs.observe_js(runs["minify"])
            want = (j["expect"], "exit0")
            chk.add_case("programs", op, kindkey="prog:incjs:%s" % m[1].split(":")[0],
                         sample={"tie": "programs", "op": op[:300], "impl": str(m)[:300], "model": str(want)[:300]})
            if p != want:
                raise RuntimeError("generated .inc.js program %s misbehaves in the PLAIN build (generator slip): %s\n%s" % (
                    j["id"], str(p)[:600], op[:3000]))
            syn = node_check(runs["minify"].get("js", ""))
            if m != want or syn:
                chk.add_mismatch("programs", op, "minify=%s node--check=%s" % (str(m)[:600], syn[:300]), str(want)[:600],
                                 signature="C16 plain-vs-minify kind=incjs")
            continue
        if "plain" not in runs or "minify" not in runs or "native" not in runs:
            raise RuntimeError("program %s did not run: %s" % (j["id"], json.dumps(runs)[:500]))
        p, m, nat = progs.observe_js(runs["plain"]), progs.observe_js(runs["minify"]), progs.observe_native(runs["native"])
        if nat[1].startswith("compile-error"):
            raise RuntimeError("generated program %s does not compile natively: %s\n%s" % (j["id"], nat[1], op[:2000]))
        chk.add_case("programs", op, kindkey="prog:%s:%s" % (j["kind"].split("-")[0], m[1].split(":")[0]),
                     sample={"tie": "programs", "op": op[:300], "impl": str(m)[:300], "model": str(nat)[:300]})
        for variant in ("minify", "plain"):
            for b in js_structure(runs[variant].get("js", "")):
                chk.add_mismatch("js-structure", op, "%s build: %s" % (variant, b), "every JS scope declares an identifier once; one type value per package-level variable",
                                 signature="C16 js-structure duplicate")
                break
        for b in scopes.get(j["id"], []):
            chk.add_mismatch("js-scope", op, "minify build: " + b, "no function scope of the minified output declares a name of its package's var list "
                             "(pkg_local_disjoint, ctor_params_disjoint_from_pkg_names)", signature="C16 js-scope shadowing")
            break
        chk.count("js-structure:checked")
        if j["kind"] == "witness2":
            if p != m:
                chk.add_mismatch("programs", op, "plain=%s minify=%s" % (p, m), str(nat), signature=SIG_CTOR_UNDERSCORE)
            continue
        if j["kind"] == "witness":
            if p != m:
                chk.add_mismatch("programs", op, "plain=%s minify=%s" % (p, m), str(nat),
                                 signature="C16 plain-vs-minify go-identifier=console shadows unqualified JS global")
            continue
        if p != m:
            chk.add_mismatch("programs", op, "plain=%s minify=%s" % (str(p)[:600], str(m)[:600]), str(nat)[:600],
                             signature="C16 plain-vs-minify kind=%s" % j["kind"])
        elif (m[0], m[1].replace("runtime error: ", "")) != (nat[0], nat[1].replace("runtime error: ", "")):
            # both builds agree with each other but not with Go: outside C16 (another property's defect or a generator slip)
            pv_native += 1
            chk.notes.append("program %s: plain = minify but differs from native Go: js=%s native=%s" % (j["id"], str(m)[:300], str(nat)[:300]))
    chk.extra["programs"] = len(jobs)
    chk.extra["programs_js_differs_from_native_but_plain_eq_minify"] = pv_native

    # ---- (a) removeWhitespace -------------------------------------------------------------------------------
    chk.extra["incjs_files_checked"] = check_incjs_segments(chk, [j for j in jobs if j["kind"] == "incjs"])
    dres = C.run_gvh(["decls"], [json.dumps({"id": j["id"], "files": j["files"]}) for j in jobs if j["kind"] != "witness"],
                     name="gvh_c16")
    if dres.returncode != 0:
        raise RuntimeError("gvh_c16 decls failed: " + dres.stderr[-2000:])
    codes = []
    for ln in dres.stdout.split("\n"):
        if ln.strip():
            d = json.loads(ln)
            if d.get("err"):
                raise RuntimeError("gvh_c16 decls: %s: %s" % (d["id"], d["err"][:500]))
            codes += [bytes.fromhex(c) for c in d["codes"]]
    phases["decls"] = round(time.time() - t_phase - sum(phases.values()), 1)
    chk.extra["real_decl_code_fields"] = len(codes)
    chk.extra["real_decl_code_bytes"] = sum(len(c) for c in codes)
    indom = check_rw(chk, "removeWhitespace-real-code", codes, True, "real")
    chk.extra["real_decl_code_in_theorem_domain"] = indom
    phases["rw-real"] = round(time.time() - t_phase - sum(phases.values()), 1)

    nsoup = 6000 if tier == "thorough" else 900
    soups = [gen_soup(rng, rng.choice([3, 6, 12, 30, 80])) for _ in range(nsoup)]
    soups += [gen_statements(rng, rng.choice([1, 3, 10])) for _ in range(nsoup // 3)]
    indom = check_rw(chk, "removeWhitespace-soup", soups, False, "soup")
    chk.extra["soups_in_theorem_domain"] = indom
    mal = gen_malformed(rng, tier)
    check_rw(chk, "removeWhitespace-malformed", mal, False, "malformed")
    ops = ["rw ns %d" % c for c in range(256)] + ["rw id " + hx(s) for s in soups[:50]]
    chk.compare("needsSpace", ops, C.run_gvh_lines(["ops"], ops, name="gvh_c16"), C.run_driver("C16", ops), kind=lambda o, a: "needsSpace/identity")

    phases["rw-generated"] = round(time.time() - t_phase - sum(phases.values()), 1)
    # ---- (b) names ------------------------------------------------------------------------------------------
    ops = ["nm kw"]
    for s in ["x", "café", "a.b", "T·m", "v 1", "$ptr", "a%b", "·", "Â·", "x-y~z_", "世界", "a+b", ""]:
        ops.append("nm enc " + hx(s.encode()))
    for _ in range(300 if tier == "thorough" else 60):
        ops.append("nm enc " + hx(bytes(rng.choice([0xC2, 0xB7, 0x25, 0x24, 0x20, 0x2E, 0x61, 0x5A, 0x39, 0x7E, 0x2D, rng.randrange(256)]) for _ in range(rng.randrange(0, 8)))))
    scripts = []
    for minify in (True, False):
        scripts.append(gen_name_script(rng, minify, 2100))
        for _ in range(40 if tier == "thorough" else 8):
            scripts.append(gen_name_script(rng, minify, 0))
    for minify in (True, False):
        for nb, na, ni in ([(1, 2, 2), (0, 1, 3), (3, 3, 2)] if tier == "quick" else
                           [(a, b, c) for a in range(4) for b in range(4) for c in (2, 3)]):
            scripts.append(generic_ptr_script(minify, nb, na, ni))
    for minify in (True, False):
        for dp, nt, na in ([(1, 1, 2), (2, 2, 1), (3, 1, 3)] if tier == "quick" else
                           [(a, b, c) for a in (1, 2, 3) for b in (1, 2, 3) for c in (0, 1, 2, 4)]):
            scripts.append(local_type_script(minify, dp, nt, na))
    if tier == "thorough":
        scripts.append(gen_name_script(rng, True, 5000))
    nm_ops = list(ops)
    spans = []
    for lines, disc in scripts:
        spans.append((len(nm_ops), len(nm_ops) + len(lines), disc, lines[0].endswith("1")))
        nm_ops += lines
    impl = C.run_gvh_lines(["ops"], nm_ops, name="gvh_c16")
    model = C.run_driver("C16", nm_ops)
    chk.compare("newVariable", nm_ops, impl, model,
                kind=lambda o, a: "nm:" + o.split()[1] + (":pkg" if o.split()[1] in ("req", "ptr", "obj") and o.endswith(" 1") else ""))
    maxscope = 0
    for lo, hi, disc, minify in spans:
        if disc:
            for b in names_oracle(nm_ops[lo:hi], impl[lo:hi]):
                chk.add_mismatch("newVariable", "\n".join(nm_ops[lo:hi])[:4000], b, "visible names distinct and not reserved (names_distinct)",
                                 signature="C16 names clash minify=%d" % minify)
                break
        for o, a in zip(nm_ops[lo:hi], impl[lo:hi]):
            if o.startswith("nm locals") and a != "-":
                maxscope = max(maxscope, a.count(",") + 1)
    phases["names"] = round(time.time() - t_phase - sum(phases.values()), 1)
    chk.extra["phase_wall_s"] = phases
    C.log("[C16] phases: %s" % phases)
    chk.extra["max_names_in_one_scope"] = maxscope
    chk.extra["name_scripts"] = len(scripts)
    chk.extra["exhaustive"] = False
    chk.extra["exhaustive_subspace"] = "all byte strings of length <= %d over the %d-byte hostile alphabet through removeWhitespace" % (
        5 if tier == "thorough" else 4, 11 if tier == "thorough" else 9)
    return chk.finish()


def replay(path):
    rep = json.load(open(path))
    C.build_gvh("gvh_c16")
    bad = 0
    for m in rep.get("failing_inputs", []):
        op = m["op"]
        if op.startswith("rw ") or op.startswith("nm "):
            ops = op.split("\n")
            impl = C.run_gvh_lines(["ops"], ops, name="gvh_c16")
            model = C.run_driver("C16", ops)
            for o, a, b in zip(ops, impl, model):
                if a != b:
                    print("%s\n  impl : %s\n  model: %s" % (o[:300], a[:300], b[:300]))
                    bad += 1
            if op.startswith("rw x") and impl[0] != "panic":
                same = C.run_driver("C16", ["rw same %s %s" % (op.split()[2], impl[0])])[0]
                print("%s\n  impl : %s\n  tokens/significant preserved: %s" % (op[:300], impl[0][:300], same))
                bad += same != "tok=1 sig=1"
        else:
            if op.startswith("file "):
                print(op, "\n  ", m.get("impl"))
                bad += 1
                continue
            if op.startswith("{"):
                r = progs.run_jobs([{"id": "replay", "files": json.loads(op), "variants": ["plain", "minify"], "native": False}])[0]
                p, mi = progs.observe_js(r["runs"]["plain"]), progs.observe_js(r["runs"]["minify"])
                print("plain : %s\nminify: %s" % (p, mi))
                bad += p != mi
                continue
            r = progs.run_jobs([{"id": "replay", "files": {"main.go": op}, "variants": ["plain", "minify"], "native": True}])[0]
            p, mi, nat = progs.observe_js(r["runs"]["plain"]), progs.observe_js(r["runs"]["minify"]), progs.observe_native(r["runs"]["native"])
            print("plain : %s\nminify: %s\nnative: %s" % (p, mi, nat))
            bad += p != mi
    if not rep.get("failing_inputs"):
        print("no failing input recorded; broken obligations:", rep.get("broken_obligations"))
        return 1
    return 1 if bad else 0
