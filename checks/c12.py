"""C12 — standard-library overlays merge exactly as the directives say.
Proof: GV.Props.C12 (model of build.go's augmentation = documented rules, for all file pairs; iota defect as proved
counterexample). Tie: generated (original, overlay) source pairs run through the REAL functions (hook
build.VerifC12Augment) and projected, vs the Lean driver on the same projected input; property oracles: the expectation
computed below from the generator's own structured description (documented rules only), go/types on the merged package,
go/types constant values before/after the merge."""
import json
import os
from . import common as C

NOSYNC = ["crypto/rand", "encoding/gob", "encoding/json", "expvar", "go/token", "log", "math/big", "math/rand",
          "regexp", "time"]
NOSYNC_PATH = "github.com/gopherjs/gopherjs/nosync"
PKGS = {"pkga": {"name": None, "path": "fake/pkga"}, "b": {"name": "b", "path": "fake/pkgb"},
        "pkge": {"name": None, "path": "fake/deep/pkge"},
        # only used by the shadowing scenarios (never in IMPORT_CHOICES)
        "utf8": {"name": None, "path": "fake/unicode/utf8"}, "u8": {"name": "u8", "path": "fake/unicode/utf8x"}}


def base(path):
    return path.rstrip("/").split("/")[-1]


def imp_use_name(imp):
    n = imp["name"] if imp["name"] is not None else base(imp["path"])
    return None if n in ("_", ".") else n


# ------------------------------------------------------------------------------------------------
# rendering

def sig_text(f, name=None):
    name = name or f["name"]
    recv = ""
    if f.get("recv"):
        r = f["recv"]
        t = r["t"] + ("[%s]" % r["tpn"] if r["tp"] else "")
        recv = "(%s %s%s) " % (r.get("rname", "r"), "*" if r["ptr"] else "", t)
    res = (" " + f["res"]) if f["res"] else ""
    return "func %s%s%s%s%s" % (recv, name, f["tp"], f["params"], res)


def func_key(f):
    return (f["recv"]["t"] + "." if f.get("recv") else "") + f["name"]


def render_body(f):
    lines = []
    for u in f["bodyuse"]:
        if u == "unsafe":
            lines.append("var p unsafe.Pointer; _ = p")
        elif u.startswith("dot:"):
            lines.append("_ = %s" % u[4:])
        else:
            lines.append("_ = %s.X" % u)
    for r in f.get("refs", []):
        lines.append("_ = %s" % r)
    lines += f.get("rawbody", [])
    lines.append('panic("m:%s")' % f["marker"])
    return "{\n\t" + "\n\t".join(lines) + "\n}"


def render_decl(d):
    out = []
    for c in d.get("doc", []):
        out.append(c)
    if d["k"] == "func":
        out.append(sig_text(d) + (" " + render_body(d) if d["body"] else ""))
        return "\n".join(out)
    tok = d["tok"]
    specs = []
    for s in d["specs"]:
        pre = "".join(c + "\n" for c in s.get("doc", [])) if d["grouped"] else ""
        trail = (" " + s["trail"]) if s.get("trail") else ""
        specs.append(pre + spec_text(tok, s) + trail)
    if d["grouped"]:
        out.append("%s (\n%s\n)" % (tok, "\n".join(specs)))
    else:
        assert len(specs) == 1
        # the doc of a lone spec belongs to the declaration
        out.append("%s %s" % (tok, specs[0]))
    return "\n".join(out)


def cexpr(a, b):
    if a == 0:
        return str(b)
    t = "iota" if a == 1 else "iota * %d" % a
    return t if b == 0 else "%s + %d" % (t, b)


def spec_text(tok, s):
    if tok == "type":
        tp = "[T any]" if s["tp"] else ""
        return "%s%s %s" % (s["name"], tp, s["under"])
    names = ", ".join(s["names"])
    typ = (" " + s["typ"]) if s.get("typ") else ""
    if tok == "const":
        if not s["exprs"]:
            return names
        return "%s%s = %s" % (names, typ, ", ".join(cexpr(a, b) for a, b in s["exprs"]))
    if s["mode"] == "none":
        return names + typ
    return "%s%s = %s" % (names, typ, ", ".join(e for e, _ in s["exprs"]))


def render_import(i):
    n = (i["name"] + " ") if i["name"] is not None else ""
    return 'import %s"%s"%s' % (n, i["path"], (" " + i["trail"]) if i.get("trail") else "")


def render_file(f):
    out = []
    for c in f.get("filedoc", []):
        out.append(c)
    out.append("package p\n")
    if f.get("import_group") and f["imports"]:
        out.append("import (\n" + "\n".join("\t" + render_import(i)[7:] for i in f["imports"]) + "\n)\n")
    else:
        for i in f["imports"]:
            out.append(render_import(i))
    out.append("")
    for d in f["decls"]:
        out.append(render_decl(d))
        out.append("")
        for c in d.get("floating_after", []):
            out.append(c)
            out.append("")
    return "\n".join(out)


# ------------------------------------------------------------------------------------------------
# expectation (documented rules)

def decl_dirs(lines):
    """directive actions of comment lines, per the documented syntax `//gopherjs:<action>`"""
    res = []
    for c in lines:
        for pre in ("//gopherjs:", "/*gopherjs:"):
            if c.startswith(pre):
                act = ""
                for ch in c[len(pre):]:
                    if ch.isalnum() or ch in "_-":
                        act += ch
                    else:
                        break
                if act:
                    res.append(act)
    return res


def spec_dirs(d, s):
    lines = list(s.get("doc", []))
    if s.get("trail"):
        lines.append(s["trail"])
    return decl_dirs(lines)


def overlay_rules(ov_files):
    rules = {}
    for f in ov_files:
        for d in f["decls"]:
            dd = decl_dirs(d.get("doc", []))
            if d["k"] == "func":
                rules[func_key(d)] = {"keep": "keep-original" in dd, "purge": False,
                                      "sig": d if "override-signature" in dd else None}
            else:
                for s in d["specs"]:
                    if d["tok"] == "type":
                        rules[s["name"]] = {"keep": False, "sig": None,
                                            "purge": "purge" in dd or "purge" in spec_dirs(d, s)}
                    else:
                        for n in s["names"]:
                            rules[n] = {"keep": False, "purge": False, "sig": None}
    rules.pop("init", None)
    return rules


def const_values(d):
    """Go semantics of one const declaration: name -> value ('!' when no initialiser is in force)"""
    vals = {}
    inh = []
    for j, s in enumerate(d["specs"]):
        if s["exprs"]:
            inh = s["exprs"]
        for k, n in enumerate(s["names"]):
            if k < len(inh):      # go/types assigns the expressions in force position by position
                a, b = inh[k]
                vals[(j, k)] = str(a * j + b)
            else:
                vals[(j, k)] = "!"
    return vals


def func_line(f, name=None, sig=None):
    src = sig or f
    g = dict(src)
    g["name"] = name or f["name"]
    return "%s | %s" % (sig_text(g), ("m:" + f["marker"]) if f["body"] else "nobody")


def value_lines(d, keep_name):
    """summary lines of a var/const/type declaration for the names selected by keep_name(spec, name)"""
    out = []
    tok = d["tok"]
    cv = const_values(d) if tok == "const" else None
    for j, s in enumerate(d["specs"]):
        if tok == "type":
            if s["name"] != "_" and keep_name(s, s["name"]):
                out.append("type %s%s %s" % (s["name"], "[T any]" if s["tp"] else "", s["under"]))
            continue
        for k, n in enumerate(s["names"]):
            if n == "_" or not keep_name(s, n):
                continue
            if tok == "const":
                out.append("const %s = %s" % (n, cv[(j, k)]))
            else:
                typ = (" " + s["typ"]) if s.get("typ") else ""
                if s["mode"] == "none":
                    init = ""
                elif len(s["exprs"]) == len(s["names"]):
                    init = " = " + s["exprs"][k][0]
                else:
                    init = " = %s #%d" % (s["exprs"][0][0], k)
                out.append("var %s%s%s" % (n, typ, init))
    return out


def decl_uses(d, keep_name=None):
    """import names used by (the surviving part of) a declaration"""
    uses = set()
    if d["k"] == "func":
        return set(d["siguse"]) | set(u for u in d["bodyuse"] if not u.startswith("dot:"))
    for s in d["specs"]:
        if d["tok"] == "type":
            continue
        if s.get("typuse"):
            if any(keep_name(s, n) for n in s["names"]):
                uses.add(s["typuse"])
        if d["tok"] == "var" and s["mode"] != "none":
            multi = len(s["exprs"]) == len(s["names"])
            for k, (e, u) in enumerate(s["exprs"]):
                if u is None:
                    continue
                if multi:
                    if keep_name(s, s["names"][k]):
                        uses.add(u)
                elif any(keep_name(s, n) for n in s["names"]):
                    uses.add(u)
    return uses


def has_linkname(lines):
    return any(c.startswith("//go:linkname ") for c in lines)


def has_embed(lines):
    return any(c.startswith("//go:embed ") for c in lines)


def expect_file(f, survivors, changed, ip=None, original=True):
    """survivors: list of (decl, lines, uses, comment_lines) for the surviving declarations, in order"""
    lines = []
    uses = set()
    comments = list(f.get("filedoc", []))
    for d, ls, us, cs in survivors:
        uses |= us
        comments += cs
    imports = [dict(i) for i in f["imports"]]
    if original and ip in NOSYNC:
        for i in imports:
            if i["path"] == "sync":
                i["name"] = i["name"] if i["name"] is not None else "sync"
                i["path"] = NOSYNC_PATH
    if changed:
        if not survivors and not has_linkname(comments):
            imports = []
        else:
            kept = []
            for i in imports:
                n = imp_use_name(i)
                if n is None or n in uses:
                    kept.append(i)
                elif (i["path"] == "unsafe" and has_linkname(comments)) or (i["path"] == "embed" and has_embed(comments)):
                    i["name"] = "_"
                    kept.append(i)
            imports = kept
    for i in imports:
        lines.append('import %s"%s"' % ((i["name"] + " ") if i["name"] is not None else "", i["path"]))
    for d, ls, us, cs in survivors:
        lines += ls
    return lines


def decl_comments(d, keep_spec=lambda s: True):
    cs = list(d.get("doc", []))
    if d["k"] != "func":
        for s in d["specs"]:
            if keep_spec(s):
                cs += s.get("doc", [])
                if s.get("trail"):
                    cs.append(s["trail"])
    return cs


def expected(ip, ov_files, orig_files):
    """expected summary (list of lines per result file, overlays first) + bookkeeping for classification"""
    rules = overlay_rules(ov_files)
    res = []
    info = {"removed_in_const_group": {}, "const_group_of": {}}
    for fi, f in enumerate(ov_files):
        surv = []
        changed = False
        for di, d in enumerate(f["decls"]):
            dd = decl_dirs(d.get("doc", []))
            if d["k"] == "func":
                if "purge" in dd or "override-signature" in dd:
                    changed = True
                    continue
                surv.append((d, [func_line(d)], decl_uses(d), decl_comments(d)))
                continue
            if "purge" in dd:
                changed = True
                continue
            keep_spec = lambda s, d=d: "purge" not in spec_dirs(d, s)
            if not all(keep_spec(s) for s in d["specs"]):
                changed = True
            if d["tok"] == "const":
                gid = ("ov", fi, di)
                for s in d["specs"]:
                    for n in s["names"]:
                        info["const_group_of"][n] = gid
                    if not keep_spec(s):
                        info["removed_in_const_group"][gid] = True
            if not any(keep_spec(s) for s in d["specs"]):
                continue
            kn = lambda s, n, ks=keep_spec: ks(s)
            surv.append((d, value_lines(d, kn), decl_uses(d, kn), decl_comments(d, keep_spec)))
        res.append(expect_file(f, surv, True, original=False))
    for fi, f in enumerate(orig_files):
        surv = []
        changed = False
        for di, d in enumerate(f["decls"]):
            if d["k"] == "func":
                key = func_key(d)
                r = rules.get(key)
                if r is not None:
                    changed = True
                    if not r["keep"] and r["sig"] is None:
                        continue
                    name = ("_gopherjs_original_" + d["name"]) if r["keep"] else d["name"]
                    line = func_line(d, name=name, sig=r["sig"])
                    uses = set(u for u in d["bodyuse"] if not u.startswith("dot:")) | set((r["sig"] or d)["siguse"])
                    surv.append((d, [line], uses, decl_comments(d)))
                    continue
                if d.get("recv") and rules.get(d["recv"]["t"], {}).get("purge"):
                    changed = True
                    continue
                surv.append((d, [func_line(d)], decl_uses(d), decl_comments(d)))
                continue
            if d["tok"] == "type":
                kn = lambda s, n: n not in rules
                keep_spec = lambda s: s["name"] not in rules
            else:
                kn = lambda s, n: n not in rules
                keep_spec = lambda s: any(n not in rules for n in s["names"])
            if d["tok"] == "const":
                gid = ("orig", fi, di)
                for s in d["specs"]:
                    for n in s["names"]:
                        info["const_group_of"][n] = gid
                        if n in rules:
                            info["removed_in_const_group"][gid] = True
            names = [n for s in d["specs"] for n in ([s["name"]] if d["tok"] == "type" else s["names"])]
            if any(n in rules for n in names):
                changed = True
            if not any(keep_spec(s) for s in d["specs"]):
                continue
            surv.append((d, value_lines(d, kn), decl_uses(d, kn), decl_comments(d, keep_spec)))
        res.append(expect_file(f, surv, True, ip=ip, original=True))
    return res, info


# ------------------------------------------------------------------------------------------------
# generator

PARAMS = [("()", []), ("(a int)", []), ("(a int, s string)", []), ("(t pkga.T)", ["pkga"]), ("(q b.T, n int)", ["b"]),
          ("(a any)", [])]
RESULTS = [("", []), ("int", []), ("(x int, err error)", []), ("pkge.T", ["pkge"]), ("", []), ("", [])]
LOOKALIKES = ["// gopherjs:purge", "//gopherjs:purge-not", "//gopherjs:keeporiginal", "// plain comment", "//go:noinline",
              "//gopherjs:", "//gopherjs:purged"]


class Gen:
    def __init__(self, rng, mode):
        self.rng = rng
        self.mode = mode          # 'consistent' | 'wild'
        self.n = 0
        self.features = set()

    def uid(self):
        self.n += 1
        return self.n

    def pick_sig(self, avail, generic=False):
        rng = self.rng
        ps = [p for p in PARAMS if all(u in avail for u in p[1])]
        rs = [r for r in RESULTS if all(u in avail for u in r[1])]
        p, r = rng.choice(ps), rng.choice(rs)
        tp = ""
        params = p[0]
        if generic:
            tp = "[T any]"
            params = "(gx T)" if params == "()" else params[:-1] + ", gx T)"
        return tp, params, r[0], list(p[1]) + list(r[1])

    def func(self, side, avail, recv=None, name=None, generic=None, stable=False):
        rng = self.rng
        if generic is None:
            generic = recv is None and rng.random() < 0.15
        tp, params, res, siguse = self.pick_sig(avail, generic)
        if stable:
            tp, params, res, siguse = "", "()", "", []
        u = self.uid()
        name = name or ("%s%d" % ("Me" if recv else "Fn", u))
        bodyuse = [x for x in avail if rng.random() < 0.3 and x != "unsafe"]
        return {"k": "func", "name": name, "recv": recv, "tp": tp, "params": params, "res": res, "siguse": siguse,
                "bodyuse": bodyuse, "marker": "%s%d" % (side, u), "body": True, "doc": [], "stable": stable}

    def lookalike_doc(self):
        return [self.rng.choice(LOOKALIKES)] if self.rng.random() < 0.12 else []

    def var_block(self, side, avail):
        rng = self.rng
        grouped = rng.random() < 0.5
        specs = []
        for _ in range(rng.choice([1, 2, 3, 4]) if grouped else 1):
            kind = rng.choice(["one", "one", "multi", "call", "none", "typed", "blank", "ntyped"])
            nm = lambda: "v%d" % self.uid()
            ex = lambda: rng.choice([("mk1()", None)] + [("%s.F()" % a, a) for a in avail if a != "unsafe"])
            if kind == "one":
                specs.append({"names": [nm()], "mode": "multi", "exprs": [ex()]})
            elif kind == "multi":
                k = rng.choice([2, 3])
                specs.append({"names": [nm() for _ in range(k)], "mode": "multi", "exprs": [ex() for _ in range(k)]})
            elif kind == "call":
                c = rng.choice([("mk2()", None)] + [("%s.F2()" % a, a) for a in avail if a != "unsafe"])
                specs.append({"names": [nm(), nm()], "mode": "call", "exprs": [c]})
            elif kind == "none":
                specs.append({"names": [nm() for _ in range(rng.choice([1, 2]))], "mode": "none", "typ": "int", "exprs": []})
            elif kind == "ntyped" and [a for a in avail if a != "unsafe"]:
                a = rng.choice([a for a in avail if a != "unsafe"])
                specs.append({"names": [nm() for _ in range(rng.choice([1, 2]))], "mode": "none", "typ": a + ".T", "typuse": a,
                              "exprs": []})
            elif kind == "typed":
                specs.append({"names": [nm()], "mode": "multi", "typ": "int", "exprs": [ex()]})
            else:
                specs.append({"names": ["_"], "mode": "multi", "exprs": [ex()]})
        return {"k": "gen", "tok": "var", "grouped": grouped, "specs": specs, "doc": self.lookalike_doc()}

    def const_block(self, side):
        rng = self.rng
        shape = rng.choice(["single", "iota", "iota", "explicit", "multi", "multi_iota", "mixed"])
        nm = lambda: "C%d" % self.uid()
        specs = []
        if shape == "single":
            specs = [{"names": [nm()], "exprs": [(0, rng.randrange(100))]}]
            grouped = rng.random() < 0.3
        elif shape == "iota":
            grouped = True
            a, b = rng.choice([1, 2, 10]), rng.choice([0, 0, 1, 5])
            specs = [{"names": [nm()], "exprs": [(a, b)]}] + [{"names": [nm()], "exprs": []} for _ in range(rng.choice([1, 2, 3, 4]))]
        elif shape == "explicit":
            grouped = True
            specs = [{"names": [nm()], "exprs": [(0, rng.randrange(100))]} for _ in range(rng.choice([2, 3, 4]))]
        elif shape == "multi":
            grouped = rng.random() < 0.5
            k = rng.choice([2, 3])
            specs = [{"names": [nm() for _ in range(k)], "exprs": [(0, rng.randrange(50)) for _ in range(k)]}]
        elif shape == "multi_iota":
            grouped = True
            specs = [{"names": [nm(), nm()], "exprs": [(1, 0), (1, 10)]}] + \
                    [{"names": [nm(), nm()], "exprs": []} for _ in range(rng.choice([1, 2]))]
        else:
            grouped = True
            specs = [{"names": [nm()], "exprs": [(0, 7)]}, {"names": [nm()], "exprs": []},
                     {"names": [nm()], "exprs": [(rng.choice([0, 1, 3]), 2)]}, {"names": [nm()], "exprs": []},
                     {"names": [nm()], "exprs": [(0, 9)]}]
        if rng.random() < 0.15:
            specs[0]["typ"] = "int"
        return {"k": "gen", "tok": "const", "grouped": grouped, "specs": specs, "doc": self.lookalike_doc()}

    def type_block(self, side):
        rng = self.rng
        grouped = rng.random() < 0.3
        specs = []
        for _ in range(rng.choice([2, 3]) if grouped else 1):
            u = self.uid()
            specs.append({"name": "T%d" % u, "tp": 1 if rng.random() < 0.3 else 0, "under": "[%d]int" % (u + 10)})
        return {"k": "gen", "tok": "type", "grouped": grouped, "specs": specs, "doc": self.lookalike_doc()}


IMPORT_CHOICES = ["pkga", "b", "pkge", "blank", "dot", "unsafe", "embed", "sync"]
SHADOW_SHAPES = ["local", "param", "receiver", "result", "field", "label-key", "closure"]


def shadow_decls(g, n, side):
    """stable declarations in which an identifier spelled like the import name `n` is a LOCAL object used as a selector
    base (so it is not a use of the import)"""
    rng = g.rng
    shape = rng.choice(SHADOW_SHAPES)
    g.features.add("shadow-" + shape)
    u = g.uid()
    f = {"k": "func", "name": "sh%d" % u, "recv": None, "tp": "", "params": "()", "res": "", "siguse": [], "bodyuse": [],
         "marker": "%s%d" % (side, u), "body": True, "doc": [], "stable": True}
    st = "struct{ X int }"
    out = [f]
    if shape == "local":
        f["rawbody"] = ["%s := %s{}" % (n, st), "_ = %s.X" % n]
    elif shape == "param":
        f["params"] = "(%s %s)" % (n, st)
        f["rawbody"] = ["_ = %s.X" % n]
    elif shape == "result":
        f["res"] = "(%s %s)" % (n, st)
        f["rawbody"] = ["_ = %s.X" % n]
    elif shape == "receiver":
        t = {"k": "gen", "tok": "type", "grouped": False, "doc": [],
             "specs": [{"name": "ShT%d" % u, "tp": 0, "under": st, "stable": True}]}
        f["recv"] = {"t": "ShT%d" % u, "ptr": True, "tp": 0, "tpn": "T", "rname": n}
        f["rawbody"] = ["_ = %s.X" % n]
        out = [t, f]
    elif shape == "field":
        f["rawbody"] = ["var h struct{ %s %s }" % (n, st), "_ = h.%s.X" % n]
    elif shape == "label-key":
        f["rawbody"] = ["type lt struct{ %s int }" % n, "_ = lt{%s: 1}" % n, "%s:" % n, "for {", "break %s" % n, "}"]
    else:
        f["rawbody"] = ["fn := func(%s %s) int { return %s.X }" % (n, st, n), "_ = fn"]
    return out



def gen_case(rng, mode):
    g = Gen(rng, mode)
    ip = rng.choice(NOSYNC) if rng.random() < 0.3 else rng.choice(["example/p", "sync", "time2"])
    norig = rng.choice([1, 1, 2, 3])
    orig_files = []
    types = []
    for fi in range(norig):
        chosen = [c for c in IMPORT_CHOICES if rng.random() < 0.3]
        avail = [c for c in chosen if c in PKGS]
        decls = []
        for _ in range(rng.choice([1, 2, 3, 4, 5, 6])):
            k = rng.choice(["func", "func", "type", "var", "var", "const", "const", "init", "blankfunc"])
            if k == "func":
                d = g.func("o", avail, name=("main" if rng.random() < 0.06 and not g.features & {"func-main"} else None))
                if d["name"] == "main":
                    g.features.add("func-main")
                d["doc"] = g.lookalike_doc()
                decls.append(d)
            elif k == "type":
                d = g.type_block("o")
                decls.append(d)
                types += [(s, fi) for s in d["specs"]]
            elif k == "var":
                decls.append(g.var_block("o", avail))
            elif k == "const":
                decls.append(g.const_block("o"))
            elif k == "init":
                decls.append(g.func("o", avail, name="init", generic=False, stable=True))
            else:
                decls.append(g.func("o", avail, name="_", generic=False, stable=True))
        if "unsafe" in chosen:
            u = g.uid()
            lk = {"k": "func", "name": "lk%d" % u, "recv": None, "tp": "", "params": "()", "res": "", "siguse": [],
                  "bodyuse": [], "marker": "o%d" % u, "body": False, "doc": ["//go:linkname lk%d other.lk%d" % (u, u)]}
            if rng.random() < 0.8:
                decls.insert(rng.randrange(len(decls) + 1), lk)
            uu = g.func("o", avail)
            uu["bodyuse"].append("unsafe")
            decls.insert(rng.randrange(len(decls) + 1), uu)
            g.features.add("unsafe-linkname")
        if "embed" in chosen:
            u = g.uid()
            decls.append({"k": "gen", "tok": "var", "grouped": False, "doc": ["//go:embed x%d.txt" % u],
                          "specs": [{"names": ["e%d" % u], "mode": "none", "typ": "string", "exprs": []}]})
            decls.append({"k": "gen", "tok": "var", "grouped": False, "doc": [],
                          "specs": [{"names": ["efs%d" % g.uid()], "mode": "none", "typ": "embed.FS", "typuse": "embed", "exprs": []}]})
            g.features.add("embed")
        if "sync" in chosen:
            decls.append({"k": "gen", "tok": "var", "grouped": False, "doc": [],
                          "specs": [{"names": ["mu%d" % g.uid()], "mode": "none", "typ": "sync.Mutex", "typuse": "sync", "exprs": []}]})
            g.features.add("sync-import")
        if "dot" in chosen:
            st = g.func("o", avail, stable=True)
            st["bodyuse"] = ["dot:DotXPKGD"]
            decls.insert(rng.randrange(len(decls) + 1), st)
            g.features.add("dot-import")
        f = {"imports": [], "decls": decls, "import_group": rng.random() < 0.5, "avail": avail, "chosen": chosen}
        if rng.random() < 0.2:
            f["filedoc"] = ["// Package p is generated."]
        orig_files.append(f)
    # shadowing scenario: an import whose genuine users are (usually) all overridden / purged, while stable declarations
    # of the same file use a LOCAL identifier of the same spelling as a selector base
    for f in orig_files:
        if rng.random() < 0.3:
            n = rng.choice(["utf8", "u8"])
            f["chosen"].append(n)
            forced = rng.random() < 0.7
            for _ in range(rng.choice([1, 2])):
                d = g.func("o", f["avail"])
                d["bodyuse"] = d["bodyuse"] + [n]
                if forced:
                    d["force"] = True
                    d["force_r"] = rng.choice([0.5, 0.8])     # replace / purge
                f["decls"].insert(rng.randrange(len(f["decls"]) + 1), d)
            for _ in range(rng.choice([1, 2])):
                for sd in shadow_decls(g, n, "o"):
                    f["decls"].insert(rng.randrange(len(f["decls"]) + 1) if sd["k"] == "func" else 0, sd)
            g.features.add("shadow-scenario" + ("-all-genuine-uses-removed" if forced else ""))
    # a small file whose only declaration is always overridden: the "file left with only imports" branch
    if rng.random() < 0.2:
        d = g.func("o", [])
        d["force"] = True
        chosen = ["blank"] + (["unsafe"] if rng.random() < 0.5 else [])
        if "unsafe" in chosen:
            d["bodyuse"] = ["unsafe"]
        f = {"imports": [], "decls": [d], "import_group": rng.random() < 0.5, "avail": [], "chosen": chosen}
        if rng.random() < 0.5:
            f["filedoc"] = ["//go:linkname docl%d other.docl" % g.uid()]
            g.features.add("file-emptied-but-linkname-in-file-doc")
        else:
            g.features.add("file-emptied")
        orig_files.append(f)
        norig += 1
    # methods, in any file
    func_names = [d["name"] for f in orig_files for d in f["decls"]
                  if d["k"] == "func" and not d.get("recv") and d["name"] not in ("init", "_")]
    for s, fi in types:
        used = set()
        for _ in range(rng.choice([0, 1, 2, 3, 4])):
            tf = rng.randrange(norig)
            recv = {"t": s["name"], "ptr": rng.random() < 0.5, "tp": s["tp"], "tpn": "T"}
            # method names that look like something else: init / main / blank / a type name / a function name
            mname = None
            if rng.random() < 0.45:
                pool = ["init", "init", "main", "_", s["name"], rng.choice(types)[0]["name"]] + \
                       ([rng.choice(func_names)] if func_names else [])
                mname = rng.choice(pool)
                if mname in used:
                    mname = None
                else:
                    used.add(mname)
                    g.features.add("method-named-" + ("init" if mname == "init" else "main" if mname == "main" else
                                                      "blank" if mname == "_" else "like-type" if mname.startswith("T")
                                                      else "like-func"))
            m = g.func("o", orig_files[tf]["avail"], recv=recv, name=mname)
            orig_files[tf]["decls"].insert(rng.randrange(len(orig_files[tf]["decls"]) + 1), m)
    # imports actually needed
    for f in orig_files:
        used = set()
        for d in f["decls"]:
            used |= decl_uses(d, lambda s, n: True)
        imps = []
        for c in f["chosen"]:
            if c in PKGS and c in used:
                imps.append(dict(PKGS[c]))
            elif c == "blank":
                imps.append({"name": "_", "path": "fake/pkgc"})
            elif c == "dot":
                imps.append({"name": ".", "path": "fake/pkgd"})
            elif c in ("unsafe", "embed", "sync") and c in used:
                imps.append({"name": None, "path": c})
        if any(i["path"] == "unsafe" for i in imps) and rng.random() < 0.3:
            [i for i in imps if i["path"] == "unsafe"][0]["trail"] = "// for go:linkname"
        rng.shuffle(imps)
        f["imports"] = imps
        if rng.random() < 0.15 and f["decls"]:
            rng.choice(f["decls"])["floating_after"] = [rng.choice(["// floating comment", "//go:linkname floatx other.floatx"])]
    helpers = {"imports": [], "import_group": False, "decls": [
        {"k": "func", "name": "mk1", "recv": None, "tp": "", "params": "()", "res": "int", "siguse": [], "bodyuse": [],
         "marker": "mk1", "body": True, "doc": []},
        {"k": "func", "name": "mk2", "recv": None, "tp": "", "params": "()", "res": "(int, int)", "siguse": [], "bodyuse": [],
         "marker": "mk2", "body": True, "doc": []}]}
    orig_files.append(helpers)

    # ---- overlay
    consistent = mode == "consistent"
    ov_funcs, ov_types, ov_vals = [], [], []     # overlay entities
    purged_types = set()
    type_tp = {s["name"]: s["tp"] for s, _ in types}
    for f in orig_files[:-1]:
        for d in f["decls"]:
            if d["k"] == "gen" and d["tok"] == "type":
                for s in d["specs"]:
                    if s.get("stable"):
                        continue
                    r = rng.random()
                    if r < 0.2:
                        ov_types.append({"name": s["name"], "tp": s["tp"] if consistent or rng.random() < 0.7 else 1 - s["tp"],
                                         "under": "[%d]string" % g.uid(), "purge": False})
                        g.features.add("type-replace")
                    elif r < 0.4:
                        ov_types.append({"name": s["name"], "tp": s["tp"], "under": "int", "purge": True})
                        purged_types.add(s["name"])
                        g.features.add("type-purge")
    for f in orig_files[:-1]:
        for d in f["decls"]:
            if d["k"] == "func":
                special = d["name"] in ("init", "_") and not d.get("recv")   # package-level init / blank function
                if d.get("stable") and not special:
                    continue
                if special:
                    if rng.random() < 0.15:
                        o = g.func("v", ["pkga"], name=d["name"], generic=False, stable=True)
                        ov_funcs.append(o)
                        g.features.add("overlay-" + ("init" if d["name"] == "init" else "blank-func"))
                    continue
                r = d.get("force_r", 0.5) if d.get("force") else rng.random()
                recv = dict(d["recv"]) if d.get("recv") else None
                if recv and recv["t"] in purged_types:
                    # overlay may only mention methods of a purged type with purge itself (consistent pairs)
                    if r < 0.25:
                        o = g.func("v", ["pkga"], recv=recv, name=d["name"])
                        o["doc"] = ["//gopherjs:purge"] if consistent or rng.random() < 0.6 else []
                        ov_funcs.append(o)
                        g.features.add("method-of-purged-type-in-overlay")
                    continue
                if recv and rng.random() < 0.4:
                    recv["ptr"] = not recv["ptr"]
                if r < 0.45:
                    continue
                oavail = ["pkga", "b"]
                if r >= 0.85 and consistent:
                    # a new signature may only use imports the original file already has (doc/pargma.md)
                    oavail = [x for x in f["avail"] if x in [i["name"] or base(i["path"]) for i in f["imports"]]]
                o = g.func("v", oavail, recv=recv, name=d["name"], generic=(d["tp"] != "" and rng.random() < 0.5))
                if r < 0.65:
                    g.features.add("func-replace" if not recv else "method-replace")
                elif r < 0.77:
                    o["doc"] = ["//gopherjs:keep-original"]
                    if not recv and not d["tp"] and d["body"]:
                        o["refs"] = ["_gopherjs_original_" + d["name"]]
                    g.features.add("keep-original")
                elif r < 0.85:
                    o["doc"] = ["//gopherjs:purge"]
                    o["body"] = rng.random() < 0.5
                    g.features.add("func-purge")
                elif r < 0.95:
                    o["doc"] = [rng.choice(["//gopherjs:override-signature", "/*gopherjs:override-signature*/"])]
                    o["body"] = False
                    o["bodyuse"] = []
                    g.features.add("override-signature")
                else:
                    o["doc"] = ["//gopherjs:keep-original", "//gopherjs:override-signature"]
                    o["body"] = False
                    o["bodyuse"] = []
                    g.features.add("keep+override-signature")
                if not d["body"] and ("keep-original" in " ".join(o["doc"]) or "override-signature" in " ".join(o["doc"])):
                    o.pop("refs", None)
                if rng.random() < 0.1:
                    o["doc"] = ["// doc text"] + o["doc"]
                ov_funcs.append(o)
            elif d["tok"] in ("var", "const"):
                for s in d["specs"]:
                    for n in s["names"]:
                        r = rng.random()
                        if n == "_":
                            if r < 0.15:
                                ov_vals.append({"tok": "var", "name": "_", "purge": False})
                                g.features.add("overlay-blank-var")
                            continue
                        if n.startswith("e") and not n.startswith("efs"):
                            continue      # the //go:embed variable stays
                        if r < 0.25:
                            tok = d["tok"] if rng.random() < 0.85 else ("var" if d["tok"] == "const" else "const")
                            ov_vals.append({"tok": tok, "name": n, "purge": False})
                            g.features.add(d["tok"] + "-override")
                        elif r < 0.33:
                            ov_vals.append({"tok": d["tok"], "name": n, "purge": True})
                            g.features.add(d["tok"] + "-purge")
    # overlay-only names
    for _ in range(rng.choice([0, 1, 2])):
        o = g.func("v", ["pkga", "b"])
        if rng.random() < 0.2:
            o["doc"] = ["//gopherjs:purge"]
        elif rng.random() < 0.1:
            o["doc"] = ["//gopherjs:keep-original"]
        ov_funcs.append(o)
    for _ in range(rng.choice([0, 0, 1])):
        u = g.uid()
        ov_types.append({"name": "NT%d" % u, "tp": 0, "under": "[%d]bool" % u, "purge": rng.random() < 0.2})
        if not ov_types[-1]["purge"] and rng.random() < 0.5:
            ov_funcs.append(g.func("v", ["pkga"], recv={"t": "NT%d" % u, "ptr": True, "tp": 0, "tpn": "T"},
                                   name=rng.choice([None, "init", "main", "_"])))
    for _ in range(rng.choice([0, 1, 2, 3])):
        ov_vals.append({"tok": rng.choice(["var", "const"]), "name": "n%d" % g.uid(), "purge": rng.random() < 0.2})
    if rng.random() < 0.2:
        ov_funcs.append(g.func("v", [], name="init", generic=False, stable=True))

    # overlay declarations
    nov = rng.choice([1, 1, 2])
    ov_decls = [[] for _ in range(nov)]
    for o in ov_funcs:
        ov_decls[rng.randrange(nov)].append(o)
    for t in ov_types:
        spec = {"name": t["name"], "tp": t["tp"], "under": t["under"]}
        d = {"k": "gen", "tok": "type", "grouped": False, "specs": [spec], "doc": []}
        if t["purge"]:
            style = rng.choice(["decl", "trail", "groupdoc"])
            if style == "decl":
                d["doc"] = [rng.choice(["//gopherjs:purge", "//gopherjs:purge for reasons", "/*gopherjs:purge*/"])]
            elif style == "trail":
                spec["trail"] = "//gopherjs:purge"
            else:
                d["grouped"] = True
                spec["doc"] = ["//gopherjs:purge"]
        ov_decls[rng.randrange(nov)].append(d)
    # value names: partition into declarations by (tok, purge)
    for tok in ("var", "const"):
        for purge in (False, True):
            names = [v["name"] for v in ov_vals if v["tok"] == tok and v["purge"] == purge]
            rng.shuffle(names)
            while names:
                k = rng.choice([1, 1, 2, 3])
                chunk, names = names[:k], names[k:]
                # one declaration, possibly grouped, specs of 1-2 names
                specs = []
                while chunk:
                    kk = 1 if "_" in chunk[:2] else rng.choice([1, 1, 2])
                    ns, chunk = chunk[:kk], chunk[kk:]
                    if tok == "var":
                        specs.append({"names": ns, "mode": "multi", "exprs": [(str(g.uid()), None) for _ in ns]})
                    else:
                        specs.append({"names": ns, "exprs": [(0, g.uid()) for _ in ns]})
                grouped = len(specs) > 1 or rng.random() < 0.3
                d = {"k": "gen", "tok": tok, "grouped": grouped, "specs": specs, "doc": []}
                if purge:
                    if not grouped:
                        if rng.random() < 0.5:
                            d["doc"] = ["//gopherjs:purge"]
                        else:
                            specs[0]["trail"] = "//gopherjs:purge"
                    elif rng.random() < 0.4:
                        d["doc"] = ["//gopherjs:purge"]
                    else:
                        for s in specs:
                            if rng.random() < 0.5:
                                s["doc"] = ["//gopherjs:purge"]
                            else:
                                s["trail"] = "//gopherjs:purge"
                ov_decls[rng.randrange(nov)].append(d)
    # an overlay iota group with one spec purged (purge inside an overlay const group)
    if rng.random() < 0.12:
        specs = [{"names": ["n%d" % g.uid()], "exprs": [(1, 0)]}] + [{"names": ["n%d" % g.uid()], "exprs": []} for _ in range(3)]
        specs[rng.randrange(4)]["trail"] = "//gopherjs:purge"
        ov_decls[rng.randrange(nov)].append({"k": "gen", "tok": "const", "grouped": True, "specs": specs, "doc": []})
        g.features.add("overlay-iota-group-spec-purged")
    if rng.random() < 0.15:
        n = rng.choice(["utf8", "u8"])
        k = rng.randrange(nov)
        pf = g.func("v", [])
        pf["bodyuse"] = [n]
        pf["doc"] = ["//gopherjs:purge"]
        ov_decls[k].append(pf)
        ov_decls[k] += [sd for sd in shadow_decls(g, n, "v")]
        g.features.add("shadow-scenario-overlay")
    ov_files = []
    for decls in ov_decls:
        rng.shuffle(decls)
        used = set()
        for d in decls:
            used |= decl_uses(d, lambda s, n: True)
        imps = [dict(PKGS[c]) for c in PKGS if c in used]
        if rng.random() < 0.15 and decls:
            imps.append({"name": "_", "path": "fake/pkgc"})
        ov_files.append({"imports": imps, "decls": decls, "import_group": rng.random() < 0.3})
        if not decls and not imps:
            pass
    return {"ip": ip, "mode": mode, "ov": ov_files, "orig": orig_files, "features": sorted(g.features)}


# ------------------------------------------------------------------------------------------------
# the check

THEOREMS = ["init_never_overridden", "init_function_kept", "funcKey_method_ne_init", "method_named_init_overridable", "overrides_table", "merge_names", "order_preserved",
            "values_untouched", "witness_model_values", "witness_spec_values", "const_values_counterexample",
            "const_orphaned_counterexample", "values_untouched_const_partial", "values_untouched_const_group", "imports_pruned",
            "imports_pruned_keeps_declarations", "nosync_substitution"]

WITNESS_ORIG = "package p\n\nconst (\n\tA = iota * 10\n\tB\n\tC\n\tD\n)\n"
WITNESS_OV = "package p\n\nconst B = 1000\n"
WITNESS_FIRST_ORIG = "package p\n\nconst (\n\tA = 5\n\tB\n\tC\n)\n"
WITNESS_FIRST_OV = "package p\n\nconst A = 1\n"


def request_of(case):
    return {"ip": case["ip"], "ov": [render_file(f) for f in case["ov"]], "orig": [render_file(f) for f in case["orig"]]}


def run_pairs(reqs, show=False):
    p = C.run_gvh(["show" if show else "pairs"], [json.dumps(r) for r in reqs], name="gvh_c12")
    if p.returncode != 0:
        raise RuntimeError("gvh_c12 failed: " + p.stderr[-3000:])
    out = [json.loads(l) for l in p.stdout.split("\n") if l.strip()]
    if len(out) != len(reqs):
        raise RuntimeError("gvh_c12 answered %d lines for %d requests" % (len(out), len(reqs)))
    return out


def sequence_tie_generated(reqs):
    """real parseAndAugment vs hook sequence on generated pairs (see run)"""
    import shutil
    tmp = C.scratch("c12seq")
    try:
        repo2 = os.path.join(tmp, "repo")
        shutil.copytree(C.REPO, repo2, ignore=shutil.ignore_patterns(".git"), symlinks=True)
        lines = []
        for i, r in enumerate(reqs):
            ip = "c12gen/c%04d" % i
            ovd = os.path.join(repo2, "compiler", "natives", "src", "c12gen", "c%04d" % i)
            os.makedirs(ovd)
            for j, src in enumerate(r["ov"]):
                open(os.path.join(ovd, "ov%d.go" % j), "w").write(src)
            od = os.path.join(tmp, "orig", "c%04d" % i)
            os.makedirs(od)
            names = []
            for j, src in enumerate(r["orig"]):
                names.append("orig%d.go" % j)
                open(os.path.join(od, names[-1]), "w").write(src)
            lines.append(json.dumps({"ip": ip, "dir": od, "files": names}))
        mod = os.path.join(tmp, "alt.mod")
        open(mod, "w").write(open(os.path.join(C.HARNESS, "go.mod")).read().replace("=> /repo", "=> " + repo2))
        shutil.copyfile(os.path.join(repo2, "go.sum"), os.path.join(tmp, "alt.sum"))
        binp = os.path.join(tmp, "gvh_c12_seq")
        with C.Lock("gobuild"):
            p = C.sh(["go", "build", "-tags", "verif", "-modfile", mod, "-o", binp, "./cmd/gvh_c12"], cwd=C.HARNESS, timeout=1800)
        if p.returncode != 0:
            raise RuntimeError("go build of the sequence harness failed:\n" + (p.stdout + p.stderr)[-3000:])
        import subprocess
        q = subprocess.run([binp, "callergen", repo2], input="\n".join(lines) + "\n", capture_output=True, text=True,
                           timeout=3600, env=C.env())
        if q.returncode != 0:
            raise RuntimeError("callergen failed: " + q.stderr[-3000:])
        out = [json.loads(l) for l in q.stdout.split("\n") if l.strip()]
        if len(out) != len(reqs):
            raise RuntimeError("callergen answered %d lines for %d pairs: %s" % (len(out), len(reqs), q.stderr[-1000:]))
        return out
    finally:
        shutil.rmtree(tmp, ignore_errors=True)


def parse_consts(s):
    return [] if s == "-" else [tuple(x.split("=", 1)) for x in s.split(" ")]


def const_signature(before, after, tc_after):
    """signature of a constant-value deviation, from the observed before/after go/types values"""
    b, a = parse_consts(before), parse_consts(after)
    if [n for n, _ in a] != [n for n, _ in b]:
        return None
    diff = [(n, vb, va) for (n, vb), (_, va) in zip(b, a) if vb != va]
    if not diff:
        return None
    if any(va == "!" for _, _, va in diff):
        return "C12 const-group spec-removed later-implicit-specs-lose-initialiser"
    return "C12 const-group spec-removed iota-or-implicit-repetition-of-later-specs-shifts"


def run(tier, seed):
    chk = C.Check("C12", tier, seed)
    chk.rule = ("cases = generated (original files, overlay files, import path) source triples: funcs, generic funcs, methods on "
                "value/pointer/generic receivers, grouped/multi-name/single-call/typed/blank var specs, const groups with iota, "
                "implicit repetition and multi-name specs, types, init, directives (purge on decl/spec doc/trailing comment/block "
                "comment, keep-original, override-signature, both, look-alikes), imports (plain, renamed, deep path, blank, dot, "
                "unsafe+linkname, embed, sync in nosync packages), floating comments; 70% consistent pairs (merged package must "
                "type-check), 30% wild; plus the real overlays of compiler/natives/src merged against synthetic originals; a case "
                "is non-trivial when the overlay overrides at least one original name")
    chk.trusted = ["Lean 4.33 kernel; axioms per theorem listed",
                   "hand-written model GV.Model.Augment tied to build.go by this differential run through the hook "
                   "build.VerifC12Augment (same call order as parseAndAugment)",
                   "projection of *ast.File to the model's form (harness/cmd/gvh_c12/project.go): directive regex, selector heads, "
                   "comment flags, node identities",
                   "go/parser, go/types (with a fabricated importer), go/printer",
                   "GV.Spec.Augment and the Python expectation = two independent readings of doc/pargma.md + build.go:149-169"]
    chk.assumptions = ["the hook-sequence ties (gen-*, natives-*) parse the sources in the harness with plain parser.ParseComments, so they "
                       "cannot see how gopherjs itself parses (parser mode, file selection); only the two parseAndAugment-sequence "
                       "ties run gopherjs's own parsing, and their results are judged by the source-level oracle and go/types",
                       "the model input `sels` = selector bases that do not resolve to a file-local object, computed by the harness "
                       "with go/types (not ast.Object); agreement with the parser's resolution is self-checked on every case",
                       "file.Imports is the list of import specs of the declarations (checked per case by the harness)",
                       "no gopherjs:purge on import declarations (documented as unsupported)",
                       "no comment group attached inside an initialiser expression (checked per case)",
                       "package name of an import = last path element (limitation stated in build.go:463-469)",
                       "constant initialisers of generated originals are a*iota+b (others: values compared by go/types only)",
                       "parseOverlayFiles/parserOriginalFiles (file selection, parsing) and context.go post-load tweaks are not modelled"]
    C.build_gvh("gvh_c12")
    chk.proof = C.check_proofs("C12", THEOREMS, tier)

    rng = chk.rng
    ncases = 8000 if tier == "thorough" else 400
    cases = []
    for i in range(ncases):
        cases.append(gen_case(rng, "consistent" if rng.random() < 0.7 else "wild"))
    reqs = [request_of(c) for c in cases]
    # fixed witnesses of the recorded findings, replayed on every run
    wit = [{"ip": "p", "ov": [WITNESS_OV], "orig": [WITNESS_ORIG]},
           {"ip": "p", "ov": [WITNESS_FIRST_OV], "orig": [WITNESS_FIRST_ORIG]}]
    answers = run_pairs(reqs + wit)
    for r, a in zip(reqs + wit, answers):
        if a.get("error") or a.get("odd"):
            raise RuntimeError("harness error %s on %s" % (a.get("error") or a.get("odd"), json.dumps(r)[:2000]))

    def tie(tag, reqs, answers, metas):
        ins = [a["in"] for a in answers]
        by_op = {}
        for kind in ("merge", "entries", "imports"):
            ops = ["aug %s %s" % (kind, i) for i in ins]
            model = C.run_driver("C12", ops)
            impl = [a[kind] for a in answers]
            spec = None
            if kind == "entries":
                spec = C.run_driver("C12", ["aug spec %s" % i for i in ins])
            for o, r in zip(ops, reqs):
                by_op[o] = r
            chk.compare("%s-%s" % (tag, kind), ops, impl, model, spec=spec,
                        signature=lambda o, a, c: "C12 %s deviation" % kind,
                        kind=(lambda o, c, k=kind: "tie:" + k))
        # constant values: impl = go/types after the real merge; model = Lean after the model merge;
        # spec = go/types before the merge (values must be untouched)
        lin = [i for i, a in enumerate(answers) if not a["nonlin"]]
        ops = ["aug consts %s" % ins[i] for i in lin]
        model = C.run_driver("C12", ops)
        spec0 = C.run_driver("C12", ["aug consts0 %s" % ins[i] for i in lin])
        impl = [answers[i]["consts_after"] for i in lin]
        before = [answers[i]["consts_before"] for i in lin]
        sigs = {}
        for o, i in zip(ops, lin):
            sigs[o] = const_signature(answers[i]["consts_before"], answers[i]["consts_after"], answers[i]["tc_after"])
        for o, s0, b in zip(ops, spec0, before):
            if s0 != b and sigs[o] is None:
                chk.add_tie_break(tag + "-spec-const-eval", o, b, s0)
        chk.compare(tag + "-const-values", ops, impl, model, spec=before,
                    signature=lambda o, a, c: sigs.get(o) or "C12 const-values deviation",
                    kind=lambda o, c: "tie:const-values")
        # non-linear initialisers (corpus): go/types before vs after only
        for i, a in enumerate(answers):
            if a["nonlin"]:
                chk.add_case(tag + "-const-values-gotypes", ins[i], kindkey="const-values-gotypes-only")
                if a["consts_after"] != a["consts_before"]:
                    chk.add_mismatch(tag + "-const-values-gotypes", json.dumps(reqs[i]), a["consts_after"], a["consts_before"],
                                     signature=const_signature(a["consts_before"], a["consts_after"], a["tc_after"]))

    # property-level oracle: expectation from the generator's own description; type-check of consistent pairs
    ntriv = 0
    for c, r, a in zip(cases, reqs, answers):
        exp, info = expected(c["ip"], c["ov"], c["orig"])
        rules = overlay_rules(c["ov"])
        orig_names = set()
        for f in c["orig"]:
            for d in f["decls"]:
                if d["k"] == "func":
                    orig_names.add(func_key(d))
                else:
                    for s in d["specs"]:
                        orig_names |= set([s["name"]] if d["tok"] == "type" else s["names"])
        nontrivial = bool(set(rules) & orig_names)
        ntriv += nontrivial
        for ft in c["features"]:
            chk.count("feature:" + ft)
        chk.count("mode:" + c["mode"])
        chk.count("orig-files:%d" % len(c["orig"]))
        got = a["summary"]
        chk.add_case("expected-declarations", json.dumps(r), nontrivial=nontrivial, kindkey="oracle:declarations",
                     sample={"tie": "expected-declarations", "op": json.dumps(r)[:300], "impl": json.dumps(got)[:300],
                             "spec": json.dumps(exp)[:300]})
        if got != exp:
            # constant lines are judged by the const-values tie (known finding); everything else must agree exactly
            strip = lambda fs: [[l for l in f if not l.startswith("const ")] for f in fs]
            names = lambda fs: [[l.split(" = ")[0] for l in f if l.startswith("const ")] for f in fs]
            if strip(got) != strip(exp) or names(got) != names(exp):
                chk.add_mismatch("expected-declarations", json.dumps(r), json.dumps(got), json.dumps(exp),
                                 signature="C12 declaration-set deviation")
            else:
                sig = const_signature(a["consts_before"], a["consts_after"], a["tc_after"])
                chk.add_mismatch("expected-declarations", json.dumps(r), json.dumps(got), json.dumps(exp),
                                 signature=sig or "C12 const-values deviation")
        if a["tc_orig"] != "ok":
            raise RuntimeError("generator produced an original package that does not type-check: %s\n%s" % (
                a["tc_orig"], "\n".join(r["orig"])))
        if c["mode"] == "consistent":
            chk.add_case("merged-package-type-checks", json.dumps(r), nontrivial=nontrivial, kindkey="oracle:type-check")
            if a["tc_after"] != "ok":
                sig = None
                if "init expr" in a["tc_after"] and info["removed_in_const_group"]:
                    # a const group lost a spec / a name and go/types complains about initialisers of that group only
                    sig = "C12 const-group spec-removed later-implicit-specs-lose-initialiser"
                chk.add_mismatch("merged-package-type-checks", json.dumps(r), a["tc_after"], "ok",
                                 signature=sig or "C12 merged-package-type-error")
    chk.extra["nontrivial_generated_cases"] = ntriv
    chk.extra["generated_cases"] = len(cases)

    tie("gen", reqs + wit, answers, cases)

    # the real overlays of compiler/natives/src against synthetic originals
    p = C.run_gvh(["corpus", os.path.join(C.REPO, "compiler", "natives", "src")], name="gvh_c12")
    if p.returncode != 0:
        raise RuntimeError("gvh_c12 corpus failed: " + p.stderr[-2000:])
    creqs = [json.loads(l) for l in p.stdout.split("\n") if l.strip()]
    for r in creqs:
        r.pop("tag", None)
    canswers = run_pairs(creqs)
    usable = [(r, a) for r, a in zip(creqs, canswers) if not a.get("error") and not a.get("odd")]
    chk.extra["natives_corpus"] = {"packages": len(creqs), "usable": len(usable),
                                   "skipped": [(r["ip"], a.get("error") or a.get("odd")) for r, a in zip(creqs, canswers)
                                               if a.get("error") or a.get("odd")][:20]}
    if len(usable) < 40:
        raise RuntimeError("natives corpus: only %d usable packages" % len(usable))
    tie("natives", [r for r, _ in usable], [a for _, a in usable], None)

    # the real parseAndAugment (file selection, parsing, call order, `delete(overrides, "init")`) vs the hook sequence
    tmp = C.scratch("c12")
    try:
        p = C.run_gvh(["caller", C.REPO, os.path.join(C.REPO, "compiler", "natives", "src"), tmp], name="gvh_c12")
    finally:
        import shutil
        shutil.rmtree(tmp, ignore_errors=True)
    if p.returncode != 0:
        raise RuntimeError("gvh_c12 caller failed: " + p.stderr[-2000:])
    crs = [json.loads(l) for l in p.stdout.split("\n") if l.strip()]
    if len([r for r in crs if not r.get("error")]) < 30:
        raise RuntimeError("caller tie: too few packages: %s" % [r.get("error") for r in crs][:5])
    for r in crs:
        if r.get("error"):
            continue
        chk.add_case("parseAndAugment-sequence", r["ip"], kindkey="tie:parseAndAugment-sequence")
        if not r["same"]:
            a, b = "\n".join(r["a"]), "\n".join(r["b"])
            if "func init()" in b and a.count("func init()") < b.count("func init()"):
                chk.add_mismatch("parseAndAugment-sequence", "natives package %s + synthetic original with func init" % r["ip"],
                                 "%d init functions" % a.count("func init()"), "%d init functions" % b.count("func init()"),
                                 signature="C12 original init function removed")
            chk.add_tie_break("parseAndAugment-sequence", r["ip"], a[:1500], b[:1500])
    chk.extra["parseAndAugment_sequence_packages"] = len(crs)

    # the same for GENERATED pairs: overlays are written into the natives tree of a scratch copy of the repo, a harness
    # binary is built against that copy (natives are embedded at build time), and the real parseAndAugment runs on them
    nseq = 1500 if tier == "thorough" else 250
    seq_results = sequence_tie_generated(reqs[:nseq])
    for i, r in enumerate(seq_results):
        if r.get("error"):
            raise RuntimeError("generated sequence tie: %s on %s" % (r["error"], json.dumps(reqs[i])[:1500]))
        chk.add_case("parseAndAugment-sequence-generated", json.dumps(reqs[i]), kindkey="tie:parseAndAugment-sequence-generated")
        if not r["same"]:
            ta, tb = "\n".join(r["a"]), "\n".join(r["b"])
            if ta.count("func init()") < tb.count("func init()"):
                chk.add_mismatch("parseAndAugment-sequence-generated", json.dumps(reqs[i]),
                                 "%d init functions" % ta.count("func init()"), "%d init functions" % tb.count("func init()"),
                                 signature="C12 original init function removed")
            chk.add_tie_break("parseAndAugment-sequence-generated", json.dumps(reqs[i]), "\n".join(r["a"])[:3000], "\n".join(r["b"])[:3000])
        # the REAL result judged by the source-level oracle (this is the only tie in which gopherjs does the parsing)
        c = cases[i]
        exp, info = expected("c12gen", c["ov"], c["orig"])
        strip = lambda fs: [[l.split(" = ")[0] if l.startswith("const ") else l for l in f] for f in fs]
        if strip(r["summary"]) != strip(exp):
            chk.add_mismatch("parseAndAugment-sequence-generated", json.dumps(reqs[i]), json.dumps(r["summary"]), json.dumps(exp),
                             signature="C12 declaration-set deviation (real parseAndAugment)")
        if c["mode"] == "consistent" and r["tc_after"] != "ok":
            sig = None
            if "init expr" in r["tc_after"] and info["removed_in_const_group"]:
                sig = "C12 const-group spec-removed later-implicit-specs-lose-initialiser"
            chk.add_mismatch("parseAndAugment-sequence-generated", json.dumps(reqs[i]), r["tc_after"], "ok",
                             signature=sig or "C12 merged-package-type-error (real parseAndAugment)")
    chk.extra["parseAndAugment_sequence_generated_pairs"] = len(seq_results)

    return chk.finish()


def replay(path):
    rep = json.load(open(path))
    C.build_gvh("gvh_c12")
    bad = 0
    for m in rep.get("failing_inputs", []):
        op = m["op"]
        if op.startswith("{"):
            a = run_pairs([json.loads(op)], show=True)[0]
            print(json.dumps(a, indent=1))
            bad += 1
        else:
            print(op, "\n impl :", m["impl"], "\n model:", C.run_driver("C12", [op])[0], "\n spec :", m["spec"])
            bad += 1
    if not bad:
        print("no failing input recorded; broken obligations:", rep.get("broken_obligations"))
        return 1
    return 1
