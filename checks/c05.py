"""C05 — dead-code elimination never changes behaviour.

Proof: GV.Props.C05 — the work-list selector of compiler/internal/dce/selector.go (model GV.Model.Dce, with the
inclusion order and the pending-list discipline as parameters) selects exactly the least set that contains the
roots and is closed under "all non-empty filters occur among the dependency names of members" (GV.Spec.Dce.Live);
hence it is order-independent, monotone in `alive`, and closed under recorded dependencies.

Ties (all on the SAME archives of every generated program, built once by harness/cmd/gvh_c05):
  selector   real dce.Selector (hook compiler.VerifDceSelection) vs Lean `select` on the (alive, link, filters, deps)
             table parsed from Dce().String() of every declaration of every linked package   [internal tie]
  emission   the linker output contains, package by package, exactly WritePkgCode(hook selection)  [internal tie]
  closure    static scan of the selected declarations' JS (a) for package-level variables / imported members that only
             eliminated declarations declare, (b) for unexported methods reached BY NAME ($ifaceMethodExpr("m"),
             $methodVal(x,"m"), $methodExpr(T,"m"), recv.m( ): the declaration must record a dependency on a method
             filter pkg.m(...) whenever the package declares such a method                        [internal tie]
  behaviour  the property itself: linked normally vs every declaration forced alive -> same trace and ending under
             Node, no ReferenceError/TypeError, and both equal the native Go build.
"""
import json
import re
import shutil
import time

from . import common as C
from . import progs

THEOREMS = ["select_lfp", "select_sound", "select_complete", "live_is_least_closed", "select_order_independent", "select_perm",
            "select_monotone_alive", "select_closed", "select_closed_two", "select_exact", "select_roots", "select_subset",
            "select_all_alive", "select_subset_all_alive", "select_renaming",
            "filter_names_injective", "object_filter_injective", "method_filter_injective", "object_filter_ne_method_filter",
            "method_filter_eq_iff"]

NATIVE_FRACTION = 0.12   # share of generated programs that are also built and run natively (several CPU-seconds each)
ORDERS = ["fwd", "rev", "weave", "rot=7", "rot=61"]
PICKS = ["lifo", "fifo", "mid", "alt"]


# --------------------------------------------------------------------------------------
# Program generator.  Every feature returns Go source for package main (and possibly for the
# library package gvprog/lib) plus statements for main(); code is reached ONLY through the
# construct the feature is about, and every feature also declares code that is never reached.
# --------------------------------------------------------------------------------------

class Gen:
    def __init__(self, rng, mod="gvprog"):
        self.rng = rng
        self.mod = mod
        self.n = 0
        self.decls = []       # package main, top level
        self.main = []        # statements of main()
        self.inits = []       # statements of an init() function
        self.lib = []         # package lib, top level
        self.lib_used = False
        self.linkname = False
        self.features = []
        self.cells = []       # sole-reference cells (kind, exported, ptr)
        self.varcells = []    # package-variable cells

    def p(self):
        self.n += 1
        return "F%d" % self.n

    # shared pools: the same method names (with the same or different signatures) on many types
    UNEXP = [("get", "()", "int", "return %s"), ("val", "()", "int", "return %s + 1"), ("get", "(k int)", "int", "return %s + k"),
             ("size", "()", "int", "return %s * 2"), ("val", "(a, b int)", "int", "return %s + a*b")]
    EXP = [("Val", "()", "int", "return %s"), ("Area", "()", "int", "return %s * %s"), ("Get", "()", "int", "return %s + 2")]

    def build(self):
        rng = self.rng
        src = ["package main", ""]
        imports = []
        if self.lib_used:
            body = "\n".join(self.decls + self.inits + self.main)
            imports.append('%s"%s/lib"' % ("" if "lib." in body else "_ ", self.mod))
        if self.linkname:
            imports.append('_ "unsafe"')
        if imports:
            src.append("import (\n\t" + "\n\t".join(imports) + "\n)\n")
        src += self.decls
        if self.inits:
            src.append("func init() {\n\t" + "\n\t".join(self.inits) + "\n}\n")
        src.append("func main() {\n\t" + "\n\t".join(self.main) + "\n}\n")
        files = {"main.go": "\n".join(src)}
        if self.linkname:
            files["stub.s"] = "// allows bodiless go:linkname declarations in the native build\n"
        if self.lib_used:
            lib = ["package lib", ""] + self.lib
            files["lib/lib.go"] = "\n".join(lib)
        return files


def f_iface_exported(g):
    rng, P = g.rng, g.p()
    name, sig, res, body = rng.choice(Gen.EXP)
    nt = rng.randrange(2, 5)
    g.decls.append("type %sI interface{ %s%s %s }\n" % (P, name, sig, res))
    used = [i for i in range(nt) if rng.random() < 0.6] or [0]
    for i in range(nt):
        t = "%sT%d" % (P, i)
        recv = rng.choice(["t %s" % t, "t *%s" % t])
        g.decls.append("type %s struct{ n int }\n" % t)
        b = body.replace("%s", "t.n")
        g.decls.append("func (%s) %s%s %s { %s }\n" % (recv, name, sig, res, b))
        if rng.random() < 0.5:
            g.decls.append("func (%s) Unused%d() int { return %sdead(t.n) }\n" % (recv, i, P))
        if rng.random() < 0.5:
            g.decls.append("func (%s) hidden%d() int { return %sdead(t.n) + 1 }\n" % (recv, i, P))
    g.decls.append("func %sdead(x int) int { return x * 1000 }\n" % P)
    items = ", ".join("&%sT%d{%d}" % (P, i, i + 3) for i in used)
    g.main.append("for _, v := range []%sI{%s} { println(\"%s\", v.%s()) }" % (P, items, P, name))


def f_iface_unexported(g):
    rng, P = g.rng, g.p()
    name, sig, res, body = rng.choice(Gen.UNEXP)
    args = {"()": "()", "(k int)": "(5)", "(a, b int)": "(2, 3)"}[sig]
    g.decls.append("type %sI interface{ %s%s %s }\n" % (P, name, sig, res))
    nt = rng.randrange(2, 5)
    used = [i for i in range(nt) if rng.random() < 0.6] or [nt - 1]
    for i in range(nt):
        t = "%sT%d" % (P, i)
        g.decls.append("type %s struct{ n int }\n" % t)
        g.decls.append("func (t %s) %s%s %s { %s }\n" % (t, name, sig, res, body.replace("%s", "t.n")))
        # same name, different signature -> must not be confused; never called
        other = rng.choice([u for u in Gen.UNEXP if u[0] != name])
        g.decls.append("func (t %s) %s%s %s { %s }\n" % (t, other[0], other[1], other[2], other[3].replace("%s", "(t.n*100)")))
    # a live type with the same unexported method that never meets the interface
    g.decls.append("type %sLone struct{ n int }\n" % P)
    g.decls.append("func (t %sLone) %s%s %s { %s }\n" % (P, name, sig, res, body.replace("%s", "t.n")))
    items = ", ".join("%sT%d{%d}" % (P, i, i + 1) for i in used)
    g.main.append("for _, v := range []%sI{%s} { println(\"%s\", v.%s%s) }" % (P, items, P, name, args))
    g.main.append("println(\"%s lone\", %sLone{7}.n)" % (P, P))


def f_anon_iface(g):
    """method reached only through an unnamed interface type / type assertion on `any`"""
    rng, P = g.rng, g.p()
    name, sig, res, body = rng.choice([u for u in Gen.UNEXP if u[1] == "()"] + [e for e in Gen.EXP])
    g.decls.append("type %sA struct{ n int }\n" % P)
    g.decls.append("func (t %sA) %s() int { %s }\n" % (P, name, body.replace("%s", "t.n")))
    g.decls.append("type %sB struct{ n int }\n" % P)
    g.decls.append("func (t *%sB) %s() int { %s }\n" % (P, name, body.replace("%s", "t.n")))
    g.decls.append("type %sC struct{ n int }\n" % P)   # has no such method
    g.decls.append("func (t %sC) other%s() int { return t.n }\n" % (P, P))
    g.decls.append("func %sprobe(v interface{}) int {\n\tif m, ok := v.(interface{ %s() int }); ok {\n\t\treturn m.%s()\n\t}\n\treturn -1\n}\n" % (P, name, name))
    g.main.append("println(\"%s\", %sprobe(%sA{4}), %sprobe(&%sB{5}), %sprobe(%sC{6}), %sprobe(%sB{7}), %sprobe(17))" % (
        P, P, P, P, P, P, P, P, P, P))
    if rng.random() < 0.5:
        g.main.append("var %sx interface{ %s() int } = %sA{9}\n\tprintln(\"%s direct\", %sx.%s())" % (P, name, P, P, P, name))
    if rng.random() < 0.5:
        g.decls.append("func %ssw(v interface{}) string {\n\tswitch v.(type) {\n\tcase %sA:\n\t\treturn \"A\"\n\tcase *%sB:\n\t\treturn \"pB\"\n\tcase interface{ other%s() int }:\n\t\treturn \"other\"\n\t}\n\treturn \"?\"\n}\n" % (P, P, P, P))
        g.main.append("println(\"%s sw\", %ssw(%sA{}), %ssw(&%sB{}), %ssw(%sC{}), %ssw(1.5))" % (P, P, P, P, P, P, P, P))


def f_method_value(g):
    rng, P = g.rng, g.p()
    g.decls.append("type %sT struct{ n int }\n" % P)
    g.decls.append("func (t %sT) Exp(k int) int { return t.n + k }\n" % P)
    g.decls.append("func (t %sT) unexp(k int) int { return t.n - k }\n" % P)
    g.decls.append("func (t *%sT) Ptr(k int) int { t.n += k; return t.n }\n" % P)
    g.decls.append("func (t *%sT) ptr(k int) int { t.n *= k; return t.n }\n" % P)
    g.decls.append("func (t %sT) never(k int) int { return t.n * k * 31 }\n" % P)
    g.main.append("%sv := %sT{10}" % (P, P))
    picks = rng.sample(range(8), rng.randrange(3, 7))
    forms = [
        ("%sa := %sv.Exp", "%sa(1)"), ("%sb := %sv.unexp", "%sb(2)"), ("%sc := %sv.Ptr", "%sc(3)"), ("%sd := %sv.ptr", "%sd(2)"),
        ("%se := %sT.Exp", "%se(%sv, 4)"), ("%sf := %sT.unexp", "%sf(%sv, 5)"), ("%sg := (*%sT).Ptr", "%sg(&%sv, 6)"),
        ("%sh := (*%sT).ptr", "%sh(&%sv, 2)"),
    ]
    for i in sorted(picks):
        a, b = forms[i]
        g.main.append(a % (P, P))
        g.main.append("println(\"%s mv%d\", %s)" % (P, i, b % ((P,) * b.count("%s"))))
    if rng.random() < 0.5:
        g.decls.append("func %sapply(f func(int) int, x int) int { return f(x) }\n" % P)
        g.main.append("println(\"%s apply\", %sapply(%sT{3}.unexp, 1), %sapply((&%sT{4}).ptr, 3))" % (P, P, P, P, P))


def f_embedding(g):
    rng, P = g.rng, g.p()
    g.decls.append("type %sBase struct{ n int }\n" % P)
    g.decls.append("func (b %sBase) id() int { return b.n }\n" % P)
    g.decls.append("func (b *%sBase) Bump() int { b.n++; return b.n }\n" % P)
    g.decls.append("func (b %sBase) Name() string { return \"base\" }\n" % P)
    g.decls.append("func (b %sBase) spare() int { return b.n * 77 }\n" % P)
    ptr = rng.random() < 0.5
    g.decls.append("type %sMid struct {\n\t%s%sBase\n\tk int\n}\n" % (P, "*" if ptr else "", P))
    g.decls.append("func (m %sMid) Name() string { return \"mid\" }\n" % P)
    g.decls.append("type %sTop struct {\n\t%sMid\n\textra string\n}\n" % (P, P))
    g.decls.append("type %sIder interface{ id() int }\n" % P)
    g.decls.append("type %sBumper interface {\n\t%sIder\n\tBump() int\n\tName() string\n}\n" % (P, P))
    base = "&%sBase{5}" % P if ptr else "%sBase{5}" % P
    g.main.append("%st := &%sTop{%sMid{%s, 2}, \"x\"}" % (P, P, P, base))
    g.main.append("var %si %sBumper = %st" % (P, P, P))
    g.main.append("println(\"%s\", %si.id(), %si.Bump(), %si.Name(), %st.n)" % (P, P, P, P, P))
    if rng.random() < 0.6:
        # interface embedded in a struct: methods promoted from the interface value
        g.decls.append("type %sWrap struct {\n\t%sIder\n\tw int\n}\n" % (P, P))
        g.main.append("println(\"%s wrap\", %sWrap{%sBase{8}, 1}.id())" % (P, P, P))
    if rng.random() < 0.5:
        g.decls.append("type %sUnused struct{ %sBase }\n" % (P, P))
        g.decls.append("func (u %sUnused) only() int { return u.spare() }\n" % P)


def f_generic_func(g):
    rng, P = g.rng, g.p()
    g.decls.append("func %sMap[T, U any](xs []T, f func(T) U) []U {\n\tr := make([]U, 0, len(xs))\n\tfor _, x := range xs {\n\t\tr = append(r, f(x))\n\t}\n\treturn r\n}\n" % P)
    g.decls.append("func %sSum[T interface{ ~int | ~int32 | ~uint8 }](xs []T) T {\n\tvar s T\n\tfor _, x := range xs {\n\t\ts += x\n\t}\n\treturn s\n}\n" % P)
    g.decls.append("type %sMy int32\n" % P)
    g.decls.append("func %sdbl(x int) int { return x * 2 }\n" % P)
    g.decls.append("func %sstr(x int) string {\n\tif x > 2 {\n\t\treturn \"big\"\n\t}\n\treturn \"small\"\n}\n" % P)
    g.decls.append("func %sneverInst[T any](x T) T { return x }\n" % P)
    g.decls.append("func %sviaGeneric[T any](x T) int { return len(%sMap([]T{x, x}, func(t T) int { return 1 })) }\n" % (P, P))
    opts = [
        "println(\"%s a\", %sSum(%sMap([]int{1, 2, 3}, %sdbl)))" % (P, P, P, P),
        "for _, s := range %sMap([]int{1, 5}, %sstr) { println(\"%s b\", s) }" % (P, P, P),
        "println(\"%s c\", int(%sSum([]%sMy{4, 5})))" % (P, P, P),
        "println(\"%s d\", int(%sSum([]uint8{200, 100})))" % (P, P),
        "println(\"%s e\", %sviaGeneric(\"s\"), %sviaGeneric(%sMy(2)))" % (P, P, P, P),
        "%sfp := %sSum[int]\n\tprintln(\"%s f\", %sfp([]int{7, 8}))" % (P, P, P, P),
    ]
    for o in rng.sample(opts, rng.randrange(2, len(opts) + 1)):
        g.main.append(o)


def f_generic_type(g):
    rng, P = g.rng, g.p()
    g.decls.append("type %sBox[T any] struct{ v []T }\n" % P)
    g.decls.append("func (b *%sBox[T]) Add(x T) { b.v = append(b.v, x) }\n" % P)
    g.decls.append("func (b %sBox[T]) values() []T { return b.v }\n" % P)
    g.decls.append("func (b %sBox[T]) Len() int { return len(b.v) }\n" % P)
    g.decls.append("func (b %sBox[T]) first() T { return b.v[0] }\n" % P)
    g.decls.append("func (b %sBox[T]) unusedGen() int { return 99 }\n" % P)
    g.decls.append("type %sPair struct{ a, b int }\n" % P)
    g.decls.append("type %sIntVals interface{ values() []int }\n" % P)
    g.decls.append("type %sLener interface{ Len() int }\n" % P)
    g.decls.append("func %stotal(v %sIntVals) int {\n\ts := 0\n\tfor _, x := range v.values() {\n\t\ts += x\n\t}\n\treturn s\n}\n" % (P, P))
    g.main.append("%sbi := &%sBox[int]{}\n\t%sbi.Add(3)\n\t%sbi.Add(4)" % (P, P, P, P))
    g.main.append("println(\"%s int\", %stotal(%sbi))" % (P, P, P))
    opts = [
        "%sbs := &%sBox[string]{}\n\t%sbs.Add(\"q\")\n\tvar %sl %sLener = %sbs\n\tprintln(\"%s str\", %sl.Len())" % (P, P, P, P, P, P, P, P),
        "%sbp := %sBox[%sPair]{v: []%sPair{{1, 2}}}\n\tprintln(\"%s pair\", %sbp.first().b)" % (P, P, P, P, P, P),
        "%sbb := %sBox[%sBox[int]]{}\n\t%sbb.Add(*%sbi)\n\tprintln(\"%s nested\", %sbb.first().Len())" % (P, P, P, P, P, P, P),
        "var %sany interface{} = &%sBox[int]{v: []int{9}}\n\tif iv, ok := %sany.(%sIntVals); ok { println(\"%s assert\", %stotal(iv)) }" % (P, P, P, P, P, P),
    ]
    for o in rng.sample(opts, rng.randrange(1, len(opts) + 1)):
        g.main.append(o)


def f_generic_constraint(g):
    """methods called on values of type-parameter type (dependency names need the type arguments)"""
    rng, P = g.rng, g.p()
    name = rng.choice(["get", "val", "Val"])
    g.decls.append("type %sG interface{ %s() int }\n" % (P, name))
    g.decls.append("func %stot[T %sG](xs []T) int {\n\ts := 0\n\tfor _, x := range xs {\n\t\ts += x.%s()\n\t}\n\treturn s\n}\n" % (P, P, name))
    g.decls.append("type %sA int\n" % P)
    g.decls.append("func (a %sA) %s() int { return int(a) }\n" % (P, name))
    g.decls.append("type %sB struct{ n int }\n" % P)
    g.decls.append("func (b *%sB) %s() int { return b.n * 10 }\n" % (P, name))
    g.decls.append("type %sC struct{ n int }\n" % P)
    g.decls.append("func (c %sC) %s() int { return c.n * 100 }\n" % (P, name))   # never instantiated with
    g.decls.append("type %sHold[T %sG] struct{ x T }\n" % (P, P))
    g.decls.append("func (h %sHold[T]) run() int { return h.x.%s() + 1 }\n" % (P, name))
    g.main.append("println(\"%s\", %stot([]%sA{1, 2}), %stot([]*%sB{{3}}))" % (P, P, P, P, P))
    if rng.random() < 0.7:
        g.main.append("println(\"%s hold\", %sHold[%sA]{5}.run(), %sHold[*%sB]{&%sB{2}}.run())" % (P, P, P, P, P, P))


def f_nested_type(g):
    rng, P = g.rng, g.p()
    g.decls.append("type %sS interface{ show() int }\n" % P)
    g.decls.append("func %smk1(n int) %sS {\n\ttype local struct{ n int }\n\treturn %swrapShow(func() int { return local{n}.n + 1 })\n}\n" % (P, P, P))
    g.decls.append("type %sfn func() int\n" % P)
    g.decls.append("func (f %sfn) show() int { return f() }\n" % P)
    g.decls.append("func %swrapShow(f func() int) %sS { return %sfn(f) }\n" % (P, P, P))
    # generic function with a local type depending on the nest's type parameter, and a method-less local generic use
    g.decls.append("func %sgen[T any](x T, n int) int {\n\ttype cell struct {\n\t\tv T\n\t\tn int\n\t}\n\tc, d := cell{x, n}, &cell{x, n + 1}\n\tvar e interface{} = c\n\t_, ok := e.(cell)\n\tif ok {\n\t\treturn c.n + d.n\n\t}\n\treturn -1\n}\n" % P)
    g.decls.append("func %sdeadNest() int {\n\ttype local struct{ a, b int }\n\treturn local{1, 2}.b\n}\n" % P)
    g.main.append("println(\"%s\", %smk1(4).show(), %sgen(\"s\", 1), %sgen(2.5, 10), %sgen([]int{1}, 20))" % (P, P, P, P, P))
    if rng.random() < 0.6:
        # local type inside a method, returned through an interface holding a struct of the local type
        g.decls.append("type %sOwner struct{ k int }\n" % P)
        g.decls.append("func (o %sOwner) Make() interface{} {\n\ttype inner struct{ a, b int }\n\treturn inner{o.k, o.k + 1}\n}\n" % P)
        g.decls.append("func (o %sOwner) Other() interface{} {\n\ttype inner struct{ s string }\n\treturn inner{\"z\"}\n}\n" % P)
        g.main.append("println(\"%s eq\", %sOwner{1}.Make() == %sOwner{1}.Make(), %sOwner{1}.Make() == %sOwner{2}.Make(), %sOwner{1}.Other() != nil)" % (P, P, P, P, P, P))


def f_side_effect_vars(g):
    rng, P = g.rng, g.p()
    g.decls.append("func %seff(tag string, v int) int {\n\tprintln(\"%s init\", tag, v)\n\treturn v\n}\n" % (P, P))
    g.decls.append("var %sunused1 = %seff(\"u1\", 1)\n" % (P, P))
    g.decls.append("var %schain = %sbase + 1\n" % (P, P))           # initialised after base
    g.decls.append("var %sbase = %seff(\"base\", 10)\n" % (P, P))
    g.decls.append("var %spure = 12345\n" % P)                      # no side effect, unused: eliminated
    g.decls.append("var %spureFn = func() int { return 5 }\n" % P)  # no side effect at init, unused
    if rng.random() < 0.6:
        g.decls.append("var _ = %seff(\"blank\", 2)\n" % P)
    if rng.random() < 0.6:
        g.decls.append("type %sReg struct{ n int }\n" % P)
        g.decls.append("func (r %sReg) announce() int { return %seff(\"method\", r.n) }\n" % (P, P))
        g.decls.append("var %sviaMethod = %sReg{3}.announce()\n" % (P, P))
    if rng.random() < 0.6:
        g.decls.append("type %sAnn interface{ tell() int }\n" % P)
        g.decls.append("type %sImpl struct{}\n" % P)
        g.decls.append("func (%sImpl) tell() int { return %seff(\"iface\", 4) }\n" % (P, P))
        g.decls.append("var %sann %sAnn = %sImpl{}\n" % (P, P, P))
        g.decls.append("var %sviaIface = %sann.tell()\n" % (P, P))
    if rng.random() < 0.5:
        g.decls.append("var %sa, %sb = %seff(\"pair\", 6), %seff(\"pair\", 7)\n" % (P, P, P, P))
    if rng.random() < 0.5:
        g.decls.append("var %sm = map[string]int{\"k\": %seff(\"map\", 8)}\n" % (P, P))
    if rng.random() < 0.5:
        g.main.append("println(\"%s chain\", %schain)" % (P, P))


def f_linkname(g):
    rng, P = g.rng, g.p()
    g.lib_used = True
    g.linkname = True
    g.lib.append("func secret%s(x int) int { return x*3 + helper%s() }\n" % (P, P))
    g.lib.append("func helper%s() int { return state%s + 1 }\n" % (P, P))
    g.lib.append("var state%s = 40\n" % P)
    g.lib.append("func neverLinked%s() int { return 123 }\n" % P)
    g.decls.append("//go:linkname %slinked %s/lib.secret%s\nfunc %slinked(x int) int\n" % (P, g.mod, P, P))
    g.main.append("println(\"%s link\", %slinked(2))" % (P, P))
    if rng.random() < 0.6:
        g.lib.append("type Pt%s struct{ X int }\n" % P)
        g.lib.append("func (p Pt%s) hiddenGet() int { return p.X + ptOff%s() }\n" % (P, P))
        g.lib.append("func (p *Pt%s) hiddenSet(v int) { p.X = v }\n" % P)
        g.lib.append("func ptOff%s() int { return 1000 }\n" % P)
        g.decls.append("//go:linkname %sptGet %s/lib.Pt%s.hiddenGet\nfunc %sptGet(p lib.Pt%s) int\n" % (P, g.mod, P, P, P))
        g.decls.append("//go:linkname %sptSet %s/lib.(*Pt%s).hiddenSet\nfunc %sptSet(p *lib.Pt%s, v int)\n" % (P, g.mod, P, P, P))
        g.main.append("%spt := &lib.Pt%s{X: 1}\n\t%sptSet(%spt, 5)\n\tprintln(\"%s linkm\", %sptGet(*%spt))" % (P, P, P, P, P, P, P))
    else:
        g.lib.append("var Touch%s = 1\n" % P)
        g.main.append("println(\"%s touch\", lib.Touch%s)" % (P, P))


def f_crosspkg(g):
    rng, P = g.rng, g.p()
    g.lib_used = True
    g.lib.append("type Shape%s interface {\n\tArea() int\n\tperim() int\n}\n" % P)
    g.lib.append("type Sq%s struct{ S int }\n" % P)
    g.lib.append("func (s Sq%s) Area() int { return s.S * s.S }\n" % P)
    g.lib.append("func (s Sq%s) perim() int { return 4 * s.S }\n" % P)
    g.lib.append("func (s Sq%s) Unused() int { return deadLib%s() }\n" % (P, P))
    g.lib.append("type Rc%s struct{ W, H int }\n" % P)
    g.lib.append("func (r *Rc%s) Area() int { return r.W * r.H }\n" % P)
    g.lib.append("func (r *Rc%s) perim() int { return 2 * (r.W + r.H) }\n" % P)
    g.lib.append("func deadLib%s() int { return 5 }\n" % P)
    g.lib.append("func Shapes%s() []Shape%s { return []Shape%s{Sq%s{2}, &Rc%s{2, 3}} }\n" % (P, P, P, P, P))
    g.lib.append("func Describe%s(s Shape%s) int { return s.Area()*100 + s.perim() }\n" % (P, P))
    g.lib.append("type Namer%s interface{ Name() string }\n" % P)
    g.lib.append("func Greet%s(n Namer%s) string { return \"hi \" + n.Name() }\n" % (P, P))
    g.lib.append("var Counter%s = initCounter%s()\n" % (P, P))
    g.lib.append("func initCounter%s() int {\n\tprintln(\"lib init %s\")\n\treturn 7\n}\n" % (P, P))
    g.decls.append("type %sme struct{ s string }\n" % P)
    g.decls.append("func (m %sme) Name() string { return m.s }\n" % P)
    g.main.append("for _, s := range lib.Shapes%s() { println(\"%s shape\", lib.Describe%s(s)) }" % (P, P, P))
    if rng.random() < 0.7:
        g.main.append("println(\"%s greet\", lib.Greet%s(%sme{\"bob\"}))" % (P, P, P))
    if rng.random() < 0.5:
        g.main.append("println(\"%s counter\", lib.Counter%s)" % (P, P))


def f_named_nonstruct(g):
    rng, P = g.rng, g.p()
    g.decls.append("type %sSummer interface{ Sum() int }\n" % P)
    g.decls.append("type %sList []int\n" % P)
    g.decls.append("func (l %sList) Sum() int {\n\ts := 0\n\tfor _, x := range l {\n\t\ts += x\n\t}\n\treturn s\n}\n" % P)
    g.decls.append("type %sMap map[string]int\n" % P)
    g.decls.append("func (m %sMap) Sum() int { return m[\"a\"] + m[\"b\"] }\n" % P)
    g.decls.append("type %sFn func(int) int\n" % P)
    g.decls.append("func (f %sFn) Sum() int { return f(1) + f(2) }\n" % P)
    g.decls.append("func (f %sFn) twice(x int) int { return f(f(x)) }\n" % P)
    g.decls.append("type %sInt int\n" % P)
    g.decls.append("func (i %sInt) Sum() int { return int(i) }\n" % P)
    g.decls.append("func (i *%sInt) inc() { *i++ }\n" % P)
    g.decls.append("type %sCh chan int\n" % P)
    g.decls.append("func (c %sCh) Sum() int { return cap(c) }\n" % P)
    allv = ["%sList{1, 2, 3}" % P, "%sMap{\"a\": 4, \"b\": 5}" % P, "%sFn(func(x int) int { return x * 3 })" % P, "%sInt(8)" % P,
            "make(%sCh, 3)" % P]
    use = rng.sample(allv, rng.randrange(1, 5))
    g.main.append("for _, s := range []%sSummer{%s} { println(\"%s sum\", s.Sum()) }" % (P, ", ".join(use), P))
    if rng.random() < 0.5:
        g.main.append("println(\"%s twice\", %sFn(func(x int) int { return x + 1 }).twice(5))" % (P, P))
    if rng.random() < 0.5:
        g.main.append("%sI := %sInt(1)\n\t%sI.inc()\n\tprintln(\"%s inc\", int(%sI))" % (P, P, P, P, P))


def f_struct_fields(g):
    rng, P = g.rng, g.p()
    g.decls.append("type %sInner struct {\n\ta int\n\ts string\n}\n" % P)
    g.decls.append("func (i %sInner) String() string { return i.s }\n" % P)
    g.decls.append("type %sOnlyField struct{ z [2]int }\n" % P)
    g.decls.append("type %sOuter struct {\n\tin  %sInner\n\tarr [2]%sInner\n\tp   *%sInner\n\tm   map[string]%sInner\n\tof  %sOnlyField\n\tfn  func(%sInner) %sOnlyField\n}\n" % (
        P, P, P, P, P, P, P, P))
    g.decls.append("type %sCmp struct {\n\tin %sInner\n\tof %sOnlyField\n}\n" % (P, P, P))
    g.decls.append("type %sNeverUsed struct{ in %sInner }\n" % (P, P))
    g.main.append("var %so %sOuter" % (P, P))
    g.main.append("println(\"%s zero\", %so.in.a, %so.arr[1].s == \"\", %so.p == nil, len(%so.m), %so.of.z[1], %so.fn == nil)" % (P, P, P, P, P, P, P))
    g.main.append("var %sx, %sy interface{} = %sCmp{}, %sCmp{%sInner{0, \"\"}, %sOnlyField{}}" % (P, P, P, P, P, P))
    g.main.append("println(\"%s eq\", %sx == %sy, %sx == interface{}(%sCmp{%sInner{1, \"\"}, %sOnlyField{}}))" % (P, P, P, P, P, P, P))
    if rng.random() < 0.5:
        g.main.append("%so2 := %so\n\t%so2.arr[0].a = 5\n\tprintln(\"%s copy\", %so.arr[0].a, %so2.arr[0].a)" % (P, P, P, P, P, P))
    if rng.random() < 0.5:
        g.main.append("%sch := make(chan %sInner, 1)\n\t%sch <- %sInner{2, \"c\"}\n\tprintln(\"%s chan\", (<-%sch).String())" % (P, P, P, P, P, P))


def f_init_registry(g):
    rng, P = g.rng, g.p()
    g.decls.append("type %sHandler interface{ handle(x int) int }\n" % P)
    g.decls.append("var %sregistry []%sHandler\n" % (P, P))
    n = rng.randrange(1, 4)
    for i in range(n):
        g.decls.append("type %sH%d struct{ k int }\n" % (P, i))
        g.decls.append("func (h %sH%d) handle(x int) int { return x*h.k + %d }\n" % (P, i, i))
        g.inits.append("%sregistry = append(%sregistry, %sH%d{%d})" % (P, P, P, i, i + 2))
    g.decls.append("type %sHdead struct{ k int }\n" % P)
    g.decls.append("func (h %sHdead) handle(x int) int { return -x }\n" % P)
    g.main.append("for _, h := range %sregistry { println(\"%s reg\", h.handle(10)) }" % (P, P))


def f_error_panic(g):
    rng, P = g.rng, g.p()
    g.decls.append("type %sErr struct{ code int }\n" % P)
    g.decls.append("func (e *%sErr) Error() string { return \"err\" + %sdigits(e.code) }\n" % (P, P))
    g.decls.append("func %sdigits(n int) string {\n\tif n < 10 {\n\t\treturn string(rune('0' + n))\n\t}\n\treturn %sdigits(n/10) + string(rune('0'+n%%10))\n}\n" % (P, P))
    g.decls.append("func %srisky(n int) (res string) {\n\tdefer func() {\n\t\tif r := recover(); r != nil {\n\t\t\tif e, ok := r.(error); ok {\n\t\t\t\tres = \"recovered \" + e.Error()\n\t\t\t}\n\t\t}\n\t}()\n\tif n > 1 {\n\t\tpanic(&%sErr{n})\n\t}\n\treturn \"fine\"\n}\n" % (P, P))
    g.decls.append("type %sStr struct{}\n" % P)
    g.decls.append("func (%sStr) String() string { return \"never\" }\n" % P)
    g.main.append("println(\"%s\", %srisky(1), %srisky(42))" % (P, P, P))
    if rng.random() < 0.5:
        g.decls.append("func %sfail() error { return &%sErr{7} }\n" % (P, P))
        g.main.append("if err := %sfail(); err != nil { println(\"%s err\", err.Error()) }" % (P, P))


def f_defer_go(g):
    rng, P = g.rng, g.p()
    g.decls.append("type %sW struct{ id int }\n" % P)
    g.decls.append("func (w %sW) run(ch chan int) { ch <- w.id * 2 }\n" % P)
    g.decls.append("func (w *%sW) done() { println(\"%s done\", w.id) }\n" % (P, P))
    g.decls.append("func (w %sW) idle() int { return w.id }\n" % P)
    g.decls.append("func %sscope() int {\n\tw := &%sW{6}\n\tdefer w.done()\n\tch := make(chan int)\n\tgo w.run(ch)\n\treturn <-ch\n}\n" % (P, P))
    g.main.append("println(\"%s\", %sscope())" % (P, P))


def f_func_tables(g):
    rng, P = g.rng, g.p()
    n = rng.randrange(2, 5)
    for i in range(n):
        g.decls.append("func %sop%d(x int) int { return x + %d }\n" % (P, i, i * 11))
    g.decls.append("func %sopDead(x int) int { return x - 1 }\n" % P)
    g.decls.append("var %stable = []func(int) int{%s}\n" % (P, ", ".join("%sop%d" % (P, i) for i in range(n))))
    g.decls.append("type %sOps struct {\n\tf func(int) int\n\tname string\n}\n" % P)
    g.decls.append("var %snamed = map[string]%sOps{\"z\": {%sop0, \"zero\"}}\n" % (P, P, P))
    g.main.append("for i, f := range %stable { println(\"%s tbl\", i, f(i)) }" % (P, P))
    if rng.random() < 0.6:
        g.main.append("println(\"%s named\", %snamed[\"z\"].f(1), %snamed[\"z\"].name)" % (P, P, P))


def f_signatures(g):
    """unexported methods whose filter names contain composite parameter/result types, reached only through an
    interface that spells the same signature with other parameter names (the name match is purely textual)"""
    rng, P = g.rng, g.p()
    T = "%sT" % P
    pool = [
        ("va", "(xs ...int)", "(ys ...int)", "int", "return len(xs) + t.n",
         "println(\"%s va\", %sv.va(1, 2, 3), %sv.va())" % (P, P, P)),
        ("fn", "(f func(int, string) (bool, error))", "(g func(int, string) (bool, error))", "(int, error)",
         "ok, err := f(t.n, \"a\")\n\tif ok {\n\t\treturn 1, err\n\t}\n\treturn 0, err",
         "%sa, %se := %sv.fn(func(i int, s string) (bool, error) { return i > 0, nil })\n\tprintln(\"%s fn\", %sa, %se == nil)" % (P, P, P, P, P, P)),
        ("ch", "(c <-chan int, d chan<- string)", "(in <-chan int, out chan<- string)", "int", "d <- \"x\"\n\treturn <-c + t.n",
         "%sc, %sd := make(chan int, 1), make(chan string, 1)\n\t%sc <- 5\n\tprintln(\"%s ch\", %sv.ch(%sc, %sd), <-%sd)" % (P, P, P, P, P, P, P, P)),
        ("agg", "(a [3]int, s []string, mp map[string][]int)", "(x [3]int, y []string, z map[string][]int)", "*%s" % T,
         "return &%s{a[1] + len(s) + len(mp[\"k\"]) + t.n}" % T,
         "println(\"%s agg\", %sv.agg([3]int{1, 2, 3}, []string{\"q\"}, map[string][]int{\"k\": {1, 2}}).n)" % (P, P)),
        ("st", "(s struct {\n\ta int\n\tb string\n})", "(q struct {\n\ta int\n\tb string\n})", "interface{ x() int }",
         "return %sX{s.a + len(s.b) + t.n}" % P,
         "println(\"%s st\", %sv.st(struct {\n\t\ta int\n\t\tb string\n\t}{2, \"zz\"}).x())" % (P, P)),
        ("ifc", "(i interface{}, e error)", "(v interface{}, err error)", "(r interface{}, ok bool)", "return i, e == nil",
         "%sr, %sok := %sv.ifc(7, nil)\n\tprintln(\"%s ifc\", %sr.(int), %sok)" % (P, P, P, P, P, P)),
        ("mp", "(m map[[2]int]func() int)", "(table map[[2]int]func() int)", "int", "return m[[2]int{1, 2}]() + t.n",
         "println(\"%s mp\", %sv.mp(map[[2]int]func() int{{1, 2}: func() int { return 40 }}))" % (P, P)),
        ("pp", "(p *%s, q **%s)" % (T, T), "(a *%s, b **%s)" % (T, T), "int", "return p.n + (*q).n + t.n",
         "%sp := &%s{1}\n\tprintln(\"%s pp\", %sv.pp(%sp, &%sp))" % (P, T, P, P, P, P)),
    ]
    chosen = rng.sample(pool, rng.randrange(2, len(pool) + 1))
    g.decls.append("type %s struct{ n int }\n" % T)
    g.decls.append("type %sX struct{ n int }\n" % P)
    g.decls.append("func (x %sX) x() int { return x.n }\n" % P)
    for name, params, iparams, res, body, call in pool:
        g.decls.append("func (t %s) %s%s %s {\n\t%s\n}\n" % (T, name, params, res, body))
    g.decls.append("type %sI interface {\n%s\n}\n" % (P, "\n".join("\t%s%s %s" % (c[0], c[2], c[3]) for c in chosen)))
    g.main.append("var %sv %sI = %s{10}" % (P, P, T))
    for c in chosen:
        g.main.append(c[5])
    if rng.random() < 0.7:
        # generic receiver: the interface spells the instantiated signature
        args = [("[]int", "[]int{1}"), ("map[string]int", "map[string]int{\"a\": 1}"), ("func(int) int", "func(x int) int { return x }"),
                ("*%s" % T, "&%s{3}" % T), ("struct{ a int }", "struct{ a int }{4}"), ("[2]string", "[2]string{\"a\", \"b\"}"),
                ("chan int", "make(chan int)"), ("%sG[int]" % P, "%sG[int]{5}" % P), ("%sX" % P, "%sX{6}" % P)]
        g.decls.append("type %sG[T any] struct{ v T }\n" % P)
        g.decls.append("func (g %sG[T]) put(v T, more ...T) int { return 1 + len(more) }\n" % P)
        g.decls.append("func (g %sG[T]) conv(f func(T) T) map[string]T { return map[string]T{\"k\": f(g.v)} }\n" % P)
        g.decls.append("func (g %sG[T]) spare(v T) T { return v }\n" % P)
        for idx, (ty, val) in enumerate(rng.sample(args, rng.randrange(1, 4))):
            g.decls.append("type %sGI%d interface {\n\tput(a %s, b ...%s) int\n\tconv(h func(%s) %s) map[string]%s\n}\n" % (P, idx, ty, ty, ty, ty, ty))
            g.main.append("var %sg%d %sGI%d = %sG[%s]{%s}" % (P, idx, P, idx, P, ty, val))
            g.main.append("println(\"%s gen%d\", %sg%d.put(%s, %s), len(%sg%d.conv(func(x %s) %s { return x })))" % (
                P, idx, P, idx, val, val, P, idx, ty, ty))


def f_generic_signature(g):
    """unexported methods whose signature mentions type parameters: the dependency name must be spelled with the
    type ARGUMENTS of the instance that makes the call (constraint interfaces, wrappers, swapped parameters)"""
    rng, P = g.rng, g.p()
    g.decls.append("type %sGet[T any] interface{ fetch(k T) T }\n" % P)
    g.decls.append("func %suse[T any, B %sGet[T]](b B, k T) T { return b.fetch(k) }\n" % (P, P))
    g.decls.append("type %sStore struct{ pre string }\n" % P)
    g.decls.append("func (s %sStore) fetch(k string) string { return s.pre + k }\n" % P)
    g.decls.append("type %sIStore struct{ n int }\n" % P)
    g.decls.append("func (s *%sIStore) fetch(k int) int { return s.n + k }\n" % P)
    g.decls.append("type %sFStore struct{}\n" % P)
    g.decls.append("func (s %sFStore) fetch(k float64) float64 { return k }\n" % P)     # never used
    g.decls.append("type %sWrap[T any] struct{ inner %sGet[T] }\n" % (P, P))
    g.decls.append("func (w %sWrap[T]) get(k T) T { return w.inner.fetch(k) }\n" % P)
    g.decls.append("type %sPair[K comparable, V comparable] struct {\n\tk K\n\tv V\n}\n" % P)
    g.decls.append("type %sTrip[A comparable, B any] struct {\n\tk A\n\tv B\n}\n" % P)
    g.decls.append("type %sK2[K comparable] struct{ k K }\n" % P)
    g.decls.append("func (p %sPair[K, V]) flip() %sTrip[V, %sK2[K]] { return %sTrip[V, %sK2[K]]{p.v, %sK2[K]{p.k}} }\n" % (P, P, P, P, P, P))
    g.decls.append("func (p %sPair[K, V]) same() %sPair[K, V] { return p }\n" % (P, P))
    g.decls.append("type %sflipper interface{ flip() %sTrip[string, %sK2[int]] }\n" % (P, P, P))
    opts = [
        "println(\"%s use\", %suse[string, %sStore](%sStore{\"x\"}, \"a\"))" % (P, P, P, P),
        "println(\"%s usep\", %suse[int, *%sIStore](&%sIStore{4}, 3))" % (P, P, P, P),
        "println(\"%s wrap\", %sWrap[string]{%sStore{\"w\"}}.get(\"z\"))" % (P, P, P),
        "var %sf %sflipper = %sPair[int, string]{1, \"s\"}\n\tprintln(\"%s flip\", %sf.flip().k, %sf.flip().v.k)" % (P, P, P, P, P, P),
        "println(\"%s infer\", %suse(%sStore{\"i\"}, \"n\"))" % (P, P, P),
    ]
    for o in rng.sample(opts, rng.randrange(2, len(opts) + 1)):
        g.main.append(o)


# --------------------------------------------------------------------------------------
# Sole-reference cells: ONE way of reaching a method is the ONLY mention of its name+signature in the whole program
# (the method name is unique to the cell).  Matrix: reference kind x exported/unexported x value/pointer receiver.
# --------------------------------------------------------------------------------------

SOLE_KINDS = ["call-iface", "mval-iface", "mexpr-iface", "mexpr-anon-iface", "call-concrete", "mval-concrete", "mexpr-concrete",
              "embed-call", "embed-iface", "embed-mexpr", "generic-constraint", "assert-anon", "defer-concrete", "defer-iface",
              "go-concrete", "go-iface", "gen-call-iface", "gen-mexpr-iface", "gen-mexpr-concrete"]


def sole_cell(g, kind, exported, ptr):
    rng, P = g.rng, g.p()
    M = ("M" if exported else "m") + P
    T, U, I, O, C = P + "T", P + "U", P + "I", P + "O", P + "C"
    tag = "\"%s %s %s %s\"" % (P, kind, "exp" if exported else "unexp", "ptr" if ptr else "val")
    star, amp = ("*", "&") if ptr else ("", "")
    generic = kind.startswith("gen-")
    go = kind.startswith("go-")
    D = g.decls
    D.append("var %s int\n" % C)
    if generic:
        D.append("type %s[X any] struct {\n\tn int\n\tx X\n}\n" % T)
        D.append("func (t %s%s[X]) %s(x X) X {\n\t%s += t.n\n\treturn x\n}\n" % (star, T, M, C))
        D.append("func (t %s%s[X]) z%s() int { return t.n * 1000 }\n" % (star, T, P))
        D.append("type %s interface{ %s(x string) string }\n" % (I, M))
        val = "%s%s[string]{3, \"a\"}" % (amp, T)
        if kind == "gen-call-iface":
            g.main.append("var %si %s = %s\n\tprintln(%s, %si.%s(\"q\"), %s)" % (P, I, val, tag, P, M, C))
        elif kind == "gen-mexpr-iface":
            g.main.append("%sf := %s.%s\n\tprintln(%s, %sf(%s, \"q\"), %s)" % (P, I, M, tag, P, val, C))
        else:
            recv = "(*%s[string])" % T if ptr else "%s[string]" % T
            g.main.append("%sf := %s.%s\n\tprintln(%s, %sf(%s, \"q\"), %s)" % (P, recv, M, tag, P, val, C))
        return
    sig, ret, body = ("(ch chan int)", "", "ch <- t.n * 2") if go else ("()", " int", "return t.n * 2")
    for ty in (T, U):
        D.append("type %s struct{ n int }\n" % ty)
        D.append("func (t %s%s) %s%s%s {\n\t%s += t.n\n\t%s\n}\n" % (star, ty, M, sig, ret, C, body))
        D.append("func (t %s%s) z%s() int { return t.n * 1000 }\n" % (star, ty, P))
    vT, vU = "%s%s{3}" % (amp, T), "%s%s{4}" % (amp, U)
    needs_iface = kind in ("call-iface", "mval-iface", "mexpr-iface", "embed-iface", "defer-iface", "go-iface")
    if needs_iface:
        D.append("type %s interface{ %s%s%s }\n" % (I, M, sig, ret))
    if kind.startswith("embed-"):
        embptr = rng.random() < 0.5
        D.append("type %s struct {\n\t%s%s\n\tk int\n}\n" % (O, "*" if embptr else "", T))
        oval = "%s{%s%s{3}, 1}" % (O, "&" if embptr else "", T)
    m = g.main
    if kind == "call-iface":
        m.append("for _, v := range []%s{%s, %s} { println(%s, v.%s()) }" % (I, vT, vU, tag, M))
    elif kind == "mval-iface":
        m.append("for _, v := range []%s{%s, %s} {\n\t\tf := v.%s\n\t\tprintln(%s, f())\n\t}" % (I, vT, vU, M, tag))
    elif kind == "mexpr-iface":
        m.append("%sf := %s.%s\n\tprintln(%s, %sf(%s), %sf(%s))" % (P, I, M, tag, P, vT, P, vU))
    elif kind == "mexpr-anon-iface":
        m.append("%sf := interface{ %s() int }.%s\n\tprintln(%s, %sf(%s), %sf(%s))" % (P, M, M, tag, P, vT, P, vU))
    elif kind == "call-concrete":
        m.append("%sx, %sy := %s{3}, %s{4}\n\tprintln(%s, %sx.%s(), %sy.%s())" % (P, P, T, U, tag, P, M, P, M))
    elif kind == "mval-concrete":
        m.append("%sx, %sy := %s{3}, %s\n\t%sf, %sg := %sx.%s, %sy.%s\n\tprintln(%s, %sf(), %sg())" % (P, P, T, vU, P, P, P, M, P, M, tag, P, P))
    elif kind == "mexpr-concrete":
        if ptr or rng.random() < 0.4:
            m.append("%sf, %sg := (*%s).%s, (*%s).%s\n\tprintln(%s, %sf(&%s{3}), %sg(&%s{4}))" % (P, P, T, M, U, M, tag, P, T, P, U))
        else:
            m.append("%sf, %sg := %s.%s, %s.%s\n\tprintln(%s, %sf(%s{3}), %sg(%s{4}))" % (P, P, T, M, U, M, tag, P, T, P, U))
    elif kind == "embed-call":
        m.append("%so := %s\n\tprintln(%s, %so.%s())" % (P, oval, tag, P, M))
    elif kind == "embed-iface":
        m.append("var %si %s = &%s\n\tprintln(%s, %si.%s())" % (P, I, oval, tag, P, M))
    elif kind == "embed-mexpr":
        m.append("%sf := (*%s).%s\n\tprintln(%s, %sf(&%s))" % (P, O, M, tag, P, oval))
    elif kind == "generic-constraint":
        D.append("func %sg[X interface{ %s() int }](x X) int { return x.%s() + 1 }\n" % (P, M, M))
        m.append("println(%s, %sg(%s), %sg(%s))" % (tag, P, vT, P, vU))
    elif kind == "assert-anon":
        m.append("for _, v := range []interface{}{%s, %s, 5} {\n\t\tif a, ok := v.(interface{ %s() int }); ok {\n\t\t\tprintln(%s, a.%s())\n\t\t}\n\t}" % (vT, vU, M, tag, M))
    elif kind == "defer-concrete":
        D.append("func %sd() {\n\tx := %s{3}\n\tdefer x.%s()\n}\n" % (P, T, M))
        D.append("func %se() {\n\ty := %s\n\tdefer y.%s()\n}\n" % (P, vU, M))
        m.append("%sd()\n\t%se()" % (P, P))
    elif kind == "defer-iface":
        D.append("func %sd(i %s) { defer i.%s() }\n" % (P, I, M))
        m.append("%sd(%s)\n\t%sd(%s)" % (P, vT, P, vU))
    elif kind == "go-concrete":
        m.append("%sch := make(chan int)\n\t%sx := %s{3}\n\tgo %sx.%s(%sch)\n\tprintln(%s, <-%sch)" % (P, P, T, P, M, P, tag, P))
        m.append("go %s.%s(%sch)\n\tprintln(%s, <-%sch)" % (vU.replace("&", "(&") + (")" if ptr else ""), M, P, tag, P))
    elif kind == "go-iface":
        m.append("%sch := make(chan int)\n\tfor _, v := range []%s{%s, %s} {\n\t\tgo v.%s(%sch)\n\t\tprintln(%s, <-%sch)\n\t}" % (P, I, vT, vU, M, P, tag, P))
    m.append("println(%s, \"c\", %s)" % (tag, C))


def f_sole(g):
    rng = g.rng
    for _ in range(rng.randrange(1, 3)):
        kind, exported, ptr = rng.choice(SOLE_KINDS), rng.random() < 0.4, rng.random() < 0.5
        sole_cell(g, kind, exported, ptr)
        g.cells.append((kind, exported, ptr))


def matrix_programs(rng, seed):
    """every cell of the matrix, a few cells per program (cells never share a method name)"""
    cells = [(k, e, p) for k in SOLE_KINDS for e in (False, True) for p in (False, True)]
    rng.shuffle(cells)
    out = []
    for a in range(0, len(cells), 6):
        mod = "gvm%dx%d" % (seed, a // 6)
        g = Gen(rng, mod)
        for k, e, p in cells[a:a + 6]:
            sole_cell(g, k, e, p)
            g.cells.append((k, e, p))
            g.features.append("sole-reference")
        out.append((mod, g.build(), g.features, g.cells))
    return out


# which (reference kind x exportedness x receiver) cells the 20 composite generators reach (audit, by reading them);
# "sole" = the reference is the only mention of the method name+signature in the program.  Everything else in the
# matrix is covered by the sole-reference cells only.
GENERATOR_AUDIT = {
    "iface-exported": "call-iface exp val|ptr (sole)",
    "iface-unexported": "call-iface unexp val (sole; same name on a live type that never meets the interface, other signatures dead)",
    "anon-iface-assert": "assert-anon exp|unexp val|ptr (sole unless the optional direct interface call is drawn)",
    "method-value-expr": "mval-concrete, mexpr-concrete exp|unexp val|ptr (a method may be reached by both forms: not always sole)",
    "embedding": "embed-iface unexp val + exp ptr, embed-call via interface embedded in struct (not sole: id() reached twice)",
    "generic-func": "no methods",
    "generic-type": "gen-call-iface unexp val (values), exp val|ptr (Len, Add) (sole)",
    "generic-constraint-method": "generic-constraint exp|unexp val|ptr (not sole when Hold.run is drawn)",
    "generic-signature": "generic-constraint unexp val|ptr with type-parameter signatures, gen-call-iface unexp val (sole per signature)",
    "nested-type": "call-iface unexp val on a named func type",
    "side-effect-var": "call-concrete / call-iface unexp val inside initialisers",
    "linkname": "go:linkname to unexported functions and methods (val and ptr receivers)",
    "cross-package": "call-iface exp+unexp val|ptr across packages",
    "named-nonstruct": "call-iface exp val on slice/map/func/int/chan types; call-concrete unexp val|ptr",
    "struct-fields": "call-concrete exp val",
    "init-registry": "call-iface unexp val from init()",
    "error-panic": "call-iface exp ptr through the predeclared error interface",
    "defer-go": "defer-concrete unexp ptr, go-concrete unexp val (sole)",
    "func-table": "no methods",
    "signature-spellings": "call-iface unexp val with composite signatures; gen-call-iface unexp val",
    "sole-reference": "all 19 kinds x exp|unexp x val|ptr, each the sole reference (matrix programs enumerate every cell in every run)",
}


# --------------------------------------------------------------------------------------
# Package-variable cells: multi-variable declarations of every tuple-producing form x which variables are referenced
# x from where x side-effecting / pure initializer; and chains of single-variable declarations.
# --------------------------------------------------------------------------------------

VAR_FORMS = ["map-ok", "assert-ok", "recv-ok", "call2", "call3", "parallel"]
VAR_USES = ["first", "last", "none", "all"]
VAR_WHERE = ["main", "other-pkg-init", "via-var"]
VAR_EFFECT = ["pure", "side"]
CHAIN_VARIANTS = ["plain", "effect-base", "via-func", "via-closure", "via-composite", "via-method", "cross-pkg"]
CHAIN_WHERE = ["main", "init", "via-var"]


def var_cell(g, form, use, where, effect):
    P = g.p()
    inlib = where == "other-pkg-init"
    D = g.lib if inlib else g.decls
    if inlib:
        g.lib_used = True
    q = "lib." if inlib else ""

    def N(x):
        return ("V%s%s" % (x.upper(), P)) if inlib else "%s%s" % (P, x)
    tag = "\"%s var %s %s %s %s\"" % (P, form, use, where, effect)
    side = effect == "side"
    note = "println(%s, \"init\")\n\t" % tag if side else ""
    if form == "map-ok":
        D.append("var %s = map[string]int{\"k\": 7}\n" % N("m"))
        if side:
            D.append("func %s() string {\n\t%sreturn \"k\"\n}\n" % (N("key"), note))
        vs, rhs = [("a", "int"), ("b", "bool")], "%s[%s]" % (N("m"), N("key") + "()" if side else "\"k\"")
    elif form == "assert-ok":
        if side:
            D.append("func %s() interface{} {\n\t%sreturn 42\n}\n" % (N("mk"), note))
            rhs = "%s().(int)" % N("mk")
        else:
            D.append("var %s interface{} = 42\n" % N("i"))
            rhs = "%s.(int)" % N("i")
        vs = [("a", "int"), ("b", "bool")]
    elif form == "recv-ok":
        D.append("var %s = func() chan int {\n\t%sc := make(chan int, 1)\n\tc <- 9\n\treturn c\n}()\n" % (N("ch"), note))
        vs, rhs = [("a", "int"), ("b", "bool")], "<-%s" % N("ch")
    elif form == "call2":
        D.append("func %s() (int, string) {\n\t%sreturn 3, \"s\"\n}\n" % (N("f"), note))
        vs, rhs = [("a", "int"), ("b", "string")], "%s()" % N("f")
    elif form == "call3":
        D.append("func %s() (int, string, bool) {\n\t%sreturn 4, \"t\", true\n}\n" % (N("f"), note))
        vs, rhs = [("a", "int"), ("b", "string"), ("c", "bool")], "%s()" % N("f")
    else:
        if side:
            D.append("func %s(v int) int {\n\t%sreturn v\n}\n" % (N("eff"), note))
            rhs = "%s(11), \"p\"" % N("eff")
        else:
            rhs = "11, \"p\""
        vs = [("a", "int"), ("b", "string")]
    D.append("var %s = %s\n" % (", ".join(N(v) for v, _ in vs), rhs))
    used = {"first": vs[:1], "last": vs[-1:], "none": [], "all": vs}[use]
    if not used:
        return
    if where == "via-var":
        wr = {"int": "%s + 1", "bool": "!%s", "string": "%s + \"!\""}
        refs = []
        for v, ty in used:
            g.decls.append("var %sw%s = %s\n" % (P, v, wr[ty] % N(v)))
            refs.append("%sw%s" % (P, v))
        g.main.append("println(%s, %s)" % (tag, ", ".join(refs)))
    elif inlib:
        g.inits.append("println(%s, %s)" % (tag, ", ".join(q + N(v) for v, _ in used)))
    else:
        g.main.append("println(%s, %s)" % (tag, ", ".join(N(v) for v, _ in used)))


def chain_cell(g, variant, where):
    P = g.p()
    D = g.decls
    tag = "\"%s chain %s %s\"" % (P, variant, where)
    c1 = "%sc1" % P
    last = "%sc3" % P
    call = ""
    # declared in reverse order: initialisation order must follow the dependencies, not the source
    if variant == "via-closure":
        D.append("var %sc3 = func() int { return %sc2() - 1 }\n" % (P, P))
        D.append("var %sc2 = func() int { return %s * 2 }\n" % (P, c1))
        call = "()"
    elif variant == "via-composite":
        D.append("var %sc3 = len(%sc2) + %sc2[0]\n" % (P, P, P))
        D.append("var %sc2 = []int{%s, %s + 1}\n" % (P, c1, c1))
    elif variant == "via-func":
        D.append("var %sc3 = %sc2 - 1\n" % (P, P))
        D.append("var %sc2 = %sget() * 2\n" % (P, P))
        D.append("func %sget() int { return %s }\n" % (P, c1))
    elif variant == "via-method":
        D.append("var %sc3 = %sc2 - 1\n" % (P, P))
        D.append("var %sc2 = %sTc{}.get() * 2\n" % (P, P))
        D.append("type %sTc struct{}\n" % P)
        D.append("func (%sTc) get() int { return %s }\n" % (P, c1))
    else:
        D.append("var %sc3 = %sc2 - 1\n" % (P, P))
        D.append("var %sc2 = %s * 2\n" % (P, "lib.C1%s" % P if variant == "cross-pkg" else c1))
    if variant == "cross-pkg":
        g.lib_used = True
        g.lib.append("var C1%s = c0%s + 1\n" % (P, P))
        g.lib.append("var c0%s = 5\n" % P)
        g.lib.append("var Unused%s = c0%s + 100\n" % (P, P))
    else:
        D.append("var %s = %sc0 + 1\n" % (c1, P))
        if variant == "effect-base":
            D.append("var %sc0 = func() int {\n\tprintln(%s, \"init\")\n\treturn 5\n}()\n" % (P, tag))
        else:
            D.append("var %sc0 = 5\n" % P)
        D.append("var %sside = %sc0 + 100\n" % (P, P))          # never referenced, pure: eliminated
    if where == "via-var":
        D.append("var %sw = %s%s + 1000\n" % (P, last, call))
        g.main.append("println(%s, %sw)" % (tag, P))
    elif where == "init":
        g.inits.append("println(%s, %s%s)" % (tag, last, call))
    else:
        g.main.append("println(%s, %s%s)" % (tag, last, call))


def f_package_vars(g):
    rng = g.rng
    for _ in range(rng.randrange(1, 4)):
        if rng.random() < 0.25:
            c = ("chain", rng.choice(CHAIN_VARIANTS), rng.choice(CHAIN_WHERE))
            chain_cell(g, c[1], c[2])
        else:
            c = ("var", rng.choice(VAR_FORMS), rng.choice(VAR_USES), rng.choice(VAR_WHERE), rng.choice(VAR_EFFECT))
            var_cell(g, *c[1:])
        g.varcells.append(c)


def var_matrix_programs(rng, seed):
    cells = [("var", f, u, w, e) for f in VAR_FORMS for u in VAR_USES for w in VAR_WHERE for e in VAR_EFFECT]
    cells += [("chain", v, w) for v in CHAIN_VARIANTS for w in CHAIN_WHERE]
    rng.shuffle(cells)
    out = []
    for a in range(0, len(cells), 12):
        mod = "gvv%dx%d" % (seed, a // 12)
        g = Gen(rng, mod)
        for c in cells[a:a + 12]:
            if c[0] == "var":
                var_cell(g, *c[1:])
            else:
                chain_cell(g, *c[1:])
            g.varcells.append(c)
        g.features.append("package-vars")
        out.append((mod, g.build(), g.features, g.varcells))
    return out


FEATURES = [
    ("iface-exported", f_iface_exported), ("iface-unexported", f_iface_unexported), ("anon-iface-assert", f_anon_iface),
    ("method-value-expr", f_method_value), ("embedding", f_embedding), ("generic-func", f_generic_func),
    ("generic-type", f_generic_type), ("generic-constraint-method", f_generic_constraint), ("nested-type", f_nested_type),
    ("side-effect-var", f_side_effect_vars), ("linkname", f_linkname), ("cross-package", f_crosspkg),
    ("named-nonstruct", f_named_nonstruct), ("struct-fields", f_struct_fields), ("init-registry", f_init_registry),
    ("error-panic", f_error_panic), ("defer-go", f_defer_go), ("func-table", f_func_tables), ("signature-spellings", f_signatures),
    ("generic-signature", f_generic_signature), ("sole-reference", f_sole),
    ("package-vars", f_package_vars),
]


def gen_program(rng, mod, force=None):
    g = Gen(rng, mod)
    k = rng.randrange(2, 7)
    chosen = [rng.choice(FEATURES) for _ in range(k)]
    if force:
        chosen[0] = [f for f in FEATURES if f[0] == force][0]
    for name, fn in chosen:
        fn(g)
        g.features.append(name)
    return g.build(), g.features, g.cells + g.varcells


# --------------------------------------------------------------------------------------
# Fixed corpus: hand-written programs (the README examples and past regressions), always run first.
# --------------------------------------------------------------------------------------

CORPUS = {
    "readme-instance-duck-typing": """package main

type StringKeys[T any] map[string]T

func (sk StringKeys[T]) keys() []string {
	r := []string{}
	for k := range sk {
		r = append(r, k)
	}
	return r
}
func (sk StringKeys[T]) values() []T {
	r := []T{}
	for _, v := range sk {
		r = append(r, v)
	}
	return r
}

type IntProvider interface{ values() []int }

func sum(p IntProvider) int {
	s := 0
	for _, v := range p.values() {
		s += v
	}
	return s
}

func main() {
	sk := StringKeys[int]{"one": 1, "two": 2, "three": 3}
	println(sum(sk))
	sf := StringKeys[string]{"a": "x"}
	println(len(sf))
}
""",
    "readme-grandmas-and-zombies": """package main

type Foo struct{}

func (f Foo) Bar() int { return 42 }

type Baz interface{ Bar() int }

func call(v interface{}) int {
	if b, ok := v.(Baz); ok {
		return b.Bar()
	}
	return -1
}

func main() {
	println(call(Foo{}), call(3))
}
""",
    "seeded-iface-method-expr-sole-reference": """package main

// shape has only an unexported method, so it can be implemented solely by
// types of this package.
type shape interface {
	area() int
}

type square struct{ side int }

func (s square) area() int { return s.side * s.side }

type rect struct{ w, h int }

func (r *rect) area() int { return r.w * r.h }

// total receives the measuring function as a plain func value; the only place
// the area method is ever mentioned is the interface method expression in main.
func total(measure func(shape) int, shapes ...shape) int {
	sum := 0
	for _, s := range shapes {
		sum += measure(s)
	}
	return sum
}

func main() {
	measure := shape.area // method expression on an interface type
	println("square:", measure(square{side: 3}))
	println("rect:", measure(&rect{w: 2, h: 5}))
	println("total:", total(measure, square{side: 2}, &rect{w: 1, h: 7}, square{side: 1}))
}
""",
    "readme-side-effects": """package main

var count = 0

func next() int {
	count++
	println("next", count)
	return count
}

var a = next()
var unusedB = next()
var c = next()

func main() {
	println(a, c, count)
}
""",
}


# --------------------------------------------------------------------------------------

def classify(o):
    e = o[1]
    return e.split(":")[0] if e.startswith(("jserror", "panic", "compile-error")) else e


def run_batch(chk, jobs, meta, tier):
    """Run jobs through gvh_c05 + the Lean driver and account for all four ties. Returns number of behaviour failures."""
    lines = [json.dumps(j) for j in jobs]
    gopath = C.scratch("gvc05")
    try:
        p = C.run_gvh(["run", "-j", "8"], lines, name="gvh_c05", timeout=7200,
                      extra_env={"GOPATH": gopath, "GO111MODULE": "off", "GOFLAGS": "", "GOMAXPROCS": "8"})
    finally:
        shutil.rmtree(gopath, ignore_errors=True)
    if p.returncode != 0:
        raise RuntimeError("gvh_c05 failed: " + p.stderr[-3000:])
    results = [json.loads(l) for l in p.stdout.split("\n") if l.strip()]
    if len(results) != len(jobs):
        raise RuntimeError("gvh_c05 answered %d results for %d jobs" % (len(results), len(jobs)))
    # a run that hit the time limit (loaded machine) is repeated alone with a generous limit before it is judged
    slow = [i for i, r in enumerate(results) if any(v.get("class") == "timeout" for v in r["runs"].values())]
    if slow:
        chk.count("rerun-after-timeout", len(slow))
        gopath = C.scratch("gvc05")
        try:
            p = C.run_gvh(["run", "-j", "2"], [json.dumps(dict(jobs[i], timeout=180)) for i in slow], name="gvh_c05", timeout=7200,
                          extra_env={"GOPATH": gopath, "GO111MODULE": "off", "GOFLAGS": ""})
        finally:
            shutil.rmtree(gopath, ignore_errors=True)
        if p.returncode != 0:
            raise RuntimeError("gvh_c05 failed: " + p.stderr[-3000:])
        again = [json.loads(l) for l in p.stdout.split("\n") if l.strip()]
        for i, r in zip(slow, again):
            results[i] = r
    # Lean side: for every program the model under the real order/discipline, under other orders/disciplines, and the
    # work-list-free fixed point.
    ops, owner = [], []
    for i, r in enumerate(results):
        if r.get("err"):
            continue
        ml = r["model_line"]
        variants = ["fwd lifo"] + ["%s %s" % (chk.rng.choice(ORDERS), chk.rng.choice(PICKS)) for _ in range(2)]
        for v in variants:
            ops.append(ml.replace("dce select fwd lifo", "dce select " + v, 1))
            owner.append((i, "select " + v))
        ops.append(ml.replace("dce select fwd lifo", "dce lfp", 1))
        owner.append((i, "lfp"))
    answers = C.run_driver("C05", ops) if ops else []
    per = {}
    for (i, what), a in zip(owner, answers):
        per.setdefault(i, []).append((what, a))
    failures = 0
    for i, r in enumerate(results):
        files, feats, cells = meta[i]
        fkey = "+".join(sorted(set(feats)))
        op = "program %s features=%s" % (r["id"], ",".join(feats))
        native = r["runs"].get("native")
        on = progs.observe_native(native) if native else None
        if r.get("err"):
            if on is not None and not on[1].startswith("compile-error"):
                # valid Go that the GopherJS pipeline rejects: not a DCE matter, but the program could not be checked
                chk.add_tie_break("compile", op, r["err"][:300], "compiles natively")
                chk.notes.append({"program": files, "error": r["err"][:600]})
                continue
            raise RuntimeError("generator produced an invalid program (%s): %s\n%s" % (op, r["err"][:600], files.get("main.go")))
        if on is not None and on[1].startswith("compile-error"):
            raise RuntimeError("generated program does not build natively (%s): %s\n%s" % (op, on[1], files.get("main.go")))
        # --- tie: selector -----------------------------------------------------------------------------
        real = r["selected_line"]
        ans = per[i]
        model = ans[0][1]
        for what, a in ans[1:]:
            if a != model:
                raise RuntimeError("Lean driver: `%s` differs from `select fwd lifo` on %s — contradicts the proved theorems" % (what, op))
        nontriv = r["nmain_dead"] > 0
        for f in set(feats):
            chk.count("feature:" + f)
        chk.count("decls:%s" % ("<250" if r["ndecls"] < 250 else "<400" if r["ndecls"] < 400 else ">=400"))
        chk.count("two-filter-decls:%s" % ("0" if r["ntwofilter"] == 0 else "1-9" if r["ntwofilter"] < 10 else ">=10"))
        chk.count("linkname-roots:%s" % ("0" if r["nlink"] == 0 else ">0"))
        chk.add_case("selector", op, nontrivial=nontriv, sample={
            "tie": "selector", "op": op, "decls": r["ndecls"], "selected_real": r["nselected"],
            "user_decls": r["nmain"], "user_decls_eliminated": r["nmain_dead"], "equal": real == model})
        chk.evaluations += len(ans) - 1
        if real != model:
            rs, ms = set(real.split(",")), set(model.split(","))
            chk.add_tie_break("selector", op, "only-real=%s" % sorted(rs - ms)[:10], "only-model=%s" % sorted(ms - rs)[:10])
            chk.notes.append({"selector-break": op, "program": files})
        # --- tie: emission / closure ---------------------------------------------------------------------
        if r.get("emission_bad"):
            chk.add_tie_break("emission", op, "packages whose emitted code is not WritePkgCode(selection): %s" % r["emission_bad"], "equal")
        chk.extra["closure_refs_checked"] = chk.extra.get("closure_refs_checked", 0) + r.get("closure_refs", 0)
        mr = chk.extra.setdefault("method_name_refs_checked", {})
        for k, v in (r.get("method_refs") or {}).items():
            mr[k] = mr.get(k, 0) + v
        mat = chk.extra.setdefault("sole_reference_matrix", {k: {"unexp-val": 0, "unexp-ptr": 0, "exp-val": 0, "exp-ptr": 0} for k in SOLE_KINDS})
        vmat = chk.extra.setdefault("package_var_matrix", {f: {} for f in VAR_FORMS})
        cmat = chk.extra.setdefault("package_var_chain_matrix", {v: {w: 0 for w in CHAIN_WHERE} for v in CHAIN_VARIANTS})
        for c in cells:
            if c[0] == "var":
                key = "used=%s from=%s init=%s" % (c[2], c[3], c[4])
                vmat[c[1]][key] = vmat[c[1]].get(key, 0) + 1
            elif c[0] == "chain":
                cmat[c[1]][c[2]] += 1
            else:
                kind, exported, ptr = c
                mat[kind]["%s-%s" % ("exp" if exported else "unexp", "ptr" if ptr else "val")] += 1
        closure_bad = r.get("closure_bad") or []
        # --- tie: behaviour (the property) --------------------------------------------------------------
        op_ = progs.observe_js(r["runs"]["plain"])
        oa = progs.observe_js(r["runs"]["allalive"])
        chk.add_case("behaviour", op, nontrivial=nontriv, kindkey="ending:" + classify(op_))
        bad = None
        if op_[1].startswith("compile-error") or oa[1].startswith("compile-error"):
            raise RuntimeError("link failed on %s: %s / %s" % (op, op_[1], oa[1]))
        if op_ != oa:
            bad = ("dce-vs-allalive", op_, oa)
        elif op_[1].startswith("jserror"):
            bad = ("jserror", op_, oa)
        elif on is not None and op_ != on:
            bad = ("js-vs-native", op_, on)
        if bad:
            failures += 1
            chk.extra.setdefault("_failed_cells", set()).update(cells)
            kind, x, y = bad
            sig = "C05 %s features=%s ending=%s" % (kind, fkey, classify(x))
            chk.add_mismatch("behaviour", json.dumps({"program": files, "mod": jobs[i].get("mod", ""), "features": feats, "kind": kind,
                                                      "closure_scan": closure_bad[:5]}),
                             json.dumps({"trace": x[0][-30:], "ending": x[1]}),
                             json.dumps({"trace": y[0][-30:], "ending": y[1]}), signature=sig)
        if closure_bad and not bad:
            chk.add_tie_break("closure", op, closure_bad[:5], "every reference resolves to a selected declaration")
            chk.notes.append({"closure-break": op, "program": files, "refs": closure_bad[:10]})
    return failures


def run(tier, seed):
    chk = C.Check("C05", tier, seed)
    nprog = 50 if tier == "quick" else 1100
    chk.rule = ("programs = random compositions (2-6 features each, seeded) of 22 feature generators that reach code only "
                "through interfaces (exported/unexported/same-named methods), anonymous interfaces and assertions, method "
                "values/expressions, embedding, generic functions/types/constraint methods, types nested in functions and "
                "methods, side-effecting package variable initialisers, go:linkname (function and method forms), a second "
                "package, named non-struct types, struct field types, init() registries, error/panic values, defer/go "
                "method calls, function tables and unexported methods with composite signature spellings (also on generic "
                "receivers); each feature also declares unreachable code. %d generated programs + %d "
                "corpus programs; every program is built once and its archives (all packages incl. runtime) feed all four ties; "
                "a program is non-trivial when DCE eliminates at least one declaration of the user packages. In addition the "
                "SOLE-REFERENCE MATRIX: 19 ways of reaching a method (call / method value / method expression on interface, "
                "anonymous interface and concrete types, promotion through embedding, generic constraint, assertion, defer, go, "
                "generic receivers) x exported/unexported x value/pointer receiver; in each cell that reference is the ONLY mention "
                "of the method name in the program; all 76 cells are generated in every run (matrix programs, 6 cells each) and "
                "again at random inside compositions; failing matrix programs are shrunk to single-cell programs. PACKAGE-VARIABLE "
                "MATRIX: multi-variable declarations (map/assertion/receive comma-ok, 2- and 3-result calls, parallel values) x "
                "which variables are referenced (first/last/none/all) x from main / from another package's init / only through "
                "another variable's initializer x pure/side-effecting initializer (144 cells), plus chains of single-variable "
                "declarations (7 dependency forms x 3 reference sites); every cell in every run (12 cells per program)"
                % (nprog, len(CORPUS)))
    chk.trusted = ["Lean 4.33 kernel; axioms per theorem listed (subset of propext, Classical.choice, Quot.sound)",
                   "hand-written model GV.Model.Dce of selector.go, tied on every run to the real dce.Selector via "
                   "/repo/compiler/verif_hooks_c05.go on complete declaration tables of real programs",
                   "parser of (*dce.Info).String() in harness/internal/c05 (bracket-aware split, checked against sortedness)",
                   "Node 20 and the native Go toolchain as execution oracles",
                   "GV.Model.DceNames (filter-name grammar at token level) is a reading of filters.go; it is NOT tied to the code by a "
                   "run (atoms indivisible; struct/interface/union types not modelled)"]
    chk.assumptions = ["completeness of dependency RECORDING in the translator (DeclareDCEDep call sites) and of the filter "
                       "naming (filters.go) is NOT proved: it is what the behaviour tie and the artefact closure scan test",
                       "names are interned before they reach the Lean driver (justified at model level by theorem select_renaming: "
                       "the selection commutes with every injective renaming that keeps the empty name)",
                       "the hook repeats the inclusion loop of WriteProgramCode (compiler.go:141-156); the emission tie checks "
                       "that the real linker output equals WritePkgCode over the hook's selection"]
    chk.proof = C.check_proofs("C05", THEOREMS, tier)
    C.build_gvh("gvh_c05")

    jobs, meta = [], []
    for name, src in sorted(CORPUS.items()):
        jobs.append({"id": "corpus-" + name, "files": {"main.go": src}, "native": True})
        meta.append(({"main.go": src}, ["corpus:" + name], []))
    # the sole-reference matrix: every (reference kind x exportedness x receiver kind) cell, in every run
    nmatrix = 0
    for rep in range(1 if tier == "quick" else 4):
        for mod, files, feats, cells in matrix_programs(chk.rng, seed * 10 + rep):
            jobs.append({"id": "m%d-%s" % (seed, mod), "mod": mod, "files": files, "native": chk.rng.random() < 0.35, "timeout": 60})
            meta.append((files, feats, cells))
            nmatrix += 1
    for rep in range(1 if tier == "quick" else 3):
        for mod, files, feats, cells in var_matrix_programs(chk.rng, seed * 10 + rep):
            jobs.append({"id": "v%d-%s" % (seed, mod), "mod": mod, "files": files, "native": chk.rng.random() < 0.35, "timeout": 60})
            meta.append((files, feats, cells))
            nmatrix += 1
    for i in range(nprog):
        mod = "gvp%dx%d" % (seed, i)
        files, feats, cells = gen_program(chk.rng, mod, force=FEATURES[i % len(FEATURES)][0] if i < 2 * len(FEATURES) else None)
        jobs.append({"id": "g%d-%d" % (seed, i), "mod": mod, "files": files, "native": chk.rng.random() < NATIVE_FRACTION, "timeout": 60})
        meta.append((files, feats, cells))
    failures = 0
    step = 30 if tier == "quick" else 120
    budget = 110 if tier == "quick" else 1080      # seconds for the main program phase (the machine may be loaded)
    t0 = time.time()
    done = 0
    for a in range(0, len(jobs), step):
        failures += run_batch(chk, jobs[a:a + step], meta[a:a + step], tier)
        done = min(len(jobs), a + step)
        if time.time() - t0 > budget and done >= len(CORPUS) + nmatrix + 2 * len(FEATURES):
            break
    failed_cells = sorted(chk.extra.pop("_failed_cells", set()), key=repr)
    if failed_cells:
        # shrink: every sole-reference cell of a failing program again, alone in its own program
        jobs1, meta1 = [], []
        for n, c in enumerate(failed_cells[:120]):
            mod = "gvc%dx%d" % (seed, n)
            g = Gen(chk.rng, mod)
            if c[0] == "var":
                var_cell(g, *c[1:])
                g.features.append("var:" + ":".join(c[1:]))
            elif c[0] == "chain":
                chain_cell(g, *c[1:])
                g.features.append("chain:" + ":".join(c[1:]))
            else:
                k, e, p_ = c
                sole_cell(g, k, e, p_)
                g.features.append("sole:%s:%s:%s" % (k, "exp" if e else "unexp", "ptr" if p_ else "val"))
            jobs1.append({"id": "c%d-%d" % (seed, n), "mod": mod, "files": g.build(), "native": False, "timeout": 60})
            meta1.append((jobs1[-1]["files"], g.features, []))
        before = len(chk.mismatches)
        run_batch(chk, jobs1, meta1, tier)
        chk.extra.pop("_failed_cells", None)
        chk.extra["failing_cells"] = sorted(set(
            json.loads(m["op"])["features"][0] for m in chk.mismatches[before:]))
        # smallest failing inputs first in the replay
        chk.mismatches = chk.mismatches[before:] + chk.mismatches[:before]
    chk.extra["generator_audit"] = GENERATOR_AUDIT
    chk.extra["programs"] = done
    chk.extra["programs_planned"] = len(jobs)
    chk.extra["stopped_on_time_budget"] = done < len(jobs)
    if chk.tie_breaks and not failures:
        # an internal tie broke (model, emission or closure no longer describes the code): search harder for an
        # input on which the property itself fails — more programs, each forced to contain the affected features.
        C.log("[C05] internal tie broken (%s): widening the search" % sorted(chk.tie_breaks))
        hot = set()
        for lst in chk.tie_breaks.values():
            for b in lst:
                m = re.search(r"features=(\S+)", b["op"])
                if m:
                    hot.update(f for f in m.group(1).split(",") if not f.startswith("corpus"))
        hot = sorted(hot) or [f[0] for f in FEATURES]
        extra_n = 600 if tier == "quick" else 1500
        jobs2, meta2 = [], []
        for i in range(extra_n):
            mod = "gvs%dx%d" % (seed, i)
            files, feats, cells = gen_program(chk.rng, mod, force=hot[i % len(hot)])
            jobs2.append({"id": "s%d-%d" % (seed, i), "mod": mod, "files": files, "native": chk.rng.random() < NATIVE_FRACTION, "timeout": 60})
            meta2.append((files, feats, cells))
        t1 = time.time()
        ran = 0
        for a in range(0, len(jobs2), step):
            failures += run_batch(chk, jobs2[a:a + step], meta2[a:a + step], tier)
            ran = min(len(jobs2), a + step)
            if failures or time.time() - t1 > (240 if tier == "quick" else 900):
                break
        chk.extra["search_programs"] = ran
    chk.extra.pop("_failed_cells", None)
    return chk.finish()


def replay(path):
    rep = json.load(open(path))
    C.build_gvh("gvh_c05")
    bad = 0
    for m in rep.get("failing_inputs", []):
        prog = json.loads(m["op"])
        gopath = C.scratch("gvc05")
        try:
            p = C.run_gvh(["run", "-j", "1"], [json.dumps({"id": "replay", "mod": prog.get("mod", ""), "files": prog["program"], "native": True})],
                          name="gvh_c05", extra_env={"GOPATH": gopath, "GO111MODULE": "off", "GOFLAGS": ""})
        finally:
            shutil.rmtree(gopath, ignore_errors=True)
        r = json.loads(p.stdout)
        op_ = progs.observe_js(r["runs"]["plain"])
        oa = progs.observe_js(r["runs"]["allalive"])
        on = progs.observe_native(r["runs"]["native"])
        print("features:", prog.get("features"), "\n  dce     :", op_, "\n  allalive:", oa, "\n  native  :", on)
        bad += not (op_ == oa == on)
    if not rep.get("failing_inputs"):
        print("no failing input recorded; broken obligations:", json.dumps(rep.get("broken_obligations"), indent=1)[:3000])
        return 1
    return 1 if bad else 0
