"""C14 — strings are byte sequences with Go's UTF-8 behaviour.
Proof: GV.Props.C14 (prelude decode/encode = Unicode Table 3-7 + Go's U+FFFD rule, round trip).
Tie: the real prelude functions under Node vs the Lean driver, exhaustive over a boundary alphabet."""
import itertools
import json
from . import common as C

ALPHABET = [0x00, 0x7F, 0x80, 0xBF, 0xC0, 0xC1, 0xC2, 0xDF, 0xE0, 0xED, 0xEF, 0xF0, 0xF4, 0xF5, 0xFF, 0x9F, 0xA0, 0x8F, 0x90]
THEOREMS = ["literal_roundtrip", "literal_ascii", "runes_spec", "runesToString_spec", "index_spec", "index_in_range",
            "substring_spec", "substringOpen_spec", "bytesToString_chunk_spec", "bytesToString_spec", "stringToBytes_spec", "decode_spec", "decode_width", "range_spec", "encode_spec", "spec_decode_encode", "decode_encode",
            "encode_nonscalar", "core_specO", "intToString_spec", "flatten64_words", "flatten64_margin",
            "old_conversion_counterexample"]
RUNE_BOUNDS = [0, 0x7F, 0x80, 0x7FF, 0x800, 0xD7FF, 0xD800, 0xDFFF, 0xE000, 0xFFFD, 0xFFFF, 0x10000, 0x10FFFF, 0x110000,
               0x7FFFFFFF, -1, -0x80000000]


def rand_valid(rng):
    r = rng.choice([rng.randrange(0, 0x80), rng.randrange(0x80, 0x800), rng.randrange(0x800, 0xD800),
                    rng.randrange(0xE000, 0x10000), rng.randrange(0x10000, 0x110000)])
    return list(chr(r).encode("utf-8"))


def rand_string(rng, maxlen):
    out = []
    while len(out) < maxlen and rng.random() < 0.9:
        k = rng.random()
        if k < 0.5:
            out += rand_valid(rng)
        elif k < 0.8:
            out.append(rng.choice(ALPHABET))
        elif k < 0.9:
            v = rand_valid(rng)
            out += v[:rng.randrange(0, len(v) + 1)]      # truncated sequence
        else:
            out.append(rng.randrange(256))
    return out[:maxlen]


def gen_ops(tier, rng):
    ops = []
    maxlen = 4 if tier == "thorough" else 3
    for n in range(0, maxlen + 1):
        for s in itertools.product(ALPHABET, repeat=n):
            h = C.hexs(s)
            for pos in range(0, n + 1):
                ops.append("utf8 decode %s %d" % (h, pos))
            if n <= 3:
                ops.append("utf8 runes %s" % h)
                ops.append("utf8 range %s" % h)
    nrand = 40000 if tier == "thorough" else 4000
    for _ in range(nrand):
        s = rand_string(rng, rng.choice([4, 5, 8, 16, 40]))
        h = C.hexs(s)
        ops.append("utf8 decode %s %d" % (h, rng.randrange(0, len(s) + 2)))
        ops.append("utf8 runes %s" % h)
        ops.append("utf8 range %s" % h)
        lo = rng.randrange(-1, len(s) + 2)
        hi = rng.randrange(-1, len(s) + 2)
        ops.append("utf8 substring %s %d %d" % (h, lo, hi))
        ops.append("utf8 substringopen %s %d" % (h, lo))
        ops.append("utf8 copy %d %s" % (rng.randrange(0, len(s) + 3), h))
    # all slice index pairs of a few strings
    for s in ([], [0x61], [0x61, 0xE2, 0x82, 0xAC], [0xFF, 0x00, 0x80, 0x7F, 0xC2]):
        for lo in range(-1, len(s) + 2):
            for hi in range(-1, len(s) + 2):
                ops.append("utf8 substring %s %d %d" % (C.hexs(s), lo, hi))
    runes = set()
    for b in RUNE_BOUNDS:
        for d in (-2, -1, 0, 1, 2):
            runes.add(b + d)
    for _ in range(20000 if tier == "thorough" else 3000):
        runes.add(rng.choice([rng.randrange(-5, 0x110010), rng.randrange(-2 ** 31, 2 ** 31)]))
    if tier == "thorough":
        runes.update(range(0, 0x110000, 7))
    for r in sorted(x for x in runes if -2 ** 31 <= x < 2 ** 31):
        ops.append("utf8 encode %d" % r)
    for _ in range(3000 if tier == "thorough" else 500):
        rs = [rng.choice([rng.randrange(0, 0x110000), rng.choice(RUNE_BOUNDS), rng.randrange(-3, 300)]) for _ in range(rng.randrange(0, 8))]
        rs = [r for r in rs if -2 ** 31 <= r < 2 ** 31]
        ops.append("utf8 fromrunes %s" % (",".join(map(str, rs)) if rs else "-"))
    return ops


# contents that a source-level pass over the emitted JavaScript (the -m whitespace/comment stripper) would damage if it ever
# lost track of where string literals begin and end: trailing / doubled backslashes, quotes, blank runs, comment markers
MINIFY_SENSITIVE = [b"C:\\", b"\\", b"a\\", b"\\\\", b"x  y", b" ,  ; ", b"/* c */", b"a /* b */ c", b"// d", b"  ", b" = ", b"{ }", b"( )",
                    b"\"", b"\\\"", b"\"\\", b"a\" + \"b", b"'", b"\t\t", b" \n ", b"if (x) { y }", b"return  1;", b"$a  $b",
                    b"tail\\", b"  lead", b"a   b   c", b"/*", b"*/", b"\\n", b"`x  y`", b"q\\\"  z"]


def minify_sensitive(rng, k):
    """k strings: pairs (ends in backslash / quote) followed by (blank runs / comment markers), shuffled lightly"""
    out = []
    for _ in range(k):
        out.append(list(rng.choice(MINIFY_SENSITIVE)))
    return out


def go_lit(bs):
    return '"' + "".join("\\x%02x" % b for b in bs) + '"'


PROG_TMPL = r"""package main

var strs = []string{
%(strs)s
}

var runes = []int32{%(runes)s}

func hash(h uint32, x int) uint32 { return (h * 16777619) ^ uint32(x) }

func classify(s string) int {
	switch s {
	case "":
		return 1
	case "abc", "ÿ":
		return 2
	case strs[1]:
		return 3
	}
	return 0
}

func main() {
	m := map[string]int{}
	for i, s := range strs {
		h := uint32(2166136261)
		h = hash(h, len(s))
		for j := 0; j < len(s); j++ {
			h = hash(h, int(s[j]))
		}
		for j, r := range s {
			h = hash(h, j)
			h = hash(h, int(r))
		}
		for j := range s { // index only: must advance exactly like the rune-binding form
			h = hash(h, j+1000)
		}
		for j, _ := range s {
			h = hash(h, j+2000)
		}
		nr := 0
		for range s {
			nr++
		}
		h = hash(h, nr)
		for _, r := range s {
			h = hash(h, int(r)+7)
		}
		rs := []rune(s)
		h = hash(h, len(rs))
		for _, r := range rs {
			h = hash(h, int(r))
		}
		s2 := string(rs)
		h = hash(h, len(s2))
		for j := 0; j < len(s2); j++ {
			h = hash(h, int(s2[j]))
		}
		bs := []byte(s)
		if string(bs) != s {
			h = hash(h, 99999)
		}
		for lo := 0; lo <= len(s); lo++ {
			for hi := lo; hi <= len(s); hi++ {
				t := s[lo:hi]
				h = hash(h, len(t))
				if len(t) > 0 {
					h = hash(h, int(t[len(t)-1]))
				}
				for _, r := range t {
					h = hash(h, int(r))
				}
			}
		}
		for _, t := range strs {
			c := 0
			if s < t {
				c = 1
			} else if s == t {
				c = 2
			}
			if s >= t {
				c += 4
			}
			h = hash(h, c)
		}
		u := s + strs[(i+1)%%len(strs)] + ""
		h = hash(h, len(u))
		h = hash(h, int(u[len(u)-1]))
		m[s]++
		h = hash(h, m[s])
		buf := make([]byte, 3)
		n := copy(buf, s)
		h = hash(h, n)
		h = hash(h, int(buf[0])+int(buf[2]))
		ab := append([]byte("x"), s...)
		h = hash(h, len(ab))
		h = hash(h, int(ab[len(ab)-1]))
		h = hash(h, classify(s))
		println(i, h)
	}
	println(len(m))
	for _, r := range runes {
		s := string(rune(r))
		h := uint32(len(s))
		for j := 0; j < len(s); j++ {
			h = hash(h, int(s[j]))
		}
		println(r, h)
	}
	// slice bounds panics
	for _, s := range strs[:8] {
		for _, ix := range [][2]int{{0, len(s) + 1}, {len(s) + 1, len(s) + 1}, {2, 1}, {-1, 0}} {
			func() {
				defer func() {
					if recover() != nil {
						println("slice-panic")
					}
				}()
				lo, hi := ix[0], ix[1]
				println(len(s[lo:hi]))
			}()
		}
	}
}
"""

INDEX_PROBE = r"""package main

func main() {
	s := "abc"
	for _, i := range []int{0, 2, 3, 7, -1} {
		func() {
			defer func() {
				if recover() != nil {
					println(i, "index-panic")
				}
			}()
			println(i, s[i])
		}()
	}
}
"""


# --- constant operands: the compiler folds / special-cases operations on constant strings -----------------------------
def go_lit_varied(rng, bs):
    """the same byte string written with a mix of literal syntaxes (hex, octal, u/U escapes, raw UTF-8 text, simple escapes)"""
    out, i = [], 0
    bs = bytes(bs)
    while i < len(bs):
        ch = None
        for n in (1, 2, 3, 4):
            try:
                t = bs[i:i + n].decode("utf-8")
                if len(t) == 1:
                    ch = (t, n)
                    break
            except UnicodeDecodeError:
                continue
        if ch and rng.random() < 0.6:
            c, n = ch
            cp = ord(c)
            form = rng.choice(["u", "raw", "x"])
            if form == "raw" and (0x20 <= cp < 0x7F and c not in '"\\' or cp >= 0xA0 and cp not in (0xFEFF,) and not (0xD800 <= cp <= 0xDFFF) and c.isprintable()):
                out.append(c)
                i += n
                continue
            if form == "u":
                out.append("\\u%04x" % cp if cp < 0x10000 else "\\U%08x" % cp)
                i += n
                continue
        b = bs[i]
        simple = {7: "\\a", 8: "\\b", 12: "\\f", 10: "\\n", 13: "\\r", 9: "\\t", 11: "\\v", 92: "\\\\", 34: "\\\""}
        if b in simple and rng.random() < 0.5:
            out.append(simple[b])
        elif rng.random() < 0.3:
            out.append("\\%03o" % b)
        else:
            out.append("\\x%02x" % b)
        i += 1
    return '"' + "".join(out) + '"'


def const_program(rng, nconst):
    consts, seen = [], set()
    pool = [[], [0x61], [0xFF], [0xC3, 0xA9], [0xE2, 0x82, 0xAC], [0xF0, 0x9F, 0x98, 0x80], [0xED, 0xA0, 0x80], [0xC0, 0x80], [0x00],
            [0x22, 0x5C, 0x0A], [0x61, 0xCC, 0x81], [0xEF, 0xBF, 0xBD], [0xF4, 0x90, 0x80, 0x80], [0xE2, 0x82], [0x7F, 0x80]]
    while len(consts) < nconst:
        c = pool[len(consts)] if len(consts) < len(pool) and rng.random() < 0.7 else rand_string(rng, rng.choice([1, 2, 3, 5, 8]))
        if rng.random() < 0.45:
            c = list(rng.choice(MINIFY_SENSITIVE))
        if tuple(c) in seen:
            continue
        seen.add(tuple(c))
        consts.append(list(c))
    L = ["package main\n", "func hash(h uint32, x int) uint32 { return (h * 16777619) ^ uint32(x) }\n",
         "func dump(tag string, k int, s string) {\n\th := uint32(2166136261)\n\tfor i := 0; i < len(s); i++ {\n\t\th = hash(h, int(s[i]))\n\t}\n"
         "\tprintln(tag, k, len(s), h)\n}\n", "const (\n"]
    for k, c in enumerate(consts):
        L.append("\tc%d = %s\n" % (k, go_lit_varied(rng, c)))
    L.append(")\n\nvar (\n")
    for k in range(len(consts)):
        L.append("\tv%d = c%d\n" % (k, k))
    L.append(")\n\nfunc which(s string) int {\n\tswitch s {\n")
    for k in range(len(consts)):
        L.append("\tcase c%d:\n\t\treturn %d\n" % (k, k))
    L.append("\t}\n\treturn -1\n}\n\nvar keyed = map[string]int{")
    L.append(", ".join("c%d: %d" % (k, k + 100) for k in range(len(consts))))
    L.append("}\n\nfunc main() {\n\tbuf := make([]byte, 4)\n")
    for k, c in enumerate(consts):
        n = len(c)
        L.append("\tprintln(\"len\", %d, len(c%d), len(v%d))\n\tdump(\"c\", %d, c%d)\n\tdump(\"v\", %d, v%d)\n" % (k, k, k, k, k, k, k))
        idx = sorted({0, n - 1, rng.randrange(n)}) if n else []
        for i in idx:
            L.append("\tprintln(\"idx\", %d, %d, int(c%d[%d]), int(v%d[%d]))\n" % (k, i, k, i, k, i))
        for _ in range(3):
            a = rng.randrange(0, n + 1)
            b = rng.randrange(a, n + 1)
            L.append("\tdump(\"sl%d_%d\", %d, c%d[%d:%d])\n" % (a, b, k, k, a, b))
        L.append("\tdump(\"slo\", %d, c%d[%d:])\n\tdump(\"slh\", %d, c%d[:%d])\n" % (k, k, rng.randrange(0, n + 1), k, k, rng.randrange(0, n + 1)))
        L.append("\tfor i, r := range c%d {\n\t\tprintln(\"rg\", %d, i, r)\n\t}\n" % (k, k))
        L.append("\tfor i := range c%d {\n\t\tprintln(\"ri\", %d, i)\n\t}\n" % (k, k))
        L.append("\tdump(\"rs\", %d, string([]rune(c%d)))\n\tprintln(\"nr\", %d, len([]rune(c%d)), len([]byte(c%d)))\n" % (k, k, k, k, k))
        L.append("\tdump(\"bs\", %d, string([]byte(c%d)))\n" % (k, k))
        L.append("\tprintln(\"sw\", %d, which(v%d), which(c%d), keyed[v%d], keyed[c%d])\n" % (k, k, k, k, k))
        L.append("\tprintln(\"cp\", %d, copy(buf, c%d), int(buf[0]), len(append([]byte(\"x\"), c%d...)))\n" % (k, k, k))
        for j in rng.sample(range(len(consts)), 3):
            L.append("\tprintln(\"cmp\", %d, %d, c%d == c%d, c%d < c%d, c%d >= c%d, v%d == c%d, c%d < v%d, c%d != v%d)\n"
                     % (k, j, k, j, k, j, k, j, k, j, k, j, k, j))
            L.append("\tdump(\"cat\", %d, c%d+c%d)\n\tdump(\"catv\", %d, c%d+v%d)\n" % (k, k, j, k, k, j))
        L.append("\tprintln(\"empty\", %d, c%d == \"\", v%d == \"\", len(c%d) == 0, c%d != \"\")\n" % (k, k, k, k, k))
    for r in sorted({b + d for b in RUNE_BOUNDS for d in (-1, 0, 1) if -2 ** 31 <= b + d < 2 ** 31} | {rng.randrange(0, 0x110000) for _ in range(8)}):
        L.append("\tdump(\"rc\", %d, string(rune(%d)))\n" % (r % 1000003, r))
    L.append("\tprintln(len(keyed))\n}\n")
    return "".join(L)


def program_tie(chk, tier):
    """Compiled table-driven string programs: GopherJS under Node (plain and minified) vs native Go."""
    from . import progs
    jobs = []
    nprog = 12 if tier == "thorough" else 3
    for k in range(nprog):
        strs = [[], [0x61, 0x62, 0x63], [0xFF]]
        for _ in range(60):
            strs.append(rand_string(chk.rng, chk.rng.choice([1, 2, 3, 4, 6, 9])))
        for n in (1, 2, 3):
            for _ in range(12):
                strs.append([chk.rng.choice(ALPHABET) for _ in range(n)])
        ms = minify_sensitive(chk.rng, 24)
        for x in ms:
            strs.insert(chk.rng.randrange(3, len(strs) + 1), x)
        runes = sorted({b + d for b in RUNE_BOUNDS for d in (-1, 0, 1) if -2 ** 31 <= b + d < 2 ** 31} |
                       {chk.rng.randrange(0, 0x110000) for _ in range(30)})
        src = PROG_TMPL % {"strs": "\n".join("\t" + go_lit(x) + "," for x in strs), "runes": ", ".join(map(str, runes))}
        jobs.append({"id": "str%d" % k, "files": {"main.go": src}, "variants": ["plain", "minify"], "native": True, "timeout": 60})
    for k in range(4 if tier == "thorough" else 1):
        jobs.append({"id": "const%d" % k, "files": {"main.go": const_program(chk.rng, 18)}, "variants": ["plain", "minify"],
                     "native": True, "timeout": 60})
    jobs.append({"id": "index", "files": {"main.go": INDEX_PROBE}, "variants": ["plain"], "native": True})
    res = progs.run_jobs(jobs, par=4)
    for j, r in zip(jobs, res):
        nat = progs.observe_native(r["runs"]["native"])
        if nat[1].startswith("compile-error"):
            raise RuntimeError("generated program does not build natively: " + nat[1])
        for v in j["variants"]:
            obs = progs.observe_js(r["runs"][v])
            ncases = max(1, len(nat[0]))
            for _ in range(ncases):
                chk.evaluations += 1
            chk.distinct.add(("prog", j["id"], v, chk.seed).__repr__().encode()[:16])
            chk.count("program:%s:%s" % (v, "index" if j["id"] == "index" else ("const" if j["id"].startswith("const") else "table")))
            if obs != nat:
                # first differing line
                d = next((i for i, (a, b) in enumerate(zip(obs[0], nat[0])) if a != b), min(len(obs[0]), len(nat[0])))
                sig = None
                if j["id"] == "index" and obs[1] == nat[1]:
                    gl = [l for l in obs[0] if l not in nat[0]]
                    if all(not l.endswith("index-panic") for l in gl):
                        sig = "C14 string-index-out-of-range no-panic"
                chk.add_mismatch("program:" + v, json.dumps({"id": j["id"], "line": d, "source": j["files"]["main.go"][:3000]}),
                                 impl=json.dumps([obs[0][d:d + 3], obs[1]]), spec=json.dumps([nat[0][d:d + 3], nat[1]]), signature=sig)
    chk.extra["programs"] = len(jobs)


# --- string(x) for integer operands of every kind ---------------------------------------------------------------
INT_KINDS = {  # Go type -> (underlying kind, lo, hi)
    "int8": ("int8", -2 ** 7, 2 ** 7 - 1), "int16": ("int16", -2 ** 15, 2 ** 15 - 1), "int32": ("int32", -2 ** 31, 2 ** 31 - 1),
    "int64": ("int64", -2 ** 63, 2 ** 63 - 1), "uint8": ("uint8", 0, 2 ** 8 - 1), "uint16": ("uint16", 0, 2 ** 16 - 1),
    "uint32": ("uint32", 0, 2 ** 32 - 1), "uint64": ("uint64", 0, 2 ** 64 - 1), "int": ("int", -2 ** 31, 2 ** 31 - 1),
    "uint": ("uint", 0, 2 ** 32 - 1), "uintptr": ("uintptr", 0, 2 ** 32 - 1), "byte": ("uint8", 0, 255),
    "rune": ("int32", -2 ** 31, 2 ** 31 - 1), "nU8": ("uint8", 0, 255), "nI64": ("int64", -2 ** 63, 2 ** 63 - 1),
    "nU": ("uint", 0, 2 ** 32 - 1), "nR": ("int32", -2 ** 31, 2 ** 31 - 1), "nU64": ("uint64", 0, 2 ** 64 - 1),
    "nI16": ("int16", -2 ** 15, 2 ** 15 - 1),
}
CONV_BOUNDS = [0, 1, 0x41, 0x7F, 0x80, 0xA9, 0xE9, 0xFF, 0x100, 0x7FF, 0x800, 0x20AC, 0xD7FF, 0xD800, 0xDBFF, 0xDC00, 0xDFFF, 0xE000,
               0xFFFD, 0xFFFF, 0x10000, 0x1F600, 0x10FFFF, 0x110000, 2 ** 31 - 1, 2 ** 31, 2 ** 31 + 0x41, 2 ** 32 - 1, 2 ** 32,
               2 ** 32 + 0x41, 2 ** 32 + 0xE9, 2 ** 33 + 0x20AC, 2 ** 40, 2 ** 53, 2 ** 53 + 1, 2 ** 63 - 1, 2 ** 63, 2 ** 63 + 0x41,
               2 ** 64 - 1, 2 ** 64 - 2 ** 32 + 0x41, -1, -0x41, -0x80, -2 ** 15, -2 ** 31, -2 ** 32, -2 ** 32 + 0x41, -2 ** 32 - 0x41,
               -2 ** 53 - 1, -2 ** 63, -2 ** 63 + 0x41]
CONV_HEAD = r"""package main

type nU8 uint8
type nI64 int64
type nU uint
type nR rune
type nU64 uint64
type nI16 int16

type integer interface {
	~int8 | ~int16 | ~int32 | ~int64 | ~uint8 | ~uint16 | ~uint32 | ~uint64 | ~int | ~uint | ~uintptr
}

func gconv[T integer](x T) string { return string(x) }

func d(tag string, i int, s string) {
	b := [4]int{-1, -1, -1, -1}
	for j := 0; j < len(s) && j < 4; j++ {
		b[j] = int(s[j])
	}
	println(tag, i, len(s), b[0], b[1], b[2], b[3])
}
"""


def _balanced(e):
    d = 0
    for ch in e:
        d += ch == "("
        d -= ch == ")"
        if d < 0:
            return False
    return d == 0


def conv_tie(chk, tier):
    """string(x) for x of every integer type: compiled programs vs native Go (specification) and vs the Lean model
    (`utf8 conv <kind> <value>`), plus the emitted expression per kind (`utf8 convshape <kind>`)."""
    from . import progs
    import re
    vals = {}
    for t, (k, lo, hi) in INT_KINDS.items():
        vs = [v for v in CONV_BOUNDS if lo <= v <= hi]
        for _ in range(24 if tier == "thorough" else 8):
            c = chk.rng.choice(["rune", "any", "low"])
            if c == "rune":
                v = chk.rng.randrange(0, 0x110000)
            elif c == "low":          # values whose low 32 bits look like a valid rune
                v = chk.rng.randrange(0, 0x110000) + chk.rng.choice([1, -1]) * (chk.rng.randrange(1, 2 ** 31) << 32)
            else:
                v = chk.rng.randrange(lo, hi + 1)
            if lo <= v <= hi:
                vs.append(v)
        vals[t] = vs
    src = [CONV_HEAD]
    for t, vs in vals.items():
        src.append("func c_%s(x %s) string { return string(x) }\n" % (t, t))
        src.append("var v_%s = []%s{%s}\n" % (t, t, ", ".join(str(v) for v in vs)))
    src.append("func main() {\n")
    for t in vals:
        src.append("\tfor i, x := range v_%s {\n\t\td(\"%s\", i, string(x))\n\t\td(\"f:%s\", i, c_%s(x))\n\t\td(\"g:%s\", i, gconv(x))\n\t}\n" % (t, t, t, t, t))
    src.append("}\n")
    src = "".join(src)
    job = {"id": "conv", "files": {"main.go": src}, "variants": ["plain", "minify"], "native": True, "timeout": 60, "keep_js": True}
    r = progs.run_jobs([job])[0]
    nat = progs.observe_native(r["runs"]["native"])
    if nat[1] != "exit0":
        raise RuntimeError("conversion program does not run natively: %s" % (nat,))
    # expected lines from the model
    ops, tags = [], []
    for t, vs in vals.items():
        for form in ("", "f:", "g:"):
            for i, v in enumerate(vs):
                ops.append("utf8 conv %s %d" % (INT_KINDS[t][0], v))
                tags.append("%s%s %d" % (form, t, i))
    ops_order = {}
    # the program prints per type: for each i the three forms; rebuild that order
    lines_model = {}
    model = C.run_driver("C14", ops)
    spec = C.run_driver("C14", [o.replace(" conv ", " sconv ") for o in ops])
    for tg, o, m, sp in zip(tags, ops, model, spec):
        lines_model[tg] = (o, m, sp)

    def as_hex(line):
        p = line.split()
        n = int(p[2])
        bs = [int(x) for x in p[3:3 + min(n, 4)]]
        return " ".join(p[:2]), (C.hexs(bs) if n <= 4 else "len%d" % n)
    nat_map = dict(as_hex(l) for l in nat[0])
    for v in job["variants"]:
        obs = progs.observe_js(r["runs"][v])
        if obs[1] != "exit0":
            chk.add_mismatch("conversion:" + v, json.dumps({"id": "conv", "ending": obs[1], "source": src[:2000]}),
                             impl=json.dumps(obs[1]), spec="exit0")
            continue
        js_map = dict(as_hex(l) for l in obs[0])
        t_ops, t_impl, t_model, t_spec = [], [], [], []
        for tg, (o, m, sp) in lines_model.items():
            t_ops.append("%s  # %s, %s" % (o, tg, v))
            t_impl.append(js_map.get(tg, "missing"))
            t_model.append(m)
            # two specifications must agree: native Go and the Lean spec of the value's encoding
            if nat_map.get(tg) != sp:
                raise RuntimeError("native Go and GV.Spec.Utf8.encode disagree on %s: %s vs %s" % (o, nat_map.get(tg), sp))
            t_spec.append(sp)
        chk.compare("int-to-string:" + v, t_ops, t_impl, t_model, spec=t_spec,
                    kind=lambda o, a: "conv:%s:len=%d" % (o.split()[2], len(a) // 2))
    # the emitted expression per kind
    js = r["runs"]["plain"].get("js", "")
    s_ops, s_impl = [], []
    for t in vals:
        m = re.search(r"\bc_%s = function[^(]*\(x\) \{(?:\s*var [^;]*;)*\s*return ([^;]*);" % re.escape(t), js)
        s_ops.append("utf8 convshape %s" % INT_KINDS[t][0])
        if not m:
            raise RuntimeError("conversion function c_%s not found in the compiled output (harness pattern out of date)" % t)
        e = m.group(1).strip()
        while e.startswith("(") and e.endswith(")") and _balanced(e[1:-1]):
            e = e[1:-1]
        s_impl.append(e)
    chk.compare("int-to-string-shape", ["%s  # %s" % (o, t) for o, t in zip(s_ops, vals)], s_impl, C.run_driver("C14", s_ops),
                kind=lambda o, a: "shape")
    chk.extra["conversion_cases"] = len(ops)


def kind(op, ans):
    p = op.split()
    k = p[1]
    if k == "decode":
        return "decode:width=%s%s" % (ans.split()[1], ":fffd" if ans.startswith("65533 ") else "")
    if k == "substring":
        return "substring:" + ("panic" if ans.startswith("panic") else "ok")
    if k == "encode":
        return "encode:len=%d" % (len(ans) // 2)
    return k


def run(tier, seed):
    chk = C.Check("C14", tier, seed)
    chk.rule = ("ops = calls of the real prelude string helpers ($decodeRune,$encodeRune,$stringToRunes,$runesToString,"
                "$substring,$copyString) under Node; exhaustive over all byte strings of length <= %d over a 19-byte boundary "
                "alphabet x all positions, plus seeded random strings/runes/index pairs; an op is non-trivial when distinct "
                "(sha1 of the op line); compared line by line with the Lean driver" % (4 if tier == "thorough" else 3))
    chk.trusted = ["Lean 4.33 kernel", "axioms: propext, Classical.choice, Quot.sound at most (listed per theorem)",
                   "hand-written model GV.Model.Utf8 tied to prelude.js by this differential run (Node runner harness/js)",
                   "GV.Spec.Utf8 = my transcription of Unicode Table 3-7 and the Go spec"]
    chk.assumptions = ["JS strings holding Go strings contain only code units 0..255 (compiler invariant, observed not proved)",
                       "V8 implements charCodeAt/String.fromCharCode/bit operators per ECMAScript"]
    chk.proof = C.check_proofs("C14", THEOREMS, tier)
    ops = gen_ops(tier, chk.rng)
    impl = C.run_node(ops)
    model = C.run_driver("C14", ops)
    chk.compare("prelude-utf8", ops, impl, model, kind=kind)
    # --- []byte <-> string conversions incl. long slices with offsets (the 10000-byte chunking of $bytesToString) ---
    bops, bspec = [], []
    shapes = [(0, 0, 0), (5, 0, 5), (5, 2, 3), (5, 5, 0)]
    for total in (9999, 10000, 10001, 20000, 25003, 30000):
        for off in (0, 1, 3, 4999, 9999, 10000, 10001):
            for ln in (0, 1, 9999, 10000, 10001, total - off):
                if off + ln <= total and ln >= 0:
                    shapes.append((total, off, ln))
    for _ in range(40 if tier == "thorough" else 10):
        total = chk.rng.randrange(1, 45000)
        off = chk.rng.randrange(0, total)
        shapes.append((total, off, chk.rng.randrange(0, total - off + 1)))
    for (total, off, ln) in shapes:
        arr = bytes(chk.rng.randrange(256) for _ in range(min(total, 64))) * (total // 64 + 1)
        arr = arr[:total]
        bops.append("utf8 bytes2str %s %d %d" % (C.hexs(arr), off, ln))
        bspec.append("utf8 sbytes2str %s %d %d" % (C.hexs(arr), off, ln))
    for _ in range(300):
        bops.append("utf8 str2bytes %s" % C.hexs(rand_string(chk.rng, 12)))
        bspec.append(bops[-1])
    chk.compare("bytes-string", bops, C.run_node(bops), C.run_driver("C14", bops), spec=C.run_driver("C14", bspec),
                kind=lambda o, a: o.split()[1] + (":long" if len(o) > 20000 else ""))
    # --- string literals: real encodeString (hook) -> literal text; the engine's reading of it; vs the model ---
    C.build_gvh("gvh_c14")
    strs = [[b] for b in range(256)] + [[a, b] for a in (34, 92, 0, 10, 13, 8, 0x7F, 0x80, 0xFF, 120, 47, 42) for b in (34, 92, 120, 48, 65, 10, 0xE2, 47, 42)]
    for _ in range(20000 if tier == "thorough" else 3000):
        n = chk.rng.choice([1, 2, 3, 8, 30])
        strs.append([chk.rng.choice([chk.rng.randrange(256), chk.rng.choice([34, 92, 10, 13, 0, 9, 11, 12, 8, 0x7E, 0x7F, 0x1F, 0x20, 0x2F, 0x2A, 120])])
                     for _ in range(n)])
    strs.append(list(b"/* not a comment */ // nor this \\x41 \\\" ' ` ${x}"))
    hexs_ = [C.hexs(s) for s in strs]
    lit_impl = C.run_gvh_lines([], hexs_, name="gvh_c14")
    enc_ops = ["utf8 encstr %s" % h for h in hexs_]
    chk.compare("encodeString", enc_ops, lit_impl, C.run_driver("C14", enc_ops), kind=lambda o, a: "encstr")
    # the engine's reading of the REAL literal must be the original bytes (spec) and equal the model's reading
    js_ops = ["utf8 jslit %s" % l for l in lit_impl]
    chk.compare("literal-value", js_ops, C.run_node(js_ops), C.run_driver("C14", js_ops), spec=hexs_, kind=lambda o, a: "jslit")
    program_tie(chk, tier)
    conv_tie(chk, tier)
    chk.extra["exhaustive"] = False
    chk.extra["exhaustive_subspace"] = "all byte strings of length <= %d over %d boundary bytes x all positions" % (
        4 if tier == "thorough" else 3, len(ALPHABET))
    return chk.finish()


def replay(path):
    rep = json.load(open(path))
    ops = [m["op"] for m in rep.get("failing_inputs", []) if m["op"].startswith("utf8 ") and "#" not in m["op"]]
    for m in rep.get("failing_inputs", []):
        if "#" in m["op"] or not m["op"].startswith("utf8 "):
            print("compiled-program input (re-run the check to reproduce):", m["op"][:300], "impl:", m.get("impl"), "spec:", m.get("spec"))
    if not ops and rep.get("failing_inputs"):
        return 1
    if not ops:
        print("no failing input recorded; broken obligations:", rep.get("broken_obligations"))
        return 1
    impl = C.run_node(ops)
    model = C.run_driver("C14", ops)
    bad = 0
    for o, a, b in zip(ops, impl, model):
        print("%s\n  impl : %s\n  model: %s" % (o, a, b))
        bad += a != b
    return 1 if bad else 0
