"""C14 — strings are byte sequences with Go's UTF-8 behaviour.
Proof: GV.Props.C14 (prelude decode/encode = Unicode Table 3-7 + Go's U+FFFD rule, round trip).
Tie: the real prelude functions under Node vs the Lean driver, exhaustive over a boundary alphabet."""
import itertools
import json
from . import common as C

ALPHABET = [0x00, 0x7F, 0x80, 0xBF, 0xC0, 0xC1, 0xC2, 0xDF, 0xE0, 0xED, 0xEF, 0xF0, 0xF4, 0xF5, 0xFF, 0x9F, 0xA0, 0x8F, 0x90]
THEOREMS = ["literal_roundtrip", "literal_ascii", "decode_spec", "decode_width", "range_spec", "encode_spec", "spec_decode_encode", "decode_encode",
            "encode_nonscalar", "core_specO"]
RUNE_BOUNDS = [0, 0x7F, 0x80, 0x7FF, 0x800, 0xD7FF, 0xD800, 0xDFFF, 0xE000, 0xFFFD, 0xFFFF, 0x10000, 0x10FFFF, 0x110000,
               0x7FFFFFFF, -1, -0x80000000]


def rand_valid(rng):
    r = rng.choice([rng.randrange(0, 0x80), rng.randrange(0x80, 0x800), rng.randrange(0x800, 0xD800),
                    rng.randrange(0xE000, 0x10000), rng.randrange(0x10000, 0x110000)])
    return list(chr(r).encode("utf-8"))


def rand_string(rng, maxlen):
    out = []
    while len(out) < maxlen and rng.random() < 0.9:
        k = rng.random()
        if k < 0.5:
            out += rand_valid(rng)
        elif k < 0.8:
            out.append(rng.choice(ALPHABET))
        elif k < 0.9:
            v = rand_valid(rng)
            out += v[:rng.randrange(0, len(v) + 1)]      # truncated sequence
        else:
            out.append(rng.randrange(256))
    return out[:maxlen]


def gen_ops(tier, rng):
    ops = []
    maxlen = 4 if tier == "thorough" else 3
    for n in range(0, maxlen + 1):
        for s in itertools.product(ALPHABET, repeat=n):
            h = C.hexs(s)
            for pos in range(0, n + 1):
                ops.append("utf8 decode %s %d" % (h, pos))
            if n <= 3:
                ops.append("utf8 runes %s" % h)
                ops.append("utf8 range %s" % h)
    nrand = 40000 if tier == "thorough" else 4000
    for _ in range(nrand):
        s = rand_string(rng, rng.choice([4, 5, 8, 16, 40]))
        h = C.hexs(s)
        ops.append("utf8 decode %s %d" % (h, rng.randrange(0, len(s) + 2)))
        ops.append("utf8 runes %s" % h)
        ops.append("utf8 range %s" % h)
        lo = rng.randrange(-1, len(s) + 2)
        hi = rng.randrange(-1, len(s) + 2)
        ops.append("utf8 substring %s %d %d" % (h, lo, hi))
        ops.append("utf8 copy %d %s" % (rng.randrange(0, len(s) + 3), h))
    # all slice index pairs of a few strings
    for s in ([], [0x61], [0x61, 0xE2, 0x82, 0xAC], [0xFF, 0x00, 0x80, 0x7F, 0xC2]):
        for lo in range(-1, len(s) + 2):
            for hi in range(-1, len(s) + 2):
                ops.append("utf8 substring %s %d %d" % (C.hexs(s), lo, hi))
    runes = set()
    for b in RUNE_BOUNDS:
        for d in (-2, -1, 0, 1, 2):
            runes.add(b + d)
    for _ in range(20000 if tier == "thorough" else 3000):
        runes.add(rng.choice([rng.randrange(-5, 0x110010), rng.randrange(-2 ** 31, 2 ** 31)]))
    if tier == "thorough":
        runes.update(range(0, 0x110000, 7))
    for r in sorted(x for x in runes if -2 ** 31 <= x < 2 ** 31):
        ops.append("utf8 encode %d" % r)
    for _ in range(3000 if tier == "thorough" else 500):
        rs = [rng.choice([rng.randrange(0, 0x110000), rng.choice(RUNE_BOUNDS), rng.randrange(-3, 300)]) for _ in range(rng.randrange(0, 8))]
        rs = [r for r in rs if -2 ** 31 <= r < 2 ** 31]
        ops.append("utf8 fromrunes %s" % (",".join(map(str, rs)) if rs else "-"))
    return ops


def kind(op, ans):
    p = op.split()
    k = p[1]
    if k == "decode":
        return "decode:width=%s%s" % (ans.split()[1], ":fffd" if ans.startswith("65533 ") else "")
    if k == "substring":
        return "substring:" + ("panic" if ans.startswith("panic") else "ok")
    if k == "encode":
        return "encode:len=%d" % (len(ans) // 2)
    return k


def run(tier, seed):
    chk = C.Check("C14", tier, seed)
    chk.rule = ("ops = calls of the real prelude string helpers ($decodeRune,$encodeRune,$stringToRunes,$runesToString,"
                "$substring,$copyString) under Node; exhaustive over all byte strings of length <= %d over a 19-byte boundary "
                "alphabet x all positions, plus seeded random strings/runes/index pairs; an op is non-trivial when distinct "
                "(sha1 of the op line); compared line by line with the Lean driver" % (4 if tier == "thorough" else 3))
    chk.trusted = ["Lean 4.33 kernel", "axioms: propext, Classical.choice, Quot.sound at most (listed per theorem)",
                   "hand-written model GV.Model.Utf8 tied to prelude.js by this differential run (Node runner harness/js)",
                   "GV.Spec.Utf8 = my transcription of Unicode Table 3-7 and the Go spec"]
    chk.assumptions = ["JS strings holding Go strings contain only code units 0..255 (compiler invariant, observed not proved)",
                       "V8 implements charCodeAt/String.fromCharCode/bit operators per ECMAScript"]
    chk.proof = C.check_proofs("C14", THEOREMS, tier)
    ops = gen_ops(tier, chk.rng)
    impl = C.run_node(ops)
    model = C.run_driver("C14", ops)
    chk.compare("prelude-utf8", ops, impl, model, kind=kind)
    # --- string literals: real encodeString (hook) -> literal text; the engine's reading of it; vs the model ---
    C.build_gvh("gvh_c14")
    strs = [[b] for b in range(256)] + [[a, b] for a in (34, 92, 0, 10, 13, 8, 0x7F, 0x80, 0xFF, 120, 47, 42) for b in (34, 92, 120, 48, 65, 10, 0xE2, 47, 42)]
    for _ in range(20000 if tier == "thorough" else 3000):
        n = chk.rng.choice([1, 2, 3, 8, 30])
        strs.append([chk.rng.choice([chk.rng.randrange(256), chk.rng.choice([34, 92, 10, 13, 0, 9, 11, 12, 8, 0x7E, 0x7F, 0x1F, 0x20, 0x2F, 0x2A, 120])])
                     for _ in range(n)])
    strs.append(list(b"/* not a comment */ // nor this \\x41 \\\" ' ` ${x}"))
    hexs_ = [C.hexs(s) for s in strs]
    lit_impl = C.run_gvh_lines([], hexs_, name="gvh_c14")
    enc_ops = ["utf8 encstr %s" % h for h in hexs_]
    chk.compare("encodeString", enc_ops, lit_impl, C.run_driver("C14", enc_ops), kind=lambda o, a: "encstr")
    # the engine's reading of the REAL literal must be the original bytes (spec) and equal the model's reading
    js_ops = ["utf8 jslit %s" % l for l in lit_impl]
    chk.compare("literal-value", js_ops, C.run_node(js_ops), C.run_driver("C14", js_ops), spec=hexs_, kind=lambda o, a: "jslit")
    chk.extra["exhaustive"] = False
    chk.extra["exhaustive_subspace"] = "all byte strings of length <= %d over %d boundary bytes x all positions" % (
        4 if tier == "thorough" else 3, len(ALPHABET))
    return chk.finish()


def replay(path):
    rep = json.load(open(path))
    ops = [m["op"] for m in rep.get("failing_inputs", [])]
    if not ops:
        print("no failing input recorded; broken obligations:", rep.get("broken_obligations"))
        return 1
    impl = C.run_node(ops)
    model = C.run_driver("C14", ops)
    bad = 0
    for o, a, b in zip(ops, impl, model):
        print("%s\n  impl : %s\n  model: %s" % (o, a, b))
        bad += a != b
    return 1 if bad else 0
