"""Shared machinery of the /verif checks: Lean build + axiom audit, driver / runner
plumbing, evidence, replay and known-findings handling.

Every check is `python3 run.py Cxx --tier quick|thorough`; see DESIGN.md section 2.
"""
import fcntl
import hashlib
import json
import os
import random
import re
import shutil
import subprocess
import sys
import tempfile
import time

VERIF = os.path.dirname(os.path.dirname(os.path.abspath(__file__)))
REPO = os.environ.get("VERIF_REPO", "/repo")
LEAN = os.path.join(VERIF, "lean")
HARNESS = os.path.join(VERIF, "harness")
RUNNER = os.path.join(HARNESS, "js", "runner.js")
GVH = os.path.join(HARNESS, "bin", "gvh")

ALLOWED_AXIOMS = {"propext", "Classical.choice", "Quot.sound"}
FORBIDDEN = re.compile(r"\bsorry\b|\badmit\b|^\s*axiom\s|native_decide|bv_decide|implemented_by|\bunsafe\s|maxHeartbeats\s+0", re.M)

GOENV = {
    "GOFLAGS": "-mod=mod", "GOPROXY": "off", "GOSUMDB": "off", "GOTOOLCHAIN": "local",
    "GOPHERJS_SKIP_VERSION_CHECK": "true", "CGO_ENABLED": "0",
}


def env():
    e = dict(os.environ)
    e.update(GOENV)
    return e


def log(*a):
    print(*a, file=sys.stderr, flush=True)


class Lock:
    def __init__(self, name):
        self.path = os.path.join(VERIF, ".locks")
        os.makedirs(self.path, exist_ok=True)
        self.f = open(os.path.join(self.path, name), "w")

    def __enter__(self):
        fcntl.flock(self.f, fcntl.LOCK_EX)
        return self

    def __exit__(self, *a):
        fcntl.flock(self.f, fcntl.LOCK_UN)
        self.f.close()


def sh(cmd, cwd=None, timeout=None, input=None, check=False, extra_env=None):
    e = env()
    if extra_env:
        e.update(extra_env)
    p = subprocess.run(cmd, cwd=cwd, env=e, input=input, capture_output=True, text=True, timeout=timeout,
                       shell=isinstance(cmd, str))
    if check and p.returncode != 0:
        raise RuntimeError("command failed: %s\n%s\n%s" % (cmd, p.stdout[-4000:], p.stderr[-4000:]))
    return p


# --------------------------------------------------------------------------------------
# Lean side
# --------------------------------------------------------------------------------------

def strip_comments(src):
    # remove /- ... -/ (nested) and -- ... comments, keep strings naive (no string contains them here)
    out = []
    i = 0
    depth = 0
    n = len(src)
    while i < n:
        if src.startswith("/-", i):
            depth += 1
            i += 2
        elif depth > 0 and src.startswith("-/", i):
            depth -= 1
            i += 2
        elif depth > 0:
            i += 1
        elif src.startswith("--", i):
            while i < n and src[i] != "\n":
                i += 1
        else:
            out.append(src[i])
            i += 1
    return "".join(out)


def lean_sources():
    res = []
    for root, _, files in os.walk(LEAN):
        if ".lake" in root:
            continue
        for f in files:
            if f.endswith(".lean"):
                res.append(os.path.join(root, f))
    return sorted(res)


def module_file(mod):
    return os.path.join(LEAN, *mod.split(".")) + ".lean"


def import_closure(roots):
    """Lean source files of the project reachable through `import GV.…`/`import Drivers.…` from the root modules."""
    seen, todo = {}, list(roots)
    while todo:
        m = todo.pop()
        if m in seen:
            continue
        f = module_file(m)
        if not os.path.exists(f):
            continue
        seen[m] = f
        for line in strip_comments(open(f).read()).split("\n"):
            mm = re.match(r"\s*(?:public\s+)?import\s+(GV\.[\w.]+|Drivers\.[\w.]+)", line)
            if mm:
                todo.append(mm.group(1))
    return seen


def forbidden_scan(roots=None):
    """sorry/admit/axiom/native_decide/... in the Lean sources (comments stripped) of the import closure of `roots`
    (all project sources when roots is None)."""
    hits = []
    files = sorted(import_closure(roots).values()) if roots else lean_sources()
    for f in files:
        body = strip_comments(open(f).read())
        for m in FORBIDDEN.finditer(body):
            hits.append("%s: %s" % (os.path.relpath(f, LEAN), m.group(0).strip()))
    return hits


def lake_build(targets):
    """Build the given lake targets (module names or `gvdriver`). Returns (ok, log)."""
    with Lock("lake"):
        p = sh(["lake", "build"] + list(targets), cwd=LEAN, timeout=3600)
    return p.returncode == 0, p.stdout + p.stderr


def audit(module, theorems):
    """#print axioms for each theorem; returns {thm: [axioms]} or raises."""
    src = "import %s\n" % module + "".join("#print axioms %s\n" % t for t in theorems)
    with tempfile.NamedTemporaryFile("w", suffix=".lean", dir=LEAN, delete=False) as f:
        f.write(src)
        tmp = f.name
    try:
        with Lock("lake"):
            p = sh(["lake", "env", "lean", tmp], cwd=LEAN, timeout=1800)
    finally:
        os.unlink(tmp)
    out = p.stdout + p.stderr
    res = {}
    # "'GV.Props.C14.decode_spec' depends on axioms: [propext, Quot.sound]" (may wrap over lines)
    flat = re.sub(r"\s+", " ", out)
    for t in theorems:
        m = re.search(r"'%s' depends on axioms: \[([^\]]*)\]" % re.escape(t), flat)
        if m:
            res[t] = [a.strip() for a in m.group(1).split(",") if a.strip()]
        elif re.search(r"'%s' does not depend on any axioms" % re.escape(t), flat):
            res[t] = []
        else:
            res[t] = None  # unknown / missing theorem
    return res, out


def leanchecker(module):
    with Lock("lake"):
        p = sh(["lake", "env", "leanchecker", module], cwd=LEAN, timeout=3600)
    return p.returncode == 0, (p.stdout + p.stderr)[-2000:]


class ProofResult:
    def __init__(self):
        self.obligations = []     # theorem names
        self.discharged = []      # theorem names accepted
        self.failed = []          # (name, reason)
        self.axioms = {}
        self.build_ok = False
        self.build_log = ""
        self.forbidden = []
        self.leanchecker = None


def check_proofs(pid, theorems, tier, extra_targets=(), module=None):
    """lake build module (+driver), forbid sorry & friends, audit axioms of `theorems`."""
    module = module or "GV.Props.%s" % pid
    theorems = [t if t.startswith("GV.") else "%s.%s" % (module, t) for t in theorems]
    r = ProofResult()
    r.obligations = list(theorems)
    r.forbidden = forbidden_scan([module, "Drivers.%s" % pid])
    ok, blog = lake_build([module, "gvdriver_%s" % pid.lower()] + list(extra_targets))
    r.build_ok = ok
    r.build_log = blog[-6000:]
    if "declaration uses `sorry`" in blog or "declaration uses 'sorry'" in blog:
        r.forbidden.append("build log: declaration uses sorry")
    if not ok:
        # which theorems fail? anything in the module is suspect; report all as undischarged
        for t in theorems:
            r.failed.append((t, "lake build %s failed" % module))
        return r
    ax, raw = audit(module, theorems)
    r.axioms = ax
    for t in theorems:
        a = ax.get(t)
        if a is None:
            r.failed.append((t, "theorem not found by #print axioms"))
        elif not set(a) <= ALLOWED_AXIOMS:
            r.failed.append((t, "uses axioms %s" % a))
        elif r.forbidden:
            r.failed.append((t, "forbidden token in Lean sources: %s" % r.forbidden[:3]))
        else:
            r.discharged.append(t)
    if tier == "thorough":
        okc, clog = leanchecker(module)
        r.leanchecker = okc
        if not okc:
            r.failed.append((module, "leanchecker rejected: " + clog[-300:]))
    return r


# --------------------------------------------------------------------------------------
# Driver / runner plumbing
# --------------------------------------------------------------------------------------

def driver_path(pid):
    return os.path.join(LEAN, ".lake", "build", "bin", "gvdriver_%s" % pid.lower())


def run_driver(pid, lines):
    p = subprocess.run([driver_path(pid)], input="\n".join(lines) + "\n", capture_output=True, text=True, timeout=3600)
    if p.returncode != 0:
        raise RuntimeError("gvdriver failed: " + p.stderr[-2000:])
    out = p.stdout.split("\n")
    if out and out[-1] == "":
        out.pop()
    if len(out) != len(lines):
        raise RuntimeError("gvdriver answered %d lines for %d ops" % (len(out), len(lines)))
    return out


def run_node(lines, repo=None, timeout=3600):
    p = subprocess.run(["node", "--stack-size=4000", RUNNER, repo or REPO], input="\n".join(lines) + "\n",
                       capture_output=True, text=True, timeout=timeout)
    if p.returncode != 0:
        raise RuntimeError("node runner failed: " + p.stderr[-3000:])
    out = p.stdout.split("\n")
    if out and out[-1] == "":
        out.pop()
    if len(out) != len(lines):
        raise RuntimeError("node runner answered %d lines for %d ops: %s" % (len(out), len(lines), p.stderr[-1000:]))
    return out


def _repo_tag():
    return "" if REPO == "/repo" else "." + hashlib.sha1(REPO.encode()).hexdigest()[:8]


def gvh_path(name="gvh"):
    return os.path.join(HARNESS, "bin", name + _repo_tag())


def build_gvh(name="gvh"):
    """(Re)build a Go harness binary (harness/cmd/<name>) against the repo's working tree with the verif tag.
    With VERIF_REPO=<copy> an alternate go.mod (replace => <copy>) is used, so mutation trials never touch /repo.
    Raises on failure: a harness that does not build is a harness failure, never a VIOLATION."""
    os.makedirs(os.path.join(HARNESS, "bin"), exist_ok=True)
    with Lock("gobuild"):
        args = ["go", "build", "-tags", "verif"]
        gosum = os.path.join(REPO, "go.sum")
        if REPO == "/repo":
            if os.path.exists(gosum):
                shutil.copyfile(gosum, os.path.join(HARNESS, "go.sum"))
        else:
            mod = os.path.join(HARNESS, "alt%s.mod" % _repo_tag())
            base = open(os.path.join(HARNESS, "go.mod")).read()
            open(mod, "w").write(base.replace("=> /repo", "=> " + REPO))
            shutil.copyfile(gosum, mod[:-4] + ".sum")
            args += ["-modfile", mod]
        p = sh(args + ["-o", gvh_path(name), "./cmd/" + name], cwd=HARNESS, timeout=1800)
    if p.returncode != 0:
        raise RuntimeError("go build of harness %s failed:\n%s" % (name, (p.stdout + p.stderr)[-4000:]))
    return gvh_path(name)


def run_gvh(args, lines=None, timeout=3600, extra_env=None, name="gvh"):
    e = env()
    e["VERIF_REPO"] = REPO
    if extra_env:
        e.update(extra_env)
    p = subprocess.run([gvh_path(name)] + list(args), input=None if lines is None else "\n".join(lines) + "\n",
                       capture_output=True, text=True, timeout=timeout, env=e)
    return p


def run_gvh_lines(args, lines, timeout=3600, extra_env=None, name="gvh"):
    p = run_gvh(args, lines, timeout, extra_env, name)
    if p.returncode != 0:
        raise RuntimeError("gvh %s failed: %s" % (args, p.stderr[-3000:]))
    out = p.stdout.split("\n")
    if out and out[-1] == "":
        out.pop()
    if len(out) != len(lines):
        raise RuntimeError("gvh %s answered %d lines for %d ops: %s" % (args, len(out), len(lines), p.stderr[-1000:]))
    return out


def scratch(prefix="gv"):
    base = os.environ.get("VERIF_SCRATCH") or tempfile.gettempdir()
    return tempfile.mkdtemp(prefix=prefix + "-", dir=base)


# --------------------------------------------------------------------------------------
# Findings, replays, evidence
# --------------------------------------------------------------------------------------

def load_known():
    """known_findings.json = {"findings":[{property,id,signature,witness,what_fails}], "fixed":[...]}.
    Fragments under known_findings.d/*.json (same shape) are merged in (used while a check is being developed;
    tools/merge_known.py folds them into the single committed file). Never written at run time."""
    res = {"findings": [], "fixed": []}
    paths = [os.path.join(VERIF, "known_findings.json")]
    d = os.path.join(VERIF, "known_findings.d")
    if os.path.isdir(d):
        paths += [os.path.join(d, f) for f in sorted(os.listdir(d)) if f.endswith(".json")]
    for p in paths:
        if os.path.exists(p):
            j = json.load(open(p))
            res["findings"] += j.get("findings", [])
            res["fixed"] += j.get("fixed", [])
    return res


class Check:
    """Collects results for one property run and produces the output contract."""

    def __init__(self, pid, tier, seed, level="proof"):
        self.pid = pid
        self.tier = tier
        self.seed = seed
        self.level = level
        self.t0 = time.time()
        self.rng = random.Random(seed * 1000003 + int(pid[1:]))
        self.proof = None
        self.evaluations = 0
        self.distinct = set()
        self.samples = []
        self.rule = ""
        self.histogram = {}
        self.mismatches = []      # property failures: {tie, op, impl, model, spec, signature}
        self.tie_breaks = {}      # tie -> [{op, impl, model}]: model/code disagreements
        self.broken = []          # proof obligations / I-ties that no longer check: (name, detail)
        self.assumptions = []
        self.trusted = []
        self.extra = {}
        self.known = [k for k in load_known().get("findings", []) if k.get("property") == pid]
        self.known_seen = {}
        self.notes = []

    # -- correspondence -----------------------------------------------------------------
    def count(self, key, n=1):
        self.histogram[key] = self.histogram.get(key, 0) + n

    def compare(self, tie, ops, impl, model, spec=None, signature=None, nontrivial=None, kind=None):
        """Three-way, line-by-line comparison.
        impl  = answers of the real code, model = answers of the Lean model (a transcription of the code),
        spec  = answers of the Lean specification (what the property demands). When `spec` is None the model
        itself is the oracle: only do that when `model = spec` is one of the proved obligations.
          impl != spec  -> the property fails on this input (VIOLATION with the input as replay, unless the
                           signature is a listed known finding)
          impl != model -> the correspondence `tie` is broken (model no longer describes the code); if no failing
                           input is found anywhere the run ends with VIOLATION ... no-failing-input-found.
        signature(op, impl, spec) -> canonical signature string of a failing input, matched against known findings."""
        assert len(ops) == len(impl) == len(model), (len(ops), len(impl), len(model))
        if spec is not None:
            assert len(spec) == len(ops)
        for i, o in enumerate(ops):
            a, b = impl[i], model[i]
            c = spec[i] if spec is not None else b
            self.evaluations += 1
            if kind:
                self.count(kind(o, c))
            if nontrivial is None or nontrivial(o, c):
                self.distinct.add(hashlib.sha1((tie + "|" + o).encode()).digest()[:8])
            if a != c:
                sig = signature(o, a, c) if signature else None
                self.mismatches.append({"tie": tie, "op": o, "impl": a, "model": b, "spec": c, "signature": sig})
            if a != b:
                self.tie_breaks.setdefault(tie, []).append({"op": o, "impl": a, "model": b})
        if ops and len(self.samples) < 12:
            for j in sorted(set([0, len(ops) // 3, (2 * len(ops)) // 3, len(ops) - 1])):
                smp = {"tie": tie, "op": ops[j][:400], "impl": impl[j][:400], "model": model[j][:400]}
                if spec is not None:
                    smp["spec"] = spec[j][:400]
                self.samples.append(smp)

    def add_mismatch(self, tie, op, impl, spec, signature=None, model=None):
        """A property failure found by a custom oracle (e.g. GopherJS output vs native Go output)."""
        self.mismatches.append({"tie": tie, "op": op, "impl": impl, "model": model, "spec": spec, "signature": signature})

    def add_tie_break(self, tie, op, impl, model):
        """The model (or an extracted fact) no longer matches the code at `op`; not by itself a property failure."""
        self.tie_breaks.setdefault(tie, []).append({"op": op, "impl": impl, "model": model})

    def add_case(self, tie, op, nontrivial=True, kindkey=None, sample=None):
        """Account for one explored case of a custom tie (programs, histories, ...)."""
        self.evaluations += 1
        if nontrivial:
            self.distinct.add(hashlib.sha1((tie + "|" + op).encode()).digest()[:8])
        if kindkey:
            self.count(kindkey)
        if sample is not None and len(self.samples) < 12:
            self.samples.append(sample)

    def known_match(self, sig):
        if sig is None:
            return None
        for k in self.known:
            if k.get("signature") == sig:
                return k
        return None

    # -- output -------------------------------------------------------------------------
    def finish(self):
        wall = time.time() - self.t0
        violations = []
        for m in self.mismatches:
            k = self.known_match(m.get("signature"))
            if k is not None:
                self.known_seen.setdefault(k["id"], (k, m))
            else:
                violations.append(m)
        proof_failed = list(self.proof.failed) if self.proof else []
        for tie, lst in sorted(self.tie_breaks.items()):
            # a tie break whose inputs are all accounted for by known findings (model mirrors a recorded defect
            # differently) still counts: the model must describe the code. Report it as a broken correspondence.
            self.broken.append(("correspondence:" + tie, "%d disagreement(s) between the Lean model and the implementation; first: %s" % (
                len(lst), json.dumps(lst[0])[:600])))
        for k, (kf, m) in sorted(self.known_seen.items()):
            print("KNOWN-FINDING: property=%s %s" % (self.pid, kf["what_fails"]))
        exit_code = 0
        replay_path = None
        if violations or proof_failed or self.broken:
            os.makedirs(os.path.join(VERIF, "replays"), exist_ok=True)
            replay_path = os.path.join(VERIF, "replays", "%s-%d-%s.json" % (self.pid, self.seed, self.tier))
            rep = {
                "property": self.pid, "tier": self.tier, "seed": self.seed,
                "failing_inputs": violations[:20],
                "correspondence_breaks": {t: l[:10] for t, l in self.tie_breaks.items()},
                "broken_obligations": [{"name": n, "detail": d} for n, d in (proof_failed + self.broken)],
                "replay_cmd": "python3 run.py %s --replay %s" % (self.pid, replay_path),
                "notes": self.notes,
            }
            if self.proof and not self.proof.build_ok:
                rep["lean_build_log_tail"] = self.proof.build_log[-3000:]
            json.dump(rep, open(replay_path, "w"), indent=1)
            suffix = "" if violations else " no-failing-input-found"
            print("VIOLATION property=%s replay=%s%s" % (self.pid, replay_path, suffix))
            exit_code = 1
        cov = {
            "evaluations": self.evaluations,
            "distinct_nontrivial": len(self.distinct),
            "rule": self.rule,
            "samples": self.samples[:12] if self.samples else [{"note": "no correspondence samples in this run"}],
            "histogram": dict(sorted(self.histogram.items())),
            "trusted_base": self.trusted,
            "checker_cmd": "cd /verif/lean && lake build GV.Props.%s && lake env lean <#print axioms file>%s" % (
                self.pid, " && lake env leanchecker GV.Props.%s" % self.pid if self.tier == "thorough" else ""),
            "known_findings_reobserved": sorted(self.known_seen.keys()),
        }
        if self.proof:
            cov["obligations"] = len(self.proof.obligations)
            cov["discharged"] = len(self.proof.discharged)
            cov["theorems"] = {t: self.proof.axioms.get(t) for t in self.proof.obligations}
            cov["forbidden_token_hits"] = self.proof.forbidden
            if self.proof.leanchecker is not None:
                cov["leanchecker_ok"] = self.proof.leanchecker
        cov.update(self.extra)
        # schema hygiene: these keys must be integers when present
        for k in ("programs", "states", "transitions", "traces_validated_against_impl", "disagreements_checked"):
            v = cov.get(k)
            if v is not None and not isinstance(v, int):
                cov[k + "_detail"] = v
                if isinstance(v, dict) and isinstance(v.get(k), int):
                    cov[k] = v[k]
                elif isinstance(v, (list, dict)):
                    cov[k] = len(v)
                else:
                    del cov[k]
        ev = {
            "property_id": self.pid, "tier": self.tier, "seed": self.seed, "level": self.level,
            "coverage": cov, "assumptions": self.assumptions, "wall_s": round(wall, 2),
            "violations": len(violations) + len(proof_failed) + len(self.broken),
        }
        # runs against a scratch copy of the repository (mutation trials, VERIF_REPO) never overwrite the evidence of /repo
        evdir = os.path.join(VERIF, "evidence") if REPO == "/repo" else os.path.join(VERIF, "evidence", ".trial")
        os.makedirs(evdir, exist_ok=True)
        json.dump(ev, open(os.path.join(evdir, "%s.json" % self.pid), "w"), indent=1)
        log("[%s] tier=%s seed=%d evaluations=%d distinct=%d mismatches=%d known=%d wall=%.1fs exit=%d" % (
            self.pid, self.tier, self.seed, self.evaluations, len(self.distinct), len(self.mismatches),
            len(self.known_seen), wall, exit_code))
        return exit_code


def hexs(bs):
    return "-" if len(bs) == 0 else bytes(bs).hex()
